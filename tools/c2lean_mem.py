#!/usr/bin/env python3
"""
Translator for the smart pointers and array views of libcstl  ->  Lean 4.

    include/cstl/memory.h, src/memory.c          guarded / unique / shared / weak pointers
    include/cstl/array.h, end of src/array.c     cstl_array_* views

Reads the typed AST clang produces for /repo's *current* source and emits

  * `Cstl.Gen.MemC`  — every entry point as a monadic sequence of the primitive
    accesses of `lean/Cstl/Mem/CPrim.lean` (stamp check / stamp write, word
    loads and stores, counter fetch-add / fetch-sub returning the old value,
    `malloc` with an oracle answer, `free`, the clear callback, `abort`), one
    generated definition per C function, calling each other like the C code;
    `lean/Cstl/Mem/Tie.lean` proves `model function = generated definition`.
  * `Cstl.Gen.ConcC`  — for the same functions the *skeleton* of atomic
    operations and other accesses to shared state (callback, free), with the
    branching on observed values and the spin loop, in the vocabulary of
    `lean/Cstl/Conc/Sk.lean`; `lean/Cstl/Conc/Tie.lean` proves that the pc
    structure of `Cstl/Conc/Model.lean` is exactly that skeleton.

The atomics are read through a six-line stand-in <stdatomic.h> (plain function
prototypes with the C11 names) so that they appear by name in the AST; nothing
in /repo is touched.  Supported C subset: what these functions use (locals,
`if` with early `return`/`abort`, `&&`/`||` with short-circuit, one spin loop
without assignments, calls between the translated functions, out-parameters
`T **`); everything else raises Unsupported and the function is reported as
"not translated".
"""
import json
import os
import re
import shutil
import subprocess
import sys
import tempfile

sys.path.insert(0, os.path.dirname(os.path.abspath(__file__)))
from c2lean import Unsupported, lname  # noqa: E402

SHADOW_STDATOMIC = """\
#ifndef C2LEAN_STDATOMIC_H
#define C2LEAN_STDATOMIC_H
#include <stddef.h>
#include <stdbool.h>
typedef struct { size_t v; } atomic_size_t;
typedef struct { unsigned char v; } atomic_flag;
void atomic_init(atomic_size_t *, size_t);
size_t atomic_load(const atomic_size_t *);
size_t atomic_fetch_add(atomic_size_t *, size_t);
size_t atomic_fetch_sub(atomic_size_t *, size_t);
bool atomic_flag_test_and_set(atomic_flag *);
void atomic_flag_clear(atomic_flag *);
#endif
"""

# translation units: source file, private structs whose size is needed, functions in dependency order
UNITS = [
    dict(src="memory.c", structs=["cstl_shared_ptr_data"],
         order=["cstl_guarded_ptr_set", "cstl_guarded_ptr_init", "cstl_guarded_ptr_get_const",
                "cstl_guarded_ptr_get", "cstl_guarded_ptr_copy", "cstl_guarded_ptr_swap",
                "cstl_unique_ptr_init", "cstl_unique_ptr_get_const", "cstl_unique_ptr_get",
                "cstl_unique_ptr_release", "cstl_unique_ptr_swap", "cstl_unique_ptr_reset",
                "cstl_unique_ptr_alloc",
                "cstl_shared_ptr_init", "cstl_weak_ptr_reset", "cstl_shared_ptr_reset", "cstl_shared_ptr_alloc",
                "cstl_shared_ptr_unique", "cstl_shared_ptr_get_const", "cstl_shared_ptr_get",
                "cstl_shared_ptr_share", "cstl_shared_ptr_swap",
                "cstl_weak_ptr_init", "cstl_weak_ptr_from", "cstl_weak_ptr_lock", "cstl_weak_ptr_swap"]),
    dict(src="array.c", structs=["cstl_raw_array"],
         order=["__cstl_raw_array_at", "cstl_array_init", "cstl_array_size", "cstl_array_reset",
                "cstl_array_alloc", "cstl_array_set", "cstl_array_release", "cstl_array_data_const",
                "cstl_array_data", "cstl_array_at_const", "cstl_array_at", "cstl_array_slice",
                "cstl_array_unslice"]),
]

# pointer-object types: a pointer to one of them is a `Place`
PLACE_PTRS = {"struct cstl_guarded_ptr *", "cstl_unique_ptr_t *", "cstl_shared_ptr_t *", "cstl_weak_ptr_t *",
              "cstl_array_t *"}
# members that are themselves pointer objects; `&x->m` is `x` if `m` is the first field
PLACE_MEMBERS = {"struct cstl_guarded_ptr", "cstl_unique_ptr_t", "cstl_shared_ptr_t", "cstl_weak_ptr_t"}
BLOCK_PTRS = {"struct cstl_shared_ptr_data *": "data", "struct cstl_raw_array *": "raw"}

# `void *` variables that hold a buffer pointer (`Loc`) rather than a block id
LOC_VARS = {("cstl_array_set", "buf"): "loc", ("cstl_array_release", "b"): "loc",
            ("cstl_array_release", "buf"): "outloc", ("__cstl_raw_array_at", "arr"): "loc"}
LOC_RET = {"__cstl_raw_array_at", "cstl_array_data_const", "cstl_array_data", "cstl_array_at_const", "cstl_array_at"}

LEAN_TY = {"place": "Place", "nat": "Nat", "int": "Int", "bool": "Bool", "loc": "Loc", "unit": "Unit"}
DEFAULT = {"nat": "0", "int": "0", "bool": "false", "loc": "Loc.null"}


def norm_type(qt):
    t = re.sub(r"\b(const|volatile|restrict)\b", "", qt)
    t = re.sub(r"\s+", " ", t).strip()
    t = re.sub(r"\s*\*\s*", " *", t)
    while "* *" in t:
        t = t.replace("* *", "**")
    return t.strip()


def clang_tu(repo, src, structs):
    """parse `src` of `repo` (through a wrapper that also asks for the sizes of private structures)"""
    d = tempfile.mkdtemp(prefix="cstlverif_c2lm_")
    try:
        os.makedirs(os.path.join(d, "shadow"))
        with open(os.path.join(d, "shadow", "stdatomic.h"), "w") as fh:
            fh.write(SHADOW_STDATOMIC)
        wrap = os.path.join(d, "wrap.c")
        with open(wrap, "w") as fh:
            fh.write('#include "%s"\n' % os.path.join(os.path.abspath(repo), "src", src))
            for s in structs:
                fh.write("enum { c2lean_sizeof_%s = sizeof(struct %s) };\n" % (s, s))
        cmd = ["clang-14", "-std=c99", "-DNDEBUG", "-D_POSIX_C_SOURCE=199309L",
               "-I", os.path.join(d, "shadow"), "-I", os.path.join(repo, "include"), "-fsyntax-only",
               "-Xclang", "-ast-dump=json", wrap]
        r = subprocess.run(cmd, stdout=subprocess.PIPE, stderr=subprocess.PIPE, universal_newlines=True)
        if r.returncode != 0:
            raise Unsupported("clang failed on %s: %s" % (src, r.stderr[-500:]))
        return json.loads(r.stdout)
    finally:
        shutil.rmtree(d, ignore_errors=True)


class TU:
    def __init__(self, tu):
        self.fns = {}
        self.sizes = {}
        self.field_index = {}       # FieldDecl id -> index in its record
        for d in tu.get("inner", []):
            if d.get("kind") == "FunctionDecl" and any(c.get("kind") == "CompoundStmt" for c in d.get("inner", [])):
                self.fns[d["name"]] = d
            if d.get("kind") == "EnumDecl":
                for c in d.get("inner", []):
                    if c.get("kind") == "EnumConstantDecl" and c.get("name", "").startswith("c2lean_sizeof_"):
                        v = self.const_value(c)
                        if v is not None:
                            self.sizes[c["name"][len("c2lean_sizeof_"):]] = v
        self.walk_records(tu)

    def const_value(self, n):
        if n.get("kind") == "ConstantExpr" and "value" in n:
            return int(n["value"])
        for c in n.get("inner", []):
            v = self.const_value(c)
            if v is not None:
                return v
        return None

    def walk_records(self, n):
        if not isinstance(n, dict):
            return
        if n.get("kind") == "RecordDecl":
            i = 0
            for c in n.get("inner", []):
                if c.get("kind") == "FieldDecl":
                    self.field_index[c["id"]] = i
                    i += 1
        for c in n.get("inner", []):
            self.walk_records(c)


class MFn:
    """one C function -> IR (list of statements) -> Lean text and skeleton"""

    def __init__(self, tu, decl, known):
        self.tu = tu
        self.decl = decl
        self.known = known
        self.name = decl["name"]
        self.body = [c for c in decl["inner"] if c["kind"] == "CompoundStmt"][0]
        self.kinds = {}         # variable -> kind
        self.ctype = {}         # variable -> normalised C type
        self.params = []        # (lean name, kind) in C order
        self.outs = []          # (out variable, kind) for `T **` parameters
        self.locals = []        # declared locals in order
        self.ntmp = 0
        self.nans = 0
        self.nloops = 0
        self.loops = []         # rendered loop definitions
        self.has_loop = False
        self.from_gget = set()  # locals whose current value came from cstl_guarded_ptr_get[_const]
        for p in decl["inner"]:
            if p["kind"] != "ParmVarDecl":
                continue
            k = self.var_kind(p["name"], p["type"]["qualType"])
            self.kinds[p["name"]] = k
            self.ctype[p["name"]] = norm_type(p["type"]["qualType"])
            if k in ("outnat", "outloc"):
                self.params.append((p["name"] + "_nn", "bool"))
                self.outs.append((p["name"] + "_out", "nat" if k == "outnat" else "loc"))
            else:
                self.params.append((p["name"], k))
        rt = norm_type(decl["type"]["qualType"].split("(")[0])
        if rt == "void":
            self.ret = None
        elif self.name in LOC_RET:
            self.ret = "loc"
        elif rt in ("bool", "_Bool"):
            self.ret = "bool"
        elif rt in ("size_t", "unsigned long", "void *", "cstl_xtor_func_t *"):
            self.ret = "nat"
        else:
            raise Unsupported("return type %s" % rt)
        self.ir = self.block(self.body.get("inner", []))

    # ---- kinds
    def var_kind(self, name, qt):
        if (self.name, name) in LOC_VARS:
            return LOC_VARS[(self.name, name)]
        t = norm_type(qt)
        if t in PLACE_PTRS:
            return "place"
        if t in BLOCK_PTRS:
            return "nat"
        if t in ("void **", "cstl_xtor_func_t **"):
            return "outnat"
        if t in ("void *", "cstl_xtor_func_t *", "size_t", "unsigned long", "uintptr_t"):
            return "nat"
        if t == "int":
            return "int"
        if t in ("bool", "_Bool"):
            return "bool"
        if t.startswith("uint8_t["):
            return "skip"
        raise Unsupported("variable %s of type %s" % (name, t))

    def tmp(self):
        self.ntmp += 1
        return "t%d" % self.ntmp

    def ans(self):
        self.nans += 1
        return "ans%d" % self.nans

    # ---- AST helpers
    def strip(self, e):
        while e["kind"] in ("ImplicitCastExpr", "ParenExpr", "CStyleCastExpr", "ConstantExpr"):
            ck = e.get("castKind")
            if e["kind"] in ("ImplicitCastExpr", "CStyleCastExpr") and ck == "NullToPointer":
                return {"kind": "NULL"}
            inner = e["inner"][0]
            if ck == "IntegralCast":
                src = norm_type(inner.get("type", {}).get("qualType", ""))
                dst = norm_type(e.get("type", {}).get("qualType", ""))
                lit = self.strip(inner)["kind"] == "IntegerLiteral"
                if not lit and src != dst:
                    if dst == "int" and src in ("size_t", "unsigned long"):
                        return {"kind": "CastInt", "inner": [inner]}
                    if not (src in ("bool", "_Bool") and dst == "int"):
                        raise Unsupported("integer conversion %s -> %s" % (src, dst))
            e = inner
        return e

    def member_path(self, e):
        """MemberExpr chain -> (base expression, [(member name, member type, field id)])"""
        path = []
        while True:
            e = self.strip(e)
            if e["kind"] != "MemberExpr":
                break
            path.append((e["name"], norm_type(e["type"]["qualType"]), e.get("referencedMemberDecl")))
            arrow = e.get("isArrow")
            e = e["inner"][0]
            if arrow:
                break
        path.reverse()
        return self.strip(e), path

    def lvalue(self, e):
        """an lvalue / addressed object: ('place', text) | ('word', place text, word) |
        ('ctr', block text, 'hard'|'soft') | ('flag', block text) | ('raw', block text, field) |
        ('clrpair', place text) | ('var', name) | ('out', name)"""
        e = self.strip(e)
        if e["kind"] == "DeclRefExpr":
            n = e["referencedDecl"]["name"]
            if n not in self.kinds:
                raise Unsupported("reference to %s" % n)
            if self.kinds[n] == "place":
                return ("place", lname(n))
            return ("var", n)
        if e["kind"] == "UnaryOperator" and e["opcode"] == "*":
            b = self.strip(e["inner"][0])
            if b["kind"] == "DeclRefExpr" and self.kinds.get(b["referencedDecl"]["name"]) in ("outnat", "outloc"):
                return ("out", b["referencedDecl"]["name"])
            raise Unsupported("dereference")
        if e["kind"] != "MemberExpr":
            raise Unsupported("lvalue kind %s" % e["kind"])
        base, path = self.member_path(e)
        if base["kind"] != "DeclRefExpr":
            raise Unsupported("member access on %s" % base["kind"])
        bn = base["referencedDecl"]["name"]
        bk = self.kinds.get(bn)
        bt = self.ctype.get(bn, "")
        if bk == "place":
            return self.place_path(lname(bn), path)
        if bt in BLOCK_PTRS and BLOCK_PTRS[bt] == "data":
            names = [p[0] for p in path]
            if names[:1] == ["up"]:
                return self.place_path("(Place.up %s)" % lname(bn), path[1:])
            if names == ["ref", "hard"] or names == ["ref", "soft"]:
                return ("ctr", lname(bn), names[1])
            if names == ["ref", "lock"]:
                return ("flag", lname(bn))
            raise Unsupported("bookkeeping member %s" % ".".join(names))
        if bt in BLOCK_PTRS and BLOCK_PTRS[bt] == "raw":
            names = [p[0] for p in path]
            if names in (["sz"], ["nm"], ["buf"]):
                return ("raw", lname(bn), names[0])
            raise Unsupported("descriptor member %s" % ".".join(names))
        raise Unsupported("member access on %s" % bn)

    def place_path(self, ptxt, path):
        # leading members that are pointer objects at offset 0 denote the same place
        while path and path[0][1] in PLACE_MEMBERS:
            if self.tu.field_index.get(path[0][2]) != 0:
                raise Unsupported("member %s is not the first field" % path[0][0])
            path = path[1:]
        names = tuple(p[0] for p in path)
        if names == ():
            return ("place", ptxt)
        if names in (("self",), ("ptr",), ("clr", "func"), ("clr", "priv"), ("off",), ("len",)):
            return ("word", ptxt, names)
        if names == ("clr",):
            return ("clrpair", ptxt)
        raise Unsupported("member %s of a pointer object" % ".".join(names))

    LOADS = {("ptr",): "ldPtr", ("clr", "func"): "ldClr", ("clr", "priv"): "ldPriv", ("off",): "ldOff",
             ("len",): "ldLen"}
    STORES = {("ptr",): "stPtr", ("clr", "func"): "stClr", ("clr", "priv"): "stPriv", ("off",): "stOff",
              ("len",): "stLen"}
    RAWLD = {"sz": ("ldSz", "nat"), "nm": ("ldNm", "nat"), "buf": ("ldBuf", "loc")}
    RAWST = {"sz": "stSz", "nm": "stNm", "buf": "stBuf"}

    @staticmethod
    def atom(s):
        if re.match(r"^[A-Za-z_«][A-Za-z0-9_».]*$", s) or s.isdigit() or (s.startswith("(") and s.endswith(")")):
            return s
        return "(%s)" % s

    def bind(self, out, term, ty, sk=None, pat=None):
        v = pat
        if ty != "unit" and v is None:
            v = self.tmp()
        out.append({"k": "bind", "pat": v, "term": term, "ty": ty, "sk": sk})
        return v

    # ---- expressions: returns (text, kind); effects are appended to `out`
    def expr(self, e, out, want=None):
        e = self.strip(e)
        k = e["kind"]
        if k == "NULL":
            return ("Loc.null", "loc") if want == "loc" else ("0", "nat")
        if k == "IntegerLiteral":
            return (e["value"], want if want in ("int", "nat") else "nat")
        if k == "CastInt":
            t, kk = self.expr(e["inner"][0], out)
            return ("castInt %s" % self.atom(t), "int")
        if k == "UnaryExprOrTypeTraitExpr" and e.get("name") == "sizeof":
            if "argType" in e:
                ty = norm_type(e["argType"]["qualType"])
            else:
                ty = norm_type(e["inner"][0]["type"]["qualType"])
            m = re.match(r"^struct (\w+)$", ty)
            if m and m.group(1) in self.tu.sizes:
                return ("sizeof_%s" % m.group(1), "nat")
            raise Unsupported("sizeof(%s)" % ty)
        if k == "DeclRefExpr":
            n = e["referencedDecl"]["name"]
            kk = self.kinds.get(n)
            if kk is None:
                raise Unsupported("reference to %s" % n)
            if kk in ("outnat", "outloc"):
                return ("%s_nn" % n, "outptr")
            return (lname(n), kk)
        if k == "MemberExpr":
            lv = self.lvalue(e)
            if lv[0] == "word":
                if lv[2] not in self.LOADS:
                    raise Unsupported("read of %s outside a stamp check" % ".".join(lv[2]))
                return (self.bind(out, "%s %s" % (self.LOADS[lv[2]], lv[1]), "nat"), "nat")
            if lv[0] == "raw":
                fn, kk = self.RAWLD[lv[2]]
                return (self.bind(out, "%s %s" % (fn, lv[1]), kk), kk)
            raise Unsupported("value of %s" % lv[0])
        if k == "UnaryOperator" and e["opcode"] == "&":
            lv = self.lvalue(e["inner"][0])
            if lv[0] == "place":
                return (lv[1], "place")
            raise Unsupported("address of %s in value position" % lv[0])
        if k == "UnaryOperator" and e["opcode"] == "!":
            c = self.cond(e["inner"][0], out)
            return ("¬ %s" % c, "prop")
        if k == "CallExpr":
            return self.call(e, out)
        if k == "BinaryOperator":
            return self.binop(e, out)
        raise Unsupported("expression kind %s" % k)

    def cond(self, e, out):
        t, k = self.expr(e, out)
        if k == "prop":
            return t
        if k == "bool":
            return "(%s = true)" % t
        if k == "outptr":
            return "(%s = true)" % t
        if k in ("nat", "int"):
            return "(%s ≠ 0)" % t
        raise Unsupported("condition of kind %s" % k)

    def is_stamp(self, a, b):
        """`a` is `X->self` and `b` is `X`"""
        a, b = self.strip(a), self.strip(b)
        if a["kind"] != "MemberExpr":
            return None
        try:
            lv = self.lvalue(a)
        except Unsupported:
            return None
        if lv[0] == "word" and lv[2] == ("self",):
            try:
                lb = self.lvalue(b) if b["kind"] in ("DeclRefExpr", "MemberExpr") else None
                if b["kind"] == "UnaryOperator" and b["opcode"] == "&":
                    lb = self.lvalue(b["inner"][0])
            except Unsupported:
                lb = None
            if lb is not None and lb[0] == "place" and lb[1] == lv[1]:
                return lv[1]
            raise Unsupported("`self` compared with something other than the object's own address")
        return None

    def binop(self, e, out):
        op = e["opcode"]
        a, b = e["inner"]
        if op in ("==", "!="):
            p = self.is_stamp(a, b) or self.is_stamp(b, a)
            if p:
                t = self.bind(out, "stampOk %s" % p, "bool")
                return ("(%s = %s)" % (t, "true" if op == "==" else "false"), "prop")
        if op in ("==", "!=", "<", ">", "<=", ">="):
            ta, ka = self.expr(a, out)
            tb, kb = self.expr(b, out, want=ka if ka in ("loc", "int") else None)
            if kb == "loc" and ka != "loc":
                ta, ka = self.expr(a, [], want="loc")
            if ka == "outptr" and tb == "0":
                return ("(%s = %s)" % (ta, "false" if op == "==" else "true"), "prop")
            if ka != kb and not (ka in ("nat", "int") and kb in ("nat", "int")):
                raise Unsupported("comparison of %s with %s" % (ka, kb))
            lop = {"==": "=", "!=": "≠", "<=": "≤", ">=": "≥"}.get(op, op)
            return ("(%s %s %s)" % (ta, lop, tb), "prop")
        if op in ("&&", "||"):
            ca = self.cond(a, out)
            sub = []
            cb = self.cond(b, sub)
            if not sub:
                return ("(%s %s %s)" % (ca, "∧" if op == "&&" else "∨", cb), "prop")
            # short-circuit: the right operand has effects
            sub.append({"k": "ret", "val": "decide %s" % cb, "raw": True})
            short = [{"k": "ret", "val": "false" if op == "&&" else "true", "raw": True}]
            t = self.tmp()
            out.append({"k": "if", "cond": ca, "then": sub if op == "&&" else short,
                        "else": short if op == "&&" else sub, "outs": [], "sk": ("other",), "value": t})
            return ("(%s = true)" % t, "prop")
        if op in ("+", "-", "*", "/"):
            ety = norm_type(e["type"]["qualType"])
            ta, ka = self.expr(a, out)
            if op == "+" and ety in BLOCK_PTRS and BLOCK_PTRS[ety] == "raw":
                lit = self.strip(b)
                if lit["kind"] == "IntegerLiteral" and lit["value"] == "1":
                    return ("Loc.heap %s sizeof_cstl_raw_array" % ta, "loc")
                raise Unsupported("pointer arithmetic")
            tb, kb = self.expr(b, out)
            if op == "+" and ka == "loc" and kb == "nat":
                return ("Loc.add %s %s" % (self.atom(ta), self.atom(tb)), "loc")
            if ka != "nat" or kb != "nat" or ety not in ("size_t", "unsigned long", "uintptr_t"):
                raise Unsupported("arithmetic on %s, %s (%s)" % (ka, kb, ety))
            ta, tb = self.atom(ta), self.atom(tb)
            if op == "+":
                return ("(%s + %s) %% W" % (ta, tb), "nat")
            if op == "-":
                return ("(%s + W - %s) %% W" % (ta, tb), "nat")
            if op == "*":
                return ("(%s * %s) %% W" % (ta, tb), "nat")
            return ("%s / %s" % (ta, tb), "nat")
        raise Unsupported("operator %s" % op)

    def place_arg(self, a):
        a = self.strip(a)
        if a["kind"] == "UnaryOperator" and a["opcode"] == "&":
            lv = self.lvalue(a["inner"][0])
        else:
            lv = self.lvalue(a)
        if lv[0] != "place":
            raise Unsupported("pointer-object argument")
        return lv[1]

    def addr_arg(self, a):
        a = self.strip(a)
        if a["kind"] == "UnaryOperator" and a["opcode"] == "&":
            return self.lvalue(a["inner"][0])
        raise Unsupported("argument is not an address")

    def call(self, e, out):
        callee = self.strip(e["inner"][0])
        args = e["inner"][1:]
        if callee["kind"] == "MemberExpr":
            lv = self.lvalue(callee)
            if lv[0] == "word" and lv[2] == ("clr", "func"):
                f = self.bind(out, "ldClr %s" % lv[1], "nat")
                av = [self.atom(self.expr(a, out)[0]) for a in args]
                if len(av) != 2:
                    raise Unsupported("callback arity")
                self.bind(out, "callClr %s %s" % (f, " ".join(av)), "unit", sk=("step", "clearCb"))
                return ("()", "unit")
            raise Unsupported("call through %s" % (lv,))
        if callee["kind"] != "DeclRefExpr":
            raise Unsupported("callee")
        fn = callee["referencedDecl"]["name"]
        if fn == "abort":
            out.append({"k": "abort"})
            return ("()", "unit")
        if fn == "sched_yield":
            self.bind(out, "yieldM", "unit")
            return ("0", "int")
        if fn == "malloc":
            sz = self.atom(self.expr(args[0], out)[0])
            ps = " ".join(lname(p) for p, _ in self.params)
            t = self.bind(out, "mallocM %s %s (ghost_%s %s)" % (sz, self.ans(), self.name, ps), "nat",
                          sk=("step", "malloc"))
            return (t, "nat")
        if fn == "free":
            a0 = self.strip(args[0])
            what = "freeMem"
            if a0["kind"] == "DeclRefExpr" and BLOCK_PTRS.get(self.ctype.get(a0["referencedDecl"]["name"])) == "data":
                what = "freeData"
            self.bind(out, "freeM %s" % self.atom(self.expr(args[0], out)[0]), "unit", sk=("step", what))
            return ("()", "unit")
        if fn in ("atomic_init", "atomic_load", "atomic_fetch_add", "atomic_fetch_sub"):
            lv = self.addr_arg(args[0])
            if lv[0] != "ctr":
                raise Unsupported("%s on something that is not a counter" % fn)
            ctr = "Ctr.%s" % lv[2]
            if fn == "atomic_load":
                return (self.bind(out, "atomicLoad %s %s" % (lv[1], ctr), "nat", sk=("step", "load_" + lv[2])), "nat")
            v = self.atom(self.expr(args[1], out)[0])
            if fn == "atomic_init":
                self.bind(out, "atomicInit %s %s %s" % (lv[1], ctr, v), "unit", sk=("step", "init_" + lv[2]))
                return ("()", "unit")
            if v != "1":
                raise Unsupported("%s with operand %s" % (fn, v))
            prim, lab = ("fetchAdd", "fetchAdd_") if fn == "atomic_fetch_add" else ("fetchSub", "fetchSub_")
            return (self.bind(out, "%s %s %s %s" % (prim, lv[1], ctr, v), "nat", sk=("step", lab + lv[2])), "nat")
        if fn in ("atomic_flag_test_and_set", "atomic_flag_clear"):
            lv = self.addr_arg(args[0])
            if lv[0] != "flag":
                raise Unsupported("%s on something that is not the lock flag" % fn)
            if fn == "atomic_flag_clear":
                self.bind(out, "flagClear %s" % lv[1], "unit", sk=("step", "flagClear"))
                return ("()", "unit")
            return (self.bind(out, "flagTas %s" % lv[1], "bool", sk=("step", "tas")), "bool")
        if fn == "cstl_swap":
            la, lb = self.addr_arg(args[0]), self.addr_arg(args[1])
            if la[0] == "clrpair" and lb[0] == "clrpair":
                self.bind(out, "swapClr %s %s" % (la[1], lb[1]), "unit")
                return ("()", "unit")
            raise Unsupported("cstl_swap of %s, %s" % (la[0], lb[0]))
        if fn not in self.known:
            raise Unsupported("call to untranslated function %s" % fn)
        g = self.known[fn]
        if g.has_loop:
            raise Unsupported("call to a function with a loop: %s" % fn)
        av = []
        ai = 0
        for (pn, pk) in g.params:
            a = args[ai]
            ai += 1
            if pk == "place":
                av.append(self.place_arg(a))
            elif pk == "bool" and pn.endswith("_nn"):
                raise Unsupported("call with an out-parameter: %s" % fn)
            else:
                t, kk = self.expr(a, out, want=pk)
                if kk != pk:
                    raise Unsupported("argument kind %s for %s parameter of %s" % (kk, pk, fn))
                av.append(self.atom(t))
        av += [self.ans() for _ in range(g.nans)]
        term = "%s %s" % (g.lean_name(), " ".join(av))
        ty = g.ret or "unit"
        if g.outs:
            raise Unsupported("call with out-parameters: %s" % fn)
        v = self.bind(out, term.strip(), ty, sk=("call", fn))
        return (v if v else "()", ty)

    # ---- statements
    def store(self, lhs, rhs, out):
        """`lhs = rhs`; returns the text of the assigned value"""
        lhs_s = self.strip(lhs)
        rhs_s = self.strip(rhs)
        if rhs_s["kind"] == "BinaryOperator" and rhs_s["opcode"] == "=":
            vt, vk = self.store(rhs_s["inner"][0], rhs_s["inner"][1], out)
            return self.store_value(lhs_s, vt, vk, out, rhs_node=None)
        return self.store_value(lhs_s, None, None, out, rhs_node=rhs)

    def store_value(self, lhs, vt, vk, out, rhs_node):
        lv = self.lvalue(lhs)

        def value(want=None):
            if rhs_node is None:
                return vt, vk
            return self.expr(rhs_node, out, want=want)

        if lv[0] == "var":
            n = lv[1]
            self.note_origin(n, rhs_node)
            t, k = value(self.kinds[n])
            if k == "prop" and self.kinds[n] == "bool":
                t, k = "decide %s" % t, "bool"
            if k != self.kinds[n]:
                raise Unsupported("assignment of %s to %s variable %s" % (k, self.kinds[n], n))
            out.append({"k": "let", "var": n, "val": t})
            return lname(n), k
        if lv[0] == "out":
            n = lv[1] + "_out"
            kk = "loc" if self.kinds[lv[1]] == "outloc" else "nat"
            t, k = value(kk)
            if k != kk:
                raise Unsupported("store of %s through %s" % (k, lv[1]))
            out.append({"k": "let", "var": n, "val": t})
            return n, k
        if lv[0] == "word":
            if lv[2] == ("self",):
                r = self.strip(rhs_node) if rhs_node is not None else None
                ok = False
                if r is not None and r["kind"] in ("DeclRefExpr", "MemberExpr", "UnaryOperator"):
                    try:
                        lr = self.lvalue(r["inner"][0] if r["kind"] == "UnaryOperator" and r["opcode"] == "&" else r)
                        ok = lr[0] == "place" and lr[1] == lv[1]
                    except Unsupported:
                        ok = False
                if not ok:
                    raise Unsupported("`self` set to something other than the object's own address")
                self.bind(out, "stStamp %s" % lv[1], "unit")
                return lv[1], "place"
            t, k = value("nat")
            if k != "nat":
                raise Unsupported("store of %s into %s" % (k, ".".join(lv[2])))
            self.bind(out, "%s %s %s" % (self.STORES[lv[2]], lv[1], self.atom(t)), "unit")
            return t, k
        if lv[0] == "raw":
            want = "loc" if lv[2] == "buf" else "nat"
            t, k = value(want)
            if k != want:
                raise Unsupported("store of %s into descriptor word %s" % (k, lv[2]))
            self.bind(out, "%s %s %s" % (self.RAWST[lv[2]], lv[1], self.atom(t)), "unit")
            return t, k
        raise Unsupported("assignment to %s" % lv[0])

    def note_origin(self, n, rhs):
        self.from_gget.discard(n)
        if rhs is None:
            return
        r = self.strip(rhs)
        if r["kind"] == "CallExpr":
            c = self.strip(r["inner"][0])
            if c.get("referencedDecl", {}).get("name") in ("cstl_guarded_ptr_get", "cstl_guarded_ptr_get_const"):
                self.from_gget.add(n)

    def block(self, lst):
        out = []
        for s in lst:
            self.stmt(s, out)
        return out

    def stmt(self, s, out):
        k = s["kind"]
        if k in ("NullStmt",):
            return
        if k in ("ParenExpr", "CStyleCastExpr"):
            inner = self.strip(s)
            if inner["kind"] in ("IntegerLiteral", "NULL"):
                return                  # assert() under NDEBUG
            raise Unsupported("expression statement")
        if k == "CompoundStmt":
            for c in s.get("inner", []):
                self.stmt(c, out)
            return
        if k == "DeclStmt":
            for v in s["inner"]:
                if v["kind"] != "VarDecl":
                    raise Unsupported("declaration")
                n = v["name"]
                kk = self.var_kind(n, v["type"]["qualType"])
                if kk == "skip":
                    continue
                if n in self.kinds:
                    raise Unsupported("redeclaration of %s" % n)
                self.kinds[n] = kk
                self.ctype[n] = norm_type(v["type"]["qualType"])
                init = [c for c in v.get("inner", []) if "Comment" not in c["kind"]]
                if init:
                    self.note_origin(n, init[0])
                    t, tk = self.expr(init[0], out, want=kk)
                    if tk == "prop" and kk == "bool":
                        t, tk = "decide %s" % t, "bool"
                    if tk != kk:
                        raise Unsupported("initialiser of kind %s for %s variable %s" % (tk, kk, n))
                else:
                    t = DEFAULT[kk]
                self.locals.append(n)
                out.append({"k": "let", "var": n, "val": t, "decl": True, "ty": LEAN_TY[kk]})
            return
        if k == "BinaryOperator" and s["opcode"] == "=":
            self.store(s["inner"][0], s["inner"][1], out)
            return
        if k == "CallExpr":
            self.expr(s, out)
            return
        if k == "ReturnStmt":
            if s.get("inner"):
                t, tk = self.expr(s["inner"][0], out, want=self.ret)
                if tk == "prop" and self.ret == "bool":
                    t = "decide %s" % t
                elif tk != self.ret:
                    raise Unsupported("return of %s from a %s function" % (tk, self.ret))
                out.append({"k": "ret", "val": t})
            else:
                out.append({"k": "ret", "val": None})
            return
        if k == "IfStmt":
            pre_locals = list(self.locals) + [o for o, _ in self.outs]
            c = self.cond(s["inner"][0], out)
            sk = self.classify(s["inner"][0], out)
            th = self.block([s["inner"][1]])
            el = self.block([s["inner"][2]]) if len(s["inner"]) > 2 else []
            outs = [v for v in pre_locals if self.assigns(th, v) or self.assigns(el, v)]
            out.append({"k": "if", "cond": c, "then": th, "else": el, "outs": outs, "sk": sk})
            return
        if k == "WhileStmt":
            self.nloops += 1
            self.has_loop = True
            cs = []
            c = self.cond(s["inner"][0], cs)
            body = self.block([s["inner"][1]])
            for st in cs + body:
                if st["k"] not in ("bind",) or self.assigns([st], None):
                    raise Unsupported("loop with assignments or control flow")
            steps = [st["sk"] for st in cs if st.get("sk")]
            if len(steps) != 1 or steps[0][0] != "step":
                raise Unsupported("loop condition is not a single atomic operation")
            name = "%s_loop%d" % (self.lean_name(), self.nloops)
            used = set(re.findall(r"[A-Za-z_][A-Za-z0-9_]*", " ".join([c] + [st["term"] for st in cs + body])))
            vs = [(lname(p), kk) for p, kk in self.params if p in used]
            vs += [(lname(v), self.kinds[v]) for v in self.locals if v in used]
            sig = "".join("(%s : %s) " % (v, LEAN_TY[kk]) for v, kk in vs)
            args = " ".join(v for v, _ in vs)
            d = ["/-- the `while` loop of `%s`; out of fuel = `Stop.badop` -/" % self.name,
                 "def %s %s: Nat → State → Res Unit" % (name, sig),
                 "  | 0, σ => Res.stop .badop σ",
                 "  | fuel + 1, σ =>"]
            inner = cs + [{"k": "if", "cond": c,
                           "then": body + [{"k": "bind", "pat": None, "term": "%s %s fuel" % (name, args),
                                            "ty": "unit", "sk": None}],
                           "else": [], "outs": [], "sk": ("other",)}]
            d += self.render(inner, 0, 2, "Res.ok () σ")
            self.loops.append("\n".join(d) + "\n")
            out.append({"k": "bind", "pat": None, "term": "%s %s fuel" % (name, args), "ty": "unit",
                        "sk": ("spin", steps[0][1])})
            return
        raise Unsupported("statement kind %s" % k)

    def assigns(self, lst, v):
        """does the statement list assign the (previously declared) variable `v` (any, if None)?"""
        for st in lst:
            if st["k"] == "let" and not st.get("decl") and (v is None or st["var"] == v):
                return True
            if st["k"] == "if" and (self.assigns(st["then"], v) or self.assigns(st["else"], v)):
                return True
        return False

    def classify(self, ce, out):
        """what an `if` branches on, for the skeleton"""
        e = self.strip(ce)
        if e["kind"] == "BinaryOperator" and e["opcode"] in ("==", "!=", ">", "<", ">=", "<="):
            a, b = self.strip(e["inner"][0]), self.strip(e["inner"][1])
            if a["kind"] == "CallExpr":
                cal = self.strip(a["inner"][0])
                fn = cal.get("referencedDecl", {}).get("name")
                if fn in ("atomic_fetch_add", "atomic_fetch_sub", "atomic_load") and b["kind"] == "IntegerLiteral":
                    tst = {("==", "1"): "eq1", (">", "0"): "gt0"}.get((e["opcode"], b["value"]))
                    if tst and out and out[-1]["k"] == "bind" and out[-1].get("sk"):
                        return ("obs", out[-1]["pat"], tst)
                    return ("other",)
            if b["kind"] == "NULL" and e["opcode"] in ("==", "!="):
                if a["kind"] == "DeclRefExpr":
                    n = a["referencedDecl"]["name"]
                    if BLOCK_PTRS.get(self.ctype.get(n)) == "data" and n in self.from_gget:
                        return ("ptr", e["opcode"] == "!=")
                if a["kind"] == "MemberExpr":
                    try:
                        lv = self.lvalue(a)
                    except Unsupported:
                        lv = None
                    if lv and lv[0] == "word" and lv[2] == ("clr", "func"):
                        return ("cb", e["opcode"] == "!=")
        return ("other",)

    # ---- rendering
    def lean_name(self):
        return "c_" + ("priv_" + self.name[2:] if self.name.startswith("__") else self.name)

    def terminates(self, lst):
        if not lst:
            return False
        last = lst[-1]
        if last["k"] in ("ret", "abort"):
            return True
        if last["k"] == "if" and "value" not in last:
            return self.terminates(last["then"]) and self.terminates(last["else"])
        return False

    @staticmethod
    def tuple_of(vs):
        if not vs:
            return "()"
        return lname(vs[0]) if len(vs) == 1 else "(" + ", ".join(lname(v) for v in vs) + ")"

    def ret_text(self, val):
        parts = ([val] if val is not None else []) + [o for o, _ in self.outs]
        if not parts:
            return "Res.ok () σ"
        if len(parts) == 1:
            return "Res.ok %s σ" % self.atom(parts[0])
        return "Res.ok (%s) σ" % ", ".join(parts)

    def render(self, lst, i, ind, tail):
        """lines of a term of type `Res _` over the current `σ`: statements lst[i:], then `tail`"""
        pad = "  " * ind
        if i == len(lst):
            return [pad + tail]
        s = lst[i]
        last = i == len(lst) - 1
        if s["k"] == "let":
            ty = " : %s" % s["ty"] if s.get("ty") else ""
            return [pad + "let %s%s := %s" % (lname(s["var"]), ty, s["val"])] + self.render(lst, i + 1, ind, tail)
        if s["k"] == "abort":
            return [pad + "abortM σ"]
        if s["k"] == "ret":
            if s.get("raw"):
                return [pad + "Res.ok (%s) σ" % s["val"]]
            return [pad + self.ret_text(s["val"])]
        if s["k"] == "bind":
            nxt = lst[i + 1] if not last else None
            # `x <- f; return x`  ==>  `f`
            if nxt is not None and nxt["k"] == "ret" and not nxt.get("raw") and not self.outs \
                    and s["pat"] is not None and nxt["val"] == s["pat"] and i + 2 == len(lst):
                return [pad + "%s σ" % s["term"]]
            if last and s["ty"] == "unit" and tail == "Res.ok () σ":
                return [pad + "%s σ" % s["term"]]
            return [pad + "%s σ >>- fun %s σ =>" % (s["term"], s["pat"] or "_")] + self.render(lst, i + 1, ind, tail)
        if s["k"] == "if":
            rest = lst[i + 1:]
            if "value" in s:        # short-circuit operand: yields a Bool
                lines = [pad + "(if %s then" % s["cond"]]
                lines += self.render(s["then"], 0, ind + 2, "")
                lines += [pad + " else"]
                lines += self.render(s["else"], 0, ind + 2, "")
                lines[-1] += ") >>- fun %s σ =>" % s["value"]
                return lines + self.render(lst, i + 1, ind, tail)
            tt, te = self.terminates(s["then"]), self.terminates(s["else"])
            if tt or te:
                lines = [pad + "if %s then" % s["cond"]]
                lines += self.render(s["then"] + ([] if tt else rest), 0, ind + 1, tail)
                lines += [pad + "else"]
                lines += self.render(s["else"] + ([] if te else rest), 0, ind + 1, tail)
                return lines
            after = self.render(lst, i + 1, ind, tail)
            # only the assigned variables that are still read afterwards flow out of the `if`
            used = set(re.findall(r"[A-Za-z_«][A-Za-z0-9_»]*", " ".join(after)))
            outs = [v for v in s["outs"] if lname(v) in used]
            if last and not outs:
                lines = [pad + "if %s then" % s["cond"]]
                lines += self.render(s["then"], 0, ind + 1, tail)
                lines += [pad + "else"]
                lines += self.render(s["else"], 0, ind + 1, tail)
                return lines
            tup = self.tuple_of(outs)
            inner = "Res.ok %s σ" % tup
            lines = [pad + "(if %s then" % s["cond"]]
            lines += self.render(s["then"], 0, ind + 2, inner)
            lines += [pad + " else"]
            lines += self.render(s["else"], 0, ind + 2, inner)
            lines[-1] += ") >>- fun %s σ =>" % (tup if outs else "_")
            return lines + after
        raise Unsupported("IR statement %s" % s["k"])

    def text(self):
        body = self.render(self.ir, 0, 1, self.ret_text(None) if self.ret is None else "Res.stop .badop σ")
        sig = ""
        if self.has_loop:
            sig += "(fuel : Nat) "
        for p, k in self.params:
            sig += "(%s : %s) " % (lname(p), LEAN_TY[k])
        for j in range(self.nans):
            sig += "(ans%d : Bool) " % (j + 1)
        rts = ([LEAN_TY[self.ret]] if self.ret else []) + [LEAN_TY[k] for _, k in self.outs]
        rty = " × ".join(rts) if rts else "Unit"
        pre = "".join("  let %s : %s := %s\n" % (o, LEAN_TY[k], DEFAULT[k]) for o, k in self.outs)
        return "".join(l + "\n" for l in self.loops) + "def %s %s(σ : State) : Res %s :=\n%s%s\n" % (
            self.lean_name(), sig, "(%s)" % rty if "×" in rty else rty, pre, "\n".join(body))

    # ---- skeleton of shared accesses
    def skeleton(self, sks):
        return sk_simplify(self.sk_list(self.ir, 0, sks))

    def sk_list(self, lst, i, sks):
        if i == len(lst):
            return ("nil",)
        s = lst[i]
        if s["k"] in ("ret", "abort"):
            return ("nil",)
        if s["k"] == "let":
            return self.sk_list(lst, i + 1, sks)
        if s["k"] == "bind":
            sk = s.get("sk")
            nxt = lst[i + 1] if i + 1 < len(lst) else None
            if sk and sk[0] == "step" and nxt is not None and nxt["k"] == "if" and nxt["sk"][0] == "obs" \
                    and nxt["sk"][1] == s["pat"]:
                th, el, k = self.sk_if(nxt, lst, i + 1, sks)
                return ("test", sk[1], nxt["sk"][2], th, el, k)
            k = self.sk_list(lst, i + 1, sks)
            if sk is None:
                return k
            if sk[0] == "step":
                return ("step", sk[1], k)
            if sk[0] == "spin":
                return ("spin", sk[1], k)
            if sk[0] == "call":
                if sks.get(sk[1], ("nil",)) == ("nil",):
                    return k
                return ("app", sk[1], k)
        if s["k"] == "if":
            th, el, k = self.sk_if(s, lst, i, sks)
            kind = s["sk"]
            if kind[0] in ("ptr", "cb"):
                if not kind[1]:
                    th, el = el, th
                return ("sel", kind[0], th, el, k)
            return ("sel", "other", th, el, k)
        raise Unsupported("skeleton of %s" % s["k"])

    def sk_if(self, s, lst, i, sks):
        rest = lst[i + 1:]
        tt, te = self.terminates(s["then"]), self.terminates(s["else"])
        if "value" in s:
            tt = te = False     # a short-circuit operand yields a value, it does not leave the function
        if tt or te:
            th = self.sk_list(s["then"] + ([] if tt else rest), 0, sks)
            el = self.sk_list(s["else"] + ([] if te else rest), 0, sks)
            return th, el, ("nil",)
        return self.sk_list(s["then"], 0, sks), self.sk_list(s["else"], 0, sks), self.sk_list(lst, i + 1, sks)


def sk_simplify(t):
    if t[0] == "nil":
        return t
    if t[0] in ("step", "spin"):
        return (t[0], t[1], sk_simplify(t[2]))
    if t[0] == "app":
        return ("app", t[1], sk_simplify(t[2]))
    if t[0] == "test":
        return ("test", t[1], t[2], sk_simplify(t[3]), sk_simplify(t[4]), sk_simplify(t[5]))
    if t[0] == "sel":
        th, el, k = sk_simplify(t[2]), sk_simplify(t[3]), sk_simplify(t[4])
        if th == ("nil",) and el == ("nil",):
            return k
        return ("sel", t[1], th, el, k)
    raise Unsupported("skeleton node %s" % t[0])


def sk_text(t):
    if t[0] == "nil":
        return ".nil"
    if t[0] == "step":
        return "(.step .%s %s)" % (t[1], sk_text(t[2]))
    if t[0] == "spin":
        return "(.spin .%s %s)" % (t[1], sk_text(t[2]))
    if t[0] == "app":
        return "(Sk.app sk_%s %s)" % (t[1], sk_text(t[2]))
    if t[0] == "test":
        return "(.test .%s .%s %s %s %s)" % (t[1], t[2], sk_text(t[3]), sk_text(t[4]), sk_text(t[5]))
    if t[0] == "sel":
        return "(.sel .%s %s %s %s)" % (t[1], sk_text(t[2]), sk_text(t[3]), sk_text(t[4]))
    raise Unsupported("skeleton node %s" % t[0])


def translate(repo):
    """-> (MemC.lean text, ConcC.lean text, report)"""
    known = {}
    report = {}
    chunks = []
    sizes = {}
    sks = {}
    sk_chunks = []
    srcs = []
    for u in UNITS:
        srcs.append(u["src"])
        tu = TU(clang_tu(repo, u["src"], u["structs"]))
        for s in u["structs"]:
            if s not in tu.sizes:
                raise Unsupported("size of struct %s not found" % s)
        sizes.update(tu.sizes)
        tu.sizes = dict(sizes)
        for name in u["order"]:
            if name not in tu.fns:
                report[name] = "not found in source"
                continue
            try:
                f = MFn(tu, tu.fns[name], known)
                txt = f.text()
                sk = f.skeleton(sks)
            except Unsupported as e:
                report[name] = "not translated: %s" % e
                continue
            known[name] = f
            chunks.append(txt)
            sks[name] = sk
            sk_chunks.append("def sk_%s : Sk := %s\n" % (name, sk_text(sk).strip()))
            report[name] = "translated"
    head = ("-- GENERATED by tools/c2lean_mem.py from /repo's include/cstl/{memory,array}.h, src/memory.c and src/array.c\n"
            "-- on every check run; do not edit.\n")
    mem = (head + "import Cstl.Mem.CPrim\nset_option linter.unusedVariables false\nnamespace Cstl.Gen.MemC\nopen Cstl.Mem\n\n"
           + "".join("/-- `sizeof(struct %s)` as clang lays it out -/\ndef sizeof_%s : Nat := %d\n" % (s, s, v)
                     for s, v in sorted(sizes.items()))
           + "\n" + "\n".join(chunks) + "\nend Cstl.Gen.MemC\n")
    conc = (head + "-- Skeleton of atomic operations / shared accesses of every function (thread-local accesses erased).\n"
            "import Cstl.Conc.Sk\nnamespace Cstl.Gen.ConcC\nopen Cstl.Conc\n\n" + "\n".join(sk_chunks) + "\nend Cstl.Gen.ConcC\n")
    return mem, conc, report


if __name__ == "__main__":
    which = sys.argv[1] if len(sys.argv) > 1 else "mem"
    repo = sys.argv[2] if len(sys.argv) > 2 else os.environ.get("VERIF_REPO", "/repo")
    m, c, rep = translate(repo)
    sys.stdout.write(m if which == "mem" else c)
    for k, v in rep.items():
        sys.stderr.write("%s: %s\n" % (k, v))
