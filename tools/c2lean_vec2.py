#!/usr/bin/env python3
"""
Second translator for src/vector.c and the string template src/_string.c / include/cstl/_string.h
(both instantiations of src/string.c): the functions tools/c2lean_vec.py leaves out  ->  Lean 4.

  src/vector.c          __cstl_vector_sort, cstl_vector_search, cstl_vector_find, __cstl_vector_reverse
                        (+ the helpers they use: cstl_vector_data, cstl_vector_size, __cstl_vector_at)
  strings (x2)          data, size, str, find_ch, find_str, find, compare_str, compare,
                        insert_str, append_str, set_str

Reads the typed clang AST of /repo's *current* source and emits Lean in the vocabulary of
lean/Cstl/Vec/Model.lean + CSem.lean + CSem2.lean:

  size_t + - *                 addW / subW / mulW              (only in 64-bit unsigned types)
  pointers                     `SPtr`: `v->elem.base` = basePtr v; `&cstl_STRING_nul` = SPtr.nul 0 (the
                               initialiser of the static is checked to be 0); p + n on `char_t *` =
                               SPtr.add p (mulW n <object>.esz); (uintptr_t)p + n = SPtr.add p n;
                               (uintptr_t)p - (uintptr_t)q = SPtr.diff p q; p == q / p != NULL literal
  sizeof(char_t)               `.esz` of the function's first string parameter (checked as in c2lean_vec)
  (ssize_t)x, -1               toSsize x, (-1 : Int)
  abort()                      .error .abort
  strchr strstr strcmp strlen  libcChr 1 / libcStr 1 / libcCmp 1 / libcLen 1     (wcs*: width 4)
                               a `const char_t *` argument read by the library is `cview <array>` for a
                               caller's array and `viewAt <object> <pointer>` for a pointer into an object
  const char_t * parameter     `List Nat` (the units readable at the pointer); a pointer into an object
                               passed for such a parameter is `unitsAt <object> <pointer>`
  callees translated elsewhere parameters `k_<name>` (see EXT_EFF, EXT_TAIL): functions of Cstl/Gen/VecC.lean
                               that edit the object return `Eff`, the caller sequences them with bindF and
                               accumulates the event list; `cstl_raw_array_*` is called in tail position and
                               the translated wrapper is polymorphic in its result
  cmp / priv / swap / e        opaque values passed through (`Opq`)

lean/Cstl/Vec/Tie2.lean (hand-written, fixed) states for each function with which arguments the callees are
called and that the result is the model's (`vsort`, `vreverse`, `findCh`, `findStr`, `compareStr`, `insertStrN`
∘ `strlen`, …); tools/areas/swap_tie.py regenerates this file on every run and re-checks them.

tools/c2lean.py and tools/c2lean_vec.py are not edited: this module registers itself as area "vec2".
"""
import json
import os
import re
import sys

sys.path.insert(0, os.path.dirname(os.path.abspath(__file__)))
import c2lean                                   # noqa: E402
from c2lean import Unsupported, lname           # noqa: E402
import c2lean_vec                               # noqa: E402  (parse_tu, type tables)
from c2lean_vec import parse_tu, U64, RE_VEC, RE_CHAR, RE_CHARP, atom  # noqa: E402

MODULE = "VecC2"
RE_OPQ = re.compile(r"^(const )?(void|cstl_compare_func_t|cstl_swap_func_t) \*( ?const)?$")
RE_ENUM = re.compile(r"^(const )?cstl_sort_algorithm_t$")
SIGNED = {"ssize_t", "int", "long", "const ssize_t", "const int", "const long"}

LIBC = {"strchr": ("chr", 1), "wcschr": ("chr", 4), "strstr": ("str", 1), "wcsstr": ("str", 4),
        "strcmp": ("cmp", 1), "wcscmp": ("cmp", 4), "strlen": ("len", 1), "wcslen": ("len", 4)}

# callees translated by c2lean_vec.py (Cstl/Gen/VecC.lean) that edit the object: parameter kinds
EXT_EFF = {"insert_str_n": ["vec", "nat", "chars", "nat"], "resize": ["vec", "nat"]}
# callees translated by c2lean_sort.py (Cstl/Gen/SortC.lean): parameter kinds
EXT_TAIL = {
    "cstl_raw_array_sort": ["sptr", "nat", "nat", "opq", "opq", "opq", "sptr", "nat"],
    "cstl_raw_array_search": ["sptr", "nat", "nat", "opq", "opq", "opq"],
    "cstl_raw_array_find": ["sptr", "nat", "nat", "opq", "opq", "opq"],
    "cstl_raw_array_reverse": ["sptr", "nat", "nat", "opq", "sptr"],
}
LEAN_TY = {"nat": "Nat", "int": "Int", "vec": "Vector", "sptr": "SPtr", "chars": "List Nat", "opq": "Opq"}


class Val:
    def __init__(self, kind, txt=None, obj=None, raw=False):
        self.kind = kind        # nat int vec sptr chars opq prop null view
        self.txt = txt
        self.obj = obj          # sptr: the object (parameter name) the pointer points into
        self.raw = raw          # sptr converted to uintptr_t


def ext_eff_name(fn):
    m = re.match(r"^(cstl_w?string)_(.+)$", fn)
    if m and m.group(2) in EXT_EFF:
        return m.group(2)
    return None


class SFn:
    def __init__(self, decl, known, gvars):
        self.decl = decl
        self.known = known
        self.gvars = gvars
        self.name = decl["name"]
        self.lean = "c_" + ("priv_" + self.name[2:] if self.name.startswith("__") else self.name)
        self.params = []
        for p in decl["inner"]:
            if p["kind"] != "ParmVarDecl":
                continue
            q = p["type"]["qualType"]
            if RE_VEC.match(q):
                k = "vec"
            elif q in U64 or RE_CHAR.match(q) or RE_ENUM.match(q):
                k = "nat"
            elif RE_CHARP.match(q):
                k = "chars"
            elif RE_OPQ.match(q):
                k = "opq"
            else:
                raise Unsupported("parameter %s of type %s" % (p.get("name"), q))
            self.params.append((p["name"], k))
        self.body = [c for c in decl["inner"] if c["kind"] == "CompoundStmt"][0]
        rt = decl["type"]["qualType"].split("(")[0].strip()
        if rt == "void":
            self.ret = None
        elif rt in U64:
            self.ret = "nat"
        elif rt in SIGNED:
            self.ret = "int"
        elif rt.endswith("*") and ("void" in rt or "char_t" in rt):
            self.ret = "sptr"
        else:
            raise Unsupported("return type %s" % rt)
        self.kindf = "pure"         # pure | stop | eff | tail
        self.exts = []              # external callees (k_ parameters), in order of first use
        self.ret_obj = None
        self.tail_ext = None

    # ---- bookkeeping
    def reset(self):
        self.vars = dict(self.params)
        self.var_obj = {}
        self.lines = []
        self.tmp = 0
        self.ind = 1
        self.found_stop = False
        self.found_eff = False
        self.found_tail = False
        self.found_exts = []
        self.eff_obj = None

    def pad(self):
        return "  " * self.ind

    def emit(self, s):
        self.lines.append(self.pad() + s)

    def fresh(self):
        self.tmp += 1
        return "r%d" % self.tmp

    def first_vec(self):
        for n, k in self.params:
            if k == "vec":
                return n
        raise Unsupported("no object parameter")

    def use_ext(self, name):
        if name not in self.found_exts:
            self.found_exts.append(name)

    def bind(self, txt, ckind):
        """value of a call of kind ckind (stop / eff) bound to a fresh name"""
        r = self.fresh()
        if ckind == "eff":
            self.found_eff = True
            self.emit("bindF (%s) fun %s =>" % (txt, r))
        else:
            self.found_stop = True
            if self.kindf == "eff":
                self.emit("bindF (some (%s)) fun %s =>" % (txt, r))
            else:
                self.emit("andThen (%s) fun %s =>" % (txt, r))
        return r

    # ---- expressions
    def strip(self, e):
        raw = False
        while True:
            k = e["kind"]
            if k in ("ParenExpr", "ConstantExpr"):
                e = e["inner"][0]
                continue
            if k in ("ImplicitCastExpr", "CStyleCastExpr"):
                ck = e.get("castKind")
                if ck == "NullToPointer":
                    return {"kind": "NULL"}, False, None
                if ck in ("LValueToRValue", "NoOp", "BitCast", "FunctionToPointerDecay"):
                    e = e["inner"][0]
                    continue
                if ck in ("PointerToIntegral", "IntegralToPointer"):
                    raw = (ck == "PointerToIntegral")
                    inner = e["inner"][0]
                    if ck == "IntegralToPointer":
                        # (void *)(<uintptr_t expression>): the value of the integer expression
                        return inner, False, "toptr"
                    e = inner
                    continue
                if ck == "IntegralCast":
                    inner = e["inner"][0]
                    core = inner
                    while core["kind"] in ("ParenExpr", "ImplicitCastExpr") and core.get("castKind") in (None, "LValueToRValue", "NoOp"):
                        core = core["inner"][0]
                    st = core.get("type", {}).get("qualType", "")
                    dt = e.get("type", {}).get("qualType", "")
                    if dt in SIGNED and core["kind"] == "UnaryOperator" and core.get("opcode") == "-":
                        return core, False, None                # -1 : int -> ssize_t
                    if core["kind"] in ("IntegerLiteral", "CharacterLiteral") or (st in U64 and dt in U64) \
                            or (RE_CHAR.match(st) and RE_CHAR.match(dt)):
                        e = inner
                        continue
                    if RE_CHAR.match(st) and dt == "int":
                        e = inner                               # the `int c` of strchr: converted back by the library
                        continue
                    if st in U64 and dt in ("ssize_t", "long"):
                        return inner, False, "tossize"
                    raise Unsupported("integral conversion %s -> %s" % (st, dt))
                raise Unsupported("cast %s" % ck)
            return e, raw, None

    def val(self, e):
        node, raw, conv = self.strip(e)
        if conv == "tossize":
            v = self.val(node)
            if v.kind != "nat":
                raise Unsupported("(ssize_t) of %s" % v.kind)
            return Val("int", "(toSsize %s)" % atom(v.txt))
        if conv == "toptr":
            v = self.val(node)
            if v.kind == "sptr":
                return Val("sptr", v.txt, v.obj)
            raise Unsupported("integer to pointer conversion of %s" % v.kind)
        v = self.val_node(node)
        if raw and v.kind == "sptr":
            v = Val("sptr", v.txt, v.obj, raw=True)
        return v

    def check_u64(self, node):
        t = node.get("type", {}).get("qualType", "")
        if t not in U64:
            raise Unsupported("arithmetic in type %s" % t)

    def member_path(self, e):
        names = []
        while e["kind"] == "MemberExpr":
            names.append(e["name"])
            arrow = e.get("isArrow")
            e, _, _ = self.strip(e["inner"][0])
            if arrow:
                break
        else:
            raise Unsupported("member access on a non-pointer")
        base = self.val_node(e)
        if base.kind != "vec":
            raise Unsupported("member access on %s" % base.kind)
        names.reverse()
        return base.txt, ".".join(names)

    def as_prop(self, v):
        if v.kind == "prop":
            return v.txt
        if v.kind == "nat":
            return "(%s ≠ 0)" % v.txt
        raise Unsupported("condition of kind %s" % v.kind)

    def val_node(self, e):
        k = e["kind"]
        if k == "NULL":
            return Val("null")
        if k == "IntegerLiteral":
            return Val("nat", "SIZE_MAX" if e["value"] == "18446744073709551615" else e["value"])
        if k == "CharacterLiteral":
            return Val("nat", str(e["value"]))
        if k == "DeclRefExpr":
            rd = e["referencedDecl"]
            n = rd["name"]
            if rd["kind"] in ("ParmVarDecl", "VarDecl") and n in self.vars:
                kd = self.vars[n]
                if kd is None:
                    raise Unsupported("use of %s before assignment" % n)
                return Val(kd, lname(n), self.var_obj.get(n))
            raise Unsupported("reference to %s" % n)
        if k == "UnaryExprOrTypeTraitExpr" and e.get("name") == "sizeof":
            at = e.get("argType", {}).get("qualType", "")
            if RE_CHAR.match(at):
                return Val("nat", "%s.esz" % lname(self.first_vec()))
            raise Unsupported("sizeof(%s)" % (at or "expression"))
        if k == "UnaryOperator":
            op = e["opcode"]
            if op == "&":
                inner, _, _ = self.strip(e["inner"][0])
                if inner["kind"] == "MemberExpr" and inner["name"] == "v" and inner.get("isArrow"):
                    b = self.val(inner["inner"][0])
                    if b.kind == "vec":
                        return Val("vec", b.txt)        # a string object is its vector
                if inner["kind"] == "DeclRefExpr" and inner["referencedDecl"]["kind"] == "VarDecl" \
                        and inner["referencedDecl"]["name"] in self.gvars:
                    g = self.gvars[inner["referencedDecl"]["name"]]
                    init, _, _ = self.strip(g["inner"][0])
                    if RE_CHAR.match(g["type"]["qualType"]) and init["kind"] in ("CharacterLiteral", "IntegerLiteral") \
                            and str(init["value"]) == "0" and re.match(r"^cstl_w?string_nul$", g["name"]):
                        return Val("sptr", "(SPtr.nul 0)", "«static»")
                    raise Unsupported("address of %s (not a NUL static)" % g["name"])
                raise Unsupported("address-of")
            if op == "-":
                inner, _, _ = self.strip(e["inner"][0])
                if inner["kind"] == "IntegerLiteral":
                    return Val("int", "(-%s : Int)" % inner["value"])
                raise Unsupported("unary minus")
            if op == "!":
                return Val("prop", "(¬ %s)" % self.as_prop(self.val(e["inner"][0])))
            raise Unsupported("unary %s" % op)
        if k == "MemberExpr":
            obj, path = self.member_path(e)
            o = obj
            if path in ("count", "cap"):
                return Val("nat", "%s.%s" % (o, path))
            if path == "elem.size":
                return Val("nat", "%s.esz" % o)
            if path == "elem.base":
                return Val("sptr", "(basePtr %s)" % o, o)
            raise Unsupported("field %s" % path)
        if k == "BinaryOperator":
            op = e["opcode"]
            if op in ("&&", "||"):
                a = self.as_prop(self.val(e["inner"][0]))
                n0 = len(self.lines)
                b = self.as_prop(self.val(e["inner"][1]))
                if len(self.lines) != n0:
                    raise Unsupported("side effect in the right operand of %s" % op)
                return Val("prop", "(%s %s %s)" % (a, "∧" if op == "&&" else "∨", b))
            a = self.val(e["inner"][0])
            b = self.val(e["inner"][1])
            if op in ("==", "!=", "<", ">", "<=", ">="):
                if a.kind == "nat" and b.kind == "nat":
                    for x in e["inner"]:
                        if x.get("type", {}).get("qualType", "") not in U64:
                            raise Unsupported("comparison in type %s" % x.get("type", {}).get("qualType"))
                    lop = {"==": "=", "!=": "≠", "<=": "≤", ">=": "≥"}.get(op, op)
                    return Val("prop", "(%s %s %s)" % (a.txt, lop, b.txt))
                if op in ("==", "!=") and a.kind == "sptr" and b.kind in ("sptr", "null") and not a.raw:
                    bt = "SPtr.null" if b.kind == "null" else b.txt
                    return Val("prop", "(%s %s %s)" % (a.txt, "=" if op == "==" else "≠", bt))
                raise Unsupported("comparison of %s with %s" % (a.kind, b.kind))
            if op in ("+", "-", "*", "/", "%"):
                if a.kind == "nat" and b.kind == "nat":
                    self.check_u64(e)
                    if op in ("/", "%"):
                        return Val("nat", "(%s %s %s)" % (a.txt, op, b.txt))
                    f = {"+": "addW", "-": "subW", "*": "mulW"}[op]
                    return Val("nat", "(%s %s %s)" % (f, atom(a.txt), atom(b.txt)))
                if op == "+" and a.kind == "sptr" and b.kind == "nat":
                    if a.raw:
                        self.check_u64(e)
                        return Val("sptr", "(SPtr.add %s %s)" % (atom(a.txt), atom(b.txt)), a.obj, raw=True)
                    pt = e.get("type", {}).get("qualType", "")
                    if RE_CHARP.match(pt) and a.obj is not None:
                        scale = "%s.esz" % a.obj if a.obj != "«static»" else "%s.esz" % lname(self.first_vec())
                        return Val("sptr", "(SPtr.add %s (mulW %s %s))" % (atom(a.txt), atom(b.txt), scale), a.obj)
                    raise Unsupported("pointer arithmetic on %s" % pt)
                if op == "-" and a.kind == "sptr" and b.kind == "sptr" and a.raw and b.raw:
                    self.check_u64(e)
                    return Val("nat", "(SPtr.diff %s %s)" % (atom(a.txt), atom(b.txt)))
            raise Unsupported("binary %s on %s, %s" % (op, a.kind, b.kind))
        if k == "CallExpr":
            return self.call(e)
        raise Unsupported("expression kind %s" % k)

    # ---- calls
    def callee_name(self, e):
        c, _, _ = self.strip(e["inner"][0])
        if c["kind"] == "DeclRefExpr" and c["referencedDecl"]["kind"] == "FunctionDecl":
            return c["referencedDecl"]["name"]
        raise Unsupported("indirect call")

    def view_of(self, v):
        """what the C library reads at a `const char_t *` argument"""
        if v.kind == "chars":
            return "(cview %s)" % atom(v.txt)
        if v.kind == "sptr" and v.obj is not None and not v.raw:
            o = v.obj if v.obj != "«static»" else lname(self.first_vec())
            return "(viewAt %s %s)" % (o, atom(v.txt))
        raise Unsupported("C-library string argument of kind %s" % v.kind)

    def conv_arg(self, v, pk):
        if pk == "vec":
            if v.kind != "vec":
                raise Unsupported("object argument")
            return v.txt
        if pk == "nat":
            if v.kind != "nat":
                raise Unsupported("integer argument of kind %s" % v.kind)
            return atom(v.txt)
        if pk == "chars":
            if v.kind == "chars":
                return atom(v.txt)
            if v.kind == "sptr" and v.obj is not None and v.obj != "«static»" and not v.raw:
                return "(unitsAt %s %s)" % (v.obj, atom(v.txt))
            raise Unsupported("character array argument of kind %s" % v.kind)
        if pk == "opq":
            if v.kind != "opq":
                raise Unsupported("opaque argument of kind %s" % v.kind)
            return v.txt
        if pk == "sptr":
            if v.kind == "null":
                return "SPtr.null"
            if v.kind != "sptr" or v.raw:
                raise Unsupported("pointer argument of kind %s" % v.kind)
            return atom(v.txt)
        raise Unsupported("argument kind %s" % pk)

    def call(self, e):
        fn = self.callee_name(e)
        args = e["inner"][1:]
        if fn in LIBC:
            what, w = LIBC[fn]
            vals = [self.val(a) for a in args]
            cw = "%s.esz" % lname(self.first_vec())
            if what == "len":
                r = self.bind("libcLen %d %s %s" % (w, cw, self.view_of(vals[0])), "stop")
                return Val("nat", r)
            p = vals[0]
            if p.kind != "sptr" or p.obj in (None, "«static»") or p.raw:
                raise Unsupported("first argument of %s" % fn)
            if what == "chr":
                if vals[1].kind != "nat":
                    raise Unsupported("character argument of %s" % fn)
                r = self.bind("libcChr %d %s %s %s" % (w, p.obj, atom(p.txt), atom(vals[1].txt)), "stop")
                return Val("sptr", r, p.obj)
            if what == "str":
                r = self.bind("libcStr %d %s %s %s" % (w, p.obj, atom(p.txt), self.view_of(vals[1])), "stop")
                return Val("sptr", r, p.obj)
            r = self.bind("libcCmp %d %s %s %s" % (w, p.obj, atom(p.txt), self.view_of(vals[1])), "stop")
            return Val("int", r)
        en = ext_eff_name(fn)
        if en is not None and fn not in self.known:
            kinds = EXT_EFF[en]
            if len(args) != len(kinds):
                raise Unsupported("arity of %s" % fn)
            vals = [self.val(a) for a in args]
            targs = [self.conv_arg(v, k) for v, k in zip(vals, kinds)]
            self.use_ext(fn)
            self.edit(targs[0], self.bind("k_%s %s" % (fn, " ".join(targs)), "eff"))
            return Val("opq", "()")
        if fn in EXT_TAIL:
            raise Unsupported("%s not in tail position" % fn)
        if fn not in self.known:
            raise Unsupported("call to untranslated function %s" % fn)
        g = self.known[fn]
        if g.kindf == "tail":
            raise Unsupported("call to %s (a tail-call wrapper)" % fn)
        vals = [self.val(a) for a in args]
        targs = [self.conv_arg(v, pk) for v, (pn, pk) in zip(vals, g.params)]
        for x in g.exts:
            self.use_ext(x)
        head = g.lean + "".join(" k_%s" % x for x in g.exts)
        txt = (head + " " + " ".join(targs)).strip()
        if g.kindf == "pure":
            rv = "(%s)" % txt
        elif g.kindf == "stop":
            rv = self.bind(txt, "stop")
        else:
            self.edit(targs[0], self.bind(txt, "eff"))
            return Val("opq", "()")
        if g.ret == "sptr":
            return Val("sptr", rv, targs[g.ret_obj] if g.ret_obj is not None else None)
        if g.ret in ("nat", "int"):
            return Val(g.ret, rv)
        return Val("opq", "()")

    def edit(self, obj, r):
        """the callee edited object `obj`: rebind it, accumulate its events"""
        if self.eff_obj not in (None, obj):
            raise Unsupported("edits of two objects")
        self.eff_obj = obj
        self.emit("let %s := %s.1" % (obj, r))
        self.emit("let ev := ev ++ %s.2" % r)

    # ---- statements
    def assign(self, n, x):
        kd = self.vars.get(n)
        if kd is None and n in self.vars:
            kd = x.kind if x.kind != "null" else None
        if x.kind == "null" and kd == "sptr":
            x = Val("sptr", "SPtr.null", self.var_obj.get(n))
        if kd != x.kind:
            raise Unsupported("assignment of %s to %s" % (x.kind, n))
        self.vars[n] = kd
        if kd == "sptr":
            # the static NUL stands in for the object's storage: keep the object the variable is about
            if x.obj is not None and not (x.obj == "«static»" and self.var_obj.get(n)):
                self.var_obj[n] = x.obj
        ann = " : Int" if kd == "int" else ""
        self.emit("let %s%s := %s" % (lname(n), ann, x.txt))

    def decl_kind(self, q):
        if q in U64 or RE_CHAR.match(q):
            return "nat"
        if q in SIGNED:
            return "int"
        if RE_CHARP.match(q):
            return "sptr"
        raise Unsupported("local of type %s" % q)

    def simple_branch(self, body):
        """statements of an `if` branch that only assign: returns the set of assigned names"""
        lst = body.get("inner", []) if body["kind"] == "CompoundStmt" else [body]
        assigned = []
        for s in lst:
            n0 = len(self.lines)
            stop0 = (self.found_stop, self.found_eff)
            if s["kind"] == "BinaryOperator" and s["opcode"] == "=":
                lhs, _, _ = self.strip(s["inner"][0])
                if lhs["kind"] != "DeclRefExpr" or lhs["referencedDecl"]["name"] not in self.vars:
                    raise Unsupported("assignment target in a branch")
                x = self.val(s["inner"][1])
                self.assign(lhs["referencedDecl"]["name"], x)
                assigned.append(lhs["referencedDecl"]["name"])
            elif s["kind"] == "UnaryOperator" and s["opcode"] in ("++", "--"):
                assigned.append(self.incdec(s))
            else:
                raise Unsupported("statement kind %s in a branch" % s["kind"])
            if (self.found_stop, self.found_eff) != stop0 or any("fun r" in l for l in self.lines[n0:]):
                raise Unsupported("call that may stop inside a branch")
        return assigned

    def incdec(self, s):
        t, _, _ = self.strip(s["inner"][0])
        if t["kind"] == "DeclRefExpr" and self.vars.get(t["referencedDecl"]["name"]) == "nat":
            self.check_u64(t)
            n = t["referencedDecl"]["name"]
            self.emit("let %s := %s %s 1" % (lname(n), "addW" if s["opcode"] == "++" else "subW", lname(n)))
            return n
        raise Unsupported("++/-- target")

    def stmts(self, lst):
        for i, s in enumerate(lst):
            last = i == len(lst) - 1
            self.stmt(s, last)

    def stmt(self, s, last):
        kind = s["kind"]
        if kind == "NullStmt":
            return
        if kind in ("ParenExpr", "CStyleCastExpr"):
            core = s
            while core["kind"] == "ParenExpr":
                core = core["inner"][0]
            if core["kind"] == "CStyleCastExpr" and core.get("castKind") == "ToVoid":
                return
            raise Unsupported("expression statement")
        if kind == "DeclStmt":
            for v in s["inner"]:
                if v["kind"] != "VarDecl":
                    raise Unsupported("declaration")
                kd = self.decl_kind(v["type"]["qualType"])
                n = v["name"]
                self.vars[n] = kd
                if "inner" in v and v["inner"]:
                    x = self.val(v["inner"][0])
                    self.assign(n, x)
                else:
                    self.vars[n] = None if kd != "sptr" else None
                    self._declared = getattr(self, "_declared", {})
                    self._declared[n] = kd
            return
        if kind == "BinaryOperator" and s["opcode"] == "=":
            lhs, _, _ = self.strip(s["inner"][0])
            if lhs["kind"] == "DeclRefExpr" and lhs["referencedDecl"]["name"] in self.vars:
                n = lhs["referencedDecl"]["name"]
                x = self.val(s["inner"][1])
                if self.vars[n] is None:
                    want = getattr(self, "_declared", {}).get(n)
                    if x.kind == "null" and want == "sptr":
                        x = Val("sptr", "SPtr.null")
                    if want != x.kind:
                        raise Unsupported("assignment of %s to %s" % (x.kind, n))
                    self.vars[n] = want
                self.assign(n, x)
                return
            raise Unsupported("assignment target")
        if kind == "UnaryOperator" and s["opcode"] in ("++", "--"):
            self.incdec(s)
            return
        if kind == "CallExpr":
            fn = self.callee_name(s)
            if fn == "abort":
                raise Unsupported("abort() outside a guard")
            if fn in EXT_TAIL:
                return self.tail_call(s, last)
            self.call(s)
            return
        if kind == "ReturnStmt":
            if not last or self.ind != 1:
                raise Unsupported("return before the end of the function")
            if s.get("inner"):
                core, _, _ = self.strip(s["inner"][0])
                if core["kind"] == "CallExpr" and self.callee_name(core) in EXT_TAIL:
                    return self.tail_call(core, last)
                x = self.val(s["inner"][0])
                if x.kind != self.ret:
                    raise Unsupported("returned value of kind %s" % x.kind)
                if self.ret == "sptr":
                    names = [n for n, _ in self.params]
                    self.ret_obj = names.index(x.obj) if x.obj in names else None
                self.retv = x.txt
            return
        if kind == "IfStmt":
            return self.if_stmt(s)
        if kind == "CompoundStmt":
            return self.stmts(s.get("inner", []))
        raise Unsupported("statement kind %s" % kind)

    def tail_call(self, e, last):
        fn = self.callee_name(e)
        if not last or self.ind != 1 or self.lines:
            raise Unsupported("%s not the only statement" % fn)
        kinds = EXT_TAIL[fn]
        args = e["inner"][1:]
        if len(args) != len(kinds):
            raise Unsupported("arity of %s" % fn)
        vals = [self.val(a) for a in args]
        targs = [self.conv_arg(v, k) for v, k in zip(vals, kinds)]
        if self.lines:
            raise Unsupported("argument of %s that may stop" % fn)
        self.found_tail = True
        self.tail_ext = fn
        self.use_ext(fn)
        self.retv = "k_%s %s" % (fn, " ".join(targs))

    def is_abort(self, body):
        lst = body.get("inner", []) if body["kind"] == "CompoundStmt" else [body]
        return len(lst) == 1 and lst[0]["kind"] == "CallExpr" and self.callee_name(lst[0]) == "abort"

    def if_stmt(self, s):
        cond = self.as_prop(self.val(s["inner"][0]))
        then = s["inner"][1]
        els = s["inner"][2] if len(s["inner"]) > 2 else None
        if self.is_abort(then) and els is None:
            self.found_stop = True
            ab = ".error .abort" if self.kindf != "eff" else "some (.error .abort)"
            self.emit("if %s then %s else" % (cond, ab))
            return
        # let-form: both branches only assign
        saved_lines, saved_vars, saved_obj = self.lines, dict(self.vars), dict(self.var_obj)
        self.lines = []
        self.ind += 2
        a1 = self.simple_branch(then)
        tl = self.lines
        self.lines = []
        self.vars, self.var_obj = dict(saved_vars), dict(saved_obj)
        a2 = self.simple_branch(els) if els is not None else []
        el = self.lines
        self.ind -= 2
        self.lines = saved_lines
        self.vars, self.var_obj = saved_vars, saved_obj
        asg = [n for n in self.vars if n in a1 or n in a2]
        for n in asg:
            if self.vars[n] is None:
                raise Unsupported("%s assigned only in a branch" % n)
        if not asg:
            return
        tup = lname(asg[0]) if len(asg) == 1 else "(" + ", ".join(lname(a) for a in asg) + ")"
        p = self.pad()
        self.lines += [p + "let %s := if %s then (" % (tup, cond)] + tl + [p + "    %s)" % tup, p + "  else ("] + el + [p + "    %s)" % tup]

    # ---- whole function
    def run(self):
        self.reset()
        self._declared = {}
        self.retv = None
        self.stmts(self.body.get("inner", []))
        if self.found_tail:
            return "tail"
        if self.found_eff:
            return "eff"
        return "stop" if self.found_stop else "pure"

    def render(self):
        self.kindf = "pure"
        for _ in range(3):
            k = self.run()
            stable = (k == self.kindf and self.found_exts == self.exts)
            self.kindf, self.exts = k, list(self.found_exts)
            if stable:
                break
        else:
            self.run()
        k = self.kindf
        if k == "tail":
            kinds = EXT_TAIL[self.tail_ext]
            kty = "(k_%s : %s → β)" % (self.tail_ext, " → ".join(LEAN_TY[x] for x in kinds))
            ps = " ".join("(%s : %s)" % (lname(n), LEAN_TY[kd]) for n, kd in self.params)
            return "def %s {β : Type} %s %s : β :=\n  %s\n" % (self.lean, kty, ps, self.retv)
        ks = []
        for x in self.exts:
            en = ext_eff_name(x)
            if en is None:
                raise Unsupported("external callee %s" % x)
            ks.append("(k_%s : %s → Eff)" % (x, " → ".join(LEAN_TY[t] for t in EXT_EFF[en])))
        ps = ks + ["(%s : %s)" % (lname(n), LEAN_TY[kd]) for n, kd in self.params]
        if k == "eff":
            if self.ret is not None:
                raise Unsupported("value returned by a function that edits an object")
            obj = self.eff_obj
            body = ["  let ev : List Ev := []"] + self.lines + ["  some (.ok (%s, ev))" % obj]
            rty = "Eff"
        else:
            T = {"nat": "Nat", "int": "Int", "sptr": "SPtr", None: "Unit"}[self.ret]
            rv = self.retv if self.ret is not None else "()"
            if self.ret is not None and rv is None:
                raise Unsupported("no value returned")
            if k == "stop":
                body = self.lines + ["  .ok %s" % atom(rv)]
                rty = "Except Stop %s" % T
            else:
                body = self.lines + ["  %s" % rv]
                rty = T
        return "def %s %s : %s :=\n%s\n" % (self.lean, " ".join(ps), rty, "\n".join(body))


VECTOR_FNS = ["cstl_vector_size", "cstl_vector_data", "__cstl_vector_at",
              "__cstl_vector_sort", "cstl_vector_search", "cstl_vector_find", "__cstl_vector_reverse"]
STRING_FNS = ["size", "data", "str", "find_ch", "find_str", "find", "compare_str", "compare",
              "insert_str", "append_str", "set_str"]


def translate_vec2(repo):
    known, report, chunks = {}, {}, []

    def do(names, fns, gvars, title):
        chunks.append("/-! ### %s -/\n" % title)
        for name in names:
            if name not in fns:
                report[name] = "not found in source"
                continue
            try:
                f = SFn(fns[name], known, gvars)
                txt = f.render()
                known[name] = f
                chunks.append(txt)
                report[name] = "translated (%s%s)" % (f.kindf, ("; callees as parameters: " + ", ".join(f.exts)) if f.exts else "")
            except Unsupported as e:
                report[name] = "not translated: %s" % e

    vf, vg = parse_tu(repo, "vector.c")
    do(VECTOR_FNS, vf, vg, "src/vector.c (+ the inline functions of include/cstl/vector.h)")
    sf, sg = parse_tu(repo, "string.c")
    for pfx, what in (("cstl_string", "narrow"), ("cstl_wstring", "wide")):
        do(["%s_%s" % (pfx, n) for n in STRING_FNS], sf, sg,
           "src/_string.c + include/cstl/_string.h as instantiated by src/string.c: %s (`%s`)" % (what, pfx))
    for pfx in ("cstl_string", "cstl_wstring"):
        d = sf.get(pfx + "_init")
        ok = False
        if d is not None:
            txt = json.dumps(d)
            ok = '"cstl_vector_init"' in txt and '"UnaryExprOrTypeTraitExpr"' in txt and ('"%s_char_t"' % pfx) in txt
        report[pfx + "_init"] = ("not translated; elem.size = sizeof(%s_char_t): %s" % (pfx, "confirmed" if ok else "NOT FOUND"))
    out = ("-- GENERATED by tools/c2lean_vec2.py from /repo's src/vector.c and src/string.c (+ src/_string.c,\n"
           "-- include/cstl/vector.h, include/cstl/_string.h) on every check run; do not edit.\n"
           "import Cstl.Vec.CSem2\nset_option linter.unusedVariables false\nnamespace Cstl.Gen.%s\nopen Cstl.Vec\n\n" % MODULE
           + "\n".join(chunks) + "\nend Cstl.Gen.%s\n" % MODULE)
    return out, report


c2lean.AREAS["vec2"] = dict(src="vector.c, string.c, _string.c (wrappers, str, find/compare, strlen variants)",
                            module=MODULE, custom=translate_vec2, header="import Cstl.Vec.CSem2\n")


if __name__ == "__main__":
    repo = sys.argv[1] if len(sys.argv) > 1 else os.environ.get("VERIF_REPO", "/repo")
    txt, rep = translate_vec2(repo)
    sys.stdout.write(txt)
    for k, v in rep.items():
        sys.stderr.write("%s: %s\n" % (k, v))
