#!/usr/bin/env python3
"""
Translator for the chain functions of src/hash.c  ->  Lean 4 (area `hashl`).

Reads the typed AST clang produces for the *current* source (tools/c2lean.py's
`clang_ast`) and emits definitions in the vocabulary of the hand-written
link-level model lean/Cstl/HashL/Model.lean:

  n->next, n->key                     s.nxt n, s.keyOf n           (setNxt / setKey)
  bk->n, bk->cst   (bucket pointers   s.t.head bk, s.t.bcst bk     (setHead / setBcst);
                    are indices)      the first access of a straight-line region is
                                      preceded by the bounds check `chk s.t bk`
  &h->bucket.at[i]                    i
  h->bucket.cst, .rh.hash, .rh.count, .rh.clean, .count, .hash, h->count
                                      s.t.cst, s.t.rhHash, s.t.rhCount, s.t.clean, s.t.count,
                                      s.t.hash, s.t.size
  struct cstl_hash_node **            Loc:  &bk->n = Loc.head bk,  &(x)->next = Loc.next x,
                                      *pp = s.rdLoc pp,  *pp = v  is  s.wrLoc pp v; a `->`
                                      through a loaded pointer (*pp)->f is preceded by `chkN`
  hash(k, count)                      callHash hf hash k count     (logs the call; NULL = stop)
  abort()                             stop .abort
  visit(e, p)                         visit s p e : LR (LS × π × Int)   (callback parameter)
  while (cond-with-assignments)       an auxiliary definition with fuel (`hang` = fuel exhausted),
                                      `break` leaves it
  x = f(...)  for an untranslated f   x becomes a parameter (leading statements only): the
                                      translation is that of the rest of the function, `s` is
                                      the state after the call

lean/Cstl/HashL/Tie.lean (hand-written, fixed) states `translation = model` for
every translated function; the kernel re-checks the equalities against the
regenerated file on every run.  Everything outside the subset raises
`Unsupported` and is reported as "not translated".
"""
import sys

import c2lean
from c2lean import Unsupported, clang_ast, lname

HDR = {
    "bucket.cst": "cst", "bucket.rh.hash": "rhHash", "bucket.rh.count": "rhCount", "bucket.rh.clean": "clean",
    "bucket.count": "count", "bucket.hash": "hash", "bucket.capacity": "cap", "count": "size",
}
HDR_SET = {"clean": "setClean", "size": "setSize"}
IDENT = ("__cstl_hash_node", "__cstl_hash_element")
OPAQUE = ("cstl_hash_get_bucket",)       # not translated: its result becomes a parameter
PRIV = {"cstl_hash_erase_priv": ("EraseP", {"n": "Loc", "e": "Nat"}, "{ n := Loc.head 0, e := 0 }")}

# name -> kind: value (returns a value, no writes), state (void, writes), foreach (the generic walk), visit
ORDER = [
    ("__cstl_hash_get_bucket", "value"),
    ("cstl_clean_bucket", "state"),
    ("cstl_hash_bucket_foreach", "foreach"),
    ("cstl_hash_erase_visit", "visit"),
    ("cstl_hash_erase", "state"),
    ("cstl_hash_insert", "state"),
]


def qt(n):
    return n.get("type", {}).get("qualType", "")


class HFn:
    def __init__(self, decl, kind, known):
        self.decl = decl
        self.kind = kind
        self.known = known
        self.name = decl["name"]
        self.params = [p for p in decl["inner"] if p["kind"] == "ParmVarDecl"]
        self.body = [c for c in decl["inner"] if c["kind"] == "CompoundStmt"][0]
        self.ret = decl["type"]["qualType"].split("(")[0].strip()
        self.hdr = None           # the `struct cstl_hash *` parameter
        self.vars = {}            # local / parameter name -> Lean type
        self.args = []            # (lean name, lean type) in order
        self.hashfns = []
        self.visit = None
        self.pvar = None          # the variable that stands for the callback's private data
        self.ptype = None
        self.alias = {}           # C name -> Lean name (hep -> p)
        self.extra = []           # (param, doc)
        self.uses_hf = False
        self.uses_fuel = False
        self.prelude = []
        self.nloops = 0
        self.tmp = 0
        self.mut_params = []
        for p in self.params:
            t = qt(p)
            n = p["name"]
            if "struct cstl_hash *" in t:
                self.hdr = n
            elif "cstl_hash_func_t" in t:
                self.hashfns.append(n)
                self.args.append((lname(n), "Option HashId"))
            elif "cstl_visit_func_t" in t:
                self.visit = n
            elif kind == "foreach" and t.startswith("void *"):
                self.pvar = n
                self.ptype = "π"
            elif kind == "visit" and n == "p":
                self.pvar = n
            else:
                self.vars[n] = "Nat"
                self.args.append((lname(n), "Nat"))
                if not t.rstrip().endswith("const"):
                    self.mut_params.append(n)       # may be assigned: part of the mutable state
        self.writes = kind in ("state", "foreach", "visit")

    # ------------------------------------------------------------------ helpers
    def lean_name(self):
        return "c_" + ("priv_" + self.name[2:] if self.name.startswith("__") else self.name)

    def strip(self, e):
        while e["kind"] in ("ImplicitCastExpr", "ParenExpr", "CStyleCastExpr", "ConstantExpr"):
            if e["kind"] in ("ImplicitCastExpr", "CStyleCastExpr") and e.get("castKind") == "NullToPointer":
                return {"kind": "NULL"}
            e = e["inner"][0]
        return e

    @staticmethod
    def atom(s):
        ok = s.replace(".", "").replace("_", "").isalnum() or s.startswith("(") or s.startswith("«")
        return s if ok else "(%s)" % s

    def hdr_path(self, e):
        """`h->bucket.rh.hash` -> 'bucket.rh.hash' (None if not rooted at the table parameter)"""
        e = self.strip(e)
        path = []
        while e["kind"] == "MemberExpr":
            path.append(e["name"])
            arrow = e.get("isArrow")
            e = self.strip(e["inner"][0])
            if arrow:
                if e["kind"] == "DeclRefExpr" and e["referencedDecl"]["name"] == self.hdr:
                    return ".".join(reversed(path))
                return None
        return None

    def lvar(self, n):
        return self.alias.get(n, lname(n))

    def is_bucket_ptr(self, e):
        return "struct cstl_hash_bucket *" in qt(e)

    def is_node_ptr(self, e):
        t = qt(e)
        return "struct cstl_hash_node *" in t and "**" not in t

    def is_priv(self, e):
        t = qt(e)
        return any(("struct " + k) in t for k in PRIV)

    def callee(self, e):
        c = self.strip(e["inner"][0])
        if c["kind"] == "DeclRefExpr":
            return c["referencedDecl"]["name"]
        return None

    # ------------------------------------------------------------------ expressions
    # `pre` collects the lines (lets / binds / checks) that must run before the value is used
    def check_bucket(self, b, pre):
        if b not in self.checked:
            self.checked.add(b)
            pre.append("chk s.t %s" % self.atom(b))

    def expr(self, e, pre):
        e = self.strip(e)
        k = e["kind"]
        if k == "NULL":
            return "0"
        if k == "IntegerLiteral":
            return e["value"]
        if k == "DeclRefExpr":
            n = e["referencedDecl"]["name"]
            if n in self.vars or n in self.alias or n in self.hashfns:
                return self.lvar(n)
            if n in self.known:
                return self.known[n].lean_name()
            raise Unsupported("reference to %s" % n)
        if k == "MemberExpr":
            hp = self.hdr_path(e)
            if hp is not None:
                if hp not in HDR:
                    raise Unsupported("table member %s" % hp)
                return "s.t.%s" % HDR[hp]
            base = e["inner"][0]
            f = e["name"]
            if self.is_priv(self.strip(base)):
                return "%s.%s" % (self.expr(base, pre), f)
            if e.get("isArrow") and self.is_bucket_ptr(self.strip(base)):
                b = self.expr(base, pre)
                self.check_bucket(b, pre)
                if f == "n":
                    return "s.t.head %s" % self.atom(b)
                if f == "cst":
                    return "s.t.bcst %s" % self.atom(b)
                raise Unsupported("bucket member %s" % f)
            if e.get("isArrow") and self.is_node_ptr(self.strip(base)):
                b = self.expr(base, pre)
                if self.strip(base)["kind"] not in ("DeclRefExpr", "CallExpr"):
                    pre.append("chkN %s" % self.atom(b))        # through a pointer loaded from memory
                if f == "next":
                    return "s.nxt %s" % self.atom(b)
                if f == "key":
                    return "s.keyOf %s" % self.atom(b)
                raise Unsupported("node member %s" % f)
            raise Unsupported("member access %s" % f)
        if k == "UnaryOperator":
            op = e["opcode"]
            inner = self.strip(e["inner"][0])
            if op == "&":
                if inner["kind"] == "ArraySubscriptExpr":
                    arr = self.hdr_path(inner["inner"][0])
                    if arr == "bucket.at":
                        return self.expr(inner["inner"][1], pre)
                    raise Unsupported("address of an array element")
                if inner["kind"] == "MemberExpr" and inner.get("isArrow"):
                    base = inner["inner"][0]
                    if inner["name"] == "n" and self.is_bucket_ptr(self.strip(base)):
                        return "Loc.head %s" % self.atom(self.expr(base, pre))
                    if inner["name"] == "next" and self.is_node_ptr(self.strip(base)):
                        return "Loc.next %s" % self.atom(self.expr(base, pre))
                if inner["kind"] == "DeclRefExpr" and self.is_priv(inner):
                    return self.lvar(inner["referencedDecl"]["name"])
                raise Unsupported("address-of")
            if op == "*":
                if "struct cstl_hash_node **" in qt(inner):
                    return "s.rdLoc %s" % self.atom(self.expr(inner, pre))
                raise Unsupported("dereference")
            if op == "!":
                if inner["kind"] == "IntegerLiteral" and inner["value"] == "0":
                    return "TRUE"
                raise Unsupported("negation")
            raise Unsupported("unary %s" % op)
        if k == "BinaryOperator":
            op = e["opcode"]
            a, b = e["inner"]
            if op == "=":
                self.assign(a, b, pre)
                return self.expr(a, [])             # the value of an assignment: what was stored
            if op == ",":
                self.expr(a, pre)
                return self.expr(b, pre)
            if op in ("==", "!=", ">", "<", ">=", "<="):
                la = self.expr(a, pre)
                lb = self.expr(b, pre)
                lop = {"==": "=", "!=": "≠", ">=": "≥", "<=": "≤"}.get(op, op)
                return "%s %s %s" % (self.atom(la), lop, self.atom(lb))
            if op in ("+", "-"):
                return "%s %s %s" % (self.atom(self.expr(a, pre)), op, self.atom(self.expr(b, pre)))
            raise Unsupported("binary %s" % op)
        if k == "CallExpr":
            return self.call(e, pre)
        raise Unsupported("expression kind %s" % k)

    def call(self, e, pre):
        fn = self.callee(e)
        args = e["inner"][1:]
        if fn in IDENT:
            return self.expr(args[1], pre)
        if fn in self.hashfns:
            self.uses_hf = True
            self.tmp += 1
            r = "h%d" % self.tmp
            pre.append("let %s ← callHash hf %s %s %s" % (r, lname(fn), self.atom(self.expr(args[0], pre)),
                                                         self.atom(self.expr(args[1], pre))))
            return r
        if fn is not None and fn == self.visit:
            a0 = self.atom(self.expr(args[0], pre))
            self.tmp += 1
            r = "r%d" % self.tmp
            pre.append("let %s ← %s s %s %s" % (r, lname(fn), self.lvar(self.pvar), a0))
            pre.append("let s := %s.1" % r)
            pre.append("let %s := %s.2.1" % (self.lvar(self.pvar), r))
            self.checked.clear()
            return "%s.2.2" % r
        if fn in self.known:
            g = self.known[fn]
            if g.kind == "value":
                if g.uses_hf:
                    self.uses_hf = True
                self.tmp += 1
                r = "v%d" % self.tmp
                vals = [self.atom(self.expr(a, pre)) for p, a in zip(g.params, args) if p["name"] != g.hdr]
                pre.append("let %s ← %s %ss %s" % (r, g.lean_name(), "hf " if g.uses_hf else "", " ".join(vals)))
                return r
            if g.kind == "foreach":
                self.uses_fuel = True
                n = self.atom(self.expr(args[1], pre))
                cb = self.atom(self.expr(args[2], pre))
                pv = self.atom(self.expr(args[3], pre))
                self.tmp += 1
                r = "r%d" % self.tmp
                pre.append("let %s ← %s %s fuel s %s %s" % (r, g.lean_name(), cb, n, pv))
                pre.append("let s := %s.1" % r)
                pre.append("let %s := %s.2.1" % (pv, r))
                self.checked.clear()
                return "%s.2.2" % r
        raise Unsupported("call to %s in expression position" % fn)

    # ------------------------------------------------------------------ assignments
    def assign(self, lhs, rhs, pre):
        lhs = self.strip(lhs)
        v = self.expr(rhs, pre) if not isinstance(rhs, str) else rhs
        k = lhs["kind"]
        if k == "DeclRefExpr":
            n = lhs["referencedDecl"]["name"]
            if n not in self.vars:
                raise Unsupported("assignment to %s" % n)
            pre.append("let %s := %s" % (lname(n), v))
            return
        if k == "MemberExpr":
            hp = self.hdr_path(lhs)
            if hp is not None:
                if HDR.get(hp) not in HDR_SET:
                    raise Unsupported("assignment to table member %s" % hp)
                pre.append("let s := s.%s %s" % (HDR_SET[HDR[hp]], self.atom(v)))
                return
            base = lhs["inner"][0]
            f = lhs["name"]
            if self.is_priv(self.strip(base)):
                b = self.expr(base, pre)
                pre.append("let %s := { %s with %s := %s }" % (b, b, f, v))
                return
            if lhs.get("isArrow") and self.is_bucket_ptr(self.strip(base)):
                b = self.expr(base, pre)
                self.check_bucket(b, pre)
                setter = {"n": "setHead", "cst": "setBcst"}.get(f)
                if setter is None:
                    raise Unsupported("bucket member %s" % f)
                pre.append("let s := s.%s %s %s" % (setter, self.atom(b), self.atom(v)))
                return
            if lhs.get("isArrow") and self.is_node_ptr(self.strip(base)):
                b = self.expr(base, pre)
                setter = {"next": "setNxt", "key": "setKey"}.get(f)
                if setter is None:
                    raise Unsupported("node member %s" % f)
                pre.append("let s := s.%s %s %s" % (setter, self.atom(b), self.atom(v)))
                return
        if k == "UnaryOperator" and lhs["opcode"] == "*":
            inner = self.strip(lhs["inner"][0])
            if "struct cstl_hash_node **" in qt(inner):
                pre.append("let s := s.wrLoc %s %s" % (self.atom(self.expr(inner, pre)), self.atom(v)))
                return
        raise Unsupported("assignment target")

    # ------------------------------------------------------------------ conditions
    def cond(self, e):
        """conjuncts of a condition: list of (lines to run first, test or None when constant true)"""
        e = self.strip(e)
        if e["kind"] == "BinaryOperator" and e["opcode"] == "&&":
            return self.cond(e["inner"][0]) + self.cond(e["inner"][1])
        pre = []
        t = self.expr(e, pre)
        if t == "TRUE":
            t = None
        elif qt(e) == "int" and e["kind"] not in ("BinaryOperator",):
            t = "%s ≠ 0" % self.atom(t)
        return [(pre, t)]

    def guarded(self, conj, ind, then_lines, else_lines):
        """lines for: run the conjuncts in order; all true -> then_lines; first false -> else_lines"""
        pad = "  " * ind
        if not conj:
            return then_lines(ind)
        pre, t = conj[0]
        out = [pad + l for l in pre]
        if t is None:
            return out + self.guarded(conj[1:], ind, then_lines, else_lines)
        out.append(pad + "if %s then" % t)
        out += self.guarded(conj[1:], ind + 1, then_lines, else_lines)
        out.append(pad + "else")
        out += else_lines(ind + 1)
        return out

    # ------------------------------------------------------------------ statements
    def state_vars(self):
        vs = ["s"]
        if self.pvar is not None:
            vs.append(self.lvar(self.pvar))
        return vs + [lname(v) for v in self.locals]

    def state_types(self):
        ts = ["LS"]
        if self.pvar is not None:
            ts.append(self.ptype)
        return ts + [self.vars[v] for v in self.locals]

    def result(self, retv):
        if self.kind == "value":
            return "pure %s" % self.atom(retv)
        if self.kind == "state":
            return "pure s"
        return "pure (s, %s, %s)" % (self.lvar(self.pvar), retv)

    def stmts(self, lst, ind, k):
        """`k(ind)` produces the lines that end the enclosing construct"""
        pad = "  " * ind
        out = []
        for idx, st in enumerate(lst):
            rest = lst[idx + 1:]
            kind = st["kind"]
            if kind in ("NullStmt",):
                continue
            if kind == "CompoundStmt":
                return out + self.stmts(st.get("inner", []) + rest, ind, k)
            if kind == "DeclStmt":
                for v in st["inner"]:
                    if v["kind"] != "VarDecl":
                        raise Unsupported("declaration")
                    n = v["name"]
                    t = qt(v)
                    priv = [p for p in PRIV if ("struct " + p) in t]
                    if priv and "*" in t:
                        # `struct …_priv * const hep = p;` : another name for the callback's private data
                        init = self.strip(v["inner"][0])
                        if init["kind"] == "DeclRefExpr" and init["referencedDecl"]["name"] == self.pvar:
                            self.alias[n] = self.lvar(self.pvar)
                            self.ptype = PRIV[priv[0]][0]
                            continue
                        raise Unsupported("private-data pointer")
                    if priv:
                        self.vars[n] = PRIV[priv[0]][0]
                        self.locals.append(n)
                        out.append(pad + "let %s : %s := %s" % (lname(n), PRIV[priv[0]][0], PRIV[priv[0]][2]))
                        continue
                    self.vars[n] = ("Int" if t.replace("const", "").strip() == "int"
                                    else "Loc" if "struct cstl_hash_node **" in t else "Nat")
                    if "inner" not in v:
                        self.locals.append(n)
                        out.append(pad + "let %s : %s := %s" % (lname(n), self.vars[n],
                                                                 "Loc.head 0" if self.vars[n] == "Loc" else "0"))
                        continue
                    init = self.strip(v["inner"][0])
                    if init["kind"] == "CallExpr" and self.callee(init) in OPAQUE:
                        if self.locals != self.mut_params or self.dirty:
                            raise Unsupported("untranslated call after the leading statements")
                        argtxt = ", ".join(self.expr(a, []) for a in init["inner"][1:] if self.strip(a).get(
                            "referencedDecl", {}).get("name") != self.hdr)
                        self.extra.append((lname(n), "%s = the value of `%s(h, %s)`; `s` is the state after that call"
                                           % (n, self.callee(init), argtxt)))
                        del self.vars[n]
                        self.vars[n] = "Nat"
                        self.args.insert(0, (lname(n), "Nat"))
                        continue
                    self.locals.append(n)
                    pre = []
                    val = self.expr(v["inner"][0], pre)
                    out += [pad + l for l in pre]
                    out.append(pad + "let %s%s := %s" % (lname(n), " : Int" if self.vars[n] == "Int" else "", val))
                continue
            if kind == "BinaryOperator" and st["opcode"] in ("=", ","):
                pre = []
                self.dirty = True
                self.expr(st, pre)
                out += [pad + l for l in pre]
                continue
            if kind == "UnaryOperator" and st["opcode"] in ("++", "--"):
                pre = []
                self.dirty = True
                cur = self.expr(st["inner"][0], pre)
                self.assign(st["inner"][0], "(%s %s 1)" % (cur, "+" if st["opcode"] == "++" else "-"), pre)
                out += [pad + l for l in pre]
                continue
            if kind == "CallExpr":
                if self.callee(st) == "abort":
                    out.append(pad + "stop .abort")
                    return out                       # does not return
                pre = []
                self.dirty = True
                self.expr(st, pre)
                out += [pad + l for l in pre]
                continue
            if kind == "ReturnStmt":
                pre = []
                v = self.expr(st["inner"][0], pre) if st.get("inner") else None
                out += [pad + l for l in pre]
                out.append(pad + self.result(v))
                return out
            if kind == "BreakStmt":
                if self.loop_exit is None:
                    raise Unsupported("break outside a loop")
                out.append(pad + self.loop_exit())
                return out
            if kind == "IfStmt":
                conj = self.cond(st["inner"][0])
                then = st["inner"][1]
                els = st["inner"][2] if len(st["inner"]) > 2 else None
                saved = (list(self.locals), set(self.checked))

                def then_lines(i):
                    self.locals, self.checked = list(saved[0]), set(saved[1]) | set(self.checked)
                    return self.stmts([then] + rest, i, k)

                def else_lines(i):
                    self.locals, self.checked = list(saved[0]), set(saved[1])
                    return self.stmts(([els] if els else []) + rest, i, k)
                out += self.guarded(conj, ind, then_lines, else_lines)
                return out
            if kind == "WhileStmt":
                out += self.loop(st, rest, ind, k)
                return out
            raise Unsupported("statement kind %s" % kind)
        return out + k(ind)

    def loop(self, st, rest, ind, k):
        pad = "  " * ind
        self.nloops += 1
        self.uses_fuel = True
        fname = "%s_loop%d" % (self.lean_name(), self.nloops)
        vs = self.state_vars()
        ts = self.state_types()
        consts = [(a, t) for a, t in self.args if a not in vs and a != lname(self.visit or "")]
        tup = "(%s)" % ", ".join(vs)
        rty = " × ".join(ts)
        nloc = len(self.locals)
        hdr_params = ""
        if self.uses_hf_possible():
            hdr_params += "(hf : HashId → Nat → Nat → Nat) "
        if self.visit:
            hdr_params += "(%s : LS → π → Nat → LR (LS × π × Int)) " % lname(self.visit)
        hdr_params += "".join("(%s : %s) " % c for c in consts)
        call_args = ("hf " if self.uses_hf_possible() else "") + (lname(self.visit) + " " if self.visit else "") \
            + "".join(c[0] + " " for c in consts)
        outer_exit = self.loop_exit
        self.loop_exit = lambda: "pure %s" % tup
        saved_checked = set(self.checked)
        # fuel exhausted: `hang` if the loop would continue
        self.checked = set()
        conj0 = self.cond(st["inner"][0])
        zero = self.guarded(conj0, 2, lambda i: ["  " * i + "hang"], lambda i: ["  " * i + "pure %s" % tup])
        self.checked = set()
        self.locals = self.locals[:nloc]
        conj = self.cond(st["inner"][0])
        body = st["inner"][1]

        def body_lines(i):
            return self.stmts([body], i, lambda j: ["  " * j + "%s %sfuel %s" % (fname, call_args, " ".join(vs))])
        succ = self.guarded(conj, 2, body_lines, lambda i: ["  " * i + "pure %s" % tup])
        self.locals = self.locals[:nloc]
        self.loop_exit = outer_exit
        self.checked = set()
        pi = "{π : Type} " if self.visit else ""
        d = ["def %s %s%s: Nat → %s → LR (%s)" % (fname, pi, hdr_params, " → ".join(ts), rty),
             "  | 0, %s => do" % ", ".join(vs)] + zero + ["  | fuel + 1, %s => do" % ", ".join(vs)] + succ
        self.prelude.append("\n".join(d) + "\n")
        self.tmp += 1
        r = "l%d" % self.tmp
        out = [pad + "let %s ← %s %sfuel %s" % (r, fname, call_args, " ".join(vs))]
        for i, v in enumerate(vs):
            proj = ".2" * i + (".1" if i < len(vs) - 1 else "")
            out.append(pad + "let %s := %s%s" % (v, r, proj))
        return out + self.stmts(rest, ind, k)

    def uses_hf_possible(self):
        return bool(self.hashfns) or self.name == "cstl_clean_bucket"

    # ------------------------------------------------------------------ whole function
    def render(self):
        self.locals = list(self.mut_params)
        self.checked = set()
        self.dirty = False
        self.loop_exit = None
        if self.kind == "visit":
            self.alias[self.pvar] = "p"
        body = self.stmts(self.body.get("inner", []), 1,
                          lambda i: ["  " * i + self.result("0" if self.ret != "void" else None)])
        ps = ""
        if self.uses_hf or self.uses_hf_possible():
            ps += "(hf : HashId → Nat → Nat → Nat) "
            self.uses_hf = True
        if self.kind == "foreach":
            ps += "{π : Type} (%s : LS → π → Nat → LR (LS × π × Int)) " % lname(self.visit)
        if self.uses_fuel:
            ps += "(fuel : Nat) "
        ps += "(s : LS) "
        if self.kind == "visit":
            ps += "(p : %s) " % self.ptype
            order = self.args
        else:
            order = self.args
        ps += "".join("(%s : %s) " % a for a in order)
        if self.kind == "foreach":
            ps += "(%s : π) " % self.lvar(self.pvar)
        if self.kind == "value":
            rty = "LR Nat"
        elif self.kind == "state":
            rty = "LR LS"
        else:
            rty = "LR (LS × %s × Int)" % self.ptype
        doc = "".join("-- %s\n" % d for _, d in self.extra)
        return "".join(p + "\n" for p in self.prelude) + doc + "def %s %s: %s := do\n%s\n" % (
            self.lean_name(), ps, rty, "\n".join(body))


HEADER = "import Cstl.HashL.Model\n"
OPENS = ("open Cstl.SList (Mem upd)\nopen Cstl.Hash (HashId Stop Node)\n"
         "open Cstl.HashL\n")
MODULE = "HashLC"


def translate_hash(repo):
    decls = clang_ast(repo, "hash.c", set(n for n, _ in ORDER))
    known, chunks, report = {}, [], {}
    for name, kind in ORDER:
        if name not in decls:
            report[name] = "not found in source"
            continue
        try:
            f = HFn(decls[name], kind, known)
            txt = f.render()
            known[name] = f
            chunks.append(txt)
            report[name] = "translated" + "".join("; %s" % d for _, d in f.extra)
        except Unsupported as e:
            report[name] = "not translated: %s" % e
        except (KeyError, IndexError, TypeError) as e:
            report[name] = "not translated: unexpected AST shape (%s: %s)" % (type(e).__name__, e)
    out = ("-- GENERATED by tools/c2lean_hash.py from /repo's src/hash.c on every check run; do not edit.\n"
           + HEADER + "set_option linter.unusedVariables false\n" + "namespace Cstl.Gen.%s\n" % MODULE + OPENS + "\n"
           + "\n".join(chunks) + "\nend Cstl.Gen.%s\n" % MODULE)
    return out, report


# make the area known to tools/c2lean.py's `translate` (used by vlib.translator_tie) without editing that file
c2lean.AREAS["hashl"] = dict(src="hash.c", module=MODULE, custom=translate_hash,
                             order=[n for n, _ in ORDER], header=HEADER, opens=OPENS)


if __name__ == "__main__":
    repo = sys.argv[1] if len(sys.argv) > 1 else "/repo"
    txt, rep = translate_hash(repo)
    sys.stdout.write(txt)
    for k_, v_ in rep.items():
        sys.stderr.write("%s: %s\n" % (k_, v_))
