#!/usr/bin/env python3
"""
Translator for the two built-in bucket-selection functions of src/hash.c
(cstl_hash_div, cstl_hash_mul)  ->  Lean 4, in the vocabulary of lean/Cstl/HashFn/CSem.lean.

  python3 tools/c2lean_hashfn.py [repo]      prints the generated module Cstl.Gen.HashFnC

lean/Cstl/HashFn/Tie.lean (hand-written, fixed) ties the model's `hashDiv` / `hashMul` (property
C17) to these translations; the kernel re-checks the ties against the regenerated module on every
check run.

The translation is *typed*: every sub-expression is translated according to the C type clang
assigned to it, and anything outside the small typed vocabulary raises Unsupported (the function
is then reported as not translated and the tie fails):

  parameter / local of type size_t            a `Nat`
  local `[static] const float x = e;`         `let x := e`
  float literal (type float)                  `lit <24-bit significand> <scale>`, computed from the
                                              binary32 bit pattern of the literal
  ImplicitCast IntegralToFloating -> float    `ofSizeT e`     (operand must be size_t)
  ImplicitCast FloatingToIntegral -> size_t   `toSizeT e`     (operand must be float)
  a * b, a - b   of type float                `fmul a b`, `fsub a b`  (both operands float)
  floorf(a)                                   `ffloor a`
  a % b          of type size_t               `a % b`
  return e;                                   the function's value
"""
import json
import os
import struct
import subprocess
import sys

sys.path.insert(0, os.path.dirname(os.path.abspath(__file__)))
import c2lean  # noqa: E402
from c2lean import Unsupported  # noqa: E402

MODULE = "HashFnC"
ORDER = ["cstl_hash_div", "cstl_hash_mul"]
SIZE_T = {"size_t", "const size_t", "unsigned long", "const unsigned long"}
FLOAT = {"float", "const float"}


def qt(n):
    return n.get("type", {}).get("qualType", "")


def dqt(n):
    t = n.get("type", {})
    return t.get("desugaredQualType") or t.get("qualType", "")


def is_size_t(n):
    return qt(n) in SIZE_T or dqt(n) in SIZE_T


def is_float(n):
    return qt(n) in FLOAT


def parse_tu(repo):
    cmd = ["clang-14", "-std=c99", "-DNDEBUG", "-D_POSIX_C_SOURCE=199309L",
           "-I", os.path.join(repo, "include"), "-fsyntax-only",
           "-Xclang", "-ast-dump=json", os.path.join(repo, "src", "hash.c")]
    r = subprocess.run(cmd, stdout=subprocess.PIPE, stderr=subprocess.PIPE, universal_newlines=True)
    if r.returncode != 0:
        raise Unsupported("clang failed on hash.c: %s" % r.stderr[-500:])
    tu = json.loads(r.stdout)
    return {d["name"]: d for d in tu.get("inner", [])
            if d.get("kind") == "FunctionDecl" and d.get("name") in ORDER
            and any(c.get("kind") == "CompoundStmt" for c in d.get("inner", []))}


def float_literal(n):
    if not is_float(n):
        raise Unsupported("floating literal of type '%s' (only float is in the vocabulary)" % qt(n))
    v = float(n["value"])
    bits = struct.unpack("<I", struct.pack("<f", v))[0]
    # clang prints enough digits to round-trip a binary32 value
    if struct.unpack("<f", struct.pack("<I", bits))[0] != struct.unpack("<f", struct.pack("<f", v))[0]:
        raise Unsupported("float literal does not round-trip")
    if bits >> 31:
        raise Unsupported("negative float literal")
    e = (bits >> 23) & 0xFF
    frac = bits & 0x7FFFFF
    if e == 0 or e == 255:
        raise Unsupported("float literal is zero/subnormal/inf/nan")
    sig = frac | (1 << 23)
    scale = 150 - e                       # value = sig * 2^(e-150)
    if scale < 0:
        sig <<= -scale
        scale = 0
    return "(lit %d %d)" % (sig, scale), "0x%08X" % bits


class Fn:
    def __init__(self, decl):
        self.decl = decl
        self.name = decl["name"]
        self.env = {}           # C name -> ("nat"|"f32")
        self.notes = []

    def expr(self, n, want):
        """translate n, which must have kind `want` in {"nat", "f32"}"""
        k = n.get("kind")
        if k == "ParenExpr":
            return self.expr(n["inner"][0], want)
        if k == "ImplicitCastExpr" or k == "CStyleCastExpr":
            ck = n.get("castKind")
            inner = n["inner"][0]
            if ck in ("LValueToRValue", "NoOp"):
                return self.expr(inner, want)
            if ck == "IntegralToFloating":
                if not is_float(n) or want != "f32":
                    raise Unsupported("integer converted to '%s' (only float is in the vocabulary)" % qt(n))
                if not is_size_t(inner):
                    raise Unsupported("conversion to float of a '%s' operand (expected size_t)" % qt(inner))
                return "(ofSizeT %s)" % self.expr(inner, "nat")
            if ck == "FloatingToIntegral":
                if not is_size_t(n) or want != "nat":
                    raise Unsupported("float converted to '%s' (expected size_t)" % qt(n))
                if not is_float(inner):
                    raise Unsupported("conversion to size_t of a '%s' operand (expected float)" % qt(inner))
                return "(toSizeT %s)" % self.expr(inner, "f32")
            raise Unsupported("cast %s to '%s'" % (ck, qt(n)))
        if k == "DeclRefExpr":
            nm = n["referencedDecl"]["name"]
            if nm not in self.env:
                raise Unsupported("reference to '%s'" % nm)
            if self.env[nm] != want:
                raise Unsupported("'%s' used as %s" % (nm, want))
            return c2lean.lname(nm)
        if k == "FloatingLiteral":
            if want != "f32":
                raise Unsupported("float literal where an integer is expected")
            txt, bits = float_literal(n)
            self.notes.append("literal %s = bits %s" % (n["value"], bits))
            return txt
        if k == "BinaryOperator":
            op = n.get("opcode")
            a, b = n["inner"]
            if op in ("*", "-") and is_float(n):
                if want != "f32":
                    raise Unsupported("float arithmetic where an integer is expected")
                for x in (a, b):
                    if not is_float(x):
                        raise Unsupported("operand of type '%s' in float '%s'" % (qt(x), op))
                return "(%s %s %s)" % ("fmul" if op == "*" else "fsub", self.expr(a, "f32"), self.expr(b, "f32"))
            if op == "%" and is_size_t(n):
                if want != "nat":
                    raise Unsupported("integer arithmetic where a float is expected")
                for x in (a, b):
                    if not is_size_t(x):
                        raise Unsupported("operand of type '%s' in size_t '%%'" % qt(x))
                return "(%s %% %s)" % (self.expr(a, "nat"), self.expr(b, "nat"))
            raise Unsupported("binary operator '%s' of type '%s'" % (op, qt(n)))
        if k == "CallExpr":
            callee = n["inner"][0]
            while callee.get("kind") in ("ImplicitCastExpr", "ParenExpr"):
                callee = callee["inner"][0]
            fn = callee.get("referencedDecl", {}).get("name")
            if fn == "floorf" and len(n["inner"]) == 2 and is_float(n) and want == "f32":
                if not is_float(n["inner"][1]):
                    raise Unsupported("floorf applied to a '%s'" % qt(n["inner"][1]))
                return "(ffloor %s)" % self.expr(n["inner"][1], "f32")
            raise Unsupported("call of %s" % fn)
        raise Unsupported("expression %s of type '%s'" % (k, qt(n)))

    def render(self):
        d = self.decl
        if not is_size_t({"type": {"qualType": d["type"]["qualType"].split("(")[0].strip()}}):
            raise Unsupported("return type '%s'" % d["type"]["qualType"])
        params = [c for c in d["inner"] if c["kind"] == "ParmVarDecl"]
        for p in params:
            if not is_size_t(p):
                raise Unsupported("parameter '%s' of type '%s'" % (p.get("name"), qt(p)))
            self.env[p["name"]] = "nat"
        body = [c for c in d["inner"] if c["kind"] == "CompoundStmt"][0]
        lines = []
        ret = None
        for st in body.get("inner", []):
            if ret is not None:
                raise Unsupported("statement after return")
            if st["kind"] == "DeclStmt":
                for v in st["inner"]:
                    if v["kind"] != "VarDecl" or "inner" not in v:
                        raise Unsupported("declaration without initialiser")
                    if is_float(v):
                        kind = "f32"
                    elif is_size_t(v):
                        kind = "nat"
                    else:
                        raise Unsupported("local '%s' of type '%s'" % (v["name"], qt(v)))
                    lines.append("  let %s := %s" % (c2lean.lname(v["name"]), self.expr(v["inner"][0], kind)))
                    self.env[v["name"]] = kind
            elif st["kind"] == "ReturnStmt":
                ret = self.expr(st["inner"][0], "nat")
            else:
                raise Unsupported("statement %s" % st["kind"])
        if ret is None:
            raise Unsupported("no return statement")
        head = "def %s (%s : Nat) : Nat :=" % (self.name, " ".join(c2lean.lname(p["name"]) for p in params))
        return "\n".join([head] + lines + ["  " + ret]) + "\n"


def translate(repo):
    decls = parse_tu(repo)
    chunks, report = [], {}
    for name in ORDER:
        if name not in decls:
            report[name] = "not found in source"
            continue
        try:
            f = Fn(decls[name])
            chunks.append(f.render())
            report[name] = "translated" + ("".join("; " + x for x in f.notes))
        except Unsupported as e:
            report[name] = "not translated: %s" % e
    out = ("-- GENERATED by tools/c2lean_hashfn.py from /repo's src/hash.c on every check run; do not edit.\n"
           "import Cstl.HashFn.CSem\nset_option linter.unusedVariables false\n"
           "namespace Cstl.Gen.%s\nopen Cstl.HashFn Cstl.HashFn.CSem\n\n" % MODULE
           + "\n".join(chunks) + "\nend Cstl.Gen.%s\n" % MODULE)
    return out, report


c2lean.AREAS["hashfnc"] = dict(src="hash.c", module=MODULE, custom=translate)

if __name__ == "__main__":
    repo = sys.argv[1] if len(sys.argv) > 1 else os.environ.get("VERIF_REPO", "/repo")
    txt, rep = translate(repo)
    sys.stdout.write(txt)
    for k, v in rep.items():
        sys.stderr.write("%s: %s\n" % (k, v))
