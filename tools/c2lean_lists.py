#!/usr/bin/env python3
"""
Second list translator: the list functions `tools/c2lean.py` does not cover.

  slist:  cstl_slist_sort, cstl_slist_foreach
  dlist:  cstl_dlist_sort, cstl_dlist_foreach, cstl_dlist_find_visit,
          cstl_dlist_find (and cstl_dlist_swap once more, for the tie under
          the branch condition)

Reads the typed clang AST of /repo's *current* source and emits Lean in the
vocabulary of the link-level models (`upd` on link memories, `Hd`).  The
callees (`__cstl_*_insert*`, `__cstl_*_erase*`, `cstl_*_concat`, …) are
translated by the unchanged `c2lean.Fn` into the same generated module, so a
generated module is self-contained.  `lean/Cstl/{SList,DList}/Tie2.lean`
(hand-written, fixed) state `translation = link-level model`; they are
re-checked against a fresh translation on every run (`areas/lists_tie.py`).

What this translator adds to `c2lean.Fn`:

* a local array of list structures `struct cstl_xlist _l[2]` becomes two
  header variables whose head-node addresses are `(tmp depth).1/.2` — the
  stack addresses are parameters of the translation;
* a function that calls itself becomes a Lean function by structural
  recursion on `fuel` (`| 0 => none | fuel + 1 => body`); the recursive calls
  and the loops of the body run with `fuel`; `depth + 1` is passed down;
* a local pointer to a list structure that is assigned in both branches of an
  `if` (`l = &_sl[0]` / `l = &_sl[1]`) is an alias: the rest of the block is
  translated once per branch;
* comparison callbacks (`cstl_compare_func_t`) are pure parameters
  `Nat → Nat → Int` (the private pointer is dropped); visit callbacks
  (`cstl_visit_func_t`) may do anything to the lists and keep private state:
  `visit : σ → mems → headers → Nat → Int × σ × mems × headers`, with the
  state `vs : σ` threaded through the function;
* `int` locals (`res`) are `Int`; a local function pointer chosen by a
  `switch` among the field selectors `__cstl_dlist_next/prev` (whose bodies
  are read from the AST) is a Lean function over the link memories;
* a private structure handed to a visit function through its `void *`
  (`struct cstl_dlist_find_priv`) is flattened into its data fields.

Everything else raises `Unsupported`; the function is then reported as not
translated and its tie theorems as not checking.
"""
import json
import os
import subprocess
import sys

sys.path.insert(0, os.path.dirname(os.path.abspath(__file__)))
from c2lean import Fn, AREAS, Unsupported, lname   # noqa: E402


def clang_tu(repo, src):
    cmd = ["clang-14", "-std=c99", "-DNDEBUG", "-D_POSIX_C_SOURCE=199309L",
           "-I", os.path.join(repo, "include"), "-fsyntax-only",
           "-Xclang", "-ast-dump=json", os.path.join(repo, "src", src)]
    r = subprocess.run(cmd, stdout=subprocess.PIPE, stderr=subprocess.PIPE, universal_newlines=True)
    if r.returncode != 0:
        raise Unsupported("clang failed on %s: %s" % (src, r.stderr[-500:]))
    return json.loads(r.stdout)


def strip(e):
    while e["kind"] in ("ImplicitCastExpr", "ParenExpr", "CStyleCastExpr", "ConstantExpr"):
        if e["kind"] in ("ImplicitCastExpr", "CStyleCastExpr") and e.get("castKind") == "NullToPointer":
            return {"kind": "NULL"}
        e = e["inner"][0]
    return e


class Ctx:
    """translation-unit level facts"""

    def __init__(self, tu, cfg):
        self.cfg = cfg
        self.functions = {}
        self.records = {}       # struct name -> [(field, qualType)]
        self.enums = {}         # enumerator -> value
        self.selectors = {}     # function returning &n->FIELD  ->  memory variable
        for d in tu.get("inner", []):
            k = d.get("kind")
            if k == "FunctionDecl" and any(c.get("kind") == "CompoundStmt" for c in d.get("inner", [])):
                self.functions[d["name"]] = d
            elif k == "RecordDecl" and d.get("name") and d.get("completeDefinition"):
                self.records[d["name"]] = [(f["name"], f["type"]["qualType"]) for f in d.get("inner", [])
                                           if f.get("kind") == "FieldDecl"]
            elif k == "EnumDecl":
                v = -1
                for c in d.get("inner", []):
                    if c.get("kind") != "EnumConstantDecl":
                        continue
                    ini = [x for x in c.get("inner", []) if "Comment" not in x.get("kind", "")]
                    if ini:
                        lit = strip(ini[0])
                        if lit.get("kind") != "IntegerLiteral":
                            v = None            # an enumerator this translator cannot evaluate
                        else:
                            v = int(lit["value"])
                    elif v is not None:
                        v += 1
                    if v is not None:
                        self.enums[c["name"]] = v
        for name, d in self.functions.items():
            body = [c for c in d["inner"] if c["kind"] == "CompoundStmt"][0].get("inner", [])
            params = [p for p in d["inner"] if p["kind"] == "ParmVarDecl"]
            if len(body) == 1 and body[0]["kind"] == "ReturnStmt" and len(params) == 1 and body[0].get("inner"):
                e = strip(body[0]["inner"][0])
                if e["kind"] == "UnaryOperator" and e["opcode"] == "&":
                    me = strip(e["inner"][0])
                    if me["kind"] == "MemberExpr" and me.get("isArrow") and me["name"] in cfg.node_fields:
                        b = strip(me["inner"][0])
                        if b["kind"] == "DeclRefExpr" and b["referencedDecl"]["name"] == params[0]["name"]:
                            self.selectors[name] = cfg.node_fields[me["name"]]


def is_fnptr_type(t):
    return "_func_t" in t or "(*)" in t


class LFn:
    """one C function -> one Lean definition (plus its loops)"""

    def __init__(self, cfg, ctx, decl, known):
        self.cfg, self.ctx, self.decl, self.known = cfg, ctx, decl, known
        self.name = decl["name"]
        self.params = [p for p in decl["inner"] if p["kind"] == "ParmVarDecl"]
        self.body = [c for c in decl["inner"] if c["kind"] == "CompoundStmt"][0]
        self.mems = sorted(set(cfg.node_fields.values()))
        rt = decl["type"]["qualType"].split("(")[0].strip()
        self.ret = None if rt == "void" else ("Int" if rt == "int" else "Nat")
        self.hdrs = []          # header variables in scope (parameters first, then local arrays)
        self.hdr_params = []
        self.cmps = []          # pure comparison callbacks
        self.visit = None       # stateful visit callback
        self.vals = []          # Nat parameters
        self.priv = set()       # `void *priv` parameters (dropped)
        self.state_ptr = None   # `void *p` parameter through which a private record is reached
        self.state_rec = None
        self.state_fields = []  # data fields of that record: parameters and results
        self.rec_locals = {}    # local record variable -> record name
        self.fnalias = {}       # (record variable, field) -> callback name
        self.alias = {}         # local header pointer -> header variable
        self.alias_vars = set()
        self.locals = []        # [(lean name, type)] in declaration order
        self.funlocals = {}     # function-pointer local -> True
        self.prelude = []
        self.nloops = 0
        self.tmpn = 0
        self.in_loop = 0
        self.classify_params()
        self.recursive = self.calls(self.body, self.name)
        self.has_loop = self.contains_loop(self.body)
        self.partial = self.recursive or self.has_loop or self.calls_partial(self.body)
        self.uses_tmp = self.declares_hdr_array(self.body)

    # ---- analysis helpers
    def contains_loop(self, n):
        if not isinstance(n, dict):
            return False
        if n.get("kind") in ("WhileStmt", "ForStmt"):
            return True
        if n.get("kind") == "DoStmt":       # `do { … } while (0)` (macro idiom) is not a loop
            return any(self.contains_loop(c) for c in n.get("inner", [])[:1])
        return any(self.contains_loop(c) for c in n.get("inner", []))

    def walk(self, n):
        if isinstance(n, dict):
            yield n
            for c in n.get("inner", []):
                for x in self.walk(c):
                    yield x

    def calls(self, n, fname):
        for x in self.walk(n):
            if x.get("kind") == "CallExpr":
                c = strip(x["inner"][0])
                if c.get("kind") == "DeclRefExpr" and c["referencedDecl"]["name"] == fname:
                    return True
        return False

    def calls_partial(self, n):
        for x in self.walk(n):
            if x.get("kind") == "CallExpr":
                c = strip(x["inner"][0])
                if c.get("kind") == "DeclRefExpr":
                    g = self.known.get(c["referencedDecl"]["name"])
                    if g is not None and getattr(g, "partial", getattr(g, "has_loop", False)):
                        return True
        return False

    def declares_hdr_array(self, n):
        for x in self.walk(n):
            if x.get("kind") == "VarDecl" and x["type"]["qualType"].startswith("struct %s[" % self.cfg.hdr_struct):
                return True
        return False

    def classify_params(self):
        names = [p["name"] for p in self.params]
        voidp = []
        for p in self.params:
            t = p["type"]["qualType"]
            if "struct %s *" % self.cfg.hdr_struct in t:
                self.hdr_params.append(p["name"])
            elif "cstl_compare_func_t" in t:
                self.cmps.append(p["name"])
            elif "cstl_visit_func_t" in t:
                if self.visit:
                    raise Unsupported("two visit callbacks")
                self.visit = p["name"]
            elif is_fnptr_type(t):
                raise Unsupported("callback type %s" % t)
            else:
                if t.replace("const", "").replace(" ", "") == "void*":
                    voidp.append(p["name"])
                self.vals.append(p["name"])
        self.hdrs = list(self.hdr_params)
        # private pointers: last argument of a callback call, the private position of a
        # translated callee, or the initialiser of a pointer to a private record
        for x in self.walk(self.body):
            k = x.get("kind")
            if k == "CallExpr":
                c = strip(x["inner"][0])
                args = x["inner"][1:]
                cname = c.get("referencedDecl", {}).get("name") if c.get("kind") == "DeclRefExpr" else None
                is_cb = (cname in self.cmps or cname == self.visit
                         or (c.get("kind") == "MemberExpr" and is_fnptr_type(c["type"]["qualType"])))
                if is_cb and args:
                    a = strip(args[-1])
                    if a.get("kind") == "DeclRefExpr" and a["referencedDecl"]["name"] in voidp:
                        self.priv.add(a["referencedDecl"]["name"])
                g = self.known.get(cname) if cname else None
                if cname == self.name:
                    g = self
                if g is not None and isinstance(g, LFn):
                    for gp, a in zip(g.params, args):
                        a = strip(a)
                        if a.get("kind") == "DeclRefExpr" and a["referencedDecl"]["name"] in voidp:
                            if g is self:
                                if gp["name"] == a["referencedDecl"]["name"]:
                                    pass    # passed along unchanged: decided by the other uses
                            elif gp["name"] in g.priv or gp["name"] == g.state_ptr:
                                self.priv.add(a["referencedDecl"]["name"])
            elif k == "VarDecl" and x.get("inner"):
                t = x["type"]["qualType"]
                rec = self.record_of_type(t)
                if rec and t.rstrip().endswith("*"):
                    a = strip(x["inner"][0])
                    if a.get("kind") == "DeclRefExpr" and a["referencedDecl"]["name"] in voidp:
                        self.state_ptr = a["referencedDecl"]["name"]
                        self.state_rec = rec
            elif k == "BinaryOperator" and x.get("opcode") == "=":
                lhs, rhs = strip(x["inner"][0]), strip(x["inner"][1])
                if lhs.get("kind") == "MemberExpr" and rhs.get("kind") == "DeclRefExpr" \
                        and rhs["referencedDecl"]["name"] in voidp:
                    b = strip(lhs["inner"][0])
                    rec = self.record_of_type(b.get("type", {}).get("qualType", ""))
                    if rec and self.field_kind(rec, lhs["name"]) == "priv":
                        self.priv.add(rhs["referencedDecl"]["name"])
        # a `void *` beside a callback that is only ever passed along as an argument (to the
        # callback, to the recursive call): the private pointer of that callback
        for v in voidp:
            if v in self.priv or v == self.state_ptr or v == names[0]:
                continue
            if (self.cmps or self.visit) and not self.used_as_value(v):
                self.priv.add(v)
        self.vals = [v for v in self.vals if v not in self.priv and v != self.state_ptr]
        if self.state_rec:
            for f, t in self.ctx.records[self.state_rec]:
                kind = self.field_kind(self.state_rec, f)
                if kind == "data":
                    self.state_fields.append(f)
                elif kind == "fn":
                    if "cstl_compare_func_t" not in t:
                        raise Unsupported("callback field type %s" % t)
                    self.cmps.append(f)

    def used_as_value(self, v):
        """is parameter v used other than as an argument of a call?"""
        def rec(n, in_call_arg):
            if not isinstance(n, dict):
                return False
            if n.get("kind") == "DeclRefExpr" and n["referencedDecl"]["name"] == v:
                return not in_call_arg
            if n.get("kind") == "CallExpr":
                return any(rec(c, True) for c in n.get("inner", [])[1:]) or rec(n["inner"][0], False)
            passthru = n.get("kind") in ("ImplicitCastExpr", "ParenExpr", "CStyleCastExpr")
            return any(rec(c, in_call_arg and passthru) for c in n.get("inner", []))
        return rec(self.body, False)

    def record_of_type(self, t):
        for r in self.ctx.records:
            if ("struct %s" % r) in t and r not in (self.cfg.hdr_struct, self.cfg.hdr_struct + "_node"):
                if t.replace("const", "").replace("*", "").strip() == "struct %s" % r:
                    return r
        return None

    def field_kind(self, rec, f):
        t = dict(self.ctx.records[rec])[f]
        if is_fnptr_type(t):
            return "fn"
        if t.replace(" ", "") == "void*":
            return "priv"          # the private pointer that goes with the callback
        return "data"

    # ---- names, scope
    def lean_name(self):
        return "c_" + ("priv_" + self.name[2:] if self.name.startswith("__") else self.name)

    def state_var(self, f):
        return "s_" + f

    def scope(self):
        """[(name, type)]: everything a loop or an `if` may change"""
        out = []
        if self.visit:
            out.append(("vs", "σ"))
        out += [(m, "Mem") for m in self.mems]
        out += [(lname(h), "Hd") for h in self.hdrs]
        if self.state_rec and not self.state_ptr_is_local():
            out += [(self.state_var(f), "Nat") for f in self.state_fields]
        out += list(self.locals)
        return out

    def state_ptr_is_local(self):
        return False

    def tup(self, names):
        return "(" + ", ".join(names) + ")" if len(names) > 1 else names[0]

    def fun_type(self):
        return " → ".join(["Mem"] * len(self.mems) + ["Nat", "Nat"])

    def visit_type(self):
        core = ["Mem"] * len(self.mems) + ["Hd"] * len(self.hdr_params)
        return "σ → " + " → ".join(core + ["Nat"]) + " → Int × σ × " + " × ".join(core)

    def consts(self):
        """(binders text, argument text) of the loop-invariant parameters"""
        b, a = [], []
        if self.visit:
            b.append("{σ : Type}")
            b.append("(%s : %s)" % (lname(self.visit), self.visit_type()))
            a.append(lname(self.visit))
        for c in self.cmps:
            b.append("(%s : Nat → Nat → Int)" % lname(c))
            a.append(lname(c))
        if self.uses_tmp:
            b.append("(tmp : Nat → Nat × Nat)")
            a.append("tmp")
        if self.vals:
            b.append("(%s : Nat)" % " ".join(lname(v) for v in self.vals))
            a += [lname(v) for v in self.vals]
        return " ".join(b), " ".join(a)

    def wrap(self, txt):
        return "some %s" % txt if self.partial else txt

    def result(self, retv):
        names = []
        if self.visit:
            names.append("vs")
        names += self.mems + [lname(h) for h in self.hdr_params]
        if self.state_rec and self.state_ptr:
            names = [self.state_var(f) for f in self.state_fields]      # a visit function: only its state
        if self.ret is not None:
            names.append(retv)
        return self.wrap(self.tup(names))

    def result_type(self):
        tys = []
        if self.visit:
            tys.append("σ")
        tys += ["Mem"] * len(self.mems) + ["Hd"] * len(self.hdr_params)
        if self.state_rec and self.state_ptr:
            tys = ["Nat"] * len(self.state_fields)
        if self.ret is not None:
            tys.append(self.ret)
        t = " × ".join(tys)
        return "Option (%s)" % t if self.partial else t

    # ---- header designators
    def hdr_of_ptr(self, e):
        """Lean header variable denoted by a pointer-to-list expression, or None"""
        e = strip(e)
        k = e.get("kind")
        if k == "DeclRefExpr":
            n = e["referencedDecl"]["name"]
            if n in self.alias_vars:
                if n not in self.alias:
                    raise Unsupported("list pointer %s used before it is set" % n)
                return self.alias[n]
            if n in self.hdr_params:
                return lname(n)
            return None
        if k == "UnaryOperator" and e["opcode"] == "&":
            return self.hdr_of_struct(e["inner"][0])
        return None

    def hdr_of_struct(self, e):
        """Lean header variable denoted by a list-structure lvalue (`_l[0]`), or None"""
        e = strip(e)
        if e.get("kind") == "ArraySubscriptExpr":
            a, i = strip(e["inner"][0]), strip(e["inner"][1])
            if a.get("kind") == "DeclRefExpr" and i.get("kind") == "IntegerLiteral":
                key = (a["referencedDecl"]["name"], int(i["value"]))
                if key in self.arr:
                    return self.arr[key]
        return None

    arr = {}

    def head_node_of(self, e):
        """`l->h` / `_l[0].h` as an lvalue of node type: the header variable, or None"""
        e = strip(e)
        if e.get("kind") == "MemberExpr" and e["name"] == self.cfg.head_member:
            h = self.hdr_of_ptr(e["inner"][0]) if e.get("isArrow") else self.hdr_of_struct(e["inner"][0])
            return h
        return None

    # ---- expressions
    @staticmethod
    def atom(s):
        return Fn.atom(s)

    def is_int(self, e):
        return strip(e).get("type", {}).get("qualType", "") == "int"

    def expr(self, e):
        e = strip(e)
        k = e["kind"]
        if k == "NULL":
            return "0"
        if k == "IntegerLiteral":
            return e["value"]
        h = self.hdr_of_ptr(e) if k in ("DeclRefExpr", "UnaryOperator") else None
        if h is not None:
            return "%s.h" % h           # the list's address is the address of its head node
        if k == "DeclRefExpr":
            n = e["referencedDecl"]["name"]
            if e["referencedDecl"].get("kind") == "EnumConstantDecl":
                return str(self.ctx.enums[n])
            if n in self.priv or n == self.state_ptr:
                raise Unsupported("private pointer %s used as a value" % n)
            if n in self.ctx.selectors and e["referencedDecl"].get("kind") == "FunctionDecl":
                ms = " ".join(self.mems)
                return "(fun %s a => %s a)" % (ms, self.ctx.selectors[n])
            return lname(n)
        if k == "UnaryOperator" and e["opcode"] == "&":
            hn = self.head_node_of(e["inner"][0])
            if hn is not None:
                return "%s.h" % hn
            raise Unsupported("address-of")
        if k == "UnaryOperator" and e["opcode"] == "*":
            c = strip(e["inner"][0])
            if c["kind"] == "CallExpr":
                f = strip(c["inner"][0])
                if f["kind"] == "DeclRefExpr" and f["referencedDecl"]["name"] in self.funlocals:
                    return "(%s %s %s)" % (lname(f["referencedDecl"]["name"]), " ".join(self.mems),
                                           self.atom(self.expr(c["inner"][1])))
            raise Unsupported("dereference")
        if k == "MemberExpr":
            f = e["name"]
            base = e["inner"][0]
            # header fields: l->size, _l[0].size
            h = self.hdr_of_ptr(base) if e.get("isArrow") else self.hdr_of_struct(base)
            if h is not None:
                if f in self.cfg.hdr_fields:
                    return "%s.%s" % (h, self.cfg.hdr_fields[f])
                if f == "off":
                    return "0"          # all lists of one model hold one element type: equal offsets
                raise Unsupported("header field %s" % f)
            # l->h.n, _l[0].h.n
            if not e.get("isArrow"):
                hn = self.head_node_of(base)
                if hn is not None and f in self.cfg.node_fields:
                    return "(%s %s.h)" % (self.cfg.node_fields[f], hn)
            # private record fields
            rv = self.rec_var(base, e.get("isArrow"))
            if rv is not None:
                kind = self.field_kind(self.rec_name(rv), f)
                if kind == "data":
                    return self.rec_field_var(rv, f)
                raise Unsupported("private record field %s used as a value" % f)
            if e.get("isArrow") and f in self.cfg.node_fields:
                return "(%s %s)" % (self.cfg.node_fields[f], self.atom(self.expr(base)))
            raise Unsupported("member access %s" % f)
        if k == "CallExpr":
            callee = strip(e["inner"][0])
            args = e["inner"][1:]
            cb = self.callback_name(callee)
            if cb is not None and cb in self.cmps:
                return "(%s %s)" % (lname(cb), " ".join(self.atom(self.expr(a)) for a in args[:-1]))
            fn = callee.get("referencedDecl", {}).get("name")
            if fn in self.cfg.ident_fns:
                return self.expr(args[1])
            if fn == self.cfg.size_fn[0]:
                h = self.hdr_of_ptr(args[0])
                if h is None:
                    raise Unsupported("size of an unknown list")
                return "%s.%s" % (h, self.cfg.size_fn[1])
            raise Unsupported("call in expression position: %s" % fn)
        if k == "BinaryOperator":
            op = e["opcode"]
            a, b = e["inner"]
            if op in ("==", "!=", ">", "<", ">=", "<="):
                lop = {"==": "=", "!=": "≠", "<=": "≤", ">=": "≥"}.get(op, op)
                return "(%s %s %s)" % (self.expr(a), lop, self.expr(b))
            if op == "&&":
                return "(%s ∧ %s)" % (self.expr(a), self.expr(b))
            if op in ("+", "-", "/"):
                return "(%s %s %s)" % (self.expr(a), op, self.expr(b))
        raise Unsupported("expression kind %s" % k)

    def callback_name(self, callee):
        callee = strip(callee)
        if callee.get("kind") == "DeclRefExpr":
            n = callee["referencedDecl"]["name"]
            if n in self.cmps or n == self.visit:
                return n
        if callee.get("kind") == "MemberExpr" and is_fnptr_type(callee["type"]["qualType"]):
            rv = self.rec_var(callee["inner"][0], callee.get("isArrow"))
            if rv is not None:
                if rv == self.state_local:
                    return callee["name"]           # callback field of the state record: a parameter
                return self.fnalias.get((rv, callee["name"]))
        return None

    state_local = None

    def rec_var(self, base, arrow):
        b = strip(base)
        if b.get("kind") == "DeclRefExpr":
            n = b["referencedDecl"]["name"]
            if arrow and n == self.state_local:
                return n
            if not arrow and n in self.rec_locals:
                return n
        return None

    def rec_name(self, rv):
        return self.state_rec if rv == self.state_local else self.rec_locals[rv]

    def rec_field_var(self, rv, f):
        return self.state_var(f) if rv == self.state_local else "%s_%s" % (rv, f)

    # ---- assignments
    def assign(self, lhs, rhs_txt):
        lhs = strip(lhs)
        k = lhs["kind"]
        if k == "DeclRefExpr":
            n = lhs["referencedDecl"]["name"]
            for l, ty in self.locals:
                if l == lname(n):
                    if "→" in ty:
                        return "let %s : %s := %s" % (lname(n), ty, rhs_txt)
                    return "let %s := %s" % (lname(n), rhs_txt)
            raise Unsupported("assignment to %s" % n)
        if k != "MemberExpr":
            raise Unsupported("assignment target")
        f = lhs["name"]
        base = lhs["inner"][0]
        h = self.hdr_of_ptr(base) if lhs.get("isArrow") else self.hdr_of_struct(base)
        if h is not None:
            if f not in self.cfg.hdr_fields:
                raise Unsupported("header field %s" % f)
            return "let %s := { %s with %s := %s }" % (h, h, self.cfg.hdr_fields[f], rhs_txt)
        if not lhs.get("isArrow"):
            hn = self.head_node_of(base)
            if hn is not None and f in self.cfg.node_fields:
                mem = self.cfg.node_fields[f]
                return "let %s := upd %s %s.h %s" % (mem, mem, hn, self.atom(rhs_txt))
        rv = self.rec_var(base, lhs.get("isArrow"))
        if rv is not None:
            if self.field_kind(self.rec_name(rv), f) == "data":
                return "let %s := %s" % (self.rec_field_var(rv, f), rhs_txt)
            raise Unsupported("assignment to private record field %s" % f)
        if lhs.get("isArrow") and f in self.cfg.node_fields:
            mem = self.cfg.node_fields[f]
            return "let %s := upd %s %s %s" % (mem, mem, self.atom(self.expr(base)), self.atom(rhs_txt))
        raise Unsupported("assignment target")

    # ---- calls
    def call(self, e, ind, cont, want=None):
        """call of a translated function as a statement; `want`: name to bind the result to.
        Returns lines (including the continuation)."""
        pad = "  " * ind
        callee = strip(e["inner"][0])
        fn = callee.get("referencedDecl", {}).get("name")
        args = e["inner"][1:]
        if fn == self.cfg.init_fn:
            h = self.hdr_of_ptr(args[0])
            if h is None:
                raise Unsupported("init of an unknown list")
            if len(self.mems) == 1:
                return [pad + "let (%s, %s) := init %s %s.h" % (self.mems[0], h, self.mems[0], h)] + cont(ind)
            self.tmpn += 1
            r = "i%d" % self.tmpn
            lines = [pad + "let %s := init { %s } %s.h" % (r, ", ".join("%s := %s" % (m, m) for m in self.mems), h)]
            lines += [pad + "let %s := %s.1.%s" % (m, r, m) for m in self.mems]
            lines += [pad + "let %s := %s.2" % (h, r)]
            return lines + cont(ind)
        g = self if fn == self.name else self.known.get(fn)
        if g is None:
            raise Unsupported("call to untranslated function %s" % fn)
        pre = []
        if isinstance(g, LFn):
            hargs, vargs, cbargs, vis = [], [], [], None
            state_init = None
            for p, a in zip(g.params, args):
                pn = p["name"]
                if pn in g.hdr_params:
                    h = self.hdr_of_ptr(a)
                    if h is None:
                        raise Unsupported("list argument of %s" % fn)
                    hargs.append(h)
                elif pn in g.cmps:
                    cb = self.callback_name(a)
                    if cb is None:
                        raise Unsupported("callback argument of %s" % fn)
                    cbargs.append(lname(cb))
                elif pn == g.visit:
                    vis = strip(a)
                elif pn in g.priv:
                    sa = strip(a)
                    if g.visit and sa.get("kind") == "UnaryOperator" and sa["opcode"] == "&":
                        rv = self.rec_var(sa["inner"][0], False)
                        if rv is None:
                            raise Unsupported("private argument of %s" % fn)
                        state_init = rv
                elif pn in g.vals:
                    vargs.append(self.atom(self.expr(a)))
            consts = list(cbargs)
            outs = []
            if g.visit:
                # the visit function is a translated function over a private record
                if vis is None or vis.get("kind") != "DeclRefExpr" or state_init is None:
                    raise Unsupported("visit argument of %s" % fn)
                v = self.known.get(vis["referencedDecl"]["name"])
                if not isinstance(v, LFn) or v.state_rec != self.rec_locals[state_init] or len(v.state_fields) != 1:
                    raise Unsupported("visit function %s" % vis["referencedDecl"]["name"])
                vcbs = []
                for c in v.cmps:
                    al = self.fnalias.get((state_init, c))
                    if al is None:
                        raise Unsupported("callback field %s not set" % c)
                    vcbs.append(lname(al))
                hv = " ".join(self.mems + [lname(h) for h in g.hdr_params])
                ht = ", ".join(self.mems + [lname(h) for h in g.hdr_params])
                vparams = [lname(x) for x in v.vals]
                lam = "(fun s %s %s => let r := %s %s s %s; (r.2, r.1, %s))" % (
                    hv, " ".join(vparams), v.lean_name(), " ".join(vcbs), " ".join(vparams), ht)
                consts = [lam] + consts
                sv = "%s_%s" % (state_init, v.state_fields[0])
                outs.append(sv)
            if g.uses_tmp:
                consts.append("tmp")
            fuel = ["fuel"] if g.partial else []
            depth = ["(depth + 1)"] if g.uses_tmp else []
            stin = [outs[0]] if g.visit else []
            callt = " ".join([g.lean_name()] + consts + vargs + fuel + depth + stin + self.mems + hargs)
            outs += self.mems + hargs
            if g.ret is not None:
                self.tmpn += 1
                rv = want or "r%d" % self.tmpn
                outs.append(rv)
            else:
                rv = None
            if g.partial:
                if not self.partial:
                    raise Unsupported("call of a partial function from a total one")
                lines = [pad + "match %s with" % callt, pad + "| none => none", pad + "| some %s =>" % self.tup(outs)]
                self.last_call_value = rv
                return lines + cont(ind + 1)
            self.last_call_value = rv
            return [pad + "let %s := %s" % (self.tup(outs), callt)] + cont(ind)
        # callee translated by c2lean.Fn
        if g.has_loop or g.cbs:
            raise Unsupported("call to a function with a loop or a callback: %s" % fn)
        hargs, vargs = [], []
        for p, a in zip(g.params, args):
            if p["name"] in g.hdrs:
                h = self.hdr_of_ptr(a)
                if h is None:
                    raise Unsupported("list argument of %s" % fn)
                hargs.append(h)
            else:
                sa = strip(a)
                if sa.get("kind") == "CallExpr" and strip(sa["inner"][0]).get("referencedDecl", {}).get("name") in self.known \
                        and strip(sa["inner"][0])["referencedDecl"]["name"] not in self.cfg.ident_fns:
                    # nested call: evaluated first
                    self.tmpn += 1
                    nm = "r%d" % self.tmpn
                    pre.append((sa, nm))
                    vargs.append(nm)
                else:
                    vargs.append(None)
        def finish(ind2):
            pad2 = "  " * ind2
            va = []
            for (p, a), v in zip([(p, a) for p, a in zip(g.params, args) if p["name"] not in g.hdrs], vargs):
                va.append(v if v is not None else self.atom(self.expr(a)))
            callt = "%s %s %s %s" % (g.lean_name(), " ".join(self.mems), " ".join(hargs), " ".join(va))
            outs = self.mems + hargs
            if g.ret is not None:
                self.tmpn += 1
                rv = want or "r%d" % self.tmpn
                self.last_call_value = rv
                return [pad2 + "let (%s, %s) := %s" % (", ".join(outs), rv, callt.rstrip())] + cont(ind2)
            self.last_call_value = None
            return [pad2 + "let %s := %s" % (self.tup(outs), callt.rstrip())] + cont(ind2)
        k = finish
        for sa, nm in reversed(pre):
            k = (lambda sa, nm, k: (lambda ind2: self.call(sa, ind2, k, want=nm)))(sa, nm, k)
        return k(ind)

    last_call_value = None

    # ---- statements (continuation passing: `cont(ind)` yields the lines that follow)
    def seq(self, lst, ind, cont):
        if not lst:
            return cont(ind)
        s, rest = lst[0], lst[1:]
        return self.stmt(s, ind, lambda i: self.seq(rest, i, cont), rest)

    def block(self, s):
        return s["inner"] if s["kind"] == "CompoundStmt" else [s]

    def ends_in_return(self, lst):
        return bool(lst) and lst[-1]["kind"] == "ReturnStmt"

    def alias_assignment(self, lst):
        """[`l = &_sl[0];`] -> ('l', header) or None"""
        if len(lst) != 1:
            return None
        s = lst[0]
        if s["kind"] == "BinaryOperator" and s["opcode"] == "=":
            lhs = strip(s["inner"][0])
            if lhs["kind"] == "DeclRefExpr" and lhs["referencedDecl"]["name"] in self.alias_vars:
                h = self.hdr_of_ptr(s["inner"][1])
                if h is not None:
                    return lhs["referencedDecl"]["name"], h
        return None

    def stmt(self, s, ind, cont, rest):
        pad = "  " * ind
        k = s["kind"]
        if k in ("ParenExpr", "NullStmt"):         # assert() under NDEBUG, `;`
            return cont(ind)
        if k == "CompoundStmt":
            n0 = len(self.locals)
            def after(i):
                del self.locals[n0:]
                return cont(i)
            return self.seq(s.get("inner", []), ind, after)
        if k == "DeclStmt":
            out = []
            after = cont
            for v in s["inner"]:
                if v["kind"] != "VarDecl":
                    raise Unsupported("declaration")
                t = v["type"]["qualType"]
                nm = v["name"]
                if t.startswith("struct %s[" % self.cfg.hdr_struct):
                    n = int(t.split("[")[1].split("]")[0])
                    if n != 2:
                        raise Unsupported("array of %d lists" % n)
                    self.arr = dict(self.arr)
                    flds = ", ".join("%s := 0" % f for f in sorted(set(self.cfg.hdr_fields.values())))
                    for i in range(n):
                        hn = nm.lstrip("_") + str(i)
                        if hn in [lname(x) for x in self.hdrs] or hn in self.vals:
                            raise Unsupported("name clash %s" % hn)
                        self.arr[(nm, i)] = hn
                        self.hdrs.append(hn)
                        out.append(pad + "let %s : Hd := { h := (tmp depth).%d, %s }" % (hn, i + 1, flds))
                    continue
                if t.replace(" ", "") == "struct%s*" % self.cfg.hdr_struct:
                    if "inner" in v:
                        raise Unsupported("initialised list pointer")
                    self.alias_vars.add(nm)
                    continue
                rec = self.record_of_type(t)
                if rec and not t.rstrip().endswith("*"):
                    self.rec_locals[nm] = rec
                    for f, ft in self.ctx.records[rec]:
                        if self.field_kind(rec, f) == "data":
                            self.locals.append(("%s_%s" % (nm, f), "Nat"))
                            out.append(pad + "let %s_%s := 0" % (nm, f))
                    continue
                if rec and t.rstrip().endswith("*"):
                    a = strip(v["inner"][0]) if "inner" in v else None
                    if a is None or a.get("kind") != "DeclRefExpr" or a["referencedDecl"]["name"] != self.state_ptr:
                        raise Unsupported("pointer to a private record")
                    self.state_local = nm
                    continue
                if "struct" in t and "*" not in t:
                    continue                    # scratch structure for cstl_swap
                if is_fnptr_type(t):
                    if "inner" in v:
                        raise Unsupported("initialised function pointer")
                    self.funlocals[nm] = True
                    self.locals.append((lname(nm), self.fun_type()))
                    out.append(pad + "let %s : %s := fun %s a => a" % (lname(nm), self.fun_type(), " ".join("_" for _ in self.mems)))
                    continue
                ty = "Int" if t == "int" else "Nat"
                if not any(n == lname(nm) for n, _ in self.locals):
                    self.locals.append((lname(nm), ty))
                if "inner" not in v:
                    out.append(pad + "let %s : %s := 0" % (lname(nm), ty))
                    continue
                init = strip(v["inner"][0])
                if init["kind"] == "CallExpr" and self.is_effect_call(init):
                    raise Unsupported("call in an initialiser")
                out.append(pad + "let %s : %s := %s" % (lname(nm), ty, self.expr(v["inner"][0])))
            return out + after(ind)
        if k == "BinaryOperator" and s["opcode"] == ",":
            return self.seq([s["inner"][0], s["inner"][1]], ind, cont)
        if k == "BinaryOperator" and s["opcode"] == "=":
            lhs = strip(s["inner"][0])
            rhs = strip(s["inner"][1])
            if lhs["kind"] == "DeclRefExpr" and lhs["referencedDecl"]["name"] in self.alias_vars:
                h = self.hdr_of_ptr(s["inner"][1])
                if h is None:
                    raise Unsupported("list pointer assignment")
                self.alias = dict(self.alias, **{lhs["referencedDecl"]["name"]: h})
                return cont(ind)
            if lhs["kind"] == "MemberExpr" and is_fnptr_type(lhs["type"]["qualType"]):
                rv = self.rec_var(lhs["inner"][0], lhs.get("isArrow"))
                cb = self.callback_name(rhs)
                if rv is None or cb is None:
                    raise Unsupported("callback assignment")
                self.fnalias[(rv, lhs["name"])] = cb
                return cont(ind)
            if lhs["kind"] == "MemberExpr":
                rv = self.rec_var(lhs["inner"][0], lhs.get("isArrow"))
                if rv is not None and self.field_kind(self.rec_name(rv), lhs["name"]) == "priv":
                    return cont(ind)            # the private pointer travels with the callback
            if rhs["kind"] == "BinaryOperator" and rhs["opcode"] == "=":
                # chained assignment a = b = v: the right assignment first, then a = v
                return self.stmt(rhs, ind, lambda i: ["  " * i + self.assign(s["inner"][0], self.expr(rhs["inner"][1]))] + cont(i), rest)
            if rhs["kind"] == "CallExpr":
                cb = self.callback_name(rhs["inner"][0])
                if cb is not None and cb == self.visit:
                    if lhs["kind"] != "DeclRefExpr":
                        raise Unsupported("visit result target")
                    core = self.mems + [lname(h) for h in self.hdr_params]
                    arg = self.atom(self.expr(rhs["inner"][1]))
                    return [pad + "let (%s, vs, %s) := %s vs %s %s" % (
                        lname(lhs["referencedDecl"]["name"]), ", ".join(core), lname(cb), " ".join(core), arg)] + cont(ind)
            return [pad + self.assign(s["inner"][0], self.expr(s["inner"][1]))] + cont(ind)
        if k == "CompoundAssignOperator" and s["opcode"] in ("+=", "-="):
            cur = self.expr(s["inner"][0])
            return [pad + self.assign(s["inner"][0], "%s %s %s" % (cur, s["opcode"][0], self.expr(s["inner"][1])))] + cont(ind)
        if k == "UnaryOperator" and s["opcode"] in ("++", "--"):
            cur = self.expr(s["inner"][0])
            return [pad + self.assign(s["inner"][0], "%s %s 1" % (cur, "+" if s["opcode"] == "++" else "-"))] + cont(ind)
        if k == "DoStmt":
            cond = strip(s["inner"][1])
            if cond["kind"] == "IntegerLiteral" and cond["value"] == "0":
                return self.seq(self.block(s["inner"][0]), ind, cont)
            raise Unsupported("do-while loop")
        if k == "CallExpr":
            return self.call(s, ind, cont)
        if k == "ReturnStmt":
            if self.in_loop:
                raise Unsupported("return inside a loop")
            if s.get("inner"):
                e = strip(s["inner"][0])
                return [pad + self.result(self.atom(self.typed(self.expr(e), e)))]
            return [pad + self.result(None)]
        if k == "SwitchStmt":
            return self.switch(s, ind, cont)
        if k == "IfStmt":
            return self.ifstmt(s, ind, cont, rest)
        if k in ("WhileStmt", "ForStmt"):
            return self.loop(s, ind, cont)
        raise Unsupported("statement kind %s" % k)

    def typed(self, txt, e):
        if self.ret == "Int" and txt.lstrip("-").isdigit():
            return "(%s : Int)" % txt
        return txt

    def is_effect_call(self, e):
        fn = strip(e["inner"][0]).get("referencedDecl", {}).get("name")
        return fn in self.known or fn == self.name or fn == self.cfg.init_fn

    def state_tuple(self):
        return self.tup([n for n, _ in self.scope()])

    def ifstmt(self, s, ind, cont, rest):
        pad = "  " * ind
        cnd = s["inner"][0]
        then = self.block(s["inner"][1])
        els = self.block(s["inner"][2]) if len(s["inner"]) > 2 else []
        # a call with effects inside the condition: evaluate it first
        sc = strip(cnd)
        if sc["kind"] == "BinaryOperator" and strip(sc["inner"][0])["kind"] == "CallExpr" \
                and self.is_effect_call(strip(sc["inner"][0])) \
                and strip(sc["inner"][0])["inner"] and \
                strip(strip(sc["inner"][0])["inner"][0]).get("referencedDecl", {}).get("name") not in self.cfg.ident_fns \
                and strip(strip(sc["inner"][0])["inner"][0]).get("referencedDecl", {}).get("name") != self.cfg.size_fn[0]:
            call = strip(sc["inner"][0])
            def after(i):
                v = self.last_call_value
                op = {"==": "=", "!=": "≠", "<=": "≤", ">=": "≥"}.get(sc["opcode"], sc["opcode"])
                ctext = "(%s %s %s)" % (v, op, self.expr(sc["inner"][1]))
                return self.if_core(ctext, then, els, i, cont)
            return self.call(call, ind, after)
        return self.if_core(self.expr(cnd), then, els, ind, cont)

    def if_core(self, ctext, then, els, ind, cont):
        pad = "  " * ind
        t_ret, e_ret = self.ends_in_return(then), self.ends_in_return(els)
        a1, a2 = self.alias_assignment(then), self.alias_assignment(els)
        dup = t_ret or e_ret or a1 or a2 or any(self.contains_loop(x) for x in then + els) \
            or any(self.calls_partial(x) or self.calls(x, self.name) for x in then + els)
        if dup:
            # the rest of the block is translated once per branch
            saved = (dict(self.alias), list(self.locals), list(self.hdrs))
            out = [pad + "if %s then" % ctext]
            out += self.seq(then, ind + 1, (lambda i: []) if t_ret else cont)
            self.alias, self.locals, self.hdrs = dict(saved[0]), list(saved[1]), list(saved[2])
            out.append(pad + "else")
            out += self.seq(els, ind + 1, (lambda i: []) if e_ret else cont)
            self.alias, self.locals, self.hdrs = saved
            return out
        st = self.state_tuple()
        n0 = len(self.locals)
        out = [pad + "let %s := if %s then (" % (st, ctext)]
        out += self.seq(then, ind + 2, lambda i: ["  " * i + st + ")"])
        del self.locals[n0:]
        out.append(pad + "  else (")
        out += self.seq(els, ind + 2, lambda i: ["  " * i + st + ")"])
        del self.locals[n0:]
        return out + cont(ind)

    def switch(self, s, ind, cont):
        """`switch (v) { default: case A: …; break; case B: …; break; }` -> if chain"""
        scrut = self.expr(s["inner"][0])
        body = s["inner"][1]
        groups = []         # (labels, stmts); label None = default
        cur = None
        for x in body.get("inner", []):
            labels = []
            while x["kind"] in ("CaseStmt", "DefaultStmt"):
                if x["kind"] == "DefaultStmt":
                    labels.append(None)
                    x = x["inner"][0]
                else:
                    c = strip(x["inner"][0])
                    if c["kind"] == "DeclRefExpr" and c["referencedDecl"].get("kind") == "EnumConstantDecl":
                        labels.append(self.ctx.enums[c["referencedDecl"]["name"]])
                    elif c["kind"] == "IntegerLiteral":
                        labels.append(int(c["value"]))
                    else:
                        raise Unsupported("case label")
                    x = x["inner"][-1]
            if labels:
                if cur is not None:
                    raise Unsupported("fall-through between cases")
                cur = (labels, [])
            if cur is None:
                raise Unsupported("statement outside a case")
            if x["kind"] == "BreakStmt":
                groups.append(cur)
                cur = None
            else:
                cur[1].append(x)
        if cur is not None:
            groups.append(cur)
        default = [g for g in groups if None in g[0]]
        others = [g for g in groups if None not in g[0]]
        if len(default) != 1:
            raise Unsupported("switch without a default")
        # nested: if v = b1 then … else if … else default
        def build(gs, i):
            if not gs:
                return self.seq(default[0][1], i, lambda j: ["  " * j + st + ")"])
            labels, stmts = gs[0]
            c = " ∨ ".join("%s = %d" % (scrut, v) for v in labels)
            o = ["  " * i + "if (%s) then (" % c]
            o += self.seq(stmts, i + 1, lambda j: ["  " * j + st + ")"])
            o.append("  " * i + "else (")
            o += build(gs[1:], i + 1)
            return o
        st = self.state_tuple()
        pad = "  " * ind
        if not others:
            return self.seq(default[0][1], ind, cont)
        labels, stmts = others[0]
        if len(others) != 1:
            raise Unsupported("switch with more than two arms")
        c = " ∨ ".join("%s = %d" % (scrut, v) for v in labels)
        out = [pad + "let %s := if (%s) then (" % (st, c)]
        out += self.seq(stmts, ind + 2, lambda j: ["  " * j + st + ")"])
        out.append(pad + "  else (")
        out += self.seq(default[0][1], ind + 2, lambda j: ["  " * j + st + ")"])
        return out + cont(ind)

    def loop(self, s, ind, cont):
        pad = "  " * ind
        if s["kind"] == "ForStmt":
            init, _, cond, incr, body = s["inner"]
            if init and init.get("kind"):
                return self.seq([init], ind, lambda i: self.loop_core(cond, incr, body, i, cont))
            return self.loop_core(cond, incr, body, ind, cont)
        return self.loop_core(s["inner"][0], None, s["inner"][1], ind, cont)

    def loop_core(self, cond, incr, body, ind, cont):
        pad = "  " * ind
        self.nloops += 1
        ln = "%s_loop%d" % (self.lean_name(), self.nloops)
        sc = self.scope()
        vs = [n for n, _ in sc]
        tys = [t if " " not in t else "(%s)" % t for _, t in sc]
        binders, cargs = self.consts()
        condtxt = self.expr(cond)
        tup = self.tup(vs)
        n0 = len(self.locals)
        saved_alias = dict(self.alias)
        self.in_loop += 1
        blist = self.block(body) + ([incr] if incr and incr.get("kind") else [])
        def again(i):
            del self.locals[n0:]        # locals declared inside the body do not survive an iteration
            return ["  " * i + " ".join(x for x in [ln, cargs, "fuel"] + vs if x)]
        blines = self.seq(blist, 3, again)
        self.in_loop -= 1
        self.alias = saved_alias
        del self.locals[n0:]
        d = ["def %s %s: Nat → %s → Option (%s)" % (ln, binders + " " if binders else "", " → ".join(tys), " × ".join(tys)),
             "  | 0, %s => if %s then none else some %s" % (", ".join(vs), condtxt, tup),
             "  | fuel + 1, %s =>" % ", ".join(vs),
             "    if %s then" % condtxt]
        d += blines
        d.append("    else some %s" % tup)
        self.prelude.append("\n".join(d) + "\n")
        out = [pad + "match %s with" % " ".join(x for x in [ln, cargs, "fuel"] + vs if x),
               pad + "| none => none",
               pad + "| some %s =>" % tup]
        return out + cont(ind + 1)

    # ---- whole function
    def render(self):
        binders, cargs = self.consts()
        tail_ret = "0" if self.ret == "Nat" else "(0 : Int)"
        def tail(i):
            return ["  " * i + self.result(None if self.ret is None else tail_ret)]
        stbind = ""
        if self.visit:
            stbind = "(vs : σ) "
        mems = " ".join("(%s : Mem)" % m for m in self.mems)
        hdrs = " ".join("(%s : Hd)" % lname(h) for h in self.hdr_params)
        if self.state_rec and self.state_ptr:
            # a visit function over a private record: state fields in, (state fields, result) out
            sf = " ".join("(%s : Nat)" % self.state_var(f) for f in self.state_fields)
            body = self.seq(self.body.get("inner", []), 1, tail)
            return "".join(p + "\n" for p in self.prelude) + "def %s %s %s : %s :=\n%s\n" % (
                self.lean_name(), " ".join(x for x in [binders.replace("(%s : Nat)" % " ".join(lname(v) for v in self.vals), "").strip()] if x),
                sf + " " + "(%s : Nat)" % " ".join(lname(v) for v in self.vals), self.result_type(), "\n".join(body))
        if self.recursive:
            if not self.uses_tmp:
                raise Unsupported("recursion without local lists")
            body = self.seq(self.body.get("inner", []), 2, tail)
            nargs = len(self.mems) + len(self.hdr_params)
            sig = "def %s %s: Nat → Nat → %s → %s" % (
                self.lean_name(), binders + " " if binders else "",
                " → ".join(["Mem"] * len(self.mems) + ["Hd"] * len(self.hdr_params)), self.result_type())
            hd = [sig,
                  "  | 0, %s => none" % ", ".join(["_"] * (nargs + 1)),
                  "  | fuel + 1, depth, %s =>" % ", ".join(self.mems + [lname(h) for h in self.hdr_params])]
            return "".join(p + "\n" for p in self.prelude) + "\n".join(hd + body) + "\n"
        body = self.seq(self.body.get("inner", []), 1, tail)
        fuel = "(fuel : Nat) " if self.partial else ""
        depth = "(depth : Nat) " if self.uses_tmp else ""
        return "".join(p + "\n" for p in self.prelude) + "def %s %s%s%s%s%s %s : %s :=\n%s\n" % (
            self.lean_name(), binders + " " if binders else "", fuel, depth, stbind, mems, hdrs,
            self.result_type(), "\n".join(body))


# ---------------------------------------------------------------------------

AREAS2 = {
    "slist": dict(
        base="slist",
        module="SListC2",
        # (function, translator): "Fn" = c2lean.Fn (unchanged), "LFn" = this file
        order=[("__cstl_slist_insert_after", "Fn"), ("__cstl_slist_erase_after", "Fn"),
               ("cstl_slist_concat", "Fn"), ("cstl_slist_sort", "LFn"), ("cstl_slist_foreach", "LFn")],
    ),
    "dlist": dict(
        base="dlist",
        module="DListC2",
        order=[("__cstl_dlist_insert", "Fn"), ("__cstl_dlist_erase", "Fn"), ("cstl_dlist_concat", "Fn"),
               ("cstl_dlist_swap", "Fn"), ("cstl_dlist_sort", "LFn"), ("cstl_dlist_foreach", "LFn"),
               ("cstl_dlist_find_visit", "LFn"), ("cstl_dlist_find", "LFn")],
    ),
}


def translate(area, repo):
    a2 = AREAS2[area]
    a = AREAS[a2["base"]]
    cfg = a["cfg"]
    tu = clang_tu(repo, a["src"])
    ctx = Ctx(tu, cfg)
    known, chunks, report = {}, [], {}
    for name, kind in a2["order"]:
        if name not in ctx.functions:
            report[name] = "not found in source"
            continue
        try:
            f = Fn(cfg, ctx.functions[name], known) if kind == "Fn" else LFn(cfg, ctx, ctx.functions[name], known)
            txt = f.render()
            known[name] = f
            chunks.append(txt)
            report[name] = "translated"
        except Unsupported as e:
            report[name] = "not translated: %s" % e
    out = ("-- GENERATED by tools/c2lean_lists.py from /repo's src/%s on every check run; do not edit.\n" % a["src"]
           + a["header"] + "set_option linter.unusedVariables false\n" + "namespace Cstl.Gen.%s\n" % a2["module"] + a["opens"] + "\n"
           + "\n".join(chunks) + "\nend Cstl.Gen.%s\n" % a2["module"])
    return out, report


if __name__ == "__main__":
    area = sys.argv[1]
    repo = sys.argv[2] if len(sys.argv) > 2 else "/repo"
    txt, rep = translate(area, repo)
    sys.stdout.write(txt)
    for k, v in rep.items():
        sys.stderr.write("%s: %s\n" % (k, v))
