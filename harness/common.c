#define _POSIX_C_SOURCE 200809L
#include "common.h"
#ifdef VERIF_COVERAGE
void __gcov_dump(void);
#define COV_DUMP() __gcov_dump()
#else
#define COV_DUMP() ((void)0)
#endif

#include <stdarg.h>
#include <stdio.h>
#include <stdlib.h>
#include <string.h>
#include <signal.h>
#include <unistd.h>
#include <sys/types.h>
#include <sys/wait.h>
#include <sys/resource.h>

static char linebuf[1 << 16];
static size_t linelen;

void outf(const char * fmt, ...)
{
    va_list ap;
    int n;
    va_start(ap, fmt);
    n = vsnprintf(linebuf + linelen, sizeof(linebuf) - linelen, fmt, ap);
    va_end(ap);
    if (n > 0) {
        linelen += (size_t)n;
        if (linelen >= sizeof(linebuf)) {
            linelen = sizeof(linebuf) - 1;
        }
    }
}

static void raw_write(const char * p, size_t n)
{
    while (n > 0) {
        ssize_t w = write(1, p, n);
        if (w <= 0) {
            _exit(3);
        }
        p += w;
        n -= (size_t)w;
    }
}

void out_end(void)
{
    if (linelen < sizeof(linebuf) - 1) {
        linebuf[linelen++] = '\n';
    } else {
        linebuf[sizeof(linebuf) - 1] = '\n';
    }
    raw_write(linebuf, linelen);
    linelen = 0;
}

static int stopped;
int h_init_mismatch;

void h_stop(const char * kind)
{
    linelen = 0;
    outf("STOP %s", kind);
    out_end();
    stopped = 1;
}

const int h_cookie[16] = { 100, 101, 102, 103, 104, 105, 106, 107, 108, 109, 110, 111, 112, 113, 114, 115 };

void h_priv_check(const void * p, int k)
{
    if (p != (const void *)&h_cookie[k]) {
        h_stop("bad-priv");
        COV_DUMP();
        _exit(0);
    }
}

size_t h_size(const char * s)
{
    if (s[0] == 'M') {
        if (s[1] == '-') {
            return SIZE_MAX - (size_t)strtoull(s + 2, NULL, 10);
        }
        return SIZE_MAX;
    }
    return (size_t)strtoull(s, NULL, 10);
}

long long h_int(const char * s)
{
    return strtoll(s, NULL, 10);
}

static int split(char * line, char ** argv)
{
    int argc = 0;
    char * save = NULL;
    char * tok = strtok_r(line, " \t\r\n", &save);
    while (tok != NULL && argc < H_MAXW) {
        argv[argc++] = tok;
        tok = strtok_r(NULL, " \t\r\n", &save);
    }
    return argc;
}

/* fill the stack region the next call will use with a pattern, so that a local variable the
 * library forgets to initialise does not happen to be zero */
static void __attribute__((noinline)) h_dirty_stack(void)
{
    volatile unsigned char buf[16384];
    size_t i;
    for (i = 0; i < sizeof(buf); i++) {
        buf[i] = H_POISON;
    }
}

static void run_script(const struct h_area * a, char ** lines, size_t n)
{
    size_t i;
    h_init_mismatch = 0;
    a->reset();
    stopped = 0;
    if (h_init_mismatch) {
        h_stop("static-initializer-differs-from-init");
    }
    for (i = 0; i < n && !stopped; i++) {
        char * argv[H_MAXW];
        int argc = split(lines[i], argv);
        if (argc == 0) {
            continue;
        }
        linelen = 0;
        h_dirty_stack();
        a->op(argc, argv);
    }
}

int h_main(const struct h_area * a)
{
    char ** lines = NULL;
    size_t nlines = 0, cap = 0;
    char * buf = NULL;
    size_t bufcap = 0;
    ssize_t len;
    size_t i;

    while ((len = getline(&buf, &bufcap, stdin)) > 0) {
        if (nlines == cap) {
            cap = cap ? cap * 2 : 1024;
            lines = realloc(lines, cap * sizeof(*lines));
        }
        lines[nlines++] = strdup(buf);
    }

    i = 0;
    while (i < nlines) {
        size_t j;
        pid_t pid;
        int st;

        if (strncmp(lines[i], "script", 6) != 0) {
            /* operations before any script line: treat as a script */
            j = i;
        } else {
            char * argv[H_MAXW];
            int argc = split(lines[i], argv), k;
            linelen = 0;
            for (k = 0; k < argc; k++) {
                outf(k ? " %s" : "%s", argv[k]);
            }
            out_end();
            j = i + 1;
        }
        i = j;
        while (j < nlines && strncmp(lines[j], "script", 6) != 0) {
            j++;
        }

        pid = fork();
        if (pid == 0) {
            /* a script that does not finish (a loop in the code under test)
             * is reported as "STOP hang" by the parent.  The limit is on CPU
             * time, so that a loaded machine cannot cause it; a generous
             * wall-clock alarm is the backstop for a blocked child. */
            {
                struct rlimit rl;
                unsigned cpu = getenv("H_SCRIPT_TIMEOUT") ? (unsigned)atoi(getenv("H_SCRIPT_TIMEOUT")) : 5;
                rl.rlim_cur = cpu;
                rl.rlim_max = cpu + 1;
                setrlimit(RLIMIT_CPU, &rl);
                alarm(20 * cpu + 60);
            }
            run_script(a, lines + i, j - i);
            COV_DUMP();
            _exit(0);
        }
        if (pid < 0) {
            perror("fork");
            return 2;
        }
        while (waitpid(pid, &st, 0) < 0)
            ;
        linelen = 0;
        if (WIFSIGNALED(st)) {
            int sig = WTERMSIG(st);
            outf("STOP %s",
                 sig == SIGABRT ? "abort" :
                 (sig == SIGSEGV || sig == SIGBUS) ? "segv" :
                 (sig == SIGALRM || sig == SIGXCPU || sig == SIGKILL) ? "hang" : "signal");
            out_end();
        } else if (WIFEXITED(st) && WEXITSTATUS(st) == 99) {
            outf("STOP asan");
            out_end();
        } else if (WIFEXITED(st) && WEXITSTATUS(st) != 0) {
            outf("STOP exit%d", WEXITSTATUS(st));
            out_end();
        }
        i = j;
    }
    return 0;
}
