/*
 * Shared line-protocol runtime for the C harnesses.
 *
 * stdin : "script <tag>" starts a new script; every other line is one
 *         operation, split into words.
 * stdout: "script <tag>" echoed; one line per operation, written by the
 *         area's op function through out()/outf(); if the forked child that
 *         runs a script dies the parent prints "STOP abort|segv|asan|...".
 *         An op may itself print a line starting with "STOP" (then the rest of
 *         the script is skipped, like the model driver does).
 */
#ifndef VERIF_HARNESS_COMMON_H
#define VERIF_HARNESS_COMMON_H

#include <stddef.h>
#include <stdint.h>

#define H_MAXW 64

struct h_area {
    void (*reset)(void);                    /* fresh state for a new script */
    void (*op)(int argc, char ** argv);     /* one operation, prints one line */
};

int h_main(const struct h_area * a);

/* output (buffered per line; flushed before anything that may die) */
void outf(const char * fmt, ...) __attribute__((format(printf, 1, 2)));
void out_end(void);                         /* terminate + flush the line */
void h_stop(const char * kind);             /* print "STOP kind", end script */

/*
 * Callback contexts.  Every context pointer ("priv") the harness hands to the
 * library is the address of one of these cookies, a different one per
 * registration, and the callback it belongs to checks that it received exactly
 * that one: a library that drops, nulls or mixes up the caller's context is
 * stopped at the first call ("STOP bad-priv").
 */
extern const int h_cookie[16];
#define H_PRIV(k) ((void *)&h_cookie[k])
void h_priv_check(const void * p, int k);

/* parsing: decimal, "M" = SIZE_MAX, "M-k" = SIZE_MAX-k */
/*
 * A comparison function is specified only by the sign of its result.  The
 * harness comparators therefore return magnitudes that do not follow the
 * order of the keys (deterministic in the two keys): code that treats the
 * result as a distance, or compares it with 1 / -1, misbehaves visibly.
 */
static inline int h_cmp_result(long long x, long long y)
{
    const unsigned long long h = ((unsigned long long)x * 0x9E3779B97F4A7C15ULL)
                                 ^ ((unsigned long long)y * 0xC2B2AE3D27D4EB4FULL);
    const int mag = 1 + (int)((h >> 29) % 1000);
    return x > y ? mag : x < y ? -mag : 0;
}

/*
 * Initial states.  (1) Objects are filled with H_POISON before their init
 * function runs, so a field the init function forgets shows; (2) where the
 * header offers a compile-time initializer, either some of the harness's objects
 * are initialised ONLY by it (they are never passed to the init function), or a
 * statically initialised twin is compared with a zero-filled object after its
 * init function (reset() sets h_init_mismatch; the script then ends with
 * "STOP static-initializer-differs-from-init").
 */
#define H_POISON 0xA5
#define H_POISON_OBJ(obj) memset(&(obj), H_POISON, sizeof(obj))
extern int h_init_mismatch;

/* the non-zero value with which the k-th visit asks a traversal to stop: negative for odd k
 * (a traversal must stop on ANY non-zero value and hand exactly that value back) */
static inline int h_stop_value(long long k)
{
    return (k & 1) ? -3 : 7;
}

size_t h_size(const char * s);
long long h_int(const char * s);

/* allocation interposer (malloc/realloc/free wrappers via --wrap) */
void h_alloc_reset(void);
void h_alloc_plan(const char * plan);       /* string of '1' (ok) / '0' (fail), then ok */
extern int h_alloc_log;                     /* 1: events are recorded */
void h_alloc_arm(int on);
const char * h_alloc_take(void);            /* event string since the last take */
int h_alloc_live(void);                     /* number of live library blocks */
int h_alloc_find(const void * p, size_t * off); /* block id (0 = unknown) + offset */
size_t h_alloc_size(int id);

#endif
