/*
 * Shadow <stdatomic.h> for the C06 harness (found first on the include path
 * when src/memory.c is compiled for harness/conc.c; the source is not
 * modified).  Every atomic operation of the library becomes a call into the
 * harness, which records the operation, the object it is applied to (the text
 * of the argument expression and its address), the source line and the value
 * it returned, and yields to the deterministic scheduler *before* performing
 * it.  The harness runs all "threads" as coroutines on one OS thread, so the
 * plain accesses below are the sequentially consistent semantics of the
 * operations.
 */
#ifndef VERIF_SHADOW_STDATOMIC_H
#define VERIF_SHADOW_STDATOMIC_H

#include <stddef.h>
#include <stdbool.h>

typedef size_t atomic_size_t;
typedef struct { unsigned char v; } atomic_flag;

#define ATOMIC_FLAG_INIT { 0 }

/* memory orders: the model (and its race-freedom theorem) is about seq_cst
 * atomics only; an operation with a weaker order is performed the same way
 * here (one OS thread) but is *named* with its order in the trace, so the
 * correspondence with the model breaks and the directed search runs the
 * scenarios on real threads under ThreadSanitizer */
typedef enum {
    memory_order_relaxed, memory_order_consume, memory_order_acquire,
    memory_order_release, memory_order_acq_rel, memory_order_seq_cst
} memory_order;
void conc_order(memory_order mo);

size_t conc_fetch_add(size_t * obj, size_t v, const char * what, int line);
size_t conc_fetch_sub(size_t * obj, size_t v, const char * what, int line);
size_t conc_load(const size_t * obj, const char * what, int line);
void conc_store(size_t * obj, size_t v, const char * what, int line);
bool conc_tas(atomic_flag * obj, const char * what, int line);
void conc_flag_clear(atomic_flag * obj, const char * what, int line);

#define atomic_init(obj, v)             (*(obj) = (v))
#define atomic_load(obj)                conc_load((obj), #obj, __LINE__)
#define atomic_store(obj, v)            conc_store((obj), (v), #obj, __LINE__)
#define atomic_fetch_add(obj, v)        conc_fetch_add((obj), (v), #obj, __LINE__)
#define atomic_fetch_sub(obj, v)        conc_fetch_sub((obj), (v), #obj, __LINE__)
#define atomic_flag_test_and_set(obj)   conc_tas((obj), #obj, __LINE__)
#define atomic_flag_clear(obj)          conc_flag_clear((obj), #obj, __LINE__)

#define atomic_load_explicit(obj, mo)           (conc_order(mo), conc_load((obj), #obj, __LINE__))
#define atomic_store_explicit(obj, v, mo)       (conc_order(mo), conc_store((obj), (v), #obj, __LINE__))
#define atomic_fetch_add_explicit(obj, v, mo)   (conc_order(mo), conc_fetch_add((obj), (v), #obj, __LINE__))
#define atomic_fetch_sub_explicit(obj, v, mo)   (conc_order(mo), conc_fetch_sub((obj), (v), #obj, __LINE__))
#define atomic_flag_test_and_set_explicit(obj, mo) (conc_order(mo), conc_tas((obj), #obj, __LINE__))
#define atomic_flag_clear_explicit(obj, mo)     (conc_order(mo), conc_flag_clear((obj), #obj, __LINE__))
#define atomic_thread_fence(mo)                 ((void)(mo))

#endif
