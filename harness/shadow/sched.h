/*
 * Shadow <sched.h> for the C06 harness: sched_yield() of the library's spin
 * loop is counted; the next atomic operation is the next scheduling point.
 */
#ifndef VERIF_SHADOW_SCHED_H
#define VERIF_SHADOW_SCHED_H

#include_next <sched.h>

int conc_sched_yield(int line);
#define sched_yield() conc_sched_yield(__LINE__)

#endif
