/*
 * Shadow <stdlib.h> for the C06 harness: malloc/free calls of the library
 * become scheduling points and events (free of the managed memory, free of
 * the bookkeeping block).  Everything else is the real header.
 */
#ifndef VERIF_SHADOW_STDLIB_H
#define VERIF_SHADOW_STDLIB_H

#include_next <stdlib.h>

#ifndef VERIF_CONC_NO_SHADOW
void * conc_malloc(size_t n);
void conc_free(void * p);
#define malloc(n) conc_malloc(n)
#define free(p) conc_free(p)
#endif

#endif
