/*
 * Harness for cstl_hash_div / cstl_hash_mul (src/hash.c): same line protocol
 * as lean/Cstl/HashFn/Main.lean.
 *
 *   mul <k> <m>   ->  "<cstl_hash_mul(k,m)> | -"
 *   div <k> <m>   ->  "<cstl_hash_div(k,m)> | -"   (m = 0 dies with SIGFPE:
 *                      the parent prints "STOP signal")
 *
 * The model is IEEE binary32 with every operation rounded to binary32; the
 * harness refuses to run if the compiler evaluates float expressions in a
 * wider format (FLT_EVAL_METHOD != 0) or if size_t is not 64 bits wide.
 */
#include "common.h"
#include "cstl/hash.h"

#include <float.h>
#include <stdio.h>
#include <stdlib.h>
#include <string.h>

#ifndef FLT_EVAL_METHOD
#error "FLT_EVAL_METHOD is not defined by <float.h>"
#endif

static int env_ok(void)
{
    /* phi's bit pattern is what the model's PHI constant stands for */
    volatile float phi = 1.61803398875f;
    float f = phi;
    unsigned int bits;
    memcpy(&bits, &f, sizeof(bits));
    return FLT_EVAL_METHOD == 0
        && sizeof(size_t) == 8
        && sizeof(float) == 4
        && FLT_MANT_DIG == 24
        && FLT_RADIX == 2
        && bits == 0x3FCF1BBDu;
}

static void reset(void)
{
}

static void op(int argc, char ** argv)
{
    if (!env_ok()) {
        h_stop("bad-float-environment");
        return;
    }
    if (argc == 3 && strcmp(argv[0], "mul") == 0) {
        const size_t k = h_size(argv[1]), m = h_size(argv[2]);
        outf("%zu | -", cstl_hash_mul(k, m));
        out_end();
    } else if (argc == 3 && strcmp(argv[0], "div") == 0) {
        const size_t k = h_size(argv[1]), m = h_size(argv[2]);
        outf("%zu | -", cstl_hash_div(k, m));
        out_end();
    } else if (argc == 4 && strcmp(argv[0], "scan") == 0) {
        /* search step only (implementation side, no model): first key in
         * [lo, hi) whose multiplicative hash is not below m */
        const size_t m = h_size(argv[1]), lo = h_size(argv[2]), hi = h_size(argv[3]);
        size_t k;
        for (k = lo; k < hi; k++) {
            const size_t v = cstl_hash_mul(k, m);
            if (v >= m) {
                outf("bad %zu %zu | -", k, v);
                out_end();
                return;
            }
        }
        outf("none | -");
        out_end();
    } else {
        h_stop("bad-op");
    }
}

int main(void)
{
    static const struct h_area a = { reset, op };
    if (!env_ok()) {
        fprintf(stderr, "hashfn harness: FLT_EVAL_METHOD=%d, sizeof(size_t)=%zu: "
                "not the binary32 environment the model describes\n",
                (int)FLT_EVAL_METHOD, sizeof(size_t));
    }
    return h_main(&a);
}
