/*
 * Harness for src/slist.c: same line protocol and state dump as
 * lean/Cstl/SList/Main.lean.  Addresses are canonicalised: NULL = 0, list
 * head nodes = 1..3, pool element i = 10 + i, poison cell of element i =
 * 110 + i (the clear callback overwrites the element's link with it).
 */
#include "common.h"
#include "cstl/slist.h"

#include <stdio.h>
#include <stdlib.h>
#include <string.h>

#define NL 3
#define NE 48

/*
 * Every element carries TWO hooks: lists 1 and 2 are initialised with the
 * offset of `n`, list 3 with the offset of `n2`, so that lists anchored at
 * different offsets meet in swap (see harness/dlist.c).  An element is on at
 * most one list at a time, so one link per element describes it.
 */
struct elem {
    int key;
    struct cstl_slist_node n;
    long pad;
    struct cstl_slist_node n2;
};

static struct cstl_slist lists[NL];
static struct elem pool[NE];
static struct cstl_slist_node poisonv[NE];

static long id_of_node(const struct cstl_slist_node * n)
{
    int i;
    if (n == NULL) {
        return 0;
    }
    for (i = 0; i < NL; i++) {
        if (n == &lists[i].h) {
            return i + 1;
        }
    }
    for (i = 0; i < NE; i++) {
        if (n == &pool[i].n || n == &pool[i].n2) {
            return 10 + i;
        }
        if (n == &poisonv[i]) {
            return 110 + i;
        }
    }
    return -1;
}

static long id_of_elem(const void * e)
{
    size_t d;
    if (e == NULL) {
        return 0;
    }
    d = (size_t)((const char *)e - (const char *)pool);
    if ((const char *)e < (const char *)pool || d >= sizeof(pool) || d % sizeof(struct elem) != 0) {
        return -1;
    }
    return 10 + (long)(d / sizeof(struct elem));
}

static struct elem * elem_of(const char * s)
{
    long id = atol(s);
    if (id < 10 || id >= 10 + NE) {
        return NULL;
    }
    return &pool[id - 10];
}

static void dump(void)
{
    int i;
    for (i = 0; i < NL; i++) {
        const struct cstl_slist_node * n = lists[i].h.n;
        int k = 0;
        outf(" | [");
        while (n != NULL && k < 64) {
            long id = id_of_node(n);
            outf(k ? ",%ld" : "%ld", id);
            k++;
            if (id < 10 || id >= 10 + NE) {
                break;
            }
            n = n->n;
        }
        outf("] t=%ld c=%zu", id_of_node(lists[i].t), lists[i].count);
    }
    out_end();
}

static void reset(void)
{
    int i;
    memset(pool, 0, sizeof(pool));
    for (i = 0; i < NL; i++) {
        cstl_slist_init(&lists[i], i == 2 ? offsetof(struct elem, n2) : offsetof(struct elem, n));
    }
}

static int cmp_elem(const void * a, const void * b, void * p)
{
    h_priv_check(p, 1);
    return h_cmp_result(((const struct elem *)a)->key, ((const struct elem *)b)->key);
}

static long visited[NE + 1];
static int nvisited, stop_at;

static int visit(void * e, void * p)
{
    h_priv_check(p, 2);
    if (nvisited < NE) {
        visited[nvisited] = id_of_elem(e);
    }
    return nvisited++ == stop_at ? 7 : 0;
}

static void clr(void * e, void * p)
{
    struct elem * el = e;
    (void)p;
    if (nvisited < NE) {
        visited[nvisited++] = id_of_elem(e);
    }
    /* the callee owns the element now: overwrite its links */
    el->n.n = el->n2.n = &poisonv[el - pool];
}

static void print_visited(void)
{
    int i;
    outf("[");
    for (i = 0; i < nvisited && i < NE; i++) {
        outf(i ? ",%ld" : "%ld", visited[i]);
    }
    outf("]");
}

static struct cstl_slist * list_of(const char * s)
{
    long i = atol(s);
    return (i >= 1 && i <= NL) ? &lists[i - 1] : NULL;
}

static void op(int argc, char ** argv)
{
    const char * o = argv[0];
    struct cstl_slist * l = argc > 1 ? list_of(argv[1]) : NULL;

    if (!strcmp(o, "keys")) {
        int i;
        for (i = 1; i < argc && i - 1 < NE; i++) {
            pool[i - 1].key = (int)h_int(argv[i]);
        }
        outf("ok");
    } else if (!strcmp(o, "pushf") && argc == 3 && l && elem_of(argv[2])) {
        cstl_slist_push_front(l, elem_of(argv[2]));
        outf("ok");
    } else if (!strcmp(o, "pushb") && argc == 3 && l && elem_of(argv[2])) {
        cstl_slist_push_back(l, elem_of(argv[2]));
        outf("ok");
    } else if (!strcmp(o, "insa") && argc == 4 && l && elem_of(argv[2]) && elem_of(argv[3])) {
        cstl_slist_insert_after(l, elem_of(argv[2]), elem_of(argv[3]));
        outf("ok");
    } else if (!strcmp(o, "eraa") && argc == 3 && l && elem_of(argv[2])) {
        outf("%ld", id_of_elem(cstl_slist_erase_after(l, elem_of(argv[2]))));
    } else if (!strcmp(o, "popf") && argc == 2 && l) {
        outf("%ld", id_of_elem(cstl_slist_pop_front(l)));
    } else if (!strcmp(o, "front") && argc == 2 && l) {
        outf("%ld", id_of_elem(cstl_slist_front(l)));
    } else if (!strcmp(o, "back") && argc == 2 && l) {
        outf("%ld", id_of_elem(cstl_slist_back(l)));
    } else if (!strcmp(o, "rev") && argc == 2 && l) {
        cstl_slist_reverse(l);
        outf("ok");
    } else if (!strcmp(o, "sort") && argc == 2 && l) {
        cstl_slist_sort(l, cmp_elem, H_PRIV(1));
        outf("ok");
    } else if (!strcmp(o, "concat") && argc == 3 && l && list_of(argv[2]) && l != list_of(argv[2])) {
        cstl_slist_concat(l, list_of(argv[2]));
        outf("ok");
    } else if (!strcmp(o, "swap") && argc == 3 && l && list_of(argv[2]) && l != list_of(argv[2])) {
        cstl_slist_swap(l, list_of(argv[2]));
        outf("ok");
    } else if (!strcmp(o, "foreach") && argc == 3 && l) {
        int r;
        nvisited = 0;
        stop_at = (int)h_int(argv[2]);
        r = cstl_slist_foreach(l, visit, H_PRIV(2));
        outf("%d ", r);
        print_visited();
    } else if (!strcmp(o, "clear") && argc == 2 && l) {
        nvisited = 0;
        cstl_slist_clear(l, clr);
        print_visited();
        {
            /* nothing may be written to an element after its callback */
            int i, okp = 1;
            for (i = 0; i < nvisited && i < NE; i++) {
                long id = visited[i];
                if (id >= 10 && id < 10 + NE && (pool[id - 10].n.n != &poisonv[id - 10] || pool[id - 10].n2.n != &poisonv[id - 10])) {
                    okp = 0;
                }
            }
            outf(" p=%d", okp);
        }
    } else {
        h_stop("bad-op");
        return;
    }
    dump();
}

int main(void)
{
    static const struct h_area a = { reset, op };
    return h_main(&a);
}
