/*
 * Harness for src/slist.c: same line protocol and state dump as
 * lean/Cstl/SList/Main.lean.  Addresses are canonicalised: NULL = 0, list
 * head nodes = 1..3, pool element i = 10 + i, poison cell of element i =
 * 110 + i (the clear callback overwrites the element's link with it).
 */
#include "common.h"
#include "cstl/slist.h"

#include <stdio.h>
#include <stdlib.h>
#include <string.h>

#define NL 3
#define NE 48

/*
 * Every element carries TWO hooks: lists 1 and 2 are initialised with the
 * offset of `n`, list 3 with the offset of `n2`, so that lists anchored at
 * different offsets meet in swap (see harness/dlist.c).  An element is on at
 * most one list at a time, so one link per element describes it.
 */
struct elem {
    int key;
    struct cstl_slist_node n;
    long pad;
    struct cstl_slist_node n2;
};

/* list 2 is initialised by the header's compile-time initializer and never by cstl_slist_init */
static struct cstl_slist lists[NL] = { [1] = CSTL_SLIST_INITIALIZER(lists[1], struct elem, n) };
static struct elem pool[NE];
static struct cstl_slist_node poisonv[NE];

static long id_of_node(const struct cstl_slist_node * n)
{
    int i;
    if (n == NULL) {
        return 0;
    }
    for (i = 0; i < NL; i++) {
        if (n == &lists[i].h) {
            return i + 1;
        }
    }
    for (i = 0; i < NE; i++) {
        if (n == &pool[i].n || n == &pool[i].n2) {
            return 10 + i;
        }
        if (n == &poisonv[i]) {
            return 110 + i;
        }
    }
    return -1;
}

static long id_of_elem(const void * e)
{
    size_t d;
    if (e == NULL) {
        return 0;
    }
    d = (size_t)((const char *)e - (const char *)pool);
    if ((const char *)e < (const char *)pool || d >= sizeof(pool) || d % sizeof(struct elem) != 0) {
        return -1;
    }
    return 10 + (long)(d / sizeof(struct elem));
}

static struct elem * elem_of(const char * s)
{
    long id = atol(s);
    if (id < 10 || id >= 10 + NE) {
        return NULL;
    }
    return &pool[id - 10];
}

static void dump(void)
{
    int i;
    for (i = 0; i < NL; i++) {
        const struct cstl_slist_node * n = lists[i].h.n;
        int k = 0;
        outf(" | [");
        while (n != NULL && k < 64) {
            long id = id_of_node(n);
            outf(k ? ",%ld" : "%ld", id);
            k++;
            if (id < 10 || id >= 10 + NE) {
                break;
            }
            n = n->n;
        }
        outf("] t=%ld c=%zu", id_of_node(lists[i].t), lists[i].count);
    }
    out_end();
}

static void reset(void)
{
    int i;
    memset(pool, 0, sizeof(pool));
    for (i = 0; i < NL; i++) {
        if (i == 1) {
            continue;       /* compile-time initializer */
        }
        H_POISON_OBJ(lists[i]);
        cstl_slist_init(&lists[i], i == 2 ? offsetof(struct elem, n2) : offsetof(struct elem, n));
    }
}

static int cmp_elem(const void * a, const void * b, void * p)
{
    h_priv_check(p, 1);
    return h_cmp_result(((const struct elem *)a)->key, ((const struct elem *)b)->key);
}

static long visited[NE + 1];
static int nvisited, stop_at;

/* foreachmv: the visit function takes every element it is shown out of the list (it is the front
 * element, because every element before it was taken out as well) and appends it to another list */
static struct cstl_slist * visit_list, * move_to;

static int visit(void * e, void * p)
{
    h_priv_check(p, 2);
    if (nvisited < NE) {
        visited[nvisited] = id_of_elem(e);
    }
    if (move_to != NULL) {
        if (cstl_slist_pop_front(visit_list) != e) {
            h_stop("harness-front-is-not-the-visited-element");
            return 99;
        }
        cstl_slist_push_back(move_to, e);
    }
    return nvisited++ == stop_at ? h_stop_value(stop_at) : 0;
}

static void clr(void * e, void * p)
{
    struct elem * el = e;
    (void)p;
    if (nvisited < NE) {
        visited[nvisited++] = id_of_elem(e);
    }
    /* the callee owns the element now: overwrite its links */
    el->n.n = el->n2.n = &poisonv[el - pool];
}

static void print_visited(void)
{
    int i;
    outf("[");
    for (i = 0; i < nvisited && i < NE; i++) {
        outf(i ? ",%ld" : "%ld", visited[i]);
    }
    outf("]");
}

static struct cstl_slist * list_of(const char * s)
{
    long i = atol(s);
    return (i >= 1 && i <= NL) ? &lists[i - 1] : NULL;
}

/*
 * bigsort <l> <n> <nkeys> <seed>: list l must be empty.  n elements from a
 * separate large pool with LCG keys below nkeys are appended, the list is
 * sorted, and the result is checked here step by step (size, every element
 * exactly once, keys non-decreasing, tail = true last: back() and a push_back
 * afterwards), then the list is emptied again.  Result `ok ck=<checksum of the
 * final order>` (the model computes the same checksum from its sequence-level
 * merge sort) or `bad <what>`.
 */
static void bigsort(struct cstl_slist * l, size_t n, long nkeys, unsigned long seed)
{
    struct elem * big = calloc(n + 2, sizeof(*big));
    unsigned char * seen = calloc(n + 2, 1);
    unsigned long x = seed % 2147483648UL;
    unsigned long long ck = 7;
    const unsigned long long P = 2147483647ULL;
    const char * what = NULL;
    const struct elem * e, * last = NULL;
    size_t i, cnt = 0;
    const int second = (l == &lists[2]);

    if (big == NULL || seen == NULL) {
        h_stop("bad-op");
        return;
    }
    for (i = 0; i < n; i++) {
        x = (x * 1103515245UL + 12345UL) % 2147483648UL;
        big[i].key = (int)((x / 256) % (unsigned long)nkeys);
        cstl_slist_push_back(l, &big[i]);
    }
    cstl_slist_sort(l, cmp_elem, H_PRIV(1));
    if (cstl_slist_size(l) != n) {
        what = "size-changed";
    }
    for (e = cstl_slist_front(l); e != NULL && what == NULL; ) {
        const struct cstl_slist_node * nx;
        size_t idx;
        if (e < big || e >= big + n || ((const char *)e - (const char *)big) % sizeof(*big) != 0) {
            what = "foreign-element";
            break;
        }
        idx = (size_t)(e - big);
        if (seen[idx]) {
            what = "element-twice";
            break;
        }
        seen[idx] = 1;
        if (last != NULL && last->key > e->key) {
            what = "not-sorted";
            break;
        }
        ck = (ck * 1000003ULL + (idx + 1) % P) % P;
        last = e;
        if (++cnt > n) {
            what = "too-many-elements";
            break;
        }
        nx = second ? e->n2.n : e->n.n;
        e = nx == NULL ? NULL : (const struct elem *)((const char *)nx - (second ? offsetof(struct elem, n2) : offsetof(struct elem, n)));
    }
    if (what == NULL && cnt != n) {
        what = "elements-lost";
    }
    if (what == NULL && n > 0 && cstl_slist_back(l) != last) {
        what = "back-is-not-the-last-element";
    }
    if (what == NULL) {
        /* push_back must append after the true last element */
        big[n].key = 2147483647;
        cstl_slist_push_back(l, &big[n]);
        if (cstl_slist_back(l) != &big[n] || cstl_slist_size(l) != n + 1
            || (last != NULL && (second ? last->n2.n != &big[n].n2 : last->n.n != &big[n].n))) {
            what = "push_back-after-sort-not-appended-after-the-last";
        }
    }
    if (what == NULL) {
        for (i = 0; i < n + 1; i++) {
            if (cstl_slist_pop_front(l) == NULL) {
                what = "pop_front-null-before-empty";
                break;
            }
        }
        if (what == NULL && (cstl_slist_pop_front(l) != NULL || cstl_slist_size(l) != 0)) {
            what = "not-empty-after-draining";
        }
    }
    if (what != NULL) {
        outf("bad %s", what);
        cstl_slist_init(l, second ? offsetof(struct elem, n2) : offsetof(struct elem, n));
    } else {
        outf("ok ck=%llu", ck);
    }
    free(seen);
    free(big);
}

static void op(int argc, char ** argv)
{
    const char * o = argv[0];
    struct cstl_slist * l = argc > 1 ? list_of(argv[1]) : NULL;

    if (!strcmp(o, "keys")) {
        int i;
        for (i = 1; i < argc && i - 1 < NE; i++) {
            pool[i - 1].key = (int)h_int(argv[i]);
        }
        outf("ok");
    } else if (!strcmp(o, "pushf") && argc == 3 && l && elem_of(argv[2])) {
        cstl_slist_push_front(l, elem_of(argv[2]));
        outf("ok");
    } else if (!strcmp(o, "pushb") && argc == 3 && l && elem_of(argv[2])) {
        cstl_slist_push_back(l, elem_of(argv[2]));
        outf("ok");
    } else if (!strcmp(o, "insa") && argc == 4 && l && elem_of(argv[2]) && elem_of(argv[3])) {
        cstl_slist_insert_after(l, elem_of(argv[2]), elem_of(argv[3]));
        outf("ok");
    } else if (!strcmp(o, "eraa") && argc == 3 && l && elem_of(argv[2])) {
        outf("%ld", id_of_elem(cstl_slist_erase_after(l, elem_of(argv[2]))));
    } else if (!strcmp(o, "popf") && argc == 2 && l) {
        outf("%ld", id_of_elem(cstl_slist_pop_front(l)));
    } else if (!strcmp(o, "front") && argc == 2 && l) {
        outf("%ld", id_of_elem(cstl_slist_front(l)));
    } else if (!strcmp(o, "back") && argc == 2 && l) {
        outf("%ld", id_of_elem(cstl_slist_back(l)));
    } else if (!strcmp(o, "rev") && argc == 2 && l) {
        cstl_slist_reverse(l);
        outf("ok");
    } else if (!strcmp(o, "sort") && argc == 2 && l) {
        cstl_slist_sort(l, cmp_elem, H_PRIV(1));
        outf("ok");
    } else if (!strcmp(o, "bigsort") && argc == 5 && l && cstl_slist_size(l) == 0
               && h_size(argv[2]) <= 2000000 && h_int(argv[3]) >= 1) {
        bigsort(l, h_size(argv[2]), (long)h_int(argv[3]), (unsigned long)h_size(argv[4]));
    } else if (!strcmp(o, "concat") && argc == 3 && l && list_of(argv[2]) && l != list_of(argv[2])) {
        cstl_slist_concat(l, list_of(argv[2]));
        outf("ok");
    } else if (!strcmp(o, "swap") && argc == 3 && l && list_of(argv[2]) && l != list_of(argv[2])) {
        cstl_slist_swap(l, list_of(argv[2]));
        outf("ok");
    } else if (!strcmp(o, "foreach") && argc == 3 && l) {
        int r;
        nvisited = 0;
        stop_at = (int)h_int(argv[2]);
        r = cstl_slist_foreach(l, visit, H_PRIV(2));
        outf("%d ", r);
        print_visited();
    } else if (!strcmp(o, "foreachmv") && argc == 4 && l && list_of(argv[3]) && list_of(argv[3]) != l
               && list_of(argv[3])->off == l->off) {
        int r;
        nvisited = 0;
        stop_at = (int)h_int(argv[2]);
        visit_list = l;
        move_to = list_of(argv[3]);
        r = cstl_slist_foreach(l, visit, H_PRIV(2));
        move_to = NULL;
        outf("%d ", r);
        print_visited();
    } else if (!strcmp(o, "clear") && argc == 2 && l) {
        nvisited = 0;
        cstl_slist_clear(l, clr);
        print_visited();
        {
            /* nothing may be written to an element after its callback */
            int i, okp = 1;
            for (i = 0; i < nvisited && i < NE; i++) {
                long id = visited[i];
                if (id >= 10 && id < 10 + NE && (pool[id - 10].n.n != &poisonv[id - 10] || pool[id - 10].n2.n != &poisonv[id - 10])) {
                    okp = 0;
                }
            }
            outf(" p=%d", okp);
        }
    } else {
        h_stop("bad-op");
        return;
    }
    dump();
}

int main(void)
{
    static const struct h_area a = { reset, op };
    return h_main(&a);
}
