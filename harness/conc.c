/*
 * Harness for C06: the real src/memory.c, compiled UNMODIFIED against the
 * shadow <stdatomic.h>/<sched.h>/<stdlib.h> of harness/shadow, run by a
 * deterministic scheduler.  Same line protocol as lean/Cstl/Conc/Main.lean.
 *
 * Every "thread" is a ucontext coroutine.  A scheduling point is reached
 * immediately BEFORE each atomic operation of the library, before the clear
 * callback touches the managed memory, before each free() of the library and
 * before a use of the managed memory.  `sched <tid>` resumes thread <tid>: it
 * performs the pending operation and runs on (thread-local code only) to its
 * next scheduling point.  Printed per step: thread, operation, object, value
 * returned, and the clear / free(memory) / free(bookkeeping) event counts.
 * AddressSanitizer turns any access to a freed block into `STOP asan`.
 */
#define VERIF_CONC_NO_SHADOW
#include "common.h"
#include "cstl/memory.h"

#include <stdatomic.h>      /* the shadow header: types + conc_* prototypes */
#include <stdio.h>
#include <stdlib.h>
#include <string.h>
#include <ucontext.h>

#if defined(__SANITIZE_ADDRESS__)
#include <sanitizer/common_interface_defs.h>
#define FIBER_START(save, bottom, size) __sanitizer_start_switch_fiber((save), (bottom), (size))
#define FIBER_FINISH(save, bo, so) __sanitizer_finish_switch_fiber((save), (bo), (so))
#else
#define FIBER_START(save, bottom, size) ((void)0)
#define FIBER_FINISH(save, bo, so) ((void)0)
#endif

#define MAXT 8
#define MAXOBJ 8
#define MAXOPS 32
#define STACKSZ (256 * 1024)
#define MEMSZ 32

enum opk { O_SHARE, O_RESET, O_WFROM, O_LOCK, O_WRESET, O_USE };

struct op { enum opk k; int a, b; };

struct thr {
    ucontext_t ctx;
    int ns, nw, nops;
    cstl_shared_ptr_t s[MAXOBJ];
    cstl_weak_ptr_t w[MAXOBJ];
    char s0[MAXOBJ], w0[MAXOBJ];
    struct op ops[MAXOPS];
    int started, finished;
    char last[96];          /* operation performed by the last step */
    size_t lastval;
    char done[256];         /* completion records since the last printed line */
    size_t donelen;
};

static struct thr T[MAXT];
static char stacks[MAXT][STACKSZ] __attribute__((aligned(64)));
static ucontext_t mainctx;
static const void * main_bottom;
static size_t main_size;
static int nthr, cur = -1, started;
static int in_setup, setup_mallocs;
static void * data_ptr, * mem_ptr;
static unsigned long n_clear, n_freemem, n_freedata, n_yield_calls;

/* ------------------------------------------------------------------ */
/* context switching */

static void to_main(int finishing)
{
    void * fake = NULL;
    struct thr * t = &T[cur];
    FIBER_START(finishing ? NULL : &fake, main_bottom, main_size);
    swapcontext(&t->ctx, &mainctx);
    FIBER_FINISH(fake, NULL, NULL);
}

static void to_thread(int t)
{
    void * fake = NULL;
    cur = t;
    FIBER_START(&fake, stacks[t], STACKSZ);
    swapcontext(&mainctx, &T[t].ctx);
    FIBER_FINISH(fake, NULL, NULL);
    cur = -1;
}

/* scheduling point: returns when the scheduler picks this thread again */
static void yield_point(void)
{
    if (cur >= 0) {
        to_main(0);
    }
}

static void performed(const char * what, size_t val)
{
    if (cur >= 0) {
        snprintf(T[cur].last, sizeof(T[cur].last), "%s", what);
        T[cur].lastval = val;
    }
}

/* ------------------------------------------------------------------ */
/* what the shadow headers call */

static const char * objname(const char * what, char * buf, size_t n)
{
    size_t i, k = 0;
    if (strstr(what, "hard") != NULL) return "hard";
    if (strstr(what, "soft") != NULL) return "soft";
    if (strstr(what, "lock") != NULL) return "lock";
    for (i = 0; what[i] != 0 && k + 1 < n; i++) {
        if (what[i] != ' ') {
            buf[k++] = what[i];
        }
    }
    buf[k] = 0;
    return buf;
}

/* order of the next atomic operation (set by the _explicit forms of the shadow header) */
static memory_order next_order = memory_order_seq_cst;

void conc_order(memory_order mo)
{
    next_order = mo;
}

static void performed_on(const char * opn, const char * what, size_t val)
{
    static const char * const names[] = { "relaxed", "consume", "acquire", "release", "acq_rel", "seq_cst" };
    char b[64], l[96];
    if (next_order != memory_order_seq_cst) {
        snprintf(l, sizeof(l), "%s[%s] %s", opn, names[next_order], objname(what, b, sizeof(b)));
    } else {
        snprintf(l, sizeof(l), "%s %s", opn, objname(what, b, sizeof(b)));
    }
    next_order = memory_order_seq_cst;
    performed(l, val);
}

size_t conc_fetch_add(size_t * obj, size_t v, const char * what, int line)
{
    size_t old;
    (void)line;
    yield_point();
    old = *obj;
    *obj = old + v;
    performed_on("fetch_add", what, old);
    return old;
}

size_t conc_fetch_sub(size_t * obj, size_t v, const char * what, int line)
{
    size_t old;
    (void)line;
    yield_point();
    old = *obj;
    *obj = old - v;
    performed_on("fetch_sub", what, old);
    return old;
}

size_t conc_load(const size_t * obj, const char * what, int line)
{
    size_t old;
    (void)line;
    yield_point();
    old = *obj;
    performed_on("load", what, old);
    return old;
}

void conc_store(size_t * obj, size_t v, const char * what, int line)
{
    (void)line;
    yield_point();
    *obj = v;
    performed_on("store", what, 0);
}

bool conc_tas(atomic_flag * obj, const char * what, int line)
{
    unsigned char old;
    (void)line;
    yield_point();
    old = obj->v;
    obj->v = 1;
    performed_on("test_and_set", what, old);
    return old != 0;
}

void conc_flag_clear(atomic_flag * obj, const char * what, int line)
{
    (void)line;
    yield_point();
    obj->v = 0;
    performed_on("flag_clear", what, 0);
}

int conc_sched_yield(int line)
{
    (void)line;
    n_yield_calls++;
    return 0;
}

void * conc_malloc(size_t n)
{
    void * p = malloc(n);
    if (in_setup) {
        setup_mallocs++;
        if (setup_mallocs == 1) {
            data_ptr = p;
        } else if (setup_mallocs == 2) {
            mem_ptr = p;
        }
    }
    return p;
}

void conc_free(void * p)
{
    if (p == NULL) {
        return;
    }
    if (p == mem_ptr || p == data_ptr) {
        yield_point();
        if (p == mem_ptr) {
            n_freemem++;
            performed("free mem", 0);
        } else {
            n_freedata++;
            performed("free data", 0);
        }
    }
    free(p);        /* ASan reports a second free of the same block */
}

/* `cbreent` (before `start`): the clear callback calls back into the library - it tries to
 * lock a weak pointer to the allocation that is being torn down (the shared-from-this idiom:
 * the object holds a weak reference to itself).  The lock must fail promptly. */
static int cb_reent, cb_owner;
static cstl_weak_ptr_t cbw;

static void clear_cb(void * p, void * priv)
{
    (void)priv;
    yield_point();
    n_clear++;
    performed("clear mem", 0);
    memset(p, 0x5a, MEMSZ);     /* ASan reports if the memory is already freed */
    if (cb_reent) {
        cstl_shared_ptr_t tmp;
        cstl_shared_ptr_init(&tmp);
        cstl_weak_ptr_lock(&cbw, &tmp);
        if (cstl_shared_ptr_get(&tmp) != NULL) {
            cb_owner = 1;       /* an owner of memory that is being cleared */
        }
        cstl_shared_ptr_reset(&tmp);
    }
}

/* ------------------------------------------------------------------ */
/* thread bodies */

static void run_op(struct thr * t, const struct op * o)
{
    switch (o->k) {
    case O_SHARE:
        if (o->a < t->ns && o->b < t->ns) {
            cstl_shared_ptr_share(&t->s[o->a], &t->s[o->b]);
        }
        break;
    case O_RESET:
        if (o->a < t->ns) {
            cstl_shared_ptr_reset(&t->s[o->a]);
        }
        break;
    case O_WFROM:
        if (o->a < t->ns && o->b < t->nw) {
            cstl_weak_ptr_from(&t->w[o->b], &t->s[o->a]);
        }
        break;
    case O_LOCK:
        if (o->a < t->nw && o->b < t->ns) {
            cstl_weak_ptr_lock(&t->w[o->a], &t->s[o->b]);
        }
        break;
    case O_WRESET:
        if (o->a < t->nw) {
            cstl_weak_ptr_reset(&t->w[o->a]);
        }
        break;
    case O_USE:
        /* peek at the thread's own pointer object: touching the block is the step */
        if (o->a < t->ns && t->s[o->a].data.ptr != NULL) {
            volatile unsigned char * p;
            yield_point();
            p = cstl_shared_ptr_get(&t->s[o->a]);
            performed("use mem", (n_clear == 0 && n_freemem == 0) ? 1 : 0);
            p[0] = (unsigned char)(p[0] + 1);
        }
        break;
    }
}

/* is the operation's target object non-NULL? (peeks at the thread's own object) */
static int target_set(const struct thr * t, const struct op * o)
{
    switch (o->k) {
    case O_SHARE:
    case O_LOCK:
        return o->b < t->ns && t->s[o->b].data.ptr != NULL;
    case O_RESET:
    case O_USE:
        return o->a < t->ns && t->s[o->a].data.ptr != NULL;
    case O_WFROM:
        return o->b < t->nw && t->w[o->b].data.ptr != NULL;
    case O_WRESET:
        return o->a < t->nw && t->w[o->a].data.ptr != NULL;
    }
    return 0;
}

static void thread_main(void)
{
    struct thr * t;
    int i;
    FIBER_FINISH(NULL, &main_bottom, &main_size);
    t = &T[cur];
    for (i = 0; i < t->nops; i++) {
        int n;
        run_op(t, &t->ops[i]);
        n = snprintf(t->done + t->donelen, sizeof(t->done) - t->donelen, "%s%d.%d:%d",
                     t->donelen ? "," : "", cur, i, target_set(t, &t->ops[i]));
        if (n > 0 && t->donelen + (size_t)n < sizeof(t->done)) {
            t->donelen += (size_t)n;
        }
    }
    t->finished = 1;
    to_main(1);
    abort();    /* not reached */
}

/* ------------------------------------------------------------------ */
/* line protocol */

static void a_reset(void)
{
    memset(T, 0, sizeof(T));
    nthr = 0;
    cur = -1;
    started = 0;
    in_setup = 0;
    setup_mallocs = 0;
    data_ptr = mem_ptr = NULL;
    n_clear = n_freemem = n_freedata = n_yield_calls = 0;
    cb_reent = cb_owner = 0;
    cstl_weak_ptr_init(&cbw);
}

static int parse_op(const char * w, struct op * o)
{
    char name[16];
    int a = -1, b = -1, n;
    n = sscanf(w, "%15[a-z]:%d:%d", name, &a, &b);
    if (n < 2 || a < 0) {
        return 0;
    }
    o->a = a;
    o->b = b;
    if (strcmp(name, "share") == 0 && n == 3) { o->k = O_SHARE; return 1; }
    if (strcmp(name, "reset") == 0 && n == 2) { o->k = O_RESET; return 1; }
    if (strcmp(name, "wfrom") == 0 && n == 3) { o->k = O_WFROM; return 1; }
    if (strcmp(name, "lock") == 0 && n == 3) { o->k = O_LOCK; return 1; }
    if (strcmp(name, "wreset") == 0 && n == 2) { o->k = O_WRESET; return 1; }
    if (strcmp(name, "use") == 0 && n == 2) { o->k = O_USE; return 1; }
    return 0;
}

static int parse_bits(const char * w, char * dst)
{
    int n = 0;
    if (strcmp(w, "-") == 0) {
        return 0;
    }
    for (; *w; w++) {
        if ((*w != '0' && *w != '1') || n >= MAXOBJ) {
            return -1;
        }
        dst[n++] = (char)(*w == '1');
    }
    return n;
}

static void out_bits(const char * v, int n)
{
    int i;
    if (n == 0) {
        outf("-");
    }
    for (i = 0; i < n; i++) {
        outf("%c", v[i] ? '1' : '0');
    }
}

static void out_events(void)
{
    char fin[MAXT];
    int i;
    outf(" | clr=%lu fm=%lu fd=%lu | fin=", n_clear, n_freemem, n_freedata);
    for (i = 0; i < nthr; i++) {
        fin[i] = (char)T[i].finished;
    }
    out_bits(fin, nthr);
}

static void out_done(int from, int to)
{
    int t, any = 0;
    outf(" | done=");
    for (t = from; t < to; t++) {
        if (T[t].donelen) {
            outf("%s%s", any ? "," : "", T[t].done);
            any = 1;
            T[t].donelen = 0;
            T[t].done[0] = 0;
        }
    }
    if (!any) {
        outf("-");
    }
}

/* build the initial reference configuration sequentially, like a program
 * would before it starts its threads */
static void setup(void)
{
    cstl_shared_ptr_t first;
    int t, i;
    cstl_shared_ptr_init(&first);
    in_setup = 1;
    cstl_shared_ptr_alloc(&first, MEMSZ, clear_cb);
    memset(cstl_shared_ptr_get(&first), 0, MEMSZ);
    for (t = 0; t < nthr; t++) {
        for (i = 0; i < T[t].ns; i++) {
            cstl_shared_ptr_init(&T[t].s[i]);
            if (T[t].s0[i]) {
                cstl_shared_ptr_share(&first, &T[t].s[i]);
            }
        }
        for (i = 0; i < T[t].nw; i++) {
            cstl_weak_ptr_init(&T[t].w[i]);
            if (T[t].w0[i]) {
                cstl_weak_ptr_from(&T[t].w[i], &first);
            }
        }
    }
    if (cb_reent) {
        cstl_weak_ptr_from(&cbw, &first);
    }
    cstl_shared_ptr_reset(&first);
    in_setup = 0;
}

static void a_op(int argc, char ** argv)
{
    if (strcmp(argv[0], "thr") == 0 && argc >= 3 && !started && nthr < MAXT) {
        struct thr * t = &T[nthr];
        int i;
        t->ns = parse_bits(argv[1], t->s0);
        t->nw = parse_bits(argv[2], t->w0);
        if (t->ns < 0 || t->nw < 0 || argc - 3 > MAXOPS) {
            h_stop("bad-op");
            return;
        }
        for (i = 3; i < argc; i++) {
            if (!parse_op(argv[i], &t->ops[i - 3])) {
                h_stop("bad-op");
                return;
            }
        }
        t->nops = argc - 3;
        nthr++;
        outf("ok");
        out_end();
    } else if (strcmp(argv[0], "cbreent") == 0 && argc == 1 && !started) {
        cb_reent = 1;
        outf("ok");
        out_end();
    } else if (strcmp(argv[0], "start") == 0 && argc == 1 && !started) {
        int t;
        setup();
        started = 1;
        for (t = 0; t < nthr; t++) {
            getcontext(&T[t].ctx);
            T[t].ctx.uc_stack.ss_sp = stacks[t];
            T[t].ctx.uc_stack.ss_size = STACKSZ;
            T[t].ctx.uc_link = NULL;
            makecontext(&T[t].ctx, thread_main, 0);
            to_thread(t);       /* runs to its first scheduling point */
        }
        outf("ok");
        out_events();
        out_done(0, nthr);
        out_end();
    } else if (strcmp(argv[0], "sched") == 0 && argc == 2 && started) {
        int t = atoi(argv[1]);
        if (t < 0 || t >= nthr) {
            h_stop("bad-op");
            return;
        }
        if (T[t].finished) {
            outf("%d none", t);
        } else {
            T[t].last[0] = 0;
            to_thread(t);
            outf("%d %s %zu", t, T[t].last[0] ? T[t].last : "?", T[t].lastval);
        }
        out_events();
        out_done(t, t + 1);
        out_end();
    } else if (strcmp(argv[0], "end") == 0 && argc == 1 && started) {
        int t, i;
        if (cb_reent) {
            cstl_weak_ptr_reset(&cbw);      /* the callback's own weak reference goes last */
        }
        outf(cb_owner ? "end cbowner" : "end");
        for (t = 0; t < nthr; t++) {
            char v[MAXOBJ];
            outf(" ");
            for (i = 0; i < T[t].ns; i++) {
                v[i] = (char)(T[t].s[i].data.ptr != NULL);
            }
            out_bits(v, T[t].ns);
            outf("/");
            for (i = 0; i < T[t].nw; i++) {
                v[i] = (char)(T[t].w[i].data.ptr != NULL);
            }
            out_bits(v, T[t].nw);
        }
        out_events();
        out_end();
    } else {
        h_stop("bad-op");
    }
}

int main(void)
{
    static const struct h_area a = { a_reset, a_op };
    return h_main(&a);
}
