/*
 * Supporting evidence for C06 (thorough tier, not a deciding element): the
 * scenarios of the schedule exploration run on REAL threads against the real
 * src/memory.c with the real <stdatomic.h>, built with -fsanitize=thread.
 * A data race, a use of freed memory or a double free would be reported by
 * ThreadSanitizer on stderr; the clear-callback count is checked here.
 *
 * stdin:  thr <sh bits|-> <wk bits|-> <op> ...     (same as harness/conc.c)
 *         run <iterations>                          run the declared scenario, forget it
 * stdout: one line per `run`: "run threads=<n> iters=<k> clears_ok=<k'> leftovers=<m>"
 */
#define _GNU_SOURCE
#include "cstl/memory.h"

#include <pthread.h>
#include <stdatomic.h>
#include <stdio.h>
#include <stdlib.h>
#include <string.h>

#define MAXT 8
#define MAXOBJ 8
#define MAXOPS 32
#define MEMSZ 32

enum opk { O_SHARE, O_RESET, O_WFROM, O_LOCK, O_WRESET, O_USE };
struct op { enum opk k; int a, b; };
struct thr {
    int ns, nw, nops;
    cstl_shared_ptr_t s[MAXOBJ];
    cstl_weak_ptr_t w[MAXOBJ];
    char s0[MAXOBJ], w0[MAXOBJ];
    struct op ops[MAXOPS];
    unsigned sink;
};

static struct thr T[MAXT];
static int nthr;
static atomic_int n_clear;
static pthread_barrier_t bar;

static void clear_cb(void * p, void * priv)
{
    (void)priv;
    atomic_fetch_add(&n_clear, 1);
    memset(p, 0x5a, MEMSZ);
}

static void * body(void * arg)
{
    struct thr * t = arg;
    int i;
    pthread_barrier_wait(&bar);
    for (i = 0; i < t->nops; i++) {
        const struct op * o = &t->ops[i];
        switch (o->k) {
        case O_SHARE:
            if (o->a < t->ns && o->b < t->ns) cstl_shared_ptr_share(&t->s[o->a], &t->s[o->b]);
            break;
        case O_RESET:
            if (o->a < t->ns) cstl_shared_ptr_reset(&t->s[o->a]);
            break;
        case O_WFROM:
            if (o->a < t->ns && o->b < t->nw) cstl_weak_ptr_from(&t->w[o->b], &t->s[o->a]);
            break;
        case O_LOCK:
            if (o->a < t->nw && o->b < t->ns) cstl_weak_ptr_lock(&t->w[o->a], &t->s[o->b]);
            break;
        case O_WRESET:
            if (o->a < t->nw) cstl_weak_ptr_reset(&t->w[o->a]);
            break;
        case O_USE:
            if (o->a < t->ns) {
                const volatile unsigned char * p = cstl_shared_ptr_get_const(&t->s[o->a]);
                if (p != NULL) {
                    t->sink += p[0];    /* a read: concurrent owners may read concurrently */
                }
            }
            break;
        }
    }
    return NULL;
}

static int parse_op(const char * w, struct op * o)
{
    char name[16];
    int a = -1, b = -1, n;
    n = sscanf(w, "%15[a-z]:%d:%d", name, &a, &b);
    if (n < 2 || a < 0) return 0;
    o->a = a; o->b = b;
    if (!strcmp(name, "share") && n == 3) { o->k = O_SHARE; return 1; }
    if (!strcmp(name, "reset") && n == 2) { o->k = O_RESET; return 1; }
    if (!strcmp(name, "wfrom") && n == 3) { o->k = O_WFROM; return 1; }
    if (!strcmp(name, "lock") && n == 3) { o->k = O_LOCK; return 1; }
    if (!strcmp(name, "wreset") && n == 2) { o->k = O_WRESET; return 1; }
    if (!strcmp(name, "use") && n == 2) { o->k = O_USE; return 1; }
    return 0;
}

static int parse_bits(const char * w, char * dst)
{
    int n = 0;
    if (!strcmp(w, "-")) return 0;
    for (; *w; w++) {
        if ((*w != '0' && *w != '1') || n >= MAXOBJ) return -1;
        dst[n++] = (char)(*w == '1');
    }
    return n;
}

static void run(int iters)
{
    int it, ok = 0, left = 0;
    for (it = 0; it < iters; it++) {
        cstl_shared_ptr_t first;
        pthread_t th[MAXT];
        int t, i, owners = 0;
        atomic_store(&n_clear, 0);
        cstl_shared_ptr_init(&first);
        cstl_shared_ptr_alloc(&first, MEMSZ, clear_cb);
        memset(cstl_shared_ptr_get(&first), 0, MEMSZ);
        for (t = 0; t < nthr; t++) {
            for (i = 0; i < T[t].ns; i++) {
                cstl_shared_ptr_init(&T[t].s[i]);
                if (T[t].s0[i]) cstl_shared_ptr_share(&first, &T[t].s[i]);
            }
            for (i = 0; i < T[t].nw; i++) {
                cstl_weak_ptr_init(&T[t].w[i]);
                if (T[t].w0[i]) cstl_weak_ptr_from(&T[t].w[i], &first);
            }
        }
        cstl_shared_ptr_reset(&first);
        pthread_barrier_init(&bar, NULL, (unsigned)nthr);
        for (t = 0; t < nthr; t++) pthread_create(&th[t], NULL, body, &T[t]);
        for (t = 0; t < nthr; t++) pthread_join(th[t], NULL);
        pthread_barrier_destroy(&bar);
        for (t = 0; t < nthr; t++) {
            for (i = 0; i < T[t].ns; i++) {
                if (T[t].s[i].data.ptr != NULL) owners++;
            }
        }
        if (atomic_load(&n_clear) == (owners ? 0 : 1)) ok++;
        /* let go of whatever the programs left */
        for (t = 0; t < nthr; t++) {
            for (i = 0; i < T[t].ns; i++) {
                if (T[t].s[i].data.ptr != NULL) left++;
                cstl_shared_ptr_reset(&T[t].s[i]);
            }
            for (i = 0; i < T[t].nw; i++) {
                if (T[t].w[i].data.ptr != NULL) left++;
                cstl_weak_ptr_reset(&T[t].w[i]);
            }
        }
        if (atomic_load(&n_clear) != 1) ok = -1000000;
    }
    printf("run threads=%d iters=%d clears_ok=%d leftovers=%d\n", nthr, iters, ok, left);
    fflush(stdout);
}

int main(void)
{
    char line[1024];
    while (fgets(line, sizeof(line), stdin) != NULL) {
        char * argv[64];
        int argc = 0;
        char * save = NULL, * tok = strtok_r(line, " \t\r\n", &save);
        while (tok != NULL && argc < 64) { argv[argc++] = tok; tok = strtok_r(NULL, " \t\r\n", &save); }
        if (argc == 0) continue;
        if (!strcmp(argv[0], "thr") && argc >= 3 && nthr < MAXT) {
            struct thr * t = &T[nthr];
            int i;
            memset(t, 0, sizeof(*t));
            t->ns = parse_bits(argv[1], t->s0);
            t->nw = parse_bits(argv[2], t->w0);
            for (i = 3; i < argc && i - 3 < MAXOPS; i++) {
                if (!parse_op(argv[i], &t->ops[i - 3])) return 2;
            }
            t->nops = argc - 3;
            if (t->ns < 0 || t->nw < 0) return 2;
            nthr++;
        } else if (!strcmp(argv[0], "run") && argc == 2) {
            run(atoi(argv[1]));
            nthr = 0;
        } else {
            return 2;
        }
    }
    return 0;
}
