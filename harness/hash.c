/*
 * Harness for src/hash.c: same line protocol and state dump as
 * lean/Cstl/Hash/Main.lean.  Two tables (0, 1); elements are pool entries
 * 1..NE (id 0 = NULL) with the hash node at a non-zero offset.  An element
 * handed to the clear callback, or erased by the foreach callback, is
 * "freed": its memory is poisoned for AddressSanitizer until the script names
 * it again in `ins` / `erase`, so any later access by the library is a stop.
 *
 * Hash functions by id: 0 cstl_hash_mul (library), 1 k mod m, 2 (k/2) mod m,
 * 3 constant 0, 4 m, 5 m+1, 6 SIZE_MAX, 7/8/9 = 4/5/6 for keys with
 * k mod 4 == 3 and k mod m otherwise.  Functions 1..9 log (id, k, m).
 */
#include "common.h"
#include "cstl/hash.h"

#include <stdio.h>
#include <stdlib.h>
#include <string.h>
#include <sanitizer/asan_interface.h>

#define NT 2
#define NE 256
#define MAXLOG 8192
#define MAXSNAP 4096

struct elem {
    long pad;
    struct cstl_hash_node hn;
};

/* table 1 is initialised by the header's compile-time initializer and never by cstl_hash_init */
static struct cstl_hash tab[NT] = { [1] = CSTL_HASH_INITIALIZER(struct elem, hn) };
static struct elem pool[NE + 1];

/* ---- hash functions with a call log ---- */

static struct { int f; size_t k, m; } hlog[MAXLOG];
static int nhlog;

static void logcall(int f, size_t k, size_t m)
{
    if (nhlog < MAXLOG) {
        hlog[nhlog].f = f;
        hlog[nhlog].k = k;
        hlog[nhlog].m = m;
    }
    nhlog++;
}

static size_t modm(size_t k, size_t m) { return m ? k % m : 0; }

static size_t h1(size_t k, size_t m) { logcall(1, k, m); return modm(k, m); }
static size_t h2(size_t k, size_t m) { logcall(2, k, m); return modm(k / 2, m); }
static size_t h3(size_t k, size_t m) { logcall(3, k, m); return 0; }
static size_t h4(size_t k, size_t m) { logcall(4, k, m); return m; }
static size_t h5(size_t k, size_t m) { logcall(5, k, m); return m + 1; }
static size_t h6(size_t k, size_t m) { logcall(6, k, m); return SIZE_MAX; }
static size_t h7(size_t k, size_t m) { logcall(7, k, m); return k % 4 == 3 ? m : modm(k, m); }
static size_t h8(size_t k, size_t m) { logcall(8, k, m); return k % 4 == 3 ? m + 1 : modm(k, m); }
static size_t h9(size_t k, size_t m) { logcall(9, k, m); return k % 4 == 3 ? SIZE_MAX : modm(k, m); }

/* functions whose misbehaviour depends on the table size they are asked about: fine for the
 * size they were installed with, out of range after a resize that keeps the function */
static size_t h10(size_t k, size_t m) { logcall(10, k, m); (void)m; return k % 8; }
static size_t h11(size_t k, size_t m) { logcall(11, k, m); return m >= 4 ? modm(k, m) : (k % 2 ? m : 0); }
static size_t h12(size_t k, size_t m) { logcall(12, k, m); return m <= 4 ? modm(k, m) : (k % 4 == 3 ? m + 1 : modm(k, m)); }
/* out of range by a multiple of 2^32: in range again after a truncation to 32 bits */
static size_t h13(size_t k, size_t m) { logcall(13, k, m); return k % 4 == 3 ? ((size_t)1 << 32) + modm(k, m) : modm(k, m); }
static size_t h14(size_t k, size_t m) { logcall(14, k, m); return ((size_t)1 << 63) + modm(k, m); }
static cstl_hash_func_t * const fns[] = { cstl_hash_mul, h1, h2, h3, h4, h5, h6, h7, h8, h9, h10, h11, h12, h13, h14 };
#define NFN ((int)(sizeof(fns) / sizeof(fns[0])))

static int fn_id(cstl_hash_func_t * f)
{
    int i;
    for (i = 0; i < NFN; i++) {
        if (fns[i] == f) {
            return i;
        }
    }
    return -1;
}

/* ---- canonical names ---- */

static long id_of_node(const struct cstl_hash_node * n)
{
    size_t off, i;
    if (n == NULL) {
        return 0;
    }
    if ((const char *)n < (const char *)&pool[1].hn || (const char *)n > (const char *)&pool[NE].hn) {
        return -1;
    }
    off = (size_t)((const char *)n - (const char *)&pool[0].hn);
    if (off % sizeof(struct elem) != 0) {
        return -1;
    }
    i = off / sizeof(struct elem);
    return (long)i;
}

static long id_of_elem(const void * e)
{
    if (e == NULL) {
        return 0;
    }
    return id_of_node(&((const struct elem *)e)->hn);
}

static struct elem * elem_of(const char * s)
{
    long id = atol(s);
    if (id < 1 || id > NE) {
        return NULL;
    }
    return &pool[id];
}

/* ---- dump ---- */

static void dump_table(const struct cstl_hash * h)
{
    const int pend = h->bucket.rh.hash != NULL;
    size_t lim = h->bucket.count, n = h->bucket.count, i;

    if (pend) {
        n = h->bucket.rh.count;
        if (h->bucket.rh.count > lim) {
            lim = h->bucket.rh.count;
        }
    }
    if (lim > h->bucket.capacity) {
        lim = h->bucket.capacity;
    }
    if ((h->bucket.at == NULL) != (h->bucket.capacity == 0)) {
        outf("at=bad ");
        lim = 0;
    }

    outf("n=%zu cap=%zu", h->bucket.count, h->bucket.capacity);
    if (h->bucket.hash == NULL) {
        outf(" h=-");
    } else {
        outf(" h=%d", fn_id(h->bucket.hash));
    }
    outf(" c=%d", h->bucket.cst ? 1 : 0);
    if (pend) {
        outf(" rh=%d:%zu:%zu", fn_id(h->bucket.rh.hash), h->bucket.rh.count, h->bucket.rh.clean);
    } else {
        outf(" rh=-");
    }
    outf(" sz=%zu", cstl_hash_size(h));
    if (n == 0) {
        outf(" ld=-");
    } else {
        float f = cstl_hash_load(h);
        uint32_t u;
        memcpy(&u, &f, sizeof(u));
        outf(" ld=%08x", (unsigned)u);
    }
    outf(" [");
    for (i = 0; i < lim; i++) {
        const struct cstl_hash_node * nd = h->bucket.at[i].n;
        int k = 0;
        outf(i ? ",%d:" : "%d:", h->bucket.at[i].cst ? 1 : 0);
        while (nd != NULL) {
            long id = id_of_node(nd);
            if (id < 1 || k > NE) {
                outf("links=bad@%zu", i);
                break;
            }
            outf(k ? ".%ld/%zu" : "%ld/%zu", id, nd->key);
            k++;
            nd = nd->next;
        }
    }
    outf("]");
}

/* ---- relocation count: dirty buckets of the table before the operation ---- */

static unsigned char was_dirty[MAXSNAP];
static size_t snap_n;
static int snap_cst;

static void snapshot(const struct cstl_hash * h)
{
    size_t i;
    snap_n = 0;
    snap_cst = h->bucket.cst;
    if (h == NULL || h->bucket.rh.hash == NULL || h->bucket.at == NULL) {
        return;
    }
    snap_n = h->bucket.count;
    if (snap_n > h->bucket.capacity) {
        snap_n = h->bucket.capacity;
    }
    if (snap_n > MAXSNAP) {
        snap_n = MAXSNAP;
    }
    for (i = 0; i < snap_n; i++) {
        was_dirty[i] = h->bucket.at[i].cst != h->bucket.cst;
    }
}

static size_t relocated(const struct cstl_hash * h)
{
    size_t i, r = 0;
    /* the table bit flips only in cstl_hash_resize, after it has forced the
     * pending rehash to finish (it may re-initialise buckets afterwards) */
    const int flipped = (h->bucket.cst ? 1 : 0) != (snap_cst ? 1 : 0);
    for (i = 0; i < snap_n; i++) {
        if (was_dirty[i]) {
            if (flipped || i >= h->bucket.capacity || h->bucket.at == NULL
                || (h->bucket.at[i].cst ? 1 : 0) == (snap_cst ? 1 : 0)) {
                r++;
            }
        }
    }
    return r;
}

static void print_trace(size_t rl)
{
    int i;
    const char * ev = h_alloc_take();
    int first = 1;

    outf(" hc=[");
    for (i = 0; i < nhlog && i < MAXLOG; i++) {
        outf(i ? ",%d/%zu/%zu" : "%d/%zu/%zu", hlog[i].f, hlog[i].k, hlog[i].m);
    }
    if (nhlog > MAXLOG) {
        outf(",overflow");
    }
    outf("] rl=%zu ev=[", rl);
    /* " R0>1:64" -> R64+   " R1!128" -> R128!   " F2" -> F   others verbatim */
    while (*ev) {
        const char * e;
        while (*ev == ' ') {
            ev++;
        }
        if (!*ev) {
            break;
        }
        e = ev;
        while (*e && *e != ' ') {
            e++;
        }
        if (!first) {
            outf(",");
        }
        first = 0;
        if (*ev == 'R') {
            const char * q = memchr(ev, '!', (size_t)(e - ev));
            if (q != NULL) {
                outf("R%.*s!", (int)(e - q - 1), q + 1);
            } else {
                q = memchr(ev, ':', (size_t)(e - ev));
                if (q != NULL) {
                    outf("R%.*s+", (int)(e - q - 1), q + 1);
                } else {
                    outf("%.*s", (int)(e - ev), ev);
                }
            }
        } else if (*ev == 'F' && ev + 1 < e && ev[1] != '?') {
            outf("F");
        } else {
            outf("%.*s", (int)(e - ev), ev);
        }
        ev = e;
    }
    outf("]");
}

static void reset(void)
{
    int i;
    h_alloc_reset();
    memset(pool, 0, sizeof(pool));
    for (i = 0; i < NT; i++) {
        if (i == 1) {
            continue;       /* table 1: compile-time initializer only (see the definition of tab) */
        }
        H_POISON_OBJ(tab[i]);
        cstl_hash_init(&tab[i], offsetof(struct elem, hn));
    }
    nhlog = 0;
}

/* ---- callbacks ---- */

#define MAXV (4 * NE)
static long visited[MAXV];
static int nvisited;
static long long stop_at;
static unsigned long long erase_mask;
static struct cstl_hash * cur;

static void record(const void * e)
{
    if (nvisited < MAXV) {
        visited[nvisited] = id_of_elem(e);
    }
}

static int accept_cb(const void * e, void * p)
{
    h_priv_check(p, 1);
    record(e);
    /* any non-zero value accepts the offered element: negative for odd positions */
    return nvisited++ == stop_at ? h_stop_value(stop_at) : 0;
}

static int visit_cb(void * e, void * p)
{
    const int idx = nvisited;
    h_priv_check(p, 2);
    record(e);
    nvisited++;
    if ((erase_mask >> (idx % 62)) & 1) {
        /* erase the element being visited and free it */
        cstl_hash_erase(cur, e);
        ASAN_POISON_MEMORY_REGION(e, sizeof(struct elem));
    }
    return idx == stop_at ? h_stop_value(stop_at) : 0;
}

static int cvisit_cb(const void * e, void * p)
{
    const int idx = nvisited;
    h_priv_check(p, 3);
    record(e);
    nvisited++;
    return idx == stop_at ? h_stop_value(stop_at) : 0;
}

static void clear_cb(void * e, void * p)
{
    (void)p;
    record(e);
    nvisited++;
    ASAN_POISON_MEMORY_REGION(e, sizeof(struct elem));
}

static void print_visited(void)
{
    int i;
    outf("[");
    for (i = 0; i < nvisited && i < MAXV; i++) {
        outf(i ? ",%ld" : "%ld", visited[i]);
    }
    outf("]");
}

static struct cstl_hash * tab_of(const char * s)
{
    if (s[0] >= '0' && s[0] < '0' + NT && s[1] == 0) {
        return &tab[s[0] - '0'];
    }
    return NULL;
}

static int parse_fn(const char * s, cstl_hash_func_t ** f)
{
    long id;
    if (!strcmp(s, "-")) {
        *f = NULL;
        return 1;
    }
    id = atol(s);
    if (id < 0 || id >= NFN || s[0] < '0' || s[0] > '9') {
        return 0;
    }
    *f = fns[id];
    return 1;
}

static void op(int argc, char ** argv)
{
    const char * o = argv[0];
    struct cstl_hash * h = argc > 1 ? tab_of(argv[1]) : NULL;
    cstl_hash_func_t * f = NULL;
    int is_clear = 0;

    nhlog = 0;
    nvisited = 0;
    (void)h_alloc_take();
    cur = h;
    if (h != NULL) {
        snapshot(h);
    } else {
        snap_n = 0;
    }

    if (!strcmp(o, "ins") && argc == 4 && h && elem_of(argv[3])) {
        struct elem * e = elem_of(argv[3]);
        ASAN_UNPOISON_MEMORY_REGION(e, sizeof(*e));
        cstl_hash_insert(h, h_size(argv[2]), e);
        outf("ok");
    } else if (!strcmp(o, "find") && argc == 4 && h) {
        void * r;
        if (!strcmp(argv[3], "n")) {
            r = cstl_hash_find(h, h_size(argv[2]), NULL, NULL);
        } else {
            stop_at = h_int(argv[3]);
            r = cstl_hash_find(h, h_size(argv[2]), accept_cb, H_PRIV(1));
        }
        outf("r=%ld of=", id_of_elem(r));
        print_visited();
    } else if (!strcmp(o, "erase") && argc == 3 && h && elem_of(argv[2])) {
        struct elem * e = elem_of(argv[2]);
        ASAN_UNPOISON_MEMORY_REGION(e, sizeof(*e));
        cstl_hash_erase(h, e);
        outf("ok");
    } else if (!strcmp(o, "resize") && argc == 5 && h && parse_fn(argv[3], &f)) {
        h_alloc_plan(argv[4]);
        cstl_hash_resize(h, h_size(argv[2]), f);
        h_alloc_plan("-");
        outf("ok");
    } else if (!strcmp(o, "rehash") && argc == 2 && h) {
        cstl_hash_rehash(h);
        outf("ok");
    } else if (!strcmp(o, "shrink") && argc == 3 && h) {
        h_alloc_plan(argv[2]);
        cstl_hash_shrink_to_fit(h);
        h_alloc_plan("-");
        outf("ok");
    } else if (!strcmp(o, "swap") && argc == 1) {
        cstl_hash_swap(&tab[0], &tab[1]);
        outf("ok");
    } else if (!strcmp(o, "foreach") && argc == 4 && h) {
        int r;
        stop_at = h_int(argv[2]);
        erase_mask = strtoull(argv[3], NULL, 10);
        r = cstl_hash_foreach(h, visit_cb, H_PRIV(2));
        outf("r=%d v=", r);
        print_visited();
    } else if (!strcmp(o, "fconst") && argc == 3 && h) {
        int r;
        stop_at = h_int(argv[2]);
        r = cstl_hash_foreach_const(h, cvisit_cb, H_PRIV(3));
        outf("r=%d v=", r);
        print_visited();
    } else if (!strcmp(o, "clear") && argc == 3 && h) {
        cstl_hash_clear(h, !strcmp(argv[2], "1") ? clear_cb : NULL);
        outf("v=");
        print_visited();
        is_clear = 1;
    } else {
        h_stop("bad-op");
        return;
    }
    print_trace((h != NULL && !is_clear) ? relocated(h) : 0);
    {
        int i;
        for (i = 0; i < NT; i++) {
            outf(" | ");
            dump_table(&tab[i]);
        }
    }
    out_end();
}

int main(void)
{
    static const struct h_area a = { reset, op };
    return h_main(&a);
}
