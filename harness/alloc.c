/*
 * malloc/realloc/free interposer (linked with -Wl,--wrap=malloc,--wrap=realloc,
 * --wrap=free,--wrap=calloc).  While armed, every call made by the library
 * is logged with a small block id and can be made to fail by a plan string:
 * the k-th allocation request (malloc or realloc) fails iff plan[k] == '0';
 * requests beyond the plan succeed.
 */
#include "common.h"
#include <stdio.h>
#include <stdlib.h>
#include <string.h>

void * __real_malloc(size_t);
void * __real_realloc(void *, size_t);
void * __real_calloc(size_t, size_t);
void __real_free(void *);

#define MAXBLK 4096
static struct { void * p; size_t n; int id; } blk[MAXBLK];
static int nblk, nextid;
static int armed;
static char plan[512];
static size_t planpos;
static char evlog[1 << 15];
static size_t evlen;
int h_alloc_log = 1;
static unsigned long n_requests, n_failed;

static void ev(const char * fmt, ...) __attribute__((format(printf, 1, 2)));
#include <stdarg.h>
static void ev(const char * fmt, ...)
{
    va_list ap;
    int n;
    if (!h_alloc_log) {
        return;
    }
    va_start(ap, fmt);
    n = vsnprintf(evlog + evlen, sizeof(evlog) - evlen, fmt, ap);
    va_end(ap);
    if (n > 0 && evlen + (size_t)n < sizeof(evlog)) {
        evlen += (size_t)n;
    }
}

void h_alloc_reset(void)
{
    nblk = 0;
    nextid = 1;
    armed = 1;
    plan[0] = 0;
    planpos = 0;
    evlen = 0;
    evlog[0] = 0;
}

void h_alloc_arm(int on) { armed = on; }

void h_alloc_plan(const char * p)
{
    if (strcmp(p, "-") == 0) {
        p = "";
    }
    strncpy(plan, p, sizeof(plan) - 1);
    plan[sizeof(plan) - 1] = 0;
    planpos = 0;
}

/* returns the accumulated event string (without leading space) and clears it */
const char * h_alloc_take(void)
{
    static char copy[sizeof(evlog)];
    memcpy(copy, evlog, evlen);
    copy[evlen] = 0;
    evlen = 0;
    return copy;
}

int h_alloc_live(void) { return nblk; }

/* canonical name of a pointer: block id and byte offset; 0 if unknown */
int h_alloc_find(const void * p, size_t * off)
{
    int i;
    for (i = 0; i < nblk; i++) {
        if ((const char *)p >= (const char *)blk[i].p
            && (const char *)p <= (const char *)blk[i].p + blk[i].n) {
            if (off) {
                *off = (size_t)((const char *)p - (const char *)blk[i].p);
            }
            return blk[i].id;
        }
    }
    return 0;
}

size_t h_alloc_size(int id)
{
    int i;
    for (i = 0; i < nblk; i++) {
        if (blk[i].id == id) {
            return blk[i].n;
        }
    }
    return 0;
}

static int fail_now(void)
{
    n_requests++;
    if (plan[planpos] != 0) {
        if (plan[planpos++] == '0') {
            n_failed++;
            return 1;
        }
    }
    return 0;
}

static int add(void * p, size_t n)
{
    if (nblk < MAXBLK) {
        blk[nblk].p = p;
        blk[nblk].n = n;
        blk[nblk].id = nextid;
        nblk++;
    }
    return nextid++;
}

static int drop(void * p)
{
    int i;
    for (i = 0; i < nblk; i++) {
        if (blk[i].p == p) {
            int id = blk[i].id;
            blk[i] = blk[--nblk];
            return id;
        }
    }
    return 0;
}

void * __wrap_malloc(size_t n)
{
    void * p;
    if (!armed) {
        return __real_malloc(n);
    }
    if (fail_now()) {
        ev(" A!%zu", n);
        return NULL;
    }
    /* a request no allocator can satisfy fails like the real one would */
    if (n > ((size_t)1 << 40)) {
        ev(" A!%zu", n);
        return NULL;
    }
    p = __real_malloc(n);
    if (p == NULL) {
        ev(" A!%zu", n);
        return NULL;
    }
    ev(" A%d:%zu", add(p, n), n);
    return p;
}

void * __wrap_calloc(size_t a, size_t b)
{
    void * p;
    if (!armed) {
        return __real_calloc(a, b);
    }
    if (fail_now() || (b != 0 && a > (((size_t)1 << 40) / b))) {
        ev(" A!%zu", a * b);
        return NULL;
    }
    p = __real_calloc(a, b);
    if (p != NULL) {
        ev(" A%d:%zu", add(p, a * b), a * b);
    }
    return p;
}

void * __wrap_realloc(void * old, size_t n)
{
    void * p;
    int oid;
    if (!armed) {
        return __real_realloc(old, n);
    }
    oid = old ? h_alloc_find(old, NULL) : 0;
    if (fail_now() || n > ((size_t)1 << 40)) {
        ev(" R%d!%zu", oid, n);
        return NULL;
    }
    if (n == 0 && old != NULL) {
        /* glibc: realloc(p, 0) frees p and returns NULL */
        drop(old);
        __real_free(old);
        ev(" R%d>0:0", oid);
        return NULL;
    }
    p = __real_realloc(old, n);
    if (p == NULL) {
        ev(" R%d!%zu", oid, n);
        return NULL;
    }
    if (old) {
        drop(old);
    }
    ev(" R%d>%d:%zu", oid, add(p, n), n);
    return p;
}

void __wrap_free(void * p)
{
    int id;
    if (!armed || p == NULL) {
        __real_free(p);
        return;
    }
    id = drop(p);
    if (id == 0) {
        ev(" F?");
    } else {
        ev(" F%d", id);
    }
    __real_free(p);
}
