/*
 * Harness for src/vector.c and the string template src/_string.c (narrow and
 * wide): same line protocol and state dump as lean/Cstl/Vec/Main.lean.
 *
 * Objects: v0 v1 (vectors), s0 s1 (cstl_string), w0 w1 (cstl_wstring).
 *
 * Allocation: the sources are compiled with -Drealloc=vec_realloc (see
 * tools/areas/vec.py), so every realloc the library makes passes through
 * vec_realloc() below, which decides success/failure (plan string, and any
 * request above VEC_LIMIT bytes fails) and then forwards to the interposer of
 * harness/alloc.c, which keeps the block table and the request log.
 *
 * Addresses are canonicalised as block id + byte offset; element values of a
 * vector are a byte pattern (byte k = value + k) that is verified on every
 * read; slots outside the live block are never read by the dump ("!").
 */
#include "common.h"
#include "cstl/vector.h"
#include "cstl/string.h"

#include <stdio.h>
#include <stdlib.h>
#include <string.h>
#include <wchar.h>
#include <signal.h>
#include <unistd.h>

#undef realloc
extern void * realloc(void *, size_t);

#define VEC_LIMIT ((size_t)65536)
#define UNDEFV 238
#define CTORV 192
#define DTORV 221

/* the second object of each kind is initialised by the header's compile-time
 * initializer and never by its init function (until an `init` operation) */
static struct cstl_vector vec[2] = { [1] = CSTL_VECTOR_INITIALIZER(int) };
static struct cstl_string ns[2] = { [1] = CSTL_STRING_INITIALIZER(cstl_string_char_t) };
static struct cstl_wstring ws[2] = { [1] = CSTL_STRING_INITIALIZER(cstl_wstring_char_t) };

static int in_script;
static char uplan[512];
static size_t upos;

void * vec_realloc(void * p, size_t n)
{
    int fail = 0;
    if (!in_script) {
        return realloc(p, n);
    }
    if (uplan[upos] != 0) {
        if (uplan[upos++] == '0') {
            fail = 1;
        }
    }
    if (n > VEC_LIMIT) {
        fail = 1;
    }
    h_alloc_plan(fail ? "0" : "1");
    return realloc(p, n);
}

/* ------------------------------------------------------------------ */
/* objects */

static int obj_index(const char * s)
{
    if (strlen(s) != 2 || (s[1] != '0' && s[1] != '1')) {
        return -1;
    }
    switch (s[0]) {
    case 'v': return s[1] - '0';
    case 's': return 2 + (s[1] - '0');
    case 'w': return 4 + (s[1] - '0');
    default: return -1;
    }
}

static struct cstl_vector * vof(int i)
{
    if (i < 2) {
        return &vec[i];
    }
    if (i < 4) {
        return &ns[i - 2].v;
    }
    return &ws[i - 4].v;
}

static const char * const names[6] = { "v0", "v1", "s0", "s1", "w0", "w1" };

/* number of whole elements inside the live block at v's base (0 if the base
 * is NULL or is not a live block); *idp / *bytesp: block id / size */
static size_t in_block(const struct cstl_vector * v, int * idp, size_t * bytesp)
{
    size_t off = 0;
    int id;
    if (idp) *idp = 0;
    if (bytesp) *bytesp = 0;
    if (v->elem.base == NULL) {
        return 0;
    }
    id = h_alloc_find(v->elem.base, &off);
    if (id == 0 || off != 0) {
        if (idp) *idp = -1;
        return 0;
    }
    if (idp) *idp = id;
    if (bytesp) *bytesp = h_alloc_size(id);
    return v->elem.size ? h_alloc_size(id) / v->elem.size : 0;
}

/* ------------------------------------------------------------------ */
/* element values */

static void put_val(void * p, size_t esz, unsigned val)
{
    size_t k;
    for (k = 0; k < esz; k++) {
        ((unsigned char *)p)[k] = (unsigned char)(val + k);
    }
}

/* -1: inconsistent bytes */
static long get_val(const void * p, size_t esz)
{
    const unsigned char * b = p;
    size_t k;
    for (k = 1; k < esz; k++) {
        if (b[k] != (unsigned char)(b[0] + k)) {
            return -1;
        }
    }
    return b[0];
}

/* value of slot i of object o (strings: the code unit) */
static long slot_val(int o, const struct cstl_vector * v, size_t i)
{
    const char * p = (const char *)v->elem.base + i * v->elem.size;
    if (o < 2) {
        return get_val(p, v->elem.size);
    }
    if (o < 4) {
        return (unsigned char)*p;
    }
    return (long)(unsigned long)(uint32_t)*(const wchar_t *)(const void *)p;
}

/* ------------------------------------------------------------------ */
/* run-length printing */

static char rl_cur[32];
static size_t rl_n;
static int rl_first;

static void rl_begin(void)
{
    rl_n = 0;
    rl_first = 1;
    outf("[");
}

static void rl_flush(void)
{
    if (rl_n == 0) {
        return;
    }
    if (!rl_first) {
        outf(",");
    }
    rl_first = 0;
    if (rl_n == 1) {
        outf("%s", rl_cur);
    } else {
        outf("%s*%zu", rl_cur, rl_n);
    }
    rl_n = 0;
}

static void rl_tok(const char * t)
{
    if (rl_n > 0 && strcmp(t, rl_cur) == 0) {
        rl_n++;
        return;
    }
    rl_flush();
    snprintf(rl_cur, sizeof(rl_cur), "%s", t);
    rl_n = 1;
}

static void rl_val(long v)
{
    char b[32];
    if (v < 0) {
        snprintf(b, sizeof(b), "bad");
    } else {
        snprintf(b, sizeof(b), "%ld", v);
    }
    rl_tok(b);
}

static void rl_end(void)
{
    rl_flush();
    outf("]");
}

/* ------------------------------------------------------------------ */
/* event log: realloc/free tokens of alloc.c interleaved with xtor calls */

static char evb[1 << 16];
static size_t evn;
static int run_kind;        /* 0 none, 'C', 'D' */
static size_t run_first, run_last;
static int run_dir;         /* 0 single, 1 up, 2 down */

static void ev_app(const char * s)
{
    size_t n = strlen(s);
    if (evn + n + 1 < sizeof(evb)) {
        memcpy(evb + evn, s, n + 1);
        evn += n;
    }
}

static void run_flush(void)
{
    char b[80];
    if (run_kind == 0) {
        return;
    }
    if (run_dir == 0) {
        snprintf(b, sizeof(b), " %c%zu", run_kind, run_first);
    } else {
        snprintf(b, sizeof(b), " %c%zu..%zu", run_kind, run_first, run_last);
    }
    ev_app(b);
    run_kind = 0;
}

static void ev_alloc_drain(void)
{
    const char * a = h_alloc_take();
    if (a[0] != 0) {
        run_flush();
        ev_app(a);
    }
}

static void ev_xtor(int kind, size_t slot, int known)
{
    ev_alloc_drain();
    if (!known) {
        static int stray;
        run_flush();
        ev_app(kind == 'C' ? " C?" : " D?");
        if (++stray > 64) {
            /* a constructor/destructor loop running away over memory the
             * vector does not own: reported like a script that does not end */
            raise(SIGALRM);
        }
        return;
    }
    if (run_kind == kind) {
        if ((run_dir == 0 || run_dir == 1) && slot == run_last + 1) {
            run_last = slot;
            run_dir = 1;
            return;
        }
        if ((run_dir == 0 || run_dir == 2) && slot + 1 == run_last) {
            run_last = slot;
            run_dir = 2;
            return;
        }
    }
    run_flush();
    run_kind = kind;
    run_first = run_last = slot;
    run_dir = 0;
}

static void ev_begin(void)
{
    (void)h_alloc_take();
    evn = 0;
    evb[0] = 0;
    run_kind = 0;
}

static void ev_print(void)
{
    ev_alloc_drain();
    run_flush();
    outf("%s", evb);
}

/* ------------------------------------------------------------------ */
/* constructor / destructor */

static struct cstl_vector * cur_vec;

static int slot_of(const void * e, size_t * slot)
{
    const struct cstl_vector * v = cur_vec;
    size_t n, off;
    if (v == NULL || v->elem.base == NULL || v->elem.size == 0) {
        return 0;
    }
    n = in_block(v, NULL, NULL);
    if ((const char *)e < (const char *)v->elem.base) {
        return 0;
    }
    off = (size_t)((const char *)e - (const char *)v->elem.base);
    if (off % v->elem.size != 0 || off / v->elem.size >= n) {
        return 0;
    }
    *slot = off / v->elem.size;
    return 1;
}

static void x_cons(void * e, void * priv)
{
    size_t slot = 0;
    int known = slot_of(e, &slot);
    h_priv_check(priv, 1);
    ev_xtor('C', slot, known);
    if (known) {
        put_val(e, cur_vec->elem.size, CTORV);
    }
}

static void x_dest(void * e, void * priv)
{
    size_t slot = 0;
    int known = slot_of(e, &slot);
    h_priv_check(priv, 1);
    ev_xtor('D', slot, known);
    if (known) {
        put_val(e, cur_vec->elem.size, DTORV);
    }
}

/* ONE function registered as both constructor and destructor (flag 4 of `init`): which of the
 * two roles a call plays is decided by the operation in progress (`both_role`, set by the harness
 * before it calls the library: 'C' for a growing resize, 'D' for a shrinking one and for clear) */
static char both_role = 'C';

static void x_both(void * e, void * priv)
{
    if (both_role == 'C') {
        x_cons(e, priv);
    } else {
        x_dest(e, priv);
    }
}

/* ------------------------------------------------------------------ */
/* dump */

static void dump_obj(int o)
{
    const struct cstl_vector * v = vof(o);
    int id;
    size_t bytes, inb, shown, i;

    outf(" | %s", names[o]);
    if (o < 2) {
        outf(" e=%zu x=%d%d", v->elem.size, v->elem.xtor.cons != NULL, v->elem.xtor.dest != NULL);
    }
    if (v->elem.base == NULL && cstl_vector_size(v) == 0 && cstl_vector_capacity(v) == 0) {
        outf(" ~");
        return;
    }
    inb = in_block(v, &id, &bytes);
    outf(" n=%zu c=%zu", cstl_vector_size(v), cstl_vector_capacity(v));
    if (id > 0) {
        outf(" b=%d:%zu ", id, bytes);
    } else if (id < 0) {
        outf(" b=dead ");
    } else {
        outf(" b=0 ");
    }
    shown = v->count < inb ? v->count : inb;
    rl_begin();
    for (i = 0; i < shown; i++) {
        rl_val(slot_val(o, v, i));
    }
    rl_flush();
    if (v->count > shown) {
        if (!rl_first) {
            outf(",");
        }
        if (v->count - shown == 1) {
            outf("!");
        } else {
            outf("!*%zu", v->count - shown);
        }
    }
    outf("]");
    if (o >= 2) {
        size_t sz, sc;
        const char * st;
        int at_nul;
        if (o < 4) {
            sz = cstl_string_size(&ns[o - 2]);
            sc = cstl_string_capacity(&ns[o - 2]);
            at_nul = (cstl_string_str(&ns[o - 2]) == &cstl_string_nul);
        } else {
            sz = cstl_wstring_size(&ws[o - 4]);
            sc = cstl_wstring_capacity(&ws[o - 4]);
            at_nul = (cstl_wstring_str(&ws[o - 4]) == &cstl_wstring_nul);
        }
        if (v->elem.base == NULL) {
            st = at_nul ? "nul" : "nul?";
        } else if (v->count == 0) {
            st = "U";
        } else if (shown < v->count) {
            st = "?";
        } else {
            st = slot_val(o, v, v->count - 1) == 0 ? "T" : "X";
        }
        outf(" sz=%zu sc=%zu str=%s", sz, sc, st);
    }
}

static void dump(void)
{
    int o;
    for (o = 0; o < 6; o++) {
        dump_obj(o);
    }
    out_end();
}

/* ------------------------------------------------------------------ */

static void reset(void)
{
    int i;
    in_script = 1;
    alarm(20);      /* watchdog: common.c reports SIGALRM as "STOP hang" */
    h_alloc_reset();
    uplan[0] = 0;
    upos = 0;
    for (i = 0; i < 1; i++) {
        H_POISON_OBJ(vec[i]);
        H_POISON_OBJ(ns[i]);
        H_POISON_OBJ(ws[i]);
        cstl_vector_init(&vec[i], 4);
        cstl_string_init(&ns[i]);
        cstl_wstring_init(&ws[i]);
    }
    ev_begin();
}

/* caller-side arrays: allocated outside the library's ledger, exact size, so
 * that an over-read is seen by AddressSanitizer */
static size_t parse_units(const char * t, unsigned long * out, size_t max)
{
    size_t n = 0;
    if (strcmp(t, "-") == 0) {
        return 0;
    }
    while (*t && n < max) {
        char * end;
        out[n++] = strtoul(t, &end, 10);
        t = (*end == ',') ? end + 1 : end;
        if (*end != ',' && *end != 0) {
            break;
        }
    }
    return n;
}

static void * make_buf(const unsigned long * u, size_t n, int wide, int nulterm)
{
    size_t i, total = n + (nulterm ? 1 : 0);
    void * p;
    h_alloc_arm(0);
    p = malloc((total ? total : 1) * (wide ? sizeof(wchar_t) : 1));
    h_alloc_arm(1);
    for (i = 0; i < total; i++) {
        unsigned long x = i < n ? u[i] : 0;
        if (wide) {
            ((wchar_t *)p)[i] = (wchar_t)(uint32_t)x;
        } else {
            ((char *)p)[i] = (char)(unsigned char)x;
        }
    }
    return p;
}

static void free_buf(void * p)
{
    h_alloc_arm(0);
    free(p);
    h_alloc_arm(1);
}

/* a private copy of the characters cstl_STRING_str points at: all size
 * characters (embedded NULs included) and the terminator */
static void * copy_cstr(int o)
{
    void * p;
    h_alloc_arm(0);
    if (o < 4) {
        const char * z = cstl_string_str(&ns[o - 2]);
        size_t n = cstl_string_size(&ns[o - 2]);
        p = malloc(n + 1);
        memcpy(p, z, n + 1);
    } else {
        const wchar_t * z = cstl_wstring_str(&ws[o - 4]);
        size_t n = cstl_wstring_size(&ws[o - 4]);
        p = malloc((n + 1) * sizeof(wchar_t));
        memcpy(p, z, (n + 1) * sizeof(wchar_t));
    }
    h_alloc_arm(1);
    return p;
}

static int sgn(int x) { return (x > 0) - (x < 0); }

static int val_cmp(const void * a, const void * b, void * p)
{
    h_priv_check(p, 2);
    return h_cmp_result(*(const unsigned char *)a, *(const unsigned char *)b);
}

static void ok_events(void)
{
    outf("ok");
    ev_print();
}

static void op(int argc, char ** argv)
{
    const char * o = argv[0];
    int a = argc > 1 ? obj_index(argv[1]) : -1;
    unsigned long ub[64];

    ev_begin();
    cur_vec = a >= 0 ? vof(a) : NULL;

    if (!strcmp(o, "plan") && argc == 2) {
        if (strcmp(argv[1], "-") == 0) {
            uplan[0] = 0;
        } else {
            snprintf(uplan, sizeof(uplan), "%s", argv[1]);
        }
        upos = 0;
        outf("ok");
    /* ---------------------------------------------------- vector */
    } else if (!strcmp(o, "init") && argc == 4 && a >= 0 && a < 2) {
        int x = atoi(argv[3]);
        if (x & 4) {
            cstl_vector_init_complex(&vec[a], h_size(argv[2]), x_both, x_both, H_PRIV(1));
        } else {
            cstl_vector_init_complex(&vec[a], h_size(argv[2]),
                                     (x & 1) ? x_cons : NULL, (x & 2) ? x_dest : NULL, H_PRIV(1));
        }
        outf("ok");
    } else if (!strcmp(o, "reserve") && argc == 3 && a >= 0 && a < 2) {
        cstl_vector_reserve(&vec[a], h_size(argv[2]));
        ok_events();
    } else if (!strcmp(o, "shrink") && argc == 2 && a >= 0 && a < 2) {
        cstl_vector_shrink_to_fit(&vec[a]);
        ok_events();
    } else if (!strcmp(o, "resize") && argc == 3 && a >= 0 && a < 2) {
        struct cstl_vector * v = &vec[a];
        size_t old = cstl_vector_size(v), i, inb;
        both_role = h_size(argv[2]) > old ? 'C' : 'D';
        cstl_vector_resize(v, h_size(argv[2]));
        if (v->elem.xtor.cons == NULL) {
            /* the client initialises the slots it was given (inside the block only) */
            inb = in_block(v, NULL, NULL);
            for (i = old; i < cstl_vector_size(v) && i < inb; i++) {
                put_val((char *)cstl_vector_data(v) + i * v->elem.size, v->elem.size, UNDEFV);
            }
        }
        ok_events();
    } else if (!strcmp(o, "clear") && argc == 2 && a >= 0) {
        both_role = 'D';
        if (a < 2) {
            cstl_vector_clear(&vec[a]);
        } else if (a < 4) {
            cstl_string_clear(&ns[a - 2]);
        } else {
            cstl_wstring_clear(&ws[a - 4]);
        }
        ok_events();
    } else if (!strcmp(o, "swap") && argc == 3 && a >= 0 && obj_index(argv[2]) >= 0
               && obj_index(argv[2]) != a && obj_index(argv[2]) / 2 == a / 2) {
        int b = obj_index(argv[2]);
        if (a < 2) {
            cstl_vector_swap(&vec[a], &vec[b]);
        } else if (a < 4) {
            cstl_string_swap(&ns[a - 2], &ns[b - 2]);
        } else {
            cstl_wstring_swap(&ws[a - 4], &ws[b - 4]);
        }
        outf("ok");
    } else if (!strcmp(o, "at") && argc == 3 && a >= 0 && a < 2) {
        const void * p = cstl_vector_at_const(&vec[a], h_size(argv[2]));
        size_t off = 0;
        int id = h_alloc_find(p, &off);
        long val = get_val(p, vec[a].elem.size);
        if (val < 0) {
            outf("b%d+%zu=bad", id, off);
        } else {
            outf("b%d+%zu=%ld", id, off, val);
        }
    } else if (!strcmp(o, "set") && argc == 4 && a >= 0 && a < 2) {
        void * p = cstl_vector_at(&vec[a], h_size(argv[2]));
        put_val(p, vec[a].elem.size, (unsigned)strtoul(argv[3], NULL, 10));
        outf("ok");
    } else if (!strcmp(o, "rev") && argc == 2 && a >= 0 && a < 2) {
        cstl_vector_reverse(&vec[a]);
        outf("ok");
    } else if (!strcmp(o, "sort") && argc == 2 && a >= 0 && a < 2) {
        cstl_vector_sort(&vec[a], val_cmp, H_PRIV(2));
        outf("ok");
    /* ---------------------------------------------------- string */
#define WIDE (a >= 4)
#define NS (&ns[a - 2])
#define WS (&ws[a - 4])
    } else if (!strcmp(o, "sreserve") && argc == 3 && a >= 2) {
        if (WIDE) cstl_wstring_reserve(WS, h_size(argv[2])); else cstl_string_reserve(NS, h_size(argv[2]));
        ok_events();
    } else if (!strcmp(o, "sresize") && argc == 3 && a >= 2) {
        if (WIDE) cstl_wstring_resize(WS, h_size(argv[2])); else cstl_string_resize(NS, h_size(argv[2]));
        ok_events();
    } else if (!strcmp(o, "insch") && argc == 5 && a >= 2) {
        unsigned long ch = strtoul(argv[4], NULL, 10);
        if (WIDE) cstl_wstring_insert_ch(WS, h_size(argv[2]), h_size(argv[3]), (wchar_t)(uint32_t)ch);
        else cstl_string_insert_ch(NS, h_size(argv[2]), h_size(argv[3]), (char)(unsigned char)ch);
        ok_events();
    } else if (!strcmp(o, "appch") && argc == 4 && a >= 2) {
        unsigned long ch = strtoul(argv[3], NULL, 10);
        if (WIDE) cstl_wstring_append_ch(WS, h_size(argv[2]), (wchar_t)(uint32_t)ch);
        else cstl_string_append_ch(NS, h_size(argv[2]), (char)(unsigned char)ch);
        ok_events();
    } else if (!strcmp(o, "insn") && argc == 5 && a >= 2) {
        size_t n = parse_units(argv[3], ub, 64);
        void * buf = make_buf(ub, n, WIDE, 0);
        if (WIDE) cstl_wstring_insert_str_n(WS, h_size(argv[2]), buf, h_size(argv[4]));
        else cstl_string_insert_str_n(NS, h_size(argv[2]), buf, h_size(argv[4]));
        free_buf(buf);
        ok_events();
    } else if (!strcmp(o, "appn") && argc == 4 && a >= 2) {
        size_t n = parse_units(argv[2], ub, 64);
        void * buf = make_buf(ub, n, WIDE, 0);
        if (WIDE) cstl_wstring_append_str_n(WS, buf, h_size(argv[3]));
        else cstl_string_append_str_n(NS, buf, h_size(argv[3]));
        free_buf(buf);
        ok_events();
    } else if (!strcmp(o, "insstr") && argc == 4 && a >= 2) {
        size_t n = parse_units(argv[3], ub, 64);
        void * buf = make_buf(ub, n, WIDE, 1);
        if (WIDE) cstl_wstring_insert_str(WS, h_size(argv[2]), buf);
        else cstl_string_insert_str(NS, h_size(argv[2]), buf);
        free_buf(buf);
        ok_events();
    } else if (!strcmp(o, "appstr") && argc == 3 && a >= 2) {
        size_t n = parse_units(argv[2], ub, 64);
        void * buf = make_buf(ub, n, WIDE, 1);
        if (WIDE) cstl_wstring_append_str(WS, buf); else cstl_string_append_str(NS, buf);
        free_buf(buf);
        ok_events();
    } else if (!strcmp(o, "setstr") && argc == 3 && a >= 2) {
        size_t n = parse_units(argv[2], ub, 64);
        void * buf = make_buf(ub, n, WIDE, 1);
        if (WIDE) cstl_wstring_set_str(WS, buf); else cstl_string_set_str(NS, buf);
        free_buf(buf);
        ok_events();
    } else if (!strcmp(o, "ins") && argc == 4 && a >= 2 && obj_index(argv[3]) >= 2
               && obj_index(argv[3]) != a && obj_index(argv[3]) / 2 == a / 2) {
        int b = obj_index(argv[3]);
        if (WIDE) cstl_wstring_insert(WS, h_size(argv[2]), &ws[b - 4]);
        else cstl_string_insert(NS, h_size(argv[2]), &ns[b - 2]);
        ok_events();
    } else if (!strcmp(o, "app") && argc == 3 && a >= 2 && obj_index(argv[2]) >= 2
               && obj_index(argv[2]) != a && obj_index(argv[2]) / 2 == a / 2) {
        int b = obj_index(argv[2]);
        if (WIDE) cstl_wstring_append(WS, &ws[b - 4]); else cstl_string_append(NS, &ns[b - 2]);
        ok_events();
    } else if (!strcmp(o, "erase") && argc == 4 && a >= 2) {
        if (WIDE) cstl_wstring_erase(WS, h_size(argv[2]), h_size(argv[3]));
        else cstl_string_erase(NS, h_size(argv[2]), h_size(argv[3]));
        ok_events();
    } else if (!strcmp(o, "substr") && argc == 5 && a >= 2 && obj_index(argv[4]) >= 2
               && obj_index(argv[4]) != a && obj_index(argv[4]) / 2 == a / 2) {
        int b = obj_index(argv[4]);
        cur_vec = vof(b);
        if (WIDE) cstl_wstring_substr(WS, h_size(argv[2]), h_size(argv[3]), &ws[b - 4]);
        else cstl_string_substr(NS, h_size(argv[2]), h_size(argv[3]), &ns[b - 2]);
        ok_events();
    } else if (!strcmp(o, "sat") && argc == 3 && a >= 2) {
        size_t off = 0;
        int id;
        if (WIDE) {
            const wchar_t * p = cstl_wstring_at_const(WS, h_size(argv[2]));
            id = h_alloc_find(p, &off);
            outf("b%d+%zu=%lu", id, off, (unsigned long)(uint32_t)*p);
        } else {
            const char * p = cstl_string_at_const(NS, h_size(argv[2]));
            id = h_alloc_find(p, &off);
            outf("b%d+%zu=%lu", id, off, (unsigned long)(unsigned char)*p);
        }
    } else if (!strcmp(o, "str") && argc == 2 && a >= 2) {
        const struct cstl_vector * v = vof(a);
        if (v->elem.base != NULL && v->count == 0) {
            outf("str=U");      /* nothing was ever stored: not dereferenced */
        } else if (WIDE) {
            const wchar_t * z = cstl_wstring_str(WS);
            size_t n = wcslen(z), i;
            outf("str=");
            rl_begin();
            for (i = 0; i < n; i++) rl_val((long)(unsigned long)(uint32_t)z[i]);
            rl_end();
            outf(" len=%zu", n);
        } else {
            const char * z = cstl_string_str(NS);
            size_t n = strlen(z), i;
            outf("str=");
            rl_begin();
            for (i = 0; i < n; i++) rl_val((unsigned char)z[i]);
            rl_end();
            outf(" len=%zu", n);
        }
    } else if (!strcmp(o, "findch") && argc == 4 && a >= 2) {
        unsigned long ch = strtoul(argv[2], NULL, 10);
        size_t pos = h_size(argv[3]);
        long r, l;
        if (WIDE) {
            wchar_t * z, * f;
            r = (long)cstl_wstring_find_ch(WS, (wchar_t)(uint32_t)ch, pos);
            z = copy_cstr(a);
            f = wcschr(z + pos, (wchar_t)(uint32_t)ch);
            l = f ? (long)(f - z) : -1;
            free_buf(z);
        } else {
            char * z, * f;
            r = (long)cstl_string_find_ch(NS, (char)(unsigned char)ch, pos);
            z = copy_cstr(a);
            f = strchr(z + pos, (char)(unsigned char)ch);
            l = f ? (long)(f - z) : -1;
            free_buf(z);
        }
        outf("r=%ld libc=%ld", r, l);
    } else if ((!strcmp(o, "findstr") && argc == 4 && a >= 2)
               || (!strcmp(o, "find") && argc == 4 && a >= 2 && obj_index(argv[2]) >= 2
                   && obj_index(argv[2]) / 2 == a / 2)) {
        size_t pos = h_size(argv[3]);
        long r, l;
        void * nb;
        int byobj = !strcmp(o, "find");
        int b = byobj ? obj_index(argv[2]) : -1;
        if (byobj) {
            nb = copy_cstr(b);
        } else {
            size_t n = parse_units(argv[2], ub, 64);
            nb = make_buf(ub, n, WIDE, 1);
        }
        if (WIDE) {
            wchar_t * z, * f;
            r = byobj ? (long)cstl_wstring_find(WS, &ws[b - 4], pos)
                      : (long)cstl_wstring_find_str(WS, nb, pos);
            z = copy_cstr(a);
            f = wcsstr(z + pos, nb);
            l = f ? (long)(f - z) : -1;
            free_buf(z);
        } else {
            char * z, * f;
            r = byobj ? (long)cstl_string_find(NS, &ns[b - 2], pos)
                      : (long)cstl_string_find_str(NS, nb, pos);
            z = copy_cstr(a);
            f = strstr(z + pos, nb);
            l = f ? (long)(f - z) : -1;
            free_buf(z);
        }
        free_buf(nb);
        outf("r=%ld libc=%ld", r, l);
    } else if ((!strcmp(o, "cmpstr") && argc == 3 && a >= 2)
               || (!strcmp(o, "cmp") && argc == 3 && a >= 2 && obj_index(argv[2]) >= 2
                   && obj_index(argv[2]) / 2 == a / 2)) {
        int byobj = !strcmp(o, "cmp");
        int b = byobj ? obj_index(argv[2]) : -1;
        int r, l;
        void * nb, * z;
        if (byobj) {
            nb = copy_cstr(b);
        } else {
            size_t n = parse_units(argv[2], ub, 64);
            nb = make_buf(ub, n, WIDE, 1);
        }
        if (WIDE) {
            r = byobj ? cstl_wstring_compare(WS, &ws[b - 4]) : cstl_wstring_compare_str(WS, nb);
            z = copy_cstr(a);
            l = wcscmp(z, nb);
        } else {
            r = byobj ? cstl_string_compare(NS, &ns[b - 2]) : cstl_string_compare_str(NS, nb);
            z = copy_cstr(a);
            l = strcmp(z, nb);
        }
        free_buf(z);
        free_buf(nb);
        outf("r=%d libc=%d", sgn(r), sgn(l));
    } else {
        h_stop("bad-op");
        return;
    }
    dump();
}

int main(void)
{
    static const struct h_area ar = { reset, op };
    return h_main(&ar);
}
