/*
 * Harness for src/memory.c + include/cstl/memory.h and the cstl_array_* view
 * functions of src/array.c: same line protocol and state dump as
 * lean/Cstl/Mem/Main.lean.
 *
 * Object pool (static, so every object has a fixed address):
 *   g0..g3  struct cstl_guarded_ptr      u0..u5  cstl_unique_ptr_t
 *   s0..s9  cstl_shared_ptr_t            w0..w5  cstl_weak_ptr_t
 *   a0..a5  cstl_array_t
 * External buffers E1, E2 (64 bytes each).  Clear callbacks 1 and 2.
 *
 * Canonical names: an object is its pool name; a heap pointer is the block id
 * of harness/alloc.c plus byte offset ("b5+24"), an external buffer pointer
 * "E1+8", anything else "?".  A pointer stored in an object that no longer
 * points to a live block is named by the id the block had (side table filled
 * while it was live).  The guarded pointers' payload is an integer cast to a
 * pointer (it is never dereferenced).
 *
 * The layouts of the two private structures of the library are mirrored here
 * to read the counters and the descriptor for the state dump.
 */
#include "common.h"
#include "cstl/memory.h"
#include "cstl/array.h"

#include <stdatomic.h>
#include <stdio.h>
#include <stdlib.h>
#include <string.h>

#define NG 4
#define NU 6
#define NS 10
#define NW 6
#define NA 6
#define NEXT 2
#define EXTSZ 64

struct m_shared_ptr_data {          /* src/memory.c struct cstl_shared_ptr_data */
    struct {
        atomic_size_t hard, soft;
        atomic_flag lock;
    } ref;
    cstl_unique_ptr_t up;
};

struct m_raw_array {                /* src/array.c struct cstl_raw_array */
    size_t sz, nm;
    void * buf;
};

/* object 1 of each kind is initialised by the header's compile-time initializer
 * and never by its init function (unless a script asks for it) */
static struct cstl_guarded_ptr G[NG] = { [1] = CSTL_GUARDED_PTR_INITIALIZER(G[1]) };
static cstl_unique_ptr_t U[NU] = { [1] = CSTL_UNIQUE_PTR_INITIALIZER(U[1]) };
static cstl_shared_ptr_t S[NS] = { [1] = CSTL_SHARED_PTR_INITIALIZER(S[1]) };
static cstl_weak_ptr_t Wk[NW] = { [1] = CSTL_WEAK_PTR_INITIALIZER(Wk[1]) };
static cstl_array_t A[NA] = { [1] = CSTL_ARRAY_INITIALIZER(A[1]) };
static char ext[NEXT + 1][2 * EXTSZ];   /* the first EXTSZ bytes of each are the buffer */

/* ---------------------------------------------------------------- events */

static char evbuf[1 << 15];
static size_t evn;

static void ev_add(const char * s)
{
    size_t n = strlen(s);
    if (evn + n < sizeof(evbuf)) {
        memcpy(evbuf + evn, s, n + 1);
        evn += n;
    }
}

/* ids of the live blocks, ascending (maintained from the interposer's events) */
static int liveids[4096];
static int nlive;

static void track(const char * s)
{
    while (*s) {
        while (*s == ' ') {
            s++;
        }
        if (s[0] == 'A' && s[1] >= '0' && s[1] <= '9') {
            if (nlive < 4096) {
                liveids[nlive++] = atoi(s + 1);
            }
        } else if (s[0] == 'F' && s[1] >= '0' && s[1] <= '9') {
            int id = atoi(s + 1), i, j = 0;
            for (i = 0; i < nlive; i++) {
                if (liveids[i] != id) {
                    liveids[j++] = liveids[i];
                }
            }
            nlive = j;
        }
        while (*s && *s != ' ') {
            s++;
        }
    }
}

static void ev_sync(void)
{
    const char * s = h_alloc_take();
    track(s);
    ev_add(s);
}

static void name_heap(char * out, size_t outsz, const void * p)
{
    size_t off = 0;
    int id;
    int e;
    if (p == NULL) {
        snprintf(out, outsz, "0");
        return;
    }
    for (e = 1; e <= NEXT; e++) {
        if ((const char *)p >= ext[e] && (const char *)p <= ext[e] + EXTSZ) {
            snprintf(out, outsz, "E%d+%zu", e, (size_t)((const char *)p - ext[e]));
            return;
        }
    }
    id = h_alloc_find(p, &off);
    if (id > 0) {
        snprintf(out, outsz, "b%d+%zu", id, off);
    } else {
        snprintf(out, outsz, "?");
    }
}

static void cb_common(int f, void * p, void * priv)
{
    char b[96];
    size_t off = 0;
    int id = p ? h_alloc_find(p, &off) : 0;
    ev_sync();
    if (p != NULL && (id == 0 || off != 0)) {
        snprintf(b, sizeof(b), " C%d:?:%zu", f, (size_t)(uintptr_t)priv);
    } else {
        snprintf(b, sizeof(b), " C%d:%d:%zu", f, id, (size_t)(uintptr_t)priv);
    }
    ev_add(b);
}

static void cb1(void * p, void * priv) { cb_common(1, p, priv); }
static void cb2(void * p, void * priv) { cb_common(2, p, priv); }

static cstl_xtor_func_t * cb_of(size_t id)
{
    return id == 1 ? cb1 : id == 2 ? cb2 : NULL;
}

static long cb_id(cstl_xtor_func_t * f)
{
    return f == NULL ? 0 : f == cb1 ? 1 : f == cb2 ? 2 : -1;
}

/* ---------------------------------------------------------------- objects */

enum kind { KG, KU, KS, KW, KA, KNONE };

struct ref {
    enum kind k;
    int i;
};

static const char kletter[] = "guswa";
static const int kcount[] = { NG, NU, NS, NW, NA };

static struct ref parse_obj(const char * s)
{
    struct ref r = { KNONE, 0 };
    const char * p = strchr(kletter, s[0]);
    char * end;
    long i;
    if (s[0] == 0 || p == NULL || s[1] == 0) {
        return r;
    }
    i = strtol(s + 1, &end, 10);
    if (*end != 0 || i < 0 || i >= kcount[p - kletter]) {
        return r;
    }
    r.k = (enum kind)(p - kletter);
    r.i = (int)i;
    return r;
}

static struct cstl_guarded_ptr * gp_of(struct ref r)
{
    switch (r.k) {
    case KG: return &G[r.i];
    case KU: return &U[r.i].gp;
    case KS: return &S[r.i].data;
    case KW: return &Wk[r.i].data;
    case KA: return &A[r.i].ptr.data;
    default: return NULL;
    }
}

static void name_self(char * out, size_t outsz, const void * self)
{
    int k, i;
    for (k = 0; k < 5; k++) {
        for (i = 0; i < kcount[k]; i++) {
            struct ref r;
            r.k = (enum kind)k;
            r.i = i;
            if (self == (const void *)gp_of(r)) {
                snprintf(out, outsz, "%c%d", kletter[k], i);
                return;
            }
        }
    }
    snprintf(out, outsz, "?");
}

/* the object currently holds something the library would have to release */
static int holds(struct ref r)
{
    const struct cstl_guarded_ptr * gp = gp_of(r);
    return gp->self == (const void *)gp && gp->ptr != NULL;
}

/* side table: ids of blocks that were seen in an object while live */
static struct { const void * p; int id; } seen[8192];
static int nseen;

static void remember(const void * p)
{
    size_t off;
    int id, i;
    if (p == NULL) {
        return;
    }
    id = h_alloc_find(p, &off);
    if (id <= 0 || off != 0) {
        return;
    }
    for (i = nseen - 1; i >= 0; i--) {
        if (seen[i].p == p) {
            seen[i].id = id;
            return;
        }
    }
    if (nseen < 8192) {
        seen[nseen].p = p;
        seen[nseen].id = id;
        nseen++;
    }
}

static void remember_all(void)
{
    int i;
    for (i = 0; i < NU; i++) remember(U[i].gp.ptr);
    for (i = 0; i < NS; i++) remember(S[i].data.ptr);
    for (i = 0; i < NW; i++) remember(Wk[i].data.ptr);
    for (i = 0; i < NA; i++) remember(A[i].ptr.data.ptr);
}

/* block id of a pointer stored in an object: 0 NULL, -1 unknown */
static long block_of(const void * p)
{
    size_t off;
    int id, i;
    if (p == NULL) {
        return 0;
    }
    id = h_alloc_find(p, &off);
    if (id > 0 && off == 0) {
        return id;
    }
    for (i = nseen - 1; i >= 0; i--) {
        if (seen[i].p == p) {
            return seen[i].id;
        }
    }
    return -1;
}

static void out_block(const void * p)
{
    long id = block_of(p);
    if (id < 0) {
        outf("?");
    } else {
        outf("%ld", id);
    }
}

static int is_live_block(const void * p)
{
    size_t off;
    return p != NULL && h_alloc_find(p, &off) > 0 && off == 0;
}

/* the mirrored private structures are read only from a live block that is large
 * enough to hold them: if the library's layout changed, the dump says so instead
 * of reading past the end of the allocation (that would be a fault of the harness,
 * not of the library) */
static int is_data_block(const void * p)
{
    size_t off;
    int id = p != NULL ? h_alloc_find(p, &off) : 0;
    return id > 0 && off == 0 && h_alloc_size(id) == sizeof(struct m_shared_ptr_data);
}

static int is_desc_block(const void * p)
{
    size_t off;
    int id = p != NULL ? h_alloc_find(p, &off) : 0;
    return id > 0 && off == 0 && h_alloc_size(id) >= sizeof(struct m_raw_array);
}

static void dump_obj(struct ref r, int * first)
{
    const struct cstl_guarded_ptr * gp = gp_of(r);
    int stamped = gp->self == (const void *)gp;
    int dflt = stamped && gp->ptr == NULL;
    char nm[16];

    if (r.k == KU) {
        dflt = dflt && U[r.i].clr.func == NULL && U[r.i].clr.priv == NULL;
    } else if (r.k == KA) {
        dflt = dflt && A[r.i].off == 0 && A[r.i].len == 0;
    }
    if (dflt) {
        return;
    }
    outf(*first ? "%c%d=" : " %c%d=", kletter[r.k], r.i);
    *first = 0;
    if (!stamped) {
        name_self(nm, sizeof(nm), gp->self);
        outf("~%s:", nm);
    }
    switch (r.k) {
    case KG:
        outf("%zu", (size_t)(uintptr_t)gp->ptr);
        break;
    case KU:
        out_block(gp->ptr);
        outf(",c%ld,p%zu", cb_id(U[r.i].clr.func), (size_t)(uintptr_t)U[r.i].clr.priv);
        break;
    case KS:
    case KW:
        out_block(gp->ptr);
        break;
    case KA:
        out_block(gp->ptr);
        outf("+%zu:%zu", A[r.i].off, A[r.i].len);
        if (stamped && gp->ptr != NULL) {
            const struct m_shared_ptr_data * d = gp->ptr;
            const struct m_raw_array * ra = NULL;
            if (is_data_block(d)) {
                ra = d->up.gp.ptr;
            }
            if (ra != NULL && is_desc_block(ra)) {
                long b = -1;
                int e;
                if (ra->buf == (const void *)(ra + 1)) {
                    b = 0;
                }
                for (e = 1; e <= NEXT; e++) {
                    if (ra->buf == (void *)ext[e]) {
                        b = e;
                    }
                }
                if (b < 0) {
                    outf("[%zu,%zu,?]", ra->nm, ra->sz);
                } else {
                    outf("[%zu,%zu,%ld]", ra->nm, ra->sz, b);
                }
            } else {
                outf("[-]");
            }
        }
        break;
    default:
        break;
    }
}

static int cmp_long(const void * a, const void * b)
{
    long x = *(const long *)a, y = *(const long *)b;
    return (x > y) - (x < y);
}

static void dump(void)
{
    int k, i, first = 1;
    long ids[NS + NW + NA];
    const void * ptrs[NS + NW + NA];
    int np = 0;

    ev_sync();
    remember_all();

    outf(" | %s | ", evn ? evbuf + 1 : "-");
    evn = 0;
    evbuf[0] = 0;

    for (k = 0; k < 5; k++) {
        for (i = 0; i < kcount[k]; i++) {
            struct ref r;
            r.k = (enum kind)k;
            r.i = i;
            dump_obj(r, &first);
        }
    }
    if (first) {
        outf("-");
    }

    /* live blocks, ascending id */
    outf(" | ");
    for (i = 0; i < nlive; i++) {
        outf(i ? " %d:%zu" : "%d:%zu", liveids[i], h_alloc_size(liveids[i]));
    }
    if (nlive == 0) {
        outf("-");
    }

    /* bookkeeping blocks referenced by stamped shared/weak/array objects */
    outf(" | ");
    for (k = KS; k <= KA; k++) {
        for (i = 0; i < kcount[k]; i++) {
            struct ref r;
            const struct cstl_guarded_ptr * gp;
            r.k = (enum kind)k;
            r.i = i;
            gp = gp_of(r);
            if (gp->self == (const void *)gp && gp->ptr != NULL) {
                ids[np] = block_of(gp->ptr);
                ptrs[np] = gp->ptr;
                np++;
            }
        }
    }
    if (np == 0) {
        outf("-");
    } else {
        long sorted[NS + NW + NA];
        long prev = -2;
        int j;
        memcpy(sorted, ids, sizeof(long) * (size_t)np);
        qsort(sorted, (size_t)np, sizeof(long), cmp_long);
        first = 1;
        for (j = 0; j < np; j++) {
            const struct m_shared_ptr_data * d = NULL;
            if (sorted[j] == prev) {
                continue;
            }
            prev = sorted[j];
            for (i = 0; i < np; i++) {
                if (ids[i] == prev) {
                    d = ptrs[i];
                }
            }
            if (!first) {
                outf(" ");
            }
            first = 0;
            if (prev < 0) {
                outf("d?");
            } else if (!is_live_block(d)) {
                outf("d%ld=dead", prev);
            } else if (!is_data_block(d)) {
                outf("d%ld=layout?", prev);
            } else {
                outf("d%ld=h%zu,s%zu,m", prev,
                     (size_t)atomic_load(&((struct m_shared_ptr_data *)d)->ref.hard),
                     (size_t)atomic_load(&((struct m_shared_ptr_data *)d)->ref.soft));
                out_block(d->up.gp.ptr);
                outf(",c%ld%s", cb_id(d->up.clr.func),
                     d->up.gp.self == (const void *)&d->up.gp ? "" : ",x");
            }
        }
    }
    out_end();
}

/* ---------------------------------------------------------------- ops */

static void reset(void)
{
    int i;
    h_alloc_reset();
    nseen = 0;
    nlive = 0;
    evn = 0;
    evbuf[0] = 0;
    for (i = 0; i < NG; i++) if (i != 1) { H_POISON_OBJ(G[i]); cstl_guarded_ptr_init(&G[i]); }
    for (i = 0; i < NU; i++) if (i != 1) { H_POISON_OBJ(U[i]); cstl_unique_ptr_init(&U[i]); }
    for (i = 0; i < NS; i++) if (i != 1) { H_POISON_OBJ(S[i]); cstl_shared_ptr_init(&S[i]); }
    for (i = 0; i < NW; i++) if (i != 1) { H_POISON_OBJ(Wk[i]); cstl_weak_ptr_init(&Wk[i]); }
    for (i = 0; i < NA; i++) if (i != 1) { H_POISON_OBJ(A[i]); cstl_array_init(&A[i]); }
}

static int is_size(const char * s)
{
    if (s[0] == 'M') {
        return s[1] == 0 || (s[1] == '-' && s[2] >= '0' && s[2] <= '9');
    }
    return s[0] >= '0' && s[0] <= '9';
}

static void out_ptr(const void * p)
{
    char b[64];
    name_heap(b, sizeof(b), p);
    outf("%s", b);
}

#define IS(r, kk) ((r).k == (kk))

/*
 * smany <s> <n>: n further shared pointers (a separate large pool, outside the
 * allocation ledger) are made co-owners of what s owns and n weak pointers are
 * taken from it; s must not report unique, every co-owner's get equals s's;
 * then all of them are reset again.  Nothing may be allocated, freed or
 * cleared during the whole operation and unique() must be what it was before.
 * Net effect on the state: none.  Result `ok` or `bad <what>`.
 */
void * __real_calloc(size_t, size_t);
void __real_free(void *);

static void smany(cstl_shared_ptr_t * sp, size_t n)
{
    cstl_shared_ptr_t * big = __real_calloc(n + 1, sizeof(*big));
    cstl_weak_ptr_t * wk = __real_calloc(n + 1, sizeof(*wk));
    const char * what = NULL;
    const void * mine;
    const bool was_unique = cstl_shared_ptr_unique(sp);
    size_t i, ev0;

    ev_sync();
    ev0 = evn;
    mine = cstl_shared_ptr_get_const(sp);
    for (i = 0; i < n; i++) {
        cstl_shared_ptr_init(&big[i]);
        cstl_weak_ptr_init(&wk[i]);
    }
    for (i = 0; i < n && what == NULL; i++) {
        cstl_shared_ptr_share(sp, &big[i]);
        cstl_weak_ptr_from(&wk[i], sp);
        if (cstl_shared_ptr_get_const(&big[i]) != mine) {
            what = "co-owner-get-differs";
        }
        if (mine != NULL && cstl_shared_ptr_unique(sp)) {
            what = "unique-with-co-owners";
        }
    }
    for (i = 0; i < n; i++) {
        cstl_shared_ptr_reset(&big[i]);
        ev_sync();
        if (what == NULL && evn != ev0) {
            what = "memory-released-or-cleared-while-an-owner-exists";
        }
        if (what == NULL && cstl_shared_ptr_get_const(sp) != mine) {
            what = "owner-get-changed";
        }
    }
    if (what == NULL && mine != NULL && n > 0 && cstl_shared_ptr_unique(sp)) {
        what = "unique-with-weak-references";
    }
    for (i = 0; i < n; i++) {
        cstl_weak_ptr_reset(&wk[i]);
        ev_sync();
        if (what == NULL && evn != ev0) {
            what = "bookkeeping-released-while-referenced";
        }
    }
    if (what == NULL && cstl_shared_ptr_unique(sp) != was_unique) {
        what = "unique-changed";
    }
    if (what != NULL) {
        outf("bad %s", what);
    } else {
        outf("ok");
    }
    __real_free(wk);
    __real_free(big);
}

/*
 * amany <a> <n>: n further array objects (separate large pool) become views of
 * the whole of a (slice [0, size)); every view addresses the same storage; while
 * they exist a release of a must be refused (NULL, a unchanged); then the views
 * are reset.  Nothing may be allocated, freed or cleared.  Net effect: none.
 */
static void amany(cstl_array_t * a, size_t n)
{
    cstl_array_t * big = __real_calloc(n + 1, sizeof(*big));
    const char * what = NULL;
    const size_t len = cstl_array_size(a);
    const void * first = len > 0 ? cstl_array_at_const(a, 0) : NULL;
    const void * data = cstl_array_data_const(a);
    size_t i, ev0;

    ev_sync();
    ev0 = evn;
    for (i = 0; i < n; i++) {
        cstl_array_init(&big[i]);
    }
    for (i = 0; i < n && what == NULL; i++) {
        cstl_array_slice(a, 0, len, &big[i]);
        if (cstl_array_size(&big[i]) != len || cstl_array_data_const(&big[i]) != data
            || (len > 0 && cstl_array_at_const(&big[i], 0) != first)) {
            what = "view-differs-from-its-source";
        }
    }
    if (what == NULL && n > 0 && data != NULL) {
        void * p = (void *)&p;
        cstl_array_release(a, &p);
        if (p != NULL || cstl_array_size(a) != len || cstl_array_data_const(a) != data) {
            what = "release-not-refused-while-views-exist";
        }
    }
    for (i = 0; i < n; i++) {
        cstl_array_reset(&big[i]);
        ev_sync();
        if (what == NULL && evn != ev0) {
            what = "buffer-released-while-a-view-refers-to-it";
        }
    }
    if (what == NULL && (cstl_array_size(a) != len || cstl_array_data_const(a) != data
                         || (len > 0 && cstl_array_at_const(a, 0) != first))) {
        what = "source-changed";
    }
    if (what != NULL) {
        outf("bad %s", what);
    } else {
        outf("ok");
    }
    __real_free(big);
}

static void op(int argc, char ** argv)
{
    const char * o = argv[0];
    struct ref x = { KNONE, 0 }, y = { KNONE, 0 };
    int bad = 0;

    if (argc >= 2) {
        x = parse_obj(argv[1]);
    }

    if (!strcmp(o, "ginit") && argc == 2 && IS(x, KG)) {
        cstl_guarded_ptr_init(&G[x.i]);
        outf("ok");
    } else if (!strcmp(o, "gset") && argc == 3 && IS(x, KG) && is_size(argv[2])) {
        cstl_guarded_ptr_set(&G[x.i], (void *)(uintptr_t)h_size(argv[2]));
        outf("ok");
    } else if (!strcmp(o, "gget") && argc == 2 && IS(x, KG)) {
        outf("%zu", (size_t)(uintptr_t)cstl_guarded_ptr_get(&G[x.i]));
    } else if (!strcmp(o, "gcopy") && argc == 3 && IS(x, KG) && IS(y = parse_obj(argv[2]), KG)) {
        cstl_guarded_ptr_copy(&G[x.i], &G[y.i]);
        outf("ok");
    } else if (!strcmp(o, "gswap") && argc == 3 && IS(x, KG) && IS(y = parse_obj(argv[2]), KG)) {
        cstl_guarded_ptr_swap(&G[x.i], &G[y.i]);
        outf("ok");

    } else if (!strcmp(o, "uinit") && argc == 2 && IS(x, KU) && !holds(x)) {
        cstl_unique_ptr_init(&U[x.i]);
        outf("ok");
    } else if (!strcmp(o, "ualloc") && argc == 6 && IS(x, KU) && is_size(argv[2])
               && is_size(argv[3]) && is_size(argv[4])) {
        h_alloc_plan(argv[5]);
        cstl_unique_ptr_alloc(&U[x.i], h_size(argv[2]), cb_of(h_size(argv[3])),
                              (void *)(uintptr_t)h_size(argv[4]));
        outf("ok");
    } else if (!strcmp(o, "uget") && argc == 2 && IS(x, KU)) {
        out_ptr(cstl_unique_ptr_get(&U[x.i]));
    } else if (!strcmp(o, "urelease") && argc == 2 && IS(x, KU)) {
        cstl_xtor_func_t * f = NULL;
        void * priv = NULL;
        void * p = cstl_unique_ptr_release(&U[x.i], &f, &priv);
        out_ptr(p);
        outf(" c%ld p%zu", cb_id(f), (size_t)(uintptr_t)priv);
        /* the caller is now responsible: clear function, then free */
        if (f != NULL) {
            f(p, priv);
        }
        free(p);
    } else if (!strcmp(o, "uswap") && argc == 3 && IS(x, KU) && IS(y = parse_obj(argv[2]), KU)) {
        cstl_unique_ptr_swap(&U[x.i], &U[y.i]);
        outf("ok");
    } else if (!strcmp(o, "ureset") && argc == 2 && IS(x, KU)) {
        cstl_unique_ptr_reset(&U[x.i]);
        outf("ok");

    } else if (!strcmp(o, "sinit") && argc == 2 && IS(x, KS) && !holds(x)) {
        cstl_shared_ptr_init(&S[x.i]);
        outf("ok");
    } else if (!strcmp(o, "salloc") && argc == 5 && IS(x, KS) && is_size(argv[2]) && is_size(argv[3])) {
        h_alloc_plan(argv[4]);
        cstl_shared_ptr_alloc(&S[x.i], h_size(argv[2]), cb_of(h_size(argv[3])));
        outf("ok");
    } else if (!strcmp(o, "sunique") && argc == 2 && IS(x, KS)) {
        outf("%d", cstl_shared_ptr_unique(&S[x.i]) ? 1 : 0);
    } else if (!strcmp(o, "sget") && argc == 2 && IS(x, KS)) {
        out_ptr(cstl_shared_ptr_get(&S[x.i]));
    } else if (!strcmp(o, "sshare") && argc == 3 && IS(x, KS) && IS(y = parse_obj(argv[2]), KS)) {
        cstl_shared_ptr_share(&S[x.i], &S[y.i]);
        outf("ok");
    } else if (!strcmp(o, "sswap") && argc == 3 && IS(x, KS) && IS(y = parse_obj(argv[2]), KS)) {
        cstl_shared_ptr_swap(&S[x.i], &S[y.i]);
        outf("ok");
    } else if (!strcmp(o, "amany") && argc == 3 && IS(x, KA) && is_size(argv[2]) && h_size(argv[2]) <= 1000000) {
        amany(&A[x.i], h_size(argv[2]));
    } else if (!strcmp(o, "smany") && argc == 3 && IS(x, KS) && is_size(argv[2]) && h_size(argv[2]) <= 1000000) {
        smany(&S[x.i], h_size(argv[2]));
    } else if (!strcmp(o, "sreset") && argc == 2 && IS(x, KS)) {
        cstl_shared_ptr_reset(&S[x.i]);
        outf("ok");

    } else if (!strcmp(o, "winit") && argc == 2 && IS(x, KW) && !holds(x)) {
        cstl_weak_ptr_init(&Wk[x.i]);
        outf("ok");
    } else if (!strcmp(o, "wfrom") && argc == 3 && IS(x, KW) && IS(y = parse_obj(argv[2]), KS)) {
        cstl_weak_ptr_from(&Wk[x.i], &S[y.i]);
        outf("ok");
    } else if (!strcmp(o, "wlock") && argc == 3 && IS(x, KW) && IS(y = parse_obj(argv[2]), KS)) {
        cstl_weak_ptr_lock(&Wk[x.i], &S[y.i]);
        outf("ok");
    } else if (!strcmp(o, "wswap") && argc == 3 && IS(x, KW) && IS(y = parse_obj(argv[2]), KW)) {
        cstl_weak_ptr_swap(&Wk[x.i], &Wk[y.i]);
        outf("ok");
    } else if (!strcmp(o, "wreset") && argc == 2 && IS(x, KW)) {
        cstl_weak_ptr_reset(&Wk[x.i]);
        outf("ok");

    } else if (!strcmp(o, "ainit") && argc == 2 && IS(x, KA) && !holds(x)) {
        cstl_array_init(&A[x.i]);
        outf("ok");
    } else if (!strcmp(o, "asize") && argc == 2 && IS(x, KA)) {
        outf("%zu", cstl_array_size(&A[x.i]));
    } else if (!strcmp(o, "aset") && argc == 6 && IS(x, KA) && argv[2][0] == 'E'
               && is_size(argv[3]) && is_size(argv[4])) {
        long e = atol(argv[2] + 1);
        size_t nm = h_size(argv[3]), sz = h_size(argv[4]), bytes;
        if (e < 1 || e > NEXT || __builtin_mul_overflow(nm, sz, &bytes) || bytes > EXTSZ) {
            bad = 1;
        } else {
            h_alloc_plan(argv[5]);
            cstl_array_set(&A[x.i], ext[e], nm, sz);
            outf("ok");
        }
    } else if (!strcmp(o, "arelease") && argc == 2 && IS(x, KA)) {
        void * b = (void *)ext[0];
        cstl_array_release(&A[x.i], &b);
        out_ptr(b);
    } else if (!strcmp(o, "aalloc") && argc == 5 && IS(x, KA) && is_size(argv[2]) && is_size(argv[3])) {
        h_alloc_plan(argv[4]);
        cstl_array_alloc(&A[x.i], h_size(argv[2]), h_size(argv[3]));
        outf("ok");
    } else if (!strcmp(o, "areset") && argc == 2 && IS(x, KA)) {
        cstl_array_reset(&A[x.i]);
        outf("ok");
    } else if (!strcmp(o, "adata") && argc == 2 && IS(x, KA)) {
        out_ptr(cstl_array_data(&A[x.i]));
    } else if (!strcmp(o, "aat") && argc == 3 && IS(x, KA) && is_size(argv[2])) {
        out_ptr(cstl_array_at(&A[x.i], h_size(argv[2])));
    } else if (!strcmp(o, "aslice") && argc == 5 && IS(x, KA) && is_size(argv[2]) && is_size(argv[3])
               && IS(y = parse_obj(argv[4]), KA)) {
        cstl_array_slice(&A[x.i], h_size(argv[2]), h_size(argv[3]), &A[y.i]);
        outf("ok");
    } else if (!strcmp(o, "aunslice") && argc == 3 && IS(x, KA) && IS(y = parse_obj(argv[2]), KA)) {
        cstl_array_unslice(&A[x.i], &A[y.i]);
        outf("ok");

    } else if ((!strcmp(o, "rcopy") || !strcmp(o, "rmemcpy")) && argc == 3 && x.k != KNONE
               && (y = parse_obj(argv[2])).k == x.k && !holds(x)
               && (x.i == y.i || gp_of(y)->self != (void *)gp_of(x))) {
        int mc = o[1] == 'm' && x.i != y.i;
        switch (x.k) {
        case KG: if (mc) memcpy(&G[x.i], &G[y.i], sizeof(G[0])); else G[x.i] = G[y.i]; break;
        case KU: if (mc) memcpy(&U[x.i], &U[y.i], sizeof(U[0])); else U[x.i] = U[y.i]; break;
        case KS: if (mc) memcpy(&S[x.i], &S[y.i], sizeof(S[0])); else S[x.i] = S[y.i]; break;
        case KW: if (mc) memcpy(&Wk[x.i], &Wk[y.i], sizeof(Wk[0])); else Wk[x.i] = Wk[y.i]; break;
        case KA: if (mc) memcpy(&A[x.i], &A[y.i], sizeof(A[0])); else A[x.i] = A[y.i]; break;
        default: break;
        }
        outf("ok");
    } else {
        bad = 1;
    }
    if (bad) {
        h_stop("bad-op");
        return;
    }
    dump();
}

int main(void)
{
    static const struct h_area a = { reset, op };
    return h_main(&a);
}
