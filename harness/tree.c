/*
 * Harness for src/bintree.c, src/rbtree.c and src/map.c: same line protocol
 * and state dump as lean/Cstl/Tree/Main.lean (see the op list there).
 *
 * Canonical names: NULL = 0, element i of a tree's pool = i (1..NE), a map
 * node = the block id the allocation interposer gave it, a key object = its
 * index in kobj[], a value object = its index in vobj[].  The dump walks the
 * real links from the root, checks every child's parent link (and the root's
 * NULL parent) and prints links=bad@<id> instead of the shape on a mismatch.
 * The private struct of map.c is not mirrored: the stored key/value pointers
 * of a node are recovered through cstl_map_find, the node address through the
 * tree's `off` members.
 */
#include "common.h"
#include "cstl/bintree.h"
#include "cstl/rbtree.h"
#include "cstl/map.h"

#include <stdio.h>
#include <stdlib.h>
#include <string.h>

#if defined(__SANITIZE_ADDRESS__)
#include <sanitizer/asan_interface.h>
#define POISON(p, n) ASAN_POISON_MEMORY_REGION(p, n)
#define UNPOISON(p, n) ASAN_UNPOISON_MEMORY_REGION(p, n)
#else
#define POISON(p, n) ((void)0)
#define UNPOISON(p, n) ((void)0)
#endif

#define NE 600
#define NKO 64
#define NV 8

/*
 * Every element carries TWO hooks: the trees `bt` / `rb` are initialised with the
 * offset of `n`, their swap partners `bt2` / `rb2` with the offset of `n2`, so that
 * a swap exchanges trees anchored at different offsets (cf. harness/dlist.c).  An
 * element is in at most one tree at a time.
 */
struct bte {
    long long key;      /* what the comparison functions read: the key, negated when `neg` */
    int neg;
    struct cstl_bintree_node n;
    long pad;
    struct cstl_bintree_node n2;
};

struct rbe {
    long long key;
    int neg;
    struct cstl_rbtree_node n;
    long pad;
    struct cstl_rbtree_node n2;
};

/* bt / rb: the objects the operations address; bt2 / rb2: their swap partners (same element
 * pool).  `swap` calls the library's swap on the two objects; `alt` only switches which OBJECT the
 * following operations address (no library call), so both objects get used after a swap. */
static struct cstl_bintree bt_obj[2];
static struct cstl_rbtree rb_obj[2];
static struct cstl_bintree * BTP = &bt_obj[0], * BTP2 = &bt_obj[1];
static struct cstl_rbtree * RBP = &rb_obj[0], * RBP2 = &rb_obj[1];
/* The swap partners are initialised with comparison functions that order by the NEGATED stored
 * key; a swap exchanges the comparison functions with the contents.  The harness tracks which
 * function each object must have by now and stores keys negated where the object addressed is
 * supposed to compare negations, so that under a correct library every tree is ordered by the
 * keys the script names (cf. harness/heap.c). */
static int bt_neg[2], rb_neg[2];
#define BT_ADDR_NEG (bt_neg[BTP == &bt_obj[0] ? 0 : 1])
#define RB_ADDR_NEG (rb_neg[RBP == &rb_obj[0] ? 0 : 1])
#define SETKEY(el, v, negflag) do { (el).neg = (negflag); \
        (el).key = (el).neg ? -(long long)(int)(v) : (long long)(int)(v); } while (0)
#define PRIO(e) ((e)->neg ? -(e)->key : (e)->key)
#define bt (*BTP)
#define bt2 (*BTP2)
#define rb (*RBP)
#define rb2 (*RBP2)
static cstl_map_t map;

static struct bte btpool[NE + 1];
static struct rbe rbpool[NE + 1];
static char bt_in[NE + 1], rb_in[NE + 1];
static struct cstl_bintree_node poisonv[3];

static int kobj[NKO], vobj[NV], probe;
static int hash_mode;

enum { K_BT = 0, K_RB = 1, K_MAP = 2 };

/* ------------------------------------------------------------------ */
/* canonical names */

static long bt_id(const struct cstl_bintree_node * bn)
{
    ptrdiff_t d = (const char *)bn - (const char *)btpool, r;
    if (bn == NULL) {
        return 0;
    }
    if (d < 0 || d >= (ptrdiff_t)sizeof(btpool)) {
        return -1;
    }
    r = d % (ptrdiff_t)sizeof(struct bte);
    if (r != (ptrdiff_t)offsetof(struct bte, n) && r != (ptrdiff_t)offsetof(struct bte, n2)) {
        return -1;
    }
    return (long)(d / (ptrdiff_t)sizeof(struct bte));
}

static long rb_id(const struct cstl_bintree_node * bn)
{
    ptrdiff_t d = (const char *)bn - (const char *)rbpool, r;
    if (bn == NULL) {
        return 0;
    }
    if (d < 0 || d >= (ptrdiff_t)sizeof(rbpool)) {
        return -1;
    }
    r = d % (ptrdiff_t)sizeof(struct rbe);
    if (r != (ptrdiff_t)(offsetof(struct rbe, n) + offsetof(struct cstl_rbtree_node, n))
        && r != (ptrdiff_t)(offsetof(struct rbe, n2) + offsetof(struct cstl_rbtree_node, n))) {
        return -1;
    }
    return (long)(d / (ptrdiff_t)sizeof(struct rbe));
}

static const void * map_base(const struct cstl_bintree_node * bn)
{
    return (const char *)bn - map.t.t.off;
}

static long map_id(const struct cstl_bintree_node * bn)
{
    size_t off = 0;
    int id;
    if (bn == NULL) {
        return 0;
    }
    id = h_alloc_find(map_base(bn), &off);
    if (id == 0 || off != 0) {
        return -1;
    }
    return id;
}

static long id_of(int kind, const struct cstl_bintree_node * bn)
{
    return kind == K_BT ? bt_id(bn) : kind == K_RB ? rb_id(bn) : map_id(bn);
}

static const void * elem_of(int kind, const struct cstl_bintree_node * bn)
{
    const struct cstl_bintree * t = kind == K_BT ? &bt : kind == K_RB ? &rb.t : &map.t.t;
    return (const char *)bn - t->off;
}

static long elem_id(int kind, const void * e)
{
    const struct cstl_bintree * t = kind == K_BT ? &bt : kind == K_RB ? &rb.t : &map.t.t;
    if (e == NULL) {
        return 0;
    }
    return id_of(kind, (const struct cstl_bintree_node *)((const char *)e + t->off));
}

static int is_red(const struct cstl_bintree_node * bn)
{
    const struct cstl_rbtree_node * rn = (const struct cstl_rbtree_node *)
        ((const char *)bn - offsetof(struct cstl_rbtree_node, n));
    return rn->c == CSTL_RBTREE_COLOR_R;
}

/*
 * Key object 1 (the second object of key 0) is the NULL pointer: the map never
 * dereferences keys, it only hands them to the caller's comparison function,
 * so NULL is a legitimate key for a comparator that gives it a meaning (here:
 * key value 0).  Values are never NULL, so an entry never looks like the end
 * iterator.
 */
#define KO_NULL 1
#define KP(ko) ((ko) == KO_NULL ? NULL : (void *)&kobj[ko])
/* value object 0 is the NULL pointer as well (a set: keys without values), so the
 * entry (NULL key -> NULL value) exists; whether an iterator denotes an entry is
 * decided by the return code / the node handle, never by its pointers being NULL */
#define VO_NULL 0
#define VP(v) ((v) == VO_NULL ? NULL : (void *)&vobj[v])

static long kp_id(const void * p)
{
    ptrdiff_t d = (const char *)p - (const char *)kobj;
    if (p == NULL) {
        return KO_NULL;
    }
    if (p == &probe) {
        return -2;
    }
    if (d < 0 || d >= (ptrdiff_t)sizeof(kobj) || d % (ptrdiff_t)sizeof(int) != 0) {
        return -3;
    }
    return (long)(d / (ptrdiff_t)sizeof(int));
}

static long v_id(const void * p)
{
    ptrdiff_t d = (const char *)p - (const char *)vobj;
    if (p == NULL) {
        return VO_NULL;
    }
    if (d < 0 || d >= (ptrdiff_t)sizeof(vobj) || d % (ptrdiff_t)sizeof(int) != 0) {
        return -3;
    }
    return (long)(d / (ptrdiff_t)sizeof(int));
}

/* map: node address -> (key, key object, value object), through the public find */
static struct { const void * node; long k, kp, v; } mtab[NKO];
static int nmtab;

static void map_scan(void)
{
    int k;
    nmtab = 0;
    for (k = 0; k < NKO / 2; k++) {
        cstl_map_iterator_t it;
        probe = k;
        cstl_map_find(&map, &probe, &it);
        if (it._ != NULL) {
            mtab[nmtab].node = it._;
            mtab[nmtab].k = k;
            mtab[nmtab].kp = kp_id(it.key);
            mtab[nmtab].v = v_id(it.val);
            nmtab++;
        }
    }
}

static int map_lookup(const struct cstl_bintree_node * bn)
{
    const void * b = map_base(bn);
    int i;
    for (i = 0; i < nmtab; i++) {
        if (mtab[i].node == b) {
            return i;
        }
    }
    return -1;
}

/* ------------------------------------------------------------------ */
/* dump */

static long bad;
static size_t seen, seen_limit;

static void verify(int kind, const struct cstl_bintree_node * bn, const struct cstl_bintree_node * parent)
{
    long id;
    if (bad != 0 || bn == NULL) {
        return;
    }
    if (++seen > seen_limit) {
        bad = -2;
        return;
    }
    id = id_of(kind, bn);
    if (id <= 0) {
        bad = -1;
        return;
    }
    if (bn->p != parent) {
        bad = id;
        return;
    }
    verify(kind, bn->l, bn);
    verify(kind, bn->r, bn);
}

static void shape(int kind, const struct cstl_bintree_node * bn)
{
    if (bn == NULL) {
        outf(".");
        return;
    }
    if (kind == K_BT) {
        outf("(%ld:%d ", bt_id(bn), (int)PRIO((const struct bte *)elem_of(kind, bn)));
    } else if (kind == K_RB) {
        outf("(%ld:%d%s ", rb_id(bn), (int)PRIO((const struct rbe *)elem_of(kind, bn)), is_red(bn) ? "R" : "B");
    } else {
        int i = map_lookup(bn);
        if (i >= 0) {
            outf("(%ld:%ld:%ld:%ld%s ", map_id(bn), mtab[i].k, mtab[i].kp, mtab[i].v, is_red(bn) ? "R" : "B");
        } else {
            outf("(%ld:?:?:?%s ", map_id(bn), is_red(bn) ? "R" : "B");
        }
    }
    shape(kind, bn->l);
    outf(" ");
    shape(kind, bn->r);
    outf(")");
}

static uint64_t mix(uint64_t h, uint64_t x)
{
    return h * 1099511628211ULL + x;
}

static uint64_t digest(int kind, const struct cstl_bintree_node * bn, uint64_t h)
{
    if (bn == NULL) {
        return mix(h, 0);
    }
    h = mix(h, 7);
    h = mix(h, (uint64_t)id_of(kind, bn));
    if (kind == K_BT) {
        h = mix(h, (uint64_t)(int64_t)(int)PRIO((const struct bte *)elem_of(kind, bn)));
    } else if (kind == K_RB) {
        h = mix(h, (uint64_t)(int64_t)(int)PRIO((const struct rbe *)elem_of(kind, bn)));
        h = mix(h, is_red(bn) ? 1 : 2);
    } else {
        int i = map_lookup(bn);
        h = mix(h, (uint64_t)(int64_t)(i >= 0 ? mtab[i].k : -1));
        h = mix(h, is_red(bn) ? 1 : 2);
        h = mix(h, (uint64_t)(int64_t)(i >= 0 ? mtab[i].kp : -1));
        h = mix(h, (uint64_t)(int64_t)(i >= 0 ? mtab[i].v : -1));
    }
    h = digest(kind, bn->l, h);
    return digest(kind, bn->r, h);
}

static void dump(int kind, int full)
{
    const struct cstl_bintree * t = kind == K_BT ? &bt : kind == K_RB ? &rb.t : &map.t.t;
    size_t mn = 0, mx = 0;

    outf(" | n=%zu ", cstl_bintree_size(t));
    bad = 0;
    seen = 0;
    seen_limit = cstl_bintree_size(t) + NE + 8;
    verify(kind, t->root, NULL);
    if (bad != 0) {
        outf("links=bad@%ld", bad);
    } else {
        if (kind == K_BT) {
            cstl_bintree_height(&bt, &mn, &mx);
        } else if (kind == K_RB) {
            cstl_rbtree_height(&rb, &mn, &mx);
        } else {
            cstl_rbtree_height(&map.t, &mn, &mx);
            map_scan();
        }
        outf("h=%zu/%zu ", mn, mx);
        if (hash_mode && !full) {
            outf("x=%llu", (unsigned long long)digest(kind, t->root, 1469598103934665603ULL));
        } else {
            shape(kind, t->root);
        }
    }
    if (kind == K_MAP) {
        outf(" live=%d", h_alloc_live());
    }
    out_end();
}

/* ------------------------------------------------------------------ */
/* callbacks */

static int cmp_bt(const void * a, const void * b, void * p)
{
    h_priv_check(p, 1);
    return h_cmp_result(((const struct bte *)a)->key, ((const struct bte *)b)->key);
}

static int cmp_bt_rev(const void * a, const void * b, void * p)
{
    h_priv_check(p, 1);
    return h_cmp_result(-((const struct bte *)a)->key, -((const struct bte *)b)->key);
}

static int cmp_rb(const void * a, const void * b, void * p)
{
    h_priv_check(p, 2);
    return h_cmp_result(((const struct rbe *)a)->key, ((const struct rbe *)b)->key);
}

static int cmp_rb_rev(const void * a, const void * b, void * p)
{
    h_priv_check(p, 2);
    return h_cmp_result(-((const struct rbe *)a)->key, -((const struct rbe *)b)->key);
}

/*
 * The map's comparison function calls back into the library: it looks both keys up
 * in a second map (`rankmap`, key -> rank, filled once per script outside the
 * allocation ledger) and compares the ranks.  rank(k) = 2k+1, so the order is the
 * order of the keys; a lookup nested inside another map operation is legitimate
 * use of the library (a map ordered by a table kept in another map).
 */
static cstl_map_t rankmap;
static int rankkey[NKO], rankval[NKO];

static int cmp_rankkey(const void * a, const void * b, void * p)
{
    const int x = *(const int *)a, y = *(const int *)b;
    (void)p;
    return (x > y) - (x < y);
}

static int rank_of(int k)
{
    cstl_map_iterator_t it;
    if (k < 0 || k >= NKO) {
        return 2 * k + 1;
    }
    cstl_map_find(&rankmap, &k, &it);
    return it.val != NULL ? *(const int *)it.val : -1000000;
}

static int cmp_key(const void * a, const void * b, void * p)
{
    const int x = a ? *(const int *)a : 0, y = b ? *(const int *)b : 0;
    int rx, ry;
    h_priv_check(p, 3);
    /* sequenced: the lookup for the second key is the last nested one */
    rx = rank_of(x);
    ry = rank_of(y);
    return h_cmp_result(rx, ry);
}

#define MAXEV (3 * NE + 8)
static struct { long id; int ord; } evs[MAXEV];
static int nev, stop_at, cur_kind;

static int visit(const void * e, cstl_bintree_visit_order_t ord, void * p)
{
    h_priv_check(p, 4);
    if (nev < MAXEV) {
        evs[nev].id = elem_id(cur_kind, e);
        evs[nev].ord = (int)ord;
    }
    return nev++ == stop_at ? h_stop_value(stop_at) : 0;
}

static void print_evs(void)
{
    int i;
    outf("[");
    for (i = 0; i < nev && i < MAXEV; i++) {
        const char * o = evs[i].ord == CSTL_BINTREE_VISIT_ORDER_PRE ? "P" :
                         evs[i].ord == CSTL_BINTREE_VISIT_ORDER_MID ? "M" :
                         evs[i].ord == CSTL_BINTREE_VISIT_ORDER_POST ? "O" :
                         evs[i].ord == CSTL_BINTREE_VISIT_ORDER_LEAF ? "L" : "?";
        outf(i ? ",%ld:%s" : "%ld:%s", evs[i].id, o);
    }
    outf("]");
}

static long cleared[NE + 1];
static int ncleared;

/* the callee owns the element from now on: scribble over its links and
 * make any later access by the library an AddressSanitizer report */
static void clr_bt(void * e, void * p)
{
    struct bte * el = e;
    h_priv_check(p, 5);
    if (ncleared < NE) {
        cleared[ncleared++] = elem_id(K_BT, e);
    }
    el->n.p = el->n2.p = &poisonv[0];
    el->n.l = el->n2.l = &poisonv[1];
    el->n.r = el->n2.r = &poisonv[2];
    POISON(el, sizeof(*el));
}

static void clr_rb(void * e, void * p)
{
    struct rbe * el = e;
    h_priv_check(p, 6);
    if (ncleared < NE) {
        cleared[ncleared++] = elem_id(K_RB, e);
    }
    el->n.n.p = el->n2.n.p = &poisonv[0];
    el->n.n.l = el->n2.n.l = &poisonv[1];
    el->n.n.r = el->n2.n.r = &poisonv[2];
    POISON(el, sizeof(*el));
}

/* map event log: allocation events interleaved with clear callbacks */
static char mlog[1 << 15];
static size_t mloglen;

static void mlog_add(const char * s)
{
    size_t n = strlen(s);
    if (mloglen + n + 2 < sizeof(mlog)) {
        if (mloglen) {
            mlog[mloglen++] = ',';
        }
        memcpy(mlog + mloglen, s, n);
        mloglen += n;
        mlog[mloglen] = 0;
    }
}

/* " A3:48 F2 A!48" -> A3,F2,A!  (sizes dropped: the node layout is private) */
static void mlog_alloc(void)
{
    const char * s = h_alloc_take();
    char tok[64];
    while (*s) {
        size_t n = 0;
        while (*s == ' ') {
            s++;
        }
        while (*s && *s != ' ' && n + 1 < sizeof(tok)) {
            tok[n++] = *s++;
        }
        tok[n] = 0;
        if (n == 0) {
            break;
        }
        if (tok[0] == 'A' && tok[1] == '!') {
            tok[2] = 0;
        } else {
            char * c = strchr(tok, ':');
            if (c) {
                *c = 0;
            }
        }
        mlog_add(tok);
    }
}

static void clr_map(void * e, void * p)
{
    const cstl_map_iterator_t * it = e;
    char b[64];
    h_priv_check(p, 7);
    mlog_alloc();
    snprintf(b, sizeof(b), "C%ld:%ld%s", kp_id(it->key), v_id(it->val), it->_ == NULL ? "" : "!attached");
    mlog_add(b);
}

/* present: the operation reported an entry (return code 0/1, or a node handle);
 * otherwise the iterator must be the end iterator (all three fields NULL) */
static void print_iter(const cstl_map_iterator_t * it, int detached, int present)
{
    if (!present) {
        if (it->_ == NULL && it->key == NULL && it->val == NULL) {
            outf("end");
        } else {
            outf("notend(%s,%s,%s)", it->key ? "k" : "0", it->val ? "v" : "0", it->_ ? "n" : "0");
        }
    } else if (detached) {
        outf("(%ld,%ld,%d)", kp_id(it->key), v_id(it->val), it->_ == NULL ? 0 : -1);
    } else {
        size_t off = 0;
        int id = it->_ ? h_alloc_find(it->_, &off) : 0;
        outf("(%ld,%ld,%d", kp_id(it->key), v_id(it->val), id);
        if (off != 0) {
            outf("+%zu", off);
        }
        outf(")");
    }
}

/* ------------------------------------------------------------------ */

/* the node at in-order position *rank (counted down to 0 while walking) */
static const struct cstl_bintree_node * nth_inorder(const struct cstl_bintree_node * bn, size_t * rank)
{
    const struct cstl_bintree_node * r;
    if (bn == NULL) {
        return NULL;
    }
    r = nth_inorder(bn->l, rank);
    if (r != NULL) {
        return r;
    }
    if (*rank == 0) {
        return bn;
    }
    (*rank)--;
    return nth_inorder(bn->r, rank);
}

/* element id 0 in an insert: the lowest id that is not in the tree */
static long auto_id(const char * in, long id)
{
    if (id == 0) {
        for (id = 1; id <= NE && in[id]; id++)
            ;
    }
    return id;
}

static void reset(void)
{
    int i;
    memset(btpool, 0, sizeof(btpool));
    memset(rbpool, 0, sizeof(rbpool));
    memset(bt_in, 0, sizeof(bt_in));
    memset(rb_in, 0, sizeof(rb_in));
    for (i = 0; i < NKO; i++) {
        kobj[i] = i / 2;
    }
    hash_mode = 0;
    {
        static const struct cstl_bintree bt_twin = CSTL_BINTREE_INITIALIZER(struct bte, n, cmp_bt, H_PRIV(1));
        static const struct cstl_rbtree rb_twin = CSTL_RBTREE_INITIALIZER(struct rbe, n, cmp_rb, H_PRIV(2));
        struct cstl_bintree zb;
        struct cstl_rbtree zr;
        memset(&zb, 0, sizeof(zb));
        memset(&zr, 0, sizeof(zr));
        cstl_bintree_init(&zb, cmp_bt, H_PRIV(1), offsetof(struct bte, n));
        cstl_rbtree_init(&zr, cmp_rb, H_PRIV(2), offsetof(struct rbe, n));
        if (memcmp(&zb, &bt_twin, sizeof(zb)) != 0 || memcmp(&zr, &rb_twin, sizeof(zr)) != 0) {
            h_init_mismatch = 1;
        }
    }
    BTP = &bt_obj[0];
    BTP2 = &bt_obj[1];
    RBP = &rb_obj[0];
    RBP2 = &rb_obj[1];
    H_POISON_OBJ(bt);
    H_POISON_OBJ(rb);
    H_POISON_OBJ(bt2);
    H_POISON_OBJ(rb2);
    cstl_bintree_init(&bt2, cmp_bt_rev, H_PRIV(1), offsetof(struct bte, n2));
    cstl_rbtree_init(&rb2, cmp_rb_rev, H_PRIV(2), offsetof(struct rbe, n2));
    bt_neg[0] = rb_neg[0] = 0;
    bt_neg[1] = rb_neg[1] = 1;
    H_POISON_OBJ(map);
    cstl_bintree_init(&bt, cmp_bt, H_PRIV(1), offsetof(struct bte, n));
    cstl_rbtree_init(&rb, cmp_rb, H_PRIV(2), offsetof(struct rbe, n));
    cstl_map_init(&map, cmp_key, H_PRIV(3));
    h_alloc_reset();
    h_alloc_arm(0);
    /* the rank table used by cmp_key (allocated with the ledger disarmed) */
    cstl_map_init(&rankmap, cmp_rankkey, NULL);
    for (i = 0; i < NKO; i++) {
        rankkey[i] = i;
        rankval[i] = 2 * i + 1;
        cstl_map_insert(&rankmap, &rankkey[i], &rankval[i], NULL);
    }
}

static void op_map(int argc, char ** argv)
{
    const char * o = argc > 1 ? argv[1] : "";
    int full = 0;

    mloglen = 0;
    mlog[0] = 0;
    if (!strcmp(o, "ins") && argc == 5) {
        long ko = atol(argv[2]), v = atol(argv[3]), a = atol(argv[4]);
        cstl_map_iterator_t it;
        int r;
        if (ko < 0 || ko >= NKO || v < 0 || v >= NV || a < 0 || a > 1) {
            h_stop("bad-op");
            return;
        }
        h_alloc_plan(a ? "1" : "0");
        h_alloc_arm(1);
        r = cstl_map_insert(&map, KP(ko), VP(v), &it);
        h_alloc_arm(0);
        mlog_alloc();
        outf("r=%d it=", r);
        print_iter(&it, 0, r == 0 || r == 1);
        outf(" log=[%s]", mlog);
    } else if (!strcmp(o, "find") && argc == 3) {
        cstl_map_iterator_t it;
        probe = (int)h_int(argv[2]);
        /* key 0 is looked up through the NULL key pointer (see KO_NULL) */
        cstl_map_find(&map, probe == 0 ? NULL : &probe, &it);
        outf("it=");
        print_iter(&it, 0, it._ != NULL);
    } else if (!strcmp(o, "erase") && argc == 3) {
        cstl_map_iterator_t it;
        int r;
        probe = (int)h_int(argv[2]);
        h_alloc_plan("");
        h_alloc_arm(1);
        r = cstl_map_erase(&map, probe == 0 ? NULL : &probe, &it);
        h_alloc_arm(0);
        mlog_alloc();
        outf("r=%d it=", r);
        print_iter(&it, 1, r == 0);
        outf(" log=[%s]", mlog);
    } else if (!strcmp(o, "erasen") && argc == 3) {
        /* erase without asking for the removed entry's pointers (iterator argument NULL) */
        int r;
        probe = (int)h_int(argv[2]);
        h_alloc_plan("");
        h_alloc_arm(1);
        r = cstl_map_erase(&map, probe == 0 ? NULL : &probe, NULL);
        h_alloc_arm(0);
        mlog_alloc();
        outf("r=%d it=- log=[%s]", r, mlog);
    } else if (!strcmp(o, "eraseit") && argc == 3) {
        cstl_map_iterator_t it;
        probe = (int)h_int(argv[2]);
        cstl_map_find(&map, &probe, &it);
        outf("it=");
        print_iter(&it, 0, it._ != NULL);
        if (it._ != NULL) {
            h_alloc_plan("");
            h_alloc_arm(1);
            cstl_map_erase_iterator(&map, &it);
            h_alloc_arm(0);
            mlog_alloc();
        }
        outf(" log=[%s]", mlog);
    } else if ((!strcmp(o, "clear") || !strcmp(o, "clear0")) && argc == 2) {
        h_alloc_plan("");
        h_alloc_arm(1);
        cstl_map_clear(&map, o[5] ? NULL : clr_map, H_PRIV(7));
        h_alloc_arm(0);
        mlog_alloc();
        outf("log=[%s]", mlog);
    } else if (!strcmp(o, "show") && argc == 2) {
        outf("ok");
        full = 1;
    } else {
        h_stop("bad-op");
        return;
    }
    dump(K_MAP, full);
}

static void op(int argc, char ** argv)
{
    const char * c = argv[0], * o = argc > 1 ? argv[1] : "";
    int kind, full = 0;
    char * in;

    if (!strcmp(c, "mode") && argc == 2 && (!strcmp(argv[1], "hash") || !strcmp(argv[1], "full"))) {
        hash_mode = !strcmp(argv[1], "hash");
        outf("ok |");
        out_end();
        return;
    }
    if (!strcmp(c, "map")) {
        op_map(argc, argv);
        return;
    }
    if (!strcmp(c, "bt")) {
        kind = K_BT;
        in = bt_in;
    } else if (!strcmp(c, "rb")) {
        kind = K_RB;
        in = rb_in;
    } else {
        h_stop("bad-op");
        return;
    }
    cur_kind = kind;

    if ((!strcmp(o, "ins") || !strcmp(o, "insh")) && argc == 4) {
        long id = auto_id(in, atol(argv[2]));
        int hinted = o[3] == 'h';
        const void * par = NULL;
        if (id < 1 || id > NE || in[id]) {
            h_stop("bad-op");
            return;
        }
        if (kind == K_BT) {
            SETKEY(btpool[id], h_int(argv[3]), BT_ADDR_NEG);
            if (hinted) {
                cstl_bintree_find(&bt, &btpool[id], &par);
            }
            cstl_bintree_insert(&bt, &btpool[id], (void *)par);
        } else {
            SETKEY(rbpool[id], h_int(argv[3]), RB_ADDR_NEG);
            if (hinted) {
                cstl_rbtree_find(&rb, &rbpool[id], &par);
            }
            cstl_rbtree_insert(&rb, &rbpool[id], (void *)par);
        }
        in[id] = 1;
        if (hinted) {
            outf("ok h=%ld", elem_id(kind, par));
        } else {
            outf("ok");
        }
    } else if (!strcmp(o, "insat") && argc == 5) {
        long id = auto_id(in, atol(argv[2])), h = atol(argv[4]);
        if (id < 1 || id > NE || in[id] || h < 1 || h > NE || !in[h]) {
            h_stop("bad-op");
            return;
        }
        if (kind == K_BT) {
            SETKEY(btpool[id], h_int(argv[3]), BT_ADDR_NEG);
            cstl_bintree_insert(&bt, &btpool[id], &btpool[h]);
        } else {
            SETKEY(rbpool[id], h_int(argv[3]), RB_ADDR_NEG);
            cstl_rbtree_insert(&rb, &rbpool[id], &rbpool[h]);
        }
        in[id] = 1;
        outf("ok");
    } else if (!strcmp(o, "insatr") && argc == 4) {
        const struct cstl_bintree * t = kind == K_BT ? &bt : &rb.t;
        long id = auto_id(in, 0), h;
        size_t rank = h_size(argv[3]);
        const struct cstl_bintree_node * hn;
        if (cstl_bintree_size(t) == 0 || id > NE) {
            h_stop("bad-op");
            return;
        }
        rank %= cstl_bintree_size(t);
        hn = nth_inorder(t->root, &rank);
        h = id_of(kind, hn);
        if (h < 1 || h > NE) {
            h_stop("bad-op");
            return;
        }
        if (kind == K_BT) {
            SETKEY(btpool[id], h_int(argv[2]), BT_ADDR_NEG);
            cstl_bintree_insert(&bt, &btpool[id], &btpool[h]);
        } else {
            SETKEY(rbpool[id], h_int(argv[2]), RB_ADDR_NEG);
            cstl_rbtree_insert(&rb, &rbpool[id], &rbpool[h]);
        }
        in[id] = 1;
        outf("ok h=%ld", h);
    } else if (!strcmp(o, "find") && argc == 3) {
        const void * par = NULL, * f;
        if (kind == K_BT) {
            SETKEY(btpool[0], h_int(argv[2]), BT_ADDR_NEG);
            f = cstl_bintree_find(&bt, &btpool[0], &par);
        } else {
            SETKEY(rbpool[0], h_int(argv[2]), RB_ADDR_NEG);
            f = cstl_rbtree_find(&rb, &rbpool[0], &par);
        }
        outf("%ld p=%ld", elem_id(kind, f), elem_id(kind, par));
    } else if (!strcmp(o, "erase") && argc == 3) {
        void * f;
        long id;
        if (kind == K_BT) {
            SETKEY(btpool[0], h_int(argv[2]), BT_ADDR_NEG);
            f = cstl_bintree_erase(&bt, &btpool[0]);
        } else {
            SETKEY(rbpool[0], h_int(argv[2]), RB_ADDR_NEG);
            f = cstl_rbtree_erase(&rb, &rbpool[0]);
        }
        id = elem_id(kind, f);
        if (id >= 1 && id <= NE) {
            in[id] = 0;
        }
        outf("%ld", id);
    } else if (!strcmp(o, "fe") && argc == 4 && (!strcmp(argv[2], "fwd") || !strcmp(argv[2], "rev"))) {
        int r;
        cstl_bintree_foreach_dir_t d = argv[2][0] == 'f' ? CSTL_BINTREE_FOREACH_DIR_FWD : CSTL_BINTREE_FOREACH_DIR_REV;
        nev = 0;
        stop_at = (int)h_int(argv[3]);
        if (kind == K_BT) {
            r = cstl_bintree_foreach(&bt, visit, H_PRIV(4), d);
        } else {
            r = cstl_rbtree_foreach(&rb, visit, H_PRIV(4), d);
        }
        outf("%d ", r);
        print_evs();
    } else if (!strcmp(o, "clear") && argc == 3 - 1) {
        int i, okp = 1;
        ncleared = 0;
        if (kind == K_BT) {
            cstl_bintree_clear(&bt, clr_bt, H_PRIV(5));
        } else {
            cstl_rbtree_clear(&rb, clr_rb, H_PRIV(6));
        }
        outf("[");
        for (i = 0; i < ncleared; i++) {
            outf(i ? ",%ld" : "%ld", cleared[i]);
        }
        outf("]");
        /* nothing may have been written to an element after its callback */
        for (i = 0; i < ncleared; i++) {
            long id = cleared[i];
            if (id >= 1 && id <= NE) {
                const struct cstl_bintree_node * n, * n2;
                if (kind == K_BT) {
                    UNPOISON(&btpool[id], sizeof(btpool[id]));
                    n = &btpool[id].n;
                    n2 = &btpool[id].n2;
                } else {
                    UNPOISON(&rbpool[id], sizeof(rbpool[id]));
                    n = &rbpool[id].n.n;
                    n2 = &rbpool[id].n2.n;
                }
                if (n->p != &poisonv[0] || n->l != &poisonv[1] || n->r != &poisonv[2]
                    || n2->p != &poisonv[0] || n2->l != &poisonv[1] || n2->r != &poisonv[2]) {
                    okp = 0;
                }
            }
        }
        /* `in` marks the elements of the tree and of its swap partner */
        for (i = 0; i < ncleared; i++) {
            if (cleared[i] >= 1 && cleared[i] <= NE) {
                in[cleared[i]] = 0;
            }
        }
        outf(" p=%d", okp);
    } else if (!strcmp(o, "swap") && argc == 2) {
        /* exchange the tree with its (initially empty) partner */
        if (kind == K_BT) {
            const int t = bt_neg[0];
            cstl_bintree_swap(&bt, &bt2);
            bt_neg[0] = bt_neg[1];      /* the comparison functions trade places with the contents */
            bt_neg[1] = t;
        } else {
            const int t = rb_neg[0];
            cstl_rbtree_swap(&rb, &rb2);
            rb_neg[0] = rb_neg[1];
            rb_neg[1] = t;
        }
        outf("ok");
    } else if (!strcmp(o, "alt") && argc == 2) {
        if (kind == K_BT) {
            struct cstl_bintree * t = BTP;
            BTP = BTP2;
            BTP2 = t;
        } else {
            struct cstl_rbtree * t = RBP;
            RBP = RBP2;
            RBP2 = t;
        }
        outf("ok");
    } else if (!strcmp(o, "show") && argc == 2) {
        outf("ok");
        full = 1;
    } else {
        h_stop("bad-op");
        return;
    }
    dump(kind, full);
}

int main(void)
{
    static const struct h_area a = { reset, op };
    return h_main(&a);
}
