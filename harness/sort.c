/*
 * Harness for the raw-array algorithms of src/array.c, the vector wrappers of
 * src/vector.c and cstl_swap (include/cstl/common.h).  Same line protocol and
 * output as lean/Cstl/Sort/Main.lean.
 *
 *   arr <esz> k0 k1 ...            new array (ids 0..), scratch = 0:0
 *   gen <esz> <kind> <n> <a> <b>   new array from a formula
 *   sort <raw|vec> <algo> d...     rand() returns d..., then 0 forever
 *   search|find <raw|vec> <key>
 *   rev <raw|vec>
 *   dump <from> <to>
 *
 * An element of esz bytes holds v = key << idbits | id little-endian in its
 * first min(esz,8) bytes; the bytes beyond 8 repeat a pattern derived from v,
 * so "byte-identical" is checked on every dump (bad@<index> otherwise).
 * The array is a heap block of exactly count*esz bytes and the scratch cell a
 * separate heap block of esz bytes, so AddressSanitizer's red zones catch any
 * access outside [0,count) + scratch (STOP asan).  Pointers handed to the
 * comparison / swap callbacks are canonicalised to indices.
 *
 * rand() is defined here (the executable's definition pre-empts libc's for
 * the library code linked into it): the script supplies the draws.
 */
#include "common.h"
#include "cstl/array.h"
#include "cstl/vector.h"

#include <stdio.h>
#include <stdlib.h>
#include <string.h>
#include <unistd.h>

#define KEEP_LIMIT 64
#define HMOD 2147483647ULL
#define MAXDRAWS 64

static size_t esz = 4, count;
static unsigned char * base, * scratch, * probe;  /* the harness's own copies */
static unsigned char * cur_base, * cur_scr;       /* what the library works on */
static int cookie;

/* ---- rand() ---- */
static long draws[MAXDRAWS];
static int ndraws, nextdraw;

int rand(void)
{
    if (nextdraw < ndraws) {
        return (int)draws[nextdraw++];
    }
    return 0;
}

/* ---- element encoding ---- */
static unsigned idbits(void)
{
    switch (esz) {
    case 1: return 6;
    case 2: return 11;
    case 3: return 16;
    case 4: return 20;
    default: return esz < 8 ? 24 : 32;
    }
}

static uint64_t tailpat(uint64_t v)
{
    return v * 0x9E3779B97F4A7C15ULL;
}

static void enc(unsigned char * p, long long key, unsigned long long id)
{
    uint64_t v = ((uint64_t)key << idbits()) | (uint64_t)id;
    uint64_t f = tailpat(v);
    size_t k;
    for (k = 0; k < esz; k++) {
        p[k] = k < 8 ? (unsigned char)(v >> (8 * k)) : (unsigned char)(f >> (8 * ((k - 8) & 7)));
    }
}

/* returns 0 when the bytes are not a well-formed element */
static int dec(const unsigned char * p, long long * key, unsigned long long * id)
{
    uint64_t v = 0, f;
    size_t k;
    for (k = 0; k < esz && k < 8; k++) {
        v |= (uint64_t)p[k] << (8 * k);
    }
    f = tailpat(v);
    for (k = 8; k < esz; k++) {
        if (p[k] != (unsigned char)(f >> (8 * ((k - 8) & 7)))) {
            return 0;
        }
    }
    *key = (long long)(v >> idbits());
    *id = v & ((1ULL << idbits()) - 1);
    return 1;
}

/* ---- callback log ---- */
static unsigned long long ncmp, nswap, lh;
static int keep, logbad;
static char * logbuf;
static size_t loglen, logcap;

static void mixin(unsigned long long v)
{
    lh = (lh * 1000003ULL + v) % HMOD;
}

static void logs(const char * s)
{
    size_t n = strlen(s);
    if (!keep) {
        return;
    }
    if (loglen + n + 2 > logcap) {
        logcap = (logcap + n + 2) * 2;
        logbuf = realloc(logbuf, logcap);
    }
    if (loglen > 0) {
        logbuf[loglen++] = ' ';
    }
    memcpy(logbuf + loglen, s, n + 1);
    loglen += n;
}

/* canonical form of a pointer: index, "x" (probe), "t" (scratch), "?" */
static unsigned long long loc(const void * p, char * out, size_t outsz)
{
    const unsigned char * q = p;
    if (q == probe) {
        snprintf(out, outsz, "x");
        return 0;
    }
    if (cur_base != NULL && q >= cur_base && q < cur_base + count * esz
        && (size_t)(q - cur_base) % esz == 0) {
        size_t i = (size_t)(q - cur_base) / esz;
        snprintf(out, outsz, "%zu", i);
        return i + 2;
    }
    if (q == cur_scr) {
        snprintf(out, outsz, "t");
        return 1;
    }
    snprintf(out, outsz, "?");
    logbad = 1;
    return 1;
}

static int cmp_cb(const void * a, const void * b, void * priv)
{
    char sa[24], sb[24], ev[64];
    long long ka = 0, kb = 0;
    unsigned long long ia, ib, ca, cb;

    if (priv != &cookie) {
        logbad = 1;
    }
    ca = loc(a, sa, sizeof(sa));
    cb = loc(b, sb, sizeof(sb));
    ncmp++;
    mixin(1); mixin(ca); mixin(cb);
    if (keep) {
        snprintf(ev, sizeof(ev), "c%s,%s", sa, sb);
        logs(ev);
    }
    /* reading the elements is what the library's client would do: under
     * ASan this is also where a stray pointer is caught */
    if (!dec(a, &ka, &ia) || !dec(b, &kb, &ib)) {
        logbad = 1;
    }
    return h_cmp_result(ka, kb);
}

static int null_scratch;

static void swap_cb(void * a, void * b, void * t, size_t len)
{
    char sa[24], sb[24], ev[64];
    unsigned long long ca, cb;

    ca = loc(a, sa, sizeof(sa));
    cb = loc(b, sb, sizeof(sb));
    /* `rawn`: the client's swap function ignores the scratch argument (the documentation allows
     * it) and the client passes NULL for it; the exchange goes through the client's own buffer */
    if (null_scratch) {
        if (t != NULL || len != esz) {
            logbad = 1;
        }
        t = cur_scr;
    } else if ((unsigned char *)t != cur_scr || len != esz) {
        logbad = 1;
    }
    nswap++;
    mixin(2); mixin(ca); mixin(cb);
    if (keep) {
        snprintf(ev, sizeof(ev), "s%s,%s", sa, sb);
        logs(ev);
    }
    cstl_swap(a, b, t, len);
}

static void begin_op(int argc, char ** argv, int first_draw)
{
    int i;
    ncmp = nswap = lh = 0;
    logbad = 0;
    loglen = 0;
    if (logbuf != NULL) {
        logbuf[0] = 0;
    }
    keep = count <= KEEP_LIMIT;
    ndraws = nextdraw = 0;
    for (i = first_draw; i < argc && ndraws < MAXDRAWS; i++) {
        draws[ndraws++] = (long)h_int(argv[i]);
    }
}

static void print_log(void)
{
    outf("c=%llu s=%llu lh=%llu", ncmp, nswap, lh);
    if (keep) {
        outf(" log=%s", loglen > 0 ? logbuf : "");
    }
    if (logbad) {
        outf(" BADARG");
    }
}

/* ---- state ---- */
static void new_array(size_t e, size_t n)
{
    free(base);
    free(scratch);
    free(probe);
    esz = e;
    count = n;
    base = malloc(n * e);           /* exactly the array: red zones on both sides */
    scratch = calloc(1, e);
    probe = malloc(e);
    if ((n * e > 0 && base == NULL) || scratch == NULL || probe == NULL) {
        _exit(4);
    }
    cur_base = base;
    cur_scr = scratch;
}

static void print_elem(const unsigned char * p, size_t i)
{
    long long k;
    unsigned long long id;
    if (dec(p, &k, &id)) {
        outf("%lld:%llu", k, id);
    } else {
        outf("bad@%zu", i);
    }
}

static void dump(void)
{
    size_t i;
    unsigned long long h = 0;
    long long k;
    unsigned long long id;
    long badat = -1;

    outf(" | n=%zu e=%zu t=", count, esz);
    print_elem(scratch, 0);
    for (i = 0; i < count; i++) {
        if (!dec(base + i * esz, &k, &id)) {
            badat = (long)i;
            break;
        }
        h = (h * 1000003ULL + (unsigned long long)k % HMOD) % HMOD;
        h = (h * 1000003ULL + id) % HMOD;
    }
    if (badat >= 0) {
        outf(" h=bad@%ld", badat);
    } else {
        outf(" h=%llu", h);
    }
    if (count <= KEEP_LIMIT) {
        outf(" [");
        for (i = 0; i < count; i++) {
            if (i) {
                outf(" ");
            }
            print_elem(base + i * esz, i);
        }
        outf("]");
    }
    out_end();
}

static void reset(void)
{
    new_array(4, 0);
}

static unsigned long long lcg_next(unsigned long long x)
{
    return (x * 1103515245ULL + 12345ULL) % 2147483648ULL;
}

/* ---- running an operation on the raw array or through a vector ---- */
enum { OP_SORT, OP_SEARCH, OP_FIND, OP_REV };

static long run_op(int via_vec, int what, unsigned long algo)
{
    long r = 0;
    if (!via_vec) {
        cur_base = base;
        cur_scr = scratch;
        switch (what) {
        case OP_SORT:
            cstl_raw_array_sort(base, count, esz, cmp_cb, &cookie, swap_cb, null_scratch ? NULL : scratch,
                                (cstl_sort_algorithm_t)algo);
            break;
        case OP_SEARCH:
            r = (long)cstl_raw_array_search(base, count, esz, probe, cmp_cb, &cookie);
            break;
        case OP_FIND:
            r = (long)cstl_raw_array_find(base, count, esz, probe, cmp_cb, &cookie);
            break;
        case OP_REV:
            cstl_raw_array_reverse(base, count, esz, swap_cb, null_scratch ? NULL : scratch);
            break;
        }
    } else {
        struct cstl_vector v;
        unsigned char * data;
        cstl_vector_init(&v, esz);
        cstl_vector_resize(&v, count);
        data = cstl_vector_data(&v);
        if (cstl_vector_size(&v) != count || cstl_vector_capacity(&v) < count) {
            h_stop("vector-setup");
            return 0;
        }
        if (data != NULL) {
            if (count > 0) {
                memcpy(data, base, count * esz);
            }
            /* the scratch slot of a vector is element number `cap` */
            memcpy(data + cstl_vector_capacity(&v) * esz, scratch, esz);
        }
        cur_base = data;
        cur_scr = data != NULL ? data + cstl_vector_capacity(&v) * esz : NULL;
        switch (what) {
        case OP_SORT:
            __cstl_vector_sort(&v, cmp_cb, &cookie, swap_cb, (cstl_sort_algorithm_t)algo);
            break;
        case OP_SEARCH:
            r = (long)cstl_vector_search(&v, probe, cmp_cb, &cookie);
            break;
        case OP_FIND:
            r = (long)cstl_vector_find(&v, probe, cmp_cb, &cookie);
            break;
        case OP_REV:
            __cstl_vector_reverse(&v, swap_cb);
            break;
        }
        if (cstl_vector_data(&v) != data || cstl_vector_size(&v) != count) {
            logbad = 1;
        }
        if (data != NULL) {
            if (count > 0) {
                memcpy(base, data, count * esz);
            }
            memcpy(scratch, data + cstl_vector_capacity(&v) * esz, esz);
        }
        cstl_vector_clear(&v);
        cur_base = base;
        cur_scr = scratch;
    }
    return r;
}

static int via_of(const char * s)
{
    null_scratch = 0;
    if (!strcmp(s, "raw")) {
        return 0;
    }
    if (!strcmp(s, "rawn")) {
        null_scratch = 1;
        return 0;
    }
    if (!strcmp(s, "vec")) {
        return 1;
    }
    return -1;
}

static int esz_ok(size_t e)
{
    return e >= 1 && e <= 64;
}

static void op(int argc, char ** argv)
{
    const char * o = argv[0];

    if (!strcmp(o, "arr") && argc >= 2 && esz_ok(h_size(argv[1]))) {
        int i;
        new_array(h_size(argv[1]), (size_t)(argc - 2));
        for (i = 2; i < argc; i++) {
            enc(base + (size_t)(i - 2) * esz, h_int(argv[i]), (unsigned long long)(i - 2));
        }
        outf("ok");
    } else if (!strcmp(o, "gen") && argc == 6 && esz_ok(h_size(argv[1]))) {
        size_t n = h_size(argv[3]), a = h_size(argv[4]), b = h_size(argv[5]), i;
        const char * kind = argv[2];
        unsigned long long x = a;
        int k = !strcmp(kind, "sorted") ? 0 : !strcmp(kind, "rev") ? 1 : !strcmp(kind, "const") ? 2 :
                !strcmp(kind, "organ") ? 3 : !strcmp(kind, "saw") ? 4 : !strcmp(kind, "rand") ? 5 : -1;
        if (k < 0 || (k == 4 && a == 0) || (k == 5 && b == 0)) {
            h_stop("bad-op");
            return;
        }
        new_array(h_size(argv[1]), n);
        for (i = 0; i < n; i++) {
            long long key = 0;
            switch (k) {
            case 0: key = (long long)i; break;
            case 1: key = (long long)(n - 1 - i); break;
            case 2: key = (long long)a; break;
            case 3: key = (long long)(i < n - 1 - i ? i : n - 1 - i); break;
            case 4: key = (long long)(i % a); break;
            case 5: x = lcg_next(x); key = (long long)((x / 65536) % b); break;
            }
            enc(base + i * esz, key, i);
        }
        outf("ok");
    } else if (!strcmp(o, "sort") && argc >= 3 && via_of(argv[1]) >= 0) {
        begin_op(argc, argv, 3);
        run_op(via_of(argv[1]), OP_SORT, (unsigned long)h_size(argv[2]));
        outf("ok ");
        print_log();
    } else if ((!strcmp(o, "search") || !strcmp(o, "find")) && argc == 3 && via_of(argv[1]) >= 0) {
        long r;
        begin_op(argc, argv, argc);
        enc(probe, h_int(argv[2]), 0);
        r = run_op(via_of(argv[1]), !strcmp(o, "search") ? OP_SEARCH : OP_FIND, 0);
        outf("r=%ld ", r);
        print_log();
    } else if (!strcmp(o, "rev") && argc == 2 && via_of(argv[1]) >= 0) {
        begin_op(argc, argv, argc);
        run_op(via_of(argv[1]), OP_REV, 0);
        outf("ok ");
        print_log();
    } else if (!strcmp(o, "dump") && argc == 3) {
        size_t a = h_size(argv[1]), b = h_size(argv[2]), i;
        if (b > count) {
            b = count;
        }
        outf("slice %s %s [", argv[1], argv[2]);
        for (i = a; i < b; i++) {
            if (i > a) {
                outf(" ");
            }
            print_elem(base + i * esz, i);
        }
        outf("]");
    } else {
        h_stop("bad-op");
        return;
    }
    dump();
}

int main(void)
{
    static const struct h_area a = { reset, op };
    return h_main(&a);
}
