/*
 * Harness for src/heap.c (+ cstl_fls, cstl_bintree_clear through
 * cstl_heap_clear): same line protocol and state dump as
 * lean/Cstl/Heap/Main.lean.
 *
 * ops      push <key> <id> | pop | get | size | clear | dump | fls <x>
 *          bulk <n> <nprio> <seed>   (heap must be empty) n pushes of elements
 *          with LCG priorities below nprio from a separate big pool, size and
 *          get checked after each against a counting ledger, then n pops, each
 *          checked to be a held element of maximal priority; result
 *          `ok ck=<checksum of the pop order>` or `bad step=<k> <what>`
 * output   <result> | n=<size> c=<0|1> [<slot>:<id>:<key>,...]
 *
 * Elements live in a static pool; element id = pool index + 1 (0 = NULL).
 * The dump walks the real child pointers breadth-first from bt.root, numbers
 * the slots 1, 2k, 2k+1, reports whether the slots are exactly 1..size (c=1),
 * and verifies every parent pointer on the way: the first node whose `p` is
 * not the node it was reached from is appended as ` links=bad@<id>`.
 * More than 64 nodes: a digest of the same list is printed instead (`dump`
 * always prints the list).
 *
 * The clear callback records the element, overwrites it with a pattern and
 * poisons it for AddressSanitizer, so that any later read or write by the
 * library is reported (STOP asan); after clear returns the pattern is
 * verified (p=1) and the elements are made usable again.
 *
 * Every operation re-arms a watchdog (2 s of CPU time): library code that
 * loops forever on corrupted links ends the script with "STOP hang".
 */
#include "common.h"
#include "cstl/heap.h"
#include "cstl/common.h"

#include <stdio.h>
#include <stdlib.h>
#include <string.h>
#include <unistd.h>
#include <signal.h>
#include <sys/time.h>

#if defined(__SANITIZE_ADDRESS__)
#include <sanitizer/asan_interface.h>
#define POISON(p, n)   __asan_poison_memory_region((p), (n))
#define UNPOISON(p, n) __asan_unpoison_memory_region((p), (n))
#else
#define POISON(p, n)   ((void)(p), (void)(n))
#define UNPOISON(p, n) ((void)(p), (void)(n))
#endif

#define NE 4000
#define FULL_MAX 64

/* two hooks per element: `heap` is anchored at `hn`, its swap partner `heap2` at `hn2`
 * (an element is in at most one heap at a time) */
struct elem {
    long long key;      /* what the comparison functions read: the priority, negated when `neg` */
    int neg;
    struct cstl_heap_node hn;
    long pad;
    struct cstl_heap_node hn2;
};

static struct cstl_heap heap_obj[2];
/* `heap` is the object the operations address, `heap2` its swap partner.  `swap` calls
 * cstl_heap_swap on the two objects; `alt` only switches which OBJECT the following operations
 * address (no library call), so that both objects get used after a swap. */
static struct cstl_heap * HP = &heap_obj[0], * HP2 = &heap_obj[1];
#define heap (*HP)
#define heap2 (*HP2)
static struct elem pool[NE];

/*
 * The two heap objects are initialised with DIFFERENT comparison functions: object 0 orders by
 * the stored key, object 1 by its negation.  A swap exchanges the comparison functions together
 * with the contents; the harness tracks which function each object must have by now (cmp_neg[])
 * and stores the priority negated when the object addressed is supposed to order by the negation,
 * so that under a correct library every heap is a max-heap on the priorities the script names.
 * A swap that does not move the comparison function (or the offset) shows as a wrong order.
 */
static int cmp_neg[2];      /* per OBJECT: must its comparison function be the negating one? */
#define ADDR_NEG (cmp_neg[HP == &heap_obj[0] ? 0 : 1])
#define PRIO(e) ((e)->neg ? -(e)->key : (e)->key)

static int cmp_elem(const void * a, const void * b, void * p)
{
    const long long x = ((const struct elem *)a)->key, y = ((const struct elem *)b)->key;
    h_priv_check(p, 1);
    return h_cmp_result(x, y);
}

static int cmp_rev(const void * a, const void * b, void * p)
{
    const long long x = -((const struct elem *)a)->key, y = -((const struct elem *)b)->key;
    h_priv_check(p, 1);
    return h_cmp_result(x, y);
}

/* pool index + 1 of the element that contains bintree node bn; -1 = foreign */
static long id_of_bn(const struct cstl_bintree_node * bn)
{
    const char * p = (const char *)bn;
    const char * base = (const char *)pool;
    size_t d;
    if (bn == NULL) {
        return 0;
    }
    if (p < base || p >= base + sizeof(pool)) {
        return -1;
    }
    d = (size_t)(p - base);
    if (d % sizeof(struct elem) != offsetof(struct elem, hn.bn)
        && d % sizeof(struct elem) != offsetof(struct elem, hn2.bn)) {
        return -1;
    }
    return (long)(d / sizeof(struct elem)) + 1;
}

static long id_of_elem(const void * e)
{
    if (e == NULL) {
        return 0;
    }
    {
        const char * p = (const char *)e, * base = (const char *)pool;
        if (p < base || p >= base + sizeof(pool) || (size_t)(p - base) % sizeof(struct elem) != 0) {
            return -1;
        }
        return (long)((size_t)(p - base) / sizeof(struct elem)) + 1;
    }
}

static void print_elem(const void * e)
{
    long id = id_of_elem(e);
    if (id > 0) {
        outf("%ld:%d", id, (int)PRIO(&pool[id - 1]));
    } else {
        outf("%ld", id);
    }
}

struct qent {
    const struct cstl_bintree_node * n, * from;
    unsigned long long loc;
};
static struct qent queue[NE + 2];

static void dump(int full)
{
    size_t head = 0, tail = 0, i;
    long bad = 0;
    int havebad = 0, complete = 1;
    unsigned long long dg = 7;
    const unsigned long long P = 2147483647ULL;

    if (heap.bt.root != NULL) {
        queue[tail].n = heap.bt.root;
        queue[tail].from = NULL;
        queue[tail].loc = 1;
        tail++;
    }
    while (head < tail) {
        const struct qent q = queue[head];
        long id = id_of_bn(q.n);
        if (id <= 0) {
            /* pointer to something that is not an element: stop here */
            if (!havebad) {
                havebad = 1;
                bad = -1;
            }
            tail = head;
            break;
        }
        if (q.n->p != q.from && !havebad) {
            havebad = 1;
            bad = id;
        }
        if (q.loc != head + 1) {
            complete = 0;
        }
        head++;
        if (q.n->l != NULL) {
            if (tail >= NE) {
                /* more nodes than elements exist: a cycle */
                if (!havebad) {
                    havebad = 1;
                    bad = id;
                }
                break;
            }
            queue[tail].n = q.n->l;
            queue[tail].from = q.n;
            queue[tail].loc = 2 * q.loc;
            tail++;
        }
        if (q.n->r != NULL) {
            if (tail >= NE) {
                if (!havebad) {
                    havebad = 1;
                    bad = id;
                }
                break;
            }
            queue[tail].n = q.n->r;
            queue[tail].from = q.n;
            queue[tail].loc = 2 * q.loc + 1;
            tail++;
        }
    }
    /* everything that was queued is listed */
    if (tail != heap.bt.size) {
        complete = 0;
    }
    for (i = 0; i < tail; i++) {
        if (queue[i].loc != i + 1) {
            complete = 0;
        }
    }
    outf(" | n=%zu c=%d ", heap.bt.size, complete);
    if (full || tail <= FULL_MAX) {
        outf("[");
        for (i = 0; i < tail; i++) {
            long id = id_of_bn(queue[i].n);
            outf(i ? ",%llu:%ld:%d" : "%llu:%ld:%d", queue[i].loc, id,
                 id > 0 ? (int)PRIO(&pool[id - 1]) : 0);
        }
        outf("]");
    } else {
        for (i = 0; i < tail; i++) {
            long id = id_of_bn(queue[i].n);
            long long k = id > 0 ? PRIO(&pool[id - 1]) : 0;
            dg = (dg * 1000003ULL + (queue[i].loc % P) * 8191ULL
                  + ((unsigned long long)id % P) * 131ULL
                  + (unsigned long long)(k + 2147483648LL) % P) % P;
        }
        outf("#%llu", dg);
    }
    if (havebad) {
        outf(" links=bad@%ld", bad);
    }
    out_end();
}

static void reset(void)
{
    static const struct cstl_heap twin = CSTL_HEAP_INITIALIZER(struct elem, hn, cmp_elem, H_PRIV(1));
    struct cstl_heap z;
    memset(pool, 0, sizeof(pool));
    HP = &heap_obj[0];
    HP2 = &heap_obj[1];
    H_POISON_OBJ(heap);
    H_POISON_OBJ(heap2);
    cstl_heap_init(&heap, cmp_elem, H_PRIV(1), offsetof(struct elem, hn));
    cstl_heap_init(&heap2, cmp_rev, H_PRIV(1), offsetof(struct elem, hn2));
    cmp_neg[0] = 0;
    cmp_neg[1] = 1;
    memset(&z, 0, sizeof(z));
    cstl_heap_init(&z, cmp_elem, H_PRIV(1), offsetof(struct elem, hn));
    if (memcmp(&z, &twin, sizeof(z)) != 0) {
        h_init_mismatch = 1;
    }
}

static long cleared[NE + 1];
static int ncleared;

static void clr(void * e, void * p)
{
    struct elem * el = e;
    (void)p;
    if (ncleared < NE) {
        cleared[ncleared] = id_of_elem(e);
    }
    ncleared++;
    /* the callee owns the element now */
    memset(el, 0xA5, sizeof(*el));
    POISON(el, sizeof(*el));
}

/* ---- bulk: large heaps (slot numbers far beyond what the pool reaches) ---- */

static void bulk(size_t n, long nprio, unsigned long seed)
{
    struct elem * big;
    unsigned char * gone;
    size_t * cnt;
    size_t i;
    long mx = -1;
    unsigned long x = seed % 2147483648UL;
    unsigned long long ck = 7;
    const unsigned long long P = 2147483647ULL;
    const char * what = NULL;
    size_t step = 0;

    big = calloc(n ? n : 1, sizeof(*big));
    gone = calloc(n ? n : 1, 1);
    cnt = calloc((size_t)nprio, sizeof(*cnt));
    if (big == NULL || gone == NULL || cnt == NULL) {
        h_stop("bad-op");
        return;
    }
    for (i = 0; i < n && what == NULL; i++) {
        const struct elem * g;
        long k;
        x = (x * 1103515245UL + 12345UL) % 2147483648UL;
        k = (long)((x / 256) % (unsigned long)nprio);
        big[i].neg = ADDR_NEG;
        big[i].key = big[i].neg ? -(long long)k : (long long)k;
        cstl_heap_push(&heap, &big[i]);
        cnt[k]++;
        if (k > mx) {
            mx = k;
        }
        step++;
        if (cstl_heap_size(&heap) != i + 1) {
            what = "size-after-push";
            break;
        }
        g = cstl_heap_get(&heap);
        if (g == NULL || g < big || g >= big + n || PRIO(g) != mx) {
            what = "get-not-a-held-maximum";
            break;
        }
    }
    for (i = 0; i < n && what == NULL; i++) {
        const struct elem * e;
        size_t idx;
        step++;
        e = cstl_heap_pop(&heap);
        while (mx >= 0 && cnt[mx] == 0) {
            mx--;
        }
        if (e == NULL || e < big || e >= big + n
            || ((const char *)e - (const char *)big) % sizeof(*big) != 0) {
            what = "pop-not-an-element";
            break;
        }
        idx = (size_t)(e - big);
        if (gone[idx]) {
            what = "pop-returned-element-twice";
            break;
        }
        if (mx < 0 || PRIO(e) != mx) {
            what = "pop-not-a-maximum";
            break;
        }
        gone[idx] = 1;
        cnt[mx]--;
        if (cstl_heap_size(&heap) != n - i - 1) {
            what = "size-after-pop";
            break;
        }
        ck = (ck * 1000003ULL + (idx + 1) % P) % P;
    }
    if (what == NULL && (cstl_heap_pop(&heap) != NULL || cstl_heap_get(&heap) != NULL)) {
        what = "not-empty-after-draining";
    }
    if (what != NULL) {
        outf("bad step=%zu %s", step, what);
        /* the big pool goes away: start over with an empty heap */
        cstl_heap_init(&heap, ADDR_NEG ? cmp_rev : cmp_elem, H_PRIV(1), heap.bt.off - offsetof(struct cstl_heap_node, bn));
    } else {
        outf("ok ck=%llu", ck);
    }
    free(cnt);
    free(gone);
    free(big);
}

static struct elem * elem_of(const char * s)
{
    long id = atol(s);
    if (id < 1 || id > NE) {
        return NULL;
    }
    return &pool[id - 1];
}

static void on_vtalrm(int sig)
{
    (void)sig;
    signal(SIGALRM, SIG_DFL);
    raise(SIGALRM);
}

/* 2 s of user CPU time (not wall time: the machine may be loaded) */
static void arm_watchdog(void)
{
    struct itimerval it;
    memset(&it, 0, sizeof(it));
    it.it_value.tv_sec = 2;
    signal(SIGVTALRM, on_vtalrm);
    setitimer(ITIMER_VIRTUAL, &it, NULL);
}

static void op(int argc, char ** argv)
{
    const char * o = argv[0];
    int full = 0;

    /* a single operation that burns this much CPU time is a hang (the parent
     * reports the SIGALRM death of this child as "STOP hang") */
    arm_watchdog();

    if (!strcmp(o, "push") && argc == 3 && elem_of(argv[2])) {
        struct elem * e = elem_of(argv[2]);
        e->neg = ADDR_NEG;
        e->key = e->neg ? -(long long)(int)h_int(argv[1]) : (long long)(int)h_int(argv[1]);
        cstl_heap_push(&heap, e);
        outf("ok");
    } else if (!strcmp(o, "pop") && argc == 1) {
        print_elem(cstl_heap_pop(&heap));
    } else if (!strcmp(o, "get") && argc == 1) {
        print_elem(cstl_heap_get(&heap));
    } else if (!strcmp(o, "size") && argc == 1) {
        outf("%zu", cstl_heap_size(&heap));
    } else if (!strcmp(o, "clear") && argc == 1) {
        int i, okp = 1;
        ncleared = 0;
        cstl_heap_clear(&heap, clr);
        outf("[");
        for (i = 0; i < ncleared && i < NE; i++) {
            outf(i ? ",%ld" : "%ld", cleared[i]);
        }
        outf("]");
        for (i = 0; i < ncleared && i < NE; i++) {
            long id = cleared[i];
            if (id >= 1 && id <= NE) {
                const unsigned char * b = (const unsigned char *)&pool[id - 1];
                size_t k;
                UNPOISON(&pool[id - 1], sizeof(pool[id - 1]));
                for (k = 0; k < sizeof(struct elem); k++) {
                    if (b[k] != 0xA5) {
                        okp = 0;
                    }
                }
                memset(&pool[id - 1], 0, sizeof(pool[id - 1]));
            }
        }
        outf(" p=%d", okp);
    } else if (!strcmp(o, "swap") && argc == 1) {
        /* exchange the heap with its (initially empty) partner, which is anchored at the other hook */
        cstl_heap_swap(&heap, &heap2);
        {
            const int t = cmp_neg[0];       /* the comparison functions trade places with the contents */
            cmp_neg[0] = cmp_neg[1];
            cmp_neg[1] = t;
        }
        outf("ok");
    } else if (!strcmp(o, "alt") && argc == 1) {
        struct cstl_heap * t = HP;
        HP = HP2;
        HP2 = t;
        outf("ok");
    } else if (!strcmp(o, "dump") && argc == 1) {
        full = 1;
        outf("ok");
    } else if (!strcmp(o, "bulk") && argc == 4 && heap.bt.size == 0 && heap.bt.root == NULL
               && h_size(argv[1]) <= 4000000 && h_int(argv[2]) >= 1 && h_int(argv[2]) <= 1000000) {
        struct itimerval it;
        memset(&it, 0, sizeof(it));
        it.it_value.tv_sec = 60;
        setitimer(ITIMER_VIRTUAL, &it, NULL);
        bulk(h_size(argv[1]), (long)h_int(argv[2]), (unsigned long)h_size(argv[3]));
    } else if (!strcmp(o, "fls") && argc == 2) {
        outf("%d", cstl_fls((unsigned long)h_size(argv[1])));
    } else {
        h_stop("bad-op");
        return;
    }
    dump(full);
}

int main(void)
{
    static const struct h_area a = { reset, op };
    return h_main(&a);
}
