/*
 * Harness for src/dlist.c: same line protocol and state dump as
 * lean/Cstl/DList/Main.lean.  Addresses are canonicalised: NULL = 0, list
 * head nodes = 1..3, pool element i = 10 + i, poison cell of element i =
 * 110 + i (the clear callback overwrites the element's link with it).
 */
#include "common.h"
#include "cstl/dlist.h"

#include <stdio.h>
#include <stdlib.h>
#include <string.h>

#define NL 3
#define NE 48

/*
 * Every element carries TWO hooks (the intrusive idiom): lists 1 and 2 are
 * initialised with the offset of `n`, list 3 with the offset of `n2`, so that
 * lists anchored at different offsets meet in swap (the property quantifies
 * over "one or more lists"; the list's offset is part of what swap exchanges).
 * An element is on at most one list at a time (documented domain), so one
 * link set per element describes it, whichever hook is in use.
 */
struct elem {
    int key;
    struct cstl_dlist_node n;
    long pad;
    struct cstl_dlist_node n2;
};

/* list 2 is initialised by the header's compile-time initializer and never by cstl_dlist_init */
static struct cstl_dlist lists[NL] = { [1] = CSTL_DLIST_INITIALIZER(lists[1], struct elem, n) };
static struct elem pool[NE];
static struct cstl_dlist_node poisonv[NE];

static long id_of_node(const struct cstl_dlist_node * n)
{
    int i;
    if (n == NULL) {
        return 0;
    }
    for (i = 0; i < NL; i++) {
        if (n == &lists[i].h) {
            return i + 1;
        }
    }
    for (i = 0; i < NE; i++) {
        if (n == &pool[i].n || n == &pool[i].n2) {
            return 10 + i;
        }
        if (n == &poisonv[i]) {
            return 110 + i;
        }
    }
    return -1;
}

static long id_of_elem(const void * e)
{
    size_t d;
    if (e == NULL) {
        return 0;
    }
    d = (size_t)((const char *)e - (const char *)pool);
    if ((const char *)e < (const char *)pool || d >= sizeof(pool) || d % sizeof(struct elem) != 0) {
        return -1;
    }
    return 10 + (long)(d / sizeof(struct elem));
}

static struct elem * elem_of(const char * s)
{
    long id = atol(s);
    if (id < 10 || id >= 10 + NE) {
        return NULL;
    }
    return &pool[id - 10];
}

static void walk(const struct cstl_dlist * l, int fwd)
{
    const struct cstl_dlist_node * n = fwd ? l->h.n : l->h.p;
    int k = 0;
    outf("[");
    while (n != &l->h && k < 64) {
        long id = id_of_node(n);
        outf(k ? ",%ld" : "%ld", id);
        k++;
        if (id < 10 || id >= 10 + NE) {
            break;
        }
        n = fwd ? n->n : n->p;
    }
    outf("]");
}

static void dump(void)
{
    int i;
    for (i = 0; i < NL; i++) {
        outf(" | ");
        walk(&lists[i], 1);
        outf(" r=");
        walk(&lists[i], 0);
        outf(" c=%zu", lists[i].size);
    }
    out_end();
}

static void reset(void)
{
    int i;
    memset(pool, 0, sizeof(pool));
    for (i = 0; i < NL; i++) {
        if (i == 1) {
            continue;       /* compile-time initializer */
        }
        H_POISON_OBJ(lists[i]);
        cstl_dlist_init(&lists[i], i == 2 ? offsetof(struct elem, n2) : offsetof(struct elem, n));
    }
}

static int cmp_elem(const void * a, const void * b, void * p)
{
    h_priv_check(p, 1);
    return h_cmp_result(((const struct elem *)a)->key, ((const struct elem *)b)->key);
}

static long visited[NE + 1];
static int nvisited, stop_at;
static unsigned long erase_mask;
static struct cstl_dlist * visit_list;
static struct cstl_dlist * move_to;     /* foreachmv: removed elements are appended to this list */

static int visit(void * e, void * p)
{
    h_priv_check(p, 2);
    if (nvisited < NE) {
        visited[nvisited] = id_of_elem(e);
    }
    if ((erase_mask >> nvisited) & 1) {
        /* the visit function may remove the visited element; it then owns
         * it (frees it, links it elsewhere): overwrite both links */
        struct elem * el = e;
        cstl_dlist_erase(visit_list, e);
        if (move_to != NULL) {
            /* ... links it elsewhere: the element goes to the end of another list */
            cstl_dlist_push_back(move_to, e);
        } else {
            el->n.n = el->n2.n = &poisonv[el - pool];
            el->n.p = el->n2.p = &poisonv[el - pool];
        }
    }
    return nvisited++ == stop_at ? h_stop_value(stop_at) : 0;
}

static void clr(void * e, void * p)
{
    struct elem * el = e;
    (void)p;
    if (nvisited < NE) {
        visited[nvisited++] = id_of_elem(e);
    }
    /* the callee owns the element now: overwrite its links */
    el->n.n = el->n2.n = &poisonv[el - pool];
    el->n.p = el->n2.p = &poisonv[el - pool];
}

static void print_visited(void)
{
    int i;
    outf("[");
    for (i = 0; i < nvisited && i < NE; i++) {
        outf(i ? ",%ld" : "%ld", visited[i]);
    }
    outf("]");
}

static struct cstl_dlist * list_of(const char * s)
{
    long i = atol(s);
    return (i >= 1 && i <= NL) ? &lists[i - 1] : NULL;
}

/*
 * bigsort <l> <n> <nkeys> <seed>: list l must be empty.  n elements from a
 * separate large pool with LCG keys are appended, the list is sorted and the
 * result is checked here: size, forward traversal (every element exactly
 * once, non-decreasing), backward traversal is its mirror image, front/back;
 * then the list is emptied from both ends.  Result `ok ck=<checksum of the
 * final order>` or `bad <what>`.
 */
static void bigsort(struct cstl_dlist * l, size_t n, long nkeys, unsigned long seed)
{
    struct elem * big = calloc(n + 2, sizeof(*big));
    unsigned char * seen = calloc(n + 2, 1);
    size_t * order = calloc(n + 2, sizeof(*order));
    unsigned long x = seed % 2147483648UL;
    unsigned long long ck = 7;
    const unsigned long long P = 2147483647ULL;
    const char * what = NULL;
    const struct elem * last = NULL;
    const struct cstl_dlist_node * c;
    size_t i, cnt = 0;
    const int second = (l == &lists[2]);
    const size_t off = second ? offsetof(struct elem, n2) : offsetof(struct elem, n);

    if (big == NULL || seen == NULL || order == NULL) {
        h_stop("bad-op");
        return;
    }
    for (i = 0; i < n; i++) {
        x = (x * 1103515245UL + 12345UL) % 2147483648UL;
        big[i].key = (int)((x / 256) % (unsigned long)nkeys);
        cstl_dlist_push_back(l, &big[i]);
    }
    cstl_dlist_sort(l, cmp_elem, H_PRIV(1));
    if (cstl_dlist_size(l) != n) {
        what = "size-changed";
    }
    for (c = l->h.n; c != &l->h && what == NULL; c = c->n) {
        const struct elem * e;
        size_t idx;
        if (c == NULL) {
            what = "null-link";
            break;
        }
        e = (const struct elem *)((const char *)c - off);
        if (e < big || e >= big + n || ((const char *)e - (const char *)big) % sizeof(*big) != 0) {
            what = "foreign-element";
            break;
        }
        idx = (size_t)(e - big);
        if (seen[idx]) {
            what = "element-twice";
            break;
        }
        seen[idx] = 1;
        if (last != NULL && last->key > e->key) {
            what = "not-sorted";
            break;
        }
        if (cnt < n) {
            order[cnt] = idx;
        }
        ck = (ck * 1000003ULL + (idx + 1) % P) % P;
        last = e;
        if (++cnt > n) {
            what = "too-many-elements";
            break;
        }
    }
    if (what == NULL && cnt != n) {
        what = "elements-lost";
    }
    if (what == NULL) {
        /* back to front: the mirror image */
        size_t k = n;
        for (c = l->h.p; c != &l->h; c = c->p) {
            const struct elem * e;
            if (c == NULL || k == 0) {
                what = "backward-traversal-differs";
                break;
            }
            e = (const struct elem *)((const char *)c - off);
            k--;
            if (e != &big[order[k]]) {
                what = "backward-traversal-is-not-the-mirror-image";
                break;
            }
        }
        if (what == NULL && k != 0) {
            what = "backward-traversal-too-short";
        }
    }
    if (what == NULL && n > 0
        && (cstl_dlist_back(l) != last || cstl_dlist_front(l) != &big[order[0]])) {
        what = "front-or-back-wrong";
    }
    if (what == NULL) {
        for (i = 0; i < n; i++) {
            const void * e = (i & 1) ? cstl_dlist_pop_back(l) : cstl_dlist_pop_front(l);
            if (e == NULL) {
                what = "pop-null-before-empty";
                break;
            }
        }
        if (what == NULL && (cstl_dlist_pop_front(l) != NULL || cstl_dlist_pop_back(l) != NULL
                             || cstl_dlist_size(l) != 0)) {
            what = "not-empty-after-draining";
        }
    }
    if (what != NULL) {
        outf("bad %s", what);
        cstl_dlist_init(l, off);
    } else {
        outf("ok ck=%llu", ck);
    }
    free(order);
    free(seen);
    free(big);
}

static void op(int argc, char ** argv)
{
    const char * o = argv[0];
    struct cstl_dlist * l = argc > 1 ? list_of(argv[1]) : NULL;

    if (!strcmp(o, "keys")) {
        int i;
        for (i = 1; i < argc && i - 1 < NE; i++) {
            pool[i - 1].key = (int)h_int(argv[i]);
        }
        outf("ok");
    } else if (!strcmp(o, "pushf") && argc == 3 && l && elem_of(argv[2])) {
        cstl_dlist_push_front(l, elem_of(argv[2]));
        outf("ok");
    } else if (!strcmp(o, "pushb") && argc == 3 && l && elem_of(argv[2])) {
        cstl_dlist_push_back(l, elem_of(argv[2]));
        outf("ok");
    } else if (!strcmp(o, "ins") && argc == 4 && l && elem_of(argv[2]) && elem_of(argv[3])) {
        cstl_dlist_insert(l, elem_of(argv[2]), elem_of(argv[3]));
        outf("ok");
    } else if (!strcmp(o, "erase") && argc == 3 && l && elem_of(argv[2])) {
        cstl_dlist_erase(l, elem_of(argv[2]));
        outf("ok");
    } else if (!strcmp(o, "popb") && argc == 2 && l) {
        outf("%ld", id_of_elem(cstl_dlist_pop_back(l)));
    } else if (!strcmp(o, "popf") && argc == 2 && l) {
        outf("%ld", id_of_elem(cstl_dlist_pop_front(l)));
    } else if (!strcmp(o, "front") && argc == 2 && l) {
        outf("%ld", id_of_elem(cstl_dlist_front(l)));
    } else if (!strcmp(o, "back") && argc == 2 && l) {
        outf("%ld", id_of_elem(cstl_dlist_back(l)));
    } else if (!strcmp(o, "rev") && argc == 2 && l) {
        cstl_dlist_reverse(l);
        outf("ok");
    } else if (!strcmp(o, "sort") && argc == 2 && l) {
        cstl_dlist_sort(l, cmp_elem, H_PRIV(1));
        outf("ok");
    } else if (!strcmp(o, "bigsort") && argc == 5 && l && cstl_dlist_size(l) == 0
               && h_size(argv[2]) <= 2000000 && h_int(argv[3]) >= 1) {
        bigsort(l, h_size(argv[2]), (long)h_int(argv[3]), (unsigned long)h_size(argv[4]));
    } else if (!strcmp(o, "concat") && argc == 3 && l && list_of(argv[2]) && l != list_of(argv[2])) {
        cstl_dlist_concat(l, list_of(argv[2]));
        outf("ok");
    } else if (!strcmp(o, "swap") && argc == 3 && l && list_of(argv[2]) && l != list_of(argv[2])) {
        cstl_dlist_swap(l, list_of(argv[2]));
        outf("ok");
    } else if (!strcmp(o, "foreach") && argc == 5 && l) {
        int r;
        nvisited = 0;
        stop_at = (int)h_int(argv[3]);
        erase_mask = strtoul(argv[4], NULL, 10);
        visit_list = l;
        r = cstl_dlist_foreach(l, visit, H_PRIV(2),
                               argv[2][0] == 'f' ? CSTL_DLIST_FOREACH_DIR_FWD : CSTL_DLIST_FOREACH_DIR_REV);
        outf("%d ", r);
        print_visited();
    } else if (!strcmp(o, "foreachmv") && argc == 6 && l && list_of(argv[5]) && list_of(argv[5]) != l
               && list_of(argv[5])->off == l->off) {
        /* like foreach, but the visit function moves the elements it removes to another list */
        int r;
        nvisited = 0;
        stop_at = (int)h_int(argv[3]);
        erase_mask = strtoul(argv[4], NULL, 10);
        visit_list = l;
        move_to = list_of(argv[5]);
        r = cstl_dlist_foreach(l, visit, H_PRIV(2),
                               argv[2][0] == 'f' ? CSTL_DLIST_FOREACH_DIR_FWD : CSTL_DLIST_FOREACH_DIR_REV);
        move_to = NULL;
        outf("%d ", r);
        print_visited();
    } else if (!strcmp(o, "find") && argc == 4 && l) {
        struct elem probe;
        probe.key = (int)h_int(argv[3]);
        outf("%ld", id_of_elem(cstl_dlist_find(l, &probe, cmp_elem, H_PRIV(1),
                               argv[2][0] == 'f' ? CSTL_DLIST_FOREACH_DIR_FWD : CSTL_DLIST_FOREACH_DIR_REV)));
    } else if (!strcmp(o, "clear") && argc == 2 && l) {
        nvisited = 0;
        cstl_dlist_clear(l, clr);
        print_visited();
        {
            /* nothing may be written to an element after its callback */
            int i, okp = 1;
            for (i = 0; i < nvisited && i < NE; i++) {
                long id = visited[i];
                if (id >= 10 && id < 10 + NE && (pool[id - 10].n.n != &poisonv[id - 10] || pool[id - 10].n.p != &poisonv[id - 10]
                    || pool[id - 10].n2.n != &poisonv[id - 10] || pool[id - 10].n2.p != &poisonv[id - 10])) {
                    okp = 0;
                }
            }
            outf(" p=%d", okp);
        }
    } else {
        h_stop("bad-op");
        return;
    }
    dump();
}

int main(void)
{
    static const struct h_area a = { reset, op };
    return h_main(&a);
}
