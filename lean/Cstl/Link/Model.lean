/-
Link model for C18 (public headers are usable by client programs that link
the library).  Core Lean only.

The tables (`Tab`) are produced by the translator `tools/linktab.py` from the
compiler's and `nm`'s own output on every run (`Cstl/Gen/LinkTab.lean`):

* `defs H`  — strong external definitions emitted by a translation unit that
               includes only the public header `H`;
* `decls H` — functions / objects with external linkage that such a
               translation unit declares but does not define (what a client
               may reference and the linker must then find somewhere);
* `libA`, `libSo` — global definitions of `libcstl.a` / exported by
               `libcstl.so`.

Symbols are numbered by the translator (index into `Gen.symNames`).

A *program* is a non-empty list of translation units; a translation unit is a
list of public headers, in any order, with repetition.  What the model assumes
about the C toolchain (validated, not proved, by the compile-level enumeration
of `tools/props/C18.py`): because of the include guards a header contributes
its definitions once per translation unit, and what it contributes does not
depend on what was included before it.
-/
namespace Cstl.Link

abbrev Sym := Nat

structure Header where
  name  : String
  defs  : List Sym
  decls : List Sym
deriving Repr

structure Tab where
  headers : List Header
  libA    : List Sym
  libSo   : List Sym
deriving Repr

/-- set union of a list with duplicates (one contribution per header per TU) -/
def dedup : List Sym → List Sym
  | [] => []
  | a :: l => if a ∈ dedup l then dedup l else a :: dedup l

abbrev TU := List Header

/-- strong definitions one translation unit hands to the linker -/
def tuDefs (tu : TU) : List Sym := dedup (tu.flatMap (·.defs))

/-- what the most demanding client may reference from this translation unit:
every symbol its headers declare -/
def tuRefs (tu : TU) : List Sym := tu.flatMap (·.decls)

/-- A client program over the public headers of `tab`. -/
structure Prog (tab : Tab) where
  tus      : List TU
  nonempty : tus ≠ []
  known    : ∀ tu ∈ tus, ∀ h ∈ tu, h ∈ tab.headers

/-- every strong definition the linker sees: one entry per translation unit
that defines the symbol, plus the library's -/
def allDefs (lib : List Sym) (tus : List TU) : List Sym :=
  tus.flatMap tuDefs ++ lib

/-- The program links against `lib`: no symbol is strongly defined twice among
the translation units and the library, and every declared symbol a translation
unit may reference is defined somewhere. -/
def LinksWith (lib : List Sym) (tus : List TU) : Prop :=
  (allDefs lib tus).Nodup ∧ ∀ tu ∈ tus, ∀ s ∈ tuRefs tu, s ∈ allDefs lib tus

/-- … against the static and against the shared library. -/
def Links (tab : Tab) (p : Prog tab) : Prop :=
  LinksWith tab.libA p.tus ∧ LinksWith tab.libSo p.tus

/-- The obligation on the generated tables. -/
def TablesOK (tab : Tab) : Prop :=
  (∀ h ∈ tab.headers, h.defs = []) ∧
  tab.libA.Nodup ∧ tab.libSo.Nodup ∧
  (∀ h ∈ tab.headers, ∀ s ∈ h.decls, s ∈ tab.libA ∧ s ∈ tab.libSo)

/-! Boolean checker evaluated by the kernel (`decide`) on the generated table. -/

def nodupb : List Sym → Bool
  | [] => true
  | a :: l => !(l.contains a) && nodupb l

def checkTab (tab : Tab) : Bool :=
  tab.headers.all (fun h => h.defs.isEmpty) &&
  nodupb tab.libA && nodupb tab.libSo &&
  tab.headers.all (fun h => h.decls.all (fun s => tab.libA.contains s && tab.libSo.contains s))

end Cstl.Link
