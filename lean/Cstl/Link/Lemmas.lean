import Cstl.Link.Model
/-
Helper lemmas of the link model: `dedup`, the Boolean table checker.
-/
namespace Cstl.Link

theorem mem_dedup {a : Sym} : ∀ {l : List Sym}, a ∈ dedup l ↔ a ∈ l
  | [] => by simp [dedup]
  | b :: l => by
    have ih := @mem_dedup a l
    unfold dedup
    split
    · rename_i hb
      constructor
      · intro h; exact List.mem_cons_of_mem _ (ih.1 h)
      · intro h
        rcases List.mem_cons.1 h with rfl | h
        · exact hb
        · exact ih.2 h
    · simp [ih]

theorem nodup_dedup : ∀ (l : List Sym), (dedup l).Nodup
  | [] => by simp [dedup]
  | b :: l => by
    have ih := nodup_dedup l
    unfold dedup
    split
    · exact ih
    · rename_i hb; exact List.nodup_cons.2 ⟨hb, ih⟩

theorem nodupb_iff : ∀ {l : List Sym}, nodupb l = true ↔ l.Nodup
  | [] => by simp [nodupb]
  | a :: l => by simp [nodupb, nodupb_iff (l := l), List.nodup_cons]

theorem checkTab_iff (tab : Tab) : checkTab tab = true ↔ TablesOK tab := by
  simp [checkTab, TablesOK, nodupb_iff, List.all_eq_true, and_assoc]

theorem tablesOK_of_check {tab : Tab} (h : checkTab tab = true) : TablesOK tab :=
  (checkTab_iff tab).1 h

instance (tab : Tab) : Decidable (TablesOK tab) :=
  decidable_of_iff _ (checkTab_iff tab)

end Cstl.Link
