import Cstl.Link.Lemmas
import Cstl.Gen.LinkTab
/-
C18 — public headers are usable by client programs that link the library.

* `link_ok` (general, proved once): tables satisfying `TablesOK` make *every*
  program over the public headers link against both libraries in the model;
* `tablesOK_of_links`: the converse — `TablesOK` is exactly the condition;
* `tables_ok`: the tables regenerated from the working tree on this run
  satisfy `TablesOK` (kernel evaluation; re-checked on every run);
* `c18_links`: hence every client program links.

Not proved (decided by running the compiler over the property's finite
configuration list in tools/props/C18.py): that each configuration *compiles*
without diagnostics, and that the toolchain behaves like the link model.
-/
namespace Cstl.Link

theorem tuDefs_nil_of {tab : Tab} (hd : ∀ h ∈ tab.headers, h.defs = []) {tu : TU}
    (hk : ∀ h ∈ tu, h ∈ tab.headers) : tuDefs tu = [] := by
  have : tu.flatMap (·.defs) = [] := by
    apply List.flatMap_eq_nil_iff.2
    intro h hh; exact hd h (hk h hh)
  simp [tuDefs, this, dedup]

/-- **C18, general part.**  If the tables satisfy `TablesOK`, every client
program — any number of translation units, each including any public headers
in any order and any number of times — links against both libraries. -/
theorem link_ok {tab : Tab} (ok : TablesOK tab) : ∀ prog : Prog tab, Links tab prog := by
  intro prog
  obtain ⟨hd, nA, nS, hdecl⟩ := ok
  have hnil : prog.tus.flatMap tuDefs = [] := by
    apply List.flatMap_eq_nil_iff.2
    intro tu htu; exact tuDefs_nil_of hd (prog.known tu htu)
  have key : ∀ lib, lib.Nodup → (∀ h ∈ tab.headers, ∀ s ∈ h.decls, s ∈ lib) →
      LinksWith lib prog.tus := by
    intro lib nl hl
    refine ⟨by simpa [allDefs, hnil] using nl, ?_⟩
    intro tu htu s hs
    simp only [allDefs, hnil, List.nil_append]
    obtain ⟨h, hh, hs⟩ := List.mem_flatMap.1 hs
    exact hl h (prog.known tu htu h hh) s hs
  exact ⟨key _ nA (fun h hh s hs => (hdecl h hh s hs).1),
         key _ nS (fun h hh s hs => (hdecl h hh s hs).2)⟩

/-- the program with one translation unit that includes `h` -/
def Prog.one {tab : Tab} (h : Header) (hh : h ∈ tab.headers) : Prog tab :=
  ⟨[[h]], by simp, by
    intro tu htu x hx; simp at htu; subst htu; simp at hx; subst hx; exact hh⟩

/-- the program with two translation units that both include `h` -/
def Prog.two {tab : Tab} (h : Header) (hh : h ∈ tab.headers) : Prog tab :=
  ⟨[[h], [h]], by simp, by
    intro tu htu x hx; simp at htu; subst htu; simp at hx; subst hx; exact hh⟩

/-- Converse: `TablesOK` is not stronger than the property — if it fails, one
of the two smallest programs (`H` alone, `H` in two translation units) does
not link in the model.  This is the witness `tools/props/C18.py` builds on the
real toolchain when `tables_ok` stops being provable. -/
theorem tablesOK_of_links {tab : Tab} (hne : tab.headers ≠ [])
    (hl : ∀ prog : Prog tab, Links tab prog) : TablesOK tab := by
  have one : ∀ h (hh : h ∈ tab.headers), Links tab (Prog.one h hh) := fun h hh => hl _
  have two : ∀ h (hh : h ∈ tab.headers), Links tab (Prog.two h hh) := fun h hh => hl _
  have hdefs : ∀ h ∈ tab.headers, h.defs = [] := by
    intro h hh
    have := (two h hh).1.1
    simp only [Prog.two, allDefs, List.flatMap_cons, List.flatMap_nil, List.append_nil] at this
    cases hd : h.defs with
    | nil => rfl
    | cons a l =>
      exfalso
      have ha : a ∈ tuDefs [h] := by
        simp only [tuDefs, List.flatMap_cons, List.flatMap_nil, List.append_nil]
        exact mem_dedup.2 (by simp [hd])
      have := (List.nodup_append.1 (List.nodup_append.1 this).1).2.2 a ha a ha
      exact this rfl
  obtain ⟨h0, l0, hh0⟩ := List.exists_cons_of_ne_nil hne
  have h0m : h0 ∈ tab.headers := by simp [hh0]
  have libN : ∀ h ∈ tab.headers, ∀ lib, LinksWith lib [[h]] →
      lib.Nodup ∧ ∀ s ∈ h.decls, s ∈ lib := by
    intro h hh lib hlk
    have hd := hdefs h hh
    obtain ⟨n, r⟩ := hlk
    simp [allDefs, tuDefs, hd, dedup] at n
    refine ⟨n, ?_⟩
    intro s hs
    have := r [h] (by simp) s (by simp [tuRefs, hs])
    simpa [allDefs, tuDefs, hd, dedup] using this
  refine ⟨hdefs, (libN h0 h0m _ (one h0 h0m).1).1, (libN h0 h0m _ (one h0 h0m).2).1, ?_⟩
  intro h hh s hs
  exact ⟨(libN h hh _ (one h hh).1).2 s hs, (libN h hh _ (one h hh).2).2 s hs⟩


/-! ### the tables of this run -/

/-- The regenerated tables satisfy the obligation (evaluated by the kernel). -/
theorem tables_ok : TablesOK Cstl.Gen.tab :=
  tablesOK_of_check (by decide)

/-- **C18 (link level).**  Every client program over the public headers links
against `libcstl.a` and against `libcstl.so`. -/
theorem c18_links : ∀ prog : Prog Cstl.Gen.tab, Links Cstl.Gen.tab prog :=
  link_ok tables_ok

/-! ### non-vacuity -/

-- the generated table is not empty: there are headers, declarations, library symbols
example : Cstl.Gen.tab.headers.length ≥ 12 ∧ Cstl.Gen.tab.libA.length ≥ 100 ∧
    (Cstl.Gen.tab.headers.all (fun h => !h.decls.isEmpty)) = true := by decide

-- a program with two translation units exists (so `c18_links` says something)
example : ∃ p : Prog Cstl.Gen.tab, p.tus.length = 2 := by
  have hne : Cstl.Gen.tab.headers ≠ [] := by decide
  obtain ⟨h, l, hh⟩ := List.exists_cons_of_ne_nil hne
  exact ⟨Prog.two h (by simp [hh]), rfl⟩

/-- The shape of defect #1 on the pinned tree (hash.h defined `cstl_hash_size`
and `cstl_hash_load` with external linkage): the checker rejects the table and
the two-translation-unit program does not link in the model. -/
def pinnedShape : Tab :=
  { headers := [{ name := "hash.h", defs := [7, 8], decls := [1] }], libA := [1, 2], libSo := [1, 2] }

example : checkTab pinnedShape = false := by decide

example : ¬ Links pinnedShape (Prog.two (tab := pinnedShape)
    { name := "hash.h", defs := [7, 8], decls := [1] } (by simp [pinnedShape])) := by
  intro h
  have := h.1.1
  revert this
  simp only [Prog.two, allDefs, pinnedShape]
  decide

end Cstl.Link
