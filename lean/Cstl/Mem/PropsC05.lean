import Cstl.Mem.Exec
import Cstl.Mem.LogT
/-
C05 — shared memory is destroyed exactly once, exactly when its last owner lets
go.  Property theorems only (the machinery is in Lemmas / Inv* / Exec).

Reading guide.  `Inv σ` is the ownership invariant: for every live bookkeeping
block `d`, `hard d` = number of (stamped) shared/array objects pointing to `d`
(`nH σ d`), `soft d` = owners + weak pointers (`nH σ d + nW σ d`); the managed
memory `up d` is live iff `hard d > 0`; the bookkeeping block is live iff it is
referenced.  `LogInv σ` ties the event log to the `live` flags (a block is live
iff it was allocated and not yet freed; nothing is freed twice).  Both hold in
the initial state and after every program (`run_inv`, `run_logInv`), for any
number of objects and blocks, any malloc answers, with stray copies lying
around.
-/
set_option linter.unusedSimpArgs false
namespace Cstl.Mem

/-! ### the invariants hold initially and along every history -/

theorem inv_init (n : Nat) (kind : Nat → Kind) (es : Nat → Nat) : Inv (State.init n kind es) := by
  refine ⟨rfl, fun _ _ => rfl, by simp [State.init], ?_, ?_, ?_, ?_, ?_, ?_, ?_, .nil, ?_, ?_, ?_, ?_⟩
  · intro a d _ h hd
    rcases h with h | h
    · exact absurd h.2.2.symm hd
    · exact absurd h.2.2.symm hd
  · intro d h; simp [State.init] at h
  · intro d h; simp [State.init] at h
  · intro d h; simp [State.init] at h
  · intro d h; simp [State.init] at h
  · intro a _ _ _; simp [State.init]
  · intro a b _ _ _ _ _ _ _ h; simp [State.init] at h
  · intro b h; simp [State.init] at h
  · intro m; simp [State.init]
  · intro m m' _ _ _ h; simp [State.init] at h
  · intro m h; simp [State.init] at h

theorem step_logInv {op : Op} {σ σ' : State} {v : Val} (L : LogInv σ) (h : step op σ = .ok v σ') :
    LogInv σ' := by
  unfold step at h
  by_cases hd : op.dom σ
  · simp only [hd, if_true] at h
    by_cases hr : ∃ d s, op = .rawCopy d s
    · obtain ⟨d, s, rfl⟩ := hr
      simp [exec, rawCopy] at h; obtain ⟨_, rfl⟩ := h
      exact ⟨L.live_iff, L.alloc_lt, L.free_once, L.free_alloc⟩
    · have hs := steps_exec op σ (fun d s e => hr ⟨d, s, e⟩)
      rw [h] at hs; exact hs.logInv L
  · simp [hd] at h

theorem run_logInv {ops : List Op} {σ σ' : State} {vs : List Val} (L : LogInv σ)
    (h : run ops σ = .ok vs σ') : LogInv σ' := by
  induction ops generalizing σ vs with
  | nil => simp [run] at h; obtain ⟨_, rfl⟩ := h; exact L
  | cons op ops ih =>
    simp only [run] at h
    obtain ⟨v, σ1, h1, h2⟩ := bind_eq_ok h
    obtain ⟨vs', σ2, h3, h4⟩ := bind_eq_ok h2
    simp at h4; obtain ⟨_, rfl⟩ := h4
    exact ih (step_logInv L h1) h3

/-- **Inv over arbitrary histories**: from the initial state of any number of objects of any kinds,
after any program (any operations, arguments, malloc answers, bitwise copies) that ran to
completion, the ownership invariant and the log invariant hold. -/
theorem reachable_inv {n : Nat} {kind : Nat → Kind} {es : Nat → Nat} {ops : List Op} {σ : State}
    {vs : List Val} (h : run ops (State.init n kind es) = .ok vs σ) : Inv σ ∧ LogInv σ :=
  ⟨(run_inv (inv_init n kind es) h).1, run_logInv (LogInv.init n kind es) h⟩

example : ∃ σ vs, run [.sAlloc 0 8 1 true true, .sShare 0 1, .wFrom 2 0, .sReset 0, .wLock 2 0]
    (State.init 3 (fun a => if a = 2 then .weak else .shared) (fun _ => 0)) = .ok vs σ ∧
    (σ.blk 1).hard = 2 ∧ (σ.blk 1).soft = 3 := by
  refine ⟨_, _, rfl, ?_, ?_⟩ <;> decide

/-! ### the counters are the numbers of references; liveness follows them -/

/-- `hard` = number of owners, `soft` = owners + weak references, for every live bookkeeping block -/
theorem counts_exact {σ : State} (I : Inv σ) {d : Nat} (hl : (σ.blk d).live = true)
    (hd : (σ.blk d).isData = true) :
    (σ.blk d).hard = nH σ d ∧ (σ.blk d).soft = nH σ d + nW σ d := I.data_cnt d hl hd

/-- memLive ⇔ hard > 0: the managed memory of a live bookkeeping block is there exactly while an
owner exists -/
theorem mem_live_iff {σ : State} (I : Inv σ) {d : Nat} (hl : (σ.blk d).live = true)
    (hd : (σ.blk d).isData = true) :
    ((σ.blk d).up ≠ 0 ∧ (σ.blk (σ.blk d).up).live = true) ↔ 0 < nH σ d := by
  have hc := (I.data_cnt d hl hd).1
  constructor
  · intro ⟨hu, _⟩
    by_cases h0 : (σ.blk d).hard = 0
    · exact absurd (I.data_up0 d hl hd h0).1 hu
    · omega
  · intro h
    have := I.data_up d hl hd (by omega)
    exact ⟨this.1, this.2.1⟩

/-- dataLive ⇔ soft > 0: a bookkeeping block is live exactly while something refers to it -/
theorem data_live_iff {σ : State} (I : Inv σ) {d : Nat} (hd0 : d ≠ 0) (hd : (σ.blk d).isData = true) :
    (σ.blk d).live = true ↔ 0 < nH σ d + nW σ d := by
  constructor
  · intro hl
    have := I.data_cnt d hl hd
    have := I.data_pos d hl hd
    omega
  · intro h
    by_cases h1 : 0 < nH σ d
    · obtain ⟨x, hx, hr⟩ := nH_pos.mp h1
      exact (I.ref_ok x d hx (Or.inl hr) hd0).1
    · obtain ⟨x, hx, hr⟩ := nW_pos.mp (by omega : 0 < nW σ d)
      exact (I.ref_ok x d hx (Or.inr hr) hd0).1

/-! ### destroyed exactly once, exactly when the last owner lets go -/

/-- what one operation adds to the log, and what it leaves alone -/
theorem step_ext {op : Op} {σ σ' : State} {v : Val} (h : step op σ = .ok v σ') :
    (∃ evs, σ'.log = σ.log ++ evs) ∧ σ.next ≤ σ'.next ∧
    (∀ b, b < σ.next → (σ'.blk b).isData = (σ.blk b).isData ∧ (σ'.blk b).ownerD = (σ.blk b).ownerD ∧
      (σ'.blk b).clrG = (σ.blk b).clrG ∧ (σ'.blk b).privG = (σ.blk b).privG ∧
      (σ'.blk b).size = (σ.blk b).size) := by
  unfold step at h
  by_cases hd : op.dom σ
  · simp only [hd, if_true] at h
    by_cases hr : ∃ d s, op = .rawCopy d s
    · obtain ⟨d, s, rfl⟩ := hr
      simp [exec, rawCopy] at h; obtain ⟨_, rfl⟩ := h
      exact ⟨⟨[], by simp⟩, Nat.le_refl _, fun _ _ => ⟨rfl, rfl, rfl, rfl, rfl⟩⟩
    · have hs := steps_exec op σ (fun d s e => hr ⟨d, s, e⟩)
      rw [h] at hs
      have E := hs.ext
      refine ⟨E.log, E.next, fun b hb => ?_⟩
      have g := E.ghost b hb
      exact ⟨g.2.1, g.2.2.1, g.2.2.2.1, g.2.2.2.2, g.1⟩
  · simp [hd] at h

/-- **destroy_exactly_at_last_owner.**  Let `d` be a bookkeeping block with at least one owner and
`m` its managed memory.  An operation releases `m` (logs `free m`) if and only if afterwards no
owner of `d` is left — never earlier (while an owner remains), never later (the very operation
that removes the last owner releases it). -/
theorem destroy_exactly_at_last_owner {op : Op} {σ σ' : State} {v : Val} (I : Inv σ) (L : LogInv σ)
    (h : step op σ = .ok v σ') {d : Nat} (hl : (σ.blk d).live = true) (hd : (σ.blk d).isData = true)
    (hown : 0 < nH σ d) :
    ∃ evs, σ'.log = σ.log ++ evs ∧ (Ev.free (σ.blk d).up ∈ evs ↔ nH σ' d = 0) := by
  obtain ⟨⟨evs, hlog⟩, hnext, hghost⟩ := step_ext h
  obtain ⟨I', _⟩ := step_inv I h
  have L' := step_logInv L h
  refine ⟨evs, hlog, ?_⟩
  have hc := (I.data_cnt d hl hd).1
  have hm := I.data_up d hl hd (by omega)
  unfold MemOk at hm
  obtain ⟨hm0, hml, hmd, hmo, _, _⟩ := hm
  have hd0 : d ≠ 0 := I.live_ne0 hl
  have hmlt := I.live_lt hml
  have hnotfreed : Ev.free (σ.blk d).up ∉ σ.log := ((L.live_iff _).mp hml).2
  have halloc : ∃ sz, Ev.alloc (σ.blk d).up sz ∈ σ'.log := by
    obtain ⟨sz, hs⟩ := ((L.live_iff _).mp hml).1
    exact ⟨sz, by rw [hlog]; simp [hs]⟩
  have hg := hghost _ hmlt
  have hfree_iff : Ev.free (σ.blk d).up ∈ evs ↔ (σ'.blk (σ.blk d).up).live = false := by
    have := L'.live_iff (σ.blk d).up
    rw [hlog] at this
    constructor
    · intro hin
      cases hv : (σ'.blk (σ.blk d).up).live with
      | false => rfl
      | true => exact absurd (by simp [hin]) (this.mp hv).2
    · intro hdead
      have : ¬ (Ev.free (σ.blk d).up ∉ σ.log ++ evs) := by
        intro hn
        have := this.mpr ⟨by rw [← hlog]; exact halloc, hn⟩
        rw [hdead] at this; cases this
      have : Ev.free (σ.blk d).up ∈ σ.log ++ evs := Classical.not_not.mp this
      simp at this
      exact this.resolve_left hnotfreed
  rw [hfree_iff]
  constructor
  · -- released ⇒ no owner left
    intro hdead
    apply Classical.byContradiction
    intro hne
    have hpos : 0 < nH σ' d := by omega
    obtain ⟨x, hx, hr⟩ := nH_pos.mp hpos
    obtain ⟨hl', hd'⟩ := I'.ref_ok x d hx (Or.inl hr) hd0
    have hc' := (I'.data_cnt d hl' hd').1
    have hm' := I'.data_up d hl' hd' (by omega)
    unfold MemOk at hm'
    have : (σ'.blk d).up = (σ.blk d).up :=
      I'.owner_inj _ _ hm'.2.2.1 (by rw [hg.1]; exact hmd) (by rw [hm'.2.2.2.1, hg.2.1, hmo])
        (by rw [hm'.2.2.2.1]; exact hd0)
    rw [this] at hm'
    rw [hm'.2.1] at hdead; cases hdead
  · -- no owner left ⇒ released
    intro hz
    cases hv : (σ'.blk (σ.blk d).up).live with
    | false => rfl
    | true =>
      have ho := (I'.mem_owned _ hv (by rw [hg.1]; exact hmd)).2 (by rw [hg.2.1, hmo]; exact hd0)
      rw [hg.2.1, hmo] at ho
      obtain ⟨hl', hd', hup'⟩ := ho
      have hc' := (I'.data_cnt d hl' hd').1
      have := (I'.data_up0 d hl' hd' (by omega)).1
      rw [this] at hup'; exact absurd hup'.symm hm0

/-- nothing is ever freed twice (managed memory, bookkeeping blocks, unique pointers' memory) -/
theorem free_at_most_once {σ : State} (L : LogInv σ) (b : Nat) : σ.log.count (Ev.free b) ≤ 1 :=
  L.free_once b

/-- co-owners see the same address: `get` through any two owners of the same allocation -/
theorem get_same {σ : State} {a b : Nat} (I : Inv σ) (ha : a < σ.n) (hb : b < σ.n)
    (hsa : stamped σ a) (hsb : stamped σ b) (hka : σ.kind a = .shared) (hkb : σ.kind b = .shared)
    (hp : (σ.obj a).ptr = (σ.obj b).ptr) (hp0 : (σ.obj a).ptr ≠ 0) :
    ∃ m, m ≠ 0 ∧ (σ.blk m).live = true ∧ sGet a σ = .ok m σ ∧ sGet b σ = .ok m σ := by
  obtain ⟨_, _, _, _, _, _, hm, _, _⟩ := owner_facts I ha hsa (Or.inl hka) hp0
  refine ⟨(σ.blk (σ.obj a).ptr).up, hm.1, hm.2.1, ?_, ?_⟩
  · rw [sGet_eval I ha hsa (Or.inl hka)]; simp [hp0]
  · rw [sGet_eval I hb hsb (Or.inl hkb), ← hp]; simp [hp0]

/-- **lock_iff.**  Locking the weak pointer `w` into `s` (which first lets go of what it had) makes
`s` an owner of `w`'s allocation if and only if an owner of it still exists at that moment. -/
theorem lock_iff {σ : State} {w s : Nat} (I : Inv σ) (hw : w < σ.n) (hs : s < σ.n)
    (hsw : stamped σ w) (hss : stamped σ s) (hkw : σ.kind w = .weak) (hks : σ.kind s = .shared) :
    ∃ σ1 σ', sReset s σ = .ok () σ1 ∧ wLock w s σ = .ok () σ' ∧ Inv σ' ∧
      ((σ'.obj s).ptr ≠ 0 ↔ ((σ.obj w).ptr ≠ 0 ∧ 0 < nH σ1 (σ.obj w).ptr)) ∧
      ((σ'.obj s).ptr ≠ 0 → (σ'.obj s).ptr = (σ.obj w).ptr) := by
  obtain ⟨σ', σ1, h1, h2, I', _, ho⟩ := wLock_inv I hw hs hsw hss hkw (Or.inl hks)
  refine ⟨σ1, σ', h1, h2, I', ?_, ?_⟩
  · rw [ho]; simp only [if_true]
    by_cases hn : 0 < nH σ1 (σ.obj w).ptr
    · simp [hn]
    · simp [hn]
  · rw [ho]; simp only [if_true]
    by_cases hn : 0 < nH σ1 (σ.obj w).ptr
    · simp [hn]
    · simp [hn]

theorem cnt_only {p : Nat → Prop} [DecidablePred p] {n a : Nat} (ha : a < n) (pa : p a)
    (h : ∀ x, x < n → x ≠ a → ¬ p x) : cnt p n = 1 := by
  have h1 := cnt_change (p := p) (q := fun _ => False) ha (fun x hx hxa => by simp [h x hx hxa])
  have h0 : cnt (fun _ : Nat => False) n = 0 := cnt_zero.mpr (fun _ _ h => h)
  simp only [pa, if_true, if_false] at h1
  omega

/-- **unique_iff.**  `cstl_shared_ptr_unique` answers true exactly when the pointer is empty or no
other shared or weak pointer refers to its allocation. -/
theorem unique_iff {σ : State} {a : Nat} (I : Inv σ) (ha : a < σ.n) (hsa : stamped σ a)
    (hk : σ.kind a = .shared) :
    ∃ u, sUnique a σ = .ok u σ ∧
      (u = true ↔ ((σ.obj a).ptr = 0 ∨ ∀ x, x < σ.n → x ≠ a →
        ¬ HRef σ.obj σ.kind (σ.obj a).ptr x ∧ ¬ WRef σ.obj σ.kind (σ.obj a).ptr x)) := by
  refine ⟨_, sUnique_eval I ha hsa (Or.inl hk), ?_⟩
  by_cases hp : (σ.obj a).ptr = 0
  · simp [hp]
  · obtain ⟨hl, hd, _, hcnt, _, _, _, _, _⟩ := owner_facts I ha hsa (Or.inl hk) hp
    have hra : HRef σ.obj σ.kind (σ.obj a).ptr a := ⟨hsa, Or.inl hk, rfl⟩
    simp only [hp, if_false, beq_iff_eq, false_or]
    constructor
    · intro h1 x hx hxa
      constructor
      · intro hr
        have := cnt_two (p := HRef σ.obj σ.kind (σ.obj a).ptr) ha hx (fun e => hxa e.symm) hra hr
        unfold nH at hcnt; omega
      · intro hr
        have h1' : 0 < nW σ (σ.obj a).ptr := nW_pos.mpr ⟨x, hx, hr⟩
        have h2' : 0 < nH σ (σ.obj a).ptr := nH_pos.mpr ⟨a, ha, hra⟩
        omega
    · intro hall
      have h1 : nH σ (σ.obj a).ptr = 1 := cnt_only ha hra (fun x hx hxa => (hall x hx hxa).1)
      have h2 : nW σ (σ.obj a).ptr = 0 := cnt_zero.mpr (fun x hx hr => by
        by_cases hxa : x = a
        · subst hxa; rw [hr.2.1] at hk; cases hk
        · exact (hall x hx hxa).2 hr)
      omega

/-- **no_leak.**  When every pointer object has been reset, no block is live, and every block that
was ever allocated has been freed exactly once. -/
theorem no_leak {σ : State} (I : Inv σ) (L : LogInv σ)
    (hall : ∀ a, a < σ.n → stamped σ a → σ.kind a ≠ .guarded → (σ.obj a).ptr = 0) :
    (∀ b, (σ.blk b).live = false) ∧
    (∀ b sz, Ev.alloc b sz ∈ σ.log → σ.log.count (Ev.free b) = 1) := by
  have hdata : ∀ d, (σ.blk d).live = true → (σ.blk d).isData = true → False := by
    intro d hl hd
    have hc := I.data_cnt d hl hd
    have hp := (I.data_pos d hl hd).1
    have hd0 := I.live_ne0 hl
    by_cases h1 : 0 < nH σ d
    · obtain ⟨x, hx, hr⟩ := nH_pos.mp h1
      have := hall x hx hr.1 (by rcases hr.2.1 with h | h <;> simp [h])
      exact hd0 (by rw [← hr.2.2, this])
    · obtain ⟨x, hx, hr⟩ := nW_pos.mp (by omega : 0 < nW σ d)
      have := hall x hx hr.1 (by simp [hr.2.1])
      exact hd0 (by rw [← hr.2.2, this])
  have hdead : ∀ b, (σ.blk b).live = false := by
    intro b
    cases hv : (σ.blk b).live with
    | false => rfl
    | true =>
      exfalso
      cases hd : (σ.blk b).isData with
      | true => exact hdata b hv hd
      | false =>
        have ho := I.mem_owned b hv hd
        by_cases h0 : (σ.blk b).ownerD = 0
        · obtain ⟨a, ha, hs, hk, hp⟩ := ho.1 h0
          have := hall a ha hs (by simp [hk])
          exact I.live_ne0 hv (by rw [← hp, this])
        · obtain ⟨hl', hd', _⟩ := ho.2 h0
          exact hdata _ hl' hd'
  refine ⟨hdead, fun b sz hb => ?_⟩
  have h1 := L.free_once b
  have : Ev.free b ∈ σ.log := by
    apply Classical.byContradiction
    intro hn
    have := (L.live_iff b).mpr ⟨⟨sz, hb⟩, hn⟩
    rw [hdead b] at this; cases this
  have : 0 < σ.log.count (Ev.free b) := List.count_pos_iff.mpr this
  omega

/-! ### the clear callback: once, immediately before the release, in the same operation -/

/-- in every reachable log: each clear callback is the registered one, runs on client memory and is
immediately followed by the release of exactly that memory; and each release of client memory with
a registered callback is immediately preceded by it.  With `free_at_most_once`: the callback runs
exactly once per destroyed allocation, right before its only release. -/
theorem clear_then_free {σ : State} (I : Inv σ) :
    (∀ l1 l2 f b pr, σ.log = l1 ++ Ev.clr f b pr :: l2 →
      ∃ l3, l2 = Ev.free b :: l3 ∧ f ≠ 0 ∧ f = (σ.blk b).clrG ∧ pr = (σ.blk b).privG ∧
        (σ.blk b).isData = false) ∧
    (∀ l1 l2 b, σ.log = l1 ++ Ev.free b :: l2 → (σ.blk b).isData = false → (σ.blk b).clrG ≠ 0 →
      ∃ l0, l1 = l0 ++ [Ev.clr (σ.blk b).clrG b (σ.blk b).privG]) :=
  ⟨I.log_ok.clr_then_free, I.log_ok.free_after_clr⟩

theorem append_eq_snoc {α : Type} {a b l0 : List α} {x : α} (h : a ++ b = l0 ++ [x]) :
    (b = [] ∧ a = l0 ++ [x]) ∨ ∃ b', b = b' ++ [x] := by
  rcases List.append_eq_append_iff.mp h with ⟨a', h1, h2⟩ | ⟨c', h1, h2⟩
  · -- l0 = a ++ a', b = a' ++ [x]
    exact Or.inr ⟨a', h2⟩
  · -- a = l0 ++ c', [x] = c' ++ b
    cases c' with
    | nil => simp at h2; exact Or.inr ⟨[], by simp [h2]⟩
    | cons y t =>
      simp at h2
      obtain ⟨rfl, ht, hb⟩ := h2
      subst ht; subst hb
      exact Or.inl ⟨rfl, by simpa using h1⟩

/-- a block that is live before an operation: the operation logs its release iff it is dead
afterwards, and if it is client memory the registered clear callback (if any) runs in the same
operation, immediately before -/
theorem release_in_op {op : Op} {σ σ' : State} {v : Val} (I : Inv σ) (L : LogInv σ)
    (h : step op σ = .ok v σ') {b : Nat} (hl : (σ.blk b).live = true) :
    ∃ evs, σ'.log = σ.log ++ evs ∧
      (Ev.free b ∈ evs ↔ (σ'.blk b).live = false) ∧
      (Ev.free b ∈ evs → (σ.blk b).isData = false →
        ((σ.blk b).clrG ≠ 0 → ∃ pre post,
            evs = pre ++ [Ev.clr (σ.blk b).clrG b (σ.blk b).privG, Ev.free b] ++ post) ∧
        ((σ.blk b).clrG = 0 → ∀ f pr, Ev.clr f b pr ∉ σ'.log)) := by
  obtain ⟨⟨evs, hlog⟩, hnext, hghost⟩ := step_ext h
  obtain ⟨I', _⟩ := step_inv I h
  have L' := step_logInv L h
  have hlt := I.live_lt hl
  have hg := hghost b hlt
  have hnotfreed : Ev.free b ∉ σ.log := ((L.live_iff _).mp hl).2
  have halloc : ∃ sz, Ev.alloc b sz ∈ σ'.log := by
    obtain ⟨sz, hs⟩ := ((L.live_iff _).mp hl).1
    exact ⟨sz, by rw [hlog]; simp [hs]⟩
  refine ⟨evs, hlog, ?_, ?_⟩
  · have := L'.live_iff b
    rw [hlog] at this
    constructor
    · intro hin
      cases hv : (σ'.blk b).live with
      | false => rfl
      | true => exact absurd (by simp [hin]) (this.mp hv).2
    · intro hdead
      have hn : ¬ (Ev.free b ∉ σ.log ++ evs) := by
        intro hn
        have := this.mpr ⟨by rw [← hlog]; exact halloc, hn⟩
        rw [hdead] at this; cases this
      have : Ev.free b ∈ σ.log ++ evs := Classical.not_not.mp hn
      simp at this
      exact this.resolve_left hnotfreed
  · intro hin hd
    obtain ⟨e1, e2, he⟩ := List.append_of_mem hin
    have hlog' : σ'.log = (σ.log ++ e1) ++ Ev.free b :: e2 := by rw [hlog, he]; simp
    constructor
    · intro hc
      obtain ⟨l0, h0⟩ := I'.log_ok.free_after_clr _ _ _ hlog' (by rw [hg.1]; exact hd) (by rw [hg.2.2.1]; exact hc)
      rw [hg.2.2.1, hg.2.2.2.1] at h0
      rcases append_eq_snoc h0 with ⟨_, hbad⟩ | ⟨e1', he1⟩
      · exact absurd hbad (I.log_ok.not_end_clr _ _ _ _)
      · exact ⟨e1', e2, by rw [he, he1]; simp⟩
    · intro hc f pr hmem
      obtain ⟨l1, l2, hsp⟩ := List.append_of_mem hmem
      obtain ⟨_, _, hf0, hfc, _⟩ := I'.log_ok.clr_then_free _ _ _ _ _ hsp
      rw [hg.2.2.1, hc] at hfc
      exact hf0 hfc

/-- **clear, then free, in the operation that removes the last owner.**  When the operation leaves
`d` without owner, its log entries contain `clear(m); free(m)` back to back if a clear callback
`c` was registered at allocation (`upClr`), and no callback on `m` ever runs if none was. -/
theorem clear_exactly_at_last_owner {op : Op} {σ σ' : State} {v : Val} (I : Inv σ) (L : LogInv σ)
    (h : step op σ = .ok v σ') {d : Nat} (hl : (σ.blk d).live = true) (hd : (σ.blk d).isData = true)
    (hown : 0 < nH σ d) (hgone : nH σ' d = 0) :
    ∃ evs, σ'.log = σ.log ++ evs ∧
      ((σ.blk d).upClr ≠ 0 → ∃ pre post,
          evs = pre ++ [Ev.clr (σ.blk d).upClr (σ.blk d).up 0, Ev.free (σ.blk d).up] ++ post) ∧
      ((σ.blk d).upClr = 0 → Ev.free (σ.blk d).up ∈ evs ∧ ∀ f pr, Ev.clr f (σ.blk d).up pr ∉ σ'.log) := by
  have hc := (I.data_cnt d hl hd).1
  have hm := I.data_up d hl hd (by omega)
  unfold MemOk at hm
  obtain ⟨hm0, hml, hmd, hmo, hmc, hmp⟩ := hm
  obtain ⟨evs1, hlog1, hiff⟩ := destroy_exactly_at_last_owner I L h hl hd hown
  obtain ⟨evs, hlog, _, hcl⟩ := release_in_op I L h hml
  have : evs1 = evs := List.append_cancel_left (hlog1.symm.trans hlog)
  subst this
  have hin := hiff.mpr hgone
  have := hcl hin hmd
  rw [hmc, hmp] at this
  exact ⟨evs1, hlog, this.1, fun h0 => ⟨hin, this.2 h0⟩⟩

/-! ### unique pointers: the same exactly-once clear-then-free -/

/-- **unique pointers.**  Memory owned by a unique pointer object is released by an operation iff no
unique pointer object holds it afterwards (across alloc, release, swap and reset: a swap moves the
ownership, the memory stays); the registered clear callback runs in that same operation,
immediately before the release, with the registered argument; never a second time
(`free_at_most_once`). -/
theorem unique_clear_then_free_once {op : Op} {σ σ' : State} {v : Val} (I : Inv σ) (L : LogInv σ)
    (h : step op σ = .ok v σ') {a : Nat} (ha : a < σ.n) (hs : stamped σ a) (hk : σ.kind a = .unique)
    (hp : (σ.obj a).ptr ≠ 0) :
    ∃ evs, σ'.log = σ.log ++ evs ∧
      (Ev.free (σ.obj a).ptr ∈ evs ↔
        ¬ ∃ a', a' < σ'.n ∧ stamped σ' a' ∧ σ'.kind a' = .unique ∧ (σ'.obj a').ptr = (σ.obj a).ptr) ∧
      (Ev.free (σ.obj a).ptr ∈ evs →
        ((σ.obj a).clr ≠ 0 → ∃ pre post,
          evs = pre ++ [Ev.clr (σ.obj a).clr (σ.obj a).ptr (σ.obj a).priv, Ev.free (σ.obj a).ptr] ++ post) ∧
        ((σ.obj a).clr = 0 → ∀ f pr, Ev.clr f (σ.obj a).ptr pr ∉ σ'.log)) := by
  obtain ⟨hl, hd, hod, hcg, hpg, hlt⟩ := uniq_facts I ha hs hk hp
  obtain ⟨evs, hlog, hiff, hcl⟩ := release_in_op I L h hl
  obtain ⟨_, _, hghost⟩ := step_ext h
  obtain ⟨I', _⟩ := step_inv I h
  have hg := hghost _ hlt
  refine ⟨evs, hlog, ?_, ?_⟩
  · rw [hiff]
    constructor
    · intro hdead ⟨a', ha', hs', hk', hp'⟩
      have := ((I'.uniq_ok a' ha' hs' hk').2 (by rw [hp']; exact hp)).1
      rw [hp', hdead] at this; cases this
    · intro hno
      cases hv : (σ'.blk (σ.obj a).ptr).live with
      | false => rfl
      | true =>
        exact absurd ((I'.mem_owned _ hv (by rw [hg.1]; exact hd)).1 (by rw [hg.2.1]; exact hod)) hno
  · intro hin
    have := hcl hin hd
    rw [hcg, hpg] at this
    exact this

/-! ### non-vacuity: the hypotheses above are met by concrete, non-trivial histories -/

/-- three shared objects 0,1,2, a weak object 3, a unique object 4 -/
def exKind (a : Nat) : Kind := if a = 3 then .weak else if a = 4 then .unique else .shared

/-- two owners and a weak reference on one allocation with clear callback 7 -/
def exProg : List Op := [.sAlloc 0 8 7 true true, .sShare 0 1, .wFrom 3 0, .sReset 0, .uAlloc 4 16 2 9 true]

example : ∃ σ vs, run exProg (State.init 5 exKind (fun _ => 0)) = .ok vs σ ∧
    -- hypotheses of `destroy_exactly_at_last_owner` / `clear_exactly_at_last_owner` for d = 1 …
    (σ.blk 1).live = true ∧ (σ.blk 1).isData = true ∧ 0 < nH σ 1 ∧ (σ.blk 1).upClr ≠ 0 ∧
    -- … and the last owner going away in one more step
    (∃ v σ', step (.sReset 1) σ = .ok v σ' ∧ nH σ' 1 = 0 ∧
      σ'.log = σ.log ++ [Ev.clr 7 2 0, Ev.free 2]) ∧
    -- hypotheses of `lock_iff` (w = 3, s = 2), `unique_iff`, `get_same`, `unique_clear_then_free_once`
    (σ.obj 3).self = 3 ∧ (σ.obj 2).self = 2 ∧ (σ.obj 1).self = 1 ∧ (σ.obj 4).self = 4 ∧
    (σ.obj 4).ptr ≠ 0 ∧ (σ.obj 4).clr ≠ 0 := by
  refine ⟨_, _, rfl, by decide, by decide, by decide, by decide, ⟨_, _, rfl, by decide, by decide⟩,
    by decide, by decide, by decide, by decide, by decide, by decide⟩

example : ∃ σ vs, run (exProg ++ [.sReset 1, .wReset 3, .uReset 4])
      (State.init 5 exKind (fun _ => 0)) = .ok vs σ ∧
    -- hypothesis of `no_leak`: everything was reset; three blocks allocated, two callbacks, three frees
    (∀ a, a < 5 → (σ.obj a).ptr = 0) ∧ σ.log.length = 8 := by
  refine ⟨_, _, rfl, by decide, by decide⟩

end Cstl.Mem
