import Cstl.Mem.Model
