import Cstl.Mem.PropsC05
import Cstl.Mem.PropsC20
import Cstl.Mem.PropsC14
/-
Property theorems of the mem area (smart pointers and array views):
  C05  Cstl/Mem/PropsC05.lean
  C20  Cstl/Mem/PropsC20.lean
  C14  Cstl/Mem/PropsC14.lean
-/
