import Cstl.Mem.AInv
import Cstl.Mem.PropsC05
/-
C14 — array views never reach outside their buffer, which lives as long as any
view.  Property theorems only.

`AInv σ` (Cstl/Mem/AInv.lean) is the view invariant: an empty array object has
length 0; otherwise `off + len ≤ nm`, `nm * sz` is representable, an allocated
buffer fills the rest of its block exactly (`HDR + nm * sz = block size`, as
natural numbers: no wrap-around), an external buffer has room for `nm * sz`
bytes.  It is stated on top of the ownership invariant `Inv` of C05 (array
objects are owners: their buffer descriptor is live while any of them refers to
it and is released exactly once afterwards — `destroy_exactly_at_last_owner`
counts array objects in `nH`).
-/
set_option linter.unusedSimpArgs false
namespace Cstl.Mem

/-! ### the invariant over every history -/

theorem ainv_init (n : Nat) (kind : Nat → Kind) (es : Nat → Nat) (hes : ∀ e, es e < W) :
    AInv (State.init n kind es) :=
  ⟨fun _ _ _ _ => clause_empty rfl rfl rfl, hes⟩

theorem step_ainv {op : Op} {σ σ' : State} {v : Val} (I : Inv σ) (AI : AInv σ)
    (h : step op σ = .ok v σ') : AInv σ' := by
  unfold step at h
  by_cases hd : op.dom σ
  · simp only [hd, if_true] at h; exact exec_ainv I AI hd h
  · simp [hd] at h

/-- **Inv for every history.**  After any program over any number of array objects and buffers
(alloc, set, slice — also in place —, unslice, reset, release, re-allocating or re-targeting an
object that is a slice with a non-zero offset, any arguments up to SIZE_MAX, any malloc answers)
both invariants hold. -/
theorem run_ainv {ops : List Op} {σ σ' : State} {vs : List Val} (I : Inv σ) (AI : AInv σ)
    (h : run ops σ = .ok vs σ') : Inv σ' ∧ AInv σ' := by
  induction ops generalizing σ vs with
  | nil => simp [run] at h; obtain ⟨_, rfl⟩ := h; exact ⟨I, AI⟩
  | cons op ops ih =>
    simp only [run] at h
    obtain ⟨v, σ1, h1, h2⟩ := bind_eq_ok h
    obtain ⟨vs', σ2, h3, h4⟩ := bind_eq_ok h2
    simp at h4; obtain ⟨_, rfl⟩ := h4
    exact ih (step_inv I h1).1 (step_ainv I AI h1) h3

/-! ### at -/

/-- the facts about the buffer of a non-empty array object -/
theorem arr_facts {σ : State} {a : Nat} (I : Inv σ) (AI : AInv σ) (ha : a < σ.n) (hs : stamped σ a)
    (hk : σ.kind a = .array) (hp : (σ.obj a).ptr ≠ 0) :
    (σ.blk (σ.obj a).ptr).live = true ∧ (σ.blk (σ.obj a).ptr).up ≠ 0 ∧
    (σ.blk (σ.blk (σ.obj a).ptr).up).live = true ∧
    ArrOk (σ.obj a) (σ.blk (σ.blk (σ.obj a).ptr).up) σ.extSize := by
  obtain ⟨hl, _, _, _, _, _, hm, _, _⟩ := owner_facts I ha hs (Or.inr hk) hp
  exact ⟨hl, hm.1, hm.2.1, (AI.arr a ha hs hk).2 hp⟩

/-- **at_in_buffer.**  For every index below `size`, `cstl_array_at` returns (without changing
anything) the address of that element inside the live underlying buffer: for an allocated buffer
byte `HDR + (off+i)*sz` of the live block, with the whole element inside the block; for an external
buffer byte `(off+i)*sz` of it, with the whole element inside the `nm*sz` bytes the client provided. -/
theorem at_in_buffer {σ : State} {a i : Nat} (I : Inv σ) (AI : AInv σ) (ha : a < σ.n)
    (hs : stamped σ a) (hk : σ.kind a = .array) (hi : i < (σ.obj a).len) :
    (σ.obj a).ptr ≠ 0 ∧
    let m := (σ.blk (σ.obj a).ptr).up
    let k := σ.blk m
    (σ.blk (σ.obj a).ptr).live = true ∧ k.live = true ∧
    (k.abuf = 0 →
      aAt a i σ = .ok (.heap m (HDR + ((σ.obj a).off + i) * k.asz)) σ ∧
      HDR + ((σ.obj a).off + i) * k.asz + k.asz ≤ k.size) ∧
    (k.abuf ≠ 0 →
      aAt a i σ = .ok (.ext k.abuf (((σ.obj a).off + i) * k.asz)) σ ∧
      ((σ.obj a).off + i) * k.asz + k.asz ≤ k.anm * k.asz ∧ k.anm * k.asz ≤ σ.extSize k.abuf) := by
  have hp : (σ.obj a).ptr ≠ 0 := by
    intro h0
    have := ((AI.arr a ha hs hk).1 h0).1
    omega
  obtain ⟨hl, hm0, hml, hok⟩ := arr_facts I AI ha hs hk hp
  refine ⟨hp, hl, hml, ?_, ?_⟩
  all_goals
    unfold ArrOk at hok
    obtain ⟨hol, hmul, hanm, hasz, hin, hex⟩ := hok
    have hidx : (σ.obj a).off + i < (σ.blk (σ.blk (σ.obj a).ptr).up).anm := by omega
    have hmod1 : ((σ.obj a).off + i) % W = (σ.obj a).off + i := Nat.mod_eq_of_lt (by omega)
    have hle : ((σ.obj a).off + i + 1) * (σ.blk (σ.blk (σ.obj a).ptr).up).asz ≤
        (σ.blk (σ.blk (σ.obj a).ptr).up).anm * (σ.blk (σ.blk (σ.obj a).ptr).up).asz :=
      Nat.mul_le_mul_right _ hidx
    have hexp : ((σ.obj a).off + i + 1) * (σ.blk (σ.blk (σ.obj a).ptr).up).asz =
        ((σ.obj a).off + i) * (σ.blk (σ.blk (σ.obj a).ptr).up).asz + (σ.blk (σ.blk (σ.obj a).ptr).up).asz := by
      rw [Nat.add_mul, Nat.one_mul]
    have hmod2 : (((σ.obj a).off + i) * (σ.blk (σ.blk (σ.obj a).ptr).up).asz) % W =
        ((σ.obj a).off + i) * (σ.blk (σ.blk (σ.obj a).ptr).up).asz := Nat.mod_eq_of_lt (by omega)
  · intro hb
    obtain ⟨hsize, hsw⟩ := hin hb
    have hmod3 : (HDR + ((σ.obj a).off + i) * (σ.blk (σ.blk (σ.obj a).ptr).up).asz) % W =
        HDR + ((σ.obj a).off + i) * (σ.blk (σ.blk (σ.obj a).ptr).up).asz := Nat.mod_eq_of_lt (by omega)
    refine ⟨?_, by omega⟩
    rw [aAt_eval I ha hs hk]
    simp only [ge_iff_le, Nat.not_le.mpr hi, if_false, hp, bufLoc, hb, if_true, hmod1, hmod2, hmod3]
  · intro hb
    refine ⟨?_, by omega, hex hb⟩
    rw [aAt_eval I ha hs hk]
    simp only [ge_iff_le, Nat.not_le.mpr hi, if_false, hp, bufLoc, hb, hmod1, hmod2]

/-- **at_abort_iff.**  `cstl_array_at` aborts for every index that is not below `size`, and only
then; it never faults. -/
theorem at_abort_iff {σ : State} {a i : Nat} (I : Inv σ) (AI : AInv σ) (ha : a < σ.n)
    (hs : stamped σ a) (hk : σ.kind a = .array) :
    (aAt a i σ = .stop .abort σ ↔ (σ.obj a).len ≤ i) ∧
    (i < (σ.obj a).len → ∃ l, aAt a i σ = .ok l σ) := by
  constructor
  · constructor
    · intro h
      apply Classical.byContradiction
      intro hn
      have hi : i < (σ.obj a).len := by omega
      obtain ⟨_, _, _, h1, h2⟩ := at_in_buffer I AI ha hs hk hi
      by_cases hb : (σ.blk (σ.blk (σ.obj a).ptr).up).abuf = 0
      · rw [(h1 hb).1] at h; cases h
      · rw [(h2 hb).1] at h; cases h
    · intro h
      rw [aAt_eval I ha hs hk]; simp [h]
  · intro hi
    obtain ⟨_, _, _, h1, h2⟩ := at_in_buffer I AI ha hs hk hi
    by_cases hb : (σ.blk (σ.blk (σ.obj a).ptr).up).abuf = 0
    · exact ⟨_, (h1 hb).1⟩
    · exact ⟨_, (h2 hb).1⟩

/-! ### slice -/

/-- **slice_abort_iff.**  `cstl_array_slice(a, beg, end, s)` aborts exactly when `a` is empty,
`end < beg`, or the requested range would pass the end of the underlying buffer — `off + end > nm`
as a sum of natural numbers: no `end` near SIZE_MAX can wrap it around.  Otherwise it succeeds,
`s` becomes the view `[off + beg, off + end)` of the same buffer (also when `s` is `a` itself),
and both invariants hold afterwards. -/
theorem slice_abort_iff {σ : State} {a beg en s : Nat} (I : Inv σ) (AI : AInv σ)
    (ha : a < σ.n) (hsn : s < σ.n) (hsa : stamped σ a) (hss : stamped σ s)
    (hka : σ.kind a = .array) (hks : σ.kind s = .array) (hb : beg < W) (he : en < W) :
    let bad := (σ.obj a).ptr = 0 ∨ en < beg ∨
      (σ.obj a).off + en > (σ.blk (σ.blk (σ.obj a).ptr).up).anm
    (bad → aSlice a beg en s σ = .stop .abort σ) ∧
    (¬ bad → ∃ σ', aSlice a beg en s σ = .ok () σ' ∧ Inv σ' ∧ AInv σ' ∧
      (σ'.obj s).ptr = (σ.obj a).ptr ∧ (σ'.obj s).off = (σ.obj a).off + beg ∧
      (σ'.obj s).len = en - beg) := by
  obtain ⟨h1, h2⟩ := aSlice_inv (beg := beg) (en := en) I ha hsn hsa hss hka hks
  have hequiv : ((σ.obj a).ptr = 0 ∨ en < beg ∨
        en > ((σ.blk (σ.blk (σ.obj a).ptr).up).anm + W - (σ.obj a).off) % W) ↔
      ((σ.obj a).ptr = 0 ∨ en < beg ∨ (σ.obj a).off + en > (σ.blk (σ.blk (σ.obj a).ptr).up).anm) := by
    by_cases hp : (σ.obj a).ptr = 0
    · simp [hp]
    · obtain ⟨_, _, _, hok⟩ := arr_facts I AI ha hsa hka hp
      unfold ArrOk at hok
      have hol := hok.1
      have hanm := hok.2.2.1
      simp only [hp, false_or]
      simp only [W] at *
      constructor
      · rintro (h | h)
        · exact Or.inl h
        · right; omega
      · rintro (h | h)
        · exact Or.inl h
        · right; omega
  intro bad
  constructor
  · intro hbad; exact h1 (hequiv.mpr hbad)
  · intro hgood
    have hc := fun h => hgood (hequiv.mp h)
    obtain ⟨σ', hr, I', _, ho⟩ := h2 hc
    have hst : step (.aSlice a beg en s) σ = .ok .unit σ' := by
      have hd : (Op.aSlice a beg en s).dom σ := ⟨⟨ha, hka⟩, ⟨hsn, hks⟩, hb, he⟩
      simp [step, hd, exec, unitR, hr]
    refine ⟨σ', hr, I', step_ainv I AI hst, by rw [ho]; simp, ?_, by rw [ho]; simp⟩
    rw [ho]; simp only [if_true]
    have hp : (σ.obj a).ptr ≠ 0 := fun h => hgood (Or.inl h)
    obtain ⟨_, _, _, hok⟩ := arr_facts I AI ha hsa hka hp
    unfold ArrOk at hok
    have hanm := hok.2.2.1
    have : ¬ ((σ.obj a).off + en > (σ.blk (σ.blk (σ.obj a).ptr).up).anm) := fun h => hgood (Or.inr (Or.inr h))
    have : ¬ en < beg := fun h => hgood (Or.inr (Or.inl h))
    exact Nat.mod_eq_of_lt (by omega)

/-! ### lifetime, release, failed allocation -/

/-- **lifetime.**  While any array object refers to a buffer, its descriptor block and its
bookkeeping block are live (never freed early); they are released exactly once afterwards —
`destroy_exactly_at_last_owner`, `free_at_most_once` and `no_leak` of C05 apply verbatim, array
objects being owners (`nH` counts them). -/
theorem lifetime {σ : State} {a : Nat} (I : Inv σ) (ha : a < σ.n) (hs : stamped σ a)
    (hk : σ.kind a = .array) (hp : (σ.obj a).ptr ≠ 0) :
    (σ.blk (σ.obj a).ptr).live = true ∧ (σ.blk (σ.blk (σ.obj a).ptr).up).live = true ∧
    0 < nH σ (σ.obj a).ptr := by
  obtain ⟨hl, _, _, _, _, _, hm, _, _⟩ := owner_facts I ha hs (Or.inr hk) hp
  exact ⟨hl, hm.2.1, nH_pos.mpr ⟨a, ha, hs, Or.inr hk, rfl⟩⟩

/-- **release_sole_external.**  `cstl_array_release` hands the buffer back exactly when it is an
externally supplied one and this object is its sole remaining user (no other array object refers to
it): then the result is that buffer and the object is reset; in every other case the result is NULL
and nothing changes. -/
theorem release_sole_external {σ : State} {a : Nat} (I : Inv σ) (ha : a < σ.n) (hs : stamped σ a)
    (hk : σ.kind a = .array) :
    let ext := (σ.obj a).ptr ≠ 0 ∧ (σ.blk (σ.blk (σ.obj a).ptr).up).abuf ≠ 0 ∧
      nH σ (σ.obj a).ptr + nW σ (σ.obj a).ptr = 1
    (ext → ∃ σ', aRelease a σ = .ok (.ext (σ.blk (σ.blk (σ.obj a).ptr).up).abuf 0) σ' ∧
      aReset a σ = .ok () σ' ∧ Inv σ') ∧
    (¬ ext → aRelease a σ = .ok .null σ) := by
  have hs' : (σ.obj a).self = a := hs
  intro ext
  constructor
  · intro ⟨hp, hb, hone⟩
    obtain ⟨hl, hd, _, hcnt, _, _, hm, _, _⟩ := owner_facts I ha hs (Or.inr hk) hp
    have hsoft : (σ.blk (σ.obj a).ptr).soft = 1 := by omega
    obtain ⟨σ1, h1, I1, _, _⟩ := aReset_inv I ha hs hk
    refine ⟨σ1, ?_, h1, I1⟩
    simp [aRelease, sGet_eval I ha hs' (Or.inr hk), sUnique_eval I ha hs' (Or.inr hk), hp, hm.1, hm.2.1, hb,
      hsoft, h1, bufLoc]
  · intro hne
    by_cases hp : (σ.obj a).ptr = 0
    · simp [aRelease, sGet_eval I ha hs' (Or.inr hk), hp]
    · obtain ⟨hl, hd, _, hcnt, _, _, hm, _, _⟩ := owner_facts I ha hs (Or.inr hk) hp
      by_cases hb : (σ.blk (σ.blk (σ.obj a).ptr).up).abuf = 0
      · simp [aRelease, sGet_eval I ha hs' (Or.inr hk), hp, hm.1, hm.2.1, hb]
      · have hsoft : (σ.blk (σ.obj a).ptr).soft ≠ 1 := by
          intro h1; exact hne ⟨hp, hb, by omega⟩
        simp [aRelease, sGet_eval I ha hs' (Or.inr hk), sUnique_eval I ha hs' (Or.inr hk), hp, hm.1, hm.2.1, hb,
          hsoft]

/-- **alloc_fail_empty.**  After `cstl_array_alloc` the object is either empty (NULL descriptor, size 0,
offset 0 — whatever it was before, e.g. a slice with a non-zero offset) or a view of offset 0 and
size `nm` over a fresh buffer of exactly `HDR + nm * sz` bytes.  It is empty whenever a `malloc`
failed or `nm * sz` (plus the descriptor) cannot be represented in `size_t`. -/
theorem alloc_fail_empty {σ : State} {a nm sz : Nat} {ad am : Bool} (I : Inv σ) (ha : a < σ.n)
    (hs : stamped σ a) (hk : σ.kind a = .array) (hnm : nm < W) (hsz : sz < W) :
    ∃ σ', aAlloc a nm sz ad am σ = .ok () σ' ∧
      ((ad = false ∨ am = false ∨ W ≤ HDR + nm * sz) →
        (σ'.obj a).ptr = 0 ∧ (σ'.obj a).len = 0 ∧ (σ'.obj a).off = 0) ∧
      ((σ'.obj a).ptr ≠ 0 →
        (σ'.obj a).off = 0 ∧ (σ'.obj a).len = nm ∧ σ.next ≤ (σ'.obj a).ptr ∧
        (σ'.blk (σ'.blk (σ'.obj a).ptr).up).size = HDR + nm * sz ∧
        (σ'.blk (σ'.blk (σ'.obj a).ptr).up).live = true) := by
  obtain ⟨σ', hr, _, _, hres⟩ := aAlloc_detail (ad := ad) (am := am) I ha hs hk hnm hsz
  refine ⟨σ', hr, ?_, ?_⟩
  · intro hfail
    rcases hres with ⟨hz, hl, ho, _⟩ | ⟨_, _, _, _, hfit, had, ham, _⟩
    · exact ⟨hz, hl, ho⟩
    · exfalso
      have := fits_lt hfit
      rcases hfail with h | h | h
      · rw [had] at h; cases h
      · rw [ham] at h; cases h
      · omega
  · intro hne
    rcases hres with ⟨hz, _⟩ | ⟨_, hfresh, hoff, hlen, hfit, _, _, hup, _, hblk⟩
    · exact absurd hz hne
    · have := fits_lt hfit
      refine ⟨hoff, hlen, hfresh, ?_, ?_⟩
      · rw [hup, hblk]; exact Nat.mod_eq_of_lt this
      · rw [hup, hblk]

/-! ### non-vacuity -/

/-- array objects 0,1,2 -/
def exKind14 (_ : Nat) : Kind := .array

example : ∃ σ vs, run [.aAlloc 0 4 4 true true, .aSlice 0 2 4 0, .aSlice 0 1 2 1]
      (State.init 3 exKind14 (fun _ => 64)) = .ok vs σ ∧
    -- a slice (object 1) of a slice made in place (object 0, offset 2) of a 4-element buffer:
    -- hypotheses of `at_in_buffer` / `at_abort_iff` (a = 1), `slice_abort_iff` (a = 0, s = 1), `lifetime`
    (σ.obj 0).self = 0 ∧ (σ.obj 0).off = 2 ∧ (σ.obj 0).len = 2 ∧
    (σ.obj 1).self = 1 ∧ (σ.obj 1).ptr ≠ 0 ∧ (σ.obj 1).off = 3 ∧ (σ.obj 1).len = 1 ∧
    (σ.blk 2).size = 40 ∧ (σ.blk 2).anm = 4 ∧ (σ.blk 2).asz = 4 := by
  refine ⟨_, _, rfl, by decide, by decide, by decide, by decide, by decide, by decide, by decide, by decide,
    by decide, by decide⟩

end Cstl.Mem
