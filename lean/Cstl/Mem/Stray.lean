import Cstl.Mem.InvA
import Cstl.Mem.InvU
/-
C20 at the level of the library functions: a call through a stray copy
(`self ≠ address`) aborts, and what happened before the abort.
-/
set_option linter.unusedSimpArgs false
namespace Cstl.Mem

/-! ### one-argument functions: abort at once, nothing happened -/

theorem sReset_stray {σ : State} {a : Nat} (h : ¬ stamped σ a) : sReset a σ = .stop .abort σ := by
  simp [sReset, gGet_stray h]
theorem wReset_stray {σ : State} {a : Nat} (h : ¬ stamped σ a) : wReset a σ = .stop .abort σ := by
  simp [wReset, gGet_stray h]
theorem uReset_stray {σ : State} {a : Nat} (h : ¬ stamped σ a) : uReset a σ = .stop .abort σ := by
  simp [uReset, gGet_stray h]
theorem uAlloc_stray {σ : State} {a sz c p : Nat} {ans : Bool} (h : ¬ stamped σ a) :
    uAlloc a sz c p ans σ = .stop .abort σ := by simp [uAlloc, uReset_stray h]
theorem uGet_stray {σ : State} {a : Nat} (h : ¬ stamped σ a) : uGet a σ = .stop .abort σ := gGet_stray h
theorem uRelease_stray {σ : State} {a : Nat} (h : ¬ stamped σ a) : uRelease a σ = .stop .abort σ := by
  simp [uRelease, gGet_stray h]
theorem sAlloc_stray {σ : State} {a sz c : Nat} {ad am : Bool} (h : ¬ stamped σ a) :
    sAlloc a sz c ad am σ = .stop .abort σ := by simp [sAlloc, sReset_stray h]
theorem sUnique_stray {σ : State} {a : Nat} (h : ¬ stamped σ a) : sUnique a σ = .stop .abort σ := by
  simp [sUnique, gGet_stray h]
theorem sGet_stray {σ : State} {a : Nat} (h : ¬ stamped σ a) : sGet a σ = .stop .abort σ := by
  simp [sGet, gGet_stray h]
theorem aReset_stray {σ : State} {a : Nat} (h : ¬ stamped σ a) : aReset a σ = .stop .abort σ := by
  simp [aReset, sReset_stray h]
theorem aAlloc_stray {σ : State} {a nm sz : Nat} {ad am : Bool} (h : ¬ stamped σ a) :
    aAlloc a nm sz ad am σ = .stop .abort σ := by simp [aAlloc, aReset_stray h]
theorem aSet_stray {σ : State} {a e nm sz : Nat} {ad am : Bool} (h : ¬ stamped σ a) :
    aSet a e nm sz ad am σ = .stop .abort σ := by simp [aSet, aAlloc_stray h]
theorem aRelease_stray {σ : State} {a : Nat} (h : ¬ stamped σ a) : aRelease a σ = .stop .abort σ := by
  simp [aRelease, sGet_stray h]
theorem aData_stray {σ : State} {a : Nat} (h : ¬ stamped σ a) : aData a σ = .stop .abort σ := by
  simp [aData, sGet_stray h]
theorem aAt_stray {σ : State} {a i : Nat} (h : ¬ stamped σ a) : aAt a i σ = .stop .abort σ := by
  unfold aAt; split
  · rfl
  · simp [sGet_stray h]

/-! ### two-argument functions -/

theorem gCopy_stray {σ : State} {d s : Nat} (h : ¬ stamped σ s) : gCopy d s σ = .stop .abort σ := by
  simp [gCopy, gGet_stray h]
theorem gSwap_stray1 {σ : State} {a b : Nat} (h : ¬ stamped σ a) : gSwap a b σ = .stop .abort σ := by
  simp [gSwap, gGet_stray h]
theorem gSwap_stray2 {σ : State} {a b : Nat} (ha : stamped σ a) (h : ¬ stamped σ b) :
    gSwap a b σ = .stop .abort σ := by
  simp [gSwap, gGet_eval ha, gGet_stray h]
theorem gSwap_stray {σ : State} {a b : Nat} (h : ¬ stamped σ a ∨ ¬ stamped σ b) :
    gSwap a b σ = .stop .abort σ := by
  by_cases ha : stamped σ a
  · exact gSwap_stray2 ha (h.resolve_left (fun n => n ha))
  · exact gSwap_stray1 ha
theorem uSwap_stray {σ : State} {a b : Nat} (h : ¬ stamped σ a ∨ ¬ stamped σ b) :
    uSwap a b σ = .stop .abort σ := by simp [uSwap, gSwap_stray h]

/-- share: a stray target aborts at once -/
theorem sShare_stray_n {σ : State} {e n : Nat} (h : ¬ stamped σ n) : sShare e n σ = .stop .abort σ := by
  simp [sShare, sReset_stray h]

/-- share: a stray source aborts right after the (proper) target was reset -/
theorem sShare_stray_e {σ : State} {e n : Nat} (I : Inv σ) (hn : n < σ.n) (hsn : stamped σ n)
    (hkn : σ.kind n = .shared ∨ σ.kind n = .array) (h : ¬ stamped σ e) :
    ∃ σ1, sReset n σ = .ok () σ1 ∧ sShare e n σ = .stop .abort σ1 := by
  obtain ⟨σ1, h1, _, _, ho1⟩ := sReset_inv I hn hsn hkn
  have hen : e ≠ n := by rintro rfl; exact h hsn
  have : ¬ stamped σ1 e := by unfold stamped at h ⊢; rw [ho1]; simpa [hen] using h
  exact ⟨σ1, h1, by simp [sShare, h1, gCopy_stray this]⟩

theorem wFrom_stray_w {σ : State} {w s : Nat} (h : ¬ stamped σ w) : wFrom w s σ = .stop .abort σ := by
  simp [wFrom, wReset_stray h]

theorem wFrom_stray_s {σ : State} {w s : Nat} (I : Inv σ) (hw : w < σ.n) (hsw : stamped σ w)
    (hkw : σ.kind w = .weak) (h : ¬ stamped σ s) :
    ∃ σ1, wReset w σ = .ok () σ1 ∧ wFrom w s σ = .stop .abort σ1 := by
  obtain ⟨σ1, h1, _, _, ho1⟩ := wReset_inv I hw hsw hkw
  have hne : s ≠ w := by rintro rfl; exact h hsw
  have : ¬ stamped σ1 s := by unfold stamped at h ⊢; rw [ho1]; simpa [hne] using h
  exact ⟨σ1, h1, by simp [wFrom, h1, gCopy_stray this]⟩

theorem wLock_stray_s {σ : State} {w s : Nat} (h : ¬ stamped σ s) : wLock w s σ = .stop .abort σ := by
  simp [wLock, sReset_stray h]

theorem wLock_stray_w {σ : State} {w s : Nat} (I : Inv σ) (hs : s < σ.n) (hss : stamped σ s)
    (hks : σ.kind s = .shared ∨ σ.kind s = .array) (h : ¬ stamped σ w) :
    ∃ σ1, sReset s σ = .ok () σ1 ∧ wLock w s σ = .stop .abort σ1 := by
  obtain ⟨σ1, h1, _, _, ho1⟩ := sReset_inv I hs hss hks
  have hne : w ≠ s := by rintro rfl; exact h hss
  have : ¬ stamped σ1 w := by unfold stamped at h ⊢; rw [ho1]; simpa [hne] using h
  exact ⟨σ1, h1, by simp [wLock, h1, gCopy_stray this]⟩

theorem aSlice_stray_a {σ : State} {a b e s : Nat} (h : ¬ stamped σ a) : aSlice a b e s σ = .stop .abort σ := by
  simp [aSlice, sGet_stray h]

/-- slice into a stray target: abort on bad bounds, else right after the plain `off`/`len` words of
the target were written -/
theorem aSlice_stray_s {σ : State} {a b e s : Nat} (I : Inv σ) (ha : a < σ.n) (hsa : stamped σ a)
    (hka : σ.kind a = .array) (h : ¬ stamped σ s) :
    aSlice a b e s σ = .stop .abort σ ∨
    aSlice a b e s σ = .stop .abort (σ.setObj s { σ.obj s with off := ((σ.obj a).off + b) % W, len := e - b }) := by
  have hsa' : (σ.obj a).self = a := hsa
  have has : a ≠ s := by rintro rfl; exact h hsa
  by_cases hp : (σ.obj a).ptr = 0
  · left; simp [aSlice, sGet_eval I ha hsa' (Or.inr hka), hp]
  · obtain ⟨hl, hd, hlt, hcnt, hpos, hhard, hm, hmd, hmlt⟩ := owner_facts I ha hsa' (Or.inr hka) hp
    by_cases hc : e < b ∨ e > ((σ.blk (σ.blk (σ.obj a).ptr).up).anm + W - (σ.obj a).off) % W
    · left; simp [aSlice, sGet_eval I ha hsa' (Or.inr hka), hp, hm.1, hm.2.1, hc]
    · right
      have : ¬ stamped (σ.setObj s { σ.obj s with off := ((σ.obj a).off + b) % W, len := e - b }) s := by
        simpa [stamped] using h
      simp only [aSlice, sGet_eval I ha hsa' (Or.inr hka), hp, if_false, bind_ok, hm.1, hm.2.1, if_true, hc,
        ne_eq, has, not_false_eq_true, sShare_stray_n this]

theorem aUnslice_stray_s {σ : State} {s a : Nat} (h : ¬ stamped σ s) : aUnslice s a σ = .stop .abort σ := by
  simp [aUnslice, sGet_stray h]

theorem aUnslice_stray_a {σ : State} {s a : Nat} (I : Inv σ) (hs : s < σ.n) (hss : stamped σ s)
    (hks : σ.kind s = .array) (h : ¬ stamped σ a) :
    aUnslice s a σ = .stop .abort σ ∨
    aUnslice s a σ = .stop .abort
      (σ.setObj a { σ.obj a with off := 0, len := (σ.blk (σ.blk (σ.obj s).ptr).up).anm }) := by
  have hss' : (σ.obj s).self = s := hss
  have has : a ≠ s := by rintro rfl; exact h hss
  by_cases hp : (σ.obj s).ptr = 0
  · left; simp [aUnslice, sGet_eval I hs hss' (Or.inr hks), hp]
  · obtain ⟨hl, hd, hlt, hcnt, hpos, hhard, hm, hmd, hmlt⟩ := owner_facts I hs hss' (Or.inr hks) hp
    right
    have : ¬ stamped (σ.setObj a { σ.obj a with off := 0, len := (σ.blk (σ.blk (σ.obj s).ptr).up).anm }) a := by
      simpa [stamped] using h
    simp only [aUnslice, sGet_eval I hs hss' (Or.inr hks), hp, if_false, bind_ok, hm.1, hm.2.1, if_true,
      ne_eq, has, not_false_eq_true, sShare_stray_n this]

end Cstl.Mem
