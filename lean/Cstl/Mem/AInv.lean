import Cstl.Mem.Exec
/-
The array-view invariant (C14) on top of the ownership invariant, and its
preservation by every operation.
-/
set_option linter.unusedSimpArgs false
namespace Cstl.Mem

/-- what the array invariant says about the array object `a` -/
def ArrClause (σ : State) (a : Nat) : Prop :=
  ((σ.obj a).ptr = 0 → (σ.obj a).len = 0 ∧ (σ.obj a).off = 0) ∧
  ((σ.obj a).ptr ≠ 0 → ArrOk (σ.obj a) (σ.blk (σ.blk (σ.obj a).ptr).up) σ.extSize)

/-- **Inv of C14**: an empty array object has length 0; otherwise offset + length stay within the
element count of the descriptor, the byte count is representable, an allocated buffer fills the rest
of its block exactly (header + nm * sz = block size, no wrap-around), an external buffer has room -/
structure AInv (σ : State) : Prop where
  arr : ∀ a, a < σ.n → stamped σ a → σ.kind a = .array → ArrClause σ a
  /-- the client's external buffers have a representable size -/
  ext_lt : ∀ e, σ.extSize e < W

/-- the frame between two states that an untouched array object needs -/
structure BlkFrame (σ σ' : State) : Prop where
  n : σ'.n = σ.n
  kind : σ'.kind = σ.kind
  ext : σ'.extSize = σ.extSize
  ghost : ∀ b, b < σ.next → (σ'.blk b).size = (σ.blk b).size ∧ (σ'.blk b).isData = (σ.blk b).isData ∧
    (σ'.blk b).ownerD = (σ.blk b).ownerD
  desc : ∀ b, b < σ.next → (σ'.blk b).asz = (σ.blk b).asz ∧ (σ'.blk b).anm = (σ.blk b).anm ∧
    (σ'.blk b).abuf = (σ.blk b).abuf

/-- a bookkeeping block that has an owner before and an owner after keeps its managed memory block -/
theorem up_stable' {σ σ' : State} {x y d : Nat} (I : Inv σ) (I' : Inv σ') (F : BlkFrame σ σ')
    (hx : x < σ.n) (hsx : stamped σ x) (hkx : σ.kind x = .shared ∨ σ.kind x = .array)
    (hpx : (σ.obj x).ptr = d) (hd : d ≠ 0)
    (hy : y < σ.n) (hsy : stamped σ' y) (hky : σ.kind y = .shared ∨ σ.kind y = .array)
    (hpy : (σ'.obj y).ptr = d) :
    (σ'.blk d).up = (σ.blk d).up ∧ (σ.blk d).up < σ.next := by
  obtain ⟨hl, hdd, hlt, _, _, _, hm, _, hmlt⟩ := owner_facts I hx hsx hkx (by rw [hpx]; exact hd)
  obtain ⟨_, _, _, _, _, _, hm', _, _⟩ :=
    owner_facts I' (by rw [F.n]; exact hy) hsy (by rw [F.kind]; exact hky) (by rw [hpy]; exact hd)
  rw [hpx] at hm hmlt; rw [hpy] at hm'
  have g := F.ghost _ hmlt
  exact ⟨I'.owner_inj _ _ hm'.2.2.1 (by rw [g.2.1]; exact hm.2.2.1) (by rw [hm'.2.2.2.1, g.2.2, hm.2.2.2.1])
    (by rw [hm'.2.2.2.1]; exact hd), hmlt⟩

/-- an owner that is untouched keeps the same managed memory block -/
theorem up_stable {σ σ' : State} {a : Nat} (I : Inv σ) (I' : Inv σ') (F : BlkFrame σ σ') (ha : a < σ.n)
    (hs : stamped σ a) (hk : σ.kind a = .shared ∨ σ.kind a = .array) (ho : σ'.obj a = σ.obj a)
    (hp : (σ.obj a).ptr ≠ 0) :
    (σ'.blk (σ.obj a).ptr).up = (σ.blk (σ.obj a).ptr).up ∧ (σ.blk (σ.obj a).ptr).up < σ.next :=
  up_stable' I I' F ha hs hk rfl hp ha (by unfold stamped at hs ⊢; rw [ho]; exact hs) hk (by rw [ho])

/-- an array object that the operation did not write keeps its clause -/
theorem arr_other {σ σ' : State} {a : Nat} (I : Inv σ) (I' : Inv σ') (F : BlkFrame σ σ') (ha : a < σ.n)
    (hs : stamped σ a) (hk : σ.kind a = .array) (ho : σ'.obj a = σ.obj a) (hc : ArrClause σ a) :
    ArrClause σ' a := by
  unfold ArrClause at hc ⊢
  rw [ho]
  refine ⟨hc.1, fun hp => ?_⟩
  obtain ⟨hup, hmlt⟩ := up_stable I I' F ha hs (Or.inr hk) ho hp
  have h := hc.2 hp
  unfold ArrOk at h ⊢
  rw [hup, F.ext]
  have g := F.ghost _ hmlt
  have d := F.desc _ hmlt
  rw [d.1, d.2.1, d.2.2, g.1]
  exact h

/-- the frame of a library call that writes no descriptor -/
theorem blkFrame_of_ext {A : Nat → Prop} {σ σ' : State} (E : Ext A false σ σ') : BlkFrame σ σ' :=
  ⟨E.n, E.kind, E.ext, fun b hb => ⟨(E.ghost b hb).1, (E.ghost b hb).2.1, (E.ghost b hb).2.2.1⟩,
   E.desc rfl⟩

theorem exec_ext {op : Op} {σ σ' : State} {v : Val} (hn : ∀ d s, op ≠ .rawCopy d s)
    (h : exec op σ = .ok v σ') : Ext (· ∈ op.writes) op.writesDesc σ σ' := by
  have E := (steps_exec op σ hn).ext
  rw [h] at E; exact E

/-- generic preservation: the op writes no descriptor; the clauses of the array objects it writes are
supplied separately -/
theorem ainv_frame {op : Op} {σ σ' : State} {v : Val} (I : Inv σ) (I' : Inv σ') (AI : AInv σ)
    (hn : ∀ d s, op ≠ .rawCopy d s) (hD : op.writesDesc = false) (h : exec op σ = .ok v σ')
    (hw : ∀ a, a ∈ op.writes → a < σ.n → σ.kind a = .array → stamped σ' a → ArrClause σ' a) :
    AInv σ' := by
  have E := exec_ext hn h
  rw [hD] at E
  have F := blkFrame_of_ext E
  refine ⟨fun a ha hs hk => ?_, fun e => by rw [F.ext]; exact AI.ext_lt e⟩
  rw [F.n] at ha; rw [F.kind] at hk
  by_cases haw : a ∈ op.writes
  · exact hw a haw ha hk hs
  · have ho := E.objs a haw
    have hs0 : stamped σ a := by unfold stamped at hs ⊢; rw [← ho]; exact hs
    exact arr_other I I' F ha hs0 hk ho (AI.arr a ha hs0 hk)

theorem unitR_ok_inv {σ' : State} {v : Val} {r : Res Unit} (h : unitR r = .ok v σ') : r = .ok () σ' := by
  cases r with
  | ok u σ1 => simp [unitR] at h; rw [h.2]
  | stop k σ1 => simp [unitR] at h

/-- an operation that succeeded read only through stamped objects -/
theorem reads_stamped {op : Op} {σ σ' : State} {v : Val} (I : Inv σ) (hd : op.dom σ)
    (h : exec op σ = .ok v σ') : ∀ x, x ∈ op.reads → stamped σ x := by
  intro x hx
  apply Classical.byContradiction
  intro hs
  obtain ⟨σ1, h1, _⟩ := exec_stray I hd hx hs
  rw [h] at h1; cases h1

theorem clause_congr {σ σ' : State} {a : Nat} (ho : σ'.obj a = σ.obj a) (hb : σ'.blk = σ.blk)
    (he : σ'.extSize = σ.extSize) (h : ArrClause σ a) : ArrClause σ' a := by
  unfold ArrClause at h ⊢; rw [ho, hb, he]; exact h

theorem clause_empty {σ : State} {a : Nat} (hp : (σ.obj a).ptr = 0) (hl : (σ.obj a).len = 0)
    (ho : (σ.obj a).off = 0) : ArrClause σ a :=
  ⟨fun _ => ⟨hl, ho⟩, fun h => absurd hp h⟩

/-- ops that do not touch array objects or descriptors -/
theorem ainv_nonarray {op : Op} {σ σ' : State} {v : Val} (I : Inv σ) (AI : AInv σ) (hd : op.dom σ)
    (hn : ∀ d s, op ≠ .rawCopy d s) (hD : op.writesDesc = false)
    (hw : ∀ a, a ∈ op.writes → σ.kind a ≠ .array) (h : exec op σ = .ok v σ') : AInv σ' :=
  ainv_frame I (exec_inv I hd h).1 AI hn hD h (fun a ha _ hk _ => absurd hk (hw a ha))

theorem fits_lt {nm sz : Nat} (hf : fits nm sz = true) : HDR + nm * sz < W := by
  simp only [fits, Bool.or_eq_true, beq_iff_eq, decide_eq_true_eq] at hf
  rcases hf with hz | hle
  · subst hz; simp [HDR, W]
  · have := Nat.mul_le_mul_right sz hle
    have h2 := Nat.div_mul_le_self (W - 1 - HDR) sz
    simp only [HDR, W] at *; omega

/-- after a successful `cstl_array_alloc`: empty, or the whole fresh buffer -/
theorem aAlloc_detail {σ : State} {a nm sz : Nat} {ad am : Bool} (I : Inv σ) (ha : a < σ.n)
    (hs : stamped σ a) (hk : σ.kind a = .array) (_hnm : nm < W) (hsz : sz < W) :
    ∃ σ', aAlloc a nm sz ad am σ = .ok () σ' ∧ Inv σ' ∧
      (∀ b, b < σ.next → (σ'.blk b).asz = (σ.blk b).asz ∧ (σ'.blk b).anm = (σ.blk b).anm ∧
        (σ'.blk b).abuf = (σ.blk b).abuf) ∧
      (((σ'.obj a).ptr = 0 ∧ (σ'.obj a).len = 0 ∧ (σ'.obj a).off = 0 ∧
          (fits nm sz = false ∨ ad = false ∨ am = false ∨ LIMIT < (HDR + nm * sz) % W)) ∨
       ((σ'.obj a).ptr ≠ 0 ∧ σ.next ≤ (σ'.obj a).ptr ∧ (σ'.obj a).off = 0 ∧ (σ'.obj a).len = nm ∧
        fits nm sz = true ∧ ad = true ∧ am = true ∧
        (σ'.blk (σ'.obj a).ptr).up = (σ'.obj a).ptr + 1 ∧
        (σ'.blk (σ'.obj a).ptr).soft = 1 ∧
        σ'.blk ((σ'.obj a).ptr + 1) =
          { live := true, size := (HDR + nm * sz) % W, ownerD := (σ'.obj a).ptr, clrG := 0,
            asz := sz, anm := nm, abuf := 0 })) := by
  obtain ⟨σ1, h1, I1, S1, ho1⟩ := aReset_inv I ha hs hk
  have hs' : (σ.obj a).self = a := hs
  have ha1 : a < σ1.n := by rw [S1.n]; exact ha
  have hk1 : σ1.kind a = .array := by rw [S1.kind]; exact hk
  have hs1 : stamped σ1 a := by unfold stamped; rw [ho1]; simp [hs']
  have E1 := (steps_aReset (A := fun _ => True) (D := false) a trivial (Steps.refl σ)).ext
  rw [h1] at E1
  have hoa1 : (σ1.obj a).ptr = 0 ∧ (σ1.obj a).off = 0 ∧ (σ1.obj a).len = 0 := by rw [ho1]; simp
  rw [aAlloc_eq, h1, bind_ok]
  by_cases hf : fits nm sz = true
  · obtain ⟨σ2, h2, I2, S2, hox2, hres⟩ := sAlloc_inv (sz := (HDR + nm * sz) % W) (clr := 0) (ad := ad) (am := am)
      I1 ha1 hs1 (Or.inr hk1)
    have E2 := (steps_sAlloc (A := fun _ => True) (D := false) a ((HDR + nm * sz) % W) 0 ad am trivial
      (Steps.refl σ1)).ext
    rw [h2] at E2
    rw [if_pos hf, h2, bind_ok]
    have hs2 : (σ2.obj a).self = a := by
      rcases hres with ⟨h, _⟩ | ⟨d, h, _⟩ <;> rw [h] <;> exact hs1
    obtain ⟨σ3, h3, I3, S3, hox3, hs3, hp3, hn3, hd3⟩ := descTail_inv nm sz 0 true I2 (by rw [S2.n]; exact ha1) hs2
      (by rw [S2.kind]; exact hk1)
    refine ⟨σ3, h3, I3, ?_, ?_⟩
    · -- descriptors of the blocks that existed before are untouched
      intro b hb
      have hb1 : b < σ1.next := Nat.lt_of_lt_of_le hb E1.next
      have d1 := E1.desc rfl b hb
      have d2 := E2.desc rfl b hb1
      rcases hd3 with ⟨_, he⟩ | ⟨hp2, _, _, hfr, _⟩
      · rw [he]; exact ⟨d2.1.trans d1.1, d2.2.1.trans d1.2.1, d2.2.2.trans d1.2.2⟩
      · rcases hres with ⟨h, _⟩ | ⟨d, h, hd0, hfresh, _, _, _, _, hbd, _⟩
        · rw [h] at hp2; simp at hp2
        · have hbne : b ≠ (σ2.blk (σ2.obj a).ptr).up := by
            rw [h]; simp only; rw [hbd]; simp only; omega
          rw [hfr b hbne]
          exact ⟨d2.1.trans d1.1, d2.2.1.trans d1.2.1, d2.2.2.trans d1.2.2⟩
    · rcases hres with ⟨h, hwhy⟩ | ⟨d, h, hd0, hfresh, hsz0, hlim, had, ham, hbd, hbm⟩
      · left
        have hp2 : (σ2.obj a).ptr = 0 := by rw [h]
        rcases hd3 with ⟨_, he⟩ | ⟨hne, _⟩
        · rw [he]
          refine ⟨hp2, by rw [h]; exact hoa1.2.2, by rw [h]; exact hoa1.2.1, ?_⟩
          rcases hwhy with h0 | h0 | h0 | h0
          · -- header + nm*sz is never 0
            exfalso
            simp only [fits, Bool.or_eq_true, beq_iff_eq, decide_eq_true_eq] at hf
            have : HDR + nm * sz < W := by
              rcases hf with hz | hle
              · subst hz; simp [HDR, W]
              · have := Nat.mul_le_mul_right sz hle
                have h2 := Nat.div_mul_le_self (W - 1 - HDR) sz
                simp only [HDR, W] at *; omega
            rw [Nat.mod_eq_of_lt this] at h0; simp [HDR] at h0
          · exact Or.inr (Or.inl h0)
          · exact Or.inr (Or.inr (Or.inl h0))
          · exact Or.inr (Or.inr (Or.inr h0))
        · exact absurd hp2 hne
      · right
        have hp2 : (σ2.obj a).ptr = d := by rw [h]
        rcases hd3 with ⟨hz, _⟩ | ⟨_, hoff, hlen, hfr, hblk⟩
        · rw [hp2] at hz; exact absurd hz hd0
        · have hup2 : (σ2.blk d).up = d + 1 := by rw [hbd]
          rw [hp2, hup2] at hblk hfr
          have hdne : d ≠ d + 1 := by omega
          refine ⟨by rw [hp3, hp2]; exact hd0, by rw [hp3, hp2]; exact Nat.le_trans E1.next hfresh,
            by rw [hoff, h]; exact hoa1.2.1, hlen, hf, had, ham, ?_, ?_, ?_⟩
          · rw [hp3, hp2, hfr d hdne, hbd]
          · rw [hp3, hp2, hfr d hdne, hbd]
          · rw [hp3, hp2, hblk, hbm]; simp
  · rw [if_neg hf, bind_ok]
    obtain ⟨σ3, h3, I3, S3, hox3, hs3, hp3, hn3, hd3⟩ := descTail_inv nm sz 0 true I1 ha1 hs1 hk1
    rcases hd3 with ⟨_, he⟩ | ⟨hne, _⟩
    · rw [he] at h3
      refine ⟨σ1, h3, I1, fun b hb => E1.desc rfl b hb, Or.inl ⟨hoa1.1, hoa1.2.2, hoa1.2.1, Or.inl ?_⟩⟩
      cases hfv : fits nm sz with
      | true => exact absurd hfv hf
      | false => rfl
    · exact absurd hoa1.1 hne

/-- after a successful `cstl_array_set`: empty, or a view of the whole external buffer -/
theorem aSet_detail {σ : State} {a e nm sz : Nat} {ad am : Bool} (I : Inv σ) (ha : a < σ.n)
    (hs : stamped σ a) (hk : σ.kind a = .array) (hsz : sz < W) :
    ∃ σ', aSet a e nm sz ad am σ = .ok () σ' ∧ Inv σ' ∧
      (∀ b, b < σ.next → (σ'.blk b).asz = (σ.blk b).asz ∧ (σ'.blk b).anm = (σ.blk b).anm ∧
        (σ'.blk b).abuf = (σ.blk b).abuf) ∧
      (((σ'.obj a).ptr = 0 ∧ (σ'.obj a).len = 0 ∧ (σ'.obj a).off = 0 ∧ (ad = false ∨ am = false)) ∨
       ((σ'.obj a).ptr ≠ 0 ∧ σ.next ≤ (σ'.obj a).ptr ∧ (σ'.obj a).off = 0 ∧ (σ'.obj a).len = nm ∧
        ad = true ∧ am = true ∧
        (σ'.blk (σ'.obj a).ptr).up = (σ'.obj a).ptr + 1 ∧ (σ'.blk (σ'.obj a).ptr).soft = 1 ∧
        σ'.blk ((σ'.obj a).ptr + 1) =
          { live := true, size := HDR, ownerD := (σ'.obj a).ptr, clrG := 0, asz := sz, anm := nm, abuf := e })) := by
  obtain ⟨σ1, h1, I1, hd1, hres⟩ := aAlloc_detail (nm := 0) (sz := sz) (ad := ad) (am := am) I ha hs hk
    (by simp [W]) hsz
  have E1 : Ext (fun _ => True) true σ σ1 := by
    have := (steps_aAlloc (A := fun _ => True) (D := true) a 0 sz ad am trivial rfl (Steps.refl σ)).ext
    rw [h1] at this; exact this
  have ha1 : a < σ1.n := by rw [E1.n]; exact ha
  have hk1 : σ1.kind a = .array := by rw [E1.kind]; exact hk
  have hs1 : (σ1.obj a).self = a := by
    rcases E1.self a with h | h
    · rw [h]; exact hs
    · exact h
  rw [aSet_eq, h1, bind_ok]
  obtain ⟨σ3, h3, I3, S3, hox3, hs3, hp3, hn3, hd3⟩ := descTail_inv nm sz e false I1 ha1 hs1 hk1
  refine ⟨σ3, h3, I3, ?_, ?_⟩
  · intro b hb
    rcases hd3 with ⟨_, he⟩ | ⟨hp1, _, _, hfr, _⟩
    · rw [he]; exact hd1 b hb
    · rcases hres with ⟨hz, _⟩ | ⟨_, hfresh, _, _, _, _, _, hup, _, _⟩
      · exact absurd hz hp1
      · have hbne : b ≠ (σ1.blk (σ1.obj a).ptr).up := by rw [hup]; omega
        rw [hfr b hbne]; exact hd1 b hb
  · rcases hres with ⟨hz, hl, ho, hwhy⟩ | ⟨hne, hfresh, hoff, hlen, hfit, had, ham, hup, hsoft, hblk⟩
    · left
      rcases hd3 with ⟨_, he⟩ | ⟨hp1, _⟩
      · rw [he]
        refine ⟨hz, hl, ho, ?_⟩
        rcases hwhy with h0 | h0 | h0 | h0
        · simp [fits] at h0
        · exact Or.inl h0
        · exact Or.inr h0
        · simp [HDR, LIMIT, W] at h0
      · exact absurd hz hp1
    · right
      rcases hd3 with ⟨hz, _⟩ | ⟨_, hoff3, hlen3, hfr, hblk3⟩
      · exact absurd hz hne
      · rw [hup] at hfr hblk3
        have hdne : (σ1.obj a).ptr ≠ (σ1.obj a).ptr + 1 := by omega
        refine ⟨by rw [hp3]; exact hne, by rw [hp3]; exact hfresh, by rw [hoff3]; exact hoff, hlen3, had, ham,
          ?_, ?_, ?_⟩
        · rw [hp3, hfr _ hdne]; exact hup
        · rw [hp3, hfr _ hdne]; exact hsoft
        · rw [hp3, hblk3, hblk]; simp [HDR, W]

/-- a clause only looks at the object, the blocks and the external buffer sizes -/
theorem ainv_objs_only {σ σ' : State} (AI : AInv σ) (hn : σ'.n = σ.n) (hk : σ'.kind = σ.kind)
    (hb : σ'.blk = σ.blk) (he : σ'.extSize = σ.extSize) {t : Nat}
    (ho : ∀ x, x ≠ t → σ'.obj x = σ.obj x)
    (ht : t < σ.n → σ.kind t = .array → stamped σ' t → ArrClause σ' t) : AInv σ' := by
  refine ⟨fun a ha hs hka => ?_, fun e => by rw [he]; exact AI.ext_lt e⟩
  rw [hn] at ha; rw [hk] at hka
  by_cases hat : a = t
  · subst hat; exact ht ha hka hs
  · have hoa := ho a hat
    have hs0 : stamped σ a := by unfold stamped at hs ⊢; rw [← hoa]; exact hs
    exact clause_congr hoa hb he (AI.arr a ha hs0 hka)

/-- **AInv is preserved by every operation** (any arguments, malloc answers, with stray copies around) -/
theorem exec_ainv {op : Op} {σ σ' : State} {v : Val} (I : Inv σ) (AI : AInv σ) (hd : op.dom σ)
    (h : exec op σ = .ok v σ') : AInv σ' := by
  have hrs := reads_stamped I hd h
  have I' := (exec_inv I hd h).1
  cases op with
  | gInit a => exact ainv_nonarray I AI hd (by simp) rfl (by simp [Op.writes]; rw [hd.2]; simp) h
  | gSet a p => exact ainv_nonarray I AI hd (by simp) rfl (by simp [Op.writes]; rw [hd.1.2]; simp) h
  | gGet a => exact ainv_nonarray I AI hd (by simp) rfl (by simp [Op.writes]) h
  | gCopy d s => exact ainv_nonarray I AI hd (by simp) rfl (by simp [Op.writes]; rw [hd.1.2]; simp) h
  | gSwap a b =>
    refine ainv_nonarray I AI hd (by simp) rfl ?_ h
    intro x hx; simp [Op.writes] at hx
    rcases hx with rfl | rfl
    · rw [hd.1.2]; simp
    · rw [hd.2.2]; simp
  | uInit a => exact ainv_nonarray I AI hd (by simp) rfl (by simp [Op.writes]; rw [hd.1.2]; simp) h
  | uAlloc a sz c p ans => exact ainv_nonarray I AI hd (by simp) rfl (by simp [Op.writes]; rw [hd.1.2]; simp) h
  | uGet a => exact ainv_nonarray I AI hd (by simp) rfl (by simp [Op.writes]) h
  | uRelease a => exact ainv_nonarray I AI hd (by simp) rfl (by simp [Op.writes]; rw [hd.2]; simp) h
  | uSwap a b =>
    refine ainv_nonarray I AI hd (by simp) rfl ?_ h
    intro x hx; simp [Op.writes] at hx
    rcases hx with rfl | rfl
    · rw [hd.1.2]; simp
    · rw [hd.2.2]; simp
  | uReset a => exact ainv_nonarray I AI hd (by simp) rfl (by simp [Op.writes]; rw [hd.2]; simp) h
  | sInit a => exact ainv_nonarray I AI hd (by simp) rfl (by simp [Op.writes]; rw [hd.1.2]; simp) h
  | sAlloc a sz c ad am => exact ainv_nonarray I AI hd (by simp) rfl (by simp [Op.writes]; rw [hd.1.2]; simp) h
  | sUnique a => exact ainv_nonarray I AI hd (by simp) rfl (by simp [Op.writes]) h
  | sGet a => exact ainv_nonarray I AI hd (by simp) rfl (by simp [Op.writes]) h
  | sShare e n => exact ainv_nonarray I AI hd (by simp) rfl (by simp [Op.writes]; rw [hd.2.2]; simp) h
  | sSwap a b =>
    refine ainv_nonarray I AI hd (by simp) rfl ?_ h
    intro x hx; simp [Op.writes] at hx
    rcases hx with rfl | rfl
    · rw [hd.1.2]; simp
    · rw [hd.2.2]; simp
  | sReset a => exact ainv_nonarray I AI hd (by simp) rfl (by simp [Op.writes]; rw [hd.2]; simp) h
  | wInit a => exact ainv_nonarray I AI hd (by simp) rfl (by simp [Op.writes]; rw [hd.1.2]; simp) h
  | wFrom w s => exact ainv_nonarray I AI hd (by simp) rfl (by simp [Op.writes]; rw [hd.1.2]; simp) h
  | wLock w s => exact ainv_nonarray I AI hd (by simp) rfl (by simp [Op.writes]; rw [hd.2.2]; simp) h
  | wSwap a b =>
    refine ainv_nonarray I AI hd (by simp) rfl ?_ h
    intro x hx; simp [Op.writes] at hx
    rcases hx with rfl | rfl
    · rw [hd.1.2]; simp
    · rw [hd.2.2]; simp
  | wReset a => exact ainv_nonarray I AI hd (by simp) rfl (by simp [Op.writes]; rw [hd.2]; simp) h
  | aSize a => simp [exec] at h; rw [← h.2]; exact AI
  | aData a => exact ainv_frame I I' AI (by simp) rfl h (by simp [Op.writes])
  | aAt a i => exact ainv_frame I I' AI (by simp) rfl h (by simp [Op.writes])
  | rawCopy d s =>
    obtain ⟨_, hdn, hk, hnh, hself⟩ := hd
    simp [exec] at h; obtain ⟨_, rfl⟩ := h
    refine ainv_objs_only AI rfl rfl rfl rfl (t := d) (fun x hx => by simp [rawCopy, hx]) ?_
    intro _ hka hst
    rcases hself with rfl | hne
    · have : rawCopy d d σ = σ := by
        refine State.ext' rfl rfl (fun x => ?_) (fun _ => rfl) rfl rfl rfl
        by_cases hx : x = d <;> simp [rawCopy, hx]
      rw [this] at hst ⊢
      exact AI.arr d hdn hst hka
    · exact absurd (by simpa [stamped, rawCopy] using hst) hne
  | aInit a =>
    obtain ⟨⟨ha, hk⟩, hnh⟩ := hd
    simp [exec] at h; obtain ⟨_, rfl⟩ := h
    refine ainv_objs_only AI rfl rfl rfl rfl (t := a) (fun x hx => by simp [aInit, sInit, hx]) ?_
    intro _ _ _
    exact clause_empty (by simp [aInit, sInit]) (by simp [aInit, sInit]) (by simp [aInit, sInit])
  | aReset a =>
    obtain ⟨ha, hk⟩ := hd
    have hsa := hrs a (by simp [Op.reads])
    obtain ⟨σ1, h1, _, _, ho1⟩ := aReset_inv I ha hsa hk
    have := unitR_ok_inv h
    rw [h1] at this; cases this
    refine ainv_frame I I' AI (by simp) rfl h ?_
    intro x hx _ _ _
    simp [Op.writes] at hx; subst hx
    exact clause_empty (by rw [ho1]; simp) (by rw [ho1]; simp) (by rw [ho1]; simp)
  | aRelease a =>
    obtain ⟨ha, hk⟩ := hd
    have hsa := hrs a (by simp [Op.reads])
    obtain ⟨l, σ1, h1, _, _, hcase⟩ := aRelease_inv I ha hsa hk
    simp only [exec, h1, bind_ok] at h
    simp at h; obtain ⟨_, rfl⟩ := h
    rcases hcase with ⟨_, rfl⟩ | ⟨hr, _⟩
    · exact AI
    · obtain ⟨σ2, h2, _, _, ho2⟩ := aReset_inv I ha hsa hk
      rw [hr] at h2; cases h2
      have hex : exec (.aReset a) σ = .ok .unit σ1 := by simp [exec, unitR, hr]
      refine ainv_frame I I' AI (op := .aReset a) (by simp) rfl hex ?_
      intro x hx _ _ _
      simp [Op.writes] at hx; subst hx
      exact clause_empty (by rw [ho2]; simp) (by rw [ho2]; simp) (by rw [ho2]; simp)
  | aAlloc a nm sz ad am =>
    obtain ⟨⟨ha, hk⟩, hnm, hsz⟩ := hd
    have hsa := hrs a (by simp [Op.reads])
    obtain ⟨σ1, h1, _, hdesc, hres⟩ := aAlloc_detail (ad := ad) (am := am) I ha hsa hk hnm hsz
    have := unitR_ok_inv h
    rw [h1] at this; cases this
    have E := exec_ext (op := .aAlloc a nm sz ad am) (by simp) h
    have F : BlkFrame σ σ' :=
      ⟨E.n, E.kind, E.ext, fun b hb => ⟨(E.ghost b hb).1, (E.ghost b hb).2.1, (E.ghost b hb).2.2.1⟩, hdesc⟩
    refine ⟨fun x hx hs hkx => ?_, fun e => by rw [F.ext]; exact AI.ext_lt e⟩
    rw [F.n] at hx; rw [F.kind] at hkx
    by_cases hxa : x = a
    · subst hxa
      rcases hres with ⟨hz, hl, ho, _⟩ | ⟨hne, _, hoff, hlen, hfit, _, _, hup, _, hblk⟩
      · exact clause_empty hz hl ho
      · refine ⟨fun h0 => absurd h0 hne, fun _ => ?_⟩
        have hlt := fits_lt hfit
        unfold ArrOk
        rw [hup, hblk, hoff, hlen]
        simp only
        refine ⟨by omega, by omega, hnm, hsz, fun _ => ⟨(Nat.mod_eq_of_lt hlt).symm, Nat.mod_lt _ (by simp [W])⟩,
          fun h0 => absurd rfl h0⟩
    · have ho := E.objs x (by simp [Op.writes, hxa])
      have hs0 : stamped σ x := by unfold stamped at hs ⊢; rw [← ho]; exact hs
      exact arr_other I I' F hx hs0 hkx ho (AI.arr x hx hs0 hkx)
  | aSet a e nm sz ad am =>
    obtain ⟨⟨ha, hk⟩, he0, hnm, hsz, hroom⟩ := hd
    have hsa := hrs a (by simp [Op.reads])
    obtain ⟨σ1, h1, _, hdesc, hres⟩ := aSet_detail (e := e) (nm := nm) (ad := ad) (am := am) I ha hsa hk hsz
    have := unitR_ok_inv h
    rw [h1] at this; cases this
    have E := exec_ext (op := .aSet a e nm sz ad am) (by simp) h
    have F : BlkFrame σ σ' :=
      ⟨E.n, E.kind, E.ext, fun b hb => ⟨(E.ghost b hb).1, (E.ghost b hb).2.1, (E.ghost b hb).2.2.1⟩, hdesc⟩
    refine ⟨fun x hx hs hkx => ?_, fun e => by rw [F.ext]; exact AI.ext_lt e⟩
    rw [F.n] at hx; rw [F.kind] at hkx
    by_cases hxa : x = a
    · subst hxa
      rcases hres with ⟨hz, hl, ho, _⟩ | ⟨hne, _, hoff, hlen, _, _, hup, _, hblk⟩
      · exact clause_empty hz hl ho
      · refine ⟨fun h0 => absurd h0 hne, fun _ => ?_⟩
        have hext := AI.ext_lt e
        unfold ArrOk
        rw [hup, hblk, hoff, hlen, F.ext]
        simp only
        exact ⟨by omega, by omega, hnm, hsz, fun h0 => absurd h0 he0, fun _ => hroom⟩
    · have ho := E.objs x (by simp [Op.writes, hxa])
      have hs0 : stamped σ x := by unfold stamped at hs ⊢; rw [← ho]; exact hs
      exact arr_other I I' F hx hs0 hkx ho (AI.arr x hx hs0 hkx)
  | aSlice a b e s =>
    obtain ⟨⟨ha, hka⟩, ⟨hsn, hks⟩, hb, he⟩ := hd
    have hsa := hrs a (by simp [Op.reads])
    have hss := hrs s (by simp [Op.reads])
    obtain ⟨habort, hok⟩ := aSlice_inv (beg := b) (en := e) I ha hsn hsa hss hka hks
    have h0 := unitR_ok_inv h
    by_cases hc : (σ.obj a).ptr = 0 ∨ e < b ∨
        e > ((σ.blk (σ.blk (σ.obj a).ptr).up).anm + W - (σ.obj a).off) % W
    · rw [habort hc] at h0; cases h0
    · obtain ⟨σ1, h1, _, _, ho1⟩ := hok hc
      rw [h1] at h0; cases h0
      have hp : (σ.obj a).ptr ≠ 0 := fun h => hc (Or.inl h)
      have E := exec_ext (op := .aSlice a b e s) (by simp) h
      have F := blkFrame_of_ext E
      refine ainv_frame I I' AI (by simp) rfl h ?_
      intro x hx _ _ hst
      simp [Op.writes] at hx; subst hx
      have hca := (AI.arr a ha hsa hka).2 hp
      have hpx : (σ'.obj x).ptr = (σ.obj a).ptr := by rw [ho1]; simp
      obtain ⟨hup, hmlt⟩ := up_stable' I I' F ha hsa (Or.inr hka) rfl hp hsn hst (Or.inr hks) hpx
      refine ⟨fun hz => absurd (hpx ▸ hz) hp, fun _ => ?_⟩
      unfold ArrOk at hca ⊢
      have g := F.ghost _ hmlt
      have d := F.desc _ hmlt
      rw [hpx, hup, F.ext, d.1, d.2.1, d.2.2, g.1]
      have hoff : (σ'.obj x).off = ((σ.obj a).off + b) % W := by rw [ho1]; simp
      have hlen : (σ'.obj x).len = e - b := by rw [ho1]; simp
      rw [hoff, hlen]
      refine ⟨?_, hca.2.1, hca.2.2.1, hca.2.2.2.1, hca.2.2.2.2.1, hca.2.2.2.2.2⟩
      have h1' : ¬ e < b := fun h => hc (Or.inr (Or.inl h))
      have h2' : ¬ e > ((σ.blk (σ.blk (σ.obj a).ptr).up).anm + W - (σ.obj a).off) % W :=
        fun h => hc (Or.inr (Or.inr h))
      have hanm := hca.2.2.1
      have hol := hca.1
      simp only [W] at *
      omega
  | aUnslice s a =>
    obtain ⟨⟨ha, hka⟩, ⟨hsn, hks⟩⟩ := hd
    have hsa := hrs a (by simp [Op.reads])
    have hss := hrs s (by simp [Op.reads])
    obtain ⟨habort, hok⟩ := aUnslice_inv I ha hsn hsa hss hka hks
    have h0 := unitR_ok_inv h
    by_cases hp : (σ.obj s).ptr = 0
    · rw [habort hp] at h0; cases h0
    · obtain ⟨σ1, h1, _, _, ho1⟩ := hok hp
      rw [h1] at h0; cases h0
      have E := exec_ext (op := .aUnslice s a) (by simp) h
      have F := blkFrame_of_ext E
      refine ainv_frame I I' AI (by simp) rfl h ?_
      intro x hx _ _ hst
      simp [Op.writes] at hx; subst hx
      have hcs := (AI.arr s hsn hss hks).2 hp
      have hpx : (σ'.obj x).ptr = (σ.obj s).ptr := by rw [ho1]; simp
      obtain ⟨hup, hmlt⟩ := up_stable' I I' F hsn hss (Or.inr hks) rfl hp ha hst (Or.inr hka) hpx
      refine ⟨fun hz => absurd (hpx ▸ hz) hp, fun _ => ?_⟩
      unfold ArrOk at hcs ⊢
      have g := F.ghost _ hmlt
      have d := F.desc _ hmlt
      rw [hpx, hup, F.ext, d.1, d.2.1, d.2.2, g.1]
      have hoff : (σ'.obj x).off = 0 := by rw [ho1]; simp
      have hlen : (σ'.obj x).len = (σ.blk (σ.blk (σ.obj s).ptr).up).anm := by rw [ho1]; simp
      rw [hoff, hlen]
      exact ⟨by omega, hcs.2.1, hcs.2.2.1, hcs.2.2.2.1, hcs.2.2.2.2.1, hcs.2.2.2.2.2⟩

end Cstl.Mem
