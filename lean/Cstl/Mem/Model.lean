/-
Sequential model of include/cstl/memory.h + src/memory.c (guarded / unique /
shared / weak pointers) and of the `cstl_array_*` view functions at the end of
src/array.c (with include/cstl/array.h).

* An *object* is a pointer variable of the client program (a
  `cstl_guarded_ptr`, `cstl_unique_ptr_t`, `cstl_shared_ptr_t`,
  `cstl_weak_ptr_t` or `cstl_array_t`) living at an address `a`.  It carries
  the two words of its `struct cstl_guarded_ptr` (`self`, `ptr`) and, depending
  on its kind, the `clr.func`/`clr.priv` words of a unique pointer or the
  `off`/`len` words of an array view.  `self` is the address stored by the last
  `cstl_guarded_ptr_set`; a bitwise copy to another address keeps the old
  `self` (`rawCopy`), which is what `cstl_guarded_ptr_get` detects.
* A *block* is a `malloc`ed region with a small id (allocation order, like
  harness/alloc.c).  A bookkeeping block (`struct cstl_shared_ptr_data`)
  holds `hard`, `soft` and the embedded unique pointer `up` (`upOk` = its
  self-stamp is intact, `up` = the managed memory, `upClr` = clear callback);
  a managed block of an array holds the descriptor `struct cstl_raw_array`
  (`asz`, `anm`, `abuf`; `abuf = 0` is the inline buffer `ra + 1`, `e > 0`
  the external buffer number `e`).
* Every function is the C sequence of guarded accesses, count updates,
  `malloc`/`free` calls and callback invocations, in program order.  `malloc`
  results are parameters (`ans`), every `malloc`/`free`/callback is appended
  to the event log.  `abort()` is `Stop.abort`; touching a freed block is
  `Stop.asan`, dereferencing NULL is `Stop.segv`.  The state at the moment of
  the stop is kept (C20 talks about what happened before the abort).
* `size_t` arithmetic is written mod 2^64 where the array code computes
  `nm * sz`, `off + beg`, `off + i`, `nm - off`.
* The spin flag of `cstl_weak_ptr_lock` is always free in a sequential
  execution and is not modelled here (it is the subject of C06).
* The fields `isData`, `ownerD`, `clrG`, `privG` of a block are ghosts: written
  when the block is allocated, never read by any operation.  They name the C
  type of the block (`struct cstl_shared_ptr_data` or client memory), the
  bookkeeping block a managed block was allocated for, and the clear callback
  registered for it.
-/
namespace Cstl.Mem

/-- `SIZE_MAX + 1` -/
def W : Nat := 18446744073709551616
/-- `sizeof(struct cstl_raw_array)` -/
def HDR : Nat := 24
/-- `sizeof(struct cstl_shared_ptr_data)` -/
def DSZ : Nat := 56
/-- requests above this size are refused by the allocator (harness/alloc.c) -/
def LIMIT : Nat := 1099511627776

inductive Kind where
  | guarded | unique | shared | weak | array
deriving DecidableEq, Repr, Inhabited

structure Obj where
  self : Nat := 0
  ptr : Nat := 0
  clr : Nat := 0
  priv : Nat := 0
  off : Nat := 0
  len : Nat := 0
deriving DecidableEq, Repr, Inhabited

structure Blk where
  live : Bool := false
  size : Nat := 0
  -- struct cstl_shared_ptr_data
  hard : Nat := 0
  soft : Nat := 0
  upOk : Bool := false
  up : Nat := 0
  upClr : Nat := 0
  -- struct cstl_raw_array
  asz : Nat := 0
  anm : Nat := 0
  abuf : Nat := 0
  -- ghosts
  isData : Bool := false
  ownerD : Nat := 0
  clrG : Nat := 0
  privG : Nat := 0
deriving DecidableEq, Repr, Inhabited

inductive Ev where
  | alloc (b sz : Nat)
  | allocFail (sz : Nat)
  | free (b : Nat)
  | clr (f p priv : Nat)
deriving DecidableEq, Repr, Inhabited

inductive Stop where
  | abort | segv | asan | badop
deriving DecidableEq, Repr, Inhabited

structure State where
  /-- objects live at the addresses `< n` -/
  n : Nat
  kind : Nat → Kind
  obj : Nat → Obj
  blk : Nat → Blk
  /-- id of the next block `malloc` hands out -/
  next : Nat
  log : List Ev
  /-- byte size of the client's external buffers (constant) -/
  extSize : Nat → Nat

def State.setObj (σ : State) (a : Nat) (o : Obj) : State :=
  { σ with obj := fun x => if x = a then o else σ.obj x }

def State.setBlk (σ : State) (b : Nat) (k : Blk) : State :=
  { σ with blk := fun x => if x = b then k else σ.blk x }

def State.emit (σ : State) (e : Ev) : State :=
  { σ with log := σ.log ++ [e] }

inductive Res (α : Type) where
  | ok (v : α) (σ : State)
  | stop (k : Stop) (σ : State)

def Res.bind {α β : Type} : Res α → (α → State → Res β) → Res β
  | .ok v σ, f => f v σ
  | .stop k σ, _ => .stop k σ

infixl:55 " >>- " => Res.bind

/-- a location handed to the client: NULL, byte `off` of block `b`, byte `off`
of external buffer `e` (offsets are mod 2^64, like the C address arithmetic) -/
inductive Loc where
  | null
  | heap (b off : Nat)
  | ext (e off : Nat)
deriving DecidableEq, Repr, Inhabited

/-! ### malloc / free -/

/-- `malloc(sz)` answered by `ans`; the new block carries the ghosts of `g`.
Returns the pointer (`0` = NULL). -/
def malloc (sz : Nat) (ans : Bool) (g : Blk) (σ : State) : Nat × State :=
  if ans = true ∧ sz ≤ LIMIT then
    (σ.next,
     { (σ.setBlk σ.next { g with live := true, size := sz }).emit (.alloc σ.next sz) with
       next := σ.next + 1 })
  else (0, σ.emit (.allocFail sz))

/-- `free(p)` -/
def free (p : Nat) (σ : State) : Res Unit :=
  if p = 0 then .ok () σ
  else if (σ.blk p).live = true then
    .ok () ((σ.setBlk p { σ.blk p with live := false }).emit (.free p))
  else .stop .asan σ

/-- `if (clr != NULL) clr(p, priv); free(p);` -/
def dispose (p clr priv : Nat) (σ : State) : Res Unit :=
  free p (if clr ≠ 0 then σ.emit (.clr clr p priv) else σ)

/-! ### guarded pointers (include/cstl/memory.h:95-183) -/

/-- `cstl_guarded_ptr_get[_const]` -/
def gGet (a : Nat) (σ : State) : Res Nat :=
  if (σ.obj a).self = a then .ok (σ.obj a).ptr σ else .stop .abort σ

/-- `cstl_guarded_ptr_set` -/
def gSet (a p : Nat) (σ : State) : State :=
  σ.setObj a { σ.obj a with self := a, ptr := p }

/-- `cstl_guarded_ptr_init` -/
def gInit (a : Nat) (σ : State) : State := gSet a 0 σ

/-- `cstl_guarded_ptr_copy(dst, src)` -/
def gCopy (dst src : Nat) (σ : State) : Res Unit :=
  gGet src σ >>- fun p σ => .ok () (gSet dst p σ)

/-- `cstl_guarded_ptr_swap(a, b)`: `t = get(a); set(a, get(b)); set(b, t)` -/
def gSwap (a b : Nat) (σ : State) : Res Unit :=
  gGet a σ >>- fun t σ =>
  gGet b σ >>- fun pb σ =>
  .ok () (gSet b t (gSet a pb σ))

/-! ### unique pointers (memory.h:233-340, memory.c:41-63) -/

/-- `cstl_unique_ptr_init` -/
def uInit (a : Nat) (σ : State) : State :=
  let σ := gSet a 0 σ
  σ.setObj a { σ.obj a with clr := 0, priv := 0 }

/-- `cstl_unique_ptr_reset` -/
def uReset (a : Nat) (σ : State) : Res Unit :=
  gGet a σ >>- fun p σ =>
  dispose p (σ.obj a).clr (σ.obj a).priv σ >>- fun _ σ =>
  .ok () (uInit a σ)

/-- `cstl_unique_ptr_alloc(up, sz, clr, priv)` -/
def uAlloc (a sz clr priv : Nat) (ans : Bool) (σ : State) : Res Unit :=
  uReset a σ >>- fun _ σ =>
  if sz > 0 then
    let r := malloc sz ans { clrG := clr, privG := priv } σ
    if r.1 ≠ 0 then
      let σ := gSet a r.1 r.2
      .ok () (σ.setObj a { σ.obj a with clr := clr, priv := priv })
    else .ok () r.2
  else .ok () σ

/-- `cstl_unique_ptr_get[_const]` -/
def uGet (a : Nat) (σ : State) : Res Nat := gGet a σ

/-- `cstl_unique_ptr_release`: returns pointer, clear function, priv -/
def uRelease (a : Nat) (σ : State) : Res (Nat × Nat × Nat) :=
  gGet a σ >>- fun p σ =>
  .ok (p, (σ.obj a).clr, (σ.obj a).priv) (uInit a σ)

/-- `cstl_unique_ptr_swap` -/
def uSwap (a b : Nat) (σ : State) : Res Unit :=
  gSwap a b σ >>- fun _ σ =>
  let oa := σ.obj a
  let ob := σ.obj b
  let σ := σ.setObj a { oa with clr := ob.clr, priv := ob.priv }
  -- (when a = b the second assignment restores the value, like cstl_swap)
  .ok () (σ.setObj b { σ.obj b with clr := oa.clr, priv := oa.priv })

/-! ### the unique pointer embedded in a bookkeeping block -/

/-- `cstl_unique_ptr_get(&data->up)` -/
def upGet (d : Nat) (σ : State) : Res Nat :=
  if (σ.blk d).live = true then
    if (σ.blk d).upOk = true then .ok (σ.blk d).up σ else .stop .abort σ
  else .stop .asan σ

/-- `cstl_unique_ptr_init(&data->up)` -/
def upInit (d : Nat) (σ : State) : State :=
  σ.setBlk d { σ.blk d with upOk := true, up := 0, upClr := 0 }

/-- `cstl_unique_ptr_reset(&data->up)` -/
def upReset (d : Nat) (σ : State) : Res Unit :=
  upGet d σ >>- fun p σ =>
  dispose p (σ.blk d).upClr 0 σ >>- fun _ σ =>
  .ok () (upInit d σ)

/-- `cstl_unique_ptr_alloc(&data->up, sz, clr, NULL)` -/
def upAlloc (d sz clr : Nat) (ans : Bool) (σ : State) : Res Unit :=
  upReset d σ >>- fun _ σ =>
  if sz > 0 then
    let r := malloc sz ans { ownerD := d, clrG := clr } σ
    if r.1 ≠ 0 then
      .ok () (r.2.setBlk d { r.2.blk d with upOk := true, up := r.1, upClr := clr })
    else .ok () r.2
  else .ok () σ

/-! ### shared and weak pointers (memory.c:65-227) -/

/-- `cstl_shared_ptr_init` / `cstl_weak_ptr_init` -/
def sInit (a : Nat) (σ : State) : State := gSet a 0 σ

/-- `cstl_weak_ptr_reset` -/
def wReset (a : Nat) (σ : State) : Res Unit :=
  gGet a σ >>- fun d σ =>
  if d ≠ 0 then
    let σ := gSet a 0 σ
    if (σ.blk d).live = true then
      let old := (σ.blk d).soft
      let σ := σ.setBlk d { σ.blk d with soft := old - 1 }
      if old = 1 then free d σ else .ok () σ
    else .stop .asan σ
  else .ok () σ

/-- `cstl_shared_ptr_reset` -/
def sReset (a : Nat) (σ : State) : Res Unit :=
  gGet a σ >>- fun d σ =>
  if d ≠ 0 then
    if (σ.blk d).live = true then
      let old := (σ.blk d).hard
      let σ := σ.setBlk d { σ.blk d with hard := old - 1 }
      (if old = 1 then upReset d σ else .ok () σ) >>- fun _ σ =>
      wReset a σ
    else .stop .asan σ
  else .ok () σ

/-- `cstl_shared_ptr_alloc(sp, sz, clr)` -/
def sAlloc (a sz clr : Nat) (ansD ansM : Bool) (σ : State) : Res Unit :=
  sReset a σ >>- fun _ σ =>
  if sz > 0 then
    let r := malloc DSZ ansD { isData := true } σ
    let d := r.1
    if d ≠ 0 then
      let σ := r.2
      let σ := σ.setBlk d { σ.blk d with hard := 1, soft := 1 }
      let σ := upInit d σ
      upAlloc d sz clr ansM σ >>- fun _ σ =>
      upGet d σ >>- fun m σ =>
      if m ≠ 0 then .ok () (gSet a d σ) else free d σ
    else .ok () r.2
  else .ok () σ

/-- `cstl_shared_ptr_unique` -/
def sUnique (a : Nat) (σ : State) : Res Bool :=
  gGet a σ >>- fun d σ =>
  if d ≠ 0 then
    if (σ.blk d).live = true then .ok ((σ.blk d).soft == 1) σ else .stop .asan σ
  else .ok true σ

/-- `cstl_shared_ptr_get[_const]`: the managed memory (`0` = NULL) -/
def sGet (a : Nat) (σ : State) : Res Nat :=
  gGet a σ >>- fun d σ =>
  if d ≠ 0 then upGet d σ else .ok 0 σ

/-- `cstl_shared_ptr_share(e, n)` -/
def sShare (e n : Nat) (σ : State) : Res Unit :=
  sReset n σ >>- fun _ σ =>
  gCopy n e σ >>- fun _ σ =>
  gGet n σ >>- fun d σ =>
  if d ≠ 0 then
    if (σ.blk d).live = true then
      let σ := σ.setBlk d { σ.blk d with hard := (σ.blk d).hard + 1 }
      .ok () (σ.setBlk d { σ.blk d with soft := (σ.blk d).soft + 1 })
    else .stop .asan σ
  else .ok () σ

/-- `cstl_shared_ptr_swap` / `cstl_weak_ptr_swap` -/
def sSwap (a b : Nat) (σ : State) : Res Unit := gSwap a b σ

/-- `cstl_weak_ptr_from(wp, sp)` -/
def wFrom (w s : Nat) (σ : State) : Res Unit :=
  wReset w σ >>- fun _ σ =>
  gCopy w s σ >>- fun _ σ =>
  gGet w σ >>- fun d σ =>
  if d ≠ 0 then
    if (σ.blk d).live = true then
      .ok () (σ.setBlk d { σ.blk d with soft := (σ.blk d).soft + 1 })
    else .stop .asan σ
  else .ok () σ

/-- `cstl_weak_ptr_lock(wp, sp)` -/
def wLock (w s : Nat) (σ : State) : Res Unit :=
  sReset s σ >>- fun _ σ =>
  gCopy s w σ >>- fun _ σ =>
  gGet s σ >>- fun d σ =>
  if d ≠ 0 then
    if (σ.blk d).live = true then
      let old := (σ.blk d).hard
      let σ := σ.setBlk d { σ.blk d with hard := old + 1 }
      if old > 0 then
        .ok () (σ.setBlk d { σ.blk d with soft := (σ.blk d).soft + 1 })
      else
        let σ := σ.setBlk d { σ.blk d with hard := (σ.blk d).hard - 1 }
        .ok () (gSet s 0 σ)
    else .stop .asan σ
  else .ok () σ

/-! ### array views (array.h, array.c:364-481; repaired code) -/

/-- `cstl_array_init` -/
def aInit (a : Nat) (σ : State) : State :=
  let σ := sInit a σ
  σ.setObj a { σ.obj a with off := 0, len := 0 }

/-- `cstl_array_size` -/
def aSize (a : Nat) (σ : State) : Nat := (σ.obj a).len

/-- `cstl_array_reset` -/
def aReset (a : Nat) (σ : State) : Res Unit :=
  sReset a σ >>- fun _ σ =>
  .ok () (σ.setObj a { σ.obj a with off := 0, len := 0 })

/-- is `sizeof(struct cstl_raw_array) + nm * sz` representable? -/
def fits (nm sz : Nat) : Bool := sz == 0 || nm ≤ (W - 1 - HDR) / sz

/-- `cstl_array_alloc(a, nm, sz)` -/
def aAlloc (a nm sz : Nat) (ansD ansM : Bool) (σ : State) : Res Unit :=
  aReset a σ >>- fun _ σ =>
  (if fits nm sz = true then sAlloc a ((HDR + nm * sz) % W) 0 ansD ansM σ
   else .ok () σ) >>- fun _ σ =>
  sGet a σ >>- fun ra σ =>
  if ra ≠ 0 then
    if (σ.blk ra).live = true then
      let σ := σ.setBlk ra { σ.blk ra with asz := sz, anm := nm, abuf := 0 }
      .ok () (σ.setObj a { σ.obj a with len := nm })
    else .stop .asan σ
  else .ok () σ

/-- `cstl_array_set(a, buf, nm, sz)`; `e > 0` names the external buffer -/
def aSet (a e nm sz : Nat) (ansD ansM : Bool) (σ : State) : Res Unit :=
  aAlloc a 0 sz ansD ansM σ >>- fun _ σ =>
  sGet a σ >>- fun ra σ =>
  if ra ≠ 0 then
    if (σ.blk ra).live = true then
      let σ := σ.setBlk ra { σ.blk ra with anm := nm, abuf := e }
      .ok () (σ.setObj a { σ.obj a with len := nm })
    else .stop .asan σ
  else .ok () σ

/-- `ra->buf` as a location -/
def bufLoc (ra : Nat) (k : Blk) (byteOff : Nat) : Loc :=
  if k.abuf = 0 then .heap ra ((HDR + byteOff) % W) else .ext k.abuf (byteOff % W)

/-- `cstl_array_release(a, &buf)`: the value stored in `buf` -/
def aRelease (a : Nat) (σ : State) : Res Loc :=
  sGet a σ >>- fun ra σ =>
  if ra ≠ 0 then
    if (σ.blk ra).live = true then
      if (σ.blk ra).abuf ≠ 0 then
        sUnique a σ >>- fun u σ =>
        if u = true then
          let b := bufLoc ra (σ.blk ra) 0
          aReset a σ >>- fun _ σ => .ok b σ
        else .ok .null σ
      else .ok .null σ
    else .stop .asan σ
  else .ok .null σ

/-- `cstl_array_data[_const]` -/
def aData (a : Nat) (σ : State) : Res Loc :=
  sGet a σ >>- fun ra σ =>
  if ra ≠ 0 then
    if (σ.blk ra).live = true then .ok (bufLoc ra (σ.blk ra) 0) σ else .stop .asan σ
  else .ok .null σ

/-- `cstl_array_at[_const](a, i)` -/
def aAt (a i : Nat) (σ : State) : Res Loc :=
  if i ≥ (σ.obj a).len then .stop .abort σ
  else
    sGet a σ >>- fun ra σ =>
    if ra = 0 then .stop .segv σ
    else if (σ.blk ra).live = true then
      .ok (bufLoc ra (σ.blk ra) ((((σ.obj a).off + i) % W) * (σ.blk ra).asz % W)) σ
    else .stop .asan σ

/-- `cstl_array_slice(a, beg, end, s)` -/
def aSlice (a beg «end» s : Nat) (σ : State) : Res Unit :=
  sGet a σ >>- fun ra σ =>
  if ra = 0 then .stop .abort σ
  else if (σ.blk ra).live = true then
    if «end» < beg ∨ «end» > ((σ.blk ra).anm + W - (σ.obj a).off) % W then .stop .abort σ
    else
      let σ := σ.setObj s { σ.obj s with off := ((σ.obj a).off + beg) % W, len := «end» - beg }
      if a ≠ s then sShare a s σ else .ok () σ
  else .stop .asan σ

/-- `cstl_array_unslice(s, a)` -/
def aUnslice (s a : Nat) (σ : State) : Res Unit :=
  sGet s σ >>- fun ra σ =>
  if ra = 0 then .stop .abort σ
  else if (σ.blk ra).live = true then
    let σ := σ.setObj a { σ.obj a with off := 0, len := (σ.blk ra).anm }
    if a ≠ s then sShare s a σ else .ok () σ
  else .stop .asan σ

/-! ### what a client program may do with the objects -/

/-- bitwise copy of the object at `src` to `dst` (`*dst = *src` / `memcpy`) -/
def rawCopy (dst src : Nat) (σ : State) : State := σ.setObj dst (σ.obj src)

/-- the client disposes of what `cstl_unique_ptr_release` handed over:
clear function, then `free` -/
def userDispose (r : Nat × Nat × Nat) (σ : State) : Res Unit := dispose r.1 r.2.1 r.2.2 σ

inductive Op where
  | gInit (a : Nat) | gSet (a p : Nat) | gGet (a : Nat) | gCopy (dst src : Nat) | gSwap (a b : Nat)
  | uInit (a : Nat) | uAlloc (a sz clr priv : Nat) (ans : Bool) | uGet (a : Nat)
  | uRelease (a : Nat) | uSwap (a b : Nat) | uReset (a : Nat)
  | sInit (a : Nat) | sAlloc (a sz clr : Nat) (ansD ansM : Bool) | sUnique (a : Nat) | sGet (a : Nat)
  | sShare (e n : Nat) | sSwap (a b : Nat) | sReset (a : Nat)
  | wInit (a : Nat) | wFrom (w s : Nat) | wLock (w s : Nat) | wSwap (a b : Nat) | wReset (a : Nat)
  | aInit (a : Nat) | aSize (a : Nat) | aSet (a e nm sz : Nat) (ansD ansM : Bool) | aRelease (a : Nat)
  | aAlloc (a nm sz : Nat) (ansD ansM : Bool) | aReset (a : Nat) | aData (a : Nat) | aAt (a i : Nat)
  | aSlice (a beg «end» s : Nat) | aUnslice (s a : Nat)
  | rawCopy (dst src : Nat)
deriving DecidableEq, Repr, Inhabited

inductive Val where
  | unit
  | nat (n : Nat)
  | bool (b : Bool)
  | loc (l : Loc)
  | rel (p clr priv : Nat)
deriving DecidableEq, Repr, Inhabited

/-- the object at `a` exists and has kind `k` -/
def State.is (σ : State) (a : Nat) (k : Kind) : Prop := a < σ.n ∧ σ.kind a = k

instance (σ : State) (a : Nat) (k : Kind) : Decidable (σ.is a k) := by
  unfold State.is; exact inferInstance

/-- the object at `a` currently owns / refers to something the library would
have to release (a stamped non-NULL pointer).  `init` and a bitwise copy may
only overwrite objects that are not in this state (anything else leaks by the
documentation of the `init` functions). -/
def State.holds (σ : State) (a : Nat) : Prop := (σ.obj a).self = a ∧ (σ.obj a).ptr ≠ 0

instance (σ : State) (a : Nat) : Decidable (σ.holds a) := by
  unfold State.holds; exact inferInstance

/-- is the call inside the documented domain of the client program? (objects of
the right kind, `init`/bitwise overwrite only of objects that hold nothing,
`size_t` arguments, an external buffer that has room for `nm * sz` bytes; a
bitwise copy lands at an address other than the one stamped in the copied bytes
— copying a relocated object back to its old home is indistinguishable from
never having moved it and is not a case of C20) -/
def Op.dom (σ : State) : Op → Prop
  | .gInit a | .gGet a => σ.is a .guarded
  | .gSet a p => σ.is a .guarded ∧ p < W
  | .gCopy a b | .gSwap a b => σ.is a .guarded ∧ σ.is b .guarded
  | .uInit a => σ.is a .unique ∧ ¬ σ.holds a
  | .uAlloc a sz _ _ _ => σ.is a .unique ∧ sz < W
  | .uGet a | .uRelease a | .uReset a => σ.is a .unique
  | .uSwap a b => σ.is a .unique ∧ σ.is b .unique
  | .sInit a => σ.is a .shared ∧ ¬ σ.holds a
  | .sAlloc a sz _ _ _ => σ.is a .shared ∧ sz < W
  | .sUnique a | .sGet a | .sReset a => σ.is a .shared
  | .sShare a b | .sSwap a b => σ.is a .shared ∧ σ.is b .shared
  | .wInit a => σ.is a .weak ∧ ¬ σ.holds a
  | .wFrom w s | .wLock w s => σ.is w .weak ∧ σ.is s .shared
  | .wSwap a b => σ.is a .weak ∧ σ.is b .weak
  | .wReset a => σ.is a .weak
  | .aInit a => σ.is a .array ∧ ¬ σ.holds a
  | .aSize a | .aRelease a | .aReset a | .aData a => σ.is a .array
  | .aSet a e nm sz _ _ => σ.is a .array ∧ e ≠ 0 ∧ nm < W ∧ sz < W ∧ nm * sz ≤ σ.extSize e
  | .aAlloc a nm sz _ _ => σ.is a .array ∧ nm < W ∧ sz < W
  | .aAt a i => σ.is a .array ∧ i < W
  | .aSlice a b e s => σ.is a .array ∧ σ.is s .array ∧ b < W ∧ e < W
  | .aUnslice s a => σ.is a .array ∧ σ.is s .array
  | .rawCopy dst src => src < σ.n ∧ dst < σ.n ∧ σ.kind dst = σ.kind src ∧ ¬ σ.holds dst ∧
      (dst = src ∨ (σ.obj src).self ≠ dst)

instance (σ : State) (op : Op) : Decidable (op.dom σ) := by
  cases op <;> unfold Op.dom <;> exact inferInstance

def unitR (r : Res Unit) : Res Val := r >>- fun _ σ => .ok .unit σ

/-- the library call (or client action) of `op` -/
def exec : Op → State → Res Val
  | .gInit a, σ => .ok .unit (gInit a σ)
  | .gSet a p, σ => .ok .unit (gSet a p σ)
  | .gGet a, σ => gGet a σ >>- fun p σ => .ok (.nat p) σ
  | .gCopy d s, σ => unitR (gCopy d s σ)
  | .gSwap a b, σ => unitR (gSwap a b σ)
  | .uInit a, σ => .ok .unit (uInit a σ)
  | .uAlloc a sz c p ans, σ => unitR (uAlloc a sz c p ans σ)
  | .uGet a, σ => uGet a σ >>- fun p σ => .ok (.nat p) σ
  | .uRelease a, σ =>
      uRelease a σ >>- fun r σ => userDispose r σ >>- fun _ σ => .ok (.rel r.1 r.2.1 r.2.2) σ
  | .uSwap a b, σ => unitR (uSwap a b σ)
  | .uReset a, σ => unitR (uReset a σ)
  | .sInit a, σ => .ok .unit (sInit a σ)
  | .sAlloc a sz c ad am, σ => unitR (sAlloc a sz c ad am σ)
  | .sUnique a, σ => sUnique a σ >>- fun b σ => .ok (.bool b) σ
  | .sGet a, σ => sGet a σ >>- fun p σ => .ok (.nat p) σ
  | .sShare e n, σ => unitR (sShare e n σ)
  | .sSwap a b, σ => unitR (sSwap a b σ)
  | .sReset a, σ => unitR (sReset a σ)
  | .wInit a, σ => .ok .unit (sInit a σ)
  | .wFrom w s, σ => unitR (wFrom w s σ)
  | .wLock w s, σ => unitR (wLock w s σ)
  | .wSwap a b, σ => unitR (sSwap a b σ)
  | .wReset a, σ => unitR (wReset a σ)
  | .aInit a, σ => .ok .unit (aInit a σ)
  | .aSize a, σ => .ok (.nat (aSize a σ)) σ
  | .aSet a e nm sz ad am, σ => unitR (aSet a e nm sz ad am σ)
  | .aRelease a, σ => aRelease a σ >>- fun l σ => .ok (.loc l) σ
  | .aAlloc a nm sz ad am, σ => unitR (aAlloc a nm sz ad am σ)
  | .aReset a, σ => unitR (aReset a σ)
  | .aData a, σ => aData a σ >>- fun l σ => .ok (.loc l) σ
  | .aAt a i, σ => aAt a i σ >>- fun l σ => .ok (.loc l) σ
  | .aSlice a b e s, σ => unitR (aSlice a b e s σ)
  | .aUnslice s a, σ => unitR (aUnslice s a σ)
  | .rawCopy d s, σ => .ok .unit (rawCopy d s σ)

/-- one step of a client program -/
def step (op : Op) (σ : State) : Res Val :=
  if op.dom σ then exec op σ else .stop .badop σ

/-- a whole program: stops at the first stop -/
def run : List Op → State → Res (List Val)
  | [], σ => .ok [] σ
  | op :: ops, σ => step op σ >>- fun v σ => run ops σ >>- fun vs σ => .ok (v :: vs) σ

/-- `n` freshly initialised objects of the given kinds, no blocks -/
def State.init (n : Nat) (kind : Nat → Kind) (extSize : Nat → Nat) : State :=
  { n := n, kind := kind, obj := fun a => { self := a }, blk := fun _ => {}, next := 1,
    log := [], extSize := extSize }

end Cstl.Mem
