import Cstl.Mem.Inv
namespace Cstl.Mem

theorem split_append_cons {α : Type} {l' t l1 l2 : List α} {x : α} (h : l' ++ t = l1 ++ x :: l2) :
    (∃ l2', l' = l1 ++ x :: l2' ∧ l2 = l2' ++ t) ∨ (∃ t1, l1 = l' ++ t1 ∧ t = t1 ++ x :: l2) := by
  rcases List.append_eq_append_iff.mp h with ⟨a', h1, h2⟩ | ⟨c', h1, h2⟩
  · exact Or.inr ⟨a', h1, h2⟩
  · cases c' with
    | nil =>
      simp at h1 h2
      exact Or.inr ⟨[], by simp [h1], by simp [h2]⟩
    | cons y c'' =>
      simp at h2
      obtain ⟨rfl, rfl⟩ := h2
      exact Or.inl ⟨c'', h1, rfl⟩

theorem single_eq {α : Type} {t1 l2 : List α} {e x : α} (h : [e] = t1 ++ x :: l2) :
    t1 = [] ∧ x = e ∧ l2 = [] := by
  cases t1 with
  | nil => simp at h; exact ⟨rfl, h.1.symm, h.2⟩
  | cons y t => simp at h

theorem pair_eq {α : Type} {t1 l2 : List α} {c f x : α} (h : [c, f] = t1 ++ x :: l2) :
    (t1 = [] ∧ x = c ∧ l2 = [f]) ∨ (t1 = [c] ∧ x = f ∧ l2 = []) := by
  cases t1 with
  | nil => simp at h; exact Or.inl ⟨rfl, h.1.symm, h.2.symm⟩
  | cons y t =>
    simp at h
    obtain ⟨rfl, h2⟩ := h
    have := single_eq h2
    exact Or.inr ⟨by rw [this.1], this.2.1, this.2.2⟩

/-- every clear callback in the log is the registered one of client memory and is immediately
followed by the release of that memory -/
theorem LogOk.clr_then_free {g : Nat → Blk} {l : List Ev} (L : LogOk g l) :
    ∀ l1 l2 f b pr, l = l1 ++ Ev.clr f b pr :: l2 →
      ∃ l3, l2 = Ev.free b :: l3 ∧ f ≠ 0 ∧ f = (g b).clrG ∧ pr = (g b).privG ∧ (g b).isData = false := by
  induction L with
  | nil => intro l1 l2 f b pr h; simp at h
  | alloc b0 sz _ ih =>
    intro l1 l2 f b pr h
    rcases split_append_cons h with ⟨l2', h1, h2⟩ | ⟨t1, _, h2⟩
    · obtain ⟨l3, h3, hp⟩ := ih _ _ _ _ _ h1
      exact ⟨l3 ++ [Ev.alloc b0 sz], by rw [h2, h3]; simp, hp⟩
    · have := single_eq h2; cases this.2.1
  | allocFail sz _ ih =>
    intro l1 l2 f b pr h
    rcases split_append_cons h with ⟨l2', h1, h2⟩ | ⟨t1, _, h2⟩
    · obtain ⟨l3, h3, hp⟩ := ih _ _ _ _ _ h1
      exact ⟨l3 ++ [Ev.allocFail sz], by rw [h2, h3]; simp, hp⟩
    · have := single_eq h2; cases this.2.1
  | free b0 _ _ ih =>
    intro l1 l2 f b pr h
    rcases split_append_cons h with ⟨l2', h1, h2⟩ | ⟨t1, _, h2⟩
    · obtain ⟨l3, h3, hp⟩ := ih _ _ _ _ _ h1
      exact ⟨l3 ++ [Ev.free b0], by rw [h2, h3]; simp, hp⟩
    · have := single_eq h2; cases this.2.1
  | clrFree f0 b0 pr0 _ hd hf hc hp ih =>
    intro l1 l2 f b pr h
    rcases split_append_cons h with ⟨l2', h1, h2⟩ | ⟨t1, _, h2⟩
    · obtain ⟨l3, h3, hp'⟩ := ih _ _ _ _ _ h1
      exact ⟨l3 ++ [Ev.clr f0 b0 pr0, Ev.free b0], by rw [h2, h3]; simp, hp'⟩
    · rcases pair_eq h2 with ⟨_, hx, hl2⟩ | ⟨_, hx, _⟩
      · cases hx
        exact ⟨[], by rw [hl2], hf, hc, hp, hd⟩
      · cases hx

/-- the release of client memory with a registered clear callback is immediately preceded by that
callback (with the registered argument) -/
theorem LogOk.free_after_clr {g : Nat → Blk} {l : List Ev} (L : LogOk g l) :
    ∀ l1 l2 b, l = l1 ++ Ev.free b :: l2 → (g b).isData = false → (g b).clrG ≠ 0 →
      ∃ l0, l1 = l0 ++ [Ev.clr (g b).clrG b (g b).privG] := by
  induction L with
  | nil => intro l1 l2 b h; simp at h
  | alloc b0 sz _ ih =>
    intro l1 l2 b h hd hc
    rcases split_append_cons h with ⟨l2', h1, _⟩ | ⟨t1, _, h2⟩
    · exact ih _ _ _ h1 hd hc
    · have := single_eq h2; cases this.2.1
  | allocFail sz _ ih =>
    intro l1 l2 b h hd hc
    rcases split_append_cons h with ⟨l2', h1, _⟩ | ⟨t1, _, h2⟩
    · exact ih _ _ _ h1 hd hc
    · have := single_eq h2; cases this.2.1
  | free b0 _ hb ih =>
    intro l1 l2 b h hd hc
    rcases split_append_cons h with ⟨l2', h1, _⟩ | ⟨t1, _, h2⟩
    · exact ih _ _ _ h1 hd hc
    · have := single_eq h2
      cases this.2.1
      rcases hb with hb | hb
      · rw [hd] at hb; cases hb
      · exact absurd hb hc
  | clrFree f0 b0 pr0 _ hd0 hf hc0 hp ih =>
    intro l1 l2 b h hd hc
    rcases split_append_cons h with ⟨l2', h1, _⟩ | ⟨t1, ht, h2⟩
    · exact ih _ _ _ h1 hd hc
    · rcases pair_eq h2 with ⟨_, hx, _⟩ | ⟨ht1, hx, _⟩
      · cases hx
      · cases hx
        rw [ht, ht1, hc0, hp]; exact ⟨_, rfl⟩

/-- a well-formed log never ends in a clear callback whose release is still outstanding -/
theorem LogOk.not_end_clr {g : Nat → Blk} {l : List Ev} (L : LogOk g l) :
    ∀ l0 f b pr, l ≠ l0 ++ [Ev.clr f b pr] := by
  intro l0 f b pr h
  have := L.clr_then_free l0 [] f b pr h
  obtain ⟨l3, h3, _⟩ := this
  cases h3

end Cstl.Mem
