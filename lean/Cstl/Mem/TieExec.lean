import Cstl.Mem.Tie
import Cstl.Mem.PropsC05
/-
The side conditions of the tie theorems of `Cstl/Mem/Tie.lean` (`NoSelfUp`,
`SoftSmall`, `ManagedLive`, `end < 2^64`) hold in every state that satisfies
the ownership invariant `Inv` of C05 (hence in every state any client program
reaches, `reachable_inv`) as long as fewer than 2^31 pointer objects exist, for
every call inside the documented domain.  Consequently the model's `exec`,
`step` and `run` ARE the same dispatch over the definitions generated from the
C text (`execC`, `stepC`, `runC`), for every history.
-/
namespace Cstl.Mem.Tie
open Cstl.Mem Cstl.Gen.MemC

theorem cnt_le (p : Nat → Prop) [DecidablePred p] (n : Nat) : cnt p n ≤ n := by
  induction n with
  | zero => simp [cnt]
  | succ n ih => simp only [cnt]; split <;> omega

theorem noSelfUp_of_inv {σ : State} (I : Inv σ) {a : Nat} (ha : a < σ.n)
    (hk : σ.kind a = .shared ∨ σ.kind a = .array) : NoSelfUp σ a := by
  intro hst hp
  obtain ⟨hl, hd⟩ := I.ref_ok a _ ha (Or.inl ⟨hst, hk, rfl⟩) hp
  by_cases hh : (σ.blk (σ.obj a).ptr).hard = 0
  · rw [(I.data_up0 _ hl hd hh).1]; exact fun e => hp e.symm
  · have hm := I.data_up _ hl hd hh
    intro e
    have h1 := hm.2.2.1
    rw [e, hd] at h1
    cases h1

theorem softSmall_of_inv {σ : State} (I : Inv σ) (hn : σ.n < 2147483648) {a : Nat} (ha : a < σ.n)
    (hk : σ.kind a = .shared ∨ σ.kind a = .array) : SoftSmall σ a := by
  intro hst hp hl
  obtain ⟨_, hd⟩ := I.ref_ok a _ ha (Or.inl ⟨hst, hk, rfl⟩) hp
  have h := (I.data_cnt _ hl hd).2
  have h1 := cnt_le (HRef σ.obj σ.kind (σ.obj a).ptr) σ.n
  have h2 := cnt_le (WRef σ.obj σ.kind (σ.obj a).ptr) σ.n
  unfold nH nW at h
  omega

theorem managedLive_of_inv {σ : State} (I : Inv σ) {a : Nat} (ha : a < σ.n)
    (hk : σ.kind a = .shared ∨ σ.kind a = .array) : ManagedLive σ a := by
  intro ra σ1 h hra
  unfold sGet at h
  obtain ⟨d, σ2, h2, h3⟩ := bind_eq_ok h
  obtain ⟨rfl, rfl, hst⟩ := gGet_ok h2
  by_cases hp : (σ2.obj a).ptr = 0
  · simp [hp] at h3; exact absurd h3.1.symm hra
  · simp only [ne_eq, hp, not_false_eq_true, if_true] at h3
    obtain ⟨hl, hd⟩ := I.ref_ok a _ ha (Or.inl ⟨hst, hk, rfl⟩) hp
    have key : (σ2.blk (σ2.obj a).ptr).up ≠ 0 → (σ2.blk (σ2.blk (σ2.obj a).ptr).up).live = true := by
      intro hne
      by_cases hh : (σ2.blk (σ2.obj a).ptr).hard = 0
      · exact absurd (I.data_up0 _ hl hd hh).1 hne
      · exact (I.data_up _ hl hd hh).2.1
    unfold upGet at h3
    simp only [hl, if_true] at h3
    split at h3
    · cases h3; exact key hra
    · cases h3

/-- `exec` with every library call replaced by the definition generated from its C text -/
def execC (fuel : Nat) : Op → State → Res Val
  | .gInit a, σ => unitR (c_cstl_guarded_ptr_init (.obj a) σ)
  | .gSet a p, σ => unitR (c_cstl_guarded_ptr_set (.obj a) p σ)
  | .gGet a, σ => c_cstl_guarded_ptr_get (.obj a) σ >>- fun p σ => .ok (.nat p) σ
  | .gCopy d s, σ => unitR (c_cstl_guarded_ptr_copy (.obj d) (.obj s) σ)
  | .gSwap a b, σ => unitR (c_cstl_guarded_ptr_swap (.obj a) (.obj b) σ)
  | .uInit a, σ => unitR (c_cstl_unique_ptr_init (.obj a) σ)
  | .uAlloc a sz c p ans, σ => unitR (c_cstl_unique_ptr_alloc (.obj a) sz c p ans σ)
  | .uGet a, σ => c_cstl_unique_ptr_get (.obj a) σ >>- fun p σ => .ok (.nat p) σ
  | .uRelease a, σ =>
      c_cstl_unique_ptr_release (.obj a) true true σ >>- fun r σ =>
      userDispose r σ >>- fun _ σ => .ok (.rel r.1 r.2.1 r.2.2) σ
  | .uSwap a b, σ => unitR (c_cstl_unique_ptr_swap (.obj a) (.obj b) σ)
  | .uReset a, σ => unitR (c_cstl_unique_ptr_reset (.obj a) σ)
  | .sInit a, σ => unitR (c_cstl_shared_ptr_init (.obj a) σ)
  | .sAlloc a sz c ad am, σ => unitR (c_cstl_shared_ptr_alloc (.obj a) sz c ad am σ)
  | .sUnique a, σ => c_cstl_shared_ptr_unique (.obj a) σ >>- fun b σ => .ok (.bool b) σ
  | .sGet a, σ => c_cstl_shared_ptr_get (.obj a) σ >>- fun p σ => .ok (.nat p) σ
  | .sShare e n, σ => unitR (c_cstl_shared_ptr_share (.obj e) (.obj n) σ)
  | .sSwap a b, σ => unitR (c_cstl_shared_ptr_swap (.obj a) (.obj b) σ)
  | .sReset a, σ => unitR (c_cstl_shared_ptr_reset (.obj a) σ)
  | .wInit a, σ => unitR (c_cstl_weak_ptr_init (.obj a) σ)
  | .wFrom w s, σ => unitR (c_cstl_weak_ptr_from (.obj w) (.obj s) σ)
  | .wLock w s, σ => unitR (c_cstl_weak_ptr_lock fuel (.obj w) (.obj s) σ)
  | .wSwap a b, σ => unitR (c_cstl_weak_ptr_swap (.obj a) (.obj b) σ)
  | .wReset a, σ => unitR (c_cstl_weak_ptr_reset (.obj a) σ)
  | .aInit a, σ => unitR (c_cstl_array_init (.obj a) σ)
  | .aSize a, σ => c_cstl_array_size (.obj a) σ >>- fun n σ => .ok (.nat n) σ
  | .aSet a e nm sz ad am, σ => unitR (c_cstl_array_set (.obj a) (.ext e 0) nm sz ad am σ)
  | .aRelease a, σ => c_cstl_array_release (.obj a) true σ >>- fun l σ => .ok (.loc l) σ
  | .aAlloc a nm sz ad am, σ => unitR (c_cstl_array_alloc (.obj a) nm sz ad am σ)
  | .aReset a, σ => unitR (c_cstl_array_reset (.obj a) σ)
  | .aData a, σ => c_cstl_array_data (.obj a) σ >>- fun l σ => .ok (.loc l) σ
  | .aAt a i, σ => c_cstl_array_at (.obj a) i σ >>- fun l σ => .ok (.loc l) σ
  | .aSlice a b e s, σ => unitR (c_cstl_array_slice (.obj a) b e (.obj s) σ)
  | .aUnslice s a, σ => unitR (c_cstl_array_unslice (.obj s) (.obj a) σ)
  | .rawCopy d s, σ => .ok .unit (rawCopy d s σ)

def stepC (fuel : Nat) (op : Op) (σ : State) : Res Val :=
  if op.dom σ then execC fuel op σ else .stop .badop σ

def runC (fuel : Nat) : List Op → State → Res (List Val)
  | [], σ => .ok [] σ
  | op :: ops, σ => stepC fuel op σ >>- fun v σ => runC fuel ops σ >>- fun vs σ => .ok (v :: vs) σ

/-- **Every in-domain call on a state satisfying the ownership invariant is its translation** (the spin
loop of `cstl_weak_ptr_lock` given any fuel ≥ 1). -/
theorem exec_tie (fuel : Nat) (op : Op) (σ : State) (I : Inv σ) (hn : σ.n < 2147483648) (hd : op.dom σ) :
    exec op σ = execC (fuel + 1) op σ := by
  cases op with
  | gInit a => simp [exec, execC, gInit_tie, unitR]
  | gSet a p => simp [exec, execC, gSet_tie, unitR]
  | gGet a => simp only [exec, execC, gGet_tie]
  | gCopy d s => simp only [exec, execC, gCopy_tie]
  | gSwap a b => simp only [exec, execC, gSwap_tie]
  | uInit a => simp [exec, execC, uInit_tie, unitR]
  | uAlloc a sz c p ans => simp only [exec, execC, uAlloc_tie]
  | uGet a => simp only [exec, execC, uGet_tie]
  | uRelease a => simp only [exec, execC, uRelease_tie]
  | uSwap a b => simp only [exec, execC, uSwap_tie]
  | uReset a => simp only [exec, execC, uReset_tie]
  | sInit a => simp [exec, execC, sInit_tie, unitR]
  | sAlloc a sz c ad am =>
    simp only [exec, execC, sAlloc_tie a sz c ad am σ (noSelfUp_of_inv I hd.1.1 (Or.inl hd.1.2))]
  | sUnique a =>
    simp only [exec, execC, sUnique_tie a σ (softSmall_of_inv I hn hd.1 (Or.inl hd.2))]
  | sGet a => simp only [exec, execC, sGet_tie]
  | sShare e n =>
    simp only [exec, execC, sShare_tie e n σ (noSelfUp_of_inv I hd.2.1 (Or.inl hd.2.2))]
  | sSwap a b => simp only [exec, execC, sSwap_tie]
  | sReset a => simp only [exec, execC, sReset_tie a σ (noSelfUp_of_inv I hd.1 (Or.inl hd.2))]
  | wInit a => simp [exec, execC, wInit_tie, unitR]
  | wFrom w s => simp only [exec, execC, wFrom_tie]
  | wLock w s =>
    simp only [exec, execC, wLock_tie fuel w s σ (noSelfUp_of_inv I hd.2.1 (Or.inl hd.2.2))]
  | wSwap a b => simp only [exec, execC, wSwap_tie]
  | wReset a => simp only [exec, execC, wReset_tie]
  | aInit a => simp [exec, execC, aInit_tie, unitR]
  | aSize a => simp [exec, execC, aSize_tie]
  | aSet a e nm sz ad am =>
    simp only [exec, execC, aSet_tie a e nm sz ad am σ (noSelfUp_of_inv I hd.1.1 (Or.inr hd.1.2))]
  | aRelease a =>
    simp only [exec, execC, aRelease_tie a σ (noSelfUp_of_inv I hd.1 (Or.inr hd.2))
      (softSmall_of_inv I hn hd.1 (Or.inr hd.2))]
  | aAlloc a nm sz ad am =>
    simp only [exec, execC, aAlloc_tie a nm sz ad am σ (noSelfUp_of_inv I hd.1.1 (Or.inr hd.1.2))]
  | aReset a => simp only [exec, execC, aReset_tie a σ (noSelfUp_of_inv I hd.1 (Or.inr hd.2))]
  | aData a => simp only [exec, execC, aData_tie]
  | aAt a i => simp only [exec, execC, aAt_tie]
  | aSlice a b e s =>
    simp only [exec, execC, aSlice_tie a b e s σ (noSelfUp_of_inv I hd.2.1.1 (Or.inr hd.2.1.2))
      (managedLive_of_inv I hd.1.1 (Or.inr hd.1.2)) hd.2.2.2]
  | aUnslice s a =>
    simp only [exec, execC, aUnslice_tie s a σ (noSelfUp_of_inv I hd.1.1 (Or.inr hd.1.2))
      (managedLive_of_inv I hd.2.1 (Or.inr hd.2.2))]
  | rawCopy d s => rfl

theorem step_tie (fuel : Nat) (op : Op) (σ : State) (I : Inv σ) (hn : σ.n < 2147483648) :
    step op σ = stepC (fuel + 1) op σ := by
  unfold step stepC
  by_cases hd : op.dom σ
  · simp only [hd, if_true]; exact exec_tie fuel op σ I hn hd
  · simp [hd]

/-- **Every history**: a client program run on the model and run on the translations of the C
functions give the same result, event log and final state (or the same stop in the same state). -/
theorem run_tie (fuel : Nat) (ops : List Op) (σ : State) (I : Inv σ) (hn : σ.n < 2147483648) :
    run ops σ = runC (fuel + 1) ops σ := by
  induction ops generalizing σ with
  | nil => rfl
  | cons op ops ih =>
    simp only [run, runC, ← step_tie fuel op σ I hn]
    cases h : step op σ with
    | stop k σ1 => rfl
    | ok v σ1 =>
      have h1 := step_inv I h
      simp only [bind_ok]
      rw [ih σ1 h1.1 (by rw [h1.2.n]; exact hn)]

/-- from the initial state of fewer than 2^31 pointer objects -/
theorem run_init_tie (fuel n : Nat) (kind : Nat → Kind) (es : Nat → Nat) (ops : List Op) (hn : n < 2147483648) :
    run ops (State.init n kind es) = runC (fuel + 1) ops (State.init n kind es) :=
  run_tie fuel ops _ (inv_init n kind es) hn

end Cstl.Mem.Tie
