import Cstl.Mem.Exec
/-
C20 — bitwise-copied smart pointers are caught before they can double-free.
Property theorems only.

`stamped σ a` : the object at address `a` carries its own address in its
`cstl_guarded_ptr` (it was initialised or written by the library at `a`);
a bitwise copy (`Op.rawCopy`) to another address leaves the *source's* address in
the copy, so the copy is not stamped.  `Op.reads op` lists the argument objects
through which the call reads, transfers or releases the pointer (every public
function × argument position except the overwrite-only ones in `Op.overwrites`
and `cstl_array_size`, which does not look at the pointer).
-/
set_option linter.unusedSimpArgs false
namespace Cstl.Mem

/-- **stray_aborts.**  For every entry point and every argument position through which it reads,
transfers or releases the pointer: if the object in that position is a stray copy (whether its
pointer is NULL or not, whatever it points to, live or long freed), the call aborts; and before the
abort nothing happened (`Before.nothing`), or only the plain `off`/`len` words of the stray object
itself were overwritten (`Before.fields`: slice/unslice into a stray target), or a *different*,
well-stamped argument was reset by the library exactly as in the C order of calls
(`Before.coReset`: share / weak-from / weak-lock reset their target first). -/
theorem stray_aborts {op : Op} {σ : State} {x : Nat} (I : Inv σ) (hd : op.dom σ) (hx : x ∈ op.reads)
    (hs : ¬ stamped σ x) : ∃ σ', step op σ = .stop .abort σ' ∧ Before σ x σ' := by
  obtain ⟨σ', h, b⟩ := exec_stray I hd hx hs
  exact ⟨σ', by simp [step, hd, h], b⟩

/-- nothing was read, transferred or released *through the stray object*: at the abort it still holds
the same pointer and stamp, and the log, the blocks and all other objects are as before, except for
the complete library reset of the well-stamped co-argument in the `coReset` case -/
theorem stray_untouched {σ σ' : State} {x : Nat} (b : Before σ x σ') :
    (σ'.obj x).self = (σ.obj x).self ∧ (σ'.obj x).ptr = (σ.obj x).ptr ∧
    (σ'.obj x).clr = (σ.obj x).clr ∧ (σ'.obj x).priv = (σ.obj x).priv ∧
    ((σ'.log = σ.log ∧ σ'.blk = σ.blk ∧ ∀ y, y ≠ x → σ'.obj y = σ.obj y) ∨
     (∃ y, y ≠ x ∧ stamped σ y ∧ (sReset y σ = .ok () σ' ∨ wReset y σ = .ok () σ') ∧ σ'.obj x = σ.obj x)) := by
  cases b with
  | nothing => exact ⟨rfl, rfl, rfl, rfl, Or.inl ⟨rfl, rfl, fun _ _ => rfl⟩⟩
  | fields off len =>
    refine ⟨by simp, by simp, by simp, by simp, Or.inl ⟨rfl, rfl, fun y hy => by simp [hy]⟩⟩
  | coReset y σ1 hne hsy hr =>
    have hox : σ'.obj x = σ.obj x := by
      have hxy : ¬ (x = y) := fun e => hne e.symm
      rcases hr with hr | hr
      · have hs1 := (steps_sReset (A := (· = y)) (D := false) y rfl (Steps.refl σ)).ext
        rw [hr] at hs1; exact hs1.objs x hxy
      · have hs1 := (steps_wReset (A := (· = y)) (D := false) y rfl (Steps.refl σ)).ext
        rw [hr] at hs1; exact hs1.objs x hxy
    exact ⟨by rw [hox], by rw [hox], by rw [hox], by rw [hox], Or.inr ⟨y, hne, hsy, hr, hox⟩⟩

/-! ### overwrite-only entry points -/

/-- the argument objects a call overwrites without reading them (`init`, `set`, copy destination) -/
def Op.overwrites : Op → List Nat
  | .gInit a | .gSet a _ | .uInit a | .sInit a | .wInit a | .aInit a => [a]
  | .gCopy d _ => [d]
  | _ => []

/-- **overwrite_only.**  `init`, `set` and the destination of `copy` never read the object they
overwrite: the call succeeds whether or not that object is a stray copy, afterwards the object is
properly stamped, and its new pointer is the written value — independent of the stale pointer and
stamp it held (the result is literally the same for any other old `self`/`ptr`). -/
theorem overwrite_only {op : Op} {σ : State} {x : Nat} (hx : x ∈ op.overwrites) (hxr : x ∉ op.reads)
    (hr : ∀ y, y ∈ op.reads → stamped σ y) :
    ∃ σ', exec op σ = .ok .unit σ' ∧ stamped σ' x ∧
      (∀ s p, ∃ σ'', exec op (σ.setObj x { σ.obj x with self := s, ptr := p }) = .ok .unit σ'' ∧
        σ''.obj x = σ'.obj x) := by
  cases op with
  | gInit a =>
    simp [Op.overwrites] at hx; subst hx
    exact ⟨_, rfl, by simp [stamped, gInit], fun s p => ⟨_, rfl, by simp [gInit, gSet]⟩⟩
  | gSet a q =>
    simp [Op.overwrites] at hx; subst hx
    exact ⟨_, rfl, by simp [stamped], fun s p => ⟨_, rfl, by simp [gSet]⟩⟩
  | uInit a =>
    simp [Op.overwrites] at hx; subst hx
    exact ⟨_, rfl, by simp [stamped, uInit], fun s p => ⟨_, rfl, by simp [uInit, gSet]⟩⟩
  | sInit a =>
    simp [Op.overwrites] at hx; subst hx
    exact ⟨_, rfl, by simp [stamped, sInit], fun s p => ⟨_, rfl, by simp [sInit, gSet]⟩⟩
  | wInit a =>
    simp [Op.overwrites] at hx; subst hx
    exact ⟨_, rfl, by simp [stamped, sInit], fun s p => ⟨_, rfl, by simp [sInit, gSet]⟩⟩
  | aInit a =>
    simp [Op.overwrites] at hx; subst hx
    exact ⟨_, rfl, by simp [stamped, aInit, sInit], fun s p => ⟨_, rfl, by simp [aInit, sInit, gSet]⟩⟩
  | gCopy d s =>
    simp [Op.overwrites] at hx; subst hx
    have hsx : s ≠ x := by intro e; apply hxr; simp [Op.reads, e]
    have hs : (σ.obj s).self = s := hr s (by simp [Op.reads])
    refine ⟨gSet x (σ.obj s).ptr σ, by simp [exec, unitR, gCopy, gGet_eval hs], by simp [stamped], ?_⟩
    intro s' p
    have hs2 : ((σ.setObj x { σ.obj x with self := s', ptr := p }).obj s).self = s := by simp [hsx, hs]
    refine ⟨gSet x (σ.obj s).ptr (σ.setObj x { σ.obj x with self := s', ptr := p }), ?_, by simp [gSet]⟩
    simp [exec, unitR, gCopy, gGet_eval hs2, hsx]
  | _ => simp [Op.overwrites] at hx

/-! ### objects moved only with the provided functions never abort -/

/-- every object is properly stamped -/
def AllStamped (σ : State) : Prop := ∀ a, a < σ.n → stamped σ a

theorem reads_lt {op : Op} {σ : State} {x : Nat} (hd : op.dom σ) (hx : x ∈ op.reads) : x < σ.n := by
  cases op <;> simp [Op.reads] at hx <;> simp only [Op.dom, State.is] at hd
  all_goals (first | (subst hx; omega) | (rcases hx with rfl | rfl <;> omega) | skip)

/-- **stamped_preserved.**  Library calls only ever stamp an object with its own address: an object
that is properly stamped stays so (only the client's bitwise copy produces stray objects). -/
theorem stamped_preserved {op : Op} {σ σ' : State} {v : Val} (hn : ∀ d s, op ≠ .rawCopy d s)
    (h : step op σ = .ok v σ') : ∀ x, stamped σ x → stamped σ' x := by
  intro x hx
  unfold step at h
  by_cases hd : op.dom σ
  · simp only [hd, if_true] at h
    have E := (steps_exec op σ hn).ext
    rw [h] at E
    have hself : (σ'.obj x).self = (σ.obj x).self ∨ (σ'.obj x).self = x := E.self x
    rcases hself with e | e
    · unfold stamped at hx ⊢; rw [e]; exact hx
    · exact e
  · simp [hd] at h

/-- **the original keeps working.**  A bitwise copy changes nothing but the destination bytes: the
source (and every other object) is as before, the invariant still holds — so every theorem about
properly stamped objects continues to apply to them — and the copy itself is a stray object. -/
theorem original_keeps_working {σ : State} {dst src : Nat} (I : Inv σ) (hd : (Op.rawCopy dst src).dom σ) :
    ∃ σ', step (.rawCopy dst src) σ = .ok .unit σ' ∧ Inv σ' ∧ (∀ x, x ≠ dst → σ'.obj x = σ.obj x) ∧
      σ'.blk = σ.blk ∧ σ'.log = σ.log ∧ (dst ≠ src → ¬ stamped σ' dst) := by
  have hd' := hd
  obtain ⟨_, hdn, hk, hnh, hself⟩ := hd
  refine ⟨rawCopy dst src σ, by simp [step, hd', exec], rawCopy_inv I hdn hk hnh hself,
    fun x hx => by simp [rawCopy, hx], rfl, rfl, ?_⟩
  intro hne
  rcases hself with h | h
  · exact absurd h hne
  · simpa [stamped, rawCopy] using h

/-- **stamped_never_aborts.**  With every object properly stamped, a call never aborts because of the
guard: it succeeds (keeping the invariant and the stamps), or it is outside the documented domain,
or it is one of the bounds-checked array calls (`at`, `slice`, `unslice`) stopping on its own
documented check. -/
theorem stamped_never_aborts {op : Op} {σ : State} (I : Inv σ) (hS : AllStamped σ) :
    match step op σ with
    | .ok _ σ' => Inv σ' ∧ ((∀ d s, op ≠ .rawCopy d s) → AllStamped σ')
    | .stop k σ' => k = .badop ∨ (op.mayAbort ∧ (k = .abort ∨ k = .segv) ∧ σ' = σ) := by
  by_cases hd : op.dom σ
  · have hg := exec_stamped I hd (fun x hx => hS x (reads_lt hd hx))
    have hst : step op σ = exec op σ := by simp [step, hd]
    rw [hst]
    cases hr : exec op σ with
    | ok v σ' =>
      rw [hr] at hg
      refine ⟨hg.1, fun hn a ha => ?_⟩
      have : step op σ = .ok v σ' := by rw [hst, hr]
      exact stamped_preserved hn this a (hS a (by rw [← hg.2.n]; exact ha))
    | stop k σ' =>
      rw [hr] at hg
      exact Or.inr hg
  · simp [step, hd]

/-- no bitwise copies in the program -/
def NoRaw (ops : List Op) : Prop := ∀ op, op ∈ ops → ∀ d s, op ≠ .rawCopy d s

/-- **histories of properly moved objects never abort on the guard.**  From a state in which every
object is properly stamped (e.g. the initial one), a program without bitwise copies either runs to
completion — invariant and stamps intact — or stops outside the documented domain or on the bounds
check of an `at` / `slice` / `unslice` call. -/
theorem properly_moved_never_abort {ops : List Op} {σ : State} (I : Inv σ) (hS : AllStamped σ)
    (hn : NoRaw ops) :
    match run ops σ with
    | .ok _ σ' => Inv σ' ∧ AllStamped σ'
    | .stop k _ => k = .badop ∨ ((k = .abort ∨ k = .segv) ∧ ∃ op, op ∈ ops ∧ op.mayAbort) := by
  induction ops generalizing σ with
  | nil => exact ⟨I, hS⟩
  | cons op ops ih =>
    have h1 := stamped_never_aborts (op := op) I hS
    simp only [run]
    cases hr : step op σ with
    | stop k σ1 =>
      rw [hr] at h1
      simp only [bind_stop]
      rcases h1 with h | ⟨hm, hk, _⟩
      · exact Or.inl h
      · exact Or.inr ⟨hk, op, by simp, hm⟩
    | ok v σ1 =>
      rw [hr] at h1
      simp only [bind_ok]
      have hS1 := h1.2 (hn op (by simp))
      have ih' := ih h1.1 hS1 (fun o ho => hn o (by simp [ho]))
      cases hr2 : run ops σ1 with
      | ok vs σ2 => rw [hr2] at ih'; simpa using ih'
      | stop k σ2 =>
        rw [hr2] at ih'
        simp only [bind_stop]
        rcases ih' with h | ⟨hk, o, ho, hm⟩
        · exact Or.inl h
        · exact Or.inr ⟨hk, o, by simp [ho], hm⟩

theorem allStamped_init (n : Nat) (kind : Nat → Kind) (es : Nat → Nat) :
    AllStamped (State.init n kind es) := fun a _ => by simp [stamped, State.init]

/-! ### non-vacuity -/

/-- shared objects 0,1,2; weak 3; array 4,5 -/
def exKind20 (a : Nat) : Kind := if a = 3 then .weak else if a = 4 ∨ a = 5 then .array else .shared

example : ∃ σ vs, run [.sAlloc 0 8 1 true true, .wFrom 3 0, .rawCopy 1 0, .sGet 0]
      (State.init 6 exKind20 (fun _ => 0)) = .ok vs σ ∧
    -- a stray copy of an owning object: hypotheses of `stray_aborts` for reset / share / lock …
    (σ.obj 1).self ≠ 1 ∧ (σ.obj 1).ptr ≠ 0 ∧
    step (.sReset 1) σ = .stop .abort σ ∧ step (.sGet 1) σ = .stop .abort σ ∧
    (∃ σ', step (.sShare 1 2) σ = .stop .abort σ') ∧
    -- … while the original keeps working
    (∃ v σ', step (.sReset 0) σ = .ok v σ') := by
  refine ⟨_, _, rfl, by decide, by decide, rfl, rfl, ⟨_, rfl⟩, ⟨_, _, rfl⟩⟩

end Cstl.Mem
