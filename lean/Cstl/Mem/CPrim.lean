import Cstl.Mem.Model
/-
Vocabulary of the translator `tools/c2lean_mem.py` (area `mem`): one Lean
primitive per *C-level access* that occurs in include/cstl/memory.h,
src/memory.c and the `cstl_array_*` functions of src/array.c, written with the
state, result monad, `malloc`/`free` and event log of `Cstl/Mem/Model.lean`.

The generated file `Cstl/Gen/MemC.lean` is built from nothing but these
primitives, `Res.bind` (`>>-`), `if`, `let` and calls between generated
definitions; `Cstl/Mem/Tie.lean` proves that the hand-written model functions
are exactly the generated ones.

Reading of the C objects
* A pointer to a client pointer object (`struct cstl_guarded_ptr *`,
  `cstl_unique_ptr_t *`, `cstl_shared_ptr_t *`, `cstl_weak_ptr_t *`,
  `cstl_array_t *` — the guarded pointer is the first member of each, the
  translator checks the field index) is `Place.obj a`; the pointer
  `&data->up` to the unique pointer embedded in bookkeeping block `data` is
  `Place.up data`.  Functions such as `cstl_unique_ptr_reset` are called with
  both and are translated once, over `Place`.
* A pointer to a heap block (`struct cstl_shared_ptr_data *`,
  `struct cstl_raw_array *`, the `void *` a unique pointer manages) is the
  block id (`0` = NULL).  EVERY access to a word of block `d` goes through
  `acc d`: NULL is `Stop.segv`, a freed block is `Stop.asan` (what the
  sanitised harness reports).  Words of client objects are always accessible.
* `gp->self == gp` is the stamp check `stampOk`, `gp->self = gp` the stamp
  write `stStamp` (any other use of `self` is refused by the translator).
* The counters are natural numbers as in the sequential model (no wrap; the
  `size_t` wrap of a decrement of 0 is part of the C06 model); the spin flag
  is free in a sequential execution: `flagTas` answers `false`, `flagClear`
  only touches the block.
* A buffer pointer (`ra->buf`, `ra + 1`, the argument of `cstl_array_set`, the
  results of data/at) is a `Loc`; the descriptor word `abuf` stores its code
  (`0` = the inline buffer `ra + 1`, `e` = external buffer `e`).
* Words the model has no room for (`data->up.clr.priv`, always NULL; an
  `off`/`len` word of something that is not an array object; a buffer pointer
  that is neither `ra + 1` nor the start of an external buffer) can only be
  written with the value the model assumes; anything else is `Stop.badop`.
-/
namespace Cstl.Mem

inductive Place where
  | obj (a : Nat)
  | up (d : Nat)
deriving DecidableEq, Repr, Inhabited

/-- one access to a word of heap block `d` -/
def acc (d : Nat) (σ : State) : Res Unit :=
  if d = 0 then .stop .segv σ
  else if (σ.blk d).live = true then .ok () σ else .stop .asan σ

/-- `abort()` -/
def abortM {α : Type} (σ : State) : Res α := .stop .abort σ

/-- `sched_yield()` -/
def yieldM (σ : State) : Res Unit := .ok () σ

/-! ### the two words of a `struct cstl_guarded_ptr` -/

/-- `gp->self == gp` -/
def stampOk : Place → State → Res Bool
  | .obj a, σ => .ok (decide ((σ.obj a).self = a)) σ
  | .up d, σ => acc d σ >>- fun _ σ => .ok (σ.blk d).upOk σ

/-- `gp->ptr` -/
def ldPtr : Place → State → Res Nat
  | .obj a, σ => .ok (σ.obj a).ptr σ
  | .up d, σ => acc d σ >>- fun _ σ => .ok (σ.blk d).up σ

/-- `gp->ptr = v` -/
def stPtr : Place → Nat → State → Res Unit
  | .obj a, v, σ => .ok () (σ.setObj a { σ.obj a with ptr := v })
  | .up d, v, σ => acc d σ >>- fun _ σ => .ok () (σ.setBlk d { σ.blk d with up := v })

/-- `gp->self = gp` -/
def stStamp : Place → State → Res Unit
  | .obj a, σ => .ok () (σ.setObj a { σ.obj a with self := a })
  | .up d, σ => acc d σ >>- fun _ σ => .ok () (σ.setBlk d { σ.blk d with upOk := true })

/-! ### `clr.func` / `clr.priv` of a `cstl_unique_ptr_t` -/

def ldClr : Place → State → Res Nat
  | .obj a, σ => .ok (σ.obj a).clr σ
  | .up d, σ => acc d σ >>- fun _ σ => .ok (σ.blk d).upClr σ

/-- `data->up.clr.priv` is NULL throughout (`cstl_shared_ptr_alloc` passes NULL) -/
def ldPriv : Place → State → Res Nat
  | .obj a, σ => .ok (σ.obj a).priv σ
  | .up d, σ => acc d σ >>- fun _ σ => .ok 0 σ

def stClr : Place → Nat → State → Res Unit
  | .obj a, v, σ => .ok () (σ.setObj a { σ.obj a with clr := v })
  | .up d, v, σ => acc d σ >>- fun _ σ => .ok () (σ.setBlk d { σ.blk d with upClr := v })

def stPriv : Place → Nat → State → Res Unit
  | .obj a, v, σ => .ok () (σ.setObj a { σ.obj a with priv := v })
  | .up d, v, σ => acc d σ >>- fun _ σ => if v = 0 then .ok () σ else .stop .badop σ

/-- `cstl_swap(&x->clr, &y->clr, t, sizeof(t))`: `t = x->clr; x->clr = y->clr; y->clr = t` on the
two words (the byte-level `cstl_swap` is not part of this translation) -/
def swapClr : Place → Place → State → Res Unit
  | .obj a, .obj b, σ =>
    let oa := σ.obj a
    let ob := σ.obj b
    let σ := σ.setObj a { oa with clr := ob.clr, priv := ob.priv }
    .ok () (σ.setObj b { σ.obj b with clr := oa.clr, priv := oa.priv })
  | _, _, σ => .stop .badop σ

/-! ### `off` / `len` of a `cstl_array_t` -/

def ldOff : Place → State → Res Nat
  | .obj a, σ => .ok (σ.obj a).off σ
  | .up _, σ => .stop .badop σ

def ldLen : Place → State → Res Nat
  | .obj a, σ => .ok (σ.obj a).len σ
  | .up _, σ => .stop .badop σ

def stOff : Place → Nat → State → Res Unit
  | .obj a, v, σ => .ok () (σ.setObj a { σ.obj a with off := v })
  | .up _, _, σ => .stop .badop σ

def stLen : Place → Nat → State → Res Unit
  | .obj a, v, σ => .ok () (σ.setObj a { σ.obj a with len := v })
  | .up _, _, σ => .stop .badop σ

/-! ### `data->ref.hard`, `data->ref.soft`, `data->ref.lock` -/

inductive Ctr where
  | hard | soft
deriving DecidableEq, Repr, Inhabited

def Blk.ctr (k : Blk) : Ctr → Nat
  | .hard => k.hard
  | .soft => k.soft

def Blk.setCtr (k : Blk) : Ctr → Nat → Blk
  | .hard, v => { k with hard := v }
  | .soft, v => { k with soft := v }

/-- `atomic_init(&data->ref.c, v)` -/
def atomicInit (d : Nat) (c : Ctr) (v : Nat) (σ : State) : Res Unit :=
  acc d σ >>- fun _ σ => .ok () (σ.setBlk d ((σ.blk d).setCtr c v))

/-- `atomic_load(&data->ref.c)` -/
def atomicLoad (d : Nat) (c : Ctr) (σ : State) : Res Nat :=
  acc d σ >>- fun _ σ => .ok ((σ.blk d).ctr c) σ

/-- `atomic_fetch_add(&data->ref.c, v)`: the old value -/
def fetchAdd (d : Nat) (c : Ctr) (v : Nat) (σ : State) : Res Nat :=
  acc d σ >>- fun _ σ => .ok ((σ.blk d).ctr c) (σ.setBlk d ((σ.blk d).setCtr c ((σ.blk d).ctr c + v)))

/-- `atomic_fetch_sub(&data->ref.c, v)`: the old value -/
def fetchSub (d : Nat) (c : Ctr) (v : Nat) (σ : State) : Res Nat :=
  acc d σ >>- fun _ σ => .ok ((σ.blk d).ctr c) (σ.setBlk d ((σ.blk d).setCtr c ((σ.blk d).ctr c - v)))

/-- `atomic_flag_test_and_set(&data->ref.lock)` in a sequential execution -/
def flagTas (d : Nat) (σ : State) : Res Bool := acc d σ >>- fun _ σ => .ok false σ

/-- `atomic_flag_clear(&data->ref.lock)` -/
def flagClear (d : Nat) (σ : State) : Res Unit := acc d σ

/-- `size_t` → `int` (two's complement, 32 bit) -/
def castInt (x : Nat) : Int :=
  if x % 4294967296 < 2147483648 then ((x % 4294967296 : Nat) : Int)
  else ((x % 4294967296 : Nat) : Int) - 4294967296

/-! ### the descriptor `struct cstl_raw_array` in the managed block `ra` -/

def ldSz (ra : Nat) (σ : State) : Res Nat := acc ra σ >>- fun _ σ => .ok (σ.blk ra).asz σ
def ldNm (ra : Nat) (σ : State) : Res Nat := acc ra σ >>- fun _ σ => .ok (σ.blk ra).anm σ
/-- `ra->buf` -/
def ldBuf (ra : Nat) (σ : State) : Res Loc := acc ra σ >>- fun _ σ => .ok (bufLoc ra (σ.blk ra) 0) σ

def stSz (ra v : Nat) (σ : State) : Res Unit :=
  acc ra σ >>- fun _ σ => .ok () (σ.setBlk ra { σ.blk ra with asz := v })
def stNm (ra v : Nat) (σ : State) : Res Unit :=
  acc ra σ >>- fun _ σ => .ok () (σ.setBlk ra { σ.blk ra with anm := v })

/-- the code of a buffer pointer in the word `ra->buf` -/
def encBuf (ra : Nat) : Loc → Option Nat
  | .heap b off => if b = ra ∧ off = HDR then some 0 else none
  | .ext e off => if off = 0 then some e else none
  | .null => none

/-- `ra->buf = l` -/
def stBuf (ra : Nat) (l : Loc) (σ : State) : Res Unit :=
  acc ra σ >>- fun _ σ =>
  match encBuf ra l with
  | some c => .ok () (σ.setBlk ra { σ.blk ra with abuf := c })
  | none => .stop .badop σ

/-- `(void *)((uintptr_t)l + n)` -/
def Loc.add : Loc → Nat → Loc
  | .null, _ => .null
  | .heap b off, n => .heap b ((off + n) % W)
  | .ext e off, n => .ext e ((off + n) % W)

/-! ### libc and the client's callback -/

/-- `malloc(sz)`, answered by `ans`; `g` = the ghost annotation of the new block -/
def mallocM (sz : Nat) (ans : Bool) (g : Blk) (σ : State) : Res Nat :=
  .ok (malloc sz ans g σ).1 (malloc sz ans g σ).2

/-- `free(p)` -/
def freeM (p : Nat) (σ : State) : Res Unit := free p σ

/-- `f(p, priv)` for the registered clear function `f` -/
def callClr (f p priv : Nat) (σ : State) : Res Unit := .ok () (σ.emit (.clr f p priv))

/-! ghost annotations of the blocks allocated by the two functions that call `malloc` (never read by
any operation; see the header of Model.lean) -/

def ghost_cstl_unique_ptr_alloc (up : Place) (_sz clr priv : Nat) : Blk :=
  match up with
  | .obj _ => { clrG := clr, privG := priv }
  | .up d => { ownerD := d, clrG := clr }

def ghost_cstl_shared_ptr_alloc (_sp : Place) (_sz _clr : Nat) : Blk := { isData := true }

end Cstl.Mem
