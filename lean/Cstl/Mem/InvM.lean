import Cstl.Mem.Inv
/-
Preservation of the ownership invariant: guarded pointers, `init`, the array
object's view fields and descriptor, the client's bitwise copy.
-/
set_option linter.unusedSimpArgs false
namespace Cstl.Mem

/-- writing a guarded pointer -/
theorem gSet_guarded_inv {σ : State} {a : Nat} (p : Nat) (I : Inv σ) (ha : a < σ.n)
    (hk : σ.kind a = .guarded) : Inv (gSet a p σ) := by
  have hcH := fun d' => nH_gSet (σ := σ) p d' ha
  have hcW := fun d' => nW_gSet (σ := σ) p d' ha
  inv_clauses I
  · exact log_frame (σ := σ) I (by intro b; st_simp; grind)

/-- `cstl_shared_ptr_init` / `cstl_weak_ptr_init` on an object that holds nothing -/
theorem sInit_inv {σ : State} {a : Nat} (I : Inv σ) (ha : a < σ.n)
    (hk : σ.kind a = .shared ∨ σ.kind a = .weak ∨ σ.kind a = .array) (hnh : ¬ σ.holds a) :
    Inv (gSet a 0 σ) := by
  have hcH := fun d' => nH_gSet (σ := σ) 0 d' ha
  have hcW := fun d' => nW_gSet (σ := σ) 0 d' ha
  unfold State.holds at hnh
  inv_clauses I
  · exact log_frame (σ := σ) I (by intro b; st_simp; grind)

/-- the view fields of an array object are invisible to the ownership invariant -/
theorem fields_inv {σ : State} {a : Nat} (off len : Nat) (I : Inv σ) (ha : a < σ.n) :
    Inv (σ.setObj a { σ.obj a with off := off, len := len }) := by
  have hcH := fun d' => nH_setObj (σ := σ) { σ.obj a with off := off, len := len } d' ha
  have hcW := fun d' => nW_setObj (σ := σ) { σ.obj a with off := off, len := len } d' ha
  inv_clauses I
  · exact log_frame (σ := σ) I (by intro b; st_simp; grind)

/-- the descriptor words of a block are invisible to the ownership invariant -/
theorem desc_inv {σ : State} {m : Nat} (asz anm abuf : Nat) (I : Inv σ) (hl : (σ.blk m).live = true) :
    Inv (σ.setBlk m { σ.blk m with asz := asz, anm := anm, abuf := abuf }) := by
  have hlt := I.live_lt hl
  inv_clauses I
  · exact log_frame (σ := σ) I (by intro b; st_simp; grind)

/-- a bitwise copy onto an object that holds nothing -/
theorem rawCopy_inv {σ : State} {dst src : Nat} (I : Inv σ) (hd : dst < σ.n)
    (hk : σ.kind dst = σ.kind src) (hnh : ¬ σ.holds dst) (hself : dst = src ∨ (σ.obj src).self ≠ dst) :
    Inv (rawCopy dst src σ) := by
  have hcH := fun d' => nH_setObj (σ := σ) (σ.obj src) d' hd
  have hcW := fun d' => nW_setObj (σ := σ) (σ.obj src) d' hd
  unfold State.holds at hnh
  unfold rawCopy
  rcases hself with rfl | hne
  · have e : σ.setObj dst (σ.obj dst) = σ := by
      refine State.ext' rfl rfl (fun x => ?_) (fun _ => rfl) rfl rfl rfl
      by_cases hx : x = dst <;> simp [hx]
    rw [e]; exact I
  · inv_clauses I
    · exact log_frame (σ := σ) I (by intro b; st_simp; grind)

end Cstl.Mem
