import Cstl.Mem.Inv
/-
Preservation of the ownership invariant by the shared / weak pointer functions.
-/
set_option linter.unusedSimpArgs false
namespace Cstl.Mem

/-! ### `cstl_shared_ptr_reset` -/

theorem obj_ptr0 {σ : State} {a : Nat} (hs : (σ.obj a).self = a) :
    ∀ x, (gSet a 0 σ).obj x = if x = a then { σ.obj a with ptr := 0 } else σ.obj x := by
  intro x; by_cases hx : x = a
  · subst hx; simp only [gSet_obj, if_true]; cases ho : σ.obj x; simp only [ho] at hs; simp [hs]
  · simp [hx]

/-- what the invariant says about the block an owner refers to -/
theorem owner_facts {σ : State} {a : Nat} (I : Inv σ) (ha : a < σ.n) (hs : (σ.obj a).self = a)
    (hk : σ.kind a = .shared ∨ σ.kind a = .array) (hp : (σ.obj a).ptr ≠ 0) :
    (σ.blk (σ.obj a).ptr).live = true ∧ (σ.blk (σ.obj a).ptr).isData = true ∧ (σ.obj a).ptr < σ.next ∧
    ((σ.blk (σ.obj a).ptr).hard = nH σ (σ.obj a).ptr ∧
      (σ.blk (σ.obj a).ptr).soft = nH σ (σ.obj a).ptr + nW σ (σ.obj a).ptr) ∧
    (0 < (σ.blk (σ.obj a).ptr).soft ∧ (σ.blk (σ.obj a).ptr).upOk = true) ∧
    (σ.blk (σ.obj a).ptr).hard ≠ 0 ∧
    ((σ.blk (σ.obj a).ptr).up ≠ 0 ∧ (σ.blk (σ.blk (σ.obj a).ptr).up).live = true ∧
      (σ.blk (σ.blk (σ.obj a).ptr).up).isData = false ∧
      (σ.blk (σ.blk (σ.obj a).ptr).up).ownerD = (σ.obj a).ptr ∧
      (σ.blk (σ.blk (σ.obj a).ptr).up).clrG = (σ.blk (σ.obj a).ptr).upClr ∧
      (σ.blk (σ.blk (σ.obj a).ptr).up).privG = 0) ∧
    (σ.blk (σ.obj a).ptr).up ≠ (σ.obj a).ptr ∧ (σ.blk (σ.obj a).ptr).up < σ.next := by
  have hh : HRef σ.obj σ.kind (σ.obj a).ptr a := ⟨hs, hk, rfl⟩
  obtain ⟨hl, hd⟩ := I.ref_ok a _ ha (Or.inl hh) hp
  have hcnt := I.data_cnt _ hl hd
  have hhard : (σ.blk (σ.obj a).ptr).hard ≠ 0 := by
    have : 0 < nH σ (σ.obj a).ptr := nH_pos.mpr ⟨a, ha, hh⟩
    omega
  have hm := I.data_up _ hl hd hhard
  unfold MemOk at hm
  refine ⟨hl, hd, I.live_lt hl, hcnt, I.data_pos _ hl hd, hhard, hm, ?_, I.live_lt hm.2.1⟩
  intro e; rw [e] at hm; simp [hd] at hm

theorem sReset_inv_ll0 {σ : State} {a : Nat} (I : Inv σ) (ha : a < σ.n) (hs : (σ.obj a).self = a)
    (hk : σ.kind a = .shared ∨ σ.kind a = .array) (hp : (σ.obj a).ptr ≠ 0)
    (h1 : (σ.blk (σ.obj a).ptr).hard = 1) (h2 : (σ.blk (σ.obj a).ptr).soft = 1)
    (hc : (σ.blk (σ.obj a).ptr).upClr = 0) :
    ∃ σ', sReset a σ = .ok () σ' ∧ Inv σ' ∧ Same σ σ' ∧
      (∀ x, σ'.obj x = if x = a then { σ.obj a with ptr := 0 } else σ.obj x) := by
  obtain ⟨hl, hd, hlt, hcnt, hpos, hhard, hm, hmd, hmlt⟩ := owner_facts I ha hs hk hp
  have hcH := fun d' => nH_gSet (σ := σ) 0 d' ha
  have hcW := fun d' => nW_gSet (σ := σ) 0 d' ha
  have hobj := obj_ptr0 hs
  have hz1 := fun d' => nH_zero (σ := gSet a 0 σ) (d := d')
  have hz2 := fun d' => nW_zero (σ := gSet a 0 σ) (d := d')
  refine ⟨σ.upd (gSet a 0 σ).obj (fun b =>
      if b = (σ.obj a).ptr then { σ.blk (σ.obj a).ptr with hard := 0, soft := 0, upOk := true, up := 0, upClr := 0, live := false }
      else if b = (σ.blk (σ.obj a).ptr).up then { σ.blk (σ.blk (σ.obj a).ptr).up with live := false }
      else σ.blk b)
      (σ.log ++ [Ev.free (σ.blk (σ.obj a).ptr).up] ++ [Ev.free (σ.obj a).ptr]) σ.next, ?_, ?_, ⟨rfl, rfl, rfl⟩, hobj⟩
  · rw [sReset_step hs hp hl]; simp only [h1, if_true]
    rw [upReset_eval0]; simp only [bind_ok]; rw [wReset_last]
    · congr 1; st_ext
    all_goals (simp [hs, hp, hl, h2, hpos.2, hc, hm.1, hm.2.1, hmd, Ne.symm hmd, upInit])
  · inv_clauses I
    · refine LogOk.free _ (LogOk.free _ (log_frame (σ := σ) I (by intro b; st_simp; grind)) ?_) ?_
      all_goals (st_simp; grind)

set_option maxHeartbeats 1000000 in
theorem sReset_inv_llc {σ : State} {a : Nat} (I : Inv σ) (ha : a < σ.n) (hs : (σ.obj a).self = a)
    (hk : σ.kind a = .shared ∨ σ.kind a = .array) (hp : (σ.obj a).ptr ≠ 0)
    (h1 : (σ.blk (σ.obj a).ptr).hard = 1) (h2 : (σ.blk (σ.obj a).ptr).soft = 1)
    (hc : (σ.blk (σ.obj a).ptr).upClr ≠ 0) :
    ∃ σ', sReset a σ = .ok () σ' ∧ Inv σ' ∧ Same σ σ' ∧
      (∀ x, σ'.obj x = if x = a then { σ.obj a with ptr := 0 } else σ.obj x) := by
  obtain ⟨hl, hd, hlt, hcnt, hpos, hhard, hm, hmd, hmlt⟩ := owner_facts I ha hs hk hp
  have hcH := fun d' => nH_gSet (σ := σ) 0 d' ha
  have hcW := fun d' => nW_gSet (σ := σ) 0 d' ha
  have hobj := obj_ptr0 hs
  have hz1 := fun d' => nH_zero (σ := gSet a 0 σ) (d := d')
  have hz2 := fun d' => nW_zero (σ := gSet a 0 σ) (d := d')
  refine ⟨σ.upd (gSet a 0 σ).obj (fun b =>
      if b = (σ.obj a).ptr then { σ.blk (σ.obj a).ptr with hard := 0, soft := 0, upOk := true, up := 0, upClr := 0, live := false }
      else if b = (σ.blk (σ.obj a).ptr).up then { σ.blk (σ.blk (σ.obj a).ptr).up with live := false }
      else σ.blk b)
      (σ.log ++ [Ev.clr (σ.blk (σ.obj a).ptr).upClr (σ.blk (σ.obj a).ptr).up 0] ++ [Ev.free (σ.blk (σ.obj a).ptr).up] ++ [Ev.free (σ.obj a).ptr]) σ.next, ?_, ?_, ⟨rfl, rfl, rfl⟩, hobj⟩
  · rw [sReset_step hs hp hl]; simp only [h1, if_true]
    rw [upReset_evalc]; simp only [bind_ok]; rw [wReset_last]
    · congr 1; st_ext
    all_goals (simp [hs, hp, hl, h2, hpos.2, hc, hm.1, hm.2.1, hmd, Ne.symm hmd, upInit])
  · inv_clauses I
    · refine LogOk.free _ (LogOk.clrFree' _ _ _ (log_frame (σ := σ) I (by intro b; st_simp; grind)) ?_ ?_ ?_ ?_) ?_
      all_goals (st_simp; grind)

theorem sReset_inv_l0 {σ : State} {a : Nat} (I : Inv σ) (ha : a < σ.n) (hs : (σ.obj a).self = a)
    (hk : σ.kind a = .shared ∨ σ.kind a = .array) (hp : (σ.obj a).ptr ≠ 0)
    (h1 : (σ.blk (σ.obj a).ptr).hard = 1) (h2 : (σ.blk (σ.obj a).ptr).soft ≠ 1)
    (hc : (σ.blk (σ.obj a).ptr).upClr = 0) :
    ∃ σ', sReset a σ = .ok () σ' ∧ Inv σ' ∧ Same σ σ' ∧
      (∀ x, σ'.obj x = if x = a then { σ.obj a with ptr := 0 } else σ.obj x) := by
  obtain ⟨hl, hd, hlt, hcnt, hpos, hhard, hm, hmd, hmlt⟩ := owner_facts I ha hs hk hp
  have hcH := fun d' => nH_gSet (σ := σ) 0 d' ha
  have hcW := fun d' => nW_gSet (σ := σ) 0 d' ha
  have hobj := obj_ptr0 hs
  have hz1 := fun d' => nH_zero (σ := gSet a 0 σ) (d := d')
  have hz2 := fun d' => nW_zero (σ := gSet a 0 σ) (d := d')
  refine ⟨σ.upd (gSet a 0 σ).obj (fun b =>
      if b = (σ.obj a).ptr then { σ.blk (σ.obj a).ptr with hard := 0, soft := (σ.blk (σ.obj a).ptr).soft - 1, upOk := true, up := 0, upClr := 0 }
      else if b = (σ.blk (σ.obj a).ptr).up then { σ.blk (σ.blk (σ.obj a).ptr).up with live := false }
      else σ.blk b)
      (σ.log ++ [Ev.free (σ.blk (σ.obj a).ptr).up]) σ.next, ?_, ?_, ⟨rfl, rfl, rfl⟩, hobj⟩
  · rw [sReset_step hs hp hl]; simp only [h1, if_true]
    rw [upReset_eval0]; simp only [bind_ok]; rw [wReset_more]
    · congr 1; st_ext
    all_goals (simp [hs, hp, hl, h2, hpos.2, hc, hm.1, hm.2.1, hmd, Ne.symm hmd, upInit])
  · inv_clauses I
    · refine LogOk.free _ (log_frame (σ := σ) I (by intro b; st_simp; grind)) ?_
      all_goals (st_simp; grind)

theorem sReset_inv_lc {σ : State} {a : Nat} (I : Inv σ) (ha : a < σ.n) (hs : (σ.obj a).self = a)
    (hk : σ.kind a = .shared ∨ σ.kind a = .array) (hp : (σ.obj a).ptr ≠ 0)
    (h1 : (σ.blk (σ.obj a).ptr).hard = 1) (h2 : (σ.blk (σ.obj a).ptr).soft ≠ 1)
    (hc : (σ.blk (σ.obj a).ptr).upClr ≠ 0) :
    ∃ σ', sReset a σ = .ok () σ' ∧ Inv σ' ∧ Same σ σ' ∧
      (∀ x, σ'.obj x = if x = a then { σ.obj a with ptr := 0 } else σ.obj x) := by
  obtain ⟨hl, hd, hlt, hcnt, hpos, hhard, hm, hmd, hmlt⟩ := owner_facts I ha hs hk hp
  have hcH := fun d' => nH_gSet (σ := σ) 0 d' ha
  have hcW := fun d' => nW_gSet (σ := σ) 0 d' ha
  have hobj := obj_ptr0 hs
  have hz1 := fun d' => nH_zero (σ := gSet a 0 σ) (d := d')
  have hz2 := fun d' => nW_zero (σ := gSet a 0 σ) (d := d')
  refine ⟨σ.upd (gSet a 0 σ).obj (fun b =>
      if b = (σ.obj a).ptr then { σ.blk (σ.obj a).ptr with hard := 0, soft := (σ.blk (σ.obj a).ptr).soft - 1, upOk := true, up := 0, upClr := 0 }
      else if b = (σ.blk (σ.obj a).ptr).up then { σ.blk (σ.blk (σ.obj a).ptr).up with live := false }
      else σ.blk b)
      (σ.log ++ [Ev.clr (σ.blk (σ.obj a).ptr).upClr (σ.blk (σ.obj a).ptr).up 0] ++ [Ev.free (σ.blk (σ.obj a).ptr).up]) σ.next, ?_, ?_, ⟨rfl, rfl, rfl⟩, hobj⟩
  · rw [sReset_step hs hp hl]; simp only [h1, if_true]
    rw [upReset_evalc]; simp only [bind_ok]; rw [wReset_more]
    · congr 1; st_ext
    all_goals (simp [hs, hp, hl, h2, hpos.2, hc, hm.1, hm.2.1, hmd, Ne.symm hmd, upInit])
  · inv_clauses I
    · refine LogOk.clrFree' _ _ _ (log_frame (σ := σ) I (by intro b; st_simp; grind)) ?_ ?_ ?_ ?_
      all_goals (st_simp; grind)

theorem sReset_inv_more {σ : State} {a : Nat} (I : Inv σ) (ha : a < σ.n) (hs : (σ.obj a).self = a)
    (hk : σ.kind a = .shared ∨ σ.kind a = .array) (hp : (σ.obj a).ptr ≠ 0)
    (h1 : (σ.blk (σ.obj a).ptr).hard ≠ 1) :
    ∃ σ', sReset a σ = .ok () σ' ∧ Inv σ' ∧ Same σ σ' ∧
      (∀ x, σ'.obj x = if x = a then { σ.obj a with ptr := 0 } else σ.obj x) := by
  obtain ⟨hl, hd, hlt, hcnt, hpos, hhard, hm, hmd, hmlt⟩ := owner_facts I ha hs hk hp
  have hcH := fun d' => nH_gSet (σ := σ) 0 d' ha
  have hcW := fun d' => nW_gSet (σ := σ) 0 d' ha
  have hobj := obj_ptr0 hs
  have hz1 := fun d' => nH_zero (σ := gSet a 0 σ) (d := d')
  have hz2 := fun d' => nW_zero (σ := gSet a 0 σ) (d := d')
  have h2 : (σ.blk (σ.obj a).ptr).soft ≠ 1 := by
    have := hcW (σ.obj a).ptr; have := hcH (σ.obj a).ptr; grind
  have hc : True := trivial
  refine ⟨σ.upd (gSet a 0 σ).obj (fun b =>
      if b = (σ.obj a).ptr then { σ.blk (σ.obj a).ptr with hard := (σ.blk (σ.obj a).ptr).hard - 1, soft := (σ.blk (σ.obj a).ptr).soft - 1 }
      else σ.blk b)
      (σ.log) σ.next, ?_, ?_, ⟨rfl, rfl, rfl⟩, hobj⟩
  · rw [sReset_step hs hp hl]; simp only [h1, if_false, bind_ok]
    rw [wReset_more]
    · congr 1; st_ext
    all_goals (simp [hs, hp, hl, h2, hpos.2, hc, hm.1, hm.2.1, hmd, Ne.symm hmd, upInit])
  · inv_clauses I
    · exact log_frame (σ := σ) I (by intro b; st_simp; grind)

theorem sReset_inv {σ : State} {a : Nat} (I : Inv σ) (ha : a < σ.n) (hs : stamped σ a)
    (hk : σ.kind a = .shared ∨ σ.kind a = .array) :
    ∃ σ', sReset a σ = .ok () σ' ∧ Inv σ' ∧ Same σ σ' ∧
      (∀ x, σ'.obj x = if x = a then { σ.obj a with ptr := 0 } else σ.obj x) := by
  unfold stamped at hs
  by_cases hp : (σ.obj a).ptr = 0
  · refine ⟨σ, sReset_null hs hp, I, ⟨rfl, rfl, rfl⟩, fun x => ?_⟩
    by_cases hx : x = a
    · subst hx; simp only [if_true]
      cases ho : σ.obj x; simp only [ho] at hp; simp [hp]
    · simp [hx]
  · by_cases h1 : (σ.blk (σ.obj a).ptr).hard = 1
    · by_cases h2 : (σ.blk (σ.obj a).ptr).soft = 1
      · by_cases hc : (σ.blk (σ.obj a).ptr).upClr = 0
        · exact sReset_inv_ll0 I ha hs hk hp h1 h2 hc
        · exact sReset_inv_llc I ha hs hk hp h1 h2 hc
      · by_cases hc : (σ.blk (σ.obj a).ptr).upClr = 0
        · exact sReset_inv_l0 I ha hs hk hp h1 h2 hc
        · exact sReset_inv_lc I ha hs hk hp h1 h2 hc
    · exact sReset_inv_more I ha hs hk hp h1

end Cstl.Mem
