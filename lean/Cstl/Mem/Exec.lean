import Cstl.Mem.Stray
import Cstl.Mem.InvS2
/-
The invariant and the guard at the level of whole client operations (`exec`,
`step`, `run`).
-/
set_option linter.unusedSimpArgs false
namespace Cstl.Mem

/-- the argument objects through which a call reads, transfers or releases the pointer -/
def Op.reads : Op → List Nat
  | .gInit _ | .gSet _ _ | .uInit _ | .sInit _ | .wInit _ | .aInit _ | .aSize _ | .rawCopy _ _ => []
  | .gGet a | .uAlloc a _ _ _ _ | .uGet a | .uRelease a | .uReset a
  | .sAlloc a _ _ _ _ | .sUnique a | .sGet a | .sReset a | .wReset a
  | .aSet a _ _ _ _ _ | .aRelease a | .aAlloc a _ _ _ _ | .aReset a | .aData a | .aAt a _ => [a]
  | .gCopy _ s => [s]
  | .gSwap a b | .uSwap a b | .sSwap a b | .wSwap a b | .sShare a b | .wFrom a b | .wLock a b
  | .aUnslice a b => [a, b]
  | .aSlice a _ _ s => [a, s]

/-- the calls that abort by documentation even on proper objects -/
def Op.mayAbort : Op → Prop
  | .aAt _ _ | .aSlice _ _ _ _ | .aUnslice _ _ => True
  | _ => False

/-- outcome of a call on properly stamped objects: it succeeds and keeps the invariant, or it is one
of the bounds-checked array calls and stopped without touching anything (never a use-after-free) -/
def GoodOutcome (op : Op) (σ : State) (r : Res Val) : Prop :=
  match r with
  | .ok _ σ' => Inv σ' ∧ Same σ σ'
  | .stop k σ' => op.mayAbort ∧ (k = .abort ∨ k = .segv) ∧ σ' = σ

theorem unitR_ok {σ' : State} {r : Res Unit} (h : r = .ok () σ') : unitR r = .ok .unit σ' := by
  rw [h]; rfl

theorem exec_stamped {op : Op} {σ : State} (I : Inv σ) (hd : op.dom σ)
    (hs : ∀ x, x ∈ op.reads → stamped σ x) : GoodOutcome op σ (exec op σ) := by
  cases op with
  | gInit a =>
    obtain ⟨ha, hk⟩ := hd
    exact ⟨gSet_guarded_inv 0 I ha hk, ⟨rfl, rfl, rfl⟩⟩
  | gSet a p =>
    obtain ⟨⟨ha, hk⟩, _⟩ := hd
    exact ⟨gSet_guarded_inv p I ha hk, ⟨rfl, rfl, rfl⟩⟩
  | gGet a =>
    have h1 := hs a (by simp [Op.reads])
    simp only [exec, gGet_eval h1, bind_ok]
    exact ⟨I, same_refl σ⟩
  | gCopy d s =>
    obtain ⟨⟨hd', hk⟩, _⟩ := hd
    have h1 := hs s (by simp [Op.reads])
    simp only [exec, unitR, gCopy, gGet_eval h1, bind_ok]
    exact ⟨gSet_guarded_inv _ I hd' hk, ⟨rfl, rfl, rfl⟩⟩
  | gSwap a b =>
    obtain ⟨⟨ha, hka⟩, ⟨hb, hkb⟩⟩ := hd
    obtain ⟨σ', h, I', S'⟩ := gSwap_inv I ha hb (hs a (by simp [Op.reads])) (hs b (by simp [Op.reads]))
      (Or.inr (Or.inr ⟨hka, hkb⟩))
    simp only [exec, unitR_ok h]; exact ⟨I', S'⟩
  | uInit a =>
    obtain ⟨⟨ha, hk⟩, hnh⟩ := hd
    exact ⟨uInit_inv I ha hk hnh, ⟨rfl, rfl, rfl⟩⟩
  | uAlloc a sz c p ans =>
    obtain ⟨⟨ha, hk⟩, _⟩ := hd
    obtain ⟨σ', h, I', S', _⟩ := uAlloc_inv (sz := sz) (clr := c) (priv := p) (ans := ans) I ha
      (hs a (by simp [Op.reads])) hk
    simp only [exec, unitR_ok h]; exact ⟨I', S'⟩
  | uGet a =>
    have h1 := hs a (by simp [Op.reads])
    simp only [exec, uGet, gGet_eval h1, bind_ok]
    exact ⟨I, same_refl σ⟩
  | uRelease a =>
    obtain ⟨ha, hk⟩ := hd
    obtain ⟨σ', h, I', S', _⟩ := uRelease_inv I ha (hs a (by simp [Op.reads])) hk
    rw [h]; exact ⟨I', S'⟩
  | uSwap a b =>
    obtain ⟨⟨ha, hka⟩, ⟨hb, hkb⟩⟩ := hd
    obtain ⟨σ', h, I', S'⟩ := uSwap_inv I ha hb (hs a (by simp [Op.reads])) (hs b (by simp [Op.reads])) hka hkb
    simp only [exec, unitR_ok h]; exact ⟨I', S'⟩
  | uReset a =>
    obtain ⟨ha, hk⟩ := hd
    obtain ⟨σ', h, I', S', _⟩ := uReset_inv I ha (hs a (by simp [Op.reads])) hk
    simp only [exec, unitR_ok h]; exact ⟨I', S'⟩
  | sInit a =>
    obtain ⟨⟨ha, hk⟩, hnh⟩ := hd
    exact ⟨sInit_inv I ha (Or.inl hk) hnh, ⟨rfl, rfl, rfl⟩⟩
  | sAlloc a sz c ad am =>
    obtain ⟨⟨ha, hk⟩, _⟩ := hd
    obtain ⟨σ', h, I', S', _⟩ := sAlloc_inv (sz := sz) (clr := c) (ad := ad) (am := am) I ha
      (hs a (by simp [Op.reads])) (Or.inl hk)
    simp only [exec, unitR_ok h]; exact ⟨I', S'⟩
  | sUnique a =>
    obtain ⟨ha, hk⟩ := hd
    simp only [exec, sUnique_eval I ha (hs a (by simp [Op.reads])) (Or.inl hk), bind_ok]
    exact ⟨I, same_refl σ⟩
  | sGet a =>
    obtain ⟨ha, hk⟩ := hd
    simp only [exec, sGet_eval I ha (hs a (by simp [Op.reads])) (Or.inl hk), bind_ok]
    exact ⟨I, same_refl σ⟩
  | sShare e n =>
    obtain ⟨⟨he, hke⟩, ⟨hn, hkn⟩⟩ := hd
    obtain ⟨σ', h, I', S', _⟩ := sShare_inv I he hn (hs e (by simp [Op.reads])) (hs n (by simp [Op.reads]))
      (Or.inl hke) (Or.inl hkn)
    simp only [exec, unitR_ok h]; exact ⟨I', S'⟩
  | sSwap a b =>
    obtain ⟨⟨ha, hka⟩, ⟨hb, hkb⟩⟩ := hd
    obtain ⟨σ', h, I', S'⟩ := gSwap_inv I ha hb (hs a (by simp [Op.reads])) (hs b (by simp [Op.reads]))
      (Or.inl ⟨hka, hkb⟩)
    simp only [exec, sSwap, unitR_ok h]; exact ⟨I', S'⟩
  | sReset a =>
    obtain ⟨ha, hk⟩ := hd
    obtain ⟨σ', h, I', S', _⟩ := sReset_inv I ha (hs a (by simp [Op.reads])) (Or.inl hk)
    simp only [exec, unitR_ok h]; exact ⟨I', S'⟩
  | wInit a =>
    obtain ⟨⟨ha, hk⟩, hnh⟩ := hd
    exact ⟨sInit_inv I ha (Or.inr (Or.inl hk)) hnh, ⟨rfl, rfl, rfl⟩⟩
  | wFrom w s =>
    obtain ⟨⟨hw, hkw⟩, ⟨hsn, hks⟩⟩ := hd
    obtain ⟨σ', h, I', S', _⟩ := wFrom_inv I hw hsn (hs w (by simp [Op.reads])) (hs s (by simp [Op.reads]))
      hkw (Or.inl hks)
    simp only [exec, unitR_ok h]; exact ⟨I', S'⟩
  | wLock w s =>
    obtain ⟨⟨hw, hkw⟩, ⟨hsn, hks⟩⟩ := hd
    obtain ⟨σ', σ1, _, h, I', S', _⟩ := wLock_inv I hw hsn (hs w (by simp [Op.reads]))
      (hs s (by simp [Op.reads])) hkw (Or.inl hks)
    simp only [exec, unitR_ok h]; exact ⟨I', S'⟩
  | wSwap a b =>
    obtain ⟨⟨ha, hka⟩, ⟨hb, hkb⟩⟩ := hd
    obtain ⟨σ', h, I', S'⟩ := gSwap_inv I ha hb (hs a (by simp [Op.reads])) (hs b (by simp [Op.reads]))
      (Or.inr (Or.inl ⟨hka, hkb⟩))
    simp only [exec, sSwap, unitR_ok h]; exact ⟨I', S'⟩
  | wReset a =>
    obtain ⟨ha, hk⟩ := hd
    obtain ⟨σ', h, I', S', _⟩ := wReset_inv I ha (hs a (by simp [Op.reads])) hk
    simp only [exec, unitR_ok h]; exact ⟨I', S'⟩
  | aInit a =>
    obtain ⟨⟨ha, hk⟩, hnh⟩ := hd
    have I1 := sInit_inv I ha (Or.inr (Or.inr hk)) hnh
    exact ⟨fields_inv (a := a) 0 0 I1 ha, ⟨rfl, rfl, rfl⟩⟩
  | aSize a => exact ⟨I, same_refl σ⟩
  | aSet a e nm sz ad am =>
    obtain ⟨⟨ha, hk⟩, _⟩ := hd
    obtain ⟨σ', h, I', S', _⟩ := aSet_inv (e := e) (nm := nm) (sz := sz) (ad := ad) (am := am) I ha
      (hs a (by simp [Op.reads])) hk
    simp only [exec, unitR_ok h]; exact ⟨I', S'⟩
  | aRelease a =>
    obtain ⟨ha, hk⟩ := hd
    obtain ⟨l, σ', h, I', S', _⟩ := aRelease_inv I ha (hs a (by simp [Op.reads])) hk
    simp only [exec, h, bind_ok]; exact ⟨I', S'⟩
  | aAlloc a nm sz ad am =>
    obtain ⟨⟨ha, hk⟩, _⟩ := hd
    obtain ⟨σ', h, I', S', _⟩ := aAlloc_inv (nm := nm) (sz := sz) (ad := ad) (am := am) I ha
      (hs a (by simp [Op.reads])) hk
    simp only [exec, unitR_ok h]; exact ⟨I', S'⟩
  | aReset a =>
    obtain ⟨ha, hk⟩ := hd
    obtain ⟨σ', h, I', S', _⟩ := aReset_inv I ha (hs a (by simp [Op.reads])) hk
    simp only [exec, unitR_ok h]; exact ⟨I', S'⟩
  | aData a =>
    obtain ⟨ha, hk⟩ := hd
    simp only [exec, aData_eval I ha (hs a (by simp [Op.reads])) hk, bind_ok]
    exact ⟨I, same_refl σ⟩
  | aAt a i =>
    obtain ⟨⟨ha, hk⟩, _⟩ := hd
    simp only [exec, aAt_eval I ha (hs a (by simp [Op.reads])) hk]
    split
    · exact ⟨trivial, Or.inl rfl, rfl⟩
    · split
      · exact ⟨trivial, Or.inr rfl, rfl⟩
      · exact ⟨I, same_refl σ⟩
  | aSlice a b e s =>
    obtain ⟨⟨ha, hka⟩, ⟨hsn, hks⟩, _⟩ := hd
    obtain ⟨h1, h2⟩ := aSlice_inv (beg := b) (en := e) I ha hsn (hs a (by simp [Op.reads]))
      (hs s (by simp [Op.reads])) hka hks
    by_cases hc : (σ.obj a).ptr = 0 ∨ e < b ∨
        e > ((σ.blk (σ.blk (σ.obj a).ptr).up).anm + W - (σ.obj a).off) % W
    · simp only [exec, unitR, h1 hc, bind_stop]; exact ⟨trivial, Or.inl rfl, rfl⟩
    · obtain ⟨σ', h, I', S', _⟩ := h2 hc
      simp only [exec, unitR_ok h]; exact ⟨I', S'⟩
  | aUnslice s a =>
    obtain ⟨⟨ha, hka⟩, ⟨hsn, hks⟩⟩ := hd
    obtain ⟨h1, h2⟩ := aUnslice_inv I ha hsn (hs a (by simp [Op.reads])) (hs s (by simp [Op.reads])) hka hks
    by_cases hp : (σ.obj s).ptr = 0
    · simp only [exec, unitR, h1 hp, bind_stop]; exact ⟨trivial, Or.inl rfl, rfl⟩
    · obtain ⟨σ', h, I', S', _⟩ := h2 hp
      simp only [exec, unitR_ok h]; exact ⟨I', S'⟩
  | rawCopy dst src =>
    obtain ⟨_, hdn, hk, hnh, hself⟩ := hd
    exact ⟨rawCopy_inv I hdn hk hnh hself, ⟨rfl, rfl, rfl⟩⟩

/-! ### C20: a call through a stray copy -/

/-- what can have happened before the abort of a call through the stray object `x`: nothing; or the
plain `off`/`len` words of `x` itself were overwritten (slice / unslice into a stray target); or a
*different*, properly stamped argument object `y` was reset by the library (share, weak-from,
weak-lock reset their target first) -/
inductive Before (σ : State) (x : Nat) : State → Prop
  | nothing : Before σ x σ
  | fields (off len : Nat) : Before σ x (σ.setObj x { σ.obj x with off := off, len := len })
  | coReset (y : Nat) (σ1 : State) : y ≠ x → stamped σ y →
      (sReset y σ = .ok () σ1 ∨ wReset y σ = .ok () σ1) → Before σ x σ1

theorem unitR_stop {σ' : State} {k : Stop} {r : Res Unit} (h : r = .stop k σ') : unitR r = .stop k σ' := by
  rw [h]; rfl

theorem exec_stray {op : Op} {σ : State} {x : Nat} (I : Inv σ) (hd : op.dom σ) (hx : x ∈ op.reads)
    (hs : ¬ stamped σ x) : ∃ σ', exec op σ = .stop .abort σ' ∧ Before σ x σ' := by
  cases op with
  | gInit a => simp [Op.reads] at hx
  | gSet a p => simp [Op.reads] at hx
  | uInit a => simp [Op.reads] at hx
  | sInit a => simp [Op.reads] at hx
  | wInit a => simp [Op.reads] at hx
  | aInit a => simp [Op.reads] at hx
  | aSize a => simp [Op.reads] at hx
  | rawCopy d s => simp [Op.reads] at hx
  | gGet a =>
    simp [Op.reads] at hx; subst hx
    exact ⟨σ, by simp [exec, gGet_stray hs], .nothing⟩
  | gCopy d s =>
    simp [Op.reads] at hx; subst hx
    exact ⟨σ, by simp only [exec, unitR_stop (gCopy_stray hs)], .nothing⟩
  | gSwap a b =>
    simp [Op.reads] at hx
    have hab : ¬ stamped σ a ∨ ¬ stamped σ b := by
      rcases hx with rfl | rfl
      · exact Or.inl hs
      · exact Or.inr hs
    exact ⟨σ, by simp only [exec, unitR_stop (gSwap_stray hab)], .nothing⟩
  | uAlloc a sz c p ans =>
    simp [Op.reads] at hx; subst hx
    exact ⟨σ, by simp only [exec, unitR_stop (uAlloc_stray hs)], .nothing⟩
  | uGet a =>
    simp [Op.reads] at hx; subst hx
    exact ⟨σ, by simp [exec, uGet_stray hs], .nothing⟩
  | uRelease a =>
    simp [Op.reads] at hx; subst hx
    exact ⟨σ, by simp [exec, uRelease_stray hs], .nothing⟩
  | uSwap a b =>
    simp [Op.reads] at hx
    have hab : ¬ stamped σ a ∨ ¬ stamped σ b := by
      rcases hx with rfl | rfl
      · exact Or.inl hs
      · exact Or.inr hs
    exact ⟨σ, by simp only [exec, unitR_stop (uSwap_stray hab)], .nothing⟩
  | uReset a =>
    simp [Op.reads] at hx; subst hx
    exact ⟨σ, by simp only [exec, unitR_stop (uReset_stray hs)], .nothing⟩
  | sAlloc a sz c ad am =>
    simp [Op.reads] at hx; subst hx
    exact ⟨σ, by simp only [exec, unitR_stop (sAlloc_stray hs)], .nothing⟩
  | sUnique a =>
    simp [Op.reads] at hx; subst hx
    exact ⟨σ, by simp [exec, sUnique_stray hs], .nothing⟩
  | sGet a =>
    simp [Op.reads] at hx; subst hx
    exact ⟨σ, by simp [exec, sGet_stray hs], .nothing⟩
  | sReset a =>
    simp [Op.reads] at hx; subst hx
    exact ⟨σ, by simp only [exec, unitR_stop (sReset_stray hs)], .nothing⟩
  | wReset a =>
    simp [Op.reads] at hx; subst hx
    exact ⟨σ, by simp only [exec, unitR_stop (wReset_stray hs)], .nothing⟩
  | sSwap a b =>
    simp [Op.reads] at hx
    have hab : ¬ stamped σ a ∨ ¬ stamped σ b := by
      rcases hx with rfl | rfl
      · exact Or.inl hs
      · exact Or.inr hs
    exact ⟨σ, by simp only [exec, sSwap, unitR_stop (gSwap_stray hab)], .nothing⟩
  | wSwap a b =>
    simp [Op.reads] at hx
    have hab : ¬ stamped σ a ∨ ¬ stamped σ b := by
      rcases hx with rfl | rfl
      · exact Or.inl hs
      · exact Or.inr hs
    exact ⟨σ, by simp only [exec, sSwap, unitR_stop (gSwap_stray hab)], .nothing⟩
  | sShare e n =>
    obtain ⟨⟨he, hke⟩, ⟨hn, hkn⟩⟩ := hd
    by_cases hsn : stamped σ n
    · have hxe : x = e := by
        simp [Op.reads] at hx; rcases hx with h | h
        · exact h
        · subst h; exact absurd hsn hs
      subst hxe
      obtain ⟨σ1, h1, h2⟩ := sShare_stray_e I hn hsn (Or.inl hkn) hs
      exact ⟨σ1, by simp only [exec, unitR_stop h2], .coReset n σ1 (by rintro rfl; exact hs hsn) hsn (Or.inl h1)⟩
    · exact ⟨σ, by simp only [exec, unitR_stop (sShare_stray_n hsn)], .nothing⟩
  | wFrom w s =>
    obtain ⟨⟨hw, hkw⟩, ⟨hsn, hks⟩⟩ := hd
    by_cases hsw : stamped σ w
    · have hxs : x = s := by
        simp [Op.reads] at hx; rcases hx with h | h
        · subst h; exact absurd hsw hs
        · exact h
      subst hxs
      obtain ⟨σ1, h1, h2⟩ := wFrom_stray_s I hw hsw hkw hs
      exact ⟨σ1, by simp only [exec, unitR_stop h2], .coReset w σ1 (by rintro rfl; exact hs hsw) hsw (Or.inr h1)⟩
    · exact ⟨σ, by simp only [exec, unitR_stop (wFrom_stray_w hsw)], .nothing⟩
  | wLock w s =>
    obtain ⟨⟨hw, hkw⟩, ⟨hsn, hks⟩⟩ := hd
    by_cases hss : stamped σ s
    · have hxw : x = w := by
        simp [Op.reads] at hx; rcases hx with h | h
        · exact h
        · subst h; exact absurd hss hs
      subst hxw
      obtain ⟨σ1, h1, h2⟩ := wLock_stray_w I hsn hss (Or.inl hks) hs
      exact ⟨σ1, by simp only [exec, unitR_stop h2], .coReset s σ1 (by rintro rfl; exact hs hss) hss (Or.inl h1)⟩
    · exact ⟨σ, by simp only [exec, unitR_stop (wLock_stray_s hss)], .nothing⟩
  | aSet a e nm sz ad am =>
    simp [Op.reads] at hx; subst hx
    exact ⟨σ, by simp only [exec, unitR_stop (aSet_stray hs)], .nothing⟩
  | aRelease a =>
    simp [Op.reads] at hx; subst hx
    exact ⟨σ, by simp [exec, aRelease_stray hs], .nothing⟩
  | aAlloc a nm sz ad am =>
    simp [Op.reads] at hx; subst hx
    exact ⟨σ, by simp only [exec, unitR_stop (aAlloc_stray hs)], .nothing⟩
  | aReset a =>
    simp [Op.reads] at hx; subst hx
    exact ⟨σ, by simp only [exec, unitR_stop (aReset_stray hs)], .nothing⟩
  | aData a =>
    simp [Op.reads] at hx; subst hx
    exact ⟨σ, by simp [exec, aData_stray hs], .nothing⟩
  | aAt a i =>
    simp [Op.reads] at hx; subst hx
    exact ⟨σ, by simp [exec, aAt_stray hs], .nothing⟩
  | aSlice a b e s =>
    obtain ⟨⟨ha, hka⟩, ⟨hsn, hks⟩, _⟩ := hd
    by_cases hsa : stamped σ a
    · have hxs : x = s := by
        simp [Op.reads] at hx; rcases hx with h | h
        · subst h; exact absurd hsa hs
        · exact h
      subst hxs
      rcases aSlice_stray_s (b := b) (e := e) I ha hsa hka hs with h | h
      · exact ⟨σ, by simp only [exec, unitR_stop h], .nothing⟩
      · refine ⟨_, ?_, Before.fields (((σ.obj a).off + b) % W) (e - b)⟩
        simp only [exec, unitR_stop h]
    · exact ⟨σ, by simp only [exec, unitR_stop (aSlice_stray_a hsa)], .nothing⟩
  | aUnslice s a =>
    obtain ⟨⟨ha, hka⟩, ⟨hsn, hks⟩⟩ := hd
    by_cases hss : stamped σ s
    · have hxa : x = a := by
        simp [Op.reads] at hx; rcases hx with h | h
        · subst h; exact absurd hss hs
        · exact h
      subst hxa
      rcases aUnslice_stray_a I hsn hss hks hs with h | h
      · exact ⟨σ, by simp only [exec, unitR_stop h], .nothing⟩
      · refine ⟨_, ?_, Before.fields 0 (σ.blk (σ.blk (σ.obj s).ptr).up).anm⟩
        simp only [exec, unitR_stop h]
    · exact ⟨σ, by simp only [exec, unitR_stop (aUnslice_stray_s hss)], .nothing⟩

/-! ### whole operations and programs -/

/-- a successful operation keeps the invariant, whatever stray copies lie around -/
theorem exec_inv {op : Op} {σ σ' : State} {v : Val} (I : Inv σ) (hd : op.dom σ)
    (h : exec op σ = .ok v σ') : Inv σ' ∧ Same σ σ' := by
  by_cases hs : ∀ x, x ∈ op.reads → stamped σ x
  · have := exec_stamped I hd hs
    rw [h] at this; exact this
  · have : ∃ x, x ∈ op.reads ∧ ¬ stamped σ x := by
      apply Classical.byContradiction
      intro hn; apply hs; intro x hx
      apply Classical.byContradiction
      intro hns; exact hn ⟨x, hx, hns⟩
    obtain ⟨x, hx, hns⟩ := this
    obtain ⟨σ1, h1, _⟩ := exec_stray I hd hx hns
    rw [h] at h1; cases h1

theorem step_inv {op : Op} {σ σ' : State} {v : Val} (I : Inv σ) (h : step op σ = .ok v σ') :
    Inv σ' ∧ Same σ σ' := by
  unfold step at h
  by_cases hd : op.dom σ
  · simp only [hd, if_true] at h; exact exec_inv I hd h
  · simp [hd] at h

/-- the invariant holds after every program (history) that ran to completion -/
theorem run_inv {ops : List Op} {σ σ' : State} {vs : List Val} (I : Inv σ)
    (h : run ops σ = .ok vs σ') : Inv σ' ∧ Same σ σ' := by
  induction ops generalizing σ vs with
  | nil => simp [run] at h; obtain ⟨_, rfl⟩ := h; exact ⟨I, same_refl σ⟩
  | cons op ops ih =>
    simp only [run] at h
    obtain ⟨v, σ1, h1, h2⟩ := bind_eq_ok h
    obtain ⟨I1, S1⟩ := step_inv I h1
    obtain ⟨vs', σ2, h3, h4⟩ := bind_eq_ok h2
    simp at h4; obtain ⟨_, rfl⟩ := h4
    obtain ⟨I2, S2⟩ := ih I1 h3
    exact ⟨I2, same_trans S1 S2⟩

/-- no operation ever touches freed memory or frees twice -/
theorem step_never_asan {op : Op} {σ σ' : State} (I : Inv σ) : step op σ ≠ .stop .asan σ' := by
  unfold step
  by_cases hd : op.dom σ
  · simp only [hd, if_true]
    by_cases hs : ∀ x, x ∈ op.reads → stamped σ x
    · have := exec_stamped I hd hs
      intro h; rw [h] at this
      obtain ⟨_, hk, _⟩ := this
      rcases hk with hk | hk <;> cases hk
    · have : ∃ x, x ∈ op.reads ∧ ¬ stamped σ x := by
        apply Classical.byContradiction
        intro hn; apply hs; intro x hx
        apply Classical.byContradiction
        intro hns; exact hn ⟨x, hx, hns⟩
      obtain ⟨x, hx, hns⟩ := this
      obtain ⟨σ1, h1, _⟩ := exec_stray I hd hx hns
      rw [h1]; intro h; cases h
  · simp [hd]

end Cstl.Mem
