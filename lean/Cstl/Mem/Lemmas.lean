import Cstl.Mem.Model
/-
Helper lemmas for the mem area: projections of the state updates, the result
monad, counting references, and the primitive-step decomposition of every model
function (`Steps`), from which the frame facts (ghosts never change, block ids
only grow, the log only grows, self stamps are only ever set to the object's
own address, a block is live iff it was allocated and not yet freed) follow for
all operations at once.
-/
namespace Cstl.Mem

/-! ### state updates -/

@[simp] theorem setObj_obj (σ : State) (a x : Nat) (o : Obj) :
    (σ.setObj a o).obj x = if x = a then o else σ.obj x := rfl
@[simp] theorem setObj_blk (σ : State) (a : Nat) (o : Obj) : (σ.setObj a o).blk = σ.blk := rfl
@[simp] theorem setObj_n (σ : State) (a : Nat) (o : Obj) : (σ.setObj a o).n = σ.n := rfl
@[simp] theorem setObj_kind (σ : State) (a : Nat) (o : Obj) : (σ.setObj a o).kind = σ.kind := rfl
@[simp] theorem setObj_next (σ : State) (a : Nat) (o : Obj) : (σ.setObj a o).next = σ.next := rfl
@[simp] theorem setObj_log (σ : State) (a : Nat) (o : Obj) : (σ.setObj a o).log = σ.log := rfl
@[simp] theorem setObj_ext (σ : State) (a : Nat) (o : Obj) : (σ.setObj a o).extSize = σ.extSize := rfl

@[simp] theorem setBlk_blk (σ : State) (b x : Nat) (k : Blk) :
    (σ.setBlk b k).blk x = if x = b then k else σ.blk x := rfl
@[simp] theorem setBlk_obj (σ : State) (b : Nat) (k : Blk) : (σ.setBlk b k).obj = σ.obj := rfl
@[simp] theorem setBlk_n (σ : State) (b : Nat) (k : Blk) : (σ.setBlk b k).n = σ.n := rfl
@[simp] theorem setBlk_kind (σ : State) (b : Nat) (k : Blk) : (σ.setBlk b k).kind = σ.kind := rfl
@[simp] theorem setBlk_next (σ : State) (b : Nat) (k : Blk) : (σ.setBlk b k).next = σ.next := rfl
@[simp] theorem setBlk_log (σ : State) (b : Nat) (k : Blk) : (σ.setBlk b k).log = σ.log := rfl
@[simp] theorem setBlk_ext (σ : State) (b : Nat) (k : Blk) : (σ.setBlk b k).extSize = σ.extSize := rfl

@[simp] theorem emit_obj (σ : State) (e : Ev) : (σ.emit e).obj = σ.obj := rfl
@[simp] theorem emit_blk (σ : State) (e : Ev) : (σ.emit e).blk = σ.blk := rfl
@[simp] theorem emit_n (σ : State) (e : Ev) : (σ.emit e).n = σ.n := rfl
@[simp] theorem emit_kind (σ : State) (e : Ev) : (σ.emit e).kind = σ.kind := rfl
@[simp] theorem emit_next (σ : State) (e : Ev) : (σ.emit e).next = σ.next := rfl
@[simp] theorem emit_log (σ : State) (e : Ev) : (σ.emit e).log = σ.log ++ [e] := rfl
@[simp] theorem emit_ext (σ : State) (e : Ev) : (σ.emit e).extSize = σ.extSize := rfl

@[simp] theorem gSet_obj (σ : State) (a p x : Nat) :
    (gSet a p σ).obj x = if x = a then { σ.obj a with self := a, ptr := p } else σ.obj x := rfl
@[simp] theorem gSet_blk (σ : State) (a p : Nat) : (gSet a p σ).blk = σ.blk := rfl
@[simp] theorem gSet_n (σ : State) (a p : Nat) : (gSet a p σ).n = σ.n := rfl
@[simp] theorem gSet_kind (σ : State) (a p : Nat) : (gSet a p σ).kind = σ.kind := rfl
@[simp] theorem gSet_next (σ : State) (a p : Nat) : (gSet a p σ).next = σ.next := rfl
@[simp] theorem gSet_log (σ : State) (a p : Nat) : (gSet a p σ).log = σ.log := rfl
@[simp] theorem gSet_ext (σ : State) (a p : Nat) : (gSet a p σ).extSize = σ.extSize := rfl

/-! ### the result monad -/

@[simp] theorem bind_ok {α β : Type} (v : α) (σ : State) (f : α → State → Res β) :
    (Res.ok v σ >>- f) = f v σ := rfl
@[simp] theorem bind_stop {α β : Type} (k : Stop) (σ : State) (f : α → State → Res β) :
    ((Res.stop k σ : Res α) >>- f) = .stop k σ := rfl

/-- the state a result carries -/
def Res.st {α : Type} : Res α → State
  | .ok _ σ => σ
  | .stop _ σ => σ

@[simp] theorem st_ok {α : Type} (v : α) (σ : State) : (Res.ok v σ).st = σ := rfl
@[simp] theorem st_stop {α : Type} (k : Stop) (σ : State) : (Res.stop k σ : Res α).st = σ := rfl

theorem bind_eq_ok {α β : Type} {r : Res α} {f : α → State → Res β} {w : β} {σ' : State}
    (h : (r >>- f) = .ok w σ') : ∃ v σ1, r = .ok v σ1 ∧ f v σ1 = .ok w σ' := by
  cases r with
  | ok v σ1 => exact ⟨v, σ1, rfl, h⟩
  | stop k σ1 => simp at h

/-! ### counting the objects `< n` that satisfy a predicate -/

def cnt (p : Nat → Prop) [DecidablePred p] : Nat → Nat
  | 0 => 0
  | n + 1 => cnt p n + (if p n then 1 else 0)

theorem cnt_congr {p q : Nat → Prop} [DecidablePred p] [DecidablePred q] {n : Nat}
    (h : ∀ x, x < n → (p x ↔ q x)) : cnt p n = cnt q n := by
  induction n with
  | zero => rfl
  | succ n ih =>
    have h1 := ih (fun x hx => h x (Nat.lt_succ_of_lt hx))
    have h2 := h n (Nat.lt_succ_self n)
    simp only [cnt, h1]
    by_cases hp : p n
    · simp [hp, h2.mp hp]
    · have : ¬ q n := fun hq => hp (h2.mpr hq)
      simp [hp, this]

/-- two predicates that differ at most at `a` -/
theorem cnt_change {p q : Nat → Prop} [DecidablePred p] [DecidablePred q] {n a : Nat}
    (ha : a < n) (h : ∀ x, x < n → x ≠ a → (p x ↔ q x)) :
    cnt q n + (if p a then 1 else 0) = cnt p n + (if q a then 1 else 0) := by
  induction n with
  | zero => omega
  | succ n ih =>
    by_cases han : a = n
    · subst han
      have h1 : cnt p a = cnt q a :=
        cnt_congr (fun x hx => h x (Nat.lt_succ_of_lt hx) (Nat.ne_of_lt hx))
      simp only [cnt, h1]
      omega
    · have ha' : a < n := by omega
      have h1 := ih ha' (fun x hx hxa => h x (Nat.lt_succ_of_lt hx) hxa)
      have h2 := h n (Nat.lt_succ_self n) (fun e => han e.symm)
      simp only [cnt]
      by_cases hp : p n
      · have hq : q n := h2.mp hp
        simp only [hp, hq, if_true]; omega
      · have hq : ¬ q n := fun hq => hp (h2.mpr hq)
        simp only [hp, hq, if_false]; omega

/-- two predicates that differ at most at `a` and `b` -/
theorem cnt_change2 {p q : Nat → Prop} [DecidablePred p] [DecidablePred q] {n a b : Nat}
    (ha : a < n) (hb : b < n) (hab : a ≠ b)
    (h : ∀ x, x < n → x ≠ a → x ≠ b → (p x ↔ q x)) :
    cnt q n + (if p a then 1 else 0) + (if p b then 1 else 0)
      = cnt p n + (if q a then 1 else 0) + (if q b then 1 else 0) := by
  -- go through the predicate that agrees with q at a and with p elsewhere
  let r : Nat → Prop := fun x => if x = a then q x else p x
  have : DecidablePred r := fun x => by
    by_cases hx : x = a
    · simp only [r, hx, if_true]; exact inferInstance
    · simp only [r, hx, if_false]; exact inferInstance
  have h1 := cnt_change (p := p) (q := r) ha (fun x _ hxa => by simp [r, hxa])
  have h2 := cnt_change (p := r) (q := q) hb (fun x hx hxb => by
    by_cases hxa : x = a
    · simp [r, hxa]
    · simp only [r, hxa, if_false]; exact h x hx hxa hxb)
  have hra : r a ↔ q a := by simp [r]
  have hba : b ≠ a := fun e => hab e.symm
  have hrb : r b ↔ p b := by simp [r, hba]
  simp only [hra] at h1
  simp only [hrb] at h2
  omega

theorem cnt_pos {p : Nat → Prop} [DecidablePred p] {n : Nat} :
    0 < cnt p n ↔ ∃ x, x < n ∧ p x := by
  induction n with
  | zero => simp [cnt]
  | succ n ih =>
    simp only [cnt]
    constructor
    · intro h
      by_cases hp : p n
      · exact ⟨n, Nat.lt_succ_self n, hp⟩
      · simp only [hp, if_false, Nat.add_zero] at h
        obtain ⟨x, hx, hpx⟩ := ih.mp h
        exact ⟨x, Nat.lt_succ_of_lt hx, hpx⟩
    · rintro ⟨x, hx, hpx⟩
      by_cases hxn : x = n
      · subst hxn; simp [hpx]
      · have : 0 < cnt p n := ih.mpr ⟨x, by omega, hpx⟩
        omega

theorem cnt_zero {p : Nat → Prop} [DecidablePred p] {n : Nat} :
    cnt p n = 0 ↔ ∀ x, x < n → ¬ p x := by
  have h := cnt_pos (p := p) (n := n)
  constructor
  · intro h0 x hx hp
    have : 0 < cnt p n := h.mpr ⟨x, hx, hp⟩
    omega
  · intro hall
    cases hc : cnt p n with
    | zero => rfl
    | succ k =>
      obtain ⟨x, hx, hp⟩ := h.mp (by omega)
      exact absurd hp (hall x hx)

/-- at least two witnesses -/
theorem cnt_two {p : Nat → Prop} [DecidablePred p] {n a b : Nat}
    (ha : a < n) (hb : b < n) (hab : a ≠ b) (pa : p a) (pb : p b) : 2 ≤ cnt p n := by
  let q : Nat → Prop := fun x => x ≠ a ∧ p x
  have : DecidablePred q := fun x => by simp only [q]; exact inferInstance
  have h1 := cnt_change (p := p) (q := q) ha (fun x _ hxa => by simp [q, hxa])
  have hqa : ¬ q a := by simp [q]
  have hqb : 0 < cnt q n := cnt_pos.mpr ⟨b, hb, fun e => hab e.symm, pb⟩
  simp only [pa, hqa, if_true, if_false] at h1
  omega

/-- exactly one witness -/
theorem cnt_one_unique {p : Nat → Prop} [DecidablePred p] {n a b : Nat}
    (h : cnt p n = 1) (ha : a < n) (hb : b < n) (pa : p a) (pb : p b) : a = b := by
  by_cases hab : a = b
  · exact hab
  · have := cnt_two ha hb hab pa pb
    omega

/-! ### every model function is a sequence of primitive steps -/

/-- what never changes once a block is allocated, plus `live` and the descriptor words -/
def Blk.same (k k' : Blk) : Prop :=
  k'.live = k.live ∧ k'.size = k.size ∧ k'.isData = k.isData ∧ k'.ownerD = k.ownerD ∧
  k'.clrG = k.clrG ∧ k'.privG = k.privG ∧ k'.asz = k.asz ∧ k'.anm = k.anm ∧ k'.abuf = k.abuf

theorem Blk.same_refl (k : Blk) : Blk.same k k := ⟨rfl, rfl, rfl, rfl, rfl, rfl, rfl, rfl, rfl⟩

/-- primitive steps; `A` = the objects that may be written, `D` = the descriptor words of a block may
be written -/
inductive Prim (A : Nat → Prop) (D : Bool) : State → State → Prop
  | obj (σ : State) (a : Nat) (o : Obj) (hA : A a) (h : o.self = (σ.obj a).self ∨ o.self = a) :
      Prim A D σ (σ.setObj a o)
  | blk (σ : State) (b : Nat) (k : Blk) (h : Blk.same (σ.blk b) k) : Prim A D σ (σ.setBlk b k)
  | desc (σ : State) (b asz anm abuf : Nat) (hD : D = true) :
      Prim A D σ (σ.setBlk b { σ.blk b with asz := asz, anm := anm, abuf := abuf })
  | free (σ : State) (p : Nat) (h : (σ.blk p).live = true) :
      Prim A D σ ((σ.setBlk p { σ.blk p with live := false }).emit (.free p))
  | clr (σ : State) (f p pr : Nat) : Prim A D σ (σ.emit (.clr f p pr))
  | alloc (σ : State) (sz : Nat) (g : Blk) :
      Prim A D σ { (σ.setBlk σ.next { g with live := true, size := sz }).emit (.alloc σ.next sz) with
               next := σ.next + 1 }
  | allocFail (σ : State) (sz : Nat) : Prim A D σ (σ.emit (.allocFail sz))

inductive Steps (A : Nat → Prop) (D : Bool) : State → State → Prop
  | refl (σ : State) : Steps A D σ σ
  | tail {σ σ1 σ2 : State} : Steps A D σ σ1 → Prim A D σ1 σ2 → Steps A D σ σ2

section
variable {A : Nat → Prop} {D : Bool}

theorem Steps.trans {σ σ1 σ2 : State} (h1 : Steps A D σ σ1) (h2 : Steps A D σ1 σ2) : Steps A D σ σ2 := by
  induction h2 with
  | refl => exact h1
  | tail _ p ih => exact Steps.tail ih p

/-! outside-in form: `Steps σ0 σ → Steps σ0 (f σ)` -/

theorem steps_bind' {α β : Type} {σ0 : State} {r : Res α} {f : α → State → Res β}
    (h1 : Steps A D σ0 r.st) (h2 : ∀ v σ1, Steps A D σ0 σ1 → Steps A D σ0 (f v σ1).st) :
    Steps A D σ0 (r >>- f).st := by
  cases r with
  | ok v σ1 => exact h2 v σ1 h1
  | stop k σ1 => exact h1

theorem steps_gSet {σ0 σ : State} (a p : Nat) (hA : A a) (h : Steps A D σ0 σ) : Steps A D σ0 (gSet a p σ) :=
  Steps.tail h (Prim.obj σ a _ hA (Or.inr rfl))

theorem steps_fields {σ0 σ : State} (a : Nat) (o : Obj) (hA : A a) (ho : o.self = (σ.obj a).self)
    (h : Steps A D σ0 σ) : Steps A D σ0 (σ.setObj a o) := Steps.tail h (Prim.obj σ a o hA (Or.inl ho))

theorem steps_setBlk {σ0 σ : State} (b : Nat) (k : Blk) (hk : Blk.same (σ.blk b) k)
    (h : Steps A D σ0 σ) : Steps A D σ0 (σ.setBlk b k) := Steps.tail h (Prim.blk σ b k hk)

theorem steps_gGet {σ0 σ : State} (a : Nat) (h : Steps A D σ0 σ) : Steps A D σ0 (gGet a σ).st := by
  unfold gGet; split <;> exact h

theorem steps_malloc {σ0 σ : State} (sz : Nat) (ans : Bool) (g : Blk) (h : Steps A D σ0 σ) :
    Steps A D σ0 (malloc sz ans g σ).2 := by
  unfold malloc; split
  · exact Steps.tail h (Prim.alloc σ sz g)
  · exact Steps.tail h (Prim.allocFail σ sz)

theorem steps_free {σ0 σ : State} (p : Nat) (h : Steps A D σ0 σ) : Steps A D σ0 (free p σ).st := by
  unfold free; split
  · exact h
  · split
    · rename_i hl; exact Steps.tail h (Prim.free σ p hl)
    · exact h

theorem steps_dispose {σ0 σ : State} (p c pr : Nat) (h : Steps A D σ0 σ) :
    Steps A D σ0 (dispose p c pr σ).st := by
  unfold dispose; split
  · exact steps_free _ (Steps.tail h (Prim.clr σ c p pr))
  · exact steps_free _ h

theorem steps_uInit {σ0 σ : State} (a : Nat) (hA : A a) (h : Steps A D σ0 σ) : Steps A D σ0 (uInit a σ) := by
  unfold uInit
  exact steps_fields _ _ hA rfl (steps_gSet a 0 hA h)

theorem steps_gCopy {σ0 σ : State} (d s : Nat) (hA : A d) (h : Steps A D σ0 σ) :
    Steps A D σ0 (gCopy d s σ).st := by
  unfold gCopy
  exact steps_bind' (steps_gGet _ h) (fun _ _ h1 => steps_gSet _ _ hA h1)

theorem steps_gSwap {σ0 σ : State} (a b : Nat) (hA : A a) (hB : A b) (h : Steps A D σ0 σ) :
    Steps A D σ0 (gSwap a b σ).st := by
  unfold gSwap
  exact steps_bind' (steps_gGet _ h) (fun _ _ h1 => steps_bind' (steps_gGet _ h1)
    (fun _ _ h2 => steps_gSet _ _ hB (steps_gSet _ _ hA h2)))

theorem steps_uReset {σ0 σ : State} (a : Nat) (hA : A a) (h : Steps A D σ0 σ) :
    Steps A D σ0 (uReset a σ).st := by
  unfold uReset
  exact steps_bind' (steps_gGet _ h) (fun _ _ h1 => steps_bind' (steps_dispose _ _ _ h1)
    (fun _ _ h2 => steps_uInit _ hA h2))

theorem steps_uAlloc {σ0 σ : State} (a sz c pr : Nat) (ans : Bool) (hA : A a) (h : Steps A D σ0 σ) :
    Steps A D σ0 (uAlloc a sz c pr ans σ).st := by
  unfold uAlloc
  refine steps_bind' (steps_uReset _ hA h) (fun _ σ1 h1 => ?_)
  dsimp only
  split
  · split
    · exact steps_fields _ _ hA rfl (steps_gSet _ _ hA (steps_malloc _ _ _ h1))
    · exact steps_malloc _ _ _ h1
  · exact h1

theorem steps_uRelease {σ0 σ : State} (a : Nat) (hA : A a) (h : Steps A D σ0 σ) :
    Steps A D σ0 (uRelease a σ).st := by
  unfold uRelease
  exact steps_bind' (steps_gGet _ h) (fun _ _ h1 => steps_uInit _ hA h1)

theorem steps_uSwap {σ0 σ : State} (a b : Nat) (hA : A a) (hB : A b) (h : Steps A D σ0 σ) :
    Steps A D σ0 (uSwap a b σ).st := by
  unfold uSwap
  refine steps_bind' (steps_gSwap _ _ hA hB h) (fun _ σ1 h1 => ?_)
  dsimp only
  exact steps_fields _ _ hB rfl (steps_fields _ _ hA rfl h1)

theorem steps_upGet {σ0 σ : State} (d : Nat) (h : Steps A D σ0 σ) : Steps A D σ0 (upGet d σ).st := by
  unfold upGet; split
  · split <;> exact h
  · exact h

theorem steps_upInit {σ0 σ : State} (d : Nat) (h : Steps A D σ0 σ) : Steps A D σ0 (upInit d σ) :=
  steps_setBlk _ _ ⟨rfl, rfl, rfl, rfl, rfl, rfl, rfl, rfl, rfl⟩ h

theorem steps_upReset {σ0 σ : State} (d : Nat) (h : Steps A D σ0 σ) : Steps A D σ0 (upReset d σ).st := by
  unfold upReset
  exact steps_bind' (steps_upGet _ h) (fun _ _ h1 => steps_bind' (steps_dispose _ _ _ h1)
    (fun _ _ h2 => steps_upInit _ h2))

theorem steps_upAlloc {σ0 σ : State} (d sz c : Nat) (ans : Bool) (h : Steps A D σ0 σ) :
    Steps A D σ0 (upAlloc d sz c ans σ).st := by
  unfold upAlloc
  refine steps_bind' (steps_upReset _ h) (fun _ σ1 h1 => ?_)
  dsimp only
  split
  · split
    · exact steps_setBlk _ _ ⟨rfl, rfl, rfl, rfl, rfl, rfl, rfl, rfl, rfl⟩ (steps_malloc _ _ _ h1)
    · exact steps_malloc _ _ _ h1
  · exact h1

theorem steps_wReset {σ0 σ : State} (a : Nat) (hA : A a) (h : Steps A D σ0 σ) :
    Steps A D σ0 (wReset a σ).st := by
  unfold wReset
  refine steps_bind' (steps_gGet _ h) (fun d σ1 h1 => ?_)
  dsimp only
  split
  · split
    · split
      · exact steps_free _ (steps_setBlk _ _ ⟨rfl, rfl, rfl, rfl, rfl, rfl, rfl, rfl, rfl⟩ (steps_gSet _ _ hA h1))
      · exact steps_setBlk _ _ ⟨rfl, rfl, rfl, rfl, rfl, rfl, rfl, rfl, rfl⟩ (steps_gSet _ _ hA h1)
    · exact steps_gSet _ _ hA h1
  · exact h1

theorem steps_sReset {σ0 σ : State} (a : Nat) (hA : A a) (h : Steps A D σ0 σ) :
    Steps A D σ0 (sReset a σ).st := by
  unfold sReset
  refine steps_bind' (steps_gGet _ h) (fun d σ1 h1 => ?_)
  dsimp only
  split
  · split
    · refine steps_bind' ?_ (fun _ _ h2 => steps_wReset _ hA h2)
      split
      · exact steps_upReset _ (steps_setBlk _ _ ⟨rfl, rfl, rfl, rfl, rfl, rfl, rfl, rfl, rfl⟩ h1)
      · exact steps_setBlk _ _ ⟨rfl, rfl, rfl, rfl, rfl, rfl, rfl, rfl, rfl⟩ h1
    · exact h1
  · exact h1

theorem steps_sAlloc {σ0 σ : State} (a sz c : Nat) (ad am : Bool) (hA : A a) (h : Steps A D σ0 σ) :
    Steps A D σ0 (sAlloc a sz c ad am σ).st := by
  unfold sAlloc
  refine steps_bind' (steps_sReset _ hA h) (fun _ σ1 h1 => ?_)
  dsimp only
  split
  · split
    · refine steps_bind' (steps_upAlloc _ _ _ _ (steps_upInit _
        (steps_setBlk _ _ ⟨rfl, rfl, rfl, rfl, rfl, rfl, rfl, rfl, rfl⟩ (steps_malloc _ _ _ h1))))
        (fun _ _ h2 => steps_bind' (steps_upGet _ h2) (fun m σ3 h3 => ?_))
      split
      · exact steps_gSet _ _ hA h3
      · exact steps_free _ h3
    · exact steps_malloc _ _ _ h1
  · exact h1

theorem steps_sUnique {σ0 σ : State} (a : Nat) (h : Steps A D σ0 σ) : Steps A D σ0 (sUnique a σ).st := by
  unfold sUnique
  refine steps_bind' (steps_gGet _ h) (fun d σ1 h1 => ?_)
  split
  · split <;> exact h1
  · exact h1

theorem steps_sGet {σ0 σ : State} (a : Nat) (h : Steps A D σ0 σ) : Steps A D σ0 (sGet a σ).st := by
  unfold sGet
  refine steps_bind' (steps_gGet _ h) (fun d σ1 h1 => ?_)
  split
  · exact steps_upGet _ h1
  · exact h1

theorem steps_sShare {σ0 σ : State} (e n : Nat) (hA : A n) (h : Steps A D σ0 σ) :
    Steps A D σ0 (sShare e n σ).st := by
  unfold sShare
  refine steps_bind' (steps_sReset _ hA h) (fun _ _ h1 => steps_bind' (steps_gCopy _ _ hA h1)
    (fun _ _ h2 => steps_bind' (steps_gGet _ h2) (fun d σ1 h3 => ?_)))
  dsimp only
  split
  · split
    · exact steps_setBlk _ _ ⟨rfl, rfl, rfl, rfl, rfl, rfl, rfl, rfl, rfl⟩ (steps_setBlk _ _ ⟨rfl, rfl, rfl, rfl, rfl, rfl, rfl, rfl, rfl⟩ h3)
    · exact h3
  · exact h3

theorem steps_wFrom {σ0 σ : State} (w s : Nat) (hA : A w) (h : Steps A D σ0 σ) :
    Steps A D σ0 (wFrom w s σ).st := by
  unfold wFrom
  refine steps_bind' (steps_wReset _ hA h) (fun _ _ h1 => steps_bind' (steps_gCopy _ _ hA h1)
    (fun _ _ h2 => steps_bind' (steps_gGet _ h2) (fun d σ1 h3 => ?_)))
  split
  · split
    · exact steps_setBlk _ _ ⟨rfl, rfl, rfl, rfl, rfl, rfl, rfl, rfl, rfl⟩ h3
    · exact h3
  · exact h3

theorem steps_wLock {σ0 σ : State} (w s : Nat) (hA : A s) (h : Steps A D σ0 σ) :
    Steps A D σ0 (wLock w s σ).st := by
  unfold wLock
  refine steps_bind' (steps_sReset _ hA h) (fun _ _ h1 => steps_bind' (steps_gCopy _ _ hA h1)
    (fun _ _ h2 => steps_bind' (steps_gGet _ h2) (fun d σ1 h3 => ?_)))
  dsimp only
  split
  · split
    · split
      · exact steps_setBlk _ _ ⟨rfl, rfl, rfl, rfl, rfl, rfl, rfl, rfl, rfl⟩ (steps_setBlk _ _ ⟨rfl, rfl, rfl, rfl, rfl, rfl, rfl, rfl, rfl⟩ h3)
      · exact steps_gSet _ _ hA (steps_setBlk _ _ ⟨rfl, rfl, rfl, rfl, rfl, rfl, rfl, rfl, rfl⟩ (steps_setBlk _ _ ⟨rfl, rfl, rfl, rfl, rfl, rfl, rfl, rfl, rfl⟩ h3))
    · exact h3
  · exact h3

theorem steps_aInit {σ0 σ : State} (a : Nat) (hA : A a) (h : Steps A D σ0 σ) : Steps A D σ0 (aInit a σ) := by
  unfold aInit sInit
  exact steps_fields _ _ hA rfl (steps_gSet _ _ hA h)

theorem steps_aReset {σ0 σ : State} (a : Nat) (hA : A a) (h : Steps A D σ0 σ) :
    Steps A D σ0 (aReset a σ).st := by
  unfold aReset
  exact steps_bind' (steps_sReset _ hA h) (fun _ _ h1 => steps_fields _ _ hA rfl h1)

theorem steps_descWrite {σ0 σ : State} (b asz anm abuf : Nat) (hD : D = true) (h : Steps A D σ0 σ) :
    Steps A D σ0 (σ.setBlk b { σ.blk b with asz := asz, anm := anm, abuf := abuf }) :=
  Steps.tail h (Prim.desc σ b asz anm abuf hD)

theorem steps_aAlloc {σ0 σ : State} (a nm sz : Nat) (ad am : Bool) (hA : A a) (hD : D = true)
    (h : Steps A D σ0 σ) : Steps A D σ0 (aAlloc a nm sz ad am σ).st := by
  unfold aAlloc
  refine steps_bind' (steps_aReset _ hA h) (fun _ σ1 h1 => steps_bind' ?_ (fun _ _ h2 =>
    steps_bind' (steps_sGet _ h2) (fun ra σ2 h3 => ?_)))
  · split
    · exact steps_sAlloc _ _ _ _ _ hA h1
    · exact h1
  · dsimp only
    split
    · split
      · exact steps_fields _ _ hA rfl (steps_descWrite _ _ _ _ hD h3)
      · exact h3
    · exact h3

theorem steps_aSet {σ0 σ : State} (a e nm sz : Nat) (ad am : Bool) (hA : A a) (hD : D = true)
    (h : Steps A D σ0 σ) : Steps A D σ0 (aSet a e nm sz ad am σ).st := by
  unfold aSet
  refine steps_bind' (steps_aAlloc _ _ _ _ _ hA hD h) (fun _ _ h1 => steps_bind' (steps_sGet _ h1)
    (fun ra σ2 h2 => ?_))
  dsimp only
  split
  · split
    · refine steps_fields _ _ hA rfl ?_
      have := steps_descWrite (A := A) (D := D) ra (σ2.blk ra).asz nm e hD h2
      exact this
    · exact h2
  · exact h2

theorem steps_aRelease {σ0 σ : State} (a : Nat) (hA : A a) (h : Steps A D σ0 σ) :
    Steps A D σ0 (aRelease a σ).st := by
  unfold aRelease
  refine steps_bind' (steps_sGet _ h) (fun ra σ1 h1 => ?_)
  split
  · split
    · split
      · refine steps_bind' (steps_sUnique _ h1) (fun u σ2 h2 => ?_)
        split
        · exact steps_bind' (steps_aReset _ hA h2) (fun _ _ h3 => h3)
        · exact h2
      · exact h1
    · exact h1
  · exact h1

theorem steps_aData {σ0 σ : State} (a : Nat) (h : Steps A D σ0 σ) : Steps A D σ0 (aData a σ).st := by
  unfold aData
  refine steps_bind' (steps_sGet _ h) (fun ra σ1 h1 => ?_)
  split
  · split <;> exact h1
  · exact h1

theorem steps_aAt {σ0 σ : State} (a i : Nat) (h : Steps A D σ0 σ) : Steps A D σ0 (aAt a i σ).st := by
  unfold aAt
  split
  · exact h
  · refine steps_bind' (steps_sGet _ h) (fun ra σ1 h1 => ?_)
    split
    · exact h1
    · split <;> exact h1

theorem steps_aSlice {σ0 σ : State} (a b e s : Nat) (hA : A s) (h : Steps A D σ0 σ) :
    Steps A D σ0 (aSlice a b e s σ).st := by
  unfold aSlice
  refine steps_bind' (steps_sGet _ h) (fun ra σ1 h1 => ?_)
  dsimp only
  split
  · exact h1
  · split
    · split
      · exact h1
      · split
        · exact steps_sShare _ _ hA (steps_fields _ _ hA rfl h1)
        · exact steps_fields _ _ hA rfl h1
    · exact h1

theorem steps_aUnslice {σ0 σ : State} (s a : Nat) (hA : A a) (h : Steps A D σ0 σ) :
    Steps A D σ0 (aUnslice s a σ).st := by
  unfold aUnslice
  refine steps_bind' (steps_sGet _ h) (fun ra σ1 h1 => ?_)
  dsimp only
  split
  · exact h1
  · split
    · split
      · exact steps_sShare _ _ hA (steps_fields _ _ hA rfl h1)
      · exact steps_fields _ _ hA rfl h1
    · exact h1

theorem steps_unitR {σ0 : State} (r : Res Unit) (h : Steps A D σ0 r.st) : Steps A D σ0 (unitR r).st := by
  unfold unitR; exact steps_bind' h (fun _ _ h1 => h1)

end

/-- the objects a call may write -/
def Op.writes : Op → List Nat
  | .gInit a | .gSet a _ | .uInit a | .uAlloc a _ _ _ _ | .uRelease a | .uReset a
  | .sInit a | .sAlloc a _ _ _ _ | .sReset a | .wInit a | .wReset a
  | .aInit a | .aSet a _ _ _ _ _ | .aRelease a | .aAlloc a _ _ _ _ | .aReset a => [a]
  | .gGet _ | .uGet _ | .sUnique _ | .sGet _ | .aSize _ | .aData _ | .aAt _ _ => []
  | .gCopy d _ => [d]
  | .gSwap a b | .uSwap a b | .sSwap a b | .wSwap a b => [a, b]
  | .sShare _ n => [n]
  | .wFrom w _ => [w]
  | .wLock _ s => [s]
  | .aSlice _ _ _ s => [s]
  | .aUnslice _ a => [a]
  | .rawCopy d _ => [d]

/-- does the call fill in an array descriptor? -/
def Op.writesDesc : Op → Bool
  | .aAlloc _ _ _ _ _ | .aSet _ _ _ _ _ _ => true
  | _ => false

/-- every library call (everything but the client's bitwise copy) is a sequence of primitive steps
that write only the objects in `op.writes` and descriptor words only if `op.writesDesc` -/
theorem steps_exec (op : Op) (σ : State) (h : ∀ d s, op ≠ .rawCopy d s) :
    Steps (· ∈ op.writes) op.writesDesc σ (exec op σ).st := by
  cases op with
  | rawCopy d s => exact absurd rfl (h d s)
  | gInit a => exact steps_gSet _ _ (by simp [Op.writes]) (Steps.refl σ)
  | gSet a p => exact steps_gSet _ _ (by simp [Op.writes]) (Steps.refl σ)
  | gGet a => exact steps_bind' (steps_gGet _ (Steps.refl σ)) (fun _ _ h1 => h1)
  | gCopy d s => exact steps_unitR _ (steps_gCopy _ _ (by simp [Op.writes]) (Steps.refl σ))
  | gSwap a b =>
    exact steps_unitR _ (steps_gSwap _ _ (by simp [Op.writes]) (by simp [Op.writes]) (Steps.refl σ))
  | uInit a => exact steps_uInit _ (by simp [Op.writes]) (Steps.refl σ)
  | uAlloc a sz c p ans => exact steps_unitR _ (steps_uAlloc _ _ _ _ _ (by simp [Op.writes]) (Steps.refl σ))
  | uGet a => exact steps_bind' (steps_gGet _ (Steps.refl σ)) (fun _ _ h1 => h1)
  | uRelease a =>
    exact steps_bind' (steps_uRelease _ (by simp [Op.writes]) (Steps.refl σ))
      (fun _ _ h1 => steps_bind' (steps_dispose _ _ _ h1) (fun _ _ h2 => h2))
  | uSwap a b =>
    exact steps_unitR _ (steps_uSwap _ _ (by simp [Op.writes]) (by simp [Op.writes]) (Steps.refl σ))
  | uReset a => exact steps_unitR _ (steps_uReset _ (by simp [Op.writes]) (Steps.refl σ))
  | sInit a => exact steps_gSet _ _ (by simp [Op.writes]) (Steps.refl σ)
  | sAlloc a sz c ad am => exact steps_unitR _ (steps_sAlloc _ _ _ _ _ (by simp [Op.writes]) (Steps.refl σ))
  | sUnique a => exact steps_bind' (steps_sUnique _ (Steps.refl σ)) (fun _ _ h1 => h1)
  | sGet a => exact steps_bind' (steps_sGet _ (Steps.refl σ)) (fun _ _ h1 => h1)
  | sShare e n => exact steps_unitR _ (steps_sShare _ _ (by simp [Op.writes]) (Steps.refl σ))
  | sSwap a b =>
    exact steps_unitR _ (steps_gSwap _ _ (by simp [Op.writes]) (by simp [Op.writes]) (Steps.refl σ))
  | sReset a => exact steps_unitR _ (steps_sReset _ (by simp [Op.writes]) (Steps.refl σ))
  | wInit a => exact steps_gSet _ _ (by simp [Op.writes]) (Steps.refl σ)
  | wFrom w s => exact steps_unitR _ (steps_wFrom _ _ (by simp [Op.writes]) (Steps.refl σ))
  | wLock w s => exact steps_unitR _ (steps_wLock _ _ (by simp [Op.writes]) (Steps.refl σ))
  | wSwap a b =>
    exact steps_unitR _ (steps_gSwap _ _ (by simp [Op.writes]) (by simp [Op.writes]) (Steps.refl σ))
  | wReset a => exact steps_unitR _ (steps_wReset _ (by simp [Op.writes]) (Steps.refl σ))
  | aInit a => exact steps_aInit _ (by simp [Op.writes]) (Steps.refl σ)
  | aSize a => exact Steps.refl σ
  | aSet a e nm sz ad am =>
    exact steps_unitR _ (steps_aSet _ _ _ _ _ _ (by simp [Op.writes]) rfl (Steps.refl σ))
  | aRelease a => exact steps_bind' (steps_aRelease _ (by simp [Op.writes]) (Steps.refl σ)) (fun _ _ h1 => h1)
  | aAlloc a nm sz ad am =>
    exact steps_unitR _ (steps_aAlloc _ _ _ _ _ (by simp [Op.writes]) rfl (Steps.refl σ))
  | aReset a => exact steps_unitR _ (steps_aReset _ (by simp [Op.writes]) (Steps.refl σ))
  | aData a => exact steps_bind' (steps_aData _ (Steps.refl σ)) (fun _ _ h1 => h1)
  | aAt a i => exact steps_bind' (steps_aAt _ _ (Steps.refl σ)) (fun _ _ h1 => h1)
  | aSlice a b e s => exact steps_unitR _ (steps_aSlice _ _ _ _ (by simp [Op.writes]) (Steps.refl σ))
  | aUnslice s a => exact steps_unitR _ (steps_aUnslice _ _ (by simp [Op.writes]) (Steps.refl σ))

/-! ### frame facts that hold for every sequence of primitive steps -/

structure Ext (A : Nat → Prop) (D : Bool) (σ σ' : State) : Prop where
  n : σ'.n = σ.n
  kind : σ'.kind = σ.kind
  ext : σ'.extSize = σ.extSize
  next : σ.next ≤ σ'.next
  ghost : ∀ b, b < σ.next → (σ'.blk b).size = (σ.blk b).size ∧ (σ'.blk b).isData = (σ.blk b).isData ∧
    (σ'.blk b).ownerD = (σ.blk b).ownerD ∧ (σ'.blk b).clrG = (σ.blk b).clrG ∧
    (σ'.blk b).privG = (σ.blk b).privG
  log : ∃ evs, σ'.log = σ.log ++ evs
  self : ∀ x, (σ'.obj x).self = (σ.obj x).self ∨ (σ'.obj x).self = x
  /-- objects outside `A` are not written -/
  objs : ∀ x, ¬ A x → σ'.obj x = σ.obj x
  /-- the descriptor words of blocks that existed before are not written unless `D` -/
  desc : D = false → ∀ b, b < σ.next → (σ'.blk b).asz = (σ.blk b).asz ∧ (σ'.blk b).anm = (σ.blk b).anm ∧
    (σ'.blk b).abuf = (σ.blk b).abuf

section
variable {A : Nat → Prop} {D : Bool}

theorem Ext.refl (σ : State) : Ext A D σ σ :=
  ⟨rfl, rfl, rfl, Nat.le_refl _, fun _ _ => ⟨rfl, rfl, rfl, rfl, rfl⟩, ⟨[], by simp⟩, fun _ => Or.inl rfl,
   fun _ _ => rfl, fun _ _ _ => ⟨rfl, rfl, rfl⟩⟩

theorem Ext.trans {σ σ1 σ2 : State} (h1 : Ext A D σ σ1) (h2 : Ext A D σ1 σ2) : Ext A D σ σ2 := by
  refine ⟨h2.n.trans h1.n, h2.kind.trans h1.kind, h2.ext.trans h1.ext, Nat.le_trans h1.next h2.next,
    ?_, ?_, ?_, ?_, ?_⟩
  · intro b hb
    have a := h1.ghost b hb
    have c := h2.ghost b (Nat.lt_of_lt_of_le hb h1.next)
    exact ⟨c.1.trans a.1, c.2.1.trans a.2.1, c.2.2.1.trans a.2.2.1, c.2.2.2.1.trans a.2.2.2.1,
      c.2.2.2.2.trans a.2.2.2.2⟩
  · obtain ⟨e1, he1⟩ := h1.log
    obtain ⟨e2, he2⟩ := h2.log
    exact ⟨e1 ++ e2, by rw [he2, he1, List.append_assoc]⟩
  · intro x
    rcases h2.self x with h | h
    · rcases h1.self x with h' | h'
      · exact Or.inl (h.trans h')
      · exact Or.inr (h.trans h')
    · exact Or.inr h
  · intro x hx; rw [h2.objs x hx, h1.objs x hx]
  · intro hD b hb
    have a := h1.desc hD b hb
    have c := h2.desc hD b (Nat.lt_of_lt_of_le hb h1.next)
    exact ⟨c.1.trans a.1, c.2.1.trans a.2.1, c.2.2.trans a.2.2⟩

theorem Prim.ext {σ σ' : State} (p : Prim A D σ σ') : Ext A D σ σ' := by
  cases p with
  | obj a o hA h =>
    refine ⟨rfl, rfl, rfl, Nat.le_refl _, fun _ _ => ⟨rfl, rfl, rfl, rfl, rfl⟩, ⟨[], by simp⟩, ?_, ?_,
      fun _ _ _ => ⟨rfl, rfl, rfl⟩⟩
    · intro x
      by_cases hx : x = a
      · subst hx; simpa using h
      · simp [hx]
    · intro x hx
      have : x ≠ a := by rintro rfl; exact hx hA
      simp [this]
  | blk b k h =>
    refine ⟨rfl, rfl, rfl, Nat.le_refl _, ?_, ⟨[], by simp⟩, fun _ => Or.inl rfl, fun _ _ => rfl, ?_⟩
    · intro x _
      by_cases hx : x = b
      · subst hx; simp only [setBlk_blk, if_true]; exact ⟨h.2.1, h.2.2.1, h.2.2.2.1, h.2.2.2.2.1, h.2.2.2.2.2.1⟩
      · simp [hx]
    · intro _ x _
      by_cases hx : x = b
      · subst hx; simp only [setBlk_blk, if_true]
        exact ⟨h.2.2.2.2.2.2.1, h.2.2.2.2.2.2.2.1, h.2.2.2.2.2.2.2.2⟩
      · simp [hx]
  | desc b asz anm abuf hD =>
    refine ⟨rfl, rfl, rfl, Nat.le_refl _, ?_, ⟨[], by simp⟩, fun _ => Or.inl rfl, fun _ _ => rfl, ?_⟩
    · intro x _
      by_cases hx : x = b
      · subst hx; simp
      · simp [hx]
    · intro h; rw [hD] at h; cases h
  | free p h =>
    refine ⟨rfl, rfl, rfl, Nat.le_refl _, ?_, ⟨[.free p], by simp⟩, fun _ => Or.inl rfl, fun _ _ => rfl, ?_⟩
    · intro x _
      by_cases hx : x = p
      · subst hx; simp
      · simp [hx]
    · intro _ x _
      by_cases hx : x = p
      · subst hx; simp
      · simp [hx]
  | clr f p pr =>
    exact ⟨rfl, rfl, rfl, Nat.le_refl _, fun _ _ => ⟨rfl, rfl, rfl, rfl, rfl⟩, ⟨[.clr f p pr], by simp⟩,
      fun _ => Or.inl rfl, fun _ _ => rfl, fun _ _ _ => ⟨rfl, rfl, rfl⟩⟩
  | alloc sz g =>
    refine ⟨rfl, rfl, rfl, Nat.le_succ _, ?_, ⟨[.alloc σ.next sz], by simp⟩, fun _ => Or.inl rfl,
      fun _ _ => rfl, ?_⟩
    · intro x hx
      have : x ≠ σ.next := Nat.ne_of_lt hx
      simp [this]
    · intro _ x hx
      have : x ≠ σ.next := Nat.ne_of_lt hx
      simp [this]
  | allocFail sz =>
    exact ⟨rfl, rfl, rfl, Nat.le_refl _, fun _ _ => ⟨rfl, rfl, rfl, rfl, rfl⟩, ⟨[.allocFail sz], by simp⟩,
      fun _ => Or.inl rfl, fun _ _ => rfl, fun _ _ _ => ⟨rfl, rfl, rfl⟩⟩

theorem Steps.ext {σ σ' : State} (h : Steps A D σ σ') : Ext A D σ σ' := by
  induction h with
  | refl => exact Ext.refl _
  | tail _ p ih => exact Ext.trans ih p.ext

end

/-- the event log and the `live` flags tell the same story: a block is live iff
it was allocated and not yet freed; nothing is freed twice -/
structure LogInv (σ : State) : Prop where
  live_iff : ∀ b, (σ.blk b).live = true ↔ ((∃ sz, Ev.alloc b sz ∈ σ.log) ∧ Ev.free b ∉ σ.log)
  alloc_lt : ∀ b sz, Ev.alloc b sz ∈ σ.log → b < σ.next
  free_once : ∀ b, σ.log.count (Ev.free b) ≤ 1
  free_alloc : ∀ b, Ev.free b ∈ σ.log → ∃ sz, Ev.alloc b sz ∈ σ.log

theorem Prim.logInv {A : Nat → Prop} {D : Bool} {σ σ' : State} (p : Prim A D σ σ') (I : LogInv σ) :
    LogInv σ' := by
  cases p with
  | obj a o hA h => exact ⟨I.live_iff, I.alloc_lt, I.free_once, I.free_alloc⟩
  | desc b asz anm abuf hD =>
    refine ⟨?_, I.alloc_lt, I.free_once, I.free_alloc⟩
    intro x
    by_cases hx : x = b
    · subst hx; simp only [setBlk_blk, if_true, setBlk_log]; exact I.live_iff x
    · simp only [setBlk_blk, hx, if_false, setBlk_log]; exact I.live_iff x
  | blk b k h =>
    refine ⟨?_, I.alloc_lt, I.free_once, I.free_alloc⟩
    intro x
    by_cases hx : x = b
    · subst hx; simp only [setBlk_blk, if_true, setBlk_log, h.1]; exact I.live_iff x
    · simp only [setBlk_blk, hx, if_false, setBlk_log]; exact I.live_iff x
  | free p h =>
    have hp := (I.live_iff p).mp h
    refine ⟨?_, ?_, ?_, ?_⟩
    · intro x
      by_cases hx : x = p
      · subst hx; simp
      · have := I.live_iff x
        simp [hx, this]
    · intro b sz hb
      simp at hb
      exact I.alloc_lt b sz hb
    · intro b
      by_cases hb : b = p
      · subst hb
        have : List.count (Ev.free b) σ.log = 0 := List.count_eq_zero.mpr hp.2
        simp [List.count_append, this]
      · have := I.free_once b
        have hne : (Ev.free p == Ev.free b) = false := by simp; exact fun e => hb e.symm
        simp [List.count_append, List.count_cons, hne]
        exact this
    · intro b hb
      simp at hb
      rcases hb with hb | hb
      · obtain ⟨sz, hs⟩ := I.free_alloc b hb; exact ⟨sz, by simp [hs]⟩
      · subst hb; obtain ⟨sz, hs⟩ := hp.1; exact ⟨sz, by simp [hs]⟩
  | clr f p pr =>
    refine ⟨?_, ?_, ?_, ?_⟩
    · intro x; have := I.live_iff x; simp [this]
    · intro b sz hb; simp at hb; exact I.alloc_lt b sz hb
    · intro b; have := I.free_once b; simp [List.count_append]; exact this
    · intro b hb; simp at hb; obtain ⟨sz, hs⟩ := I.free_alloc b hb; exact ⟨sz, by simp [hs]⟩
  | alloc sz g =>
    have hfresh : ∀ sz', Ev.alloc σ.next sz' ∉ σ.log := fun sz' hm => by
      have := I.alloc_lt _ _ hm; omega
    have hnofree : Ev.free σ.next ∉ σ.log := fun hm => by
      obtain ⟨sz', hs⟩ := I.free_alloc _ hm; exact hfresh sz' hs
    refine ⟨?_, ?_, ?_, ?_⟩
    · intro x
      by_cases hx : x = σ.next
      · subst hx; simp [hnofree]
      · have := I.live_iff x
        simp [hx, this]
    · intro b sz' hb
      simp at hb
      rcases hb with hb | hb
      · have := I.alloc_lt b sz' hb; simp; omega
      · simp [hb.1]
    · intro b; have := I.free_once b; simp [List.count_append]; exact this
    · intro b hb; simp at hb; obtain ⟨sz', hs⟩ := I.free_alloc b hb; exact ⟨sz', by simp [hs]⟩
  | allocFail sz =>
    refine ⟨?_, ?_, ?_, ?_⟩
    · intro x; have := I.live_iff x; simp [this]
    · intro b sz' hb; simp at hb; exact I.alloc_lt b sz' hb
    · intro b; have := I.free_once b; simp [List.count_append]; exact this
    · intro b hb; simp at hb; obtain ⟨sz', hs⟩ := I.free_alloc b hb; exact ⟨sz', by simp [hs]⟩

theorem Steps.logInv {A : Nat → Prop} {D : Bool} {σ σ' : State} (h : Steps A D σ σ') (I : LogInv σ) :
    LogInv σ' := by
  induction h with
  | refl => exact I
  | tail _ p ih => exact p.logInv ih

theorem LogInv.init (n : Nat) (kind : Nat → Kind) (es : Nat → Nat) : LogInv (State.init n kind es) :=
  ⟨fun b => by simp [State.init], fun b sz h => by simp [State.init] at h, fun b => by simp [State.init],
   fun b h => by simp [State.init] at h⟩

end Cstl.Mem
