import Cstl.Base.Driver
import Cstl.Mem.Model
/-
Driver for the mem area.  Object pool (same layout as harness/mem.c):
  g0..g3 = addresses 0..3   (cstl_guarded_ptr)
  u0..u5 = 4..9             (cstl_unique_ptr_t)
  s0..s9 = 10..19           (cstl_shared_ptr_t)
  w0..w5 = 20..25           (cstl_weak_ptr_t)
  a0..a5 = 26..31           (cstl_array_t)
External buffers E1, E2 of 64 bytes.  Output line:
  <result> | <events of this op> | <objects that are not in the initial state>
           | <live blocks id:size> | <bookkeeping blocks referenced by stamped objects>
-/
open Cstl Cstl.Mem

def NOBJ : Nat := 32
def EXTSZ : Nat := 64

def kindOf (a : Nat) : Kind :=
  if a < 4 then .guarded else if a < 10 then .unique else if a < 20 then .shared
  else if a < 26 then .weak else .array

def baseOf : Kind → Nat
  | .guarded => 0 | .unique => 4 | .shared => 10 | .weak => 20 | .array => 26

def letterOf : Kind → String
  | .guarded => "g" | .unique => "u" | .shared => "s" | .weak => "w" | .array => "a"

def nameOf (a : Nat) : String :=
  if a < NOBJ then letterOf (kindOf a) ++ toString (a - baseOf (kindOf a)) else "?"

def parseObj (s : String) : Option Nat := do
  let k ← match s.take 1 |>.toString with
    | "g" => some Kind.guarded | "u" => some .unique | "s" => some .shared
    | "w" => some .weak | "a" => some .array | _ => none
  let i ← (s.drop 1).toString.toNat?
  let a := baseOf k + i
  if a < NOBJ ∧ kindOf a = k then some a else none

structure DState where
  σ : State
  live : List Nat      -- ids of the live blocks, ascending

def dinit : DState :=
  { σ := State.init NOBJ kindOf (fun e => if e = 1 ∨ e = 2 then EXTSZ else 0), live := [] }

/-- rebuild the function-valued fields from finite tables so that closures do
not pile up over a long script (same values at every address that an operation
can reach: objects `< NOBJ`; freed blocks only ever answer `live = false`) -/
def compact (old : DState) (σ : State) : DState :=
  let objs : Array Obj := Array.ofFn (n := NOBJ) (fun i => σ.obj i.val)
  let fresh := (List.range (σ.next - old.σ.next)).map (· + old.σ.next)
  let live := (old.live ++ fresh).filter (fun b => (σ.blk b).live)
  let tab : List (Nat × Blk) := live.map (fun b => (b, σ.blk b))
  { σ := { σ with
      obj := fun a => match objs[a]? with | some o => o | none => { self := a },
      blk := fun b => match tab.find? (fun p => p.1 == b) with | some p => p.2 | none => {},
      log := [] },
    live := live }

def showEv : Ev → String
  | .alloc b sz => "A" ++ toString b ++ ":" ++ toString sz
  | .allocFail sz => "A!" ++ toString sz
  | .free b => "F" ++ toString b
  | .clr f p priv => "C" ++ toString f ++ ":" ++ toString p ++ ":" ++ toString priv

def orDash (xs : List String) : String := if xs.isEmpty then "-" else " ".intercalate xs

def showLoc (σ : State) : Loc → String
  | .null => "0"
  | .heap b off =>
    if (σ.blk b).live ∧ off ≤ (σ.blk b).size then "b" ++ toString b ++ "+" ++ toString off else "?"
  | .ext e off =>
    if off ≤ σ.extSize e then "E" ++ toString e ++ "+" ++ toString off else "?"

def showPtr (σ : State) (p : Nat) : String := if p = 0 then "0" else showLoc σ (.heap p 0)

def isDefault (a : Nat) (o : Obj) : Bool :=
  o.self == a && o.ptr == 0 && o.clr == 0 && o.priv == 0 && o.off == 0 && o.len == 0

def showObj (σ : State) (a : Nat) : String :=
  let o := σ.obj a
  let stamped := o.self == a
  let pre := nameOf a ++ "=" ++ (if stamped then "" else "~" ++ nameOf o.self ++ ":")
  match kindOf a with
  | .guarded => pre ++ toString o.ptr
  | .unique => pre ++ toString o.ptr ++ ",c" ++ toString o.clr ++ ",p" ++ toString o.priv
  | .shared | .weak => pre ++ toString o.ptr
  | .array =>
    let desc :=
      if stamped ∧ o.ptr ≠ 0 then
        let d := σ.blk o.ptr
        if d.live ∧ d.up ≠ 0 ∧ (σ.blk d.up).live then
          let m := σ.blk d.up
          "[" ++ toString m.anm ++ "," ++ toString m.asz ++ "," ++ toString m.abuf ++ "]"
        else "[-]"
      else ""
    pre ++ toString o.ptr ++ "+" ++ toString o.off ++ ":" ++ toString o.len ++ desc

def dedupSorted : List Nat → List Nat
  | a :: b :: r => if a = b then dedupSorted (b :: r) else a :: dedupSorted (b :: r)
  | l => l

def showData (σ : State) (d : Nat) : String :=
  let k := σ.blk d
  if k.live then
    "d" ++ toString d ++ "=h" ++ toString k.hard ++ ",s" ++ toString k.soft ++ ",m" ++ toString k.up
      ++ ",c" ++ toString k.upClr ++ (if k.upOk then "" else ",x")
  else "d" ++ toString d ++ "=dead"

def dump (ds : DState) (evs : List Ev) : String :=
  let σ := ds.σ
  let addrs := List.range NOBJ
  let objs := (addrs.filter (fun a => !isDefault a (σ.obj a))).map (showObj σ)
  let blks := ds.live.map (fun b => toString b ++ ":" ++ toString (σ.blk b).size)
  let refd := addrs.filter (fun a =>
    (σ.obj a).self == a && (σ.obj a).ptr != 0 &&
      (kindOf a == .shared || kindOf a == .weak || kindOf a == .array))
  let ds' := dedupSorted ((refd.map (fun a => (σ.obj a).ptr)).mergeSort (· ≤ ·))
  orDash (evs.map showEv) ++ " | " ++ orDash objs ++ " | " ++ orDash blks ++ " | "
    ++ orDash (ds'.map (showData σ))

def planBit (plan : String) (i : Nat) : Bool :=
  match plan.toList[i]? with
  | some '0' => false
  | _ => true

def parseOp (ws : List String) : Option Op :=
  let o := parseObj
  let n := parseNat?
  match ws with
  | ["ginit", a] => do pure (.gInit (← o a))
  | ["gset", a, p] => do pure (.gSet (← o a) (← n p))
  | ["gget", a] => do pure (.gGet (← o a))
  | ["gcopy", d, s] => do pure (.gCopy (← o d) (← o s))
  | ["gswap", a, b] => do pure (.gSwap (← o a) (← o b))
  | ["uinit", a] => do pure (.uInit (← o a))
  | ["ualloc", a, sz, c, p, plan] => do pure (.uAlloc (← o a) (← n sz) (← n c) (← n p) (planBit plan 0))
  | ["uget", a] => do pure (.uGet (← o a))
  | ["urelease", a] => do pure (.uRelease (← o a))
  | ["uswap", a, b] => do pure (.uSwap (← o a) (← o b))
  | ["ureset", a] => do pure (.uReset (← o a))
  | ["sinit", a] => do pure (.sInit (← o a))
  | ["salloc", a, sz, c, plan] => do pure (.sAlloc (← o a) (← n sz) (← n c) (planBit plan 0) (planBit plan 1))
  | ["sunique", a] => do pure (.sUnique (← o a))
  | ["sget", a] => do pure (.sGet (← o a))
  | ["sshare", e, nn] => do pure (.sShare (← o e) (← o nn))
  | ["sswap", a, b] => do pure (.sSwap (← o a) (← o b))
  | ["sreset", a] => do pure (.sReset (← o a))
  | ["winit", a] => do pure (.wInit (← o a))
  | ["wfrom", w, s] => do pure (.wFrom (← o w) (← o s))
  | ["wlock", w, s] => do pure (.wLock (← o w) (← o s))
  | ["wswap", a, b] => do pure (.wSwap (← o a) (← o b))
  | ["wreset", a] => do pure (.wReset (← o a))
  | ["ainit", a] => do pure (.aInit (← o a))
  | ["asize", a] => do pure (.aSize (← o a))
  | ["aset", a, e, nm, sz, plan] => do
      let e ← if e.startsWith "E" then (e.drop 1).toString.toNat? else none
      pure (.aSet (← o a) e (← n nm) (← n sz) (planBit plan 0) (planBit plan 1))
  | ["arelease", a] => do pure (.aRelease (← o a))
  | ["aalloc", a, nm, sz, plan] => do pure (.aAlloc (← o a) (← n nm) (← n sz) (planBit plan 0) (planBit plan 1))
  | ["areset", a] => do pure (.aReset (← o a))
  | ["adata", a] => do pure (.aData (← o a))
  | ["aat", a, i] => do pure (.aAt (← o a) (← n i))
  | ["aslice", a, b, e, s] => do pure (.aSlice (← o a) (← n b) (← n e) (← o s))
  | ["aunslice", s, a] => do pure (.aUnslice (← o s) (← o a))
  | ["rcopy", d, s] => do pure (.rawCopy (← o d) (← o s))
  | ["rmemcpy", d, s] => do pure (.rawCopy (← o d) (← o s))
  | _ => none

def showVal (op : Op) (σ : State) : Val → String
  | .unit => "ok"
  | .nat p =>
    match op with
    | .uGet _ | .sGet _ => showPtr σ p
    | _ => toString p
  | .bool b => if b then "1" else "0"
  | .loc l => showLoc σ l
  | .rel p c pr => (if p = 0 then "0" else "b" ++ toString p ++ "+0") ++ " c" ++ toString c ++ " p" ++ toString pr

def showStop : Stop → String
  | .abort => "STOP abort" | .segv => "STOP segv" | .asan => "STOP asan" | .badop => "STOP bad-op"

/-- `smany s n` (harness/mem.c): n co-owners and n weak references are created from `s` and
dropped again, every step judged inside the harness; the net effect on the state is none, so the
driver answers with the reads the operation starts with (`cstl_shared_ptr_unique`) and the
unchanged state. -/
def smanyOp (ws : List String) : Option Op :=
  match ws with
  | ["smany", a, n] =>
    match parseObj a, n.toNat? with
    | some a, some n => if n ≤ 1000000 then some (.sUnique a) else none
    | _, _ => none
  | ["amany", a, n] =>
    -- n views of the whole of `a` come and go (harness/mem.c): starts with the guarded read of `a`
    match parseObj a, n.toNat? with
    | some a, some n => if n ≤ 1000000 then some (.aData a) else none
    | _, _ => none
  | _ => none

def mstep (ds : DState) (ws : List String) : DState × String :=
  match smanyOp ws with
  | some op =>
    match step op ds.σ with
    | .stop k _ => (ds, showStop k)
    | .ok _ σ =>
      let evs := σ.log
      let ds' := compact ds σ
      (ds', "ok | " ++ dump ds' evs)
  | none =>
  match parseOp ws with
  | none => (ds, "STOP bad-op")
  | some op =>
    match step op ds.σ with
    | .stop k _ => (ds, showStop k)
    | .ok v σ =>
      let evs := σ.log
      let ds' := compact ds σ
      (ds', showVal op ds'.σ v ++ " | " ++ dump ds' evs)

def main : IO Unit := runArea { init := dinit, step := mstep }
