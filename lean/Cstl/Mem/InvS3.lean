import Cstl.Mem.InvS2
/-
Preservation of the ownership invariant: `cstl_shared_ptr_alloc`.
-/
set_option linter.unusedSimpArgs false
namespace Cstl.Mem

/-- the part of `cstl_shared_ptr_alloc` after the reset of the target -/
def allocTail (a sz clr : Nat) (ansD ansM : Bool) (σ : State) : Res Unit :=
  if sz > 0 then
    let r := malloc DSZ ansD { isData := true } σ
    let d := r.1
    if d ≠ 0 then
      let σ := r.2
      let σ := σ.setBlk d { σ.blk d with hard := 1, soft := 1 }
      let σ := upInit d σ
      upAlloc d sz clr ansM σ >>- fun _ σ =>
      upGet d σ >>- fun m σ =>
      if m ≠ 0 then .ok () (gSet a d σ) else free d σ
    else .ok () r.2
  else .ok () σ

theorem sAlloc_eq (a sz clr : Nat) (ad am : Bool) (σ : State) :
    sAlloc a sz clr ad am σ = (sReset a σ >>- fun _ σ => allocTail a sz clr ad am σ) := rfl

theorem nobody_refers_fresh {σ : State} (I : Inv σ) {d : Nat} (hd : σ.next ≤ d) :
    nH σ d = 0 ∧ nW σ d = 0 := by
  have hf := I.fresh d hd
  have hz := I.zero
  constructor
  · apply cnt_zero.mpr
    intro x hx h
    have hd0 : d ≠ 0 := by have := I.next_pos; omega
    have := (I.ref_ok x d hx (Or.inl h) hd0).1
    rw [hf] at this; simp at this
  · apply cnt_zero.mpr
    intro x hx h
    have hd0 : d ≠ 0 := by have := I.next_pos; omega
    have := (I.ref_ok x d hx (Or.inr h) hd0).1
    rw [hf] at this; simp at this

/-- failed allocation of the bookkeeping block -/
theorem allocTail_failD {σ : State} {a sz clr : Nat} {ansM : Bool} (I : Inv σ) (hsz : 0 < sz) :
    ∃ σ', allocTail a sz clr false ansM σ = .ok () σ' ∧ Inv σ' ∧ Same σ σ' ∧ σ'.obj = σ.obj ∧
      σ'.blk = σ.blk ∧ σ'.next = σ.next := by
  refine ⟨σ.emit (.allocFail DSZ), ?_, ?_, ⟨rfl, rfl, rfl⟩, rfl, rfl, rfl⟩
  · simp [allocTail, hsz, malloc_fail]
  · inv_clauses I
    · exact LogOk.allocFail _ (log_frame (σ := σ) I (by intro b; st_simp; grind))

theorem DSZ_le : DSZ ≤ LIMIT := by decide

/-- the bookkeeping block was allocated, the managed memory was not -/
theorem allocTail_failM {σ : State} {a sz clr : Nat} {ansM : Bool} (I : Inv σ) (hsz : 0 < sz)
    (hM : ansM = false ∨ LIMIT < sz) :
    ∃ σ', allocTail a sz clr true ansM σ = .ok () σ' ∧ Inv σ' ∧ Same σ σ' ∧ σ'.obj = σ.obj ∧
      (∀ b, b < σ.next → σ'.blk b = σ.blk b) ∧ σ.next ≤ σ'.next := by
  have hnp := I.next_pos
  have hf0 := I.fresh σ.next (Nat.le_refl _)
  refine ⟨σ.upd σ.obj (fun b =>
      if b = σ.next then
        { live := false, size := DSZ, isData := true, hard := 1, soft := 1, upOk := true, up := 0, upClr := 0 }
      else σ.blk b)
      (σ.log ++ [Ev.alloc σ.next DSZ] ++ [Ev.allocFail sz] ++ [Ev.free σ.next]) (σ.next + 1),
      ?_, ?_, ⟨rfl, rfl, rfl⟩, rfl, ?_, by simp⟩
  · have hne : σ.next ≠ 0 := by omega
    simp only [allocTail, hsz, if_true, malloc_ok _ rfl DSZ_le, ne_eq, hne, not_false_eq_true]
    rw [upAlloc, upReset_null (by simp [upInit]) (by simp [upInit]) (by simp [upInit]) (by simp [upInit])]
    simp only [bind_ok, hsz, if_true, malloc_fail _ hM, ne_eq, not_true_eq_false, if_false]
    rw [upGet_eval (by simp [upInit]) (by simp [upInit])]
    simp only [bind_ok, upInit, emit_blk, setBlk_blk, if_true, ne_eq, not_true_eq_false, if_false]
    rw [free_eval hne (by simp)]
    congr 1 <;> st_ext
  · have hfr := nobody_refers_fresh I (Nat.le_refl σ.next)
    have hol := I.owner_lt
    inv_clauses I
    · refine LogOk.free _ (LogOk.allocFail _ (LogOk.alloc _ _ (log_frame' I ?_))) ?_
      · intro b hb; st_simp; grind
      · st_simp; grind
  · intro b hb
    have : b ≠ σ.next := by omega
    simp [this]

/-- the state after a successful `cstl_shared_ptr_alloc` on an empty object -/
def allocOkState (σ : State) (a sz clr : Nat) : State :=
  σ.upd (gSet a σ.next σ).obj (fun b =>
      if b = σ.next then
        { live := true, size := DSZ, isData := true, hard := 1, soft := 1, upOk := true,
          up := σ.next + 1, upClr := clr }
      else if b = σ.next + 1 then { live := true, size := sz, ownerD := σ.next, clrG := clr }
      else σ.blk b)
      (σ.log ++ [Ev.alloc σ.next DSZ] ++ [Ev.alloc (σ.next + 1) sz]) (σ.next + 1 + 1)

set_option maxHeartbeats 1000000 in
theorem allocTail_ok_run {σ : State} {a sz clr : Nat} (hnp : 0 < σ.next) (hsz : 0 < sz) (hlim : sz ≤ LIMIT) :
    allocTail a sz clr true true σ = .ok () (allocOkState σ a sz clr) := by
  have hne : σ.next ≠ 0 := by omega
  simp only [allocTail, hsz, if_true, malloc_ok _ rfl DSZ_le, ne_eq, hne, not_false_eq_true]
  rw [upAlloc, upReset_null (by simp [upInit]) (by simp [upInit]) (by simp [upInit]) (by simp [upInit])]
  simp only [bind_ok, hsz, if_true, malloc_ok _ rfl hlim, ne_eq, upInit, setBlk_next, emit_next,
    Nat.succ_ne_zero, not_false_eq_true]
  rw [upGet_eval (by simp) (by simp)]
  simp only [bind_ok, emit_blk, setBlk_blk, if_true, ne_eq, Nat.succ_ne_zero, not_false_eq_true]
  congr 1
  unfold allocOkState
  refine State.ext' rfl rfl (fun x => rfl) (fun b => ?_) rfl ?_ rfl
  · by_cases h1 : b = σ.next
    · subst h1; simp
    · by_cases h2 : b = σ.next + 1
      · subst h2; simp
      · simp [h1, h2]
  · simp

/-- both blocks were allocated: `a` becomes the sole owner of the new allocation -/
theorem allocTail_ok {σ : State} {a sz clr : Nat} (I : Inv σ) (ha : a < σ.n)
    (hs : (σ.obj a).self = a) (hk : σ.kind a = .shared ∨ σ.kind a = .array) (hp : (σ.obj a).ptr = 0)
    (hsz : 0 < sz) (hlim : sz ≤ LIMIT) :
    ∃ σ', allocTail a sz clr true true σ = .ok () σ' ∧ Inv σ' ∧ Same σ σ' ∧
      (∀ x, σ'.obj x = if x = a then { σ.obj a with ptr := σ.next } else σ.obj x) ∧
      (∀ b, b < σ.next → σ'.blk b = σ.blk b) ∧ σ'.next = σ.next + 2 ∧
      σ'.blk σ.next = { live := true, size := DSZ, isData := true, hard := 1, soft := 1, upOk := true,
                        up := σ.next + 1, upClr := clr } ∧
      σ'.blk (σ.next + 1) = { live := true, size := sz, ownerD := σ.next, clrG := clr } := by
  have hnp := I.next_pos
  have hf0 := I.fresh σ.next (Nat.le_refl _)
  have hf1 := I.fresh (σ.next + 1) (Nat.le_succ _)
  have hobj := obj_ptr σ.next hs
  refine ⟨allocOkState σ a sz clr, allocTail_ok_run hnp hsz hlim, ?_, ⟨rfl, rfl, rfl⟩, hobj, ?_, rfl,
    by simp [allocOkState], by simp [allocOkState]⟩
  · have hfr := nobody_refers_fresh I (Nat.le_refl σ.next)
    have hfr1 := nobody_refers_fresh I (Nat.le_succ σ.next)
    have hol := I.owner_lt
    have hcH := fun d' => nH_gSet (σ := σ) σ.next d' ha
    have hcW := fun d' => nW_gSet (σ := σ) σ.next d' ha
    unfold allocOkState
    inv_clauses I
    · refine LogOk.alloc _ _ (LogOk.alloc _ _ (log_frame' I ?_))
      intro b hb; st_simp; grind
  · intro b hb
    have h1 : b ≠ σ.next := by omega
    have h2 : b ≠ σ.next + 1 := by omega
    simp [allocOkState, h1, h2]

/-- `cstl_shared_ptr_alloc`: afterwards the object is empty or the sole owner of a fresh allocation -/
theorem sAlloc_inv {σ : State} {a sz clr : Nat} {ad am : Bool} (I : Inv σ) (ha : a < σ.n) (hs : stamped σ a)
    (hk : σ.kind a = .shared ∨ σ.kind a = .array) :
    ∃ σ', sAlloc a sz clr ad am σ = .ok () σ' ∧ Inv σ' ∧ Same σ σ' ∧
      (∀ x, x ≠ a → σ'.obj x = σ.obj x) ∧
      ((σ'.obj a = { σ.obj a with ptr := 0 } ∧ (sz = 0 ∨ ad = false ∨ am = false ∨ LIMIT < sz)) ∨
       (∃ d, σ'.obj a = { σ.obj a with ptr := d } ∧ d ≠ 0 ∧ σ.next ≤ d ∧ 0 < sz ∧ sz ≤ LIMIT ∧ ad = true ∧ am = true ∧
          σ'.blk d = { live := true, size := DSZ, isData := true, hard := 1, soft := 1, upOk := true,
                        up := d + 1, upClr := clr } ∧
          σ'.blk (d + 1) = { live := true, size := sz, ownerD := d, clrG := clr })) := by
  obtain ⟨σ1, h1, I1, S1, ho1⟩ := sReset_inv I ha hs hk
  unfold stamped at hs
  have ha1 : (σ1.obj a).self = a ∧ (σ1.obj a).ptr = 0 := by rw [ho1]; simp [hs]
  have hoa : σ1.obj a = { σ.obj a with ptr := 0 } := by rw [ho1]; simp
  have hox : ∀ x, x ≠ a → σ1.obj x = σ.obj x := fun x hx => by rw [ho1]; simp [hx]
  rw [sAlloc_eq, h1, bind_ok]
  by_cases hsz : sz = 0
  · refine ⟨σ1, by simp [allocTail, hsz], I1, S1, hox, Or.inl ⟨hoa, Or.inl hsz⟩⟩
  · have hsz' : 0 < sz := by omega
    cases ad with
    | false =>
      obtain ⟨σ2, h2, I2, S2, ho2, _, _⟩ := allocTail_failD (a := a) (clr := clr) (ansM := am) I1 hsz'
      exact ⟨σ2, h2, I2, ⟨S2.n.trans S1.n, S2.kind.trans S1.kind, S2.ext.trans S1.ext⟩,
        fun x hx => by rw [ho2]; exact hox x hx, Or.inl ⟨by rw [ho2]; exact hoa, Or.inr (Or.inl rfl)⟩⟩
    | true =>
      by_cases hM : am = false ∨ LIMIT < sz
      · obtain ⟨σ2, h2, I2, S2, ho2, _, _⟩ := allocTail_failM (a := a) (clr := clr) I1 hsz' hM
        refine ⟨σ2, h2, I2, ⟨S2.n.trans S1.n, S2.kind.trans S1.kind, S2.ext.trans S1.ext⟩,
          fun x hx => by rw [ho2]; exact hox x hx, Or.inl ⟨by rw [ho2]; exact hoa, ?_⟩⟩
        rcases hM with h | h
        · exact Or.inr (Or.inr (Or.inl h))
        · exact Or.inr (Or.inr (Or.inr h))
      · have ham : am = true := by cases am <;> simp_all
        have hlim : sz ≤ LIMIT := by omega
        subst ham
        obtain ⟨σ2, h2, I2, S2, ho2, _, _, hbd, hbm⟩ :=
          allocTail_ok (clr := clr) I1 (by rw [S1.n]; exact ha) ha1.1 (by rw [S1.kind]; exact hk) ha1.2 hsz' hlim
        refine ⟨σ2, h2, I2, ⟨S2.n.trans S1.n, S2.kind.trans S1.kind, S2.ext.trans S1.ext⟩,
          fun x hx => by rw [ho2]; simp [hx, hox x hx], Or.inr ⟨σ1.next, ?_, ?_, ?_, hsz', hlim, rfl, rfl, hbd, hbm⟩⟩
        · rw [ho2, hoa]; simp
        · have := I1.next_pos; omega
        · have E := (steps_sReset (A := fun _ => True) (D := false) a trivial (Steps.refl σ)).ext
          rw [h1] at E; exact E.next

end Cstl.Mem
