import Cstl.Mem.InvS
/-
Preservation of the ownership invariant by the unique pointer functions.
-/
set_option linter.unusedSimpArgs false
namespace Cstl.Mem

/-- the unique pointer object `a` after `cstl_unique_ptr_init` -/
def clearedObj (σ : State) (a : Nat) : Obj := { σ.obj a with self := a, ptr := 0, clr := 0, priv := 0 }

theorem uInit_obj (σ : State) (a : Nat) : (uInit a σ).obj = (σ.setObj a (clearedObj σ a)).obj := by
  funext x
  by_cases hx : x = a
  · subst hx; simp [uInit, clearedObj, gSet]
  · simp [uInit, clearedObj, gSet, hx]

theorem uniq_facts {σ : State} {a : Nat} (I : Inv σ) (ha : a < σ.n) (hs : (σ.obj a).self = a)
    (hk : σ.kind a = .unique) (hp : (σ.obj a).ptr ≠ 0) :
    (σ.blk (σ.obj a).ptr).live = true ∧ (σ.blk (σ.obj a).ptr).isData = false ∧
    (σ.blk (σ.obj a).ptr).ownerD = 0 ∧ (σ.blk (σ.obj a).ptr).clrG = (σ.obj a).clr ∧
    (σ.blk (σ.obj a).ptr).privG = (σ.obj a).priv ∧ (σ.obj a).ptr < σ.next := by
  have h := (I.uniq_ok a ha hs hk).2 hp
  unfold UMemOk at h
  exact ⟨h.1, h.2.1, h.2.2.1, h.2.2.2.1, h.2.2.2.2, I.live_lt h.1⟩

/-- counts do not see unique pointer objects -/
theorem cnt_unique {σ : State} {a : Nat} (o : Obj) (ha : a < σ.n) (hk : σ.kind a = .unique) :
    (∀ d, nH (σ.setObj a o) d = nH σ d) ∧ (∀ d, nW (σ.setObj a o) d = nW σ d) := by
  constructor
  · intro d; have := nH_setObj (σ := σ) o d ha; simp [HRef, hk] at this; exact this
  · intro d; have := nW_setObj (σ := σ) o d ha; simp [WRef, hk] at this; exact this

theorem uReset_null {σ : State} {a : Nat} (hs : (σ.obj a).self = a) (hp : (σ.obj a).ptr = 0)
    (hc : (σ.obj a).clr = 0) : uReset a σ = .ok () (uInit a σ) := by
  simp [uReset, gGet_eval hs, hp, hc, dispose_eval0, free_zero]

theorem uReset_eval0 {σ : State} {a : Nat} (hs : (σ.obj a).self = a) (hp : (σ.obj a).ptr ≠ 0)
    (hc : (σ.obj a).clr = 0) (hl : (σ.blk (σ.obj a).ptr).live = true) :
    uReset a σ = .ok () (uInit a ((σ.setBlk (σ.obj a).ptr { σ.blk (σ.obj a).ptr with live := false }).emit
      (.free (σ.obj a).ptr))) := by
  simp [uReset, gGet_eval hs, hc, dispose_eval0, free_eval hp hl]

theorem uReset_evalc {σ : State} {a : Nat} (hs : (σ.obj a).self = a) (hp : (σ.obj a).ptr ≠ 0)
    (hc : (σ.obj a).clr ≠ 0) (hl : (σ.blk (σ.obj a).ptr).live = true) :
    uReset a σ = .ok () (uInit a ((((σ.emit (.clr (σ.obj a).clr (σ.obj a).ptr (σ.obj a).priv)).setBlk (σ.obj a).ptr
      { σ.blk (σ.obj a).ptr with live := false })).emit (.free (σ.obj a).ptr))) := by
  have h2 : ((σ.emit (.clr (σ.obj a).clr (σ.obj a).ptr (σ.obj a).priv)).blk (σ.obj a).ptr).live = true := hl
  simp only [uReset, gGet_eval hs, bind_ok, dispose_evalc _ _ hc, free_eval hp h2]
  rfl

/-- the state after the unique pointer `a` let go of its memory (`evs` = what was logged) -/
def uGoneState (σ : State) (a : Nat) (evs : List Ev) : State :=
  σ.upd (σ.setObj a (clearedObj σ a)).obj
    (fun b => if b = (σ.obj a).ptr then { σ.blk (σ.obj a).ptr with live := false } else σ.blk b)
    (σ.log ++ evs) σ.next

theorem uGone_inv0 {σ : State} {a : Nat} (I : Inv σ) (ha : a < σ.n) (hs : (σ.obj a).self = a)
    (hk : σ.kind a = .unique) (hp : (σ.obj a).ptr ≠ 0) (hc : (σ.obj a).clr = 0) :
    Inv (uGoneState σ a [Ev.free (σ.obj a).ptr]) := by
  obtain ⟨hl, hd, hod, hcg, hpg, hlt⟩ := uniq_facts I ha hs hk hp
  obtain ⟨hcH, hcW⟩ := cnt_unique (clearedObj σ a) ha hk
  have hinj := I.uniq_inj
  unfold uGoneState clearedObj at *
  inv_clauses I
  · refine LogOk.free _ (log_frame (σ := σ) I (by intro b; st_simp; grind)) ?_
    st_simp; grind

theorem uGone_invc {σ : State} {a : Nat} (I : Inv σ) (ha : a < σ.n) (hs : (σ.obj a).self = a)
    (hk : σ.kind a = .unique) (hp : (σ.obj a).ptr ≠ 0) (hc : (σ.obj a).clr ≠ 0) :
    Inv (uGoneState σ a [Ev.clr (σ.obj a).clr (σ.obj a).ptr (σ.obj a).priv, Ev.free (σ.obj a).ptr]) := by
  obtain ⟨hl, hd, hod, hcg, hpg, hlt⟩ := uniq_facts I ha hs hk hp
  obtain ⟨hcH, hcW⟩ := cnt_unique (clearedObj σ a) ha hk
  have hinj := I.uniq_inj
  unfold uGoneState clearedObj at *
  inv_clauses I
  · refine LogOk.clrFree _ _ _ (log_frame (σ := σ) I (by intro b; st_simp; grind)) ?_ ?_ ?_ ?_
    all_goals (st_simp; grind)

theorem uInit_inv {σ : State} {a : Nat} (I : Inv σ) (ha : a < σ.n) (hk : σ.kind a = .unique)
    (hnh : ¬ σ.holds a) : Inv (uInit a σ) := by
  obtain ⟨hcH, hcW⟩ := cnt_unique (clearedObj σ a) ha hk
  have e : uInit a σ = σ.upd (σ.setObj a (clearedObj σ a)).obj σ.blk σ.log σ.next := by
    refine State.ext' rfl rfl (fun x => ?_) (fun b => rfl) rfl rfl rfl
    rw [uInit_obj]; rfl
  rw [e]
  unfold State.holds at hnh
  have hinj := I.uniq_inj
  have hok := I.uniq_ok
  unfold clearedObj at *
  inv_clauses I
  · exact log_frame (σ := σ) I (by intro b; st_simp; grind)

/-- `cstl_unique_ptr_reset`: the object is empty afterwards; its memory was cleared and freed -/
theorem uReset_inv {σ : State} {a : Nat} (I : Inv σ) (ha : a < σ.n) (hs : stamped σ a)
    (hk : σ.kind a = .unique) :
    ∃ σ', uReset a σ = .ok () σ' ∧ Inv σ' ∧ Same σ σ' ∧
      (∀ x, σ'.obj x = if x = a then clearedObj σ a else σ.obj x) := by
  unfold stamped at hs
  by_cases hp : (σ.obj a).ptr = 0
  · have hc := (I.uniq_ok a ha hs hk).1 hp
    refine ⟨uInit a σ, uReset_null hs hp hc, uInit_inv I ha hk (by simp [State.holds, hp]), ⟨rfl, rfl, rfl⟩, ?_⟩
    intro x; rw [uInit_obj]; rfl
  · obtain ⟨hl, hd, hod, hcg, hpg, hlt⟩ := uniq_facts I ha hs hk hp
    by_cases hc : (σ.obj a).clr = 0
    · refine ⟨uGoneState σ a [Ev.free (σ.obj a).ptr], ?_, uGone_inv0 I ha hs hk hp hc, ⟨rfl, rfl, rfl⟩,
        fun x => rfl⟩
      rw [uReset_eval0 hs hp hc hl]
      congr 1
      refine State.ext' rfl rfl (fun x => ?_) (fun b => ?_) rfl rfl rfl
      · rw [uInit_obj]; rfl
      · simp [uInit, uGoneState]
    · refine ⟨uGoneState σ a [Ev.clr (σ.obj a).clr (σ.obj a).ptr (σ.obj a).priv, Ev.free (σ.obj a).ptr], ?_,
        uGone_invc I ha hs hk hp hc, ⟨rfl, rfl, rfl⟩, fun x => rfl⟩
      rw [uReset_evalc hs hp hc hl]
      congr 1
      refine State.ext' rfl rfl (fun x => ?_) (fun b => ?_) rfl ?_ rfl
      · rw [uInit_obj]; rfl
      · simp [uInit, uGoneState]
      · simp [uInit, uGoneState]

/-- `cstl_unique_ptr_release` followed by the caller's clear-then-free -/
theorem uRelease_inv {σ : State} {a : Nat} (I : Inv σ) (ha : a < σ.n) (hs : stamped σ a)
    (hk : σ.kind a = .unique) :
    ∃ σ', exec (.uRelease a) σ = .ok (.rel (σ.obj a).ptr (σ.obj a).clr (σ.obj a).priv) σ' ∧ Inv σ' ∧ Same σ σ' ∧
      (∀ x, σ'.obj x = if x = a then clearedObj σ a else σ.obj x) := by
  unfold stamped at hs
  by_cases hp : (σ.obj a).ptr = 0
  · have hc := (I.uniq_ok a ha hs hk).1 hp
    refine ⟨uInit a σ, ?_, uInit_inv I ha hk (by simp [State.holds, hp]), ⟨rfl, rfl, rfl⟩, ?_⟩
    · simp [exec, uRelease, userDispose, gGet_eval hs, hp, hc, dispose_eval0, free_zero]
    · intro x; rw [uInit_obj]; rfl
  · obtain ⟨hl, hd, hod, hcg, hpg, hlt⟩ := uniq_facts I ha hs hk hp
    by_cases hc : (σ.obj a).clr = 0
    · refine ⟨uGoneState σ a [Ev.free (σ.obj a).ptr], ?_, uGone_inv0 I ha hs hk hp hc, ⟨rfl, rfl, rfl⟩,
        fun x => rfl⟩
      have hl' : ((uInit a σ).blk (σ.obj a).ptr).live = true := by simp [uInit, hl]
      simp only [exec, uRelease, userDispose, gGet_eval hs, bind_ok, hc, dispose_eval0, free_eval hp hl']
      congr 1
      refine State.ext' rfl rfl (fun x => ?_) (fun b => ?_) rfl ?_ rfl
      · simp only [emit_obj, setBlk_obj]; rw [uInit_obj]; rfl
      · simp [uInit, uGoneState]
      · simp [uInit, uGoneState]
    · refine ⟨uGoneState σ a [Ev.clr (σ.obj a).clr (σ.obj a).ptr (σ.obj a).priv, Ev.free (σ.obj a).ptr], ?_,
        uGone_invc I ha hs hk hp hc, ⟨rfl, rfl, rfl⟩, fun x => rfl⟩
      have hl' : (((uInit a σ).emit (.clr (σ.obj a).clr (σ.obj a).ptr (σ.obj a).priv)).blk (σ.obj a).ptr).live
          = true := by simp [uInit, hl]
      simp only [exec, uRelease, userDispose, gGet_eval hs, bind_ok, dispose_evalc _ _ hc, free_eval hp hl']
      congr 1
      refine State.ext' rfl rfl (fun x => ?_) (fun b => ?_) rfl ?_ rfl
      · simp only [emit_obj, setBlk_obj]; rw [uInit_obj]; rfl
      · simp [uInit, uGoneState]
      · simp [uInit, uGoneState]

/-- counts do not see what happens to unique (or guarded) pointer objects -/
theorem cnt_irrel {σ τ : State} (hn : τ.n = σ.n) (hk : τ.kind = σ.kind)
    (h : ∀ x, σ.kind x = .shared ∨ σ.kind x = .array ∨ σ.kind x = .weak → τ.obj x = σ.obj x) :
    (∀ d, nH τ d = nH σ d) ∧ (∀ d, nW τ d = nW σ d) := by
  constructor
  · intro d
    unfold nH; rw [hn, hk]
    apply cnt_congr
    intro x _
    unfold HRef
    by_cases hx : σ.kind x = .shared ∨ σ.kind x = .array
    · rw [h x (by rcases hx with h | h <;> simp [h])]
    · simp [hx]
  · intro d
    unfold nW; rw [hn, hk]
    apply cnt_congr
    intro x _
    unfold WRef
    by_cases hx : σ.kind x = .weak
    · rw [h x (by simp [hx])]
    · simp [hx]

/-- `cstl_unique_ptr_alloc` -/
theorem uAlloc_inv {σ : State} {a sz clr priv : Nat} {ans : Bool} (I : Inv σ) (ha : a < σ.n)
    (hs : stamped σ a) (hk : σ.kind a = .unique) :
    ∃ σ', uAlloc a sz clr priv ans σ = .ok () σ' ∧ Inv σ' ∧ Same σ σ' ∧
      (∀ x, x ≠ a → σ'.obj x = σ.obj x) := by
  obtain ⟨σ1, h1, I1, S1, ho1⟩ := uReset_inv I ha hs hk
  have hox : ∀ x, x ≠ a → σ1.obj x = σ.obj x := fun x hx => by rw [ho1]; simp [hx]
  have ha1 : a < σ1.n := by rw [S1.n]; exact ha
  have hk1 : σ1.kind a = .unique := by rw [S1.kind]; exact hk
  have hoa : (σ1.obj a).self = a ∧ (σ1.obj a).ptr = 0 := by rw [ho1]; simp [clearedObj]
  simp only [uAlloc, h1, bind_ok]
  by_cases hsz : sz > 0
  · by_cases hM : ans = false ∨ LIMIT < sz
    · refine ⟨σ1.emit (.allocFail sz), ?_, ?_, ⟨S1.n, S1.kind, S1.ext⟩, hox⟩
      · simp [hsz, malloc_fail _ hM]
      · inv_clauses I1
        · exact LogOk.allocFail _ (log_frame (σ := σ1) I1 (by intro b; st_simp; grind))
    · have hans : ans = true := by cases ans <;> simp_all
      have hlim : sz ≤ LIMIT := by omega
      have hnp := I1.next_pos
      have hne : σ1.next ≠ 0 := by omega
      have hf0 := I1.fresh σ1.next (Nat.le_refl _)
      refine ⟨σ1.upd (σ1.setObj a { σ1.obj a with self := a, ptr := σ1.next, clr := clr, priv := priv }).obj
        (fun b => if b = σ1.next then { live := true, size := sz, clrG := clr, privG := priv } else σ1.blk b)
        (σ1.log ++ [Ev.alloc σ1.next sz]) (σ1.next + 1), ?_, ?_, ⟨S1.n, S1.kind, S1.ext⟩, ?_⟩
      · simp only [hsz, if_true, malloc_ok _ hans hlim, ne_eq, hne, not_false_eq_true]
        congr 1
        refine State.ext' rfl rfl (fun x => ?_) (fun b => ?_) rfl rfl rfl
        · by_cases hx : x = a
          · subst hx; simp [gSet]
          · simp [gSet, hx]
        · by_cases hb : b = σ1.next
          · subst hb; simp [gSet]
          · simp [gSet, hb]
      · obtain ⟨hcH, hcW⟩ := cnt_unique (σ := σ1)
          { σ1.obj a with self := a, ptr := σ1.next, clr := clr, priv := priv } ha1 hk1
        have hol := I1.owner_lt
        have hinj := I1.uniq_inj
        have hok := I1.uniq_ok
        have hll := @Inv.live_lt _ I1
        inv_clauses I1
        · refine LogOk.alloc _ _ (log_frame' I1 ?_)
          intro b hb; st_simp; grind
      · intro x hx; simp [hx, hox x hx]
  · exact ⟨σ1, by simp [hsz], I1, S1, hox⟩

/-- `cstl_unique_ptr_swap` -/
theorem uSwap_inv {σ : State} {a b : Nat} (I : Inv σ) (ha : a < σ.n) (hb : b < σ.n)
    (hsa : stamped σ a) (hsb : stamped σ b) (hka : σ.kind a = .unique) (hkb : σ.kind b = .unique) :
    ∃ σ', uSwap a b σ = .ok () σ' ∧ Inv σ' ∧ Same σ σ' := by
  unfold stamped at hsa hsb
  refine ⟨σ.upd (fun x =>
      if x = b then { σ.obj b with ptr := (σ.obj a).ptr, clr := (σ.obj a).clr, priv := (σ.obj a).priv }
      else if x = a then { σ.obj a with ptr := (σ.obj b).ptr, clr := (σ.obj b).clr, priv := (σ.obj b).priv }
      else σ.obj x) σ.blk σ.log σ.next, ?_, ?_, ⟨rfl, rfl, rfl⟩⟩
  · simp only [uSwap, gSwap_eval hsa hsb, bind_ok]
    congr 1
    refine State.ext' rfl rfl (fun x => ?_) (fun _ => rfl) rfl rfl rfl
    by_cases hxb : x = b
    · subst hxb
      by_cases hxa : x = a
      · subst hxa; simp; cases ho : σ.obj x; simp only [ho] at hsa; simp [hsa]
      · have hax : a ≠ x := fun e => hxa e.symm
        simp [hxa, hax]; cases ho : σ.obj x; simp only [ho] at hsb; simp [hsb, hax]
    · by_cases hxa : x = a
      · subst hxa; simp [hxb, Ne.symm hxb]; cases ho : σ.obj x; simp only [ho] at hsa; simp [hsa]
      · simp [hxa, hxb]
  · obtain ⟨hcH, hcW⟩ := cnt_irrel (σ := σ) (τ := σ.upd (fun x =>
      if x = b then { σ.obj b with ptr := (σ.obj a).ptr, clr := (σ.obj a).clr, priv := (σ.obj a).priv }
      else if x = a then { σ.obj a with ptr := (σ.obj b).ptr, clr := (σ.obj b).clr, priv := (σ.obj b).priv }
      else σ.obj x) σ.blk σ.log σ.next) rfl rfl (fun x hx => by
        have h1 : x ≠ a := by rintro rfl; simp [hka] at hx
        have h2 : x ≠ b := by rintro rfl; simp [hkb] at hx
        simp [h1, h2])
    have hinj := I.uniq_inj
    have hok := I.uniq_ok
    inv_clauses I
    · exact log_frame (σ := σ) I (by intro b; st_simp; grind)

end Cstl.Mem
