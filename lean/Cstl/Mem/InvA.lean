import Cstl.Mem.InvS3
import Cstl.Mem.InvM
/-
Preservation of the ownership invariant by the array view functions (all
argument objects properly stamped).
-/
set_option linter.unusedSimpArgs false
namespace Cstl.Mem

theorem same_trans {σ σ1 σ2 : State} (a : Same σ σ1) (b : Same σ1 σ2) : Same σ σ2 :=
  ⟨b.n.trans a.n, b.kind.trans a.kind, b.ext.trans a.ext⟩

theorem same_refl (σ : State) : Same σ σ := ⟨rfl, rfl, rfl⟩

/-- `cstl_shared_ptr_get` on a stamped owner -/
theorem sGet_eval {σ : State} {a : Nat} (I : Inv σ) (ha : a < σ.n) (hs : (σ.obj a).self = a)
    (hk : σ.kind a = .shared ∨ σ.kind a = .array) :
    sGet a σ = .ok (if (σ.obj a).ptr = 0 then 0 else (σ.blk (σ.obj a).ptr).up) σ := by
  by_cases hp : (σ.obj a).ptr = 0
  · simp [sGet, gGet_eval hs, hp]
  · obtain ⟨hl, hd, hlt, hcnt, hpos, hhard, hm, hmd, hmlt⟩ := owner_facts I ha hs hk hp
    simp [sGet, gGet_eval hs, hp, upGet_eval hl hpos.2]

/-- `cstl_shared_ptr_unique` on a stamped owner -/
theorem sUnique_eval {σ : State} {a : Nat} (I : Inv σ) (ha : a < σ.n) (hs : (σ.obj a).self = a)
    (hk : σ.kind a = .shared ∨ σ.kind a = .array) :
    sUnique a σ = .ok (if (σ.obj a).ptr = 0 then true else (σ.blk (σ.obj a).ptr).soft == 1) σ := by
  by_cases hp : (σ.obj a).ptr = 0
  · simp [sUnique, gGet_eval hs, hp]
  · obtain ⟨hl, hd, hlt, hcnt, hpos, hhard, hm, hmd, hmlt⟩ := owner_facts I ha hs hk hp
    simp [sUnique, gGet_eval hs, hp, hl]

/-- `cstl_array_reset` -/
theorem aReset_inv {σ : State} {a : Nat} (I : Inv σ) (ha : a < σ.n) (hs : stamped σ a)
    (hk : σ.kind a = .array) :
    ∃ σ', aReset a σ = .ok () σ' ∧ Inv σ' ∧ Same σ σ' ∧
      (∀ x, σ'.obj x = if x = a then { σ.obj a with ptr := 0, off := 0, len := 0 } else σ.obj x) := by
  obtain ⟨σ1, h1, I1, S1, ho1⟩ := sReset_inv I ha hs (Or.inr hk)
  refine ⟨_, by simp only [aReset, h1, bind_ok], fields_inv (a := a) 0 0 I1 (by rw [S1.n]; exact ha),
    ⟨S1.n, S1.kind, S1.ext⟩, ?_⟩
  intro x
  by_cases hx : x = a
  · subst hx; simp [ho1]
  · simp [hx, ho1]

/-- what `cstl_array_alloc` does after the allocation attempt: fill in the descriptor -/
def descTail (a nm sz e : Nat) (both : Bool) (σ : State) : Res Unit :=
  sGet a σ >>- fun ra σ =>
  if ra ≠ 0 then
    if (σ.blk ra).live = true then
      let σ := σ.setBlk ra (if both then { σ.blk ra with asz := sz, anm := nm, abuf := e }
                            else { σ.blk ra with anm := nm, abuf := e })
      .ok () (σ.setObj a { σ.obj a with len := nm })
    else .stop .asan σ
  else .ok () σ

theorem descTail_inv {σ : State} {a : Nat} (nm sz e : Nat) (both : Bool) (I : Inv σ) (ha : a < σ.n)
    (hs : (σ.obj a).self = a) (hk : σ.kind a = .array) :
    ∃ σ', descTail a nm sz e both σ = .ok () σ' ∧ Inv σ' ∧ Same σ σ' ∧
      (∀ x, x ≠ a → σ'.obj x = σ.obj x) ∧ (σ'.obj a).self = a ∧ (σ'.obj a).ptr = (σ.obj a).ptr ∧
      σ'.next = σ.next ∧
      (((σ.obj a).ptr = 0 ∧ σ' = σ) ∨
       ((σ.obj a).ptr ≠ 0 ∧ (σ'.obj a).off = (σ.obj a).off ∧ (σ'.obj a).len = nm ∧
        (∀ b, b ≠ (σ.blk (σ.obj a).ptr).up → σ'.blk b = σ.blk b) ∧
        σ'.blk (σ.blk (σ.obj a).ptr).up =
          { σ.blk (σ.blk (σ.obj a).ptr).up with
            asz := if both then sz else (σ.blk (σ.blk (σ.obj a).ptr).up).asz, anm := nm, abuf := e })) := by
  by_cases hp : (σ.obj a).ptr = 0
  · refine ⟨σ, ?_, I, same_refl σ, fun _ _ => rfl, hs, rfl, rfl, Or.inl ⟨hp, rfl⟩⟩
    simp [descTail, sGet_eval I ha hs (Or.inr hk), hp]
  · obtain ⟨hl, hd, hlt, hcnt, hpos, hhard, hm, hmd, hmlt⟩ := owner_facts I ha hs (Or.inr hk) hp
    cases both with
    | true =>
      have I1 := desc_inv sz nm e I hm.2.1
      refine ⟨_, ?_, fields_inv (σ.obj a).off nm I1 ha, ⟨rfl, rfl, rfl⟩, ?_, ?_, ?_, rfl,
        Or.inr ⟨hp, by simp, by simp, fun b hb => by simp [hb], by simp⟩⟩
      · simp only [descTail, sGet_eval I ha hs (Or.inr hk), hp, if_false, bind_ok, ne_eq, hm.1,
          not_false_eq_true, if_true, hm.2.1]
        rfl
      · intro x hx; simp [hx]
      · simp [hs]
      · simp
    | false =>
      have I1 := desc_inv (σ.blk (σ.blk (σ.obj a).ptr).up).asz nm e I hm.2.1
      refine ⟨_, ?_, fields_inv (σ.obj a).off nm I1 ha, ⟨rfl, rfl, rfl⟩, ?_, ?_, ?_, rfl,
        Or.inr ⟨hp, by simp, by simp, fun b hb => by simp [hb], by simp⟩⟩
      · simp only [descTail, sGet_eval I ha hs (Or.inr hk), hp, if_false, bind_ok, ne_eq, hm.1,
          not_false_eq_true, if_true, hm.2.1]
        rfl
      · intro x hx; simp [hx]
      · simp [hs]
      · simp

theorem aAlloc_eq (a nm sz : Nat) (ad am : Bool) (σ : State) :
    aAlloc a nm sz ad am σ =
      (aReset a σ >>- fun _ σ =>
        (if fits nm sz = true then sAlloc a ((HDR + nm * sz) % W) 0 ad am σ else .ok () σ) >>- fun _ σ =>
        descTail a nm sz 0 true σ) := rfl

theorem aSet_eq (a e nm sz : Nat) (ad am : Bool) (σ : State) :
    aSet a e nm sz ad am σ = (aAlloc a 0 sz ad am σ >>- fun _ σ => descTail a nm sz e false σ) := rfl

/-- `cstl_array_alloc` -/
theorem aAlloc_inv {σ : State} {a nm sz : Nat} {ad am : Bool} (I : Inv σ) (ha : a < σ.n)
    (hs : stamped σ a) (hk : σ.kind a = .array) :
    ∃ σ', aAlloc a nm sz ad am σ = .ok () σ' ∧ Inv σ' ∧ Same σ σ' ∧
      (∀ x, x ≠ a → σ'.obj x = σ.obj x) ∧ (σ'.obj a).self = a := by
  obtain ⟨σ1, h1, I1, S1, ho1⟩ := aReset_inv I ha hs hk
  unfold stamped at hs
  have ha1 : a < σ1.n := by rw [S1.n]; exact ha
  have hk1 : σ1.kind a = .array := by rw [S1.kind]; exact hk
  have hs1 : stamped σ1 a := by unfold stamped; rw [ho1]; simp [hs]
  have hox1 : ∀ x, x ≠ a → σ1.obj x = σ.obj x := fun x hx => by rw [ho1]; simp [hx]
  rw [aAlloc_eq, h1, bind_ok]
  by_cases hf : fits nm sz = true
  · obtain ⟨σ2, h2, I2, S2, hox2, hres⟩ := sAlloc_inv (sz := (HDR + nm * sz) % W) (clr := 0) (ad := ad) (am := am)
      I1 ha1 hs1 (Or.inr hk1)
    simp only [hf, if_true, h2, bind_ok]
    have hs2 : (σ2.obj a).self = a := by
      rcases hres with ⟨h, _⟩ | ⟨d, h, _⟩ <;> rw [h] <;> exact hs1
    obtain ⟨σ3, h3, I3, S3, hox3, hs3, _, _, _⟩ := descTail_inv nm sz 0 true I2 (by rw [S2.n]; exact ha1) hs2
      (by rw [S2.kind]; exact hk1)
    exact ⟨σ3, h3, I3, same_trans S1 (same_trans S2 S3),
      fun x hx => by rw [hox3 x hx, hox2 x hx, hox1 x hx], hs3⟩
  · simp only [hf, if_false, bind_ok]
    obtain ⟨σ3, h3, I3, S3, hox3, hs3, _, _, _⟩ := descTail_inv nm sz 0 true I1 ha1 hs1 hk1
    exact ⟨σ3, h3, I3, same_trans S1 S3, fun x hx => by rw [hox3 x hx, hox1 x hx], hs3⟩

/-- `cstl_array_set` -/
theorem aSet_inv {σ : State} {a e nm sz : Nat} {ad am : Bool} (I : Inv σ) (ha : a < σ.n)
    (hs : stamped σ a) (hk : σ.kind a = .array) :
    ∃ σ', aSet a e nm sz ad am σ = .ok () σ' ∧ Inv σ' ∧ Same σ σ' ∧
      (∀ x, x ≠ a → σ'.obj x = σ.obj x) ∧ (σ'.obj a).self = a := by
  obtain ⟨σ1, h1, I1, S1, hox1, hs1⟩ := aAlloc_inv (nm := 0) (sz := sz) (ad := ad) (am := am) I ha hs hk
  rw [aSet_eq, h1, bind_ok]
  obtain ⟨σ3, h3, I3, S3, hox3, hs3, _, _, _⟩ := descTail_inv nm sz e false I1 (by rw [S1.n]; exact ha) hs1
    (by rw [S1.kind]; exact hk)
  exact ⟨σ3, h3, I3, same_trans S1 S3, fun x hx => by rw [hox3 x hx, hox1 x hx], hs3⟩

/-- `cstl_array_release`: either nothing changes or the object is reset -/
theorem aRelease_inv {σ : State} {a : Nat} (I : Inv σ) (ha : a < σ.n) (hs : stamped σ a)
    (hk : σ.kind a = .array) :
    ∃ l σ', aRelease a σ = .ok l σ' ∧ Inv σ' ∧ Same σ σ' ∧
      ((l = .null ∧ σ' = σ) ∨
       (aReset a σ = .ok () σ' ∧ (σ.obj a).ptr ≠ 0 ∧ (σ.blk (σ.blk (σ.obj a).ptr).up).abuf ≠ 0 ∧
          (σ.blk (σ.obj a).ptr).soft = 1 ∧
          l = bufLoc (σ.blk (σ.obj a).ptr).up (σ.blk (σ.blk (σ.obj a).ptr).up) 0)) := by
  have hs' : (σ.obj a).self = a := hs
  by_cases hp : (σ.obj a).ptr = 0
  · refine ⟨.null, σ, ?_, I, same_refl σ, Or.inl ⟨rfl, rfl⟩⟩
    simp [aRelease, sGet_eval I ha hs' (Or.inr hk), hp]
  · obtain ⟨hl, hd, hlt, hcnt, hpos, hhard, hm, hmd, hmlt⟩ := owner_facts I ha hs' (Or.inr hk) hp
    by_cases hb : (σ.blk (σ.blk (σ.obj a).ptr).up).abuf = 0
    · refine ⟨.null, σ, ?_, I, same_refl σ, Or.inl ⟨rfl, rfl⟩⟩
      simp [aRelease, sGet_eval I ha hs' (Or.inr hk), hp, hm.1, hm.2.1, hb]
    · by_cases hu : (σ.blk (σ.obj a).ptr).soft = 1
      · obtain ⟨σ1, h1, I1, S1, _⟩ := aReset_inv I ha hs hk
        refine ⟨_, σ1, ?_, I1, S1, Or.inr ⟨h1, hp, hb, hu, rfl⟩⟩
        simp [aRelease, sGet_eval I ha hs' (Or.inr hk), sUnique_eval I ha hs' (Or.inr hk), hp, hm.1, hm.2.1, hb,
          hu, h1]
      · refine ⟨.null, σ, ?_, I, same_refl σ, Or.inl ⟨rfl, rfl⟩⟩
        simp [aRelease, sGet_eval I ha hs' (Or.inr hk), sUnique_eval I ha hs' (Or.inr hk), hp, hm.1, hm.2.1, hb, hu]

/-- `cstl_array_data` never changes the state and never faults -/
theorem aData_eval {σ : State} {a : Nat} (I : Inv σ) (ha : a < σ.n) (hs : stamped σ a)
    (hk : σ.kind a = .array) :
    aData a σ = .ok (if (σ.obj a).ptr = 0 then .null
      else bufLoc (σ.blk (σ.obj a).ptr).up (σ.blk (σ.blk (σ.obj a).ptr).up) 0) σ := by
  have hs' : (σ.obj a).self = a := hs
  by_cases hp : (σ.obj a).ptr = 0
  · simp [aData, sGet_eval I ha hs' (Or.inr hk), hp]
  · obtain ⟨hl, hd, hlt, hcnt, hpos, hhard, hm, hmd, hmlt⟩ := owner_facts I ha hs' (Or.inr hk) hp
    simp [aData, sGet_eval I ha hs' (Or.inr hk), hp, hm.1, hm.2.1]

/-- `cstl_array_at`: abort on a bad index, otherwise a location; a NULL descriptor would be dereferenced
only if the object claimed a length without a buffer -/
theorem aAt_eval {σ : State} {a i : Nat} (I : Inv σ) (ha : a < σ.n) (hs : stamped σ a)
    (hk : σ.kind a = .array) :
    aAt a i σ =
      if i ≥ (σ.obj a).len then .stop .abort σ
      else if (σ.obj a).ptr = 0 then .stop .segv σ
      else .ok (bufLoc (σ.blk (σ.obj a).ptr).up (σ.blk (σ.blk (σ.obj a).ptr).up)
        ((((σ.obj a).off + i) % W) * (σ.blk (σ.blk (σ.obj a).ptr).up).asz % W)) σ := by
  have hs' : (σ.obj a).self = a := hs
  by_cases hi : i ≥ (σ.obj a).len
  · simp [aAt, hi]
  · by_cases hp : (σ.obj a).ptr = 0
    · simp [aAt, hi, sGet_eval I ha hs' (Or.inr hk), hp]
    · obtain ⟨hl, hd, hlt, hcnt, hpos, hhard, hm, hmd, hmlt⟩ := owner_facts I ha hs' (Or.inr hk) hp
      simp [aAt, hi, sGet_eval I ha hs' (Or.inr hk), hp, hm.1, hm.2.1]

/-- `cstl_array_slice`: aborts exactly on an empty source or bad bounds -/
theorem aSlice_inv {σ : State} {a beg en s : Nat} (I : Inv σ) (ha : a < σ.n) (hsn : s < σ.n)
    (hsa : stamped σ a) (hss : stamped σ s) (hka : σ.kind a = .array) (hks : σ.kind s = .array) :
    (((σ.obj a).ptr = 0 ∨ en < beg ∨
        en > ((σ.blk (σ.blk (σ.obj a).ptr).up).anm + W - (σ.obj a).off) % W) → aSlice a beg en s σ = .stop .abort σ) ∧
    (¬ ((σ.obj a).ptr = 0 ∨ en < beg ∨
        en > ((σ.blk (σ.blk (σ.obj a).ptr).up).anm + W - (σ.obj a).off) % W) →
      ∃ σ', aSlice a beg en s σ = .ok () σ' ∧ Inv σ' ∧ Same σ σ' ∧
        (∀ x, σ'.obj x = if x = s then
            { σ.obj s with ptr := (σ.obj a).ptr, off := ((σ.obj a).off + beg) % W, len := en - beg }
          else σ.obj x)) := by
  have hsa' : (σ.obj a).self = a := hsa
  have hss' : (σ.obj s).self = s := hss
  constructor
  · intro hc
    by_cases hp : (σ.obj a).ptr = 0
    · simp [aSlice, sGet_eval I ha hsa' (Or.inr hka), hp]
    · obtain ⟨hl, hd, hlt, hcnt, hpos, hhard, hm, hmd, hmlt⟩ := owner_facts I ha hsa' (Or.inr hka) hp
      have hc' : en < beg ∨ en > ((σ.blk (σ.blk (σ.obj a).ptr).up).anm + W - (σ.obj a).off) % W := by
        rcases hc with h | h
        · exact absurd h hp
        · exact h
      simp [aSlice, sGet_eval I ha hsa' (Or.inr hka), hp, hm.1, hm.2.1, hc']
  · intro hc
    have hp : (σ.obj a).ptr ≠ 0 := fun h => hc (Or.inl h)
    have hc' : ¬ (en < beg ∨ en > ((σ.blk (σ.blk (σ.obj a).ptr).up).anm + W - (σ.obj a).off) % W) :=
      fun h => hc (Or.inr h)
    obtain ⟨hl, hd, hlt, hcnt, hpos, hhard, hm, hmd, hmlt⟩ := owner_facts I ha hsa' (Or.inr hka) hp
    have I1 := fields_inv (((σ.obj a).off + beg) % W) (en - beg) I hsn
    by_cases has : a = s
    · subst has
      refine ⟨_, ?_, I1, ⟨rfl, rfl, rfl⟩, ?_⟩
      · simp only [aSlice, sGet_eval I ha hsa' (Or.inr hka), hp, if_false, bind_ok, hm.1, hm.2.1, if_true,
          hc', ne_eq, not_true_eq_false]
      · intro x; by_cases hx : x = a <;> simp [hx]
    · have hsa1 : stamped (σ.setObj s { σ.obj s with off := ((σ.obj a).off + beg) % W, len := en - beg }) a := by
        simp [stamped, has, hsa']
      have hss1 : stamped (σ.setObj s { σ.obj s with off := ((σ.obj a).off + beg) % W, len := en - beg }) s := by
        simp [stamped, hss']
      obtain ⟨σ2, h2, I2, S2, ho2⟩ := sShare_inv I1 (by simpa using ha) (by simpa using hsn) hsa1 hss1
        (by simpa using Or.inr hka) (by simpa using Or.inr hks)
      refine ⟨σ2, ?_, I2, ⟨S2.n, S2.kind, S2.ext⟩, ?_⟩
      · simp only [aSlice, sGet_eval I ha hsa' (Or.inr hka), hp, if_false, bind_ok, hm.1, hm.2.1, if_true,
          hc', ne_eq, has, not_false_eq_true, h2]
      · intro x; rw [ho2]
        by_cases hx : x = s
        · subst hx; simp [has]
        · simp [hx]

/-- `cstl_array_unslice`: aborts exactly on an empty source -/
theorem aUnslice_inv {σ : State} {s a : Nat} (I : Inv σ) (ha : a < σ.n) (hsn : s < σ.n)
    (hsa : stamped σ a) (hss : stamped σ s) (hka : σ.kind a = .array) (hks : σ.kind s = .array) :
    ((σ.obj s).ptr = 0 → aUnslice s a σ = .stop .abort σ) ∧
    ((σ.obj s).ptr ≠ 0 →
      ∃ σ', aUnslice s a σ = .ok () σ' ∧ Inv σ' ∧ Same σ σ' ∧
        (∀ x, σ'.obj x = if x = a then
            { σ.obj a with ptr := (σ.obj s).ptr, off := 0, len := (σ.blk (σ.blk (σ.obj s).ptr).up).anm }
          else σ.obj x)) := by
  have hsa' : (σ.obj a).self = a := hsa
  have hss' : (σ.obj s).self = s := hss
  constructor
  · intro hp
    simp [aUnslice, sGet_eval I hsn hss' (Or.inr hks), hp]
  · intro hp
    obtain ⟨hl, hd, hlt, hcnt, hpos, hhard, hm, hmd, hmlt⟩ := owner_facts I hsn hss' (Or.inr hks) hp
    have I1 := fields_inv 0 (σ.blk (σ.blk (σ.obj s).ptr).up).anm I ha
    by_cases has : a = s
    · subst has
      refine ⟨_, ?_, I1, ⟨rfl, rfl, rfl⟩, ?_⟩
      · simp only [aUnslice, sGet_eval I hsn hss' (Or.inr hks), hp, if_false, bind_ok, hm.1, hm.2.1, if_true,
          ne_eq, not_true_eq_false]
      · intro x; by_cases hx : x = a <;> simp [hx]
    · have hsa1 : stamped (σ.setObj a { σ.obj a with off := 0, len := (σ.blk (σ.blk (σ.obj s).ptr).up).anm }) a := by
        simp [stamped, hsa']
      have hss1 : stamped (σ.setObj a { σ.obj a with off := 0, len := (σ.blk (σ.blk (σ.obj s).ptr).up).anm }) s := by
        simp [stamped, Ne.symm has, hss']
      obtain ⟨σ2, h2, I2, S2, ho2⟩ := sShare_inv I1 (by simpa using hsn) (by simpa using ha) hss1 hsa1
        (by simpa using Or.inr hks) (by simpa using Or.inr hka)
      refine ⟨σ2, ?_, I2, ⟨S2.n, S2.kind, S2.ext⟩, ?_⟩
      · simp only [aUnslice, sGet_eval I hsn hss' (Or.inr hks), hp, if_false, bind_ok, hm.1, hm.2.1, if_true,
          ne_eq, has, not_false_eq_true, h2]
      · intro x; rw [ho2]
        by_cases hx : x = a
        · subst hx; simp [Ne.symm has, has]
        · simp [hx]

end Cstl.Mem
