import Cstl.Mem.Lemmas
/-
The ownership invariant of the smart-pointer model (C05) and its preservation
by every model function.
-/
namespace Cstl.Mem

/-- the object at `a` carries its own address (it was not copied bitwise) -/
def stamped (σ : State) (a : Nat) : Prop := (σ.obj a).self = a

/-- `a` is a stamped shared pointer (or the shared pointer inside an array object) to `d` -/
def HRef (obj : Nat → Obj) (kind : Nat → Kind) (d a : Nat) : Prop :=
  (obj a).self = a ∧ (kind a = .shared ∨ kind a = .array) ∧ (obj a).ptr = d

/-- `a` is a stamped weak pointer to `d` -/
def WRef (obj : Nat → Obj) (kind : Nat → Kind) (d a : Nat) : Prop :=
  (obj a).self = a ∧ kind a = .weak ∧ (obj a).ptr = d

instance (obj : Nat → Obj) (kind : Nat → Kind) (d : Nat) : DecidablePred (HRef obj kind d) := fun a => by
  unfold HRef; exact inferInstance
instance (obj : Nat → Obj) (kind : Nat → Kind) (d : Nat) : DecidablePred (WRef obj kind d) := fun a => by
  unfold WRef; exact inferInstance

/-- number of owners of `d` -/
def nH (σ : State) (d : Nat) : Nat := cnt (HRef σ.obj σ.kind d) σ.n
/-- number of weak references to `d` -/
def nW (σ : State) (d : Nat) : Nat := cnt (WRef σ.obj σ.kind d) σ.n

/-- `m` is the live managed memory of the bookkeeping block `d` -/
def MemOk (σ : State) (d m : Nat) : Prop :=
  m ≠ 0 ∧ (σ.blk m).live = true ∧ (σ.blk m).isData = false ∧ (σ.blk m).ownerD = d ∧
  (σ.blk m).clrG = (σ.blk d).upClr ∧ (σ.blk m).privG = 0

/-- `m` is the live memory owned by the unique pointer object `a` -/
def UMemOk (σ : State) (a m : Nat) : Prop :=
  (σ.blk m).live = true ∧ (σ.blk m).isData = false ∧ (σ.blk m).ownerD = 0 ∧
  (σ.blk m).clrG = (σ.obj a).clr ∧ (σ.blk m).privG = (σ.obj a).priv

/-- the view `o` fits the descriptor `k`: offset + length within the element count,
the byte count `nm * sz` representable, an inline buffer fills its block exactly,
an external buffer has room for it -/
def ArrOk (o : Obj) (k : Blk) (ext : Nat → Nat) : Prop :=
  o.off + o.len ≤ k.anm ∧ k.anm * k.asz < W ∧ k.anm < W ∧ k.asz < W ∧
  (k.abuf = 0 → HDR + k.anm * k.asz = k.size ∧ k.size < W) ∧ (k.abuf ≠ 0 → k.anm * k.asz ≤ ext k.abuf)

/-- the log consists of allocation events and release groups: the release of
managed memory with a registered clear callback is immediately preceded by that
callback (with the registered argument), no callback runs otherwise -/
inductive LogOk (g : Nat → Blk) : List Ev → Prop
  | nil : LogOk g []
  | alloc {l : List Ev} (b sz : Nat) : LogOk g l → LogOk g (l ++ [.alloc b sz])
  | allocFail {l : List Ev} (sz : Nat) : LogOk g l → LogOk g (l ++ [.allocFail sz])
  | free {l : List Ev} (b : Nat) : LogOk g l → ((g b).isData = true ∨ (g b).clrG = 0) →
      LogOk g (l ++ [.free b])
  | clrFree {l : List Ev} (f b pr : Nat) : LogOk g l → (g b).isData = false → f ≠ 0 →
      f = (g b).clrG → pr = (g b).privG → LogOk g (l ++ [.clr f b pr, .free b])

structure Inv (σ : State) : Prop where
  zero : (σ.blk 0).live = false
  fresh : ∀ b, σ.next ≤ b → σ.blk b = {}
  next_pos : 0 < σ.next
  /-- a stamped shared / weak / array object refers to a live bookkeeping block -/
  ref_ok : ∀ a d, a < σ.n → (HRef σ.obj σ.kind d a ∨ WRef σ.obj σ.kind d a) → d ≠ 0 →
    (σ.blk d).live = true ∧ (σ.blk d).isData = true
  /-- hard = number of owners, soft = owners + weak references -/
  data_cnt : ∀ d, (σ.blk d).live = true → (σ.blk d).isData = true →
    (σ.blk d).hard = nH σ d ∧ (σ.blk d).soft = nH σ d + nW σ d
  /-- the bookkeeping block lives only while referenced; its embedded pointer is intact -/
  data_pos : ∀ d, (σ.blk d).live = true → (σ.blk d).isData = true →
    0 < (σ.blk d).soft ∧ (σ.blk d).upOk = true
  /-- no owner: the managed memory is gone -/
  data_up0 : ∀ d, (σ.blk d).live = true → (σ.blk d).isData = true → (σ.blk d).hard = 0 →
    (σ.blk d).up = 0 ∧ (σ.blk d).upClr = 0
  /-- an owner: the managed memory is live -/
  data_up : ∀ d, (σ.blk d).live = true → (σ.blk d).isData = true → (σ.blk d).hard ≠ 0 →
    MemOk σ d (σ.blk d).up
  uniq_ok : ∀ a, a < σ.n → stamped σ a → σ.kind a = .unique →
    ((σ.obj a).ptr = 0 → (σ.obj a).clr = 0) ∧ ((σ.obj a).ptr ≠ 0 → UMemOk σ a (σ.obj a).ptr)
  uniq_inj : ∀ a b, a < σ.n → b < σ.n → stamped σ a → stamped σ b → σ.kind a = .unique →
    σ.kind b = .unique → (σ.obj a).ptr = (σ.obj b).ptr → (σ.obj a).ptr ≠ 0 → a = b
  log_ok : LogOk σ.blk σ.log
  log_lt : ∀ b, Ev.free b ∈ σ.log → b < σ.next
  /-- ghosts: the bookkeeping block a managed block was allocated for -/
  owner_lt : ∀ m, (σ.blk m).ownerD < σ.next
  owner_inj : ∀ m m', (σ.blk m).isData = false → (σ.blk m').isData = false →
    (σ.blk m).ownerD = (σ.blk m').ownerD → (σ.blk m).ownerD ≠ 0 → m = m'
  /-- every live block of client memory has its owner (nothing leaks) -/
  mem_owned : ∀ m, (σ.blk m).live = true → (σ.blk m).isData = false →
    ((σ.blk m).ownerD = 0 → ∃ a, a < σ.n ∧ stamped σ a ∧ σ.kind a = .unique ∧ (σ.obj a).ptr = m) ∧
    ((σ.blk m).ownerD ≠ 0 → (σ.blk (σ.blk m).ownerD).live = true ∧
      (σ.blk (σ.blk m).ownerD).isData = true ∧ (σ.blk (σ.blk m).ownerD).up = m)

theorem Inv.live_lt {σ : State} (I : Inv σ) {b : Nat} (h : (σ.blk b).live = true) : b < σ.next := by
  by_cases hb : b < σ.next
  · exact hb
  · have := I.fresh b (by omega)
    rw [this] at h; simp at h

theorem Inv.live_ne0 {σ : State} (I : Inv σ) {b : Nat} (h : (σ.blk b).live = true) : b ≠ 0 := by
  intro e; subst e; rw [I.zero] at h; simp at h

/-- the log only cares about the ghosts of the blocks -/
theorem LogOk.congr {g g' : Nat → Blk} {l : List Ev}
    (h : ∀ b, (g' b).isData = (g b).isData ∧ (g' b).clrG = (g b).clrG ∧ (g' b).privG = (g b).privG)
    (L : LogOk g l) : LogOk g' l := by
  induction L with
  | nil => exact .nil
  | alloc b sz _ ih => exact .alloc b sz ih
  | allocFail sz _ ih => exact .allocFail sz ih
  | free b _ hb ih => exact .free b ih (by rw [(h b).1, (h b).2.1]; exact hb)
  | clrFree f b pr _ h1 h2 h3 h4 ih =>
    exact .clrFree f b pr ih (by rw [(h b).1]; exact h1) h2 (by rw [(h b).2.1]; exact h3)
      (by rw [(h b).2.2]; exact h4)

/-! ### how the reference counts move -/

@[simp] theorem nH_setBlk (σ : State) (b : Nat) (k : Blk) (d : Nat) : nH (σ.setBlk b k) d = nH σ d := rfl
@[simp] theorem nW_setBlk (σ : State) (b : Nat) (k : Blk) (d : Nat) : nW (σ.setBlk b k) d = nW σ d := rfl
@[simp] theorem nH_emit (σ : State) (e : Ev) (d : Nat) : nH (σ.emit e) d = nH σ d := rfl
@[simp] theorem nW_emit (σ : State) (e : Ev) (d : Nat) : nW (σ.emit e) d = nW σ d := rfl

theorem nH_setObj {σ : State} {a : Nat} (o : Obj) (d : Nat) (ha : a < σ.n) :
    nH (σ.setObj a o) d + (if HRef σ.obj σ.kind d a then 1 else 0)
      = nH σ d + (if o.self = a ∧ (σ.kind a = .shared ∨ σ.kind a = .array) ∧ o.ptr = d then 1 else 0) := by
  have h := cnt_change (p := HRef σ.obj σ.kind d) (q := HRef (σ.setObj a o).obj σ.kind d) ha
    (fun x _ hxa => by simp [HRef, hxa])
  have e : HRef (σ.setObj a o).obj σ.kind d a ↔
      (o.self = a ∧ (σ.kind a = .shared ∨ σ.kind a = .array) ∧ o.ptr = d) := by simp [HRef]
  simp only [e] at h
  exact h

theorem nW_setObj {σ : State} {a : Nat} (o : Obj) (d : Nat) (ha : a < σ.n) :
    nW (σ.setObj a o) d + (if WRef σ.obj σ.kind d a then 1 else 0)
      = nW σ d + (if o.self = a ∧ σ.kind a = .weak ∧ o.ptr = d then 1 else 0) := by
  have h := cnt_change (p := WRef σ.obj σ.kind d) (q := WRef (σ.setObj a o).obj σ.kind d) ha
    (fun x _ hxa => by simp [WRef, hxa])
  have e : WRef (σ.setObj a o).obj σ.kind d a ↔ (o.self = a ∧ σ.kind a = .weak ∧ o.ptr = d) := by
    simp [WRef]
  simp only [e] at h
  exact h

theorem nH_gSet {σ : State} {a : Nat} (p d : Nat) (ha : a < σ.n) :
    nH (gSet a p σ) d + (if HRef σ.obj σ.kind d a then 1 else 0)
      = nH σ d + (if (σ.kind a = .shared ∨ σ.kind a = .array) ∧ p = d then 1 else 0) := by
  have := nH_setObj (σ := σ) { σ.obj a with self := a, ptr := p } d ha
  simpa [gSet] using this

theorem nW_gSet {σ : State} {a : Nat} (p d : Nat) (ha : a < σ.n) :
    nW (gSet a p σ) d + (if WRef σ.obj σ.kind d a then 1 else 0)
      = nW σ d + (if σ.kind a = .weak ∧ p = d then 1 else 0) := by
  have := nW_setObj (σ := σ) { σ.obj a with self := a, ptr := p } d ha
  simpa [gSet] using this

theorem nH_pos {σ : State} {d : Nat} : 0 < nH σ d ↔ ∃ x, x < σ.n ∧ HRef σ.obj σ.kind d x := cnt_pos
theorem nW_pos {σ : State} {d : Nat} : 0 < nW σ d ↔ ∃ x, x < σ.n ∧ WRef σ.obj σ.kind d x := cnt_pos

/-! ### frame lemmas -/

/-- the clauses about unique pointers carry over when the unique objects and their memory are untouched -/
theorem uniq_frame {σ τ : State} (I : Inv σ) (hn : τ.n = σ.n) (hk : τ.kind = σ.kind)
    (ho : ∀ x, σ.kind x = .unique → τ.obj x = σ.obj x)
    (hb : ∀ m, (σ.blk m).live = true → (σ.blk m).isData = false → (σ.blk m).ownerD = 0 → τ.blk m = σ.blk m) :
    (∀ a, a < τ.n → stamped τ a → τ.kind a = .unique →
      ((τ.obj a).ptr = 0 → (τ.obj a).clr = 0) ∧ ((τ.obj a).ptr ≠ 0 → UMemOk τ a (τ.obj a).ptr)) ∧
    (∀ a b, a < τ.n → b < τ.n → stamped τ a → stamped τ b → τ.kind a = .unique →
      τ.kind b = .unique → (τ.obj a).ptr = (τ.obj b).ptr → (τ.obj a).ptr ≠ 0 → a = b) := by
  constructor
  · intro a ha hs hka
    rw [hk] at hka; rw [hn] at ha
    unfold stamped at hs; rw [ho a hka] at hs ⊢
    have := I.uniq_ok a ha hs hka
    refine ⟨this.1, fun hne => ?_⟩
    have h2 := this.2 hne
    unfold UMemOk at h2 ⊢
    rw [ho a hka, hb _ h2.1 h2.2.1 h2.2.2.1]; exact h2
  · intro a b ha hb' hsa hsb hka hkb
    rw [hk] at hka hkb; rw [hn] at ha hb'
    unfold stamped at hsa hsb; rw [ho a hka] at hsa ⊢; rw [ho b hkb] at hsb ⊢
    exact I.uniq_inj a b ha hb' hsa hsb hka hkb

/-- the log only cares about the ghosts of the blocks it mentions -/
theorem LogOk.congr' {g g' : Nat → Blk} {l : List Ev}
    (h : ∀ b, Ev.free b ∈ l →
      (g' b).isData = (g b).isData ∧ (g' b).clrG = (g b).clrG ∧ (g' b).privG = (g b).privG)
    (L : LogOk g l) : LogOk g' l := by
  induction L with
  | nil => exact .nil
  | alloc b sz _ ih => exact .alloc b sz (ih (fun b hb => h b (by simp [hb])))
  | allocFail sz _ ih => exact .allocFail sz (ih (fun b hb => h b (by simp [hb])))
  | free b _ hb ih =>
    have hh := h b (by simp)
    exact .free b (ih (fun b hb => h b (by simp [hb]))) (by rw [hh.1, hh.2.1]; exact hb)
  | clrFree f b pr _ h1 h2 h3 h4 ih =>
    have hh := h b (by simp)
    exact .clrFree f b pr (ih (fun b hb => h b (by simp [hb]))) (by rw [hh.1]; exact h1) h2
      (by rw [hh.2.1]; exact h3) (by rw [hh.2.2]; exact h4)

/-- updates that keep the ghosts keep the log well-formed -/
theorem uniq_ok_frame {σ τ : State} (I : Inv σ) (hn : τ.n = σ.n) (hk : τ.kind = σ.kind)
    (ho : ∀ x, σ.kind x = .unique → τ.obj x = σ.obj x)
    (hb : ∀ m, (σ.blk m).live = true → (σ.blk m).isData = false → (σ.blk m).ownerD = 0 → τ.blk m = σ.blk m) :
    ∀ a, a < τ.n → stamped τ a → τ.kind a = .unique →
      ((τ.obj a).ptr = 0 → (τ.obj a).clr = 0) ∧ ((τ.obj a).ptr ≠ 0 → UMemOk τ a (τ.obj a).ptr) :=
  (uniq_frame I hn hk ho hb).1

theorem uniq_inj_frame {σ τ : State} (I : Inv σ) (hn : τ.n = σ.n) (hk : τ.kind = σ.kind)
    (ho : ∀ x, σ.kind x = .unique → τ.obj x = σ.obj x)
    (hb : ∀ m, (σ.blk m).live = true → (σ.blk m).isData = false → (σ.blk m).ownerD = 0 → τ.blk m = σ.blk m) :
    ∀ a b, a < τ.n → b < τ.n → stamped τ a → stamped τ b → τ.kind a = .unique →
      τ.kind b = .unique → (τ.obj a).ptr = (τ.obj b).ptr → (τ.obj a).ptr ≠ 0 → a = b :=
  (uniq_frame I hn hk ho hb).2

theorem log_frame {σ : State} {g' : Nat → Blk} (I : Inv σ)
    (h : ∀ b, (g' b).isData = (σ.blk b).isData ∧ (g' b).clrG = (σ.blk b).clrG ∧ (g' b).privG = (σ.blk b).privG) :
    LogOk g' σ.log := LogOk.congr h I.log_ok

/-! ### states in clean form -/

theorem State.ext' {σ τ : State} (h1 : σ.n = τ.n) (h2 : σ.kind = τ.kind) (h3 : ∀ x, σ.obj x = τ.obj x)
    (h4 : ∀ b, σ.blk b = τ.blk b) (h5 : σ.next = τ.next) (h6 : σ.log = τ.log)
    (h7 : σ.extSize = τ.extSize) : σ = τ := by
  cases σ; cases τ
  simp only at h1 h2 h3 h4 h5 h6 h7
  have e3 := funext h3
  have e4 := funext h4
  subst h1 h2 e3 e4 h5 h6 h7
  rfl

/-- `σ` with new objects, blocks, log and block counter -/
def State.upd (σ : State) (obj : Nat → Obj) (blk : Nat → Blk) (log : List Ev) (next : Nat) : State :=
  { σ with obj := obj, blk := blk, log := log, next := next }

@[simp] theorem upd_obj (σ : State) (o : Nat → Obj) (b : Nat → Blk) (l : List Ev) (n : Nat) :
    (σ.upd o b l n).obj = o := rfl
@[simp] theorem upd_blk (σ : State) (o : Nat → Obj) (b : Nat → Blk) (l : List Ev) (n : Nat) :
    (σ.upd o b l n).blk = b := rfl
@[simp] theorem upd_log (σ : State) (o : Nat → Obj) (b : Nat → Blk) (l : List Ev) (n : Nat) :
    (σ.upd o b l n).log = l := rfl
@[simp] theorem upd_next (σ : State) (o : Nat → Obj) (b : Nat → Blk) (l : List Ev) (n : Nat) :
    (σ.upd o b l n).next = n := rfl
@[simp] theorem upd_n (σ : State) (o : Nat → Obj) (b : Nat → Blk) (l : List Ev) (n : Nat) :
    (σ.upd o b l n).n = σ.n := rfl
@[simp] theorem upd_kind (σ : State) (o : Nat → Obj) (b : Nat → Blk) (l : List Ev) (n : Nat) :
    (σ.upd o b l n).kind = σ.kind := rfl
@[simp] theorem upd_ext (σ : State) (o : Nat → Obj) (b : Nat → Blk) (l : List Ev) (n : Nat) :
    (σ.upd o b l n).extSize = σ.extSize := rfl
@[simp] theorem nH_upd_gSet (σ : State) (a p : Nat) (b : Nat → Blk) (l : List Ev) (n d : Nat) :
    nH (σ.upd (gSet a p σ).obj b l n) d = nH (gSet a p σ) d := rfl
@[simp] theorem nW_upd_gSet (σ : State) (a p : Nat) (b : Nat → Blk) (l : List Ev) (n d : Nat) :
    nW (σ.upd (gSet a p σ).obj b l n) d = nW (gSet a p σ) d := rfl
@[simp] theorem nH_upd_same (σ : State) (b : Nat → Blk) (l : List Ev) (n d : Nat) :
    nH (σ.upd σ.obj b l n) d = nH σ d := rfl
@[simp] theorem nW_upd_same (σ : State) (b : Nat → Blk) (l : List Ev) (n d : Nat) :
    nW (σ.upd σ.obj b l n) d = nW σ d := rfl
@[simp] theorem nH_upd_setObj (σ : State) (a : Nat) (o : Obj) (b : Nat → Blk) (l : List Ev) (n d : Nat) :
    nH (σ.upd (σ.setObj a o).obj b l n) d = nH (σ.setObj a o) d := rfl
@[simp] theorem nW_upd_setObj (σ : State) (a : Nat) (o : Obj) (b : Nat → Blk) (l : List Ev) (n d : Nat) :
    nW (σ.upd (σ.setObj a o).obj b l n) d = nW (σ.setObj a o) d := rfl
theorem nH_def (σ : State) (d : Nat) : nH σ d = cnt (HRef σ.obj σ.kind d) σ.n := rfl
theorem nW_def (σ : State) (d : Nat) : nW σ d = cnt (WRef σ.obj σ.kind d) σ.n := rfl

/-! ### automation -/

/-- reduce every projection of an updated state -/
macro "st_simp" : tactic => `(tactic| simp only [setBlk_blk, gSet_blk, setBlk_obj, gSet_obj, setBlk_kind, gSet_kind,
  setBlk_n, gSet_n, setBlk_next, gSet_next, setBlk_log, gSet_log, emit_obj, emit_blk, emit_n, emit_kind, emit_next,
  emit_log, setObj_obj, setObj_blk, setObj_n, setObj_kind, setObj_next, setObj_log,
  upd_obj, upd_blk, upd_log, upd_next, upd_n, upd_kind, upd_ext, setObj_ext, setBlk_ext, emit_ext, gSet_ext, nH_upd_gSet, nW_upd_gSet, nH_upd_same, nW_upd_same,
  nH_upd_setObj, nW_upd_setObj,
  nH_setBlk, nW_setBlk, nH_emit, nW_emit, HRef, WRef, MemOk, UMemOk, ArrOk, stamped] at *)

/-- two states are equal: field by field -/
macro "st_ext" : tactic => `(tactic| (
  refine State.ext' ?_ ?_ (fun x => ?_) (fun b => ?_) ?_ ?_ ?_ <;>
    (try simp only [upInit, uInit, sInit, aInit]) <;> st_simp <;> try (first | rfl | grind)))

/-- all clauses of `Inv` except the one about the log, from the clauses of `I` -/
macro "inv_clauses" I:ident : tactic => `(tactic| (
  have hzero__ := ($I).zero
  refine ⟨?_, ?_, ?_, ?_, ?_, ?_, ?_, ?_, ?_, ?_, ?_, ?_, ?_, ?_, ?_⟩
  · st_simp; grind
  · have := ($I).fresh; st_simp; grind
  · have := ($I).next_pos; st_simp; grind
  · have := ($I).ref_ok; st_simp; grind
  · have := ($I).data_cnt; st_simp; grind
  · have := ($I).data_pos; have := ($I).data_cnt; st_simp; grind
  · have := ($I).data_up0; st_simp; grind
  · have := ($I).data_up; st_simp; grind
  · have := ($I).uniq_ok; st_simp; grind
  · have := ($I).uniq_inj; st_simp; grind
  rotate_left 1
  · have := ($I).log_lt; have hlive_lt__ := @Inv.live_lt _ $I; st_simp; try simp only [List.mem_append, List.mem_cons, List.mem_nil_iff, List.mem_singleton, or_false, Ev.free.injEq, reduceCtorEq, false_or, or_false] at *
    grind
  · have := ($I).owner_lt; st_simp; grind
  · have := ($I).owner_inj; st_simp; grind
  · have := ($I).mem_owned; st_simp; grind))

/-- what a library call leaves alone -/
structure Same (σ σ' : State) : Prop where
  n : σ'.n = σ.n
  kind : σ'.kind = σ.kind
  ext : σ'.extSize = σ.extSize

theorem Same.of_ext {A : Nat → Prop} {D : Bool} {σ σ' : State} (E : Ext A D σ σ') : Same σ σ' := ⟨E.n, E.kind, E.ext⟩

theorem nH_zero {σ : State} {d : Nat} (h : nH σ d = 0) : ∀ x, x < σ.n → ¬ HRef σ.obj σ.kind d x :=
  cnt_zero.mp h
theorem nW_zero {σ : State} {d : Nat} (h : nW σ d = 0) : ∀ x, x < σ.n → ¬ WRef σ.obj σ.kind d x :=
  cnt_zero.mp h

theorem LogOk.clrFree' {g : Nat → Blk} {l : List Ev} (f b pr : Nat) (L : LogOk g l)
    (h1 : (g b).isData = false) (h2 : f ≠ 0) (h3 : f = (g b).clrG) (h4 : pr = (g b).privG) :
    LogOk g (l ++ [.clr f b pr] ++ [.free b]) := by
  rw [List.append_assoc]; exact .clrFree f b pr L h1 h2 h3 h4

theorem ok_intro {α : Type} {r : Res α} {v : α} {P : State → Prop} (τ : State)
    (h : r = .ok v τ) (hp : P τ) : ∃ σ', r = .ok v σ' ∧ P σ' := ⟨τ, h, hp⟩

/-! ### `cstl_weak_ptr_reset` -/

theorem wReset_inv {σ : State} {a : Nat} (I : Inv σ) (ha : a < σ.n) (hs : stamped σ a)
    (hk : σ.kind a = .weak) :
    ∃ σ', wReset a σ = .ok () σ' ∧ Inv σ' ∧ Same σ σ' ∧
      (∀ x, σ'.obj x = if x = a then { σ.obj a with ptr := 0 } else σ.obj x) := by
  unfold stamped at hs
  by_cases hp : (σ.obj a).ptr = 0
  · refine ⟨σ, by simp [wReset, gGet, hs, hp], I, ⟨rfl, rfl, rfl⟩, fun x => ?_⟩
    by_cases hx : x = a
    · subst hx; simp only [if_true]
      cases ho : σ.obj x; simp only [ho] at hp; simp [hp]
    · simp [hx]
  · have hw : WRef σ.obj σ.kind (σ.obj a).ptr a := ⟨hs, hk, rfl⟩
    obtain ⟨hl, hd⟩ := I.ref_ok a _ ha (Or.inr hw) hp
    have hlt := I.live_lt hl
    have hcH := fun d' => nH_gSet (σ := σ) 0 d' ha
    have hcW := fun d' => nW_gSet (σ := σ) 0 d' ha
    have hcnt := I.data_cnt _ hl hd
    have hobj : ∀ x, (gSet a 0 σ).obj x = if x = a then { σ.obj a with ptr := 0 } else σ.obj x := by
      intro x; by_cases hx : x = a
      · subst hx; simp only [gSet_obj, if_true]; cases ho : σ.obj x; simp only [ho] at hs; simp [hs]
      · simp [hx]
    by_cases h1 : (σ.blk (σ.obj a).ptr).soft = 1
    · -- the last reference: the bookkeeping block goes
      apply ok_intro
      · simp [wReset, gGet, free, hs, hp, hl, h1]; rfl
      refine ⟨?_, ⟨rfl, rfl, rfl⟩, hobj⟩
      have hz1 := fun d' => nH_zero (σ := gSet a 0 σ) (d := d')
      have hz2 := fun d' => nW_zero (σ := gSet a 0 σ) (d := d')
      have hup0 := I.data_up0 _ hl hd
      inv_clauses I
      · show LogOk _ (σ.log ++ [Ev.free (σ.obj a).ptr])
        refine LogOk.free _ (log_frame (σ := σ) I (by intro b; st_simp; grind)) (Or.inl ?_)
        st_simp; grind
    · apply ok_intro
      · simp [wReset, gGet, hs, hp, hl, h1]; rfl
      refine ⟨?_, ⟨rfl, rfl, rfl⟩, hobj⟩
      inv_clauses I
      · exact log_frame (σ := σ) I (by intro b; st_simp; grind)

/-! ### evaluation lemmas (one branch of a model function at a time) -/

theorem gGet_eval {σ : State} {a : Nat} (hs : (σ.obj a).self = a) : gGet a σ = .ok (σ.obj a).ptr σ := by
  simp [gGet, hs]

theorem gGet_stray {σ : State} {a : Nat} (hs : (σ.obj a).self ≠ a) : gGet a σ = .stop .abort σ := by
  simp [gGet, hs]

theorem free_zero (σ : State) : free 0 σ = .ok () σ := by simp [free]

theorem free_eval {σ : State} {p : Nat} (hp : p ≠ 0) (hl : (σ.blk p).live = true) :
    free p σ = .ok () ((σ.setBlk p { σ.blk p with live := false }).emit (.free p)) := by
  simp [free, hp, hl]

theorem dispose_eval0 (σ : State) (p pr : Nat) : dispose p 0 pr σ = free p σ := by simp [dispose]

theorem dispose_evalc {σ : State} {c : Nat} (p pr : Nat) (hc : c ≠ 0) :
    dispose p c pr σ = free p (σ.emit (.clr c p pr)) := by simp [dispose, hc]

theorem upGet_eval {σ : State} {d : Nat} (hl : (σ.blk d).live = true) (hu : (σ.blk d).upOk = true) :
    upGet d σ = .ok (σ.blk d).up σ := by simp [upGet, hl, hu]

/-- `cstl_unique_ptr_reset(&data->up)` when the managed memory is there, no clear callback -/
theorem upReset_eval0 {σ : State} {d : Nat} (hl : (σ.blk d).live = true) (hu : (σ.blk d).upOk = true)
    (hc : (σ.blk d).upClr = 0) (hm : (σ.blk d).up ≠ 0) (hml : (σ.blk (σ.blk d).up).live = true) :
    upReset d σ = .ok () (upInit d ((σ.setBlk (σ.blk d).up { σ.blk (σ.blk d).up with live := false }).emit
      (.free (σ.blk d).up))) := by
  simp [upReset, upGet_eval hl hu, hc, dispose_eval0, free_eval hm hml]

theorem upReset_evalc {σ : State} {d : Nat} (hl : (σ.blk d).live = true) (hu : (σ.blk d).upOk = true)
    (hc : (σ.blk d).upClr ≠ 0) (hm : (σ.blk d).up ≠ 0) (hml : (σ.blk (σ.blk d).up).live = true) :
    upReset d σ = .ok () (upInit d ((((σ.emit (.clr (σ.blk d).upClr (σ.blk d).up 0)).setBlk (σ.blk d).up
      { σ.blk (σ.blk d).up with live := false })).emit (.free (σ.blk d).up))) := by
  have h2 : ((σ.emit (.clr (σ.blk d).upClr (σ.blk d).up 0)).blk (σ.blk d).up).live = true := hml
  simp only [upReset, upGet_eval hl hu, bind_ok, dispose_evalc _ _ hc, free_eval hm h2]
  rfl

/-- `cstl_unique_ptr_reset(&data->up)` on a freshly initialised embedded pointer -/
theorem upReset_null {σ : State} {d : Nat} (hl : (σ.blk d).live = true) (hu : (σ.blk d).upOk = true)
    (hc : (σ.blk d).upClr = 0) (hm : (σ.blk d).up = 0) :
    upReset d σ = .ok () (upInit d σ) := by
  simp [upReset, upGet_eval hl hu, hc, hm, dispose_eval0, free_zero]

theorem wReset_null {σ : State} {a : Nat} (hs : (σ.obj a).self = a) (hp : (σ.obj a).ptr = 0) :
    wReset a σ = .ok () σ := by simp [wReset, gGet_eval hs, hp]

theorem wReset_last {σ : State} {a : Nat} (hs : (σ.obj a).self = a) (hp : (σ.obj a).ptr ≠ 0)
    (hl : (σ.blk (σ.obj a).ptr).live = true) (h1 : (σ.blk (σ.obj a).ptr).soft = 1) :
    wReset a σ = .ok () ((((gSet a 0 σ).setBlk (σ.obj a).ptr { σ.blk (σ.obj a).ptr with soft := 0 }).setBlk
      (σ.obj a).ptr { σ.blk (σ.obj a).ptr with soft := 0, live := false }).emit (.free (σ.obj a).ptr)) := by
  simp [wReset, gGet_eval hs, hp, hl, h1, free]

theorem wReset_more {σ : State} {a : Nat} (hs : (σ.obj a).self = a) (hp : (σ.obj a).ptr ≠ 0)
    (hl : (σ.blk (σ.obj a).ptr).live = true) (h1 : (σ.blk (σ.obj a).ptr).soft ≠ 1) :
    wReset a σ = .ok () ((gSet a 0 σ).setBlk (σ.obj a).ptr
      { σ.blk (σ.obj a).ptr with soft := (σ.blk (σ.obj a).ptr).soft - 1 }) := by
  simp [wReset, gGet_eval hs, hp, hl, h1]

theorem sReset_null {σ : State} {a : Nat} (hs : (σ.obj a).self = a) (hp : (σ.obj a).ptr = 0) :
    sReset a σ = .ok () σ := by simp [sReset, gGet_eval hs, hp]

theorem sReset_step {σ : State} {a : Nat} (hs : (σ.obj a).self = a) (hp : (σ.obj a).ptr ≠ 0)
    (hl : (σ.blk (σ.obj a).ptr).live = true) :
    sReset a σ =
      ((if (σ.blk (σ.obj a).ptr).hard = 1 then
          upReset (σ.obj a).ptr (σ.setBlk (σ.obj a).ptr
            { σ.blk (σ.obj a).ptr with hard := (σ.blk (σ.obj a).ptr).hard - 1 })
        else .ok () (σ.setBlk (σ.obj a).ptr
            { σ.blk (σ.obj a).ptr with hard := (σ.blk (σ.obj a).ptr).hard - 1 })) >>- fun _ σ => wReset a σ) := by
  simp [sReset, gGet_eval hs, hp, hl]

theorem malloc_ok {σ : State} {sz : Nat} {ans : Bool} (g : Blk) (ha : ans = true) (hs : sz ≤ LIMIT) :
    malloc sz ans g σ = (σ.next,
      { (σ.setBlk σ.next { g with live := true, size := sz }).emit (.alloc σ.next sz) with
        next := σ.next + 1 }) := by
  simp [malloc, ha, hs]

theorem malloc_fail {σ : State} {sz : Nat} {ans : Bool} (g : Blk) (h : ans = false ∨ LIMIT < sz) :
    malloc sz ans g σ = (0, σ.emit (.allocFail sz)) := by
  have : ¬ (ans = true ∧ sz ≤ LIMIT) := by
    rcases h with h | h
    · simp [h]
    · intro ⟨_, h2⟩; omega
  simp [malloc, this]

theorem log_frame' {σ : State} {g' : Nat → Blk} (I : Inv σ)
    (h : ∀ b, b < σ.next → (g' b).isData = (σ.blk b).isData ∧ (g' b).clrG = (σ.blk b).clrG ∧
      (g' b).privG = (σ.blk b).privG) :
    LogOk g' σ.log := LogOk.congr' (fun b hb => h b (I.log_lt b hb)) I.log_ok

theorem gSwap_eval {σ : State} {a b : Nat} (hsa : (σ.obj a).self = a) (hsb : (σ.obj b).self = b) :
    gSwap a b σ = .ok () (gSet b (σ.obj a).ptr (gSet a (σ.obj b).ptr σ)) := by
  simp [gSwap, gGet_eval hsa, gGet_eval hsb]

theorem obj_ptr {σ : State} {a : Nat} (p : Nat) (hs : (σ.obj a).self = a) :
    ∀ x, (gSet a p σ).obj x = if x = a then { σ.obj a with ptr := p } else σ.obj x := by
  intro x; by_cases hx : x = a
  · subst hx; simp only [gSet_obj, if_true]; cases ho : σ.obj x; simp only [ho] at hs; simp [hs]
  · simp [hx]

end Cstl.Mem
