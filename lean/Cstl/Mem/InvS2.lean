import Cstl.Mem.InvS
/-
Preservation of the ownership invariant: share, weak-from, weak-lock, swap.
-/
set_option linter.unusedSimpArgs false
namespace Cstl.Mem

/-! ### the part of share / from / lock after the target was reset -/

def shareTail (e n : Nat) (σ : State) : Res Unit :=
  gCopy n e σ >>- fun _ σ =>
  gGet n σ >>- fun d σ =>
  if d ≠ 0 then
    if (σ.blk d).live = true then
      let σ := σ.setBlk d { σ.blk d with hard := (σ.blk d).hard + 1 }
      .ok () (σ.setBlk d { σ.blk d with soft := (σ.blk d).soft + 1 })
    else .stop .asan σ
  else .ok () σ

theorem sShare_eq (e n : Nat) (σ : State) : sShare e n σ = (sReset n σ >>- fun _ σ => shareTail e n σ) := rfl

def fromTail (w s : Nat) (σ : State) : Res Unit :=
  gCopy w s σ >>- fun _ σ =>
  gGet w σ >>- fun d σ =>
  if d ≠ 0 then
    if (σ.blk d).live = true then
      .ok () (σ.setBlk d { σ.blk d with soft := (σ.blk d).soft + 1 })
    else .stop .asan σ
  else .ok () σ

theorem wFrom_eq (w s : Nat) (σ : State) : wFrom w s σ = (wReset w σ >>- fun _ σ => fromTail w s σ) := rfl

def lockTail (w s : Nat) (σ : State) : Res Unit :=
  gCopy s w σ >>- fun _ σ =>
  gGet s σ >>- fun d σ =>
  if d ≠ 0 then
    if (σ.blk d).live = true then
      let old := (σ.blk d).hard
      let σ := σ.setBlk d { σ.blk d with hard := old + 1 }
      if old > 0 then
        .ok () (σ.setBlk d { σ.blk d with soft := (σ.blk d).soft + 1 })
      else
        let σ := σ.setBlk d { σ.blk d with hard := (σ.blk d).hard - 1 }
        .ok () (gSet s 0 σ)
    else .stop .asan σ
  else .ok () σ

theorem wLock_eq (w s : Nat) (σ : State) : wLock w s σ = (sReset s σ >>- fun _ σ => lockTail w s σ) := rfl

/-- an empty owner object `n` takes a share of what `e` owns -/
theorem shareTail_inv {σ : State} {e n : Nat} (I : Inv σ) (he : e < σ.n) (hn : n < σ.n)
    (hse : (σ.obj e).self = e) (hsn : (σ.obj n).self = n) (hn0 : (σ.obj n).ptr = 0)
    (hke : σ.kind e = .shared ∨ σ.kind e = .array) (hkn : σ.kind n = .shared ∨ σ.kind n = .array) :
    ∃ σ', shareTail e n σ = .ok () σ' ∧ Inv σ' ∧ Same σ σ' ∧
      (∀ x, σ'.obj x = if x = n then { σ.obj n with ptr := (σ.obj e).ptr } else σ.obj x) := by
  have hcH := fun d' => nH_gSet (σ := σ) (σ.obj e).ptr d' hn
  have hcW := fun d' => nW_gSet (σ := σ) (σ.obj e).ptr d' hn
  have hobj := obj_ptr (σ.obj e).ptr hsn
  by_cases hp : (σ.obj e).ptr = 0
  · refine ⟨gSet n (σ.obj e).ptr σ, ?_, ?_, ⟨rfl, rfl, rfl⟩, hobj⟩
    · simp only [shareTail, gCopy, gGet_eval hse, bind_ok]
      rw [gGet_eval (by simp)]
      simp [hp]
    · inv_clauses I
      · exact log_frame (σ := σ) I (by intro b; st_simp; grind)
  · obtain ⟨hl, hd, hlt, hcnt, hpos, hhard, hm, hmd, hmlt⟩ := owner_facts I he hse hke hp
    refine ⟨σ.upd (gSet n (σ.obj e).ptr σ).obj (fun b =>
        if b = (σ.obj e).ptr then
          { σ.blk (σ.obj e).ptr with hard := (σ.blk (σ.obj e).ptr).hard + 1,
                                       soft := (σ.blk (σ.obj e).ptr).soft + 1 }
        else σ.blk b) σ.log σ.next, ?_, ?_, ⟨rfl, rfl, rfl⟩, hobj⟩
    · simp only [shareTail, gCopy, gGet_eval hse, bind_ok]
      rw [gGet_eval (by simp)]
      simp only [bind_ok, gSet_obj, if_true, hp, ne_eq, not_false_eq_true, gSet_blk, hl]
      congr 1 <;> st_ext
    · inv_clauses I
      · exact log_frame (σ := σ) I (by intro b; st_simp; grind)

theorem sShare_inv {σ : State} {e n : Nat} (I : Inv σ) (he : e < σ.n) (hn : n < σ.n)
    (hse : stamped σ e) (hsn : stamped σ n)
    (hke : σ.kind e = .shared ∨ σ.kind e = .array) (hkn : σ.kind n = .shared ∨ σ.kind n = .array) :
    ∃ σ', sShare e n σ = .ok () σ' ∧ Inv σ' ∧ Same σ σ' ∧
      (∀ x, σ'.obj x = if x = n then { σ.obj n with ptr := if e = n then 0 else (σ.obj e).ptr } else σ.obj x) := by
  obtain ⟨σ1, h1, I1, S1, ho1⟩ := sReset_inv I hn hsn hkn
  unfold stamped at hse hsn
  have hn1 : (σ1.obj n).self = n ∧ (σ1.obj n).ptr = 0 := by rw [ho1]; simp [hsn]
  have he1 : (σ1.obj e).self = e := by rw [ho1]; by_cases h : e = n <;> simp [h, hse, hsn]
  obtain ⟨σ2, h2, I2, S2, ho2⟩ := shareTail_inv I1 (by rw [S1.n]; exact he) (by rw [S1.n]; exact hn) he1 hn1.1 hn1.2
    (by rw [S1.kind]; exact hke) (by rw [S1.kind]; exact hkn)
  refine ⟨σ2, by rw [sShare_eq, h1, bind_ok, h2], I2, ⟨S2.n.trans S1.n, S2.kind.trans S1.kind, S2.ext.trans S1.ext⟩, ?_⟩
  intro x
  rw [ho2, ho1, ho1, ho1]
  by_cases hx : x = n <;> by_cases hen : e = n <;> simp [hx, hen]

/-- an empty weak object `w` becomes a reference to what `s` owns -/
theorem fromTail_inv {σ : State} {w s : Nat} (I : Inv σ) (hw : w < σ.n) (hs : s < σ.n)
    (hsw : (σ.obj w).self = w) (hss : (σ.obj s).self = s) (hw0 : (σ.obj w).ptr = 0)
    (hkw : σ.kind w = .weak) (hks : σ.kind s = .shared ∨ σ.kind s = .array) :
    ∃ σ', fromTail w s σ = .ok () σ' ∧ Inv σ' ∧ Same σ σ' ∧
      (∀ x, σ'.obj x = if x = w then { σ.obj w with ptr := (σ.obj s).ptr } else σ.obj x) := by
  have hcH := fun d' => nH_gSet (σ := σ) (σ.obj s).ptr d' hw
  have hcW := fun d' => nW_gSet (σ := σ) (σ.obj s).ptr d' hw
  have hobj := obj_ptr (σ.obj s).ptr hsw
  by_cases hp : (σ.obj s).ptr = 0
  · refine ⟨gSet w (σ.obj s).ptr σ, ?_, ?_, ⟨rfl, rfl, rfl⟩, hobj⟩
    · simp only [fromTail, gCopy, gGet_eval hss, bind_ok]
      rw [gGet_eval (by simp)]
      simp [hp]
    · inv_clauses I
      · exact log_frame (σ := σ) I (by intro b; st_simp; grind)
  · obtain ⟨hl, hd, hlt, hcnt, hpos, hhard, hm, hmd, hmlt⟩ := owner_facts I hs hss hks hp
    refine ⟨σ.upd (gSet w (σ.obj s).ptr σ).obj (fun b =>
        if b = (σ.obj s).ptr then
          { σ.blk (σ.obj s).ptr with soft := (σ.blk (σ.obj s).ptr).soft + 1 }
        else σ.blk b) σ.log σ.next, ?_, ?_, ⟨rfl, rfl, rfl⟩, hobj⟩
    · simp only [fromTail, gCopy, gGet_eval hss, bind_ok]
      rw [gGet_eval (by simp)]
      simp only [bind_ok, gSet_obj, if_true, hp, ne_eq, not_false_eq_true, gSet_blk, hl]
      congr 1 <;> st_ext
    · inv_clauses I
      · exact log_frame (σ := σ) I (by intro b; st_simp; grind)

theorem wFrom_inv {σ : State} {w s : Nat} (I : Inv σ) (hw : w < σ.n) (hs : s < σ.n)
    (hsw : stamped σ w) (hss : stamped σ s)
    (hkw : σ.kind w = .weak) (hks : σ.kind s = .shared ∨ σ.kind s = .array) :
    ∃ σ', wFrom w s σ = .ok () σ' ∧ Inv σ' ∧ Same σ σ' ∧
      (∀ x, σ'.obj x = if x = w then { σ.obj w with ptr := (σ.obj s).ptr } else σ.obj x) := by
  obtain ⟨σ1, h1, I1, S1, ho1⟩ := wReset_inv I hw hsw hkw
  unfold stamped at hsw hss
  have hws : w ≠ s := by rintro rfl; rcases hks with h | h <;> simp [h] at hkw
  have hw1 : (σ1.obj w).self = w ∧ (σ1.obj w).ptr = 0 := by rw [ho1]; simp [hsw]
  have hs1 : σ1.obj s = σ.obj s := by rw [ho1]; simp [Ne.symm hws]
  obtain ⟨σ2, h2, I2, S2, ho2⟩ := fromTail_inv I1 (by rw [S1.n]; exact hw) (by rw [S1.n]; exact hs) hw1.1
    (by rw [hs1]; exact hss) hw1.2 (by rw [S1.kind]; exact hkw) (by rw [S1.kind]; exact hks)
  refine ⟨σ2, by rw [wFrom_eq, h1, bind_ok, h2], I2, ⟨S2.n.trans S1.n, S2.kind.trans S1.kind, S2.ext.trans S1.ext⟩, ?_⟩
  intro x
  rw [ho2, hs1, ho1, ho1]
  by_cases hx : x = w <;> simp [hx]

/-- what the invariant says about the block a weak pointer refers to -/
theorem weak_facts {σ : State} {w : Nat} (I : Inv σ) (hw : w < σ.n) (hs : (σ.obj w).self = w)
    (hk : σ.kind w = .weak) (hp : (σ.obj w).ptr ≠ 0) :
    (σ.blk (σ.obj w).ptr).live = true ∧ (σ.blk (σ.obj w).ptr).isData = true ∧ (σ.obj w).ptr < σ.next ∧
    ((σ.blk (σ.obj w).ptr).hard = nH σ (σ.obj w).ptr ∧
      (σ.blk (σ.obj w).ptr).soft = nH σ (σ.obj w).ptr + nW σ (σ.obj w).ptr) ∧
    (0 < (σ.blk (σ.obj w).ptr).soft ∧ (σ.blk (σ.obj w).ptr).upOk = true) := by
  have hh : WRef σ.obj σ.kind (σ.obj w).ptr w := ⟨hs, hk, rfl⟩
  obtain ⟨hl, hd⟩ := I.ref_ok w _ hw (Or.inr hh) hp
  exact ⟨hl, hd, I.live_lt hl, I.data_cnt _ hl hd, I.data_pos _ hl hd⟩

/-- an empty owner object `s` tries to become an owner of what the weak pointer `w` refers to -/
theorem lockTail_inv {σ : State} {w s : Nat} (I : Inv σ) (hw : w < σ.n) (hs : s < σ.n)
    (hsw : (σ.obj w).self = w) (hss : (σ.obj s).self = s) (hs0 : (σ.obj s).ptr = 0)
    (hkw : σ.kind w = .weak) (hks : σ.kind s = .shared ∨ σ.kind s = .array) :
    ∃ σ', lockTail w s σ = .ok () σ' ∧ Inv σ' ∧ Same σ σ' ∧
      (∀ x, σ'.obj x = if x = s then
          { σ.obj s with ptr := if 0 < nH σ (σ.obj w).ptr then (σ.obj w).ptr else 0 } else σ.obj x) := by
  by_cases hp : (σ.obj w).ptr = 0
  · have hcH := fun d' => nH_gSet (σ := σ) (σ.obj w).ptr d' hs
    have hcW := fun d' => nW_gSet (σ := σ) (σ.obj w).ptr d' hs
    refine ⟨gSet s (σ.obj w).ptr σ, ?_, ?_, ⟨rfl, rfl, rfl⟩, ?_⟩
    · simp only [lockTail, gCopy, gGet_eval hsw, bind_ok]
      rw [gGet_eval (by simp)]
      simp [hp]
    · inv_clauses I
      · exact log_frame (σ := σ) I (by intro b; st_simp; grind)
    · intro x; rw [obj_ptr _ hss]; simp [hp]
  · obtain ⟨hl, hd, hlt, hcnt, hpos⟩ := weak_facts I hw hsw hkw hp
    by_cases hh : (σ.blk (σ.obj w).ptr).hard = 0
    · -- no owner is left: the lock fails
      have hcH := fun d' => nH_gSet (σ := σ) 0 d' hs
      have hcW := fun d' => nW_gSet (σ := σ) 0 d' hs
      refine ⟨σ.upd (gSet s 0 σ).obj (fun b =>
          if b = (σ.obj w).ptr then { σ.blk (σ.obj w).ptr with hard := 0 } else σ.blk b) σ.log σ.next,
          ?_, ?_, ⟨rfl, rfl, rfl⟩, ?_⟩
      · simp only [lockTail, gCopy, gGet_eval hsw, bind_ok]
        rw [gGet_eval (by simp)]
        simp only [bind_ok, gSet_obj, if_true, hp, ne_eq, not_false_eq_true, gSet_blk, hl, hh,
          Nat.lt_irrefl, if_false]
        congr 1 <;> st_ext
      · inv_clauses I
        · exact log_frame (σ := σ) I (by intro b; st_simp; grind)
      · intro x; rw [upd_obj, obj_ptr _ hss]
        have : ¬ 0 < nH σ (σ.obj w).ptr := by omega
        simp [this]
    · have hcH := fun d' => nH_gSet (σ := σ) (σ.obj w).ptr d' hs
      have hcW := fun d' => nW_gSet (σ := σ) (σ.obj w).ptr d' hs
      have hup := I.data_up _ hl hd hh
      refine ⟨σ.upd (gSet s (σ.obj w).ptr σ).obj (fun b =>
          if b = (σ.obj w).ptr then
            { σ.blk (σ.obj w).ptr with hard := (σ.blk (σ.obj w).ptr).hard + 1,
                                         soft := (σ.blk (σ.obj w).ptr).soft + 1 }
          else σ.blk b) σ.log σ.next, ?_, ?_, ⟨rfl, rfl, rfl⟩, ?_⟩
      · simp only [lockTail, gCopy, gGet_eval hsw, bind_ok]
        rw [gGet_eval (by simp)]
        have h0 : (σ.blk (σ.obj w).ptr).hard > 0 := by omega
        simp only [bind_ok, gSet_obj, if_true, hp, ne_eq, not_false_eq_true, gSet_blk, hl, h0]
        congr 1 <;> st_ext
      · inv_clauses I
        · exact log_frame (σ := σ) I (by intro b; st_simp; grind)
      · intro x; rw [upd_obj, obj_ptr _ hss]
        have : 0 < nH σ (σ.obj w).ptr := by omega
        simp [this]

theorem wLock_inv {σ : State} {w s : Nat} (I : Inv σ) (hw : w < σ.n) (hs : s < σ.n)
    (hsw : stamped σ w) (hss : stamped σ s)
    (hkw : σ.kind w = .weak) (hks : σ.kind s = .shared ∨ σ.kind s = .array) :
    ∃ σ' σ1, sReset s σ = .ok () σ1 ∧ wLock w s σ = .ok () σ' ∧ Inv σ' ∧ Same σ σ' ∧
      (∀ x, σ'.obj x = if x = s then
          { σ.obj s with ptr := if 0 < nH σ1 (σ.obj w).ptr then (σ.obj w).ptr else 0 } else σ.obj x) := by
  obtain ⟨σ1, h1, I1, S1, ho1⟩ := sReset_inv I hs hss hks
  unfold stamped at hsw hss
  have hws : w ≠ s := by rintro rfl; rcases hks with h | h <;> simp [h] at hkw
  have hs1 : (σ1.obj s).self = s ∧ (σ1.obj s).ptr = 0 := by rw [ho1]; simp [hss]
  have hw1 : σ1.obj w = σ.obj w := by rw [ho1]; simp [hws]
  obtain ⟨σ2, h2, I2, S2, ho2⟩ := lockTail_inv I1 (by rw [S1.n]; exact hw) (by rw [S1.n]; exact hs)
    (by rw [hw1]; exact hsw) hs1.1 hs1.2 (by rw [S1.kind]; exact hkw) (by rw [S1.kind]; exact hks)
  refine ⟨σ2, σ1, h1, by rw [wLock_eq, h1, bind_ok, h2], I2,
    ⟨S2.n.trans S1.n, S2.kind.trans S1.kind, S2.ext.trans S1.ext⟩, ?_⟩
  intro x
  rw [ho2, hw1, ho1, ho1]
  by_cases hx : x = s <;> simp [hx]

/-! ### swap of two pointers of the same class -/

theorem gSwap_inv {σ : State} {a b : Nat} (I : Inv σ) (ha : a < σ.n) (hb : b < σ.n)
    (hsa : stamped σ a) (hsb : stamped σ b)
    (hk : (σ.kind a = .shared ∧ σ.kind b = .shared) ∨ (σ.kind a = .weak ∧ σ.kind b = .weak) ∨
          (σ.kind a = .guarded ∧ σ.kind b = .guarded)) :
    ∃ σ', gSwap a b σ = .ok () σ' ∧ Inv σ' ∧ Same σ σ' := by
  unfold stamped at hsa hsb
  refine ⟨_, gSwap_eval hsa hsb, ?_, ⟨rfl, rfl, rfl⟩⟩
  have h1H := fun d' => nH_gSet (σ := σ) (σ.obj b).ptr d' ha
  have h1W := fun d' => nW_gSet (σ := σ) (σ.obj b).ptr d' ha
  have h2H := fun d' => nH_gSet (σ := gSet a (σ.obj b).ptr σ) (σ.obj a).ptr d' hb
  have h2W := fun d' => nW_gSet (σ := gSet a (σ.obj b).ptr σ) (σ.obj a).ptr d' hb
  inv_clauses I
  · exact log_frame (σ := σ) I (by intro b; st_simp; grind)

end Cstl.Mem
