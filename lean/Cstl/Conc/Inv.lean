import Cstl.Conc.Lemmas
/-
The inductive invariant of C06 and its preservation by every micro-step of
every thread (any number of threads, any programs).
-/
namespace Cstl.Conc

/-! ### per-thread contributions determined by the pc -/

/-- in-flight contribution to `hard` (`a2`: share's increment done, object not yet set;
`l3`: lock's increment that saw > 0; `l3n`: lock's temporary bump that saw 0) -/
def xh : Pc → Nat
  | .a2 _ _ => 1 | .l3 _ _ => 1 | .l3n _ _ => 1 | _ => 0
/-- the temporary bump of a failing lock -/
def xb : Pc → Nat
  | .l3n _ _ => 1 | _ => 0
/-- in-flight contribution to `soft` (object already nulled, `soft--` not yet done) -/
def xs : Pc → Nat
  | .r2a _ => 1 | .r2b _ => 1 | .w1 _ => 1 | _ => 0
def xhold : Pc → Nat
  | .l2 _ _ => 1 | .l3 _ _ => 1 | .l3n _ _ => 1 | .l4 _ _ => 1 | _ => 0
def xda : Pc → Nat
  | .r2a _ => 1 | _ => 0
def xdb : Pc → Nat
  | .r2b _ => 1 | _ => 0
def xdw : Pc → Nat
  | .w2 _ => 1 | _ => 0

/-- contribution of a thread to `hard` -/
def hc (t : Thread) : Nat := cnt t.sh + xh t.pc
/-- the temporary bump (held only by the flag holder) -/
def bump (t : Thread) : Nat := xb t.pc
/-- established owners: objects that reference the block + increments that saw a live count -/
def ec (t : Thread) : Nat := cnt t.sh + (xh t.pc - xb t.pc)
/-- contribution of a thread to `soft` -/
def sc (t : Thread) : Nat := cnt t.sh + cnt t.wk + xs t.pc
def hold (t : Thread) : Nat := xhold t.pc
def da (t : Thread) : Nat := xda t.pc
def db (t : Thread) : Nat := xdb t.pc
def dw (t : Thread) : Nat := xdw t.pc

theorem hc_eq (t : Thread) : hc t = ec t + bump t := by
  unfold hc ec bump
  cases t.pc <;> simp [xh, xb]

theorem bump_le_hold (t : Thread) : bump t ≤ hold t := by
  unfold bump hold
  cases t.pc <;> simp [xb, xhold]

/-! ### thread-local well-formedness -/

/-- the target object of the rest of the operation is NULL (it was just reset) -/
def KOk (sh wk : List Bool) : Cont → Prop
  | .done => True
  | .share _ j => sh[j]? = some false
  | .wfrom _ w => wk[w]? = some false
  | .lock _ j => sh[j]? = some false

def WF (t : Thread) : Prop :=
  match t.pc with
  | .idle => True
  | .r1 j k => slot t.sh j = true ∧ KOk (t.sh.set j false) t.wk k
  | .r2a k => KOk t.sh t.wk k
  | .r2b k => KOk t.sh t.wk k
  | .w1 k => KOk t.sh t.wk k
  | .w2 k => KOk t.sh t.wk k
  | .fin k => KOk t.sh t.wk k
  | .a1 i j => slot t.sh i = true ∧ t.sh[j]? = some false
  | .a2 i j => slot t.sh i = true ∧ t.sh[j]? = some false
  | .f1 i w => slot t.sh i = true ∧ t.wk[w]? = some false
  | .l1 w j => slot t.wk w = true ∧ t.sh[j]? = some false
  | .l2 w j => slot t.wk w = true ∧ t.sh[j]? = some false
  | .l3 w j => slot t.wk w = true ∧ t.sh[j]? = some false
  | .l3n w j => slot t.wk w = true ∧ t.sh[j]? = some false
  | .l4 w _ => slot t.wk w = true
  | .u j => slot t.sh j = true

/-- the thread's next step is a micro-step on shared state -/
def Pc.visible : Pc → Bool
  | .idle => false | .fin _ => false | _ => true

/-- a well-formed thread about to touch the bookkeeping block holds a reference to it
(or is the one about to free it) -/
theorem WF.refs {t : Thread} (h : WF t) (hv : t.pc.visible = true) : 0 < sc t ∨ 0 < dw t := by
  unfold WF at h
  unfold sc dw
  cases hpc : t.pc <;> simp [hpc, Pc.visible, xs, xdw] at h hv ⊢
  case r1 j k => have := slot_pos h.1; omega
  case a1 i j => have := slot_pos h.1; omega
  case a2 i j => have := slot_pos h.1; omega
  case f1 i w => have := slot_pos h.1; omega
  case l1 w j => have := slot_pos h.1; omega
  case l2 w j => have := slot_pos h.1; omega
  case l3 w j => have := slot_pos h.1; omega
  case l3n w j => have := slot_pos h.1; omega
  case l4 w j => have := slot_pos h; omega
  case u j => have := slot_pos h; omega

theorem getElem?_set_false_self {l : List Bool} {j : Nat} (h : slot l j = true) :
    (l.set j false)[j]? = some false := by
  simp [lt_of_slot h]

/-- thread-local well-formedness is preserved by every step of the thread -/
theorem WF.step {g g' : Shared} {t t' : Thread} {l : Label} (h : WF t)
    (hs : stepT g t = some (l, g', t')) : WF t' := by
  unfold stepT at hs
  unfold WF at h
  cases hpc : t.pc <;> simp only [hpc] at hs h
  case idle =>
    cases hprog : t.prog with
    | nil => simp [hprog] at hs
    | cons op rest =>
      simp only [hprog, Option.some.injEq, Prod.mk.injEq] at hs
      obtain ⟨-, -, rfl⟩ := hs
      cases op <;> simp only [begin]
      case reset j =>
        split
        · rename_i hj; simp [WF, hj, KOk]
        · simp [WF]
      case share i j =>
        split
        · split
          · rename_i hj; simp [WF, hj, KOk, getElem?_set_false_self hj]
          · rename_i hr hj; simp [WF, KOk]; exact not_slot_of_lt hr.2 (by simpa using hj)
        · simp [WF]
      case wfrom i w =>
        split
        · split
          · rename_i hj; simp [WF, KOk, lt_of_slot hj]
          · rename_i hr hj; simp [WF, KOk]; exact not_slot_of_lt hr.2 (by simpa using hj)
        · simp [WF]
      case lock w j =>
        split
        · split
          · rename_i hj; simp [WF, hj, KOk, getElem?_set_false_self hj]
          · rename_i hr hj; simp [WF, KOk]; exact not_slot_of_lt hr.2 (by simpa using hj)
        · simp [WF]
      case wreset w =>
        split
        · simp [WF, KOk]
        · simp [WF]
      case use j =>
        split
        · rename_i hj; simp [WF, hj]
        · simp [WF]
  case fin k =>
    simp only [Option.some.injEq, Prod.mk.injEq] at hs
    obtain ⟨-, -, rfl⟩ := hs
    cases k <;> simp only [resume]
    case done => simp [WF]
    case share i j => split <;> simp_all [WF, KOk]
    case wfrom i w => split <;> simp_all [WF, KOk]
    case lock w j => split <;> simp_all [WF, KOk]
  case l1 w j =>
    split at hs
    · simp only [Option.some.injEq, Prod.mk.injEq] at hs
      obtain ⟨-, -, rfl⟩ := hs
      simp [WF, hpc, h]
    · simp only [Option.some.injEq, Prod.mk.injEq] at hs
      obtain ⟨-, -, rfl⟩ := hs
      simp [WF, h]
  case r1 j k =>
    obtain ⟨-, -, rfl⟩ := hs
    split <;> simp [WF, h.2]
  case w1 k =>
    obtain ⟨-, -, rfl⟩ := hs
    split <;> simp [WF, h]
  case l2 w j =>
    obtain ⟨-, -, rfl⟩ := hs
    split <;> simp [WF, h]
  all_goals
    obtain ⟨-, -, rfl⟩ := hs
    simp_all [WF, KOk]


/-! ### the invariant -/

structure Inv (s : State) : Prop where
  wf : ∀ t ∈ s.ts, WF t
  hard : s.g.hard = tot hc s.ts
  soft : s.g.soft = tot sc s.ts
  flag : tot hold s.ts = if s.g.flag then 1 else 0
  /-- a temporary bump exists only when no owner is left -/
  bumpE : 0 < tot bump s.ts → tot ec s.ts = 0
  /-- `hard--` returned 1 = a clear is pending or done -/
  sawH : s.g.sawH1 = tot da s.ts + s.g.clears
  clr : s.g.clears = tot db s.ts + s.g.freesMem
  sawH_le : s.g.sawH1 ≤ 1
  sawH_iff : s.g.sawH1 = 0 ↔ 0 < tot ec s.ts
  mem : s.g.mem = true ↔ s.g.clears = 0
  sawS : s.g.sawS1 = tot dw s.ts + s.g.freesData
  sawS_le : s.g.sawS1 ≤ 1
  sawS_iff : s.g.sawS1 = 0 ↔ 0 < tot sc s.ts
  data : s.g.data = true ↔ s.g.freesData = 0
  bad : s.g.bad = 0

/-! ### preservation -/

/-- the eight per-thread quantities agree on two threads -/
def SameContrib (a b : Thread) : Prop :=
  hc a = hc b ∧ sc a = sc b ∧ hold a = hold b ∧ bump a = bump b ∧ ec a = ec b ∧
  da a = da b ∧ db a = db b ∧ dw a = dw b
theorem begin_same (op : Op) (t t0 : Thread) (hsh : t0.sh = t.sh) (hwk : t0.wk = t.wk)
    (hpc0 : t0.pc = .idle) (hpc : t.pc = .idle) :
    SameContrib (begin op t0) t := by
  unfold SameContrib hc sc hold bump ec da db dw
  cases op <;> simp only [begin]
  case wfrom i w =>
    split
    · split
      · rename_i hw
        have := cnt_set_false hw
        simp [hpc, hsh, hwk, xh, xb, xs, xhold, xda, xdb, xdw] at this ⊢; omega
      · simp [hpc, hsh, hwk, xh, xb, xs, xhold, xda, xdb, xdw]
    · simp [hpc, hpc0, hsh, hwk]
  case wreset w =>
    split
    · rename_i hw
      have := cnt_set_false hw
      simp [hpc, hsh, hwk, xh, xb, xs, xhold, xda, xdb, xdw] at this ⊢; omega
    · simp [hpc, hpc0, hsh, hwk]
  all_goals
    repeat' split
    all_goals simp [hpc, hpc0, hsh, hwk, xh, xb, xs, xhold, xda, xdb, xdw]
theorem resume_same (k : Cont) (t : Thread) (hpc : t.pc = .fin k) :
    SameContrib (resume k t) t := by
  unfold SameContrib hc sc hold bump ec da db dw
  cases k <;> simp only [resume]
  all_goals
    repeat' split
    all_goals simp [hpc, xh, xb, xs, xhold, xda, xdb, xdw]

theorem touch_live {g : Shared} {m : Bool} (hd : g.data = true) (hm : m = true → g.mem = true) :
    touch g m = g := by
  unfold touch
  cases m <;> simp_all

theorem dec_pos {n : Nat} (h : 0 < n) : dec n = n - 1 := by
  unfold dec; split <;> omega

theorem tot_le_others (f g : Thread → Nat) (h : ∀ t, f t ≤ g t) {ts : List Thread} {i : Nat}
    {t : Thread} (hi : ts[i]? = some t) : tot f ts + g t ≤ tot g ts + f t := by
  induction ts generalizing i with
  | nil => simp at hi
  | cons a ts ih =>
    cases i with
    | zero =>
      simp at hi
      subst hi
      have := tot_le f g h ts
      simp only [tot_cons]; omega
    | succ i =>
      simp at hi
      have := ih hi
      have := h a
      simp only [tot_cons]; omega

theorem tot_hc (ts : List Thread) : tot hc ts = tot ec ts + tot bump ts := by
  rw [← tot_add]; exact congrArg (fun f => tot f ts) (funext hc_eq)

theorem tot_bump_le (ts : List Thread) : tot bump ts ≤ tot hold ts := tot_le _ _ bump_le_hold ts

local macro "unfold_contrib" : tactic => `(tactic|
  simp only [hc, sc, hold, bump, ec, da, db, dw, xh, xb, xs, xhold, xda, xdb, xdw] at *)

set_option hygiene false in
local macro "prep" : tactic => `(tactic|
  simp only [hc, sc, hold, bump, ec, da, db, dw, hpc, xh, xb, xs, xhold, xda, xdb, xdw]
    at eH eS eL eB eE eDa eDb eDw gH gS gL gB gE gDa gDb gDw hBLo)

set_option hygiene false in
local macro "close_inv" : tactic => `(tactic|
  (refine ⟨hwfall, ?_, ?_, ?_, ?_, ?_, ?_, ?_, ?_, ?_, ?_, ?_, ?_, ?_, ?_⟩ <;> dsimp only <;>
   first | assumption | omega | (simp; done) | (simp; omega)))

set_option hygiene false in
local macro "open_step" : tactic => `(tactic|
  (simp only [Option.some.injEq, Prod.mk.injEq] at hst; obtain ⟨-, rfl, rfl⟩ := hst))

theorem Inv.step {s s' : State} {tid : Nat} {l : Label} (h : Inv s)
    (hs : stepL s tid = some (l, s')) : Inv s' := by
  unfold stepL at hs
  cases hts : s.ts[tid]? with
  | none => simp [hts] at hs
  | some t =>
    simp only [hts] at hs
    cases hst : stepT s.g t with
    | none => simp [hst] at hs
    | some r =>
      obtain ⟨l', g', t'⟩ := r
      simp only [hst, Option.some.injEq, Prod.mk.injEq] at hs
      obtain ⟨rfl, rfl⟩ := hs
      have hmem : t ∈ s.ts := List.mem_of_getElem? hts
      have hwf := h.wf t hmem
      have hwf' := hwf.step hst
      have hwfall : ∀ u ∈ s.ts.set tid t', WF u := by
        intro u hu
        rcases List.mem_or_eq_of_mem_set hu with hu | rfl
        · exact h.wf u hu
        · exact hwf'
      -- the bookkeeping block is live whenever the thread is about to touch it
      have hdata : t.pc.visible = true → s.g.data = true := by
        intro hv
        have hfd : s.g.freesData = 0 := by
          rcases hwf.refs hv with hr | hr
          · have := tot_ge sc hts
            have := h.sawS_iff.mpr (by omega)
            have := h.sawS
            omega
          · have := tot_ge dw hts
            have := h.sawS; have := h.sawS_le
            omega
        exact h.data.mpr hfd
      have eH := tot_set hc t' hts
      have eS := tot_set sc t' hts
      have eL := tot_set hold t' hts
      have eB := tot_set bump t' hts
      have eE := tot_set ec t' hts
      have eDa := tot_set da t' hts
      have eDb := tot_set db t' hts
      have eDw := tot_set dw t' hts
      have gH := tot_ge hc hts
      have gS := tot_ge sc hts
      have gL := tot_ge hold hts
      have gB := tot_ge bump hts
      have gE := tot_ge ec hts
      have gDa := tot_ge da hts
      have gDb := tot_ge db hts
      have gDw := tot_ge dw hts
      have hHE := tot_hc s.ts
      have hHE' := tot_hc (s.ts.set tid t')
      have hBL := tot_bump_le s.ts
      have hBL' := tot_bump_le (s.ts.set tid t')
      obtain ⟨_, iH, iS, iF, iBE, iSawH, iClr, iSawHle, iSawHiff, iMem, iSawS, iSawSle, iSawSiff, iData, iBad⟩ := h
      unfold stepT at hst
      unfold WF at hwf
      have hFle : tot hold s.ts ≤ 1 := by rw [iF]; split <;> omega
      have hBLo := tot_le_others bump hold bump_le_hold hts
      cases hpc : t.pc <;> simp only [hpc] at hst hwf
      case idle =>
        cases hprog : t.prog with
        | nil => simp [hprog] at hst
        | cons op rest =>
          simp only [hprog, Option.some.injEq, Prod.mk.injEq] at hst
          obtain ⟨-, rfl, rfl⟩ := hst
          obtain ⟨c1, c2, c3, c4, c5, c6, c7, c8⟩ := begin_same op t { sh := t.sh, wk := t.wk, prog := rest, pc := Pc.idle, obs := t.obs } rfl rfl rfl hpc
          refine ⟨hwfall, ?_, ?_, ?_, ?_, ?_, ?_, ?_, ?_, ?_, ?_, ?_, ?_, ?_, ?_⟩ <;> dsimp only
          all_goals first | assumption | omega | (simp; omega)
      case fin k =>
        simp only [Option.some.injEq, Prod.mk.injEq] at hst
        obtain ⟨-, rfl, rfl⟩ := hst
        obtain ⟨c1, c2, c3, c4, c5, c6, c7, c8⟩ := resume_same k t hpc
        refine ⟨hwfall, ?_, ?_, ?_, ?_, ?_, ?_, ?_, ?_, ?_, ?_, ?_, ?_, ?_, ?_⟩ <;> dsimp only
        all_goals first | assumption | omega | (simp; omega)
      case r1 j k =>
        have hd := hdata (by simp [hpc, Pc.visible])
        rw [touch_live hd (by simp)] at hst
        open_step
        have hc1 := cnt_set_false hwf.1
        have hdec := @dec_pos s.g.hard
        by_cases h1 : s.g.hard = 1
        · simp only [if_pos h1] at eH eS eL eB eE eDa eDb eDw hHE' hBL' hwfall ⊢
          prep; close_inv
        · simp only [if_neg h1] at eH eS eL eB eE eDa eDb eDw hHE' hBL' hwfall ⊢
          prep; close_inv
      case r2a k =>
        have hd := hdata (by simp [hpc, Pc.visible])
        have hm : s.g.mem = true := iMem.mpr (by simp only [da, hpc, xda] at gDa; omega)
        rw [touch_live hd (fun _ => hm)] at hst
        open_step; prep; close_inv
      case r2b k =>
        have hd := hdata (by simp [hpc, Pc.visible])
        rw [touch_live hd (by simp)] at hst
        open_step; prep; close_inv
      case w1 k =>
        have hd := hdata (by simp [hpc, Pc.visible])
        rw [touch_live hd (by simp)] at hst
        open_step
        have hdec := @dec_pos s.g.soft
        by_cases h1 : s.g.soft = 1
        · simp only [if_pos h1] at eH eS eL eB eE eDa eDb eDw hHE' hBL' hwfall ⊢
          prep; close_inv
        · simp only [if_neg h1] at eH eS eL eB eE eDa eDb eDw hHE' hBL' hwfall ⊢
          prep; close_inv
      case w2 k =>
        have hd := hdata (by simp [hpc, Pc.visible])
        rw [touch_live hd (by simp)] at hst
        open_step; prep; close_inv
      case a1 i j =>
        have hd := hdata (by simp [hpc, Pc.visible])
        rw [touch_live hd (by simp)] at hst
        open_step
        have hp := slot_pos hwf.1
        prep; close_inv
      case a2 i j =>
        have hd := hdata (by simp [hpc, Pc.visible])
        rw [touch_live hd (by simp)] at hst
        open_step
        have hc1 := cnt_set_true hwf.2
        have hp := slot_pos hwf.1
        prep; close_inv
      case f1 i w =>
        have hd := hdata (by simp [hpc, Pc.visible])
        rw [touch_live hd (by simp)] at hst
        open_step
        have hc1 := cnt_set_true hwf.2
        have hp := slot_pos hwf.1
        prep; close_inv
      case l1 w j =>
        have hd := hdata (by simp [hpc, Pc.visible])
        rw [touch_live hd (by simp)] at hst
        by_cases hf : s.g.flag = true
        · simp only [hf, if_true] at hst
          open_step; prep; close_inv
        · have hf' : s.g.flag = false := by simpa using hf
          simp only [hf', Bool.false_eq_true, if_false] at hst iF
          open_step; prep; close_inv
      case l2 w j =>
        have hd := hdata (by simp [hpc, Pc.visible])
        rw [touch_live hd (by simp)] at hst
        open_step
        by_cases h1 : s.g.hard > 0
        · simp only [if_pos h1] at eH eS eL eB eE eDa eDb eDw hHE' hBL' hwfall ⊢
          prep; close_inv
        · simp only [if_neg h1] at eH eS eL eB eE eDa eDb eDw hHE' hBL' hwfall ⊢
          prep; close_inv
      case l3 w j =>
        have hd := hdata (by simp [hpc, Pc.visible])
        rw [touch_live hd (by simp)] at hst
        open_step
        have hc1 := cnt_set_true hwf.2
        have hp := slot_pos hwf.1
        prep; close_inv
      case l3n w j =>
        have hd := hdata (by simp [hpc, Pc.visible])
        rw [touch_live hd (by simp)] at hst
        open_step
        have hdec := @dec_pos s.g.hard
        prep; close_inv
      case l4 w j =>
        have hd := hdata (by simp [hpc, Pc.visible])
        rw [touch_live hd (by simp)] at hst
        open_step; prep; close_inv
      case u j =>
        have hd := hdata (by simp [hpc, Pc.visible])
        have hp := slot_pos hwf
        have hm : s.g.mem = true := iMem.mpr (by
          simp only [ec, hpc, xh, xb] at gE
          have := iSawHiff.mpr (by omega)
          omega)
        rw [touch_live hd (fun _ => hm)] at hst
        open_step; prep; close_inv


/-! ### initial states -/

theorem tot_congr {f g : Thread → Nat} {ts : List Thread} (h : ∀ t ∈ ts, f t = g t) :
    tot f ts = tot g ts := by
  induction ts with
  | nil => rfl
  | cons a ts ih =>
    simp only [tot_cons]
    rw [h a (by simp), ih (fun t ht => h t (by simp [ht]))]

theorem tot_zero {f : Thread → Nat} {ts : List Thread} (h : ∀ t ∈ ts, f t = 0) : tot f ts = 0 := by
  induction ts with
  | nil => rfl
  | cons a ts ih =>
    simp only [tot_cons]
    rw [h a (by simp), ih (fun t ht => h t (by simp [ht]))]

theorem init_idle (cfg : List (List Bool × List Bool × List Op)) :
    ∀ t ∈ (init cfg).ts, t.pc = .idle := by
  intro t ht
  simp only [init, List.mem_map] at ht
  obtain ⟨c, -, rfl⟩ := ht
  rfl

theorem inv_initShared (ts : List Thread) (hidle : ∀ t ∈ ts, t.pc = .idle) :
    Inv { g := initShared ts, ts := ts } := by
  have e_hc : tot hc ts = tot (fun t => cnt t.sh) ts :=
    tot_congr (fun t ht => by simp [hc, hidle t ht, xh])
  have e_ec : tot ec ts = tot (fun t => cnt t.sh) ts :=
    tot_congr (fun t ht => by simp [ec, hidle t ht, xh, xb])
  have e_sc : tot sc ts = tot (fun t => cnt t.sh + cnt t.wk) ts :=
    tot_congr (fun t ht => by simp [sc, hidle t ht, xs])
  have e_hold : tot hold ts = 0 := tot_zero (fun t ht => by simp [hold, hidle t ht, xhold])
  have e_bump : tot bump ts = 0 := tot_zero (fun t ht => by simp [bump, hidle t ht, xb])
  have e_da : tot da ts = 0 := tot_zero (fun t ht => by simp [da, hidle t ht, xda])
  have e_db : tot db ts = 0 := tot_zero (fun t ht => by simp [db, hidle t ht, xdb])
  have e_dw : tot dw ts = 0 := tot_zero (fun t ht => by simp [dw, hidle t ht, xdw])
  have hHS : tot (fun t => cnt t.sh) ts ≤ tot (fun t => cnt t.sh + cnt t.wk) ts :=
    tot_le _ _ (fun t => by omega) ts
  have fH : (ts.map (fun t => cnt t.sh)).sum = tot (fun t => cnt t.sh) ts := rfl
  have fS : (ts.map (fun t => cnt t.sh + cnt t.wk)).sum = tot (fun t => cnt t.sh + cnt t.wk) ts := rfl
  generalize tot (fun t => cnt t.sh) ts = H at *
  generalize tot (fun t => cnt t.sh + cnt t.wk) ts = S at *
  refine ⟨?_, ?_, ?_, ?_, ?_, ?_, ?_, ?_, ?_, ?_, ?_, ?_, ?_, ?_, ?_⟩
  · intro t ht; simp [WF, hidle t ht]
  all_goals
    simp only [initShared, fH, fS, e_hc, e_ec, e_sc, e_hold, e_bump, e_da, e_db, e_dw]
  all_goals
    by_cases hH : 0 < H <;> by_cases hS : 0 < S <;> simp [hH, hS] <;> omega

/-- the invariant holds in every initial state -/
theorem inv_init (cfg : List (List Bool × List Bool × List Op)) : Inv (init cfg) :=
  inv_initShared _ (init_idle cfg)


end Cstl.Conc
