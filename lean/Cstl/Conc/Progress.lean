import Cstl.Conc.Reach
/-
Progress for C06: a measure that every non-stutter step decreases, absence of
deadlock, schedulers.
-/
namespace Cstl.Conc

/-! ### measure: an upper bound of the remaining non-stutter steps -/

def costK : Cont → Nat
  | .done => 1 | .share _ _ => 3 | .wfrom _ _ => 2 | .lock _ _ => 5

def rem : Pc → Nat
  | .idle => 0
  | .r1 _ k => 5 + costK k
  | .r2a k => 4 + costK k
  | .r2b k => 3 + costK k
  | .w1 k => 2 + costK k
  | .w2 k => 1 + costK k
  | .fin k => costK k
  | .a1 _ _ => 2 | .a2 _ _ => 1 | .f1 _ _ => 1
  | .l1 _ _ => 4 | .l2 _ _ => 3 | .l3 _ _ => 2 | .l3n _ _ => 2 | .l4 _ _ => 1
  | .u _ => 1

def costOp : Op → Nat
  | .share _ _ => 9 | .reset _ => 7 | .wfrom _ _ => 5 | .lock _ _ => 11 | .wreset _ => 4 | .use _ => 2

/-- remaining work of a thread -/
def mu (t : Thread) : Nat := (t.prog.map costOp).sum + rem t.pc

/-- remaining work of the system -/
def measure (s : State) : Nat := tot mu s.ts

theorem begin_mu (op : Op) (t0 : Thread) (hpc : t0.pc = .idle) :
    rem (begin op t0).pc < costOp op ∧ (begin op t0).prog = t0.prog := by
  cases op <;> simp only [begin] <;> repeat' split
  all_goals simp [rem, costOp, costK, hpc]

theorem resume_mu (k : Cont) (t : Thread) :
    rem (resume k t).pc < costK k ∧ (resume k t).prog = t.prog := by
  cases k <;> simp only [resume] <;> repeat' split
  all_goals simp [rem, costK]

/-- every step that is not a spin on the flag decreases the thread's remaining work;
a spin leaves everything unchanged -/
theorem stepT_mu {g g' : Shared} {t t' : Thread} {l : Label} (hs : stepT g t = some (l, g', t'))
    (hd : t.pc.visible = true → g.data = true) :
    (l.stutter = false → mu t' < mu t) ∧ (l.stutter = true → g' = g ∧ t' = t) := by
  unfold stepT at hs
  cases hpc : t.pc <;> simp only [hpc] at hs
  case idle =>
    cases hp : t.prog with
    | nil => simp [hp] at hs
    | cons op rest =>
      simp only [hp, Option.some.injEq, Prod.mk.injEq] at hs
      obtain ⟨rfl, rfl, rfl⟩ := hs
      have := begin_mu op { sh := t.sh, wk := t.wk, prog := rest, pc := Pc.idle, obs := t.obs } rfl
      have r0 : rem Pc.idle = 0 := rfl
      simp only [mu, this.2, hp, hpc, lab, List.map_cons, List.sum_cons, r0]
      constructor
      · intro _; omega
      · intro h; cases h
  case fin k =>
    simp only [Option.some.injEq, Prod.mk.injEq] at hs
    obtain ⟨rfl, rfl, rfl⟩ := hs
    have := resume_mu k t
    have r0 : rem (Pc.fin k) = costK k := rfl
    simp only [mu, this.2, hpc, lab, r0]
    constructor
    · intro _; omega
    · intro h; cases h
  case l1 w j =>
    rw [touch_live (hd (by simp [hpc, Pc.visible])) (by simp)] at hs
    split at hs <;> simp only [Option.some.injEq, Prod.mk.injEq] at hs <;> obtain ⟨rfl, rfl, rfl⟩ := hs
    · simp
    · simp [mu, hpc, lab, rem]
  case r1 j k =>
    simp only [Option.some.injEq, Prod.mk.injEq] at hs
    obtain ⟨rfl, rfl, rfl⟩ := hs
    by_cases h1 : (touch g false).hard = 1 <;> simp [mu, hpc, lab, rem, h1] <;> omega
  case w1 k =>
    simp only [Option.some.injEq, Prod.mk.injEq] at hs
    obtain ⟨rfl, rfl, rfl⟩ := hs
    by_cases h1 : (touch g false).soft = 1 <;> simp [mu, hpc, lab, rem, h1]
  case l2 w j =>
    simp only [Option.some.injEq, Prod.mk.injEq] at hs
    obtain ⟨rfl, rfl, rfl⟩ := hs
    by_cases h1 : (touch g false).hard > 0 <;> simp [mu, hpc, lab, rem, h1]
  all_goals
    simp only [Option.some.injEq, Prod.mk.injEq] at hs
    obtain ⟨rfl, rfl, rfl⟩ := hs
    simp [mu, hpc, lab, rem]
    try omega


theorem Inv.data_of_visible {s : State} (i : Inv s) {tid : Nat} {t : Thread} (hts : s.ts[tid]? = some t)
    (hv : t.pc.visible = true) : s.g.data = true := by
  have hwf := i.wf t (List.mem_of_getElem? hts)
  have hfd : s.g.freesData = 0 := by
    have := i.sawS; have := i.sawS_le; have := i.sawS_iff
    rcases hwf.refs hv with hr | hr
    · have := tot_ge sc hts; omega
    · have := tot_ge dw hts; omega
  exact i.data.mpr hfd

theorem set_self {ts : List Thread} {i : Nat} {t : Thread} (h : ts[i]? = some t) : ts.set i t = ts := by
  induction ts generalizing i with
  | nil => rfl
  | cons a ts ih =>
    cases i with
    | zero => simp at h; subst h; rfl
    | succ i => simp at h; simp [ih h]

theorem measure_set {ts : List Thread} {tid : Nat} {t t' : Thread} (hts : ts[tid]? = some t) :
    tot mu (ts.set tid t') + mu t = tot mu ts + mu t' := tot_set mu t' hts

/-- every step that is not a spin decreases the measure; a spin leaves the state unchanged -/
theorem stepL_measure {s s' : State} {tid : Nat} {l : Label} (i : Inv s) (hs : stepL s tid = some (l, s')) :
    (l.stutter = false → measure s' < measure s) ∧ (l.stutter = true → s' = s) := by
  obtain ⟨t, t', hts, hst, hset⟩ := stepL_decomp hs
  have hm := stepT_mu hst (fun hv => i.data_of_visible hts hv)
  have e := measure_set (t' := t') hts
  unfold measure
  rw [hset]
  refine ⟨fun h => ?_, fun h => ?_⟩
  · have := hm.1 h; omega
  · obtain ⟨hg, ht⟩ := hm.2 h
    have h1 : s'.ts = s.ts := by rw [hset, ht]; exact set_self hts
    cases s; cases s'; simp_all

/-- a step that is not a spin on the flag is enabled -/
def NonStutterEnabled (s : State) (tid : Nat) : Prop :=
  ∃ l s', stepL s tid = some (l, s') ∧ l.stutter = false

/-- an unfinished thread can always take a non-stutter step, except when it is at the
test-and-set while the flag is held -/
theorem stepT_nonstutter (g : Shared) {t : Thread} (hf : t.finished = false)
    (hl : ¬ ((∃ w j, t.pc = .l1 w j) ∧ g.flag = true)) :
    ∃ l g' t', stepT g t = some (l, g', t') ∧ l.stutter = false := by
  unfold stepT
  cases hpc : t.pc
  case idle =>
    cases hp : t.prog with
    | nil => simp [Thread.finished, hpc, hp] at hf
    | cons op rest => exact ⟨_, _, _, rfl, rfl⟩
  case l1 w j =>
    have hfl : g.flag = false := by
      cases hg : g.flag with
      | false => rfl
      | true => exact absurd ⟨⟨w, j, hpc⟩, hg⟩ hl
    have := (touch_fields g false).2.2.1
    simp only [this, hfl]
    exact ⟨_, _, _, rfl, rfl⟩
  all_goals exact ⟨_, _, _, rfl, rfl⟩

theorem nonStutterEnabled_of {s : State} {tid : Nat} {t : Thread} (hts : s.ts[tid]? = some t)
    (hf : t.finished = false) (hl : ¬ ((∃ w j, t.pc = .l1 w j) ∧ s.g.flag = true)) :
    NonStutterEnabled s tid := by
  obtain ⟨l, g', t', hst, hstut⟩ := stepT_nonstutter s.g hf hl
  exact ⟨l, ⟨g', s.ts.set tid t'⟩, by simp [stepL, hts, hst], hstut⟩

/-- the thread that holds the flag (it is between its test-and-set and its flag clear) is never blocked -/
theorem holder_enabled {s : State} {tid : Nat} {t : Thread} (hts : s.ts[tid]? = some t)
    (hh : 0 < hold t) : NonStutterEnabled s tid := by
  apply nonStutterEnabled_of hts
  · unfold Thread.finished
    cases hpc : t.pc <;> simp [hold, hpc, xhold] at hh ⊢
  · rintro ⟨⟨w, j, hpc⟩, -⟩
    simp [hold, hpc, xhold] at hh

theorem exists_unfinished_index {ts : List Thread} {t : Thread} (ht : t ∈ ts) :
    ∃ i : Nat, ts[i]? = some t := by
  obtain ⟨i, hi, rfl⟩ := List.mem_iff_getElem.mp ht
  exact ⟨i, by simp [hi]⟩

/-- no deadlock: while some thread is unfinished, some thread can take a step that is not a spin -/
theorem Inv.no_deadlock {s : State} (i : Inv s) (hu : ∃ t ∈ s.ts, t.finished = false) :
    ∃ tid, NonStutterEnabled s tid := by
  obtain ⟨t, ht, hf⟩ := hu
  obtain ⟨k, hk⟩ := exists_unfinished_index ht
  by_cases hl : (∃ w j, t.pc = .l1 w j) ∧ s.g.flag = true
  · have hF := i.flag
    rw [hl.2] at hF
    simp only [if_true] at hF
    obtain ⟨k', u, hu, hpos⟩ := exists_of_tot_pos (f := hold) (ts := s.ts) (by omega)
    exact ⟨k', holder_enabled hu hpos⟩
  · exact ⟨k, nonStutterEnabled_of hk hf hl⟩

/-! ### schedulers -/

/-- the state after `n` scheduling decisions of `sched` (a decision for a finished thread is skipped) -/
def runN (s : State) (sched : Nat → Nat) : Nat → State
  | 0 => s
  | n + 1 => match step (runN s sched n) (sched n) with
    | some s' => s'
    | none => runN s sched n

/-- the scheduler does not starve enabled non-stutter steps: whenever some step that is not a spin is
enabled, it eventually schedules a thread whose step is not a spin -/
def Fair (s : State) (sched : Nat → Nat) : Prop :=
  ∀ n, (∃ tid, NonStutterEnabled (runN s sched n) tid) →
    ∃ m, n ≤ m ∧ NonStutterEnabled (runN s sched m) (sched m)

theorem Reachable.runN {cfg : Cfg} {s : State} (h : Reachable cfg s) (sched : Nat → Nat) (n : Nat) :
    Reachable cfg (runN s sched n) := by
  induction n with
  | zero => exact h
  | succ n ih =>
    unfold Conc.runN
    cases hs : Conc.step (Conc.runN s sched n) (sched n) with
    | none => exact ih
    | some s' =>
      obtain ⟨l, hl⟩ := step_iff.mp hs
      exact ih.step hl

theorem measure_runN_succ {cfg : Cfg} {s : State} (h : Reachable cfg s) (sched : Nat → Nat) (n : Nat) :
    measure (runN s sched (n + 1)) ≤ measure (runN s sched n) ∧
    (NonStutterEnabled (runN s sched n) (sched n) → measure (runN s sched (n + 1)) < measure (runN s sched n)) := by
  have i := (h.runN sched n).inv
  show measure (match Conc.step (Conc.runN s sched n) (sched n) with
    | some s' => s' | none => Conc.runN s sched n) ≤ _ ∧ (_ → measure (match Conc.step (Conc.runN s sched n) (sched n) with
    | some s' => s' | none => Conc.runN s sched n) < _)
  cases hs : Conc.step (Conc.runN s sched n) (sched n) with
  | none =>
    refine ⟨Nat.le_refl _, fun ⟨l, s', hl, _⟩ => ?_⟩
    have := step_iff.mpr ⟨l, hl⟩
    rw [hs] at this; cases this
  | some s' =>
    obtain ⟨l, hl⟩ := step_iff.mp hs
    have hm := stepL_measure i hl
    refine ⟨?_, fun ⟨l2, s2, hl2, hst⟩ => ?_⟩
    · cases hst : l.stutter with
      | false => exact Nat.le_of_lt (hm.1 hst)
      | true => rw [hm.2 hst]; exact Nat.le_refl _
    · rw [hl] at hl2
      cases hl2
      exact hm.1 hst

theorem measure_runN_mono {cfg : Cfg} {s : State} (h : Reachable cfg s) (sched : Nat → Nat) (n k : Nat) :
    measure (runN s sched (n + k)) ≤ measure (runN s sched n) := by
  induction k with
  | zero => exact Nat.le_refl _
  | succ k ih => exact Nat.le_trans (measure_runN_succ h sched (n + k)).1 ih


theorem runN_length (s : State) (sched : Nat → Nat) (n : Nat) : (runN s sched n).ts.length = s.ts.length := by
  induction n with
  | zero => rfl
  | succ n ih =>
    unfold runN
    cases hs : step (runN s sched n) (sched n) with
    | none => exact ih
    | some s' =>
      obtain ⟨l, hl⟩ := step_iff.mp hs
      simp only []
      rw [stepL_length hl]; exact ih

/-- if the scheduled thread has no non-stutter step, the state does not change -/
theorem runN_succ_of_not_enabled {cfg : Cfg} {s : State} (h : Reachable cfg s) (sched : Nat → Nat) (n : Nat)
    (hne : ¬ NonStutterEnabled (runN s sched n) (sched n)) : runN s sched (n + 1) = runN s sched n := by
  show (match step (runN s sched n) (sched n) with | some s' => s' | none => runN s sched n) = _
  cases hs : step (runN s sched n) (sched n) with
  | none => rfl
  | some s' =>
    obtain ⟨l, hl⟩ := step_iff.mp hs
    have hm := stepL_measure (h.runN sched n).inv hl
    cases hst : l.stutter with
    | true => exact hm.2 hst
    | false => exact absurd ⟨l, s', hl, hst⟩ hne


end Cstl.Conc
