import Cstl.Conc.Reach
/-
Accesses of the micro-steps (for the data-race freedom theorem of C06) and the
two exclusion lemmas the theorem rests on.
-/
namespace Cstl.Conc

/-- the memory locations the library's steps touch: the three atomics, the unique pointer embedded
in the bookkeeping block (`data->up`), and the managed memory -/
inductive Loc where
  | hard | soft | lock | up | mem
  deriving DecidableEq, Repr

inductive Kind where
  | atomic   -- seq_cst read-modify-write / flag clear
  | read     -- plain read
  | write    -- plain write (free counts as a write)
  deriving DecidableEq, Repr

/-- what the micro-step at a pc accesses.  `free(data)` writes every part of the block.  `use`
reads the unique pointer and the memory (what the *caller* does with the memory among several live
owners is the caller's business — the property is about the library's bookkeeping — so it is a
read here; against the clear/free of the memory a read already conflicts). -/
def accesses : Pc → List (Loc × Kind)
  | .idle => []
  | .fin _ => []
  | .r1 _ _ => [(.hard, .atomic)]
  | .r2a _ => [(.up, .read), (.mem, .write)]
  | .r2b _ => [(.mem, .write), (.up, .write)]
  | .w1 _ => [(.soft, .atomic)]
  | .w2 _ => [(.hard, .write), (.soft, .write), (.lock, .write), (.up, .write)]
  | .a1 _ _ => [(.hard, .atomic)]
  | .a2 _ _ => [(.soft, .atomic)]
  | .f1 _ _ => [(.soft, .atomic)]
  | .l1 _ _ => [(.lock, .atomic)]
  | .l2 _ _ => [(.hard, .atomic)]
  | .l3 _ _ => [(.soft, .atomic)]
  | .l3n _ _ => [(.hard, .atomic)]
  | .l4 _ _ => [(.lock, .atomic)]
  | .u _ => [(.up, .read), (.mem, .read)]

/-- C11: two accesses conflict if they are to the same location and at least one modifies it; the
conflict is a data race unless both are atomic (every atomic of memory.c modifies) -/
def conflict (a b : Loc × Kind) : Prop :=
  a.1 = b.1 ∧ ¬ (a.2 = .atomic ∧ b.2 = .atomic) ∧ ¬ (a.2 = .read ∧ b.2 = .read)

instance (a b : Loc × Kind) : Decidable (conflict a b) := by unfold conflict; infer_instance

/-- the thread that is about to free the bookkeeping block is alone: no other thread has a micro-step -/
theorem freer_alone {s : State} (i : Inv s) {a b : Nat} {t u : Thread} (hab : a ≠ b)
    (ha : s.ts[a]? = some t) (hb : s.ts[b]? = some u) {k : Cont} (hpc : t.pc = .w2 k) :
    u.pc.visible = false := by
  have hd : dw t = 1 := by simp [dw, hpc, xdw]
  have g1 := tot_ge2 dw hab ha hb
  have g2 := tot_ge sc hb
  have := i.sawS; have := i.sawS_le; have := i.sawS_iff
  cases hv : u.pc.visible with
  | false => rfl
  | true =>
    have hu := i.wf u (List.mem_of_getElem? hb)
    rcases hu.refs hv with h | h <;> omega

/-- a thread between its `hard--` that returned 1 and the end of the destruction excludes any other
destroyer and any user of the memory -/
theorem destroyer_alone {s : State} (i : Inv s) {a b : Nat} {t u : Thread} (hab : a ≠ b)
    (ha : s.ts[a]? = some t) (hb : s.ts[b]? = some u) {k : Cont} (hpc : t.pc = .r2a k ∨ t.pc = .r2b k) :
    (∀ k, u.pc ≠ .r2a k) ∧ (∀ k, u.pc ≠ .r2b k) ∧ (∀ j, u.pc ≠ .u j) := by
  have hdd : da t + db t = 1 := by
    rcases hpc with h | h <;> simp [da, db, h, xda, xdb]
  have g1 : (da t + db t) + (da u + db u) ≤ tot da s.ts + tot db s.ts := by
    have := tot_ge2 (fun t => da t + db t) hab ha hb
    rw [tot_add] at this
    exact this
  have g2 := tot_ge ec hb
  have := i.sawH; have := i.sawH_le; have := i.sawH_iff; have := i.clr
  have hu := i.wf u (List.mem_of_getElem? hb)
  refine ⟨fun k h => ?_, fun k h => ?_, fun j h => ?_⟩
  · have : da u + db u = 1 := by simp [da, db, h, xda, xdb]
    omega
  · have : da u + db u = 1 := by simp [da, db, h, xda, xdb]
    omega
  · unfold WF at hu
    simp only [h] at hu
    have := slot_pos hu
    simp only [ec, h, xh, xb] at g2
    omega


end Cstl.Conc
