import Cstl.Conc.Model
