import Cstl.Conc.Race
import Cstl.Conc.Progress
/-
C06 — reference counting is correct under every thread interleaving.

Property theorems (and non-vacuity examples) about the micro-step transition
system of `Cstl/Conc/Model.lean`, for ANY number of threads, ANY programs and
ANY schedule: `Reachable cfg s` / `Exec cfg tr s` quantify over all initial
reference configurations `cfg` and all interleavings of the atomic steps.

Trusted assumption (not proved here): the theorems are about sequentially
consistent interleavings of the micro-steps.  Every atomic operation of
memory.c is a seq_cst operation and `race_free` below shows that the model has
no data race in the SC semantics; by the C11 DRF-SC guarantee every real
execution of the library is then one of these interleavings.  The granularity
(one micro-step per atomic operation) is tied to the source by the per-step
trace comparison of tools/props/C06.py.
-/
namespace Cstl.Conc

/-! ## counting invariant -/

/-- hard = Σ per-thread contributions determined by the pc, likewise soft; the temporary bump of a
failing lock is unique, held only by the flag holder and only when no owner is left; the memory is
live iff an established owner exists or a thread is between its `hard--` that returned 1 and the
clear; the bookkeeping block is live iff a reference exists or a thread is between its `soft--`
that returned 1 and the free. -/
theorem counting_invariant {cfg : Cfg} {s : State} (h : Reachable cfg s) :
    s.g.hard = tot hc s.ts ∧ s.g.soft = tot sc s.ts ∧
    tot hold s.ts = (if s.g.flag then 1 else 0) ∧ tot bump s.ts ≤ tot hold s.ts ∧
    (0 < tot bump s.ts → tot ec s.ts = 0) ∧
    (s.g.mem = true ↔ 0 < tot ec s.ts ∨ 0 < tot da s.ts) ∧
    (s.g.data = true ↔ 0 < tot sc s.ts ∨ 0 < tot dw s.ts) := by
  have i := h.inv
  refine ⟨i.hard, i.soft, i.flag, tot_bump_le _, i.bumpE, ?_, ?_⟩
  · rw [i.mem]
    have := i.sawH; have := i.sawH_le; have := i.sawH_iff
    constructor <;> intro _ <;> omega
  · rw [i.data]
    have := i.sawS; have := i.sawS_le; have := i.sawS_iff
    constructor <;> intro _ <;> omega

/-- on every schedule at most one `hard--` of a reset returns 1 and at most one `soft--` returns 1 -/
theorem saw_one_at_most_once {cfg : Cfg} {tr : List (Nat × Label)} {s : State} (h : Exec cfg tr s) :
    countSaw1 .decHard tr ≤ 1 ∧ countSaw1 .decSoft tr ≤ 1 := by
  have i := h.inv
  have e := h.events
  have := i.sawH_le; have := i.sawS_le
  omega

/-- the memory is cleared at most once and freed at most once (after its clear), the bookkeeping block
is freed at most once — counted on the trace of any schedule, together with what happened before the
threads started (`init`: 1 iff the configuration has no owner / no reference at all) -/
theorem clear_free_at_most_once {cfg : Cfg} {tr : List (Nat × Label)} {s : State} (h : Exec cfg tr s) :
    (init cfg).g.clears + countAct .clearCb tr ≤ 1 ∧
    (init cfg).g.freesMem + countAct .freeMem tr ≤ (init cfg).g.clears + countAct .clearCb tr ∧
    (init cfg).g.freesData + countAct .freeData tr ≤ 1 := by
  have i := h.inv
  have e := h.events
  have := i.sawH; have := i.sawH_le; have := i.clr; have := i.sawS; have := i.sawS_le
  omega

/-- the step that clears the memory is taken when no established owner remains, and none appears later -/
theorem clear_only_without_owner {cfg : Cfg} {s : State} (h : Reachable cfg s) (hc : 0 < s.g.clears ∨ 0 < tot da s.ts) :
    tot ec s.ts = 0 ∧ ∀ t ∈ s.ts, ∀ j, slot t.sh j = false := by
  have i := h.inv
  have hE : tot ec s.ts = 0 := by
    have := i.sawH; have := i.sawH_le; have := i.sawH_iff
    omega
  refine ⟨hE, fun t ht j => ?_⟩
  have h0 := tot_eq_zero hE t ht
  cases hs : slot t.sh j with
  | false => rfl
  | true =>
    have := slot_pos hs
    unfold ec at h0
    omega


/-! ## exactly once, and only when nothing is left -/

/-- the free of the bookkeeping block happens when no reference remains -/
theorem data_free_only_without_reference {cfg : Cfg} {s : State} (h : Reachable cfg s)
    (hc : 0 < s.g.freesData ∨ 0 < tot dw s.ts) :
    tot sc s.ts = 0 ∧ ∀ t ∈ s.ts, (∀ j, slot t.sh j = false) ∧ (∀ w, slot t.wk w = false) := by
  have i := h.inv
  have hE : tot sc s.ts = 0 := by
    have := i.sawS; have := i.sawS_le; have := i.sawS_iff
    omega
  refine ⟨hE, fun t ht => ⟨fun j => ?_, fun w => ?_⟩⟩
  · have h0 := tot_eq_zero hE t ht
    cases hs : slot t.sh j with
    | false => rfl
    | true => have := slot_pos hs; unfold sc at h0; omega
  · have h0 := tot_eq_zero hE t ht
    cases hs : slot t.wk w with
    | false => rfl
    | true => have := slot_pos hs; unfold sc at h0; omega

/-- when every thread has finished: the memory has been cleared and freed exactly once iff no owner
object is left (and not at all otherwise), the bookkeeping block has been freed exactly once iff no
pointer object references it (and not at all otherwise) — nothing leaks, nothing is freed early -/
theorem finished_exactly_once {cfg : Cfg} {s : State} (h : Reachable cfg s)
    (hfin : ∀ t ∈ s.ts, t.finished = true) :
    (tot (fun t => cnt t.sh) s.ts = 0 → s.g.clears = 1 ∧ s.g.freesMem = 1 ∧ s.g.mem = false) ∧
    (0 < tot (fun t => cnt t.sh) s.ts → s.g.clears = 0 ∧ s.g.freesMem = 0 ∧ s.g.mem = true) ∧
    (tot (fun t => cnt t.sh + cnt t.wk) s.ts = 0 → s.g.freesData = 1 ∧ s.g.data = false) ∧
    (0 < tot (fun t => cnt t.sh + cnt t.wk) s.ts → s.g.freesData = 0 ∧ s.g.data = true) := by
  have i := h.inv
  have e1 : tot ec s.ts = tot (fun t => cnt t.sh) s.ts := tot_congr (fun t ht => (finished_contrib (hfin t ht)).1)
  have e2 : tot sc s.ts = tot (fun t => cnt t.sh + cnt t.wk) s.ts :=
    tot_congr (fun t ht => (finished_contrib (hfin t ht)).2.1)
  have e3 : tot da s.ts = 0 := tot_zero (fun t ht => (finished_contrib (hfin t ht)).2.2.1)
  have e4 : tot db s.ts = 0 := tot_zero (fun t ht => (finished_contrib (hfin t ht)).2.2.2.1)
  have e5 : tot dw s.ts = 0 := tot_zero (fun t ht => (finished_contrib (hfin t ht)).2.2.2.2)
  have := i.sawH; have := i.sawH_le; have := i.sawH_iff; have := i.clr
  have := i.sawS; have := i.sawS_le; have := i.sawS_iff
  have hm := i.mem; have hd := i.data
  rw [← e1, ← e2]
  refine ⟨fun h0 => ?_, fun h0 => ?_, fun h0 => ?_, fun h0 => ?_⟩
  · have hc : s.g.clears = 1 := by omega
    refine ⟨hc, by omega, ?_⟩
    cases hmm : s.g.mem with
    | false => rfl
    | true => have := hm.mp hmm; omega
  · have hc : s.g.clears = 0 := by omega
    exact ⟨hc, by omega, hm.mpr hc⟩
  · have hc : s.g.freesData = 1 := by omega
    refine ⟨hc, ?_⟩
    cases hmm : s.g.data with
    | false => rfl
    | true => have := hd.mp hmm; omega
  · have hc : s.g.freesData = 0 := by omega
    exact ⟨hc, hd.mpr hc⟩

/-- no micro-step ever touches a block that is no longer live (what ASan would report) -/
theorem no_bad_access {cfg : Cfg} {s : State} (h : Reachable cfg s) : s.g.bad = 0 := h.inv.bad

/-- an owner (a shared pointer object that references the block — in particular one obtained by a
successful lock) keeps the memory live -/
theorem owner_keeps_memory_live {cfg : Cfg} {s : State} (h : Reachable cfg s) {t : Thread} (ht : t ∈ s.ts)
    {j : Nat} (hj : slot t.sh j = true) : s.g.mem = true ∧ s.g.data = true := by
  have i := h.inv
  have hp := slot_pos hj
  have h1 : 0 < tot ec s.ts := tot_pos_of_mem ht (by unfold ec; omega)
  have h2 : 0 < tot sc s.ts := tot_pos_of_mem ht (by unfold sc; omega)
  have := i.sawH; have := i.sawH_le; have := i.sawH_iff; have := i.clr
  have := i.sawS; have := i.sawS_le; have := i.sawS_iff
  exact ⟨i.mem.mpr (by omega), i.data.mpr (by omega)⟩

/-- a lock whose increment saw a non-zero count has obtained live memory -/
theorem lock_success_live {cfg : Cfg} {s : State} (h : Reachable cfg s) {t : Thread} (ht : t ∈ s.ts)
    {w j : Nat} (hpc : t.pc = .l3 w j) : s.g.mem = true := by
  have i := h.inv
  have h1 : 0 < tot ec s.ts := tot_pos_of_mem ht (by simp [ec, hpc, xh, xb])
  have := i.sawH; have := i.sawH_le; have := i.sawH_iff
  exact i.mem.mpr (by omega)

/-- the `use` step is taken only on live memory: a thread whose next step is the use of the memory
through its owner `j` finds memory and bookkeeping block live -/
theorem use_sees_live_memory {cfg : Cfg} {s : State} (h : Reachable cfg s) {t : Thread} (ht : t ∈ s.ts)
    {j : Nat} (hpc : t.pc = .u j) : s.g.mem = true ∧ s.g.data = true := by
  have hwf := h.inv.wf t ht
  unfold WF at hwf
  simp only [hpc] at hwf
  exact owner_keeps_memory_live h ht hwf


/-! ## no use after destroy, no access to the freed bookkeeping block -/

/-- an owner stays an owner until its own thread resets it: steps of other threads do not change a
thread, and the only step of the thread itself that clears object `j` is the `hard--` of its reset -/
theorem owner_until_own_reset {s s' : State} {tid : Nat} {l : Label} (hs : stepL s tid = some (l, s'))
    {i : Nat} {t : Thread} (hi : s.ts[i]? = some t) {j : Nat} (hj : slot t.sh j = true) :
    (∃ t', s'.ts[i]? = some t' ∧ slot t'.sh j = true) ∨ (i = tid ∧ ∃ k, t.pc = .r1 j k) := by
  by_cases hit : i = tid
  · subst hit
    obtain ⟨t0, t', h0, hst, hts⟩ := stepL_decomp hs
    rw [hi] at h0; cases h0
    have hlen : i < s.ts.length := by
      rcases Nat.lt_or_ge i s.ts.length with h | h
      · exact h
      · rw [List.getElem?_eq_none h] at hi; cases hi
    have hget : s'.ts[i]? = some t' := by rw [hts]; simp [hlen]
    by_cases hj' : slot t'.sh j = true
    · exact .inl ⟨t', hget, hj'⟩
    · exact .inr ⟨rfl, stepT_slot_cleared hst hj hj'⟩
  · left
    exact ⟨t, by rw [stepL_frame hs hit]; exact hi, hj⟩

/-- every micro-step that touches the bookkeeping block is taken by a thread that still holds a
contribution to `soft` (or is the unique thread that took the last one and is about to free the
block), and the block is live -/
theorem bookkeeping_access_by_reference_holder {cfg : Cfg} {s : State} (h : Reachable cfg s) {tid : Nat}
    {t : Thread} (hts : s.ts[tid]? = some t) (hv : t.pc.visible = true) :
    (0 < sc t ∨ (0 < dw t ∧ tot dw s.ts = 1 ∧ tot sc s.ts = 0)) ∧ s.g.data = true := by
  have i := h.inv
  refine ⟨?_, i.data_of_visible hts hv⟩
  rcases (i.wf t (List.mem_of_getElem? hts)).refs hv with h1 | h1
  · exact .inl h1
  · right
    have := tot_ge dw hts
    have := i.sawS; have := i.sawS_le; have := i.sawS_iff
    exact ⟨h1, by omega, by omega⟩

/-! ## data-race freedom in the sequentially consistent model -/

/-- whenever two different threads are each about to take a micro-step, the accesses of the two steps
do not conflict (same location, one of them a plain write or a plain access against an atomic):
in particular nothing is concurrent with the clear / free of the memory or with the free of the
bookkeeping block -/

theorem race_free {cfg : Cfg} {s : State} (h : Reachable cfg s) {a b : Nat} {t u : Thread} (hab : a ≠ b)
    (ha : s.ts[a]? = some t) (hb : s.ts[b]? = some u) :
    ∀ x ∈ accesses t.pc, ∀ y ∈ accesses u.pc, ¬ conflict x y := by
  have i := h.inv
  have f1 := @freer_alone s i a b t u hab ha hb
  have f2 := @freer_alone s i b a u t (Ne.symm hab) hb ha
  have d1 := @destroyer_alone s i a b t u hab ha hb
  have d2 := @destroyer_alone s i b a u t (Ne.symm hab) hb ha
  cases hpt : t.pc <;> cases hpu : u.pc
  all_goals first
    | (intro x hx y hy
       simp only [accesses, List.mem_cons, List.not_mem_nil, or_false] at hx hy
       done)
    | (intro x hx y hy
       simp only [accesses, List.mem_cons, List.not_mem_nil, or_false] at hx hy
       rcases hx with rfl | rfl | rfl | rfl <;> rcases hy with rfl | rfl | rfl | rfl <;>
         simp [conflict]
       done)
    | (exfalso; have hh := f1 hpt; simp [hpu, Pc.visible] at hh; done)
    | (exfalso; have hh := f2 hpu; simp [hpt, Pc.visible] at hh; done)
    | (exfalso; have hh := d1 (.inl hpt); simp [hpu] at hh; done)
    | (exfalso; have hh := d1 (.inr hpt); simp [hpu] at hh; done)
    | (exfalso; have hh := d2 (.inl hpu); simp [hpt] at hh; done)
    | (exfalso; have hh := d2 (.inr hpu); simp [hpt] at hh; done)


/-! ## progress -/

/-- the flag is held exactly while one thread is between its successful test-and-set and its flag
clear, and that thread is never blocked -/
theorem lock_holder_enabled {cfg : Cfg} {s : State} (h : Reachable cfg s) :
    (s.g.flag = true → ∃ (tid : Nat) (t : Thread), s.ts[tid]? = some t ∧ 0 < hold t) ∧
    (∀ (tid : Nat) (t : Thread), s.ts[tid]? = some t → 0 < hold t → s.g.flag = true ∧ NonStutterEnabled s tid) := by
  have i := h.inv
  refine ⟨fun hf => ?_, fun tid t hts hh => ⟨?_, holder_enabled hts hh⟩⟩
  · have hF := i.flag
    rw [hf] at hF
    simp only [if_true] at hF
    obtain ⟨k, u, hu, hpos⟩ := exists_of_tot_pos (f := hold) (ts := s.ts) (by omega)
    exact ⟨k, u, hu, hpos⟩
  · have hF := i.flag
    have := tot_ge hold hts
    cases hf : s.g.flag with
    | true => rfl
    | false => rw [hf] at hF; simp at hF; omega

/-- no deadlock: while some thread is unfinished, a step that is not a spin is enabled -/
theorem no_deadlock {cfg : Cfg} {s : State} (h : Reachable cfg s) (hu : ∃ t ∈ s.ts, t.finished = false) :
    ∃ tid, NonStutterEnabled s tid := h.inv.no_deadlock hu

/-- every step that is not a spin on the flag decreases the measure (total of remaining micro-steps);
a spin leaves the state unchanged -/
theorem measure_decreases {cfg : Cfg} {s s' : State} (h : Reachable cfg s) {tid : Nat} {l : Label}
    (hs : stepL s tid = some (l, s')) :
    (l.stutter = false → measure s' < measure s) ∧ (l.stutter = true → s' = s) :=
  stepL_measure h.inv hs

/-- no thread waits forever: under any scheduler that does not starve enabled non-stutter steps,
every thread finishes -/
theorem fair_termination {cfg : Cfg} {s : State} (h : Reachable cfg s) (sched : Nat → Nat)
    (hfair : Fair s sched) : ∃ n, ∀ t ∈ (runN s sched n).ts, t.finished = true := by
  suffices H : ∀ M n, measure (runN s sched n) ≤ M → ∃ n', ∀ t ∈ (runN s sched n').ts, t.finished = true from
    H _ 0 (Nat.le_refl _)
  intro M
  induction M with
  | zero =>
    intro n hn
    by_cases hall : ∀ t ∈ (runN s sched n).ts, t.finished = true
    · exact ⟨n, hall⟩
    · exfalso
      have hu : ∃ t ∈ (runN s sched n).ts, t.finished = false := by
        apply Classical.byContradiction
        intro hne
        apply hall
        intro t ht
        cases hf : t.finished with
        | true => rfl
        | false => exact absurd ⟨t, ht, hf⟩ hne
      obtain ⟨m, hm, hen⟩ := hfair n (no_deadlock (h.runN sched n) hu)
      have h1 := (measure_runN_succ h sched m).2 hen
      obtain ⟨k, rfl⟩ := Nat.exists_eq_add_of_le hm
      have h2 := measure_runN_mono h sched n k
      omega
  | succ M ih =>
    intro n hn
    by_cases hall : ∀ t ∈ (runN s sched n).ts, t.finished = true
    · exact ⟨n, hall⟩
    · have hu : ∃ t ∈ (runN s sched n).ts, t.finished = false := by
        apply Classical.byContradiction
        intro hne
        apply hall
        intro t ht
        cases hf : t.finished with
        | true => rfl
        | false => exact absurd ⟨t, ht, hf⟩ hne
      obtain ⟨m, hm, hen⟩ := hfair n (no_deadlock (h.runN sched n) hu)
      have h1 := (measure_runN_succ h sched m).2 hen
      obtain ⟨k, rfl⟩ := Nat.exists_eq_add_of_le hm
      have h2 := measure_runN_mono h sched n k
      exact ih (n + k + 1) (by omega)

/-- a scheduler that schedules every thread again and again does not starve enabled steps -/
theorem fair_of_recurrent {cfg : Cfg} {s : State} (h : Reachable cfg s) (sched : Nat → Nat)
    (hrec : ∀ n tid, tid < s.ts.length → ∃ m, n ≤ m ∧ sched m = tid) : Fair s sched := by
  intro n ⟨tid, hen⟩
  have hlt : tid < s.ts.length := by
    obtain ⟨l, s', hl, _⟩ := hen
    obtain ⟨t, _, hts, _, _⟩ := stepL_decomp hl
    rw [← runN_length s sched n]
    rcases Nat.lt_or_ge tid (runN s sched n).ts.length with h' | h'
    · exact h'
    · rw [List.getElem?_eq_none h'] at hts; cases hts
  obtain ⟨m, hm, hsm⟩ := hrec n tid hlt
  obtain ⟨k, rfl⟩ := Nat.exists_eq_add_of_le hm
  clear hm
  induction k generalizing n with
  | zero => exact ⟨n, Nat.le_refl _, by rw [Nat.add_zero] at hsm; rw [hsm]; exact hen⟩
  | succ k ih =>
    by_cases hne : NonStutterEnabled (runN s sched n) (sched n)
    · exact ⟨n, Nat.le_refl _, hne⟩
    · have e := runN_succ_of_not_enabled h sched n hne
      obtain ⟨m', hm', hen'⟩ := ih (n + 1) (by rw [e]; exact hen) (by rw [← hsm]; congr 1; omega)
      exact ⟨m', by omega, hen'⟩


/-- in particular: under round-robin scheduling every thread finishes, for any number of threads and
any programs (no assumption left) -/
theorem round_robin_terminates {cfg : Cfg} {s : State} (h : Reachable cfg s) (hN : 0 < s.ts.length) :
    ∃ n, ∀ t ∈ (runN s (fun m => m % s.ts.length) n).ts, t.finished = true := by
  apply fair_termination h
  apply fair_of_recurrent h
  intro n tid hlt
  refine ⟨s.ts.length * (n + 1) + tid, ?_, ?_⟩
  · have : n + 1 ≤ s.ts.length * (n + 1) := Nat.le_mul_of_pos_left _ hN
    omega
  · show (s.ts.length * (n + 1) + tid) % s.ts.length = tid
    rw [Nat.mul_add_mod, Nat.mod_eq_of_lt hlt]

/-! ## non-vacuity: concrete schedules of reset ‖ lock,use,reset ‖ lock,use,reset -/

/-- thread 0 owns the block; threads 1 and 2 hold weak pointers and try to lock -/
def exCfg : Cfg :=
  [ ([true], [], [.reset 0]),
    ([false], [true], [.lock 0 0, .use 0, .reset 0, .wreset 0]),
    ([false], [true], [.lock 0 0, .use 0, .reset 0, .wreset 0]) ]

/-- thread 1 locks successfully and is about to use the memory; thread 0 has started its reset;
thread 2 spins on nothing yet -/
def exUse : State := run (init exCfg) [1, 1, 1, 1, 1, 1, 1, 0, 0]

example : Reachable exCfg exUse := (Reachable.init exCfg).run _
-- hypotheses of `use_sees_live_memory` / `owner_keeps_memory_live` / `race_free` hold non-trivially:
-- thread 1 is at `u`, thread 0 has just decremented `hard` (2 -> 1, not the last owner)
example : (exUse.ts[1]?.map (·.pc)) = some (.u 0) := by decide
example : (exUse.ts[0]?.map (·.pc)) = some (.w1 .done) := by decide
example : exUse.g.hard = 1 ∧ exUse.g.mem = true ∧ exUse.g.clears = 0 := by decide

/-- the last owner goes first; thread 1 holds the flag with its temporary bump while thread 2 spins -/
def exSpin : State := run (init exCfg) [0, 0, 1, 1, 1, 1, 2, 2, 2, 2]

example : Reachable exCfg exSpin := (Reachable.init exCfg).run _
example : (exSpin.ts[0]?.map (·.pc)) = some (.r2a .done) := by decide
example : (exSpin.ts[1]?.map (·.pc)) = some (.l3n 0 0) := by decide
example : (exSpin.ts[2]?.map (·.pc)) = some (.l1 0 0) := by decide
example : exSpin.g.flag = true ∧ exSpin.g.hard = 1 ∧ tot bump exSpin.ts = 1 ∧ tot ec exSpin.ts = 0 := by decide
-- the spinning thread's step is a stutter step, the holder's is not
example : (stepL exSpin 2).map (·.1.stutter) = some true := by decide
example : (stepL exSpin 1).map (·.1.stutter) = some false := by decide

/-- a complete schedule: everything is cleared and freed exactly once -/
def exDone : State :=
  run (init exCfg) ([0, 0, 1, 1, 1, 1, 2, 2, 2, 2] ++ List.replicate 12 0 ++ List.replicate 24 1 ++ List.replicate 24 2)

example : Reachable exCfg exDone := (Reachable.init exCfg).run _
example : (exDone.ts.all Thread.finished) = true ∧ exDone.g.clears = 1 ∧ exDone.g.freesMem = 1 ∧
    exDone.g.freesData = 1 ∧ exDone.g.bad = 0 := by decide

end Cstl.Conc
