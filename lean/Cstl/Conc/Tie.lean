import Cstl.Gen.ConcC
import Cstl.Conc.Model
/-
Translator tie for C06: the skeletons in `Cstl/Gen/ConcC.lean` are regenerated
by tools/c2lean_mem.py from the clang AST of /repo's src/memory.c (and the
inline functions of include/cstl/memory.h) on every check run — per C function
the ordered atomic operations / accesses to shared state, the branching on the
values they returned, and the spin loop.

1. `pcSk` reads the program counter structure of the hand-written micro-step
   model `Cstl/Conc/Model.lean` as such a skeleton: `pcSk pc` is what the
   current operation still has to do at `pc`.  `stepT_conforms` PROVES that
   this reading is the model's behaviour: every micro-step of `stepT` performs
   exactly the next access of `pcSk pc`, branches on the observed value as the
   skeleton says, and arrives at a `pc` whose skeleton is the remainder; the
   thread-local `tau` steps (dispatch, continuation after the leading reset)
   enter an operation's skeleton, keep it, or abandon the operation because a
   pointer object of the thread is NULL.
2. The `*_tie` theorems state that these skeletons ARE the ones generated from
   the C text (on the path where the pointer objects involved refer to the
   block; `*_null_tie`: where the target of share / from / lock is empty).
   Reordering two atomic operations in memory.c, dropping one, branching on a
   different value or moving the flag release changes the generated skeleton
   and the equality stops checking.
-/
namespace Cstl.Conc.Tie
open Cstl.Conc Cstl.Gen.ConcC

/-- the access a label of the model stands for (`tau` = thread-local) -/
def actStep : Act → Option Step
  | .tau => none
  | .incHard => some .fetchAdd_hard
  | .decHard => some .fetchSub_hard
  | .undoHard => some .fetchSub_hard
  | .incSoft => some .fetchAdd_soft
  | .decSoft => some .fetchSub_soft
  | .tas => some .tas
  | .flagClear => some .flagClear
  | .clearCb => some .clearCb
  | .freeMem => some .freeMem
  | .freeData => some .freeData
  | .use => some .use

/-- `cstl_weak_ptr_reset` from its decrement on, then `k` -/
def wrSk (k : Sk) : Sk := .test .fetchSub_soft .eq1 (.step .freeData k) k .nil

/-- `cstl_shared_ptr_reset` from its decrement on, then `k` -/
def rSk (k : Sk) : Sk :=
  .test .fetchSub_hard .eq1 (.step .clearCb (.step .freeMem (wrSk k))) (wrSk k) .nil

/-- `cstl_weak_ptr_lock` after the spin loop -/
def lockSk : Sk :=
  .test .fetchAdd_hard .gt0 (.step .fetchAdd_soft (.step .flagClear .nil))
    (.step .fetchSub_hard (.step .flagClear .nil)) .nil

/-- what an operation does after its leading reset -/
def contSk : Cont → Sk
  | .done => .nil
  | .share _ _ => .step .fetchAdd_hard (.step .fetchAdd_soft .nil)
  | .wfrom _ _ => .step .fetchAdd_soft .nil
  | .lock _ _ => .spin .tas lockSk

/-- what the current operation still has to do at `pc` -/
def pcSk : Pc → Sk
  | .idle => .nil
  | .r1 _ k => rSk (contSk k)
  | .r2a k => .step .clearCb (.step .freeMem (wrSk (contSk k)))
  | .r2b k => .step .freeMem (wrSk (contSk k))
  | .w1 k => wrSk (contSk k)
  | .w2 k => .step .freeData (contSk k)
  | .fin k => contSk k
  | .a1 i j => contSk (.share i j)
  | .a2 _ _ => .step .fetchAdd_soft .nil
  | .f1 i w => contSk (.wfrom i w)
  | .l1 w j => contSk (.lock w j)
  | .l2 _ _ => lockSk
  | .l3 _ _ => .step .fetchAdd_soft (.step .flagClear .nil)
  | .l3n _ _ => .step .fetchSub_hard (.step .flagClear .nil)
  | .l4 _ _ => .step .flagClear .nil
  | .u _ => .step .use .nil

/-- the whole operation, every pointer object involved referring to the block -/
def opSk : Op → Sk
  | .share i j => rSk (contSk (.share i j))
  | .reset _ => rSk .nil
  | .wfrom i w => wrSk (contSk (.wfrom i w))
  | .lock w j => rSk (contSk (.lock w j))
  | .wreset _ => wrSk .nil
  | .use _ => .step .use .nil

/-- the operation when its target object is empty (no leading reset) -/
def opSkip : Op → Sk
  | .share i j => contSk (.share i j)
  | .wfrom i w => contSk (.wfrom i w)
  | .lock w j => contSk (.lock w j)
  | _ => .nil

/-! ### 1. the model follows `pcSk` -/

theorem begin_pc (op : Op) (t : Thread) (h : t.pc = .idle) :
    (begin op t).pc = .idle ∨ pcSk (begin op t).pc = opSk op ∨ pcSk (begin op t).pc = opSkip op := by
  cases op <;> simp only [begin] <;> (repeat' split) <;> simp [h, pcSk, opSk, opSkip, contSk]

theorem resume_pc (k : Cont) (t : Thread) :
    (resume k t).pc = .idle ∨ pcSk (resume k t).pc = contSk k := by
  cases k <;> simp only [resume] <;> (repeat' split) <;> simp [pcSk]

theorem stepT_conforms (g : Shared) (t : Thread) (l : Label) (g' : Shared) (t' : Thread)
    (h : stepT g t = some (l, g', t')) :
    match actStep l.act with
    | some s => (pcSk t.pc).next s l.val = some (pcSk t'.pc)
    | none =>
      (∃ k, t.pc = .fin k ∧ (t'.pc = .idle ∨ pcSk t'.pc = pcSk t.pc)) ∨
      (t.pc = .idle ∧ ∃ op rest, t.prog = op :: rest ∧
        (t'.pc = .idle ∨ pcSk t'.pc = opSk op ∨ pcSk t'.pc = opSkip op)) := by
  unfold stepT at h
  cases hpc : t.pc with
  | idle =>
    rw [hpc] at h
    simp only at h
    cases hp : t.prog with
    | nil => rw [hp] at h; cases h
    | cons op rest =>
      rw [hp] at h
      simp only [Option.some.injEq, Prod.mk.injEq] at h
      obtain ⟨rfl, rfl, rfl⟩ := h
      simp only [lab, actStep]
      exact Or.inr ⟨by first | rfl | trivial | exact hpc, op, rest, rfl, begin_pc op _ rfl⟩
  | fin k =>
    rw [hpc] at h
    simp only [Option.some.injEq, Prod.mk.injEq] at h
    obtain ⟨rfl, rfl, rfl⟩ := h
    simp only [lab, actStep]
    exact Or.inl ⟨k, rfl, by simpa [pcSk] using resume_pc k t⟩
  | r1 j k =>
    rw [hpc] at h
    simp only [Option.some.injEq, Prod.mk.injEq] at h
    obtain ⟨rfl, rfl, rfl⟩ := h
    simp only [lab, actStep, pcSk, rSk, Sk.next, Tst.holds, if_true]
    by_cases h1 : (touch g false).hard = 1 <;> simp [h1]
  | r2a k =>
    rw [hpc] at h
    simp only [Option.some.injEq, Prod.mk.injEq] at h
    obtain ⟨rfl, rfl, rfl⟩ := h
    simp [lab, actStep, pcSk, Sk.next]
  | r2b k =>
    rw [hpc] at h
    simp only [Option.some.injEq, Prod.mk.injEq] at h
    obtain ⟨rfl, rfl, rfl⟩ := h
    simp [lab, actStep, pcSk, Sk.next]
  | w1 k =>
    rw [hpc] at h
    simp only [Option.some.injEq, Prod.mk.injEq] at h
    obtain ⟨rfl, rfl, rfl⟩ := h
    simp only [lab, actStep, pcSk, wrSk, Sk.next, Tst.holds, if_true]
    by_cases h1 : (touch g false).soft = 1 <;> simp [h1]
  | w2 k =>
    rw [hpc] at h
    simp only [Option.some.injEq, Prod.mk.injEq] at h
    obtain ⟨rfl, rfl, rfl⟩ := h
    simp [lab, actStep, pcSk, Sk.next]
  | a1 i j =>
    rw [hpc] at h
    simp only [Option.some.injEq, Prod.mk.injEq] at h
    obtain ⟨rfl, rfl, rfl⟩ := h
    simp [lab, actStep, pcSk, contSk, Sk.next]
  | a2 i j =>
    rw [hpc] at h
    simp only [Option.some.injEq, Prod.mk.injEq] at h
    obtain ⟨rfl, rfl, rfl⟩ := h
    simp [lab, actStep, pcSk, Sk.next]
  | f1 i w =>
    rw [hpc] at h
    simp only [Option.some.injEq, Prod.mk.injEq] at h
    obtain ⟨rfl, rfl, rfl⟩ := h
    simp [lab, actStep, pcSk, contSk, Sk.next]
  | l1 w j =>
    rw [hpc] at h
    simp only at h
    split at h
    · simp only [Option.some.injEq, Prod.mk.injEq] at h
      obtain ⟨rfl, rfl, rfl⟩ := h
      simp [actStep, pcSk, contSk, Sk.next, hpc]
    · simp only [Option.some.injEq, Prod.mk.injEq] at h
      obtain ⟨rfl, rfl, rfl⟩ := h
      simp [lab, actStep, pcSk, contSk, Sk.next]
  | l2 w j =>
    rw [hpc] at h
    simp only [Option.some.injEq, Prod.mk.injEq] at h
    obtain ⟨rfl, rfl, rfl⟩ := h
    simp only [lab, actStep, pcSk, lockSk, Sk.next, Tst.holds, if_true]
    by_cases h1 : (touch g false).hard > 0 <;> simp [h1]
  | l3 w j =>
    rw [hpc] at h
    simp only [Option.some.injEq, Prod.mk.injEq] at h
    obtain ⟨rfl, rfl, rfl⟩ := h
    simp [lab, actStep, pcSk, Sk.next]
  | l3n w j =>
    rw [hpc] at h
    simp only [Option.some.injEq, Prod.mk.injEq] at h
    obtain ⟨rfl, rfl, rfl⟩ := h
    simp [lab, actStep, pcSk, Sk.next]
  | l4 w j =>
    rw [hpc] at h
    simp only [Option.some.injEq, Prod.mk.injEq] at h
    obtain ⟨rfl, rfl, rfl⟩ := h
    simp [lab, actStep, pcSk, Sk.next]
  | u j =>
    rw [hpc] at h
    simp only [Option.some.injEq, Prod.mk.injEq] at h
    obtain ⟨rfl, rfl, rfl⟩ := h
    simp [lab, actStep, pcSk, Sk.next]

/-! ### 2. the skeletons of the model are the ones generated from the C text -/

/-- `cstl_shared_ptr_reset`: fetch_sub hard; if it returned 1: clear callback, free memory; then (the
`cstl_weak_ptr_reset` part) fetch_sub soft; if it returned 1: free data -/
theorem reset_tie (j : Nat) : pcSk (.r1 j .done) = sk_cstl_shared_ptr_reset.main := by rfl

/-- `cstl_weak_ptr_reset`: fetch_sub soft; if it returned 1: free data -/
theorem wreset_tie : pcSk (.w1 .done) = sk_cstl_weak_ptr_reset.main := by rfl

/-- `cstl_shared_ptr_share`: the reset of the target, then fetch_add hard, fetch_add soft -/
theorem share_tie (i j : Nat) : pcSk (.r1 j (.share i j)) = sk_cstl_shared_ptr_share.main := by rfl

theorem share_null_tie (i j : Nat) : pcSk (.fin (.share i j)) = sk_cstl_shared_ptr_share.skipLead := by rfl

/-- `cstl_weak_ptr_from`: the weak reset of the target, then fetch_add soft -/
theorem wfrom_tie (i w : Nat) : pcSk (.w1 (.wfrom i w)) = sk_cstl_weak_ptr_from.main := by rfl

theorem wfrom_null_tie (i w : Nat) : pcSk (.fin (.wfrom i w)) = sk_cstl_weak_ptr_from.skipLead := by rfl

/-- `cstl_weak_ptr_lock`: the reset of the target, then spin on test_and_set, fetch_add hard; if it
returned > 0: fetch_add soft, else fetch_sub hard; flag clear -/
theorem lock_tie (w j : Nat) : pcSk (.r1 j (.lock w j)) = sk_cstl_weak_ptr_lock.main := by rfl

theorem lock_null_tie (w j : Nat) : pcSk (.fin (.lock w j)) = sk_cstl_weak_ptr_lock.skipLead := by rfl

/-- `cstl_unique_ptr_reset(&data->up)` as seen by other threads: clear callback, free memory -/
theorem upreset_tie (k : Cont) :
    pcSk (.r2a k) = sk_cstl_unique_ptr_reset.flat (wrSk (contSk k)) := by
  cases k <;> rfl

/-- `cstl_shared_ptr_alloc` is not an operation of the C06 model (the block is handed out sequentially,
C05), but the model's initial state relies on what it does before the bookkeeping block is published:
`hard` and `soft` are initialised and the spin flag is CLEARED (`initShared` starts with `flag := false`).
This pins the generated skeleton: reset of the target; `malloc` of the bookkeeping block; init hard, init
soft, flag clear; `cstl_unique_ptr_alloc` (reset of the fresh unique pointer, `malloc` of the memory);
`free(data)` (of NULL unless the second allocation failed). -/
theorem alloc_pin :
    sk_cstl_shared_ptr_alloc =
      Sk.app sk_cstl_shared_ptr_reset
        (.sel .other
          (.step .malloc
            (.sel .other
              (.step .init_hard (.step .init_soft (.step .flagClear
                (Sk.app sk_cstl_unique_ptr_reset (.sel .other (.step .malloc .nil) .nil
                  (.step .freeData .nil))))))
              .nil .nil))
          .nil .nil) := by rfl

/-- every operation of the model enters the skeleton generated for its C function -/
theorem op_tie (op : Op) :
    opSk op = match op with
      | .share _ _ => sk_cstl_shared_ptr_share.main
      | .reset _ => sk_cstl_shared_ptr_reset.main
      | .wfrom _ _ => sk_cstl_weak_ptr_from.main
      | .lock _ _ => sk_cstl_weak_ptr_lock.main
      | .wreset _ => sk_cstl_weak_ptr_reset.main
      | .use _ => .step .use sk_cstl_shared_ptr_get.main := by
  cases op <;> rfl

end Cstl.Conc.Tie
