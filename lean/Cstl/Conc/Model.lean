/-
C06 — micro-step model of the shared/weak pointer reference counting of
`src/memory.c` (functions cstl_shared_ptr_share / _reset, cstl_weak_ptr_from /
_lock / _reset and the use of the managed memory through cstl_shared_ptr_get).

One allocation (one bookkeeping block `struct cstl_shared_ptr_data` + one managed
memory block).  Shared state = the three atomics (`hard`, `soft`, `flag`), the
liveness of the two heap blocks and event counters.  Every thread owns a
vector of shared-pointer objects (`sh`) and a vector of weak-pointer objects
(`wk`); an entry is `true` iff the object currently points to the block.  A
thread runs a list of operations on its own objects.  Every operation is
expanded into the micro-steps of memory.c in program order: exactly one
micro-step per atomic operation / per non-atomic access to shared state
(clear callback, free of the memory, free of the bookkeeping block, use of the
memory).  Thread-local code between them (reading / writing the thread's own
pointer objects, branching on an observed value) is a `tau` step.

        memory.c                                   micro-step (pc)
  share(e,n):  reset(n)                            r1 / r2a / r2b / w1 / w2     (cont = share)
               copy; if data: hard++               a1
                              soft++               a2
  reset(sp):   if data: old = hard--               r1
                  if old == 1: unique_ptr_reset    r2a (clear callback), r2b (free memory)
               weak_reset(sp): sp = NULL; old = soft--     w1
                  if old == 1: free(data)          w2
  weak_from(wp,sp): weak_reset(wp)                 w1 / w2                      (cont = wfrom)
               copy; if data: soft++               f1
  weak_lock(wp,sp): reset(sp)                      r1 …                         (cont = lock)
               copy; if data:
                 while test_and_set(flag) yield    l1   (returns 1: stutter step, state unchanged)
                 old = hard++                      l2
                 if old > 0: soft++                l3
                 else: hard--; sp = NULL           l3n
                 flag_clear                        l4
  use:         p = shared_ptr_get(sp); touch *p    u

Convention for thread-local assignments (they are invisible to every other
thread, so their position relative to the neighbouring atomic is not
observable): the *source* pointer object of a reset is nulled together with its
`hard--` / at dispatch for a weak pointer; the *target* pointer object of
share / weak_from / lock is set together with the last increment (`a2`, `f1`,
`l3`).  In the C text the copy precedes the increments and `l3n` nulls it again;
with this convention an entry `true` of `sh` means "established owner".

Nothing the property asks for is assumed: a decrement of 0 wraps around like
`size_t`, and every micro-step that touches a heap block that is no longer
live bumps the counter `bad` (what AddressSanitizer reports on the real code).
Core Lean only.
-/
namespace Cstl.Conc

inductive Op where
  | share (i j : Nat)    -- cstl_shared_ptr_share(&sh[i], &sh[j])
  | reset (j : Nat)      -- cstl_shared_ptr_reset(&sh[j])
  | wfrom (i w : Nat)    -- cstl_weak_ptr_from(&wk[w], &sh[i])
  | lock (w j : Nat)     -- cstl_weak_ptr_lock(&wk[w], &sh[j])
  | wreset (w : Nat)     -- cstl_weak_ptr_reset(&wk[w])
  | use (j : Nat)        -- *(char *)cstl_shared_ptr_get(&sh[j]) if non-NULL
  deriving Repr, DecidableEq, Inhabited

/-- what remains of the current operation after its leading reset -/
inductive Cont where
  | done
  | share (i j : Nat)
  | wfrom (i w : Nat)
  | lock (w j : Nat)
  deriving Repr, DecidableEq, Inhabited

inductive Pc where
  | idle
  | r1 (j : Nat) (k : Cont)   -- old = fetch_sub(hard)
  | r2a (k : Cont)            -- clear callback on the memory (old was 1)
  | r2b (k : Cont)            -- free(memory)
  | w1 (k : Cont)             -- old = fetch_sub(soft)
  | w2 (k : Cont)             -- free(data) (old was 1)
  | fin (k : Cont)            -- tau: continue after the leading reset
  | a1 (i j : Nat)            -- fetch_add(hard)
  | a2 (i j : Nat)            -- fetch_add(soft)
  | f1 (i w : Nat)            -- fetch_add(soft)
  | l1 (w j : Nat)            -- test_and_set(flag)
  | l2 (w j : Nat)            -- old = fetch_add(hard)
  | l3 (w j : Nat)            -- fetch_add(soft)          (old > 0)
  | l3n (w j : Nat)           -- fetch_sub(hard)          (old = 0)
  | l4 (w j : Nat)            -- flag_clear
  | u (j : Nat)               -- use of the managed memory
  deriving Repr, DecidableEq, Inhabited

structure Thread where
  sh : List Bool
  wk : List Bool
  prog : List Op
  pc : Pc
  /-- value returned by this thread's last atomic operation -/
  obs : Nat
  deriving Repr, DecidableEq, Inhabited

structure Shared where
  hard : Nat
  soft : Nat
  flag : Bool
  /-- managed memory not yet handed to the clear callback -/
  mem : Bool
  /-- bookkeeping block not yet freed -/
  data : Bool
  clears : Nat
  freesMem : Nat
  freesData : Nat
  /-- accesses to a block that is no longer live (ASan reports on the real code) -/
  bad : Nat
  /-- ghost: number of `hard--` that returned 1 / of `soft--` that returned 1 -/
  sawH1 : Nat
  sawS1 : Nat
  deriving Repr, DecidableEq, Inhabited

structure State where
  g : Shared
  ts : List Thread
  deriving Repr, DecidableEq, Inhabited

inductive Act where
  | tau | incHard | decHard | undoHard | incSoft | decSoft | tas | flagClear
  | clearCb | freeMem | freeData | use
  deriving Repr, DecidableEq, Inhabited

structure Label where
  act : Act
  /-- value returned by the atomic operation (0 for the others) -/
  val : Nat
  /-- the step left the state unchanged (spin on the flag) -/
  stutter : Bool
  deriving Repr, DecidableEq, Inhabited

/-- the pointer object `j` exists and points to the block -/
def slot (l : List Bool) (j : Nat) : Bool := l[j]? == some true

/-- `size_t` decrement -/
def dec (n : Nat) : Nat := if n = 0 then 2 ^ 64 - 1 else n - 1

/-- record an access to the bookkeeping block (and to the memory if `m`) -/
def touch (g : Shared) (m : Bool) : Shared :=
  if g.data && (!m || g.mem) then g else { g with bad := g.bad + 1 }

/-- dispatch of the next operation (thread-local) -/
def begin (op : Op) (t : Thread) : Thread :=
  match op with
  | .reset j => if slot t.sh j then { t with pc := .r1 j .done } else t
  | .share i j =>
    if i < t.sh.length ∧ j < t.sh.length then
      if slot t.sh j then { t with pc := .r1 j (.share i j) } else { t with pc := .fin (.share i j) }
    else t
  | .wfrom i w =>
    if i < t.sh.length ∧ w < t.wk.length then
      if slot t.wk w then { t with wk := t.wk.set w false, pc := .w1 (.wfrom i w) }
      else { t with pc := .fin (.wfrom i w) }
    else t
  | .lock w j =>
    if w < t.wk.length ∧ j < t.sh.length then
      if slot t.sh j then { t with pc := .r1 j (.lock w j) } else { t with pc := .fin (.lock w j) }
    else t
  | .wreset w => if slot t.wk w then { t with wk := t.wk.set w false, pc := .w1 .done } else t
  | .use j => if slot t.sh j then { t with pc := .u j } else t

/-- continuation after the leading reset (thread-local) -/
def resume (k : Cont) (t : Thread) : Thread :=
  match k with
  | .done => { t with pc := .idle }
  | .share i j => if slot t.sh i then { t with pc := .a1 i j } else { t with pc := .idle }
  | .wfrom i w => if slot t.sh i then { t with pc := .f1 i w } else { t with pc := .idle }
  | .lock w j => if slot t.wk w then { t with pc := .l1 w j } else { t with pc := .idle }

def lab (a : Act) (v : Nat := 0) : Label := { act := a, val := v, stutter := false }

/-- one micro-step of one thread on the shared state -/
def stepT (g : Shared) (t : Thread) : Option (Label × Shared × Thread) :=
  match t.pc with
  | .idle =>
    match t.prog with
    | [] => none
    | op :: rest => some (lab .tau, g, begin op { t with prog := rest })
  | .fin k => some (lab .tau, g, resume k t)
  | .r1 j k =>
    let g1 := touch g false
    let old := g1.hard
    let g2 := { g1 with hard := dec old, sawH1 := if old = 1 then g1.sawH1 + 1 else g1.sawH1 }
    some (lab .decHard old, g2,
          { t with sh := t.sh.set j false, obs := old, pc := if old = 1 then .r2a k else .w1 k })
  | .r2a k =>
    let g1 := touch g true
    some (lab .clearCb, { g1 with mem := false, clears := g1.clears + 1 }, { t with pc := .r2b k })
  | .r2b k =>
    -- free(memory), then cstl_unique_ptr_init writes the unique pointer inside the bookkeeping block
    let g1 := touch g false
    some (lab .freeMem, { g1 with freesMem := g1.freesMem + 1 }, { t with pc := .w1 k })
  | .w1 k =>
    let g1 := touch g false
    let old := g1.soft
    let g2 := { g1 with soft := dec old, sawS1 := if old = 1 then g1.sawS1 + 1 else g1.sawS1 }
    some (lab .decSoft old, g2, { t with obs := old, pc := if old = 1 then .w2 k else .fin k })
  | .w2 k =>
    let g1 := touch g false
    some (lab .freeData, { g1 with data := false, freesData := g1.freesData + 1 }, { t with pc := .fin k })
  | .a1 i j =>
    let g1 := touch g false
    some (lab .incHard g1.hard, { g1 with hard := g1.hard + 1 }, { t with obs := g1.hard, pc := .a2 i j })
  | .a2 _ j =>
    let g1 := touch g false
    some (lab .incSoft g1.soft, { g1 with soft := g1.soft + 1 },
          { t with sh := t.sh.set j true, obs := g1.soft, pc := .idle })
  | .f1 _ w =>
    let g1 := touch g false
    some (lab .incSoft g1.soft, { g1 with soft := g1.soft + 1 },
          { t with wk := t.wk.set w true, obs := g1.soft, pc := .idle })
  | .l1 w j =>
    let g1 := touch g false
    if g1.flag then some ({ act := .tas, val := 1, stutter := decide (g1 = g) }, g1, t)
    else some (lab .tas 0, { g1 with flag := true }, { t with obs := 0, pc := .l2 w j })
  | .l2 w j =>
    let g1 := touch g false
    let old := g1.hard
    some (lab .incHard old, { g1 with hard := old + 1 },
          { t with obs := old, pc := if old > 0 then .l3 w j else .l3n w j })
  | .l3 w j =>
    let g1 := touch g false
    some (lab .incSoft g1.soft, { g1 with soft := g1.soft + 1 },
          { t with sh := t.sh.set j true, obs := g1.soft, pc := .l4 w j })
  | .l3n w j =>
    let g1 := touch g false
    some (lab .undoHard g1.hard, { g1 with hard := dec g1.hard }, { t with obs := g1.hard, pc := .l4 w j })
  | .l4 _ _ =>
    let g1 := touch g false
    some (lab .flagClear, { g1 with flag := false }, { t with pc := .idle })
  | .u _ =>
    let g1 := touch g true
    some (lab .use (if g.mem then 1 else 0), g1, { t with pc := .idle })

/-- labelled step of thread `tid` -/
def stepL (s : State) (tid : Nat) : Option (Label × State) :=
  match s.ts[tid]? with
  | none => none
  | some t =>
    match stepT s.g t with
    | none => none
    | some (l, g', t') => some (l, { g := g', ts := s.ts.set tid t' })

/-- `step s tid`: `none` = no such thread or thread finished -/
def step (s : State) (tid : Nat) : Option State := (stepL s tid).map (·.2)

def cnt (l : List Bool) : Nat := l.count true

/-- initial state for a reference configuration: per thread its shared
objects, weak objects and program.  The block has been allocated, the
references have been handed out sequentially (C05), the allocating owner has
let go. -/
def mkThread (c : List Bool × List Bool × List Op) : Thread :=
  { sh := c.1, wk := c.2.1, prog := c.2.2, pc := .idle, obs := 0 }

def initShared (ts : List Thread) : Shared :=
  let h := (ts.map (fun t => cnt t.sh)).sum
  let s := (ts.map (fun t => cnt t.sh + cnt t.wk)).sum
  { hard := h, soft := s, flag := false, mem := decide (h > 0), data := decide (s > 0),
    clears := if h > 0 then 0 else 1, freesMem := if h > 0 then 0 else 1,
    freesData := if s > 0 then 0 else 1, bad := 0,
    sawH1 := if h > 0 then 0 else 1, sawS1 := if s > 0 then 0 else 1 }

def init (cfg : List (List Bool × List Bool × List Op)) : State :=
  let ts := cfg.map mkThread
  { g := initShared ts, ts := ts }

def Thread.finished (t : Thread) : Bool := t.pc == .idle && t.prog.isEmpty

end Cstl.Conc
