/-
Vocabulary of the skeletons `tools/c2lean_mem.py` derives from src/memory.c for
C06 (`Cstl/Gen/ConcC.lean`): what a function does to state that other threads
can see, in program order — every atomic operation, the clear callback, every
`free` / `malloc` — with the branching on the value an atomic operation
returned and the spin loop.  Everything thread-local (reads and writes of the
thread's own pointer objects, plain accesses to `data->up` made by the one
thread that saw the last owner go) is erased.  Core Lean only.
-/
namespace Cstl.Conc

/-- an access to shared state -/
inductive Step where
  | fetchAdd_hard | fetchAdd_soft | fetchSub_hard | fetchSub_soft
  | tas | flagClear
  | load_hard | load_soft | init_hard | init_soft
  | clearCb | freeMem | freeData | malloc
  /-- the client's own access to the managed memory (not a library step; never generated) -/
  | use
  deriving Repr, DecidableEq, Inhabited

/-- the test applied to the value an atomic operation returned -/
inductive Tst where
  | eq1   -- `== 1`
  | gt0   -- `> 0`
  deriving Repr, DecidableEq, Inhabited

def Tst.holds : Tst → Nat → Bool
  | .eq1, v => v == 1
  | .gt0, v => decide (v > 0)

/-- what a branch on thread-local / immutable data asks -/
inductive Sel where
  | ptr     -- the thread's own pointer object is not NULL (first branch = not NULL)
  | cb      -- a clear callback is registered (first branch = registered)
  | other   -- arguments, `malloc` results (first branch = the C `then`)
  deriving Repr, DecidableEq, Inhabited

inductive Sk where
  | nil
  /-- perform `s`, go on with `k` -/
  | step (s : Step) (k : Sk)
  /-- `if (s(...) TEST) { th } else { el }`, then `k` -/
  | test (s : Step) (t : Tst) (th el k : Sk)
  /-- `while (s(...)) sched_yield();`, then `k` -/
  | spin (s : Step) (k : Sk)
  /-- a branch that does not depend on other threads, then `k` -/
  | sel (c : Sel) (th el k : Sk)
  deriving Repr, DecidableEq, Inhabited

/-- `a; b` -/
def Sk.app : Sk → Sk → Sk
  | .nil, b => b
  | .step s k, b => .step s (k.app b)
  | .test s t th el k, b => .test s t th el (k.app b)
  | .spin s k, b => .spin s (k.app b)
  | .sel c th el k, b => .sel c th el (k.app b)

/-- `t; c` in normal form along the path on which every pointer object the function looks at refers to
the block and a clear callback is registered — the situation the micro-step model
`Cstl/Conc/Model.lean` expands (it dispatches on the thread's pointer objects in its thread-local
`begin` / `resume` steps).  Every `sel` is replaced by its first branch; the code after a test of an
observed value is moved into both branches: `test s t th el k; c`  ↦  `test s t (th; k; c) (el; k; c) nil`. -/
def Sk.flat : Sk → Sk → Sk
  | .nil, c => c
  | .step s k, c => .step s (k.flat c)
  | .test s t th el k, c => .test s t (th.flat (k.flat c)) (el.flat (k.flat c)) .nil
  | .spin s k, c => .spin s (k.flat c)
  | .sel _ th _ k, c => th.flat (k.flat c)

def Sk.main (t : Sk) : Sk := t.flat .nil

/-- the same when the pointer object tested FIRST is NULL (the target of share / weak_from / lock
holds nothing, so the leading reset does nothing) and all later ones refer to the block -/
def Sk.skipLead : Sk → Sk
  | .sel .ptr _ el k => el.flat (k.flat .nil)
  | t => t.main

/-- what remains after the access `s` returned `v`; `none` = `s` is not the next access -/
def Sk.next : Sk → Step → Nat → Option Sk
  | .step s k, s', _ => if s = s' then some k else none
  | .test s t th el _, s', v => if s = s' then some (if t.holds v then th else el) else none
  | .spin s k, s', v => if s = s' then some (if v = 0 then k else .spin s k) else none
  | _, _, _ => none

end Cstl.Conc
