import Cstl.Conc.Inv
/-
Executions of the micro-step system: every schedule, any number of threads,
any programs.  Event counting on the trace, frame lemmas.
-/
namespace Cstl.Conc

abbrev Cfg := List (List Bool × List Bool × List Op)

/-- `Exec cfg tr s`: from the initial state of `cfg`, the schedule whose steps
(thread, label) are `tr` leads to `s` -/
inductive Exec (cfg : Cfg) : List (Nat × Label) → State → Prop
  | init : Exec cfg [] (init cfg)
  | step {tr : List (Nat × Label)} {s s' : State} {tid : Nat} {l : Label} :
      Exec cfg tr s → stepL s tid = some (l, s') → Exec cfg (tr ++ [(tid, l)]) s'

def Reachable (cfg : Cfg) (s : State) : Prop := ∃ tr, Exec cfg tr s

theorem Exec.inv {cfg : Cfg} {tr : List (Nat × Label)} {s : State} (h : Exec cfg tr s) : Inv s := by
  induction h with
  | init => exact inv_init cfg
  | step _ hs ih => exact ih.step hs

theorem Reachable.inv {cfg : Cfg} {s : State} (h : Reachable cfg s) : Inv s :=
  let ⟨_, he⟩ := h; he.inv

theorem Reachable.init (cfg : Cfg) : Reachable cfg (init cfg) := ⟨[], .init⟩

theorem Reachable.step {cfg : Cfg} {s s' : State} {tid : Nat} {l : Label} (h : Reachable cfg s)
    (hs : stepL s tid = some (l, s')) : Reachable cfg s' :=
  let ⟨tr, he⟩ := h; ⟨tr ++ [(tid, l)], he.step hs⟩

theorem step_iff {s s' : State} {tid : Nat} : step s tid = some s' ↔ ∃ l, stepL s tid = some (l, s') := by
  unfold step
  cases h : stepL s tid with
  | none => simp
  | some r => obtain ⟨l, s''⟩ := r; simp

/-- running a schedule given as a list of thread ids (a thread that is finished or
does not exist is skipped) -/
def run (s : State) : List Nat → State
  | [] => s
  | tid :: rest => match step s tid with
    | some s' => run s' rest
    | none => run s rest

theorem Reachable.run {cfg : Cfg} {s : State} (h : Reachable cfg s) (sched : List Nat) :
    Reachable cfg (run s sched) := by
  induction sched generalizing s with
  | nil => exact h
  | cons tid rest ih =>
    unfold Conc.run
    cases hs : Conc.step s tid with
    | none => exact ih h
    | some s' =>
      obtain ⟨l, hl⟩ := step_iff.mp hs
      exact ih (h.step hl)

/-! ### frame: a step changes only the stepping thread -/

theorem stepL_decomp {s s' : State} {tid : Nat} {l : Label} (hs : stepL s tid = some (l, s')) :
    ∃ t t', s.ts[tid]? = some t ∧ stepT s.g t = some (l, s'.g, t') ∧ s'.ts = s.ts.set tid t' := by
  unfold stepL at hs
  cases hts : s.ts[tid]? with
  | none => simp [hts] at hs
  | some t =>
    simp only [hts] at hs
    cases hst : stepT s.g t with
    | none => simp [hst] at hs
    | some r =>
      obtain ⟨l', g', t'⟩ := r
      simp only [hst, Option.some.injEq, Prod.mk.injEq] at hs
      obtain ⟨rfl, rfl⟩ := hs
      exact ⟨t, t', rfl, hst, rfl⟩

theorem stepL_frame {s s' : State} {tid i : Nat} {l : Label} (hs : stepL s tid = some (l, s'))
    (hi : i ≠ tid) : s'.ts[i]? = s.ts[i]? := by
  obtain ⟨t, t', _, _, hts⟩ := stepL_decomp hs
  rw [hts, List.getElem?_set_ne (Ne.symm hi)]

theorem stepL_length {s s' : State} {tid : Nat} {l : Label} (hs : stepL s tid = some (l, s')) :
    s'.ts.length = s.ts.length := by
  obtain ⟨t, t', _, _, hts⟩ := stepL_decomp hs
  rw [hts, List.length_set]

/-! ### events on the trace -/

/-- number of steps of the trace with the given action -/
def countAct (a : Act) (tr : List (Nat × Label)) : Nat := (tr.filter (fun e => e.2.act == a)).length

/-- number of `hard--` of a reset (resp. `soft--`) that returned 1 -/
def countSaw1 (a : Act) (tr : List (Nat × Label)) : Nat :=
  (tr.filter (fun e => e.2.act == a && e.2.val == 1)).length

theorem countAct_append (a : Act) (tr : List (Nat × Label)) (e : Nat × Label) :
    countAct a (tr ++ [e]) = countAct a tr + (if e.2.act = a then 1 else 0) := by
  unfold countAct
  rw [List.filter_append, List.length_append]
  by_cases h : e.2.act = a <;> simp [h]

theorem countSaw1_append (a : Act) (tr : List (Nat × Label)) (e : Nat × Label) :
    countSaw1 a (tr ++ [e]) = countSaw1 a tr + (if e.2.act = a ∧ e.2.val = 1 then 1 else 0) := by
  unfold countSaw1
  rw [List.filter_append, List.length_append]
  by_cases h : e.2.act = a <;> by_cases h2 : e.2.val = 1 <;> simp [h, h2]

theorem touch_fields (g : Shared) (m : Bool) :
    (touch g m).hard = g.hard ∧ (touch g m).soft = g.soft ∧ (touch g m).flag = g.flag ∧
    (touch g m).mem = g.mem ∧ (touch g m).data = g.data ∧ (touch g m).clears = g.clears ∧
    (touch g m).freesMem = g.freesMem ∧ (touch g m).freesData = g.freesData ∧
    (touch g m).sawH1 = g.sawH1 ∧ (touch g m).sawS1 = g.sawS1 := by
  unfold touch; split <;> simp

/-- the counters of the shared state count the corresponding labelled steps (no invariant needed) -/
theorem stepT_events {g g' : Shared} {t t' : Thread} {l : Label} (hs : stepT g t = some (l, g', t')) :
    g'.clears = g.clears + (if l.act = .clearCb then 1 else 0) ∧
    g'.freesMem = g.freesMem + (if l.act = .freeMem then 1 else 0) ∧
    g'.freesData = g.freesData + (if l.act = .freeData then 1 else 0) ∧
    g'.sawH1 = g.sawH1 + (if l.act = .decHard ∧ l.val = 1 then 1 else 0) ∧
    g'.sawS1 = g.sawS1 + (if l.act = .decSoft ∧ l.val = 1 then 1 else 0) := by
  unfold stepT at hs
  cases hpc : t.pc <;> simp only [hpc] at hs
  case idle =>
    cases hp : t.prog <;> simp [hp] at hs
    obtain ⟨rfl, rfl, -⟩ := hs
    simp [lab]
  case l1 w j =>
    have hf := touch_fields g false
    split at hs <;> simp only [Option.some.injEq, Prod.mk.injEq] at hs <;> obtain ⟨rfl, rfl, -⟩ := hs <;>
      simp [lab, hf]
  case r1 j k =>
    have hf := touch_fields g false
    simp only [Option.some.injEq, Prod.mk.injEq] at hs
    obtain ⟨rfl, rfl, -⟩ := hs
    by_cases h1 : (touch g false).hard = 1 <;> simp [lab, hf] <;> simp_all
  case w1 k =>
    have hf := touch_fields g false
    simp only [Option.some.injEq, Prod.mk.injEq] at hs
    obtain ⟨rfl, rfl, -⟩ := hs
    by_cases h1 : (touch g false).soft = 1 <;> simp [lab, hf] <;> simp_all
  all_goals
    have hf := touch_fields g false
    have hf' := touch_fields g true
    simp only [Option.some.injEq, Prod.mk.injEq] at hs
    obtain ⟨rfl, rfl, -⟩ := hs
    simp [lab, hf, hf']

theorem Exec.events {cfg : Cfg} {tr : List (Nat × Label)} {s : State} (h : Exec cfg tr s) :
    s.g.clears = (Conc.init cfg).g.clears + countAct .clearCb tr ∧
    s.g.freesMem = (Conc.init cfg).g.freesMem + countAct .freeMem tr ∧
    s.g.freesData = (Conc.init cfg).g.freesData + countAct .freeData tr ∧
    s.g.sawH1 = (Conc.init cfg).g.sawH1 + countSaw1 .decHard tr ∧
    s.g.sawS1 = (Conc.init cfg).g.sawS1 + countSaw1 .decSoft tr := by
  induction h with
  | init => simp [countAct, countSaw1]
  | step _ hs ih =>
    obtain ⟨t, t', _, hst, _⟩ := stepL_decomp hs
    have := stepT_events hst
    simp only [countAct_append, countSaw1_append]
    omega

/-! ### thread-local facts -/

theorem slot_set_of_ne {l : List Bool} {i j : Nat} (b : Bool) (h : i ≠ j) :
    slot (l.set i b) j = slot l j := by
  simp [slot, List.getElem?_set_ne h]

theorem slot_set_true_of_slot {l : List Bool} {i j : Nat} (h : slot l j = true) :
    slot (l.set i true) j = true := by
  by_cases hij : i = j
  · subst hij
    simp [slot, lt_of_slot h]
  · rw [slot_set_of_ne _ hij]; exact h

/-- the only step of a thread that makes its object `j` stop referencing the block is the `hard--`
of a reset of `j` -/
theorem stepT_slot_cleared {g g' : Shared} {t t' : Thread} {l : Label}
    (hs : stepT g t = some (l, g', t')) {j : Nat} (hj : slot t.sh j = true)
    (hj' : ¬ slot t'.sh j = true) : ∃ k, t.pc = .r1 j k := by
  unfold stepT at hs
  cases hpc : t.pc <;> simp only [hpc] at hs
  case idle =>
    cases hp : t.prog with
    | nil => simp [hp] at hs
    | cons op rest =>
      simp only [hp, Option.some.injEq, Prod.mk.injEq] at hs
      obtain ⟨-, -, rfl⟩ := hs
      exfalso; apply hj'
      cases op <;> simp only [begin] <;> repeat' split
      all_goals exact hj
  case fin k =>
    simp only [Option.some.injEq, Prod.mk.injEq] at hs
    obtain ⟨-, -, rfl⟩ := hs
    exfalso; apply hj'
    cases k <;> simp only [resume] <;> repeat' split
    all_goals exact hj
  case r1 j0 k =>
    simp only [Option.some.injEq, Prod.mk.injEq] at hs
    obtain ⟨-, -, rfl⟩ := hs
    by_cases h : j0 = j
    · subst h; exact ⟨k, rfl⟩
    · exfalso; apply hj'; dsimp only; rw [slot_set_of_ne _ h]; exact hj
  case l1 w j0 =>
    split at hs <;> simp only [Option.some.injEq, Prod.mk.injEq] at hs <;> obtain ⟨-, -, rfl⟩ := hs <;>
      exact absurd hj hj'
  case a2 i j0 =>
    simp only [Option.some.injEq, Prod.mk.injEq] at hs
    obtain ⟨-, -, rfl⟩ := hs
    exact absurd (slot_set_true_of_slot hj) hj'
  case l3 w j0 =>
    simp only [Option.some.injEq, Prod.mk.injEq] at hs
    obtain ⟨-, -, rfl⟩ := hs
    exact absurd (slot_set_true_of_slot hj) hj'
  all_goals
    simp only [Option.some.injEq, Prod.mk.injEq] at hs
    obtain ⟨-, -, rfl⟩ := hs
    exact absurd hj hj'


theorem finished_contrib {t : Thread} (h : t.finished = true) :
    ec t = cnt t.sh ∧ sc t = cnt t.sh + cnt t.wk ∧ da t = 0 ∧ db t = 0 ∧ dw t = 0 := by
  have hpc : t.pc = .idle := by
    unfold Thread.finished at h
    simp only [Bool.and_eq_true, beq_iff_eq] at h
    exact h.1
  simp [ec, sc, da, db, dw, hpc, xh, xb, xs, xda, xdb, xdw]


end Cstl.Conc
