import Cstl.Base.Driver
import Cstl.Conc.Model
/-
Driver for the conc area (C06).  Same line protocol as harness/conc.c.

  thr <sh bits|-> <wk bits|-> <op> ...   declare the next thread: which of its shared / weak
                                         pointer objects initially reference the block, and
                                         its program (`share:i:j reset:j wfrom:i:w lock:w:j
                                         wreset:w use:j`)
  start                                  build the initial state; every thread runs its
                                         thread-local code up to its first micro-step
  sched <tid>                            one micro-step of thread <tid> (then its thread-local
                                         code up to the next micro-step)
  end                                    final dump of every pointer object
-/
open Cstl Cstl.Conc

structure DState where
  cfg : List (List Bool × List Bool × List Op)
  started : Bool
  s : State
  /-- per thread: number of completed operations -/
  opi : List Nat

def dinit : DState := { cfg := [], started := false, s := init [], opi := [] }

def parseBits (w : String) : Option (List Bool) :=
  if w = "-" then some []
  else w.toList.mapM (fun c => if c = '1' then some true else if c = '0' then some false else none)

def parseOp (w : String) : Option Op :=
  match w.splitOn ":" with
  | ["share", i, j] => do some (.share (← i.toNat?) (← j.toNat?))
  | ["reset", j] => do some (.reset (← j.toNat?))
  | ["wfrom", i, k] => do some (.wfrom (← i.toNat?) (← k.toNat?))
  | ["lock", k, j] => do some (.lock (← k.toNat?) (← j.toNat?))
  | ["wreset", k] => do some (.wreset (← k.toNat?))
  | ["use", j] => do some (.use (← j.toNat?))
  | _ => none

def bits (l : List Bool) : String :=
  if l.isEmpty then "-" else String.ofList (l.map (fun b => if b then '1' else '0'))

def events (g : Shared) : String :=
  "clr=" ++ toString g.clears ++ " fm=" ++ toString g.freesMem ++ " fd=" ++ toString g.freesData

def finBits (s : State) : String := bits (s.ts.map Thread.finished)

def actName : Act → String
  | .tau => "tau"
  | .incHard => "fetch_add hard"
  | .decHard => "fetch_sub hard"
  | .undoHard => "fetch_sub hard"
  | .incSoft => "fetch_add soft"
  | .decSoft => "fetch_sub soft"
  | .tas => "test_and_set lock"
  | .flagClear => "flag_clear lock"
  | .clearCb => "clear mem"
  | .freeMem => "free mem"
  | .freeData => "free data"
  | .use => "use mem"

def target (t : Thread) : Op → Bool
  | .share _ j => slot t.sh j
  | .reset j => slot t.sh j
  | .wfrom _ w => slot t.wk w
  | .lock _ j => slot t.sh j
  | .wreset w => slot t.wk w
  | .use j => slot t.sh j

/-- Thread-local code of thread `tid` up to its next micro-step.  `inside`: the
thread is inside operation number `k` of its program `prog`.  Returns the new
state, the number of completed operations and the completion records
`tid.k:r` (r = the operation's target object is non-NULL afterwards). -/
def advance (prog : List Op) (tid : Nat) : Nat → State → Bool → Nat → List String → State × Nat × List String
  | 0, s, _, k, acc => (s, k, acc)
  | fuel + 1, s, inside, k, acc =>
    match s.ts[tid]? with
    | none => (s, k, acc)
    | some t =>
      match t.pc with
      | .idle =>
        let (k, acc) :=
          if inside then
            (k + 1, acc ++ [toString tid ++ "." ++ toString k ++ ":" ++
              (match prog[k]? with
               | some op => if target t op then "1" else "0"
               | none => "?")])
          else (k, acc)
        match stepL s tid with
        | some (_, s') => advance prog tid fuel s' true k acc
        | none => (s, k, acc)
      | .fin _ =>
        match stepL s tid with
        | some (_, s') => advance prog tid fuel s' inside k acc
        | none => (s, k, acc)
      | _ => (s, k, acc)

def doneStr (acc : List String) : String :=
  " | done=" ++ (if acc.isEmpty then "-" else ",".intercalate acc)

def progOf (d : DState) (tid : Nat) : List Op :=
  match d.cfg[tid]? with
  | some c => c.2.2
  | none => []

def dstep (d : DState) (ws : List String) : DState × String :=
  let bad := (d, "STOP bad-op")
  match ws with
  | "thr" :: sb :: wb :: ops =>
    if d.started then bad else
    match parseBits sb, parseBits wb, ops.mapM parseOp with
    | some sh, some wk, some prog => ({ d with cfg := d.cfg ++ [(sh, wk, prog)] }, "ok")
    | _, _, _ => bad
  | ["start"] =>
    if d.started then bad else
    let s0 := init d.cfg
    let (s, opi, acc) := (List.range s0.ts.length).foldl
      (fun (st : State × List Nat × List String) tid =>
        let (s, opi, acc) := st
        let prog := progOf d tid
        let (s', k, acc') := advance prog tid (2 * prog.length + 4) s false 0 acc
        (s', opi ++ [k], acc')) (s0, [], [])
    ({ d with started := true, s := s, opi := opi },
     "ok | " ++ events s.g ++ " | fin=" ++ finBits s ++ doneStr acc)
  | ["sched", t] =>
    match t.toNat? with
    | none => bad
    | some tid =>
      if !d.started || tid ≥ d.s.ts.length then bad else
      match stepL d.s tid with
      | none => (d, toString tid ++ " none | " ++ events d.s.g ++ " | fin=" ++ finBits d.s ++ doneStr [])
      | some (l, s1) =>
        if s1.g.bad ≠ d.s.g.bad then (d, "STOP asan") else
        let prog := progOf d tid
        let (s2, k, acc) := advance prog tid (2 * prog.length + 4) s1 true (d.opi.getD tid 0) []
        ({ d with s := s2, opi := d.opi.set tid k },
         toString tid ++ " " ++ actName l.act ++ " " ++ toString l.val ++ " | " ++ events s2.g
           ++ " | fin=" ++ finBits s2 ++ doneStr acc)
  | ["end"] =>
    if !d.started then bad else
    let objs := " ".intercalate (d.s.ts.map (fun t => bits t.sh ++ "/" ++ bits t.wk))
    (d, "end " ++ objs ++ " | " ++ events d.s.g ++ " | fin=" ++ finBits d.s)
  | _ => bad

def main : IO Unit := runArea { init := dinit, step := dstep }
