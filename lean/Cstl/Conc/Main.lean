import Cstl.Base.Driver
import Cstl.Conc.Model
/-
Driver for the conc area (C06).  Same line protocol as harness/conc.c.

  thr <sh bits|-> <wk bits|-> <op> ...   declare the next thread: which of its shared / weak
                                         pointer objects initially reference the block, and
                                         its program (`share:i:j reset:j wfrom:i:w lock:w:j
                                         wreset:w use:j`)
  start                                  build the initial state; every thread runs its
                                         thread-local code up to its first micro-step
  sched <tid>                            one micro-step of thread <tid> (then its thread-local
                                         code up to the next micro-step)
  end                                    final dump of every pointer object
-/
open Cstl Cstl.Conc

structure DState where
  cfg : List (List Bool × List Bool × List Op)
  started : Bool
  s : State

def dinit : DState := { cfg := [], started := false, s := init [] }

def parseBits (w : String) : Option (List Bool) :=
  if w = "-" then some []
  else w.toList.mapM (fun c => if c = '1' then some true else if c = '0' then some false else none)

def parseOp (w : String) : Option Op :=
  match w.splitOn ":" with
  | ["share", i, j] => do some (.share (← i.toNat?) (← j.toNat?))
  | ["reset", j] => do some (.reset (← j.toNat?))
  | ["wfrom", i, k] => do some (.wfrom (← i.toNat?) (← k.toNat?))
  | ["lock", k, j] => do some (.lock (← k.toNat?) (← j.toNat?))
  | ["wreset", k] => do some (.wreset (← k.toNat?))
  | ["use", j] => do some (.use (← j.toNat?))
  | _ => none

def bits (l : List Bool) : String :=
  if l.isEmpty then "-" else String.ofList (l.map (fun b => if b then '1' else '0'))

def events (g : Shared) : String :=
  "clr=" ++ toString g.clears ++ " fm=" ++ toString g.freesMem ++ " fd=" ++ toString g.freesData

def finBits (s : State) : String := bits (s.ts.map Thread.finished)

def actName : Act → String
  | .tau => "tau"
  | .incHard => "fetch_add hard"
  | .decHard => "fetch_sub hard"
  | .incSoft => "fetch_add soft"
  | .decSoft => "fetch_sub soft"
  | .tas => "test_and_set lock"
  | .flagClear => "flag_clear lock"
  | .clearCb => "clear mem"
  | .freeMem => "free mem"
  | .freeData => "free data"
  | .use => "use mem"

def fuelOf (s : State) (tid : Nat) : Nat :=
  match s.ts[tid]? with
  | some t => 2 * t.prog.length + 4
  | none => 0

def settleAll (s : State) : State :=
  (List.range s.ts.length).foldl (fun s tid => settle (fuelOf s tid) s tid) s

def dstep (d : DState) (ws : List String) : DState × String :=
  let bad := (d, "STOP bad-op")
  match ws with
  | "thr" :: sb :: wb :: ops =>
    if d.started then bad else
    match parseBits sb, parseBits wb, ops.mapM parseOp with
    | some sh, some wk, some prog => ({ d with cfg := d.cfg ++ [(sh, wk, prog)] }, "ok")
    | _, _, _ => bad
  | ["start"] =>
    if d.started then bad else
    let s := settleAll (init d.cfg)
    ({ d with started := true, s := s }, "ok | " ++ events s.g ++ " | fin=" ++ finBits s)
  | ["sched", t] =>
    match t.toNat? with
    | none => bad
    | some tid =>
      if !d.started || tid ≥ d.s.ts.length then bad else
      match stepL d.s tid with
      | none => (d, toString tid ++ " none | " ++ events d.s.g ++ " | fin=" ++ finBits d.s)
      | some (l, s1) =>
        if s1.g.bad ≠ d.s.g.bad then (d, "STOP asan") else
        let s2 := settle (fuelOf s1 tid) s1 tid
        ({ d with s := s2 },
         toString tid ++ " " ++ actName l.act ++ " " ++ toString l.val ++ " | " ++ events s2.g
           ++ " | fin=" ++ finBits s2)
  | ["end"] =>
    if !d.started then bad else
    let objs := " ".intercalate (d.s.ts.map (fun t => bits t.sh ++ "/" ++ bits t.wk))
    (d, "end " ++ objs ++ " | " ++ events d.s.g ++ " | fin=" ++ finBits d.s)
  | _ => bad

def main : IO Unit := runArea { init := dinit, step := dstep }
