import Cstl.Conc.Model
/-
Helper lemmas for C06: counting `true` entries of a pointer-object vector
under `set`, and sums of a per-thread quantity under replacement of one thread.
-/
namespace Cstl.Conc

/-! ### pointer-object vectors -/

theorem cnt_nil : cnt [] = 0 := rfl

theorem cnt_cons (b : Bool) (l : List Bool) : cnt (b :: l) = cnt l + (if b then 1 else 0) := by
  cases b <;> simp [cnt]

theorem slot_cons_zero (b : Bool) (l : List Bool) : slot (b :: l) 0 = b := by
  cases b <;> simp [slot]

theorem slot_cons_succ (b : Bool) (l : List Bool) (j : Nat) : slot (b :: l) (j + 1) = slot l j := by
  simp [slot]

theorem cnt_set_false {l : List Bool} {j : Nat} (h : slot l j = true) :
    cnt (l.set j false) + 1 = cnt l := by
  induction l generalizing j with
  | nil => simp [slot] at h
  | cons b l ih =>
    cases j with
    | zero =>
      rw [slot_cons_zero] at h
      subst h
      simp [cnt_cons]
    | succ j =>
      rw [slot_cons_succ] at h
      have := ih h
      simp only [List.set_cons_succ, cnt_cons]
      omega

theorem cnt_set_true {l : List Bool} {j : Nat} (h : l[j]? = some false) :
    cnt (l.set j true) = cnt l + 1 := by
  induction l generalizing j with
  | nil => simp at h
  | cons b l ih =>
    cases j with
    | zero =>
      simp at h
      subst h
      simp [cnt_cons]
    | succ j =>
      simp at h
      have := ih h
      simp only [List.set_cons_succ, cnt_cons]
      omega

theorem slot_pos {l : List Bool} {j : Nat} (h : slot l j = true) : 0 < cnt l := by
  have := cnt_set_false h
  omega

theorem slot_iff {l : List Bool} {j : Nat} : slot l j = true ↔ l[j]? = some true := by
  simp [slot]

theorem not_slot_of_lt {l : List Bool} {j : Nat} (hj : j < l.length) (h : slot l j = false) :
    l[j]? = some false := by
  simp only [slot, beq_eq_false_iff_ne, ne_eq] at h
  rw [List.getElem?_eq_getElem hj] at h ⊢
  cases hb : l[j] <;> simp_all

theorem getElem?_set_self' {l : List Bool} {j : Nat} (hj : j < l.length) (b : Bool) :
    (l.set j b)[j]? = some b := by
  simp [hj]

theorem lt_of_getElem?_eq_some {l : List Bool} {j : Nat} {b : Bool} (h : l[j]? = some b) :
    j < l.length := by
  rcases Nat.lt_or_ge j l.length with h' | h'
  · exact h'
  · rw [List.getElem?_eq_none h'] at h; cases h

theorem lt_of_slot {l : List Bool} {j : Nat} (h : slot l j = true) : j < l.length :=
  lt_of_getElem?_eq_some (slot_iff.mp h)

/-! ### sums over the thread list -/

/-- total of a per-thread quantity -/
def tot (f : Thread → Nat) (ts : List Thread) : Nat := (ts.map f).sum

theorem tot_nil (f : Thread → Nat) : tot f [] = 0 := rfl

theorem tot_cons (f : Thread → Nat) (t : Thread) (ts : List Thread) :
    tot f (t :: ts) = f t + tot f ts := by simp [tot]

/-- replacing thread `i` moves the total by the difference of its contribution -/
theorem tot_set (f : Thread → Nat) {ts : List Thread} {i : Nat} {t : Thread} (t' : Thread)
    (h : ts[i]? = some t) : tot f (ts.set i t') + f t = tot f ts + f t' := by
  induction ts generalizing i with
  | nil => simp at h
  | cons a ts ih =>
    cases i with
    | zero =>
      simp at h
      subst h
      simp only [List.set_cons_zero, tot_cons]
      omega
    | succ i =>
      simp at h
      have := ih h
      simp only [List.set_cons_succ, tot_cons]
      omega

theorem tot_ge (f : Thread → Nat) {ts : List Thread} {i : Nat} {t : Thread}
    (h : ts[i]? = some t) : f t ≤ tot f ts := by
  induction ts generalizing i with
  | nil => simp at h
  | cons a ts ih =>
    cases i with
    | zero => simp at h; subst h; simp only [tot_cons]; omega
    | succ i => simp at h; have := ih h; simp only [tot_cons]; omega

/-- two different threads both contribute -/
theorem tot_ge2 (f : Thread → Nat) {ts : List Thread} {i j : Nat} {t u : Thread}
    (hij : i ≠ j) (hi : ts[i]? = some t) (hj : ts[j]? = some u) : f t + f u ≤ tot f ts := by
  induction ts generalizing i j with
  | nil => simp at hi
  | cons a ts ih =>
    cases i with
    | zero =>
      cases j with
      | zero => exact absurd rfl hij
      | succ j =>
        simp at hi hj
        subst hi
        have := tot_ge f hj
        simp only [tot_cons]; omega
    | succ i =>
      cases j with
      | zero =>
        simp at hi hj
        subst hj
        have := tot_ge f hi
        simp only [tot_cons]; omega
      | succ j =>
        simp at hi hj
        have := ih (by omega) hi hj
        simp only [tot_cons]; omega

theorem tot_add (f g : Thread → Nat) (ts : List Thread) :
    tot (fun t => f t + g t) ts = tot f ts + tot g ts := by
  induction ts with
  | nil => rfl
  | cons a ts ih => simp only [tot_cons, ih]; omega

theorem tot_le (f g : Thread → Nat) (h : ∀ t, f t ≤ g t) (ts : List Thread) : tot f ts ≤ tot g ts := by
  induction ts with
  | nil => simp [tot]
  | cons a ts ih => have := h a; simp only [tot_cons]; omega

theorem tot_eq_zero {f : Thread → Nat} {ts : List Thread} (h : tot f ts = 0) :
    ∀ t ∈ ts, f t = 0 := by
  induction ts with
  | nil => intro t ht; cases ht
  | cons a ts ih =>
    simp only [tot_cons] at h
    intro t ht
    rcases List.mem_cons.mp ht with rfl | ht
    · omega
    · exact ih (by omega) t ht

theorem tot_pos_of_mem {f : Thread → Nat} {ts : List Thread} {t : Thread} (ht : t ∈ ts) (h : 0 < f t) :
    0 < tot f ts := by
  rcases Nat.eq_zero_or_pos (tot f ts) with h0 | h0
  · have := tot_eq_zero h0 t ht; omega
  · exact h0

theorem exists_of_tot_pos {f : Thread → Nat} {ts : List Thread} (h : 0 < tot f ts) :
    ∃ (i : Nat) (t : Thread), ts[i]? = some t ∧ 0 < f t := by
  induction ts with
  | nil => simp [tot] at h
  | cons a ts ih =>
    simp only [tot_cons] at h
    rcases Nat.eq_zero_or_pos (f a) with h0 | h0
    · obtain ⟨i, t, hi, ht⟩ := ih (by omega)
      exact ⟨i + 1, t, by simpa using hi, ht⟩
    · exact ⟨0, a, by simp, h0⟩

end Cstl.Conc
