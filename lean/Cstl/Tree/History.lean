import Cstl.Tree.Model
/-
Operation histories on one tree / one map, built from the model operations of
Model.lean.  The driver (Main.lean) executes every standard operation as one
`btStep` / `rbStep` / `mapStep`, so the step functions the history theorems of
Props*.lean are about are the ones compared with the real code on every run.
The history theorems quantify over `List Op` / `List MOp` from the initial
(empty) container.
-/
namespace Cstl.Tree
open Color Tree

/-- why a history cannot continue -/
inductive Stop where
  /-- the caller broke the interface: the element is already in the tree -/
  | badOp
  /-- the code would dereference NULL -/
  | segv
deriving DecidableEq, Repr

inductive Op where
  /-- insert(e, NULL) -/
  | ins (x : Elem)
  /-- find(e, &par); insert(e, par) -/
  | insHint (x : Elem)
  | find (k : Int)
  | erase (k : Int)
  | foreach (fwd : Bool) (visit : Nat → Elem → Ord → Int)
  | clear

inductive Out where
  | done
  | found (r : Option Elem)
  | erased (r : Option Elem)
  | visited (res : Int) (evs : List Ev)
  | cleared (cbs : List Elem)

/-- a tree container: the root and the `size` member -/
structure TS where
  t : Tree := nil
  size : Nat := 0

/-- one operation on a `struct cstl_bintree` -/
def btStep (s : TS) : Op → Except Stop (TS × Out)
  | .ins x =>
    if x.id ∈ s.t.ids then .error .badOp
    else .ok ({ t := btIns x s.t, size := s.size + 1 }, .done)
  | .insHint x =>
    if x.id ∈ s.t.ids then .error .badOp
    else match (find x.key s.t).2 with
      | none => .ok ({ t := btIns x s.t, size := s.size + 1 }, .done)
      | some p =>
        match btInsAt p.id x s.t with
        | some t' => .ok ({ t := t', size := s.size + 1 }, .done)
        | none => .error .segv
  | .find k => .ok (s, .found (find k s.t).1)
  | .erase k =>
    match btErase k s.t with
    | (t', some e) => .ok ({ t := t', size := s.size - 1 }, .erased (some e))
    | (_, none) => .ok (s, .erased none)
  | .foreach fwd visit =>
    let r := foreach fwd visit s.t
    .ok (s, .visited r.1 r.2)
  | .clear => .ok ({ t := nil, size := 0 }, .cleared (clearOrder s.t))

/-- one operation on a `struct cstl_rbtree` -/
def rbStep (s : TS) : Op → Except Stop (TS × Out)
  | .ins x =>
    if x.id ∈ s.t.ids then .error .badOp
    else match rbInsert x s.t with
      | some t' => .ok ({ t := t', size := s.size + 1 }, .done)
      | none => .error .segv
  | .insHint x =>
    if x.id ∈ s.t.ids then .error .badOp
    else match (find x.key s.t).2 with
      | none =>
        match rbInsert x s.t with
        | some t' => .ok ({ t := t', size := s.size + 1 }, .done)
        | none => .error .segv
      | some p =>
        match rbInsertAt p.id x s.t with
        | some (some t') => .ok ({ t := t', size := s.size + 1 }, .done)
        | _ => .error .segv
  | .find k => .ok (s, .found (find k s.t).1)
  | .erase k =>
    match rbErase k s.t with
    | none => .error .segv
    | some (t', some e) => .ok ({ t := t', size := s.size - 1 }, .erased (some e))
    | some (_, none) => .ok (s, .erased none)
  | .foreach fwd visit =>
    let r := foreach fwd visit s.t
    .ok (s, .visited r.1 r.2)
  | .clear => .ok ({ t := nil, size := 0 }, .cleared (clearOrder s.t))

/-- run a history from a given state, collecting the outputs -/
def runFrom (step : TS → Op → Except Stop (TS × Out)) : TS → List Op → Except Stop (TS × List Out)
  | s, [] => .ok (s, [])
  | s, op :: ops =>
    match step s op with
    | .error e => .error e
    | .ok (s', o) =>
      match runFrom step s' ops with
      | .error e => .error e
      | .ok (s'', os) => .ok (s'', o :: os)

theorem runFrom_cons_ok {step : TS → Op → Except Stop (TS × Out)} {s s'' : TS} {op : Op} {ops : List Op}
    {outs : List Out} :
    runFrom step s (op :: ops) = .ok (s'', outs) ↔
      ∃ s' o os, step s op = .ok (s', o) ∧ runFrom step s' ops = .ok (s'', os) ∧ outs = o :: os := by
  simp only [runFrom]
  cases hs : step s op with
  | error e => simp
  | ok r =>
    obtain ⟨s1, o⟩ := r
    cases hr : runFrom step s1 ops with
    | error e =>
      simp only [hr]
      constructor
      · intro h; cases h
      · rintro ⟨s', o', os', h1, h2, _⟩
        cases h1
        rw [hr] at h2
        cases h2
    | ok r' =>
      obtain ⟨s2, os⟩ := r'
      simp only [hr]
      constructor
      · intro h
        cases h
        exact ⟨s1, o, os, rfl, hr, rfl⟩
      · rintro ⟨s', o', os', h1, h2, h3⟩
        cases h1
        rw [hr] at h2
        cases h2
        rw [h3]

theorem runFrom_cons_error {step : TS → Op → Except Stop (TS × Out)} {s : TS} {op : Op} {ops : List Op}
    {e : Stop} :
    runFrom step s (op :: ops) = .error e ↔
      step s op = .error e ∨ ∃ s' o, step s op = .ok (s', o) ∧ runFrom step s' ops = .error e := by
  simp only [runFrom]
  cases hs : step s op with
  | error e' => simp
  | ok r =>
    obtain ⟨s1, o⟩ := r
    cases hr : runFrom step s1 ops with
    | error e' =>
      simp only [hr]
      constructor
      · intro h
        cases h
        exact Or.inr ⟨s1, o, rfl, hr⟩
      · rintro (h | ⟨s', o', h1, h2⟩)
        · cases h
        · cases h1
          rw [hr] at h2
          cases h2
          rfl
    | ok r' =>
      obtain ⟨s2, os⟩ := r'
      simp only [hr]
      constructor
      · intro h; cases h
      · rintro (h | ⟨s', o', h1, h2⟩)
        · cases h
        · cases h1
          rw [hr] at h2
          cases h2

def btRun (ops : List Op) := runFrom btStep {} ops
def rbRun (ops : List Op) := runFrom rbStep {} ops

/-! ### map histories -/

inductive MOp where
  /-- insert(key object `kp` with value `k`, value `v`), malloc's answer -/
  | ins (k : Int) (kp v : Nat) (allocOk : Bool)
  | find (k : Int)
  | erase (k : Int)
  /-- find(k, &it); if it is not end: erase_iterator(&it) -/
  | eraseIt (k : Int)
  | clear (withCb : Bool)
deriving Repr

inductive MOut where
  | ins (ret : Int) (it : Iter) (log : List MEv)
  | find (it : Iter)
  | erase (ret : Int) (it : Iter) (log : List MEv)
  | eraseIt (it : Iter) (log : List MEv)
  | clear (log : List MEv)
deriving Repr

/-- `none` = NULL dereference -/
def mapStep (m : MapSt) : MOp → Option (MapSt × MOut)
  | .ins k kp v a =>
    match mapInsert m k kp v a with
    | none => none
    | some (m', r, it, log) => some (m', .ins r it log)
  | .find k => some (m, .find (mapFind m k))
  | .erase k =>
    match mapErase m k with
    | none => none
    | some (m', r, it, log) => some (m', .erase r it log)
  | .eraseIt k =>
    match (find k m.t).1 with
    | none => some (m, .eraseIt none [])
    | some e =>
      match mapEraseNode m e with
      | none => none
      | some (m', log) => some (m', .eraseIt (iterOf e) log)
  | .clear cb =>
    let r := mapClear m cb
    some (r.1, .clear r.2)

def mapRunFrom : MapSt → List MOp → Option (MapSt × List MOut)
  | m, [] => some (m, [])
  | m, op :: ops =>
    match mapStep m op with
    | none => none
    | some (m', o) =>
      match mapRunFrom m' ops with
      | none => none
      | some (m'', os) => some (m'', o :: os)

def mapRun (ops : List MOp) := mapRunFrom {} ops

end Cstl.Tree
