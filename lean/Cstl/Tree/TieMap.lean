import Cstl.Gen.MapC
import Cstl.Tree.MapSem
import Cstl.Tree.Model
/-
Translator ties for src/map.c (property C08).

`Cstl/Gen/MapC.lean` is regenerated from the clang AST of the current src/map.c by
tools/c2lean_map.py on every check run (tools/areas/sortmap_tie.py); the theorems below
(hand-written, fixed) state that the map layer of Cstl/Tree/Model.lean — `mapInsert`, `mapFind`,
`mapEraseNode`, `mapErase`, `mapClear`, the functions the C08 theorems are about — is that
translation: same new state, same return code, same iterator fields, same events appended to the
log, `none` (NULL dereference inside the tree code) in the same cases.  The rbtree calls, `malloc`,
`free` and the clear callback are primitives of the translation (Cstl/Tree/MapSem.lean).

Iterators are compared by their three C fields (`CIt.flat` / `flatIter`): the model writes the end
iterator as `none`, the C object is `{NULL, NULL, NULL}`.
-/
set_option linter.unusedSimpArgs false
set_option linter.unusedVariables false
namespace Cstl.Tree.TieMap
open Cstl.Tree Cstl.Tree.MapSem Cstl.Gen.MapC

/-! ### helpers: iterator initialisation, allocation, find -/

/-- `cstl_map_iterator_init` on a node: the node's stored pointers and the node -/
theorem iterInit_some (i : CIt) (e : Elem) :
    c_cstl_map_iterator_init i (some e) = { node := some e, key := e.kp, val := e.val } := by
  simp [c_cstl_map_iterator_init, nodeKp, nodeVal]

/-- `cstl_map_iterator_init` on NULL: the end iterator -/
theorem iterInit_none (i : CIt) : c_cstl_map_iterator_init i none = CIt.end_ := by
  simp [c_cstl_map_iterator_init]

/-- `cstl_map_node_alloc`: the oracle's answer, the event, and a node carrying key and value -/
theorem nodeAlloc_tie (ok : Bool) (c : CSt) (key : KeyP) (v : Nat) :
    c_cstl_map_node_alloc ok c key v =
      if ok then
        ({ m := { c.m with next := c.m.next + 1 }, log := c.log ++ [.alloc c.m.next] },
         some { key := key.k, id := c.m.next, kp := key.p, val := v })
      else ({ c with log := c.log ++ [.allocFail] }, none) := by
  cases ok <;> simp [c_cstl_map_node_alloc, mallocP, setKey, setVal]

/-- `__cstl_map_find`: the tree's `find` at the key's value; first the parent stored through `p` -/
theorem privFind_tie (c : CSt) (key : KeyP) :
    c_priv_cstl_map_find c key = ((find key.k c.m.t).2, (find key.k c.m.t).1) := by
  simp [c_priv_cstl_map_find, rbtFindP, setKeyS, nodeUninit]

/-! ### cstl_map_find -/

theorem mapFind_tie (m : MapSt) (log : List MEv) (k : Int) (kp : Nat) (i0 : CIt) :
    (c_cstl_map_find ⟨m, log⟩ ⟨k, kp⟩ i0).flat = flatIter (mapFind m k) := by
  simp only [c_cstl_map_find, privFind_tie, mapFind]
  cases (find k m.t).1 with
  | none => simp [iterInit_none, CIt.end_, CIt.flat, flatIter]
  | some e => simp [iterInit_some, CIt.flat, flatIter, iterOf]

/-! ### cstl_map_insert -/

/-- `cstl_map_insert`: find (remembering the parent), only then malloc, hinted rbtree insert;
return codes 1 / -1 / 0; the iterator (when the caller passed one) -/
theorem mapInsert_tie (m : MapSt) (log : List MEv) (k : Int) (kp v : Nat) (ok : Bool) (i : Option CIt) :
    (c_cstl_map_insert ok ⟨m, log⟩ ⟨k, kp⟩ v i).map
        (fun r => (r.1.m, r.2.2, r.2.1.map CIt.flat, r.1.log))
      = (mapInsert m k kp v ok).map
        (fun r => (r.1, r.2.1, i.map (fun _ => flatIter r.2.2.1), log ++ r.2.2.2)) := by
  simp only [c_cstl_map_insert, privFind_tie, mapInsert]
  cases hf : find k m.t with
  | mk fnd par =>
    cases fnd with
    | some e =>
      cases i with
      | none => simp
      | some i0 => simp [iterInit_some, derefIt, CIt.flat, flatIter, iterOf]
    | none =>
      simp only [nodeAlloc_tie, if_true]
      cases ok with
      | false =>
        cases i with
        | none => simp
        | some i0 => simp [iterInit_none, derefIt, CIt.flat, flatIter, CIt.end_]
      | true =>
        simp only [if_true, rbtInsertP]
        cases par with
        | none =>
          cases hr : rbInsert { key := k, id := m.next, kp := kp, val := v } m.t with
          | none => simp [hr]
          | some t' =>
            cases i with
            | none => simp [hr]
            | some i0 => simp [hr, iterInit_some, derefIt, CIt.flat, flatIter, iterOf]
        | some p =>
          cases hr : rbInsertAt p.id { key := k, id := m.next, kp := kp, val := v } m.t with
          | none => simp [hr]
          | some o =>
            cases o with
            | none => simp [hr]
            | some t' =>
              cases i with
              | none => simp [hr]
              | some i0 => simp [hr, iterInit_some, derefIt, CIt.flat, flatIter, iterOf]

/-! ### cstl_map_erase_iterator, cstl_map_erase -/

theorem mapEraseNode_tie (m : MapSt) (log : List MEv) (it : CIt) (e : Elem) (h : it.node = some e) :
    (c_cstl_map_erase_iterator ⟨m, log⟩ it).map (fun c => (c.m, c.log))
      = (mapEraseNode m e).map (fun r => (r.1, log ++ r.2)) := by
  simp only [c_cstl_map_erase_iterator, h, rbtEraseP, mapEraseNode, c_cstl_map_node_free]
  cases hr : rbErase e.key m.t with
  | none => simp
  | some r => simp [freeP]

theorem mapErase_tie (m : MapSt) (log : List MEv) (k : Int) (kp : Nat) (i : Option CIt) :
    (c_cstl_map_erase ⟨m, log⟩ ⟨k, kp⟩ i).map
        (fun r => (r.1.m, r.2.2, r.2.1.map CIt.flat, r.1.log))
      = (mapErase m k).map
        (fun r => (r.1, r.2.1, i.map (fun _ => flatIter r.2.2.1), log ++ r.2.2.2)) := by
  simp only [c_cstl_map_erase, c_cstl_map_find, privFind_tie, mapErase]
  cases hf : (find k m.t).1 with
  | none =>
    cases i with
    | none => simp [iterInit_none, CIt.end_]
    | some i0 => simp [iterInit_none, CIt.end_, CIt.flat, flatIter]
  | some e =>
    have he := mapEraseNode_tie m log { node := some e, key := e.kp, val := e.val } e rfl
    simp only [iterInit_some]
    cases hc : c_cstl_map_erase_iterator ⟨m, log⟩ { node := some e, key := e.kp, val := e.val } with
    | none =>
      rw [hc] at he
      cases hm : mapEraseNode m e with
      | none => simp
      | some r => rw [hm] at he; simp at he
    | some c' =>
      rw [hc] at he
      cases hm : mapEraseNode m e with
      | none => rw [hm] at he; simp at he
      | some r =>
        rw [hm] at he
        simp only [Option.map_some, Option.some.injEq, Prod.mk.injEq] at he
        cases i with
        | none => simp [he.1, he.2]
        | some i0 => simp [he.1, he.2, CIt.flat, flatIter]

/-! ### cstl_map_clear: the step function handed to cstl_rbtree_clear -/

/-- `__cstl_map_node_clear`: the callback (if any) sees the stored pointers, then the node is freed -/
theorem nodeClear_tie (withCb : Bool) (c : CSt) (e : Elem) :
    c_priv_cstl_map_node_clear withCb c (some e)
      = { c with log := c.log ++ (if withCb then [MEv.cb e.kp e.val, MEv.free e.id] else [MEv.free e.id]) } := by
  cases withCb <;> simp [c_priv_cstl_map_node_clear, c_cstl_map_node_free, freeP, cbP, iterInit_some]

theorem clearFold (withCb : Bool) : ∀ (l : List Elem) (c : CSt),
    l.foldl (fun c e => c_priv_cstl_map_node_clear withCb c (some e)) c
      = { c with log := c.log ++ l.flatMap fun e =>
            if withCb then [MEv.cb e.kp e.val, MEv.free e.id] else [MEv.free e.id] } := by
  intro l
  induction l with
  | nil => intro c; simp
  | cons e l ih =>
    intro c
    rw [List.foldl_cons, ih, nodeClear_tie]
    simp [List.append_assoc]

/-- `cstl_map_clear`: the log of the model's `mapClear` is the step function run over the nodes in
the order in which `cstl_rbtree_clear` (a primitive here) hands them over -/
theorem mapClear_tie (m : MapSt) (withCb : Bool) :
    mapClear m withCb =
      ({ m with t := .nil, size := 0 },
       ((clearOrder m.t).foldl (fun c e => c_priv_cstl_map_node_clear withCb c (some e)) ⟨m, []⟩).log) := by
  simp [mapClear, clearFold]

/-- non-vacuity: inserting key 5 into the empty map through the translated C function -/
theorem translated_insert_example : (c_cstl_map_insert true ⟨{}, []⟩ ⟨5, 70⟩ 80 (some {})).map (fun r => (r.2.2, r.2.1.map CIt.flat, r.1.log, r.1.m.size))
    = some (0, some (70, 80, 1), [MEv.alloc 1], 1) := by decide

end Cstl.Tree.TieMap
