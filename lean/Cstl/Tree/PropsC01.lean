import Cstl.Tree.OrderDel
import Cstl.Tree.Events
import Cstl.Tree.History
import Cstl.Tree.PropsC02
/-
C01 — ordered trees hold exactly the inserted-minus-erased multiset, in order.

Property theorems only (helper lemmas: Order.lean, OrderDel.lean, Events.lean).
`t.inorder` is the sequence of elements a forward traversal presents; the
multiset of held elements is a list up to `List.Perm`; `Sorted t` says the
in-order keys are non-decreasing.
-/
namespace Cstl.Tree
open Color Tree

/-! ### binary tree: insert, find, erase -/

/-- insert adds exactly the new element, keeps the order, and size follows -/
theorem btInsert_spec (x : Elem) (t : Tree) :
    (btIns x t).inorder.Perm (x :: t.inorder) ∧ (Sorted t → Sorted (btIns x t)) ∧
    (btIns x t).size = t.size + 1 := by
  refine ⟨btIns_perm x t, btIns_sorted x, ?_⟩
  rw [size_eq_length, size_eq_length, (btIns_perm x t).length_eq]
  simp

/-- a hint taken from `find` is equivalent to no hint (also among equal keys) -/
theorem btInsertAt_find_eq (x : Elem) {t : Tree} {p : Elem} (hnd : t.ids.Nodup)
    (hp : (find x.key t).2 = some p) : btInsAt p.id x t = some (btIns x t) := by
  rcases btInsAt_findAux x hnd none with h | ⟨q, hq, hi⟩
  · simp [find] at hp; rw [hp] at h; cases h
  · simp only [find] at hp; rw [hp] at hq; cases hq; exact hi

/-- find returns a held element comparing equal to the probe … -/
theorem find_found {k : Int} {t : Tree} {e : Elem} (h : (find k t).1 = some e) :
    e ∈ t.inorder ∧ e.key = k := find_some h

/-- … if and only if one is held -/
theorem find_iff {k : Int} {t : Tree} (hs : Sorted t) :
    (∃ e, (find k t).1 = some e) ↔ ∃ e ∈ t.inorder, e.key = k := by
  constructor
  · rintro ⟨e, he⟩
    exact ⟨e, find_some he⟩
  · rintro ⟨e, he, hk⟩
    cases hf : (find k t).1 with
    | some e' => exact ⟨e', rfl⟩
    | none => exact absurd hk (find_none hs hf e he)

/-- erase unlinks and returns exactly one held element comparing equal to the probe -/
theorem btErase_some {k : Int} {t t' : Tree} {e : Elem} (h : btErase k t = (t', some e)) :
    e ∈ t.inorder ∧ e.key = k ∧ t.inorder.Perm (e :: t'.inorder) ∧ (Sorted t → Sorted t') ∧
    t'.size + 1 = t.size := by
  unfold btErase at h
  split at h
  · cases h
  · rename_i e' hf
    cases h
    obtain ⟨hm, hk⟩ := find_some hf
    obtain ⟨a, b, h1, h2⟩ := btDel_inorder (p := none) hf
    refine ⟨hm, hk, ?_, ?_, ?_⟩
    · rw [h1, h2]; exact List.perm_middle
    · intro hs
      unfold Sorted at hs ⊢
      rw [h1] at hs; rw [h2]
      exact hs.sublist ((List.sublist_cons_self e b).append_left a)
    · rw [size_eq_length, size_eq_length, h1, h2]; simp; omega

/-- erase of a key nobody holds returns NULL and changes nothing -/
theorem btErase_none {k : Int} {t : Tree} (hs : Sorted t) (h : (btErase k t).2 = none) :
    (∀ e ∈ t.inorder, e.key ≠ k) ∧ (btErase k t).1 = t := by
  unfold btErase at h ⊢
  split at h
  · rename_i hf
    exact ⟨find_none hs hf, rfl⟩
  · cases h

/-! ### red-black tree: the same (rotations and recolouring preserve the in-order sequence) -/

theorem rbInsert_spec {x : Elem} {t t' : Tree} (h : rbInsert x t = some t') :
    t'.inorder.Perm (x :: t.inorder) ∧ (Sorted t → Sorted t') ∧ t'.size = t.size + 1 := by
  have hi := rbInsert_inorder h
  obtain ⟨h1, h2, h3⟩ := btInsert_spec x t
  refine ⟨hi ▸ h1, ?_, ?_⟩
  · intro hs; unfold Sorted; rw [hi]; exact h2 hs
  · rw [size_eq_length, hi, ← size_eq_length, h3]

theorem rbInsertAt_find_eq (x : Elem) {t : Tree} {p : Elem} (hnd : t.ids.Nodup)
    (hp : (find x.key t).2 = some p) : rbInsertAt p.id x t = some (rbInsert x t) := by
  rcases insAt_findAux x hnd none with h | ⟨q, hq, hi⟩
  · simp [find] at hp; rw [hp] at h; cases h
  · simp only [find] at hp; rw [hp] at hq; cases hq
    simp [rbInsertAt, rbInsert, hi]

theorem rbErase_some {k : Int} {t t' : Tree} {e : Elem} (h : rbErase k t = some (t', some e)) :
    e ∈ t.inorder ∧ e.key = k ∧ t.inorder.Perm (e :: t'.inorder) ∧ (Sorted t → Sorted t') ∧
    t'.size + 1 = t.size := by
  obtain ⟨hi, hr⟩ := rbErase_inorder h
  have hb : btErase k t = ((btErase k t).1, some e) := by rw [hr]
  obtain ⟨h1, h2, h3, h4, h5⟩ := btErase_some hb
  refine ⟨h1, h2, hi ▸ h3, ?_, ?_⟩
  · intro hs; unfold Sorted; rw [hi]; exact h4 hs
  · rw [size_eq_length, hi, ← size_eq_length]; exact h5

theorem rbErase_none {k : Int} {t t' : Tree} (hs : Sorted t) (h : rbErase k t = some (t', none)) :
    (∀ e ∈ t.inorder, e.key ≠ k) ∧ t' = t := by
  unfold rbErase at h
  split at h
  · rename_i hf
    cases h
    exact ⟨find_none hs hf, rfl⟩
  · split at h <;> cases h

/-! ### traversal -/

/-- result of the `i`-th visit of the complete visit list `full` (0 beyond its end) -/
def visitAt (visit : Nat → Elem → Ord → Int) (full : List Ev) (i : Nat) : Int :=
  match full[i]? with
  | some ev => visit i ev.1 ev.2
  | none => 0

/-- traversal stops at, and returns, the first non-zero visit result -/
def StopRule (visit : Nat → Elem → Ord → Int) (full : List Ev) (res : Int) (evs : List Ev) : Prop :=
  (res = 0 ∧ evs = full ∧ ∀ i, i < full.length → visitAt visit full i = 0) ∨
  (∃ k, k < full.length ∧ (∀ i, i < k → visitAt visit full i = 0) ∧ visitAt visit full k ≠ 0 ∧
    res = visitAt visit full k ∧ evs = full.take (k + 1))

theorem first_nonzero (f : Nat → Int) : ∀ n,
    (∀ i, i < n → f i = 0) ∨ ∃ k, k < n ∧ (∀ i, i < k → f i = 0) ∧ f k ≠ 0
  | 0 => Or.inl (by intro i h; omega)
  | n + 1 => by
    rcases first_nonzero f n with h | ⟨k, hk, hz, hnz⟩
    · by_cases hn : f n = 0
      · left
        intro i hi
        by_cases hin : i < n
        · exact h i hin
        · have : i = n := by omega
          subst this; exact hn
      · right; exact ⟨n, by omega, h, hn⟩
    · right; exact ⟨k, by omega, hz, hnz⟩

theorem foreach_stop (fwd : Bool) (visit : Nat → Elem → Ord → Int) (t : Tree) :
    StopRule visit (events fwd t) (foreach fwd visit t).1 (foreach fwd visit t).2 := by
  have hw : foreach fwd visit t = runVisits visit (events fwd t) (0, []) := walk_eq_runVisits fwd visit t _
  have hat : ∀ i (h : i < (events fwd t).length),
      visitAt visit (events fwd t) i = visit i (events fwd t)[i].1 (events fwd t)[i].2 := by
    intro i h; simp [visitAt, List.getElem?_eq_getElem h]
  rcases first_nonzero (visitAt visit (events fwd t)) (events fwd t).length with hz | ⟨k, hk, hz, hnz⟩
  · left
    have := runVisits_zero visit (events fwd t) [] (by
      intro j hj; simpa [hat j hj] using hz j hj)
    rw [hw, this]
    exact ⟨rfl, by simp, hz⟩
  · right
    have := runVisits_stop visit (events fwd t) [] k hk (by
      intro j hj; simpa [hat j (by omega)] using hz j hj) (by simpa [hat k hk] using hnz)
    rw [hw, this]
    exact ⟨k, hk, hz, hnz, by simp [hat k hk], by simp⟩

/-- what the property says about a complete traversal `full` of a tree holding `held` -/
structure VisitsOK (fwd : Bool) (held : List Elem) (full : List Ev) : Prop where
  /-- every held element is presented exactly once, as a MID or a LEAF visit -/
  presented : ((full.filter isML).map (·.1)).Perm held
  /-- in non-decreasing (forward) / non-increasing (reverse) comparison order -/
  ordered : ((full.filter isML).map (·.1)).Pairwise
      (fun a b => if fwd then a.key ≤ b.key else b.key ≤ a.key)
  /-- non-leaf elements have one PRE and one POST visit, leaf elements none -/
  counts : ∀ x, full.count (x, Ord.pre) = full.count (x, Ord.mid) ∧
      full.count (x, Ord.post) = full.count (x, Ord.mid)
  /-- the PRE visit comes before, the POST visit after the MID visit -/
  bracket : ∀ x A B, full = A ++ (x, Ord.mid) :: B → (x, Ord.pre) ∈ A ∧ (x, Ord.post) ∈ B

/-- both directions, for every ordered tree (duplicates included) -/
theorem foreach_events (fwd : Bool) {t : Tree} (hs : Sorted t) : VisitsOK fwd t.inorder (events fwd t) := by
  cases fwd with
  | true =>
    refine ⟨?_, ?_, events_count true t, events_bracket true t⟩
    · rw [events_midleaf]
    · rw [events_midleaf]; simpa [Sorted] using hs
  | false =>
    refine ⟨?_, ?_, events_count false t, events_bracket false t⟩
    · rw [events_midleaf_rev]; exact List.reverse_perm _
    · rw [events_midleaf_rev, List.pairwise_reverse]; simpa [Sorted] using hs

/-- with distinct held elements each one has exactly one MID-or-LEAF visit -/
theorem foreach_once (fwd : Bool) {t : Tree} (hnd : t.inorder.Nodup) {x : Elem} (hx : x ∈ t.inorder) :
    (((events fwd t).filter isML).map (·.1)).count x = 1 := by
  have : (((events fwd t).filter isML).map (·.1)).Perm t.inorder := by
    cases fwd with
    | true => rw [events_midleaf]
    | false => rw [events_midleaf_rev]; exact List.reverse_perm _
  rw [this.count_eq]
  rw [hnd.count]; simp [hx]

/-- clear hands every held element to the callback exactly once and empties the tree -/
theorem clear_spec (t : Tree) : (clearOrder t).Perm t.inorder := clearOrder_perm t

/-- after clear the container is in its initial state (so every theorem about
histories from the initial state applies to the reused container) -/
theorem clear_reinit (s : TS) :
    btStep s .clear = .ok ({}, .cleared (clearOrder s.t)) ∧ rbStep s .clear = .ok ({}, .cleared (clearOrder s.t)) :=
  ⟨rfl, rfl⟩

/-! ### histories -/

/-- abstract specification: the state is the multiset of held elements; which of
several equal elements is found / erased is not determined -/
inductive SpecStep : List Elem → Op → Out → List Elem → Prop where
  | ins {held : List Elem} {x : Elem} : x.id ∉ held.map (·.id) → SpecStep held (.ins x) .done (x :: held)
  | insHint {held : List Elem} {x : Elem} : x.id ∉ held.map (·.id) → SpecStep held (.insHint x) .done (x :: held)
  | findSome {held : List Elem} {k : Int} {e : Elem} : e ∈ held → e.key = k →
      SpecStep held (.find k) (.found (some e)) held
  | findNone {held : List Elem} {k : Int} : (∀ e ∈ held, e.key ≠ k) → SpecStep held (.find k) (.found none) held
  | eraseSome {held : List Elem} {k : Int} {e : Elem} : e ∈ held → e.key = k →
      SpecStep held (.erase k) (.erased (some e)) (held.erase e)
  | eraseNone {held : List Elem} {k : Int} : (∀ e ∈ held, e.key ≠ k) → SpecStep held (.erase k) (.erased none) held
  | foreach {held : List Elem} {fwd : Bool} {visit : Nat → Elem → Ord → Int} {res : Int} {evs full : List Ev} :
      VisitsOK fwd held full → StopRule visit full res evs →
      SpecStep held (.foreach fwd visit) (.visited res evs) held
  | clear {held cbs : List Elem} : cbs.Perm held → SpecStep held .clear (.cleared cbs) []

inductive SpecRun : List Elem → List Op → List Out → List Elem → Prop where
  | nil {held : List Elem} : SpecRun held [] [] held
  | cons {held held' held'' : List Elem} {op : Op} {o : Out} {ops : List Op} {os : List Out} :
      SpecStep held op o held' → SpecRun held' ops os held'' → SpecRun held (op :: ops) (o :: os) held''

/-- how a tree state represents the multiset `held` -/
structure Good (s : TS) (held : List Elem) : Prop where
  perm : s.t.inorder.Perm held
  sorted : Sorted s.t
  size : s.size = held.length
  distinct : (held.map (·.id)).Nodup

theorem Good.ids_nodup {s : TS} {held : List Elem} (g : Good s held) : s.t.ids.Nodup := by
  unfold Tree.ids
  exact (g.perm.map (·.id)).nodup_iff.2 g.distinct

theorem Good.not_mem {s : TS} {held : List Elem} (g : Good s held) {x : Elem} (h : x.id ∉ s.t.ids) :
    x.id ∉ held.map (·.id) := fun hm => h ((g.perm.map (·.id)).mem_iff.2 hm)

theorem VisitsOK.of_perm {fwd : Bool} {a b : List Elem} {full : List Ev} (h : VisitsOK fwd a full) (p : a.Perm b) :
    VisitsOK fwd b full := ⟨h.presented.trans p, h.ordered, h.counts, h.bracket⟩

theorem good_insert {s : TS} {held : List Elem} (g : Good s held) {x : Elem} {t' : Tree}
    (hx : x.id ∉ s.t.ids) (hp : t'.inorder.Perm (x :: s.t.inorder)) (hs : Sorted t') :
    Good { t := t', size := s.size + 1 } (x :: held) :=
  ⟨hp.trans (g.perm.cons x), hs, by simp [g.size], by simpa using ⟨by simpa using g.not_mem hx, g.distinct⟩⟩

theorem good_erase {s : TS} {held : List Elem} (g : Good s held) {e : Elem} {t' : Tree}
    (hp : s.t.inorder.Perm (e :: t'.inorder)) (hs : Sorted t') (hm : e ∈ s.t.inorder) :
    Good { t := t', size := s.size - 1 } (held.erase e) := by
  have he : e ∈ held := g.perm.mem_iff.1 hm
  refine ⟨?_, hs, ?_, ?_⟩
  · have := (hp.symm.trans g.perm).erase e
    simpa using this
  · simp [g.size, List.length_erase_of_mem he]
  · exact g.distinct.sublist ((List.erase_sublist).map _)

/-- one operation on the binary tree: never a NULL dereference, and the step refines the specification -/
theorem btStep_refines {s : TS} {held : List Elem} (g : Good s held) (op : Op) :
    btStep s op ≠ .error .segv ∧
    ∀ s' o, btStep s op = .ok (s', o) → ∃ held', SpecStep held op o held' ∧ Good s' held' := by
  cases op with
  | ins x =>
    simp only [btStep]
    split
    · simp
    · rename_i hx
      refine ⟨by simp, ?_⟩
      intro s' o h
      cases h
      obtain ⟨h1, h2, _⟩ := btInsert_spec x s.t
      exact ⟨_, SpecStep.ins (g.not_mem hx), good_insert g hx h1 (h2 g.sorted)⟩
  | insHint x =>
    simp only [btStep]
    split
    · simp
    · rename_i hx
      obtain ⟨h1, h2, _⟩ := btInsert_spec x s.t
      cases hp : (find x.key s.t).2 with
      | none =>
        refine ⟨by simp, ?_⟩
        intro s' o h
        cases h
        exact ⟨_, SpecStep.insHint (g.not_mem hx), good_insert g hx h1 (h2 g.sorted)⟩
      | some p =>
        simp only [btInsertAt_find_eq x g.ids_nodup hp]
        refine ⟨by simp, ?_⟩
        intro s' o h
        cases h
        exact ⟨_, SpecStep.insHint (g.not_mem hx), good_insert g hx h1 (h2 g.sorted)⟩
  | find k =>
    refine ⟨by simp [btStep], ?_⟩
    intro s' o h
    simp only [btStep, Except.ok.injEq, Prod.mk.injEq] at h
    obtain ⟨rfl, rfl⟩ := h
    cases hf : (find k s.t).1 with
    | some e =>
      obtain ⟨hm, hk⟩ := find_some hf
      exact ⟨held, SpecStep.findSome (g.perm.mem_iff.1 hm) hk, g⟩
    | none =>
      exact ⟨held, SpecStep.findNone (fun e he => find_none g.sorted hf e (g.perm.mem_iff.2 he)), g⟩
  | erase k =>
    simp only [btStep]
    cases he : btErase k s.t with
    | mk t' r =>
      cases r with
      | some e =>
        refine ⟨by simp, ?_⟩
        intro s' o h
        cases h
        obtain ⟨hm, hk, hp, hs, _⟩ := btErase_some he
        exact ⟨_, SpecStep.eraseSome (g.perm.mem_iff.1 hm) hk, good_erase g hp (hs g.sorted) hm⟩
      | none =>
        refine ⟨by simp, ?_⟩
        intro s' o h
        cases h
        have := btErase_none g.sorted (by rw [he])
        exact ⟨held, SpecStep.eraseNone (fun e hm => this.1 e (g.perm.mem_iff.2 hm)), g⟩
  | foreach fwd visit =>
    refine ⟨by simp [btStep], ?_⟩
    intro s' o h
    simp only [btStep, Except.ok.injEq, Prod.mk.injEq] at h
    obtain ⟨rfl, rfl⟩ := h
    exact ⟨held, SpecStep.foreach ((foreach_events fwd g.sorted).of_perm g.perm) (foreach_stop fwd visit s.t), g⟩
  | clear =>
    refine ⟨by simp [btStep], ?_⟩
    intro s' o h
    simp only [btStep, Except.ok.injEq, Prod.mk.injEq] at h
    obtain ⟨rfl, rfl⟩ := h
    exact ⟨[], SpecStep.clear ((clear_spec s.t).trans g.perm),
      ⟨by simp, by simp [Sorted], rfl, by simp⟩⟩

/-- the same for the red-black tree, given the red-black rules (C02) -/
theorem rbStep_refines {s : TS} {held : List Elem} (g : Good s held) (hi : Inv s.t) (op : Op) :
    rbStep s op ≠ .error .segv ∧
    ∀ s' o, rbStep s op = .ok (s', o) → ∃ held', SpecStep held op o held' ∧ Good s' held' := by
  refine ⟨(rbStep_inv hi op).1, ?_⟩
  cases op with
  | ins x =>
    simp only [rbStep]
    split
    · simp
    · rename_i hx
      intro s' o h
      split at h
      · rename_i t' ht
        cases h
        obtain ⟨h1, h2, _⟩ := rbInsert_spec ht
        exact ⟨_, SpecStep.ins (g.not_mem hx), good_insert g hx h1 (h2 g.sorted)⟩
      · cases h
  | insHint x =>
    simp only [rbStep]
    split
    · simp
    · rename_i hx
      intro s' o h
      cases hp : (find x.key s.t).2 with
      | none =>
        simp only [hp] at h
        split at h
        · rename_i t' ht
          cases h
          obtain ⟨h1, h2, _⟩ := rbInsert_spec ht
          exact ⟨_, SpecStep.insHint (g.not_mem hx), good_insert g hx h1 (h2 g.sorted)⟩
        · cases h
      | some p =>
        simp only [hp, rbInsertAt_find_eq x g.ids_nodup hp] at h
        split at h
        · rename_i t' ht
          simp only [Option.some.injEq] at ht
          cases h
          obtain ⟨h1, h2, _⟩ := rbInsert_spec ht
          exact ⟨_, SpecStep.insHint (g.not_mem hx), good_insert g hx h1 (h2 g.sorted)⟩
        · cases h
  | find k =>
    intro s' o h
    simp only [rbStep, Except.ok.injEq, Prod.mk.injEq] at h
    obtain ⟨rfl, rfl⟩ := h
    cases hf : (find k s.t).1 with
    | some e =>
      obtain ⟨hm, hk⟩ := find_some hf
      exact ⟨held, SpecStep.findSome (g.perm.mem_iff.1 hm) hk, g⟩
    | none =>
      exact ⟨held, SpecStep.findNone (fun e he => find_none g.sorted hf e (g.perm.mem_iff.2 he)), g⟩
  | erase k =>
    simp only [rbStep]
    intro s' o h
    split at h
    · cases h
    · rename_i t' e he
      cases h
      obtain ⟨hm, hk, hp, hs, _⟩ := rbErase_some he
      exact ⟨_, SpecStep.eraseSome (g.perm.mem_iff.1 hm) hk, good_erase g hp (hs g.sorted) hm⟩
    · rename_i t' he
      cases h
      have := rbErase_none g.sorted he
      exact ⟨held, SpecStep.eraseNone (fun e hm => this.1 e (g.perm.mem_iff.2 hm)), g⟩
  | foreach fwd visit =>
    intro s' o h
    simp only [rbStep, Except.ok.injEq, Prod.mk.injEq] at h
    obtain ⟨rfl, rfl⟩ := h
    exact ⟨held, SpecStep.foreach ((foreach_events fwd g.sorted).of_perm g.perm) (foreach_stop fwd visit s.t), g⟩
  | clear =>
    intro s' o h
    simp only [rbStep, Except.ok.injEq, Prod.mk.injEq] at h
    obtain ⟨rfl, rfl⟩ := h
    exact ⟨[], SpecStep.clear ((clear_spec s.t).trans g.perm),
      ⟨by simp, by simp [Sorted], rfl, by simp⟩⟩

theorem bt_runFrom_refines (ops : List Op) : ∀ (s : TS) (held : List Elem), Good s held →
    runFrom btStep s ops ≠ .error .segv ∧
    ∀ s' outs, runFrom btStep s ops = .ok (s', outs) →
      ∃ held', SpecRun held ops outs held' ∧ Good s' held' := by
  induction ops with
  | nil =>
    intro s held g
    refine ⟨by simp [runFrom], ?_⟩
    intro s' outs h
    simp only [runFrom, Except.ok.injEq, Prod.mk.injEq] at h
    obtain ⟨rfl, rfl⟩ := h
    exact ⟨held, SpecRun.nil, g⟩
  | cons op ops ih =>
    intro s held g
    obtain ⟨hne, hstep⟩ := btStep_refines g op
    constructor
    · intro he
      rcases runFrom_cons_error.1 he with h1 | ⟨s1, o, h1, h2⟩
      · exact hne h1
      · obtain ⟨held1, _, g1⟩ := hstep s1 o h1
        exact (ih s1 held1 g1).1 h2
    · intro s' outs h
      obtain ⟨s1, o, os, h1, h2, rfl⟩ := runFrom_cons_ok.1 h
      obtain ⟨held1, hs1, g1⟩ := hstep s1 o h1
      obtain ⟨held2, hs2, g2⟩ := (ih s1 held1 g1).2 s' os h2
      exact ⟨held2, SpecRun.cons hs1 hs2, g2⟩

theorem rb_runFrom_refines (ops : List Op) : ∀ (s : TS) (held : List Elem), Good s held → Inv s.t →
    runFrom rbStep s ops ≠ .error .segv ∧
    ∀ s' outs, runFrom rbStep s ops = .ok (s', outs) →
      ∃ held', SpecRun held ops outs held' ∧ Good s' held' := by
  induction ops with
  | nil =>
    intro s held g _
    refine ⟨by simp [runFrom], ?_⟩
    intro s' outs h
    simp only [runFrom, Except.ok.injEq, Prod.mk.injEq] at h
    obtain ⟨rfl, rfl⟩ := h
    exact ⟨held, SpecRun.nil, g⟩
  | cons op ops ih =>
    intro s held g hi
    obtain ⟨hne, hstep⟩ := rbStep_refines g hi op
    have hinv := (rbStep_inv hi op).2
    constructor
    · intro he
      rcases runFrom_cons_error.1 he with h1 | ⟨s1, o, h1, h2⟩
      · exact hne h1
      · obtain ⟨held1, _, g1⟩ := hstep s1 o h1
        exact (ih s1 held1 g1 (hinv s1 o h1)).1 h2
    · intro s' outs h
      obtain ⟨s1, o, os, h1, h2, rfl⟩ := runFrom_cons_ok.1 h
      obtain ⟨held1, hs1, g1⟩ := hstep s1 o h1
      obtain ⟨held2, hs2, g2⟩ := (ih s1 held1 g1 (hinv s1 o h1)).2 s' os h2
      exact ⟨held2, SpecRun.cons hs1 hs2, g2⟩

theorem good_init : Good {} [] := ⟨by simp, by simp [Sorted], rfl, by simp⟩

/-- every history on a binary tree (inserts of elements not currently held,
hinted or not; finds; erases; traversals in both directions with any visit
function; clears) runs without a NULL dereference, its outputs are those the
multiset specification allows, and the final tree holds exactly the specified
multiset, in order, with the right size -/
theorem bt_run_refines (ops : List Op) :
    btRun ops ≠ .error .segv ∧
    ∀ s outs, btRun ops = .ok (s, outs) → ∃ held, SpecRun [] ops outs held ∧ Good s held :=
  bt_runFrom_refines ops {} [] good_init

/-- the same for the red-black tree -/
theorem rb_run_refines (ops : List Op) :
    rbRun ops ≠ .error .segv ∧
    ∀ s outs, rbRun ops = .ok (s, outs) → ∃ held, SpecRun [] ops outs held ∧ Good s held :=
  rb_runFrom_refines ops {} [] good_init inv_nil

/-- a history stops with `badOp` only when the caller inserts an element that
the specification says is currently held -/
theorem bt_badOp_only_if_held {s : TS} {held : List Elem} (g : Good s held) {op : Op}
    (h : btStep s op = .error .badOp) : ∃ x, (op = .ins x ∨ op = .insHint x) ∧ x.id ∈ held.map (·.id) := by
  cases op with
  | ins x =>
    simp only [btStep] at h
    split at h
    · rename_i hx
      exact ⟨x, Or.inl rfl, (g.perm.map (·.id)).mem_iff.1 hx⟩
    · cases h
  | insHint x =>
    simp only [btStep] at h
    split at h
    · rename_i hx
      exact ⟨x, Or.inr rfl, (g.perm.map (·.id)).mem_iff.1 hx⟩
    · split at h
      · cases h
      · split at h <;> cases h
  | find k => simp [btStep] at h
  | erase k =>
    simp only [btStep] at h
    split at h <;> cases h
  | foreach fwd visit => simp [btStep] at h
  | clear => simp [btStep] at h

/-! ### non-vacuity -/

private def e (k : Int) (i : Nat) : Elem := { key := k, id := i }

/-- a tree with duplicates is ordered; its forward traversal satisfies the hypotheses -/
example : Sorted (node black (node black nil (e 1 2) nil) (e 1 1) (node black (node black nil (e 1 4) nil) (e 2 3) nil)) := by
  simp [Sorted, e]

/-- a history with duplicate keys, a hinted insert, erases (two-child root included),
a stopped traversal and a clear runs through and ends empty -/
example : ∃ s outs, btRun [.ins (e 1 1), .ins (e 0 2), .ins (e 2 3), .insHint (e 1 4), .erase 1, .find 1,
    .foreach true (fun i _ _ => if i = 2 then 7 else 0), .erase 5, .clear] = .ok (s, outs) ∧ s.size = 0 :=
  ⟨_, _, rfl, rfl⟩

example : ∃ s outs, rbRun [.ins (e 1 1), .ins (e 0 2), .ins (e 2 3), .insHint (e 1 4), .erase 1, .find 1,
    .foreach false (fun i _ _ => if i = 2 then 7 else 0), .erase 5] = .ok (s, outs) ∧ s.size = 3 :=
  ⟨_, _, rfl, rfl⟩

/-- the stop rule distinguishes: a traversal that ignored a non-zero result would not satisfy it -/
example : ¬ StopRule (fun i _ _ => if i = 0 then 7 else 0) [(e 1 1, Ord.leaf), (e 2 2, Ord.leaf)] 0
    [(e 1 1, Ord.leaf), (e 2 2, Ord.leaf)] := by
  intro h
  rcases h with ⟨_, _, hz⟩ | ⟨k, _, _, hnz, hr, _⟩
  · have := hz 0 (by simp); simp [visitAt] at this
  · exact hnz hr.symm

end Cstl.Tree
