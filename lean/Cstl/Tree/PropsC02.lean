import Cstl.Tree.Inv
import Cstl.Tree.Lemmas
import Cstl.Tree.History
/-
C02 — red-black trees satisfy the red-black rules after every insert and erase.

`Inv t` (Inv.lean) is the header's wording: the root is black, no red node has a
red child, every path from the root to a missing child crosses the same number
of black nodes.  Property theorems only; the work is in Bal.lean / Inv.lean.
-/
namespace Cstl.Tree
open Color Tree

/-- insert never dereferences NULL on a red-black tree and re-establishes the rules -/
theorem rbInsert_inv (x : Elem) {t : Tree} (h : Inv t) : ∃ t', rbInsert x t = some t' ∧ Inv t' := by
  obtain ⟨n, hb⟩ := (inv_iff_bal t).1 h
  obtain ⟨t', m, ht', hb'⟩ := finishIns_ok (ins_ok x hb)
  exact ⟨t', ht', (inv_iff_bal t').2 ⟨m, hb'⟩⟩

/-- the same for an insert whose descent starts at any node of the tree -/
theorem rbInsertAt_inv (x : Elem) {t : Tree} {hint : Nat} (h : Inv t) (hm : hint ∈ t.ids) :
    ∃ t', rbInsertAt hint x t = some (some t') ∧ Inv t' := by
  obtain ⟨n, hb⟩ := (inv_iff_bal t).1 h
  obtain ⟨res, hres⟩ := insAt_isSome x hm
  obtain ⟨t', m, ht', hb'⟩ := finishIns_ok (insAt_ok hint x hb res hres)
  exact ⟨t', by simp [rbInsertAt, hres, ht'], (inv_iff_bal t').2 ⟨m, hb'⟩⟩

/-- erase never reads the colour of a missing sibling (`sibling_exists`) and
re-establishes the rules -/
theorem rbErase_inv (k : Int) {t : Tree} (h : Inv t) :
    ∃ t' r, rbErase k t = some (t', r) ∧ Inv t' := by
  obtain ⟨n, hb⟩ := (inv_iff_bal t).1 h
  unfold rbErase
  cases hf : (find k t).1 with
  | none => exact ⟨t, none, rfl, h⟩
  | some e =>
    obtain ⟨res, hres, hok⟩ := del_ok k hb
    cases hok with
    | @full t' _ c' _ hb' hc =>
      have := hc rfl
      subst this
      exact ⟨t', some e, by simp [hres], (inv_iff_bal t').2 ⟨_, hb'⟩⟩
    | @short t' m hb' =>
      exact ⟨t'.blacken, some e, by simp [hres], (inv_iff_bal _).2 ⟨_, hb'.blacken_black⟩⟩

theorem sibling_exists (k : Int) {t : Tree} (h : Inv t) : rbErase k t ≠ none := by
  obtain ⟨t', r, ht, _⟩ := rbErase_inv k h
  simp [ht]

/-- `height` = nodes on the longest root-to-leaf path (what cstl_rbtree_height
reports as max), `size` = number of elements -/
theorem height_bound {t : Tree} (h : Inv t) : 2 ^ ((t.height + 1) / 2) ≤ t.size + 1 := by
  obtain ⟨n, hb⟩ := (inv_iff_bal t).1 h
  have h1 := hb.size_ge
  have h2 := hb.height_le
  simp at h2
  have : (t.height + 1) / 2 ≤ n := by omega
  exact Nat.le_trans (Nat.pow_le_pow_right (by omega) this) h1

/-- the same bound in the form `height ≤ 2·log2(size+1)` -/
theorem height_log_bound {t : Tree} (h : Inv t) : 2 ^ t.height ≤ (t.size + 1) ^ 2 := by
  obtain ⟨n, hb⟩ := (inv_iff_bal t).1 h
  have h1 := hb.size_ge
  have h2 := hb.height_le
  simp at h2
  calc 2 ^ t.height ≤ 2 ^ (2 * n) := Nat.pow_le_pow_right (by omega) h2
    _ = (2 ^ n) ^ 2 := by rw [Nat.mul_comm, Nat.pow_mul]
    _ ≤ (t.size + 1) ^ 2 := Nat.pow_le_pow_left h1 2

theorem inv_nil : Inv nil := (inv_iff_bal nil).2 ⟨0, Bal.nil⟩

/-- one operation of a history: no NULL dereference, rules kept -/
theorem rbStep_inv {s : TS} (h : Inv s.t) (op : Op) :
    rbStep s op ≠ .error .segv ∧ ∀ s' o, rbStep s op = .ok (s', o) → Inv s'.t := by
  cases op with
  | ins x =>
    obtain ⟨t', ht', hi⟩ := rbInsert_inv x h
    simp only [rbStep]
    split
    · simp
    · simp only [ht']
      refine ⟨by simp, ?_⟩
      intro s' o hs
      cases hs
      exact hi
  | insHint x =>
    simp only [rbStep]
    split
    · simp
    · cases hp : (find x.key s.t).2 with
      | none =>
        obtain ⟨t', ht', hi⟩ := rbInsert_inv x h
        simp only [ht']
        refine ⟨by simp, ?_⟩
        intro s' o hs
        cases hs
        exact hi
      | some p =>
        have hm : p.id ∈ s.t.ids := mem_ids.2 ⟨p, find_par_mem hp, rfl⟩
        obtain ⟨t', ht', hi⟩ := rbInsertAt_inv x h hm
        simp only [ht']
        refine ⟨by simp, ?_⟩
        intro s' o hs
        cases hs
        exact hi
  | find k =>
    refine ⟨by simp [rbStep], ?_⟩
    intro s' o hs
    simp [rbStep] at hs
    rw [← hs.1]; exact h
  | erase k =>
    obtain ⟨t', r, ht', hi⟩ := rbErase_inv k h
    simp only [rbStep, ht']
    cases r with
    | none =>
      refine ⟨by simp, ?_⟩
      intro s' o hs
      cases hs
      exact h
    | some e =>
      refine ⟨by simp, ?_⟩
      intro s' o hs
      cases hs
      exact hi
  | foreach fwd visit =>
    refine ⟨by simp [rbStep], ?_⟩
    intro s' o hs
    simp [rbStep] at hs
    rw [← hs.1]; exact h
  | clear =>
    refine ⟨by simp [rbStep], ?_⟩
    intro s' o hs
    simp [rbStep] at hs
    rw [← hs.1]; exact inv_nil

theorem rb_runFrom_inv (ops : List Op) : ∀ s : TS, Inv s.t →
    runFrom rbStep s ops ≠ .error .segv ∧
    ∀ s' outs, runFrom rbStep s ops = .ok (s', outs) → Inv s'.t := by
  induction ops with
  | nil =>
    intro s h
    refine ⟨by simp [runFrom], ?_⟩
    intro s' outs hs
    simp [runFrom] at hs
    rw [← hs.1]; exact h
  | cons op ops ih =>
    intro s h
    obtain ⟨hne, hstep⟩ := rbStep_inv h op
    constructor
    · intro he
      rcases runFrom_cons_error.1 he with h1 | ⟨s1, o, h1, h2⟩
      · exact hne h1
      · exact (ih s1 (hstep s1 o h1)).1 h2
    · intro s' outs hs
      obtain ⟨s1, o, os, h1, h2, _⟩ := runFrom_cons_ok.1 hs
      exact (ih s1 (hstep s1 o h1)).2 s' os h2

/-- every state reachable by any history of inserts (hinted or not), finds,
erases, traversals and clears satisfies the red-black rules -/
theorem run_inv (ops : List Op) : ∀ s outs, rbRun ops = .ok (s, outs) → Inv s.t :=
  (rb_runFrom_inv ops {} inv_nil).2

/-- and no such history makes the code dereference NULL -/
theorem run_no_segv (ops : List Op) : rbRun ops ≠ .error .segv :=
  (rb_runFrom_inv ops {} inv_nil).1

/-- consequently the height bound holds in every reachable state -/
theorem run_height_bound (ops : List Op) : ∀ s outs, rbRun ops = .ok (s, outs) →
    2 ^ s.t.height ≤ (s.t.size + 1) ^ 2 :=
  fun s outs h => height_log_bound (run_inv ops s outs h)

/-! ### non-vacuity: concrete states and histories -/

private def e (k : Int) (i : Nat) : Elem := { key := k, id := i }

/-- a five-element tree with a red node below a black root satisfies the rules -/
example : Inv (node black (node red (node black nil (e 0 4) nil) (e 1 2) (node black nil (e 1 5) nil))
    (e 2 1) (node black nil (e 3 3) nil)) := by
  refine (inv_iff_bal _).2 ⟨2, ?_⟩
  exact Bal.black (Bal.red (Bal.black Bal.nil Bal.nil) (Bal.black Bal.nil Bal.nil)) (Bal.black Bal.nil Bal.nil)

/-- a history with duplicates, a hinted insert and erases runs to the end -/
example : ∃ s outs, rbRun [.ins (e 1 1), .ins (e 1 2), .insHint (e 0 3), .ins (e 2 4), .erase 1,
    .ins (e 1 5), .erase 0, .erase 7] = .ok (s, outs) ∧ s.t.size = 3 := by
  refine ⟨_, _, rfl, ?_⟩
  decide

/-- the rules are not trivially true: a red root, a red-red pair, unequal black heights -/
example : ¬ Inv (node red nil (e 0 1) nil) := by
  intro h; simpa [Inv, RootBlack] using h.1
example : ¬ Inv (node black (node red (node red nil (e 0 3) nil) (e 1 2) nil) (e 2 1) nil) := by
  intro h; have := h.2.1; simp [NoRedRed, Tree.isRed] at this
example : ¬ Inv (node black (node black nil (e 0 2) nil) (e 1 1) nil) := by
  intro h
  obtain ⟨n, hn⟩ := h.2.2
  have h1 := hn 2 (by simp [blackCounts])
  have h2 := hn 1 (by simp [blackCounts])
  omega

end Cstl.Tree
