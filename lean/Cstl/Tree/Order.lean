import Cstl.Tree.Lemmas
/-
In-order sequence of the binary-tree and red-black operations (helper lemmas
for C01 / C08): every operation changes `inorder` exactly like the
corresponding list operation; rotations and recolouring do not change it.
-/
namespace Cstl.Tree
open Color Tree

/-- in-order keys are non-decreasing -/
def Sorted (t : Tree) : Prop := t.inorder.Pairwise (fun a b => a.key ≤ b.key)

/-! ### bintree insert -/

theorem btIns_inorder (x : Elem) (t : Tree) :
    ∃ l₁ l₂, t.inorder = l₁ ++ l₂ ∧ (btIns x t).inorder = l₁ ++ x :: l₂ := by
  induction t with
  | nil => exact ⟨[], [], rfl, rfl⟩
  | node c l e r ihl ihr =>
    simp only [btIns]
    split
    · obtain ⟨a, b, h1, h2⟩ := ihl
      exact ⟨a, b ++ e :: r.inorder, by simp [h1], by simp [h2]⟩
    · obtain ⟨a, b, h1, h2⟩ := ihr
      exact ⟨l.inorder ++ e :: a, b, by simp [h1], by simp [h2]⟩

theorem btIns_perm (x : Elem) (t : Tree) : (btIns x t).inorder.Perm (x :: t.inorder) := by
  obtain ⟨a, b, h1, h2⟩ := btIns_inorder x t
  rw [h1, h2]
  exact List.perm_middle

theorem mem_btIns {x a : Elem} {t : Tree} : a ∈ (btIns x t).inorder ↔ a = x ∨ a ∈ t.inorder := by
  rw [(btIns_perm x t).mem_iff]; simp

theorem btIns_sorted (x : Elem) {t : Tree} (h : Sorted t) : Sorted (btIns x t) := by
  induction t with
  | nil => simp [Sorted, btIns]
  | node c l e r ihl ihr =>
    simp only [Sorted, inorder_node, List.pairwise_append, List.pairwise_cons, List.mem_cons] at h
    obtain ⟨hl, ⟨her, hr⟩, hlr⟩ := h
    simp only [btIns]
    split
    · rename_i hlt
      simp only [Sorted, inorder_node, List.pairwise_append, List.pairwise_cons, List.mem_cons]
      refine ⟨ihl hl, ⟨her, hr⟩, ?_⟩
      intro a ha b hb
      rcases mem_btIns.1 ha with rfl | ha
      · rcases hb with rfl | hb
        · omega
        · have := her b hb; omega
      · exact hlr a ha b hb
    · rename_i hge
      simp only [Sorted, inorder_node, List.pairwise_append, List.pairwise_cons, List.mem_cons]
      refine ⟨hl, ⟨?_, ihr hr⟩, ?_⟩
      · intro a ha
        rcases mem_btIns.1 ha with rfl | ha
        · omega
        · exact her a ha
      · intro a ha b hb
        rcases hb with rfl | hb
        · exact hlr a ha b (Or.inl rfl)
        · rcases mem_btIns.1 hb with rfl | hb
          · have := hlr a ha e (Or.inl rfl); omega
          · exact hlr a ha b (Or.inr hb)

/-! ### find -/

theorem findAux_some {k : Int} {t : Tree} {e : Elem} : ∀ {p : Option Elem},
    (findAux k p t).1 = some e → e ∈ t.inorder ∧ e.key = k := by
  induction t with
  | nil => intro p h; simp [findAux] at h
  | node c l e' r ihl ihr =>
    intro p h
    simp only [findAux] at h
    split at h
    · rename_i hk
      simp at h; subst h
      exact ⟨by simp, hk.symm⟩
    · split at h
      · obtain ⟨h1, h2⟩ := ihl h; exact ⟨by simp [h1], h2⟩
      · obtain ⟨h1, h2⟩ := ihr h; exact ⟨by simp [h1], h2⟩

theorem findAux_none {k : Int} {t : Tree} (hs : Sorted t) : ∀ {p : Option Elem},
    (findAux k p t).1 = none → ∀ e ∈ t.inorder, e.key ≠ k := by
  induction t with
  | nil => intro p _ e he; simp at he
  | node c l e' r ihl ihr =>
    intro p h
    simp only [Sorted, inorder_node, List.pairwise_append, List.pairwise_cons, List.mem_cons] at hs
    obtain ⟨hl, ⟨her, hr⟩, hlr⟩ := hs
    simp only [findAux] at h
    split at h
    · simp at h
    · rename_i hne
      split at h
      · rename_i hlt
        intro e he
        simp only [inorder_node, List.mem_append, List.mem_cons] at he
        rcases he with he | rfl | he
        · exact ihl hl h e he
        · omega
        · have := her e he; omega
      · rename_i hge
        intro e he
        simp only [inorder_node, List.mem_append, List.mem_cons] at he
        rcases he with he | rfl | he
        · have := hlr e he e' (Or.inl rfl); omega
        · omega
        · exact ihr hr h e he

theorem find_some {k : Int} {t : Tree} {e : Elem} (h : (find k t).1 = some e) : e ∈ t.inorder ∧ e.key = k :=
  findAux_some h

theorem find_none {k : Int} {t : Tree} (hs : Sorted t) (h : (find k t).1 = none) : ∀ e ∈ t.inorder, e.key ≠ k :=
  findAux_none hs h

/-! ### bintree erase -/

theorem btPopMin_none {t : Tree} : btPopMin t = none ↔ t = nil := by
  cases t with
  | nil => simp [btPopMin]
  | node c l e r =>
    simp only [btPopMin]
    split <;> simp

theorem btPopMin_some {t t' : Tree} {m : Elem} (h : btPopMin t = some (m, t')) : t.inorder = m :: t'.inorder := by
  induction t generalizing m t' with
  | nil => simp [btPopMin] at h
  | node c l e r ihl _ =>
    simp only [btPopMin] at h
    split at h
    · rename_i hn
      have := btPopMin_none.1 hn
      subst this
      simp at h
      obtain ⟨rfl, rfl⟩ := h
      simp
    · rename_i m' l' hs
      simp at h
      obtain ⟨rfl, rfl⟩ := h
      simp [ihl hs]

theorem btEraseRoot_inorder (c : Color) (l : Tree) (e : Elem) (r : Tree) :
    (btEraseRoot c l e r).inorder = l.inorder ++ r.inorder := by
  unfold btEraseRoot
  split
  · simp
  · split
    · rename_i hn
      have := btPopMin_none.1 hn
      subst this
      simp
    · rename_i m r' hs
      simp [btPopMin_some hs]

theorem btDel_inorder {k : Int} {t : Tree} {e : Elem} : ∀ {p : Option Elem}, (findAux k p t).1 = some e →
    ∃ l₁ l₂, t.inorder = l₁ ++ e :: l₂ ∧ (btDel k t).inorder = l₁ ++ l₂ := by
  induction t with
  | nil => intro p h; simp [findAux] at h
  | node c l e' r ihl ihr =>
    intro p h
    simp only [findAux] at h
    simp only [btDel]
    split at h
    · simp at h; subst h
      exact ⟨l.inorder, r.inorder, rfl, by simp [btEraseRoot_inorder, *]⟩
    · rename_i hne
      simp only [hne, if_false]
      split at h
      · obtain ⟨a, b, h1, h2⟩ := ihl h
        exact ⟨a, b ++ e' :: r.inorder, by simp [h1], by simp [*]⟩
      · obtain ⟨a, b, h1, h2⟩ := ihr h
        exact ⟨l.inorder ++ e' :: a, b, by simp [h1], by simp [*]⟩

/-! ### red-black insert: same in-order sequence as the plain insert -/

@[simp] theorem InsRes.tree_ok (t : Tree) : (InsRes.ok t).tree = t := rfl

theorem balInsL_inorder (c : Color) (res : InsRes) (e : Elem) (r : Tree) :
    (balInsL c res e r).tree.inorder = res.tree.inorder ++ e :: r.inorder := by
  cases res with
  | ok t => simp [balInsL, InsRes.tree]
  | newRed a x b => cases c <;> simp [balInsL, InsRes.tree]
  | redRedL a x b p pr =>
    simp only [balInsL]
    split <;> simp [InsRes.tree]
  | redRedR pl p b x c' =>
    simp only [balInsL]
    split <;> simp [InsRes.tree]

theorem balInsR_inorder (c : Color) (l : Tree) (e : Elem) (res : InsRes) :
    (balInsR c l e res).tree.inorder = l.inorder ++ e :: res.tree.inorder := by
  cases res with
  | ok t => simp [balInsR, InsRes.tree]
  | newRed a x b => cases c <;> simp [balInsR, InsRes.tree]
  | redRedL a x b p pr =>
    simp only [balInsR]
    split <;> simp [InsRes.tree]
  | redRedR pl p b x c' =>
    simp only [balInsR]
    split <;> simp [InsRes.tree]

theorem ins_inorder (x : Elem) (t : Tree) : (ins x t).tree.inorder = (btIns x t).inorder := by
  induction t with
  | nil => simp [ins, btIns, InsRes.tree]
  | node c l e r ihl ihr =>
    simp only [ins, btIns]
    split
    · simp [balInsL_inorder, ihl]
    · simp [balInsR_inorder, ihr]

theorem finishIns_inorder {res : InsRes} {t' : Tree} (h : finishIns res = some t') :
    t'.inorder = res.tree.inorder := by
  cases res with
  | ok t => simp [finishIns] at h; subst h; simp
  | newRed a x b => simp [finishIns] at h; subst h; simp [InsRes.tree]
  | redRedL a x b p pr => simp [finishIns] at h
  | redRedR pl p b x c' => simp [finishIns] at h

theorem rbInsert_inorder {x : Elem} {t t' : Tree} (h : rbInsert x t = some t') :
    t'.inorder = (btIns x t).inorder := by
  rw [finishIns_inorder h, ins_inorder]

/-! ### hints -/

theorem btInsAt_none {h : Nat} (x : Elem) {t : Tree} (hm : h ∉ t.ids) : btInsAt h x t = none := by
  induction t with
  | nil => rfl
  | node c l e r ihl ihr =>
    simp only [ids_node, List.mem_append, List.mem_cons, not_or] at hm
    obtain ⟨h1, h2, h3⟩ := hm
    simp [btInsAt, ihl h1, ihr h3, Ne.symm h2]

theorem insAt_none {h : Nat} (x : Elem) {t : Tree} (hm : h ∉ t.ids) : insAt h x t = none := by
  induction t with
  | nil => rfl
  | node c l e r ihl ihr =>
    simp only [ids_node, List.mem_append, List.mem_cons, not_or] at hm
    obtain ⟨h1, h2, h3⟩ := hm
    simp [insAt, ihl h1, ihr h3, Ne.symm h2]

theorem btInsAt_some_mem {h : Nat} {x : Elem} {t t' : Tree} (hs : btInsAt h x t = some t') : h ∈ t.ids := by
  apply Classical.byContradiction
  intro hn
  rw [btInsAt_none x hn] at hs
  cases hs

theorem insAt_some_mem {h : Nat} {x : Elem} {t : Tree} {res : InsRes} (hs : insAt h x t = some res) : h ∈ t.ids := by
  apply Classical.byContradiction
  intro hn
  rw [insAt_none x hn] at hs
  cases hs

/-- a hint taken from `find` makes the hinted insert the plain insert -/
theorem btInsAt_findAux (x : Elem) {t : Tree} (hnd : t.ids.Nodup) : ∀ p₀ : Option Elem,
    (findAux x.key p₀ t).2 = p₀ ∨
    ∃ q, (findAux x.key p₀ t).2 = some q ∧ btInsAt q.id x t = some (btIns x t) := by
  induction t with
  | nil => intro p₀; simp [findAux]
  | node c l e r ihl ihr =>
    intro p₀
    simp only [ids_node, List.nodup_append, List.nodup_cons, List.mem_cons] at hnd
    obtain ⟨hnl, ⟨her, hnr⟩, hdis⟩ := hnd
    simp only [findAux]
    split
    · simp
    · rename_i hne
      split
      · rename_i hlt
        right
        rcases ihl hnl (some e) with h | ⟨q, hq, hi⟩
        · exact ⟨e, h, by simp [btInsAt]⟩
        · refine ⟨q, hq, ?_⟩
          simp only [btInsAt]
          split
          · rfl
          · simp [hi, btIns, hlt]
      · rename_i hge
        right
        rcases ihr hnr (some e) with h | ⟨q, hq, hi⟩
        · exact ⟨e, h, by simp [btInsAt]⟩
        · refine ⟨q, hq, ?_⟩
          have hqr : q.id ∈ r.ids := btInsAt_some_mem hi
          have hql : q.id ∉ l.ids := fun hm => hdis _ hm _ (Or.inr hqr) rfl
          simp only [btInsAt]
          split
          · rfl
          · simp [btInsAt_none x hql, hi, btIns, hge]

theorem insAt_findAux (x : Elem) {t : Tree} (hnd : t.ids.Nodup) : ∀ p₀ : Option Elem,
    (findAux x.key p₀ t).2 = p₀ ∨
    ∃ q, (findAux x.key p₀ t).2 = some q ∧ insAt q.id x t = some (ins x t) := by
  induction t with
  | nil => intro p₀; simp [findAux]
  | node c l e r ihl ihr =>
    intro p₀
    simp only [ids_node, List.nodup_append, List.nodup_cons, List.mem_cons] at hnd
    obtain ⟨hnl, ⟨her, hnr⟩, hdis⟩ := hnd
    simp only [findAux]
    split
    · simp
    · rename_i hne
      split
      · rename_i hlt
        right
        rcases ihl hnl (some e) with h | ⟨q, hq, hi⟩
        · exact ⟨e, h, by simp [insAt]⟩
        · refine ⟨q, hq, ?_⟩
          simp only [insAt]
          split
          · rfl
          · simp [hi, ins, hlt]
      · rename_i hge
        right
        rcases ihr hnr (some e) with h | ⟨q, hq, hi⟩
        · exact ⟨e, h, by simp [insAt]⟩
        · refine ⟨q, hq, ?_⟩
          have hqr : q.id ∈ r.ids := insAt_some_mem hi
          have hql : q.id ∉ l.ids := fun hm => hdis _ hm _ (Or.inr hqr) rfl
          simp only [insAt]
          split
          · rfl
          · simp [insAt_none x hql, hi, ins, hge]

end Cstl.Tree
