import Cstl.Tree.Model
/-
Basic facts about the functional tree: in-order sequence, identities, find.
-/
namespace Cstl.Tree
open Color Tree

@[simp] theorem inorder_nil : Tree.nil.inorder = [] := rfl
@[simp] theorem inorder_node (c : Color) (l : Tree) (e : Elem) (r : Tree) :
    (node c l e r).inorder = l.inorder ++ e :: r.inorder := rfl

@[simp] theorem ids_nil : Tree.nil.ids = [] := rfl
@[simp] theorem ids_node (c : Color) (l : Tree) (e : Elem) (r : Tree) :
    (node c l e r).ids = l.ids ++ e.id :: r.ids := by simp [Tree.ids]

theorem mem_ids {t : Tree} {h : Nat} : h ∈ t.ids ↔ ∃ e ∈ t.inorder, e.id = h := by
  simp [Tree.ids]

theorem size_eq_length (t : Tree) : t.size = t.inorder.length := by
  induction t with
  | nil => rfl
  | node c l e r ihl ihr => simp [Tree.size, ihl, ihr]; omega

@[simp] theorem inorder_blacken (t : Tree) : t.blacken.inorder = t.inorder := by
  cases t <;> rfl

@[simp] theorem size_blacken (t : Tree) : t.blacken.size = t.size := by
  cases t <;> rfl

@[simp] theorem height_blacken (t : Tree) : t.blacken.height = t.height := by
  cases t <;> rfl

/-- the node `find` reports as parent is the one handed in or a node of the tree -/
theorem findAux_par (k : Int) (t : Tree) : ∀ p : Option Elem,
    (findAux k p t).2 = p ∨ ∃ q, (findAux k p t).2 = some q ∧ q ∈ t.inorder := by
  induction t with
  | nil => intro p; simp [findAux]
  | node c l e r ihl ihr =>
    intro p
    simp only [findAux]
    split
    · simp
    · split
      · rcases ihl (some e) with h | ⟨q, hq, hm⟩
        · exact Or.inr ⟨e, h, by simp⟩
        · exact Or.inr ⟨q, hq, by simp [hm]⟩
      · rcases ihr (some e) with h | ⟨q, hq, hm⟩
        · exact Or.inr ⟨e, h, by simp⟩
        · exact Or.inr ⟨q, hq, by simp [hm]⟩

theorem find_par_mem {k : Int} {t : Tree} {p : Elem} (h : (find k t).2 = some p) : p ∈ t.inorder := by
  rcases findAux_par k t none with h' | ⟨q, hq, hm⟩
  · simp [find] at h; simp [h] at h'
  · simp [find] at h; rw [h] at hq; cases hq; exact hm

/-- the element `find` returns does not depend on the parent handed in -/
theorem findAux_fst (k : Int) (t : Tree) : ∀ p q : Option Elem, (findAux k p t).1 = (findAux k q t).1 := by
  induction t with
  | nil => intro p q; rfl
  | node c l e r ihl ihr =>
    intro p q
    simp only [findAux]
    split
    · rfl
    · split
      · exact ihl _ _
      · exact ihr _ _

theorem insAt_isSome {h : Nat} (x : Elem) {t : Tree} (hm : h ∈ t.ids) : ∃ res, insAt h x t = some res := by
  induction t with
  | nil => simp at hm
  | node c l e r ihl ihr =>
    simp only [insAt]
    split
    · exact ⟨_, rfl⟩
    · rename_i hne
      simp only [ids_node, List.mem_append, List.mem_cons] at hm
      cases hl : insAt h x l with
      | some res => exact ⟨_, rfl⟩
      | none =>
        rcases hm with hm | hm | hm
        · obtain ⟨res, hres⟩ := ihl hm; simp [hres] at hl
        · exact absurd hm.symm hne
        · obtain ⟨res, hres⟩ := ihr hm
          simp [hres]

theorem btInsAt_isSome {h : Nat} (x : Elem) {t : Tree} (hm : h ∈ t.ids) : ∃ t', btInsAt h x t = some t' := by
  induction t with
  | nil => simp at hm
  | node c l e r ihl ihr =>
    simp only [btInsAt]
    split
    · exact ⟨_, rfl⟩
    · rename_i hne
      simp only [ids_node, List.mem_append, List.mem_cons] at hm
      cases hl : btInsAt h x l with
      | some res => exact ⟨_, rfl⟩
      | none =>
        rcases hm with hm | hm | hm
        · obtain ⟨res, hres⟩ := ihl hm; simp [hres] at hl
        · exact absurd hm.symm hne
        · obtain ⟨res, hres⟩ := ihr hm
          simp [hres]

end Cstl.Tree
