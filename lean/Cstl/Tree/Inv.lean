import Cstl.Tree.Bal
/-
The red-black rules as the header states them, read directly off the tree
(no reference to `Bal`), and their equivalence with the inductive `Bal`.
-/
namespace Cstl.Tree
open Color Tree

/-- the root is black (an empty tree has no root) -/
def RootBlack : Tree → Prop
  | nil => True
  | node c _ _ _ => c = black

/-- no red node has a red child -/
def NoRedRed : Tree → Prop
  | nil => True
  | node c l _ r => (c = red → l.isRed = false ∧ r.isRed = false) ∧ NoRedRed l ∧ NoRedRed r

/-- for every path from the root down to a missing child, the number of black
nodes it crosses -/
def blackCounts : Tree → List Nat
  | nil => [0]
  | node c l _ r => (blackCounts l ++ blackCounts r).map (· + (if c = black then 1 else 0))

/-- every such path crosses the same number of black nodes -/
def UniformBlack (t : Tree) : Prop := ∃ n, ∀ m ∈ blackCounts t, m = n

/-- the red-black rules of include/cstl/rbtree.h -/
def Inv (t : Tree) : Prop := RootBlack t ∧ NoRedRed t ∧ UniformBlack t

theorem blackCounts_ne_nil (t : Tree) : blackCounts t ≠ [] := by
  cases t with
  | nil => simp [blackCounts]
  | node c l e r =>
    have := blackCounts_ne_nil l
    simp [blackCounts, this]

theorem Bal.rules {t : Tree} {c : Color} {n : Nat} (h : Bal t c n) :
    NoRedRed t ∧ (∀ m ∈ blackCounts t, m = n) ∧ (t.isRed = true ↔ c = Color.red) := by
  induction h with
  | nil => simp [NoRedRed, blackCounts, Tree.isRed]
  | red hl hr ihl ihr =>
    refine ⟨⟨fun _ => ⟨?_, ?_⟩, ihl.1, ihr.1⟩, ?_, by simp [Tree.isRed]⟩
    · have := ihl.2.2; cases h : Tree.isRed _ <;> simp_all
    · have := ihr.2.2; cases h : Tree.isRed _ <;> simp_all
    · intro m hm
      simp only [blackCounts, List.mem_map, List.mem_append] at hm
      obtain ⟨a, ha, rfl⟩ := hm
      rcases ha with ha | ha
      · simp [ihl.2.1 a ha]
      · simp [ihr.2.1 a ha]
  | black hl hr ihl ihr =>
    refine ⟨⟨by simp, ihl.1, ihr.1⟩, ?_, by simp [Tree.isRed]⟩
    intro m hm
    simp only [blackCounts, List.mem_map, List.mem_append] at hm
    obtain ⟨a, ha, rfl⟩ := hm
    rcases ha with ha | ha
    · simp [ihl.2.1 a ha]
    · simp [ihr.2.1 a ha]

theorem bal_of_rules : ∀ (t : Tree) (n : Nat), NoRedRed t → (∀ m ∈ blackCounts t, m = n) →
    ∃ c, Bal t c n ∧ (t.isRed = true ↔ c = red) := by
  intro t
  induction t with
  | nil =>
    intro n _ h
    have : n = 0 := (h 0 (by simp [blackCounts])).symm
    subst this
    exact ⟨black, Bal.nil, by simp [Tree.isRed]⟩
  | node c l e r ihl ihr =>
    intro n hrr hb
    obtain ⟨hc, hrl, hrrr⟩ := hrr
    -- pick a path of the left subtree to name the children's black height
    obtain ⟨m0, hm0⟩ := List.exists_mem_of_ne_nil _ (blackCounts_ne_nil l)
    have hl : ∀ m ∈ blackCounts l, m + (if c = black then 1 else 0) = n := by
      intro m hm
      exact hb _ (by simp only [blackCounts, List.mem_map, List.mem_append]; exact ⟨m, Or.inl hm, rfl⟩)
    have hr : ∀ m ∈ blackCounts r, m + (if c = black then 1 else 0) = n := by
      intro m hm
      exact hb _ (by simp only [blackCounts, List.mem_map, List.mem_append]; exact ⟨m, Or.inr hm, rfl⟩)
    have h0 := hl m0 hm0
    obtain ⟨cl, hbl, hcl⟩ := ihl m0 hrl (fun m hm => by have := hl m hm; omega)
    obtain ⟨cr, hbr, hcr⟩ := ihr m0 hrrr (fun m hm => by have := hr m hm; omega)
    cases c with
    | red =>
      obtain ⟨h1, h2⟩ := hc rfl
      have : cl = black := by cases cl <;> simp_all
      subst this
      have : cr = black := by cases cr <;> simp_all
      subst this
      simp at h0
      subst h0
      exact ⟨red, Bal.red hbl hbr, by simp [Tree.isRed]⟩
    | black =>
      simp at h0
      subst h0
      exact ⟨black, Bal.black hbl hbr, by simp [Tree.isRed]⟩

/-- the header's rules hold iff the tree is balanced with a black root -/
theorem inv_iff_bal (t : Tree) : Inv t ↔ ∃ n, Bal t black n := by
  constructor
  · rintro ⟨hroot, hrr, n, hn⟩
    obtain ⟨c, hb, hc⟩ := bal_of_rules t n hrr hn
    cases c with
    | black => exact ⟨n, hb⟩
    | red =>
      cases hb
      simp [RootBlack] at hroot
  · rintro ⟨n, hb⟩
    obtain ⟨h1, h2, _⟩ := hb.rules
    refine ⟨?_, h1, n, h2⟩
    cases hb <;> simp [RootBlack]

end Cstl.Tree
