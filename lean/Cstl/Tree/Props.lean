import Cstl.Tree.Model
