/-
Property theorems of the tree area (bintree.c, rbtree.c, map.c).

  PropsC01.lean  C01: ordered trees hold exactly the inserted-minus-erased multiset, in order
                 (binary tree and red-black tree; traversal; stop rule; histories)
  PropsC02.lean  C02: red-black rules after every insert and erase; height bound; histories
  PropsSwap.lean C01/C02: histories over two trees with swap (pair of multisets; rules for both trees)
  PropsC08.lean  C08: the map keeps exactly one entry per key; allocation ledger; histories
                 (C15, tree/map part: clear_spec, clear_reinit, clearTrace_*, mapClear_spec)

Helper lemmas: Lemmas, Order, OrderDel, Events (C01), Bal, Inv (C02), MapLemmas (C08);
History.lean defines the operation histories the `run_*` theorems quantify over.
-/
import Cstl.Tree.PropsC02
import Cstl.Tree.PropsC01
import Cstl.Tree.PropsC08
import Cstl.Tree.PropsSwap
