import Cstl.Base.Driver
import Cstl.Tree.Model
import Cstl.Tree.History
/-
Driver for the tree area: a binary tree `bt`, a red-black tree `rb` (each with
its own element pool, ids 1..) and a map `map`.  Same line protocol and state
dump as harness/tree.c.  Only the container an operation addresses is dumped.

  mode full|hash                       dump the full shape, or a 64-bit digest of it
  bt|rb ins <id> <key>                 insert(e, NULL)   (id 0 = lowest id not in the tree)
  bt|rb insh <id> <key>                find(key, &par); insert(e, par)
  bt|rb insat <id> <key> <hint>        insert(e, hint)  (hint must be in the tree)
  bt|rb insatr <key> <rank>            insert(lowest free id, hint = in-order element number rank mod size)
  bt|rb find <key>                     -> id p=<par>
  bt|rb erase <key>                    -> id
  bt|rb fe fwd|rev <k>                 foreach, visit returns 7 on its k-th call
  bt|rb clear                          -> callback order
  bt|rb show                           full dump regardless of the mode
  map ins <ko> <val> <0|1>             key object ko (key = ko / 2), malloc answer
  map find|erase|eraseit <key>
  map clear | map clear0               with / without callback
  map show
-/
open Cstl Cstl.Tree Cstl.Tree.Tree Cstl.Tree.Color

structure TState where
  bt : Tree := .nil
  btn : Nat := 0
  rb : Tree := .nil
  rbn : Nat := 0
  -- the other operand of `swap` (initially empty, same element pool)
  bt2 : Tree := .nil
  btn2 : Nat := 0
  rb2 : Tree := .nil
  rbn2 : Nat := 0
  mp : MapSt := {}
  hash : Bool := false

def colS : Color → String
  | .red => "R"
  | .black => "B"

/-- 0 = bt (no colours), 1 = rb, 2 = map (kp and val shown) -/
partial def shape (kind : Nat) : Tree → String
  | .nil => "."
  | .node c l e r =>
    let lbl := match kind with
      | 0 => s!"{e.id}:{e.key}"
      | 1 => s!"{e.id}:{e.key}{colS c}"
      | _ => s!"{e.id}:{e.key}:{e.kp}:{e.val}{colS c}"
    "(" ++ lbl ++ " " ++ shape kind l ++ " " ++ shape kind r ++ ")"

def mix (h : UInt64) (x : UInt64) : UInt64 := h * 1099511628211 + x

def keyTok (k : Int) : UInt64 := (Int.toNat (k % (2 ^ 64 : Int))).toUInt64

def digest (kind : Nat) : Tree → UInt64 → UInt64
  | .nil, h => mix h 0
  | .node c l e r, h =>
    let h := mix h 7
    let h := mix h e.id.toUInt64
    let h := mix h (keyTok e.key)
    let h := if kind = 0 then h else mix h (if c = .red then 1 else 2)
    let h := if kind = 2 then mix (mix h e.kp.toUInt64) e.val.toUInt64 else h
    digest kind r (digest kind l h)

def dumpTree (kind : Nat) (hash : Bool) (t : Tree) (n : Nat) : String :=
  let hd := s!"n={n} h={t.minLeaf}/{t.height} "
  if hash then hd ++ s!"x={(digest kind t 1469598103934665603).toNat}"
  else hd ++ shape kind t

def ordS : Ord → String
  | .pre => "P" | .mid => "M" | .post => "O" | .leaf => "L"

def evsS (evs : List Ev) : String :=
  "[" ++ ",".intercalate (evs.map fun (e, o) => s!"{e.id}:{ordS o}") ++ "]"

def iterS : Iter → String
  | none => "end"
  | some (kp, v, n) => s!"({kp},{v},{n})"

def mevS : MEv → String
  | .alloc i => s!"A{i}"
  | .allocFail => "A!"
  | .free i => s!"F{i}"
  | .cb kp v => s!"C{kp}:{v}"

def logS (l : List MEv) : String := "[" ++ ",".intercalate (l.map mevS) ++ "]"

def maxId : Nat := 600

def lowestFree (ids : List Nat) : Nat :=
  let used := ids.foldl (fun (a : Array Bool) i => if i < a.size then a.set! i true else a)
    (Array.replicate (maxId + 2) false)
  ((List.range' 1 (maxId + 1)).find? (fun i => !used[i]!)).getD (maxId + 1)

def tstep (s : TState) (ws : List String) : TState × String :=
  let bad := (s, "STOP bad-op")
  let segv := (s, "STOP segv")
  match ws with
  | ["mode", m] =>
    if m = "hash" then ({ s with hash := true }, "ok |")
    else if m = "full" then ({ s with hash := false }, "ok |")
    else bad
  | "map" :: rest =>
    let fin (m : MapSt) (r : String) (full : Bool := false) : TState × String :=
      ({ s with mp := m }, r ++ " | " ++ dumpTree 2 (s.hash && !full) m.t m.size ++ s!" live={m.t.size}")
    -- every map operation is one `mapStep` (History.lean): the step function of `run_refines`
    let run (op : MOp) : TState × String :=
      match mapStep s.mp op with
      | none => segv
      | some (m, o) =>
        match o with
        | .ins r it log => fin m s!"r={r} it={iterS it} log={logS log}"
        | .find it => fin m s!"it={iterS it}"
        | .erase r it log => fin m s!"r={r} it={iterS it} log={logS log}"
        | .eraseIt it log => fin m s!"it={iterS it} log={logS log}"
        | .clear log => fin m s!"log={logS log}"
    match rest with
    | ["ins", ko, v, a] =>
      match ko.toNat?, v.toNat?, a.toNat? with
      | some ko, some v, some a =>
        if ko ≥ 64 ∨ v ≥ 8 ∨ a > 1 then bad else run (.ins (Int.ofNat (ko / 2)) ko v (a == 1))
      | _, _, _ => bad
    | ["find", k] =>
      match parseInt? k with
      | some k => run (.find k)
      | none => bad
    | ["erase", k] =>
      match parseInt? k with
      | some k => run (.erase k)
      | none => bad
    | ["erasen", k] =>
      -- `cstl_map_erase(map, key, NULL)`: the iterator argument may be NULL; same step, nothing reported
      match parseInt? k with
      | some k =>
        match mapStep s.mp (.erase k) with
        | none => segv
        | some (m, .erase r _ log) => fin m s!"r={r} it=- log={logS log}"
        | some _ => bad
      | none => bad
    | ["eraseit", k] =>
      match parseInt? k with
      | some k => run (.eraseIt k)
      | none => bad
    | ["clear"] => run (.clear true)
    | ["clear0"] => run (.clear false)
    | ["show"] => fin s.mp "ok" true
    | _ => bad
  | c :: rest =>
    if c ≠ "bt" ∧ c ≠ "rb" then bad else
    let isRb := c = "rb"
    let ts : TS := if isRb then { t := s.rb, size := s.rbn } else { t := s.bt, size := s.btn }
    let t := ts.t
    let n := ts.size
    let kind := if isRb then 1 else 0
    let fin (t' : Tree) (n' : Nat) (r : String) (full : Bool := false) : TState × String :=
      (if isRb then { s with rb := t', rbn := n' } else { s with bt := t', btn := n' },
       r ++ " | " ++ dumpTree kind (s.hash && !full) t' n')
    -- the standard operations are one `btStep` / `rbStep` (History.lean): the step
    -- functions of `bt_run_refines`, `rb_run_refines`, `run_inv`
    let run (op : Op) (extra : String := "") : TState × String :=
      match (if isRb then rbStep ts op else btStep ts op) with
      | .error .badOp => bad
      | .error .segv => segv
      | .ok (ts', o) =>
        match o with
        | .done => fin ts'.t ts'.size ("ok" ++ extra)
        | .found r => fin ts'.t ts'.size (s!"{(r.map (·.id)).getD 0}" ++ extra)
        | .erased r => fin ts'.t ts'.size s!"{(r.map (·.id)).getD 0}"
        | .visited r evs => fin ts'.t ts'.size s!"{r} {evsS evs}"
        | .cleared cbs => fin ts'.t ts'.size (showList (cbs.map (·.id)) ++ " p=1")
    -- ids in use: the tree and its swap partner
    let aux : Tree := if isRb then s.rb2 else s.bt2
    let used : List Nat := t.ids ++ aux.ids
    let fresh (id : Nat) : Bool := id ≥ 1 ∧ id ≤ maxId ∧ !(used.contains id)
    -- element id 0 in an insert: the lowest id that is not in the tree
    let auto (id : Nat) : Nat := if id = 0 then lowestFree used else id
    match rest with
    | ["ins", id, k] =>
      match id.toNat?, parseInt? k with
      | some id, some k =>
        let id := auto id
        if !fresh id then bad else run (.ins { key := k, id := id })
      | _, _ => bad
    | ["insh", id, k] =>
      match id.toNat?, parseInt? k with
      | some id, some k =>
        let id := auto id
        if !fresh id then bad else
        run (.insHint { key := k, id := id }) s!" h={(((find k t).2).map (·.id)).getD 0}"
      | _, _ => bad
    | ["insat", id, k, h] =>
      match id.toNat?, parseInt? k, h.toNat? with
      | some id, some k, some h =>
        let id := auto id
        if !fresh id ∨ !(t.ids.contains h) then bad else
        let x : Elem := { key := k, id := id }
        if isRb then
          match rbInsertAt h x t with
          | some (some t') => fin t' (n + 1) "ok"
          | _ => segv
        else
          match btInsAt h x t with
          | some t' => fin t' (n + 1) "ok"
          | none => segv
      | _, _, _ => bad
    | ["insatr", k, r] =>
      -- arbitrary hint, named by its in-order rank (mod size)
      match parseInt? k, r.toNat? with
      | some k, some r =>
        let io := t.inorder
        if io.isEmpty then bad else
        match io[r % io.length]? with
        | none => bad
        | some hint =>
          let x : Elem := { key := k, id := lowestFree used }
          if !fresh x.id then bad else
          if isRb then
            match rbInsertAt hint.id x t with
            | some (some t') => fin t' (n + 1) s!"ok h={hint.id}"
            | _ => segv
          else
            match btInsAt hint.id x t with
            | some t' => fin t' (n + 1) s!"ok h={hint.id}"
            | none => segv
      | _, _ => bad
    | ["find", k] =>
      match parseInt? k with
      | some k => run (.find k) s!" p={(((find k t).2).map (·.id)).getD 0}"
      | none => bad
    | ["erase", k] =>
      match parseInt? k with
      | some k => run (.erase k)
      | none => bad
    | ["fe", d, k] =>
      match parseInt? k with
      | some k =>
        if d ≠ "fwd" ∧ d ≠ "rev" then bad else
        run (.foreach (d = "fwd") (fun i _ _ => if (i : Int) = k then stopValue k else 0))
      | none => bad
    | ["clear"] => run .clear
    | ["alt"] =>
      -- the harness addresses the other OBJECT from now on (no library call): same exchange of the pair
      if isRb then
        ({ s with rb := s.rb2, rbn := s.rbn2, rb2 := s.rb, rbn2 := s.rbn },
         "ok | " ++ dumpTree kind s.hash s.rb2 s.rbn2)
      else
        ({ s with bt := s.bt2, btn := s.btn2, bt2 := s.bt, btn2 := s.btn },
         "ok | " ++ dumpTree kind s.hash s.bt2 s.btn2)
    | ["swap"] =>
      -- `cstl_bintree_swap` / `cstl_rbtree_swap`: the two headers trade places (TreeL.Tie3.swap_tie)
      if isRb then
        ({ s with rb := s.rb2, rbn := s.rbn2, rb2 := s.rb, rbn2 := s.rbn },
         "ok | " ++ dumpTree kind s.hash s.rb2 s.rbn2)
      else
        ({ s with bt := s.bt2, btn := s.btn2, bt2 := s.bt, btn2 := s.btn },
         "ok | " ++ dumpTree kind s.hash s.bt2 s.btn2)
    | ["show"] => fin t n "ok" true
    | _ => bad
  | _ => bad

def main : IO Unit := runArea { init := {}, step := tstep }
