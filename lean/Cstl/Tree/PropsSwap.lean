import Cstl.Tree.PropsC01
/-
Histories over TWO trees with `swap` (C01 / C02, the swap part).

`cstl_bintree_swap` exchanges the two headers bytewise (TreeL.Tie3.swap_tie:
the translated C function is `(a, b) ↦ (b, a)`, and `swap_trees`: the trees
they root trade places); `cstl_rbtree_swap` additionally exchanges the node
offset.  At the level of the functional model a tree object is a value, so a
swap is the exchange of the pair.  The harness does exactly this
(harness/tree.c: `swap`, and `alt` = address the other object), and the
drivers apply `pairStep`.

Property theorems:
* `bt_pair_run_refines`, `rb_pair_run_refines`: every history of operations on
  the tree currently addressed, interleaved with swaps, refines a PAIR of
  multisets (each tree holds exactly its multiset, in order, with the right
  size), never dereferences NULL;
* `rb_pair_run_inv`: both red-black trees satisfy the red-black rules after
  every such history.
-/
namespace Cstl.Tree
open Color Tree

/-- an operation of a two-tree history -/
inductive POp where
  /-- an operation on the tree currently addressed -/
  | on (op : Op)
  /-- `cstl_bintree_swap` / `cstl_rbtree_swap`: the two objects trade contents -/
  | swap

/-- run a two-tree history; the outputs are those of the `on` operations -/
def pairRun (step : TS → Op → Except Stop (TS × Out)) :
    TS × TS → List POp → Except Stop ((TS × TS) × List Out)
  | s, [] => .ok (s, [])
  | s, .swap :: ops => pairRun step (s.2, s.1) ops
  | s, .on op :: ops =>
    match step s.1 op with
    | .error e => .error e
    | .ok (s1, o) =>
      match pairRun step (s1, s.2) ops with
      | .error e => .error e
      | .ok (s', os) => .ok (s', o :: os)

/-- specification: a pair of multisets; `swap` exchanges them, an operation acts on the first -/
inductive PSpecRun : List Elem × List Elem → List POp → List Out → List Elem × List Elem → Prop where
  | nil {h : List Elem × List Elem} : PSpecRun h [] [] h
  | swap {h h' : List Elem × List Elem} {ops : List POp} {os : List Out} :
      PSpecRun (h.2, h.1) ops os h' → PSpecRun h (.swap :: ops) os h'
  | on {h h' : List Elem × List Elem} {h1 : List Elem} {op : Op} {o : Out} {ops : List POp} {os : List Out} :
      SpecStep h.1 op o h1 → PSpecRun (h1, h.2) ops os h' → PSpecRun h (.on op :: ops) (o :: os) h'

/-- generic lifting: a per-tree invariant `P` with a per-tree ghost `G` that every single
operation maintains (and under which it never dereferences NULL) is maintained for both trees
by every two-tree history -/
theorem pairRun_refines {step : TS → Op → Except Stop (TS × Out)} (P : TS → List Elem → Prop)
    (hstep : ∀ s held op, P s held → step s op ≠ .error .segv ∧
      ∀ s' o, step s op = .ok (s', o) → ∃ held', SpecStep held op o held' ∧ P s' held')
    (ops : List POp) : ∀ (s : TS × TS) (h : List Elem × List Elem), P s.1 h.1 → P s.2 h.2 →
      pairRun step s ops ≠ .error .segv ∧
      ∀ s' outs, pairRun step s ops = .ok (s', outs) →
        ∃ h', PSpecRun h ops outs h' ∧ P s'.1 h'.1 ∧ P s'.2 h'.2 := by
  induction ops with
  | nil =>
    intro s h p1 p2
    refine ⟨by simp [pairRun], ?_⟩
    intro s' outs hs
    simp only [pairRun, Except.ok.injEq, Prod.mk.injEq] at hs
    obtain ⟨rfl, rfl⟩ := hs
    exact ⟨h, PSpecRun.nil, p1, p2⟩
  | cons pop ops ih =>
    intro s h p1 p2
    cases pop with
    | swap =>
      obtain ⟨hne, hok⟩ := ih (s.2, s.1) (h.2, h.1) p2 p1
      refine ⟨by simpa [pairRun] using hne, ?_⟩
      intro s' outs hs
      simp only [pairRun] at hs
      obtain ⟨h', hr, q1, q2⟩ := hok s' outs hs
      exact ⟨h', PSpecRun.swap hr, q1, q2⟩
    | on op =>
      obtain ⟨hne, hok⟩ := hstep s.1 h.1 op p1
      cases hs1 : step s.1 op with
      | error e =>
        refine ⟨?_, ?_⟩
        · simp only [pairRun, hs1]
          intro hc
          cases hc
          exact hne hs1
        · intro s' outs hs
          simp [pairRun, hs1] at hs
      | ok r =>
        obtain ⟨s1, o⟩ := r
        obtain ⟨h1, hsp, q1⟩ := hok s1 o hs1
        obtain ⟨hne2, hok2⟩ := ih (s1, s.2) (h1, h.2) q1 p2
        cases hr : pairRun step (s1, s.2) ops with
        | error e =>
          refine ⟨?_, ?_⟩
          · simp only [pairRun, hs1, hr]
            intro hc
            cases hc
            exact hne2 hr
          · intro s' outs hs
            simp [pairRun, hs1, hr] at hs
        | ok r2 =>
          obtain ⟨s2, os⟩ := r2
          refine ⟨by simp [pairRun, hs1, hr], ?_⟩
          intro s' outs hs
          simp only [pairRun, hs1, hr, Except.ok.injEq, Prod.mk.injEq] at hs
          obtain ⟨rfl, rfl⟩ := hs
          obtain ⟨h', hrun, r1, r2'⟩ := hok2 s2 os hr
          exact ⟨h', PSpecRun.on hsp hrun, r1, r2'⟩

/-- **two binary trees with swap**: every history refines a pair of multisets -/
theorem bt_pair_run_refines (ops : List POp) :
    pairRun btStep ({}, {}) ops ≠ .error .segv ∧
    ∀ s outs, pairRun btStep ({}, {}) ops = .ok (s, outs) →
      ∃ h, PSpecRun ([], []) ops outs h ∧ Good s.1 h.1 ∧ Good s.2 h.2 :=
  pairRun_refines (fun s held => Good s held) (fun _ _ op g => btStep_refines g op) ops ({}, {}) ([], [])
    good_init good_init

/-- **two red-black trees with swap**: every history refines a pair of multisets and both trees
satisfy the red-black rules afterwards -/
theorem rb_pair_run_refines (ops : List POp) :
    pairRun rbStep ({}, {}) ops ≠ .error .segv ∧
    ∀ s outs, pairRun rbStep ({}, {}) ops = .ok (s, outs) →
      ∃ h, PSpecRun ([], []) ops outs h ∧ (Good s.1 h.1 ∧ Inv s.1.t) ∧ (Good s.2 h.2 ∧ Inv s.2.t) :=
  pairRun_refines (fun s held => Good s held ∧ Inv s.t)
    (fun s held op g => by
      obtain ⟨hne, hok⟩ := rbStep_refines g.1 g.2 op
      refine ⟨hne, ?_⟩
      intro s' o hs
      obtain ⟨held', hsp, g'⟩ := hok s' o hs
      exact ⟨held', hsp, g', (rbStep_inv g.2 op).2 s' o hs⟩)
    ops ({}, {}) ([], []) ⟨good_init, inv_nil⟩ ⟨good_init, inv_nil⟩

/-- consequently the red-black rules hold for both trees after every history with swaps -/
theorem rb_pair_run_inv (ops : List POp) (s : TS × TS) (outs : List Out)
    (h : pairRun rbStep ({}, {}) ops = .ok (s, outs)) : Inv s.1.t ∧ Inv s.2.t := by
  obtain ⟨_, _, q1, q2⟩ := (rb_pair_run_refines ops).2 s outs h
  exact ⟨q1.2, q2.2⟩

/-! ### non-vacuity: a concrete history with swaps runs and ends in the expected pair -/

private def e (k : Int) (i : Nat) : Elem := { key := k, id := i }

example :
    (match pairRun rbStep ({}, {})
        [.on (.ins (e 5 1)), .on (.ins (e 3 2)), .swap, .on (.ins (e 8 3)), .swap, .on (.erase 5)] with
     | .ok (s, _) => (s.1.t.inorder.map (·.id), s.2.t.inorder.map (·.id))
     | .error _ => ([], [])) = ([2], [3]) := by decide

end Cstl.Tree
