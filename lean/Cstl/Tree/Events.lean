import Cstl.Tree.Lemmas
/-
The PRE/MID/POST/LEAF traversal: structure of the complete visit list, the
reverse direction as the forward direction of the mirrored tree, the stop
rule, and clear.
-/
namespace Cstl.Tree
open Color Tree

/-- left and right exchanged everywhere -/
def mirror : Tree → Tree
  | nil => nil
  | node c l e r => node c (mirror r) e (mirror l)

theorem inorder_mirror (t : Tree) : (mirror t).inorder = t.inorder.reverse := by
  induction t with
  | nil => rfl
  | node c l e r ihl ihr => simp [mirror, ihl, ihr]

theorem isNil_mirror (t : Tree) : (mirror t).isNil = t.isNil := by cases t <;> rfl

theorem isNil_iff {t : Tree} : t.isNil = true ↔ t = nil := by cases t <;> simp [Tree.isNil]

/-- a reverse traversal is the forward traversal of the mirrored tree -/
theorem events_rev (t : Tree) : events false t = events true (mirror t) := by
  induction t with
  | nil => rfl
  | node c l e r ihl ihr =>
    simp only [events, mirror, isNil_mirror, Bool.and_comm l.isNil]
    split
    · rfl
    · simp [ihl, ihr]

/-- the visit that presents an element: MID for a non-leaf, LEAF for a leaf -/
def isML (ev : Ev) : Bool := ev.2 = Ord.mid ∨ ev.2 = Ord.leaf

theorem events_leaf {l r : Tree} (h : (l.isNil && r.isNil) = true) :
    l = nil ∧ r = nil := by
  simp only [Bool.and_eq_true] at h
  exact ⟨isNil_iff.1 h.1, isNil_iff.1 h.2⟩

/-- the MID/LEAF visits of a forward traversal, in order, are the in-order sequence -/
theorem events_midleaf (t : Tree) : ((events true t).filter isML).map (·.1) = t.inorder := by
  induction t with
  | nil => rfl
  | node c l e r ihl ihr =>
    simp only [events]
    split
    · rename_i h
      obtain ⟨rfl, rfl⟩ := events_leaf h
      simp [isML]
    · simp [isML, List.filter_append, ← ihl, ← ihr]

/-- … and those of a reverse traversal the reversed in-order sequence -/
theorem events_midleaf_rev (t : Tree) : ((events false t).filter isML).map (·.1) = t.inorder.reverse := by
  rw [events_rev, events_midleaf, inorder_mirror]

/-- every element has as many PRE as MID as POST visits -/
theorem events_count (fwd : Bool) (t : Tree) (x : Elem) :
    (events fwd t).count (x, Ord.pre) = (events fwd t).count (x, Ord.mid) ∧
    (events fwd t).count (x, Ord.post) = (events fwd t).count (x, Ord.mid) := by
  induction t with
  | nil => simp [events]
  | node c l e r ihl ihr =>
    simp only [events]
    split
    · simp
    · cases fwd <;>
        simp [List.count_cons, List.count_append, ihl.1, ihl.2, ihr.1, ihr.2] <;>
        by_cases hx : e = x <;> simp [hx] <;> omega

theorem split_append {α : Type} {xs ys A B : List α} {m : α} (h : xs ++ ys = A ++ m :: B) :
    (∃ A', xs = A ++ m :: A' ∧ B = A' ++ ys) ∨ (∃ B', ys = B' ++ m :: B ∧ A = xs ++ B') := by
  rcases List.append_eq_append_iff.1 h with ⟨a', h1, h2⟩ | ⟨c', h1, h2⟩
  · exact Or.inr ⟨a', h2, h1⟩
  · cases c' with
    | nil => exact Or.inr ⟨[], by simpa using h2.symm, by simpa using h1.symm⟩
    | cons z c'' =>
      simp only [List.cons_append, List.cons.injEq] at h2
      obtain ⟨rfl, rfl⟩ := h2
      exact Or.inl ⟨c'', h1, rfl⟩

theorem bracket_node {x e : Elem} {F S A B : List Ev}
    (ihf : ∀ A B, F = A ++ (x, Ord.mid) :: B → (x, Ord.pre) ∈ A ∧ (x, Ord.post) ∈ B)
    (ihs : ∀ A B, S = A ++ (x, Ord.mid) :: B → (x, Ord.pre) ∈ A ∧ (x, Ord.post) ∈ B)
    (h : (e, Ord.pre) :: F ++ (e, Ord.mid) :: S ++ [(e, Ord.post)] = A ++ (x, Ord.mid) :: B) :
    (x, Ord.pre) ∈ A ∧ (x, Ord.post) ∈ B := by
  cases A with
  | nil => simp at h
  | cons a A' =>
    simp only [List.cons_append, List.cons.injEq, List.append_assoc] at h
    obtain ⟨rfl, h⟩ := h
    rcases split_append h with ⟨A'', h1, h2⟩ | ⟨B', h1, h2⟩
    · obtain ⟨p1, p2⟩ := ihf _ _ h1
      exact ⟨by simp [p1], by simp [h2, p2]⟩
    · cases B' with
      | nil =>
        simp only [List.nil_append, List.cons.injEq, Prod.mk.injEq] at h1
        obtain ⟨⟨rfl, _⟩, rfl⟩ := h1
        exact ⟨by simp, by simp⟩
      | cons b B'' =>
        simp only [List.cons_append, List.cons.injEq] at h1
        obtain ⟨rfl, h1⟩ := h1
        rcases split_append h1 with ⟨A'', h3, h4⟩ | ⟨B3, h3, h4⟩
        · obtain ⟨p1, p2⟩ := ihs _ _ h3
          exact ⟨by simp [h2, p1], by simp [h4, p2]⟩
        · cases B3 with
          | nil => simp at h3
          | cons b3 B4 => simp at h3

/-- a MID visit of `x` is preceded by a PRE visit of `x` and followed by a POST visit of `x` -/
theorem events_bracket (fwd : Bool) (t : Tree) (x : Elem) : ∀ A B : List Ev,
    events fwd t = A ++ (x, Ord.mid) :: B → (x, Ord.pre) ∈ A ∧ (x, Ord.post) ∈ B := by
  induction t with
  | nil => intro A B h; simp [events] at h
  | node c l e r ihl ihr =>
    intro A B h
    simp only [events] at h
    split at h
    · -- a leaf has a single LEAF visit
      cases A with
      | nil => simp at h
      | cons a A' => simp at h
    · split at h
      · exact bracket_node ihl ihr h
      · exact bracket_node ihr ihl h

/-! ### the stop rule -/

/-- make the listed visits one after the other (each guarded by `res == 0`) -/
def runVisits (visit : Nat → Elem → Ord → Int) : List Ev → WSt → WSt
  | [], s => s
  | ev :: rest, s => runVisits visit rest (doVisit visit ev.1 ev.2 s)

theorem runVisits_append (visit : Nat → Elem → Ord → Int) (a b : List Ev) (s : WSt) :
    runVisits visit (a ++ b) s = runVisits visit b (runVisits visit a s) := by
  induction a generalizing s with
  | nil => rfl
  | cons x a ih => simp [runVisits, ih]

/-- the recursive traversal makes exactly the visits of the complete visit list, in order -/
theorem walk_eq_runVisits (fwd : Bool) (visit : Nat → Elem → Ord → Int) (t : Tree) :
    ∀ s, walk fwd visit t s = runVisits visit (events fwd t) s := by
  induction t with
  | nil => intro s; rfl
  | node c l e r ihl ihr =>
    intro s
    simp only [walk, events]
    split
    · rename_i h
      obtain ⟨rfl, rfl⟩ := events_leaf h
      cases fwd <;> simp [walk, runVisits]
    · cases fwd <;> simp [runVisits, runVisits_append, ihl, ihr]

theorem runVisits_done (visit : Nat → Elem → Ord → Int) (evs : List Ev) {r : Int} (pre : List Ev) (hr : r ≠ 0) :
    runVisits visit evs (r, pre) = (r, pre) := by
  induction evs with
  | nil => rfl
  | cons ev rest ih => simp [runVisits, doVisit, hr, ih]

/-- all visits return zero: everything is visited, the result is zero -/
theorem runVisits_zero (visit : Nat → Elem → Ord → Int) : ∀ (rest pre : List Ev),
    (∀ j (h : j < rest.length), visit (pre.length + j) rest[j].1 rest[j].2 = 0) →
    runVisits visit rest (0, pre) = (0, pre ++ rest) := by
  intro rest
  induction rest with
  | nil => intro pre _; simp [runVisits]
  | cons ev rest ih =>
    intro pre h
    have h0 := h 0 (by simp)
    simp only [Nat.add_zero, List.getElem_cons_zero] at h0
    simp only [runVisits, doVisit, ne_eq, not_true_eq_false, if_false, h0]
    rw [ih (pre ++ [ev])]
    · simp
    · intro j hj
      have := h (j + 1) (by simp; omega)
      simpa [Nat.add_assoc, Nat.add_comm 1 j] using this

/-- the first non-zero visit ends the traversal and its result is returned -/
theorem runVisits_stop (visit : Nat → Elem → Ord → Int) : ∀ (rest pre : List Ev) (k : Nat) (hk : k < rest.length),
    (∀ j (h : j < k), visit (pre.length + j) (rest[j]'(by omega)).1 (rest[j]'(by omega)).2 = 0) →
    visit (pre.length + k) rest[k].1 rest[k].2 ≠ 0 →
    runVisits visit rest (0, pre) = (visit (pre.length + k) rest[k].1 rest[k].2, pre ++ rest.take (k + 1)) := by
  intro rest
  induction rest with
  | nil => intro pre k hk; simp at hk
  | cons ev rest ih =>
    intro pre k hk hz hnz
    cases k with
    | zero =>
      simp only [Nat.add_zero, List.getElem_cons_zero] at hnz ⊢
      simp only [runVisits, doVisit, ne_eq, not_true_eq_false, if_false]
      rw [runVisits_done _ _ _ hnz]
      simp
    | succ k =>
      have h0 := hz 0 (by omega)
      simp only [Nat.add_zero, List.getElem_cons_zero] at h0
      simp only [runVisits, doVisit, ne_eq, not_true_eq_false, if_false, h0]
      have hk' : k < rest.length := by simpa using hk
      have := ih (pre ++ [ev]) k hk' (by
        intro j hj
        have := hz (j + 1) (by omega)
        simpa [Nat.add_assoc, Nat.add_comm 1 j] using this) (by
        simpa [Nat.add_assoc, Nat.add_comm 1 k] using hnz)
      rw [this]
      simp [Nat.add_assoc, Nat.add_comm 1 k]

/-! ### clear -/

/-- the POST/LEAF visits of a forward traversal: each element of the tree exactly once -/
theorem clearOrder_perm (t : Tree) : (clearOrder t).Perm t.inorder := by
  induction t with
  | nil => simp [clearOrder, events]
  | node c l e r ihl ihr =>
    simp only [clearOrder, events]
    split
    · rename_i h
      obtain ⟨rfl, rfl⟩ := events_leaf h
      simp
    · simp only [clearOrder] at ihl ihr
      simp [List.filter_append]
      have h1 : (List.map (fun x => x.fst) (List.filter (fun ev => decide (ev.snd = Ord.post) || decide (ev.snd = Ord.leaf)) (events true l)) ++
          (List.map (fun x => x.fst) (List.filter (fun ev => decide (ev.snd = Ord.post) || decide (ev.snd = Ord.leaf)) (events true r)) ++ [e])).Perm
          (l.inorder ++ (r.inorder ++ [e])) := by
        apply List.Perm.append
        · simpa using ihl
        · apply List.Perm.append_right
          simpa using ihr
      refine h1.trans ?_
      apply List.Perm.append_left
      simp

/-- the callbacks of `clear` are the `cb` events of its access trace, in order -/
theorem clearTrace_cbs (t : Tree) :
    (clearTrace t).filterMap (fun ev => match ev with | .cb e => some e | .touch _ => none) = clearOrder t := by
  induction t with
  | nil => rfl
  | node c l e r ihl ihr =>
    simp only [clearTrace, clearOrder, events]
    split
    · rename_i h
      obtain ⟨rfl, rfl⟩ := events_leaf h
      simp [clearTrace]
    · simp only [clearOrder] at ihl ihr
      simp [List.filterMap_append, ihl, ihr, List.filter_append]

/-- every element touched or called back by `clear` is an element of the tree -/
theorem clearTrace_mem (t : Tree) (x : Elem) :
    (ClearEv.touch x ∈ clearTrace t ∨ ClearEv.cb x ∈ clearTrace t) → x ∈ t.inorder := by
  induction t with
  | nil => simp [clearTrace]
  | node c l e r ihl ihr =>
    intro h
    simp only [clearTrace, List.mem_cons, List.mem_append, List.not_mem_nil, or_false,
      ClearEv.touch.injEq, ClearEv.cb.injEq, reduceCtorEq, false_or] at h
    simp only [inorder_node, List.mem_append, List.mem_cons]
    grind

/-- once an element has been handed to the callback, `clear` does not touch it
again (elements are distinct objects: `Nodup`) -/
theorem clearTrace_no_touch_after_cb (t : Tree) (hnd : t.inorder.Nodup) (x : Elem) : ∀ A B : List ClearEv,
    clearTrace t = A ++ ClearEv.cb x :: B → ClearEv.touch x ∉ B ∧ ClearEv.cb x ∉ B := by
  induction t with
  | nil => intro A B h; simp [clearTrace] at h
  | node c l e r ihl ihr =>
    intro A B h
    simp only [inorder_node, List.nodup_append, List.nodup_cons, List.mem_cons] at hnd
    obtain ⟨hnl, ⟨her, hnr⟩, hdis⟩ := hnd
    simp only [clearTrace] at h
    cases A with
    | nil => simp at h
    | cons a A' =>
      simp only [List.cons_append, List.cons.injEq, List.append_assoc] at h
      obtain ⟨rfl, h⟩ := h
      rcases split_append h with ⟨A'', h1, h2⟩ | ⟨B', h1, h2⟩
      · -- the callback is in the left subtree's part
        obtain ⟨p1, p2⟩ := ihl hnl _ _ h1
        have hxl : x ∈ l.inorder := clearTrace_mem l x (Or.inr (by simp [h1]))
        have hxr : x ∉ r.inorder := fun hm => hdis x hxl x (Or.inr hm) rfl
        have hxe : x ≠ e := fun he => hdis x hxl e (Or.inl rfl) he
        subst h2
        simp only [List.mem_append, List.mem_cons, not_or]
        refine ⟨⟨p1, fun hm => hxr (clearTrace_mem r x (Or.inl hm)), by simp⟩,
                ⟨p2, fun hm => hxr (clearTrace_mem r x (Or.inr hm)), by simpa using hxe⟩⟩
      · rcases split_append h1 with ⟨A'', h3, h4⟩ | ⟨B3, h3, h4⟩
        · obtain ⟨p1, p2⟩ := ihr hnr _ _ h3
          have hxr : x ∈ r.inorder := clearTrace_mem r x (Or.inr (by simp [h3]))
          have hxe : x ≠ e := fun he => her (he ▸ hxr)
          subst h4
          simp only [List.mem_append, List.mem_cons, not_or]
          exact ⟨⟨p1, by simp⟩, ⟨p2, by simpa using hxe⟩⟩
        · cases B3 with
          | nil =>
            simp at h3
            obtain ⟨_, rfl⟩ := h3
            simp
          | cons b3 B4 => simp at h3

end Cstl.Tree
