/-
Executable model of src/bintree.c, src/rbtree.c and src/map.c (core Lean only).

The tree is a functional tree carrying, per node, the colour and the element
(`key` = what the comparison function looks at, `id` = the pointer: pool index
of the element / block id of a map node; `kp`, `val` = the stored key and value
pointers of a map node, unused by the plain trees).  Parent links are not in
the functional tree; the harness verifies them on every dumped state.

* `btIns`, `btInsAt`, `find`, `btErase`  — src/bintree.c insert (equal keys go
  right; a hint starts the same descent at the hinted node), find (three-way,
  stops at the topmost equal node, reports the last node passed), erase (a
  two-child node is replaced by its in-order successor, which is unlinked from
  the right subtree: same shape as the C link-set swap).
* `walk` — the recursive PRE/MID/POST/LEAF traversal with the `res == 0` guard
  in front of every visit, in both directions; `clear`.
* `ins`/`balInsL`/`balInsR`/`rbInsert`/`rbInsertAt` — cstl_rbtree_insert: the
  fix-up loop is written as the result the recursion hands to the parent
  (`ok` loop over, `newRed` = the loop's `x`, `redRedL/R` = `x`'s parent is red,
  the grandparent must act), performing the same case at the same node.
* `del`/`popMin`/`fixL`/`fixR`/`fixBL`/`fixBR`/`rbErase` — __cstl_rbtree_erase:
  `short` = "the loop's `x` is the root of this subtree and is black".
  Where the C code would read the colour of a missing sibling (NULL), the
  model returns `none` (the driver prints `STOP segv`).
  One simplification: after the far-nephew case the C code sets `x = t->root`
  and the final `*BN_COLOR(x) = B` paints the root of the whole tree; the model
  does not repaint it.  On every tree that satisfies the red-black rules the
  root is black at that point (PropsC02.lean: `rbErase_inv`), so model and code
  agree on all reachable states, which is what the correspondence check compares.
* `Map…` — src/map.c on top of the red-black tree with the malloc result as a
  parameter and an event log of allocations, frees and clear callbacks.
-/
namespace Cstl.Tree

inductive Color where
  | red | black
deriving DecidableEq, Repr, Inhabited

structure Elem where
  key : Int
  id : Nat
  kp : Nat := 0
  val : Nat := 0
deriving DecidableEq, Repr, Inhabited

inductive Tree where
  | nil
  | node (c : Color) (l : Tree) (e : Elem) (r : Tree)
deriving Repr, Inhabited

open Color Tree

namespace Tree

def inorder : Tree → List Elem
  | nil => []
  | node _ l e r => inorder l ++ e :: inorder r

def size : Tree → Nat
  | nil => 0
  | node _ l _ r => size l + 1 + size r

/-- nodes on the longest root-to-leaf path (`max` of cstl_bintree_height) -/
def height : Tree → Nat
  | nil => 0
  | node _ l _ r => max (height l) (height r) + 1

/-- nodes on the shortest path from the root to a *leaf node* (`min` of
cstl_bintree_height, which only looks at LEAF visits) -/
def minLeaf : Tree → Nat
  | nil => 0
  | node _ l _ r =>
    match l, r with
    | nil, nil => 1
    | nil, node .. => minLeaf r + 1
    | node .., nil => minLeaf l + 1
    | node .., node .. => min (minLeaf l) (minLeaf r) + 1

def isNil : Tree → Bool
  | nil => true
  | node .. => false

/-- a missing child counts as black (`x == NULL || colour == B` in the C code) -/
def isBlack : Tree → Bool
  | node red .. => false
  | _ => true

def isRed : Tree → Bool
  | node red .. => true
  | _ => false

def blacken : Tree → Tree
  | nil => nil
  | node _ l e r => node black l e r

def ids (t : Tree) : List Nat := t.inorder.map (·.id)

end Tree

/-! ### src/bintree.c -/

/-- `cstl_bintree_insert(bt, e, NULL)`: `cmp < 0` goes left, everything else right -/
def btIns (x : Elem) : Tree → Tree
  | nil => node black nil x nil
  | node c l e r =>
    if x.key < e.key then node c (btIns x l) e r else node c l e (btIns x r)

/-- `cstl_bintree_insert(bt, e, p)`: the descent starts at the node `p`
(`bc = &bp`), located here by its identity; `none` = no such node. -/
def btInsAt (h : Nat) (x : Elem) : Tree → Option Tree
  | nil => none
  | node c l e r =>
    if e.id = h then some (btIns x (node c l e r))
    else match btInsAt h x l with
      | some l' => some (node c l' e r)
      | none =>
        match btInsAt h x r with
        | some r' => some (node c l e r')
        | none => none

/-- `cstl_bintree_find`: (element found, last node passed before it) -/
def findAux (k : Int) (p : Option Elem) : Tree → Option Elem × Option Elem
  | nil => (none, p)
  | node _ l e r =>
    if k = e.key then (some e, p)
    else if k < e.key then findAux k (some e) l
    else findAux k (some e) r

def find (k : Int) (t : Tree) : Option Elem × Option Elem := findAux k none t

/-- unlink the leftmost node of a non-empty tree (`none` = empty tree);
its right child takes its place -/
def btPopMin : Tree → Option (Elem × Tree)
  | nil => none
  | node c l e r =>
    match btPopMin l with
    | none => some (e, r)
    | some (m, l') => some (m, node c l' e r)

/-- `__cstl_bintree_erase` of the node `node c l e r`: a node with at most one
child is replaced by that child; a node with two children is replaced by its
in-order successor (which takes over position and links). -/
def btEraseRoot (c : Color) (l : Tree) (_e : Elem) (r : Tree) : Tree :=
  match l with
  | nil => r
  | node .. =>
    match btPopMin r with
    | none => l
    | some (m, r') => node c l m r'

/-- erase the node `find` stops at (the topmost node comparing equal) -/
def btDel (k : Int) : Tree → Tree
  | nil => nil
  | node c l e r =>
    if k = e.key then btEraseRoot c l e r
    else if k < e.key then node c (btDel k l) e r
    else node c l e (btDel k r)

/-- `cstl_bintree_erase`: returns the erased element (NULL = `none`) -/
def btErase (k : Int) (t : Tree) : Tree × Option Elem :=
  match (find k t).1 with
  | none => (t, none)
  | some e => (btDel k t, some e)

/-! ### traversal -/

inductive Ord where
  | pre | mid | post | leaf
deriving DecidableEq, Repr, Inhabited

abbrev Ev := Elem × Ord

/-- traversal state: the `res` variable and the visits made so far -/
abbrev WSt := Int × List Ev

/-- `if (res == 0) res = visit(e, o)`; the visit function sees the number of
calls made before it (so that "stop at the k-th call" is expressible). -/
def doVisit (visit : Nat → Elem → Ord → Int) (e : Elem) (o : Ord) (s : WSt) : WSt :=
  if s.1 ≠ 0 then s else (visit s.2.length e o, s.2 ++ [(e, o)])

/-- `__cstl_bintree_foreach`: `fwd` selects which child plays "left".  Both
children are read before the first visit; a subtree is entered only while
`res == 0` (a `walk` that starts with `res ≠ 0` does nothing). -/
def walk (fwd : Bool) (visit : Nat → Elem → Ord → Int) : Tree → WSt → WSt
  | nil, s => s
  | node _ l e r, s =>
    let leaf := l.isNil && r.isNil
    let s1 := if leaf then s else doVisit visit e .pre s
    let s2 := if fwd then walk fwd visit l s1 else walk fwd visit r s1
    let s3 := doVisit visit e (if leaf then .leaf else .mid) s2
    let s4 := if fwd then walk fwd visit r s3 else walk fwd visit l s3
    if leaf then s4 else doVisit visit e .post s4

/-- `cstl_bintree_foreach`: result and the visits made -/
def foreach (fwd : Bool) (visit : Nat → Elem → Ord → Int) (t : Tree) : WSt :=
  walk fwd visit t (0, [])

/-- all visits of a complete traversal -/
def events (fwd : Bool) : Tree → List Ev
  | nil => []
  | node _ l e r =>
    if l.isNil && r.isNil then [(e, .leaf)]
    else if fwd then (e, .pre) :: events fwd l ++ (e, .mid) :: events fwd r ++ [(e, .post)]
    else (e, .pre) :: events fwd r ++ (e, .mid) :: events fwd l ++ [(e, .post)]

/-- `cstl_bintree_clear`: the callback runs on the LEAF visit or on the POST
visit of each node; returns the callback order. -/
def clearOrder (t : Tree) : List Elem :=
  ((events true t).filter (fun ev => ev.2 = .post ∨ ev.2 = .leaf)).map (·.1)

/-- access trace of `clear` (C15): `touch` = the traversal reads the node's
children at entry, `cb` = the callback gets the element. -/
inductive ClearEv where
  | touch (e : Elem)
  | cb (e : Elem)
deriving DecidableEq, Repr

def clearTrace : Tree → List ClearEv
  | nil => []
  | node _ l e r => .touch e :: clearTrace l ++ clearTrace r ++ [.cb e]

/-! ### src/rbtree.c: insert -/

/-- what the fix-up loop looks like from the parent of a subtree -/
inductive InsRes where
  /-- the loop is over (or never started) below this point -/
  | ok (t : Tree)
  /-- the subtree's root is the loop's `x`: red, its parent must be examined -/
  | newRed (l : Tree) (x : Elem) (r : Tree)
  /-- root `p` red with red left child `x` (subtrees `a b`), right child `pr` -/
  | redRedL (a : Tree) (x : Elem) (b : Tree) (p : Elem) (pr : Tree)
  /-- root `p` red with left child `pl` and red right child `x` (subtrees `b c`) -/
  | redRedR (pl : Tree) (p : Elem) (b : Tree) (x : Elem) (c : Tree)
deriving Repr, Inhabited

def InsRes.tree : InsRes → Tree
  | .ok t => t
  | .newRed l x r => node red l x r
  | .redRedL a x b p pr => node red (node red a x b) p pr
  | .redRedR pl p b x c => node red pl p (node red b x c)

/-- one level of the loop, the new node came up from the left child.
`redRed*`: this node is the grandparent `x->p->p`, `r` the uncle `y`:
red uncle → recolour and continue with the grandparent as `x`;
otherwise rotate (`x == *r(x->p)` first rotates the parent) and stop. -/
def balInsL (c : Color) (res : InsRes) (e : Elem) (r : Tree) : InsRes :=
  match res with
  | .ok l' => .ok (node c l' e r)
  | .newRed a x b =>
    match c with
    | red => .redRedL a x b e r
    | black => .ok (node black (node red a x b) e r)
  | .redRedL a x b p pr =>
    if r.isRed then .newRed (node black (node red a x b) p pr) e r.blacken
    else .ok (node black (node red a x b) p (node red pr e r))
  | .redRedR pl p b x c' =>
    if r.isRed then .newRed (node black pl p (node red b x c')) e r.blacken
    else .ok (node black (node red pl p b) x (node red c' e r))

/-- mirror image: the new node came up from the right child -/
def balInsR (c : Color) (l : Tree) (e : Elem) (res : InsRes) : InsRes :=
  match res with
  | .ok r' => .ok (node c l e r')
  | .newRed a x b =>
    match c with
    | red => .redRedR l e a x b
    | black => .ok (node black l e (node red a x b))
  | .redRedR pl p b x c' =>
    if l.isRed then .newRed l.blacken e (node black pl p (node red b x c'))
    else .ok (node black (node red l e pl) p (node red b x c'))
  | .redRedL a x b p pr =>
    if l.isRed then .newRed l.blacken e (node black (node red a x b) p pr)
    else .ok (node black (node red l e a) x (node red b p pr))

/-- cstl_bintree_insert + colour red + the fix-up loop, below the root -/
def ins (x : Elem) : Tree → InsRes
  | nil => .newRed nil x nil
  | node c l e r =>
    if x.key < e.key then balInsL c (ins x l) e r else balInsR c l e (ins x r)

/-- the same with the descent started at the node with identity `h` -/
def insAt (h : Nat) (x : Elem) : Tree → Option InsRes
  | nil => none
  | node c l e r =>
    if e.id = h then some (ins x (node c l e r))
    else match insAt h x l with
      | some res => some (balInsL c res e r)
      | none =>
        match insAt h x r with
        | some res => some (balInsR c l e res)
        | none => none

/-- end of cstl_rbtree_insert: root painted black.  A red root with a red
child means the loop found `x->p` red without a grandparent: the C code reads
`x->p->p->l` through NULL (`none`). -/
def finishIns : InsRes → Option Tree
  | .ok t => some t.blacken
  | .newRed l x r => some (node black l x r)
  | .redRedL .. => none
  | .redRedR .. => none

def rbInsert (x : Elem) (t : Tree) : Option Tree := finishIns (ins x t)

/-- `none` = no node `h`; `some none` = NULL dereference -/
def rbInsertAt (h : Nat) (x : Elem) (t : Tree) : Option (Option Tree) :=
  (insAt h x t).map finishIns

/-! ### src/rbtree.c: erase

`(t, short)`: `short = true` means the loop's `x` is the root of `t`, is black
(or the stand-in for a missing child) and its parent has to call
`cstl_rbtree_fix_deletion`. -/

/-- fix_deletion after its first `if`: `x = l` short, sibling `w = r` (black) -/
def fixBL (c : Color) (l : Tree) (e : Elem) (r : Tree) : Option (Tree × Bool) :=
  match r with
  | nil => none
  | node _ wl we wr =>
    match wr with
    | node red fa fe fb =>
      -- far nephew red: w takes the parent's colour, parent and nephew black, rotate left
      some (node c (node black l e wl) we (node black fa fe fb), false)
    | _ =>
      match wl with
      | node red a ne b =>
        -- near nephew red: nephew black, w red, rotate w right; then the case above
        some (node c (node black l e a) ne (node black b we wr), false)
      | _ =>
        -- both nephews black: w red, x = parent; a red parent ends the loop and is painted black
        some (node black l e (node red wl we wr), c == black)

/-- cstl_rbtree_fix_deletion(l, r): `x = l` is short -/
def fixL (c : Color) (l : Tree) (e : Elem) (r : Tree) : Option (Tree × Bool) :=
  match r with
  | node red wl we wr =>
    -- red sibling: w black, parent red, rotate left; the lowered parent is red,
    -- so whatever happens below ends the loop
    match fixBL red l e wl with
    | some (p', _) => some (node black p' we wr, false)
    | none => none
  | _ => fixBL c l e r

/-- mirror image: `x = r` short, sibling `w = l` -/
def fixBR (c : Color) (l : Tree) (e : Elem) (r : Tree) : Option (Tree × Bool) :=
  match l with
  | nil => none
  | node _ wl we wr =>
    match wl with
    | node red fa fe fb =>
      some (node c (node black fa fe fb) we (node black wr e r), false)
    | _ =>
      match wr with
      | node red a ne b =>
        some (node c (node black wl we a) ne (node black b e r), false)
      | _ =>
        some (node black (node red wl we wr) e r, c == black)

def fixR (c : Color) (l : Tree) (e : Elem) (r : Tree) : Option (Tree × Bool) :=
  match l with
  | node red wl we wr =>
    match fixBR red wr e r with
    | some (p', _) => some (node black wl we p', false)
    | none => none
  | _ => fixBR c l e r

/-- a node of colour `c` with at most one child `x` is unlinked: a red node just
goes; a black node with a red child: the child is painted black; otherwise
`x` (possibly missing) is short. -/
def removeOne (c : Color) (x : Tree) : Tree × Bool :=
  match c with
  | red => (x, false)
  | black => if x.isRed then (x.blacken, false) else (x, true)

def afterL (c : Color) (e : Elem) (r : Tree) : Tree × Bool → Option (Tree × Bool)
  | (l', true) => fixL c l' e r
  | (l', false) => some (node c l' e r, false)

def afterR (c : Color) (l : Tree) (e : Elem) : Tree × Bool → Option (Tree × Bool)
  | (r', true) => fixR c l e r'
  | (r', false) => some (node c l e r', false)

/-- unlink the leftmost node of `node c l e r` (recursion on `l`):
(its element, the remaining tree, short) -/
def popMin (c : Color) (e : Elem) (r : Tree) : Tree → Option (Elem × Tree × Bool)
  | nil => some (e, removeOne c r)
  | node lc ll le lr =>
    match popMin lc le lr ll with
    | none => none
    | some (m, res) =>
      match afterL c e r res with
      | none => none
      | some res' => some (m, res')

/-- __cstl_rbtree_erase of the node `node c l e r`.  With two children the
successor's element moves here, the position keeps its colour, and the colour
that leaves the tree is the successor's. -/
def delRoot (c : Color) (l : Tree) (_e : Elem) (r : Tree) : Option (Tree × Bool) :=
  match l with
  | nil => some (removeOne c r)
  | node .. =>
    match r with
    | nil => some (removeOne c l)
    | node rc rl re rr =>
      match popMin rc re rr rl with
      | none => none
      | some (m, res) => afterR c l m res

def del (k : Int) : Tree → Option (Tree × Bool)
  | nil => some (nil, false)
  | node c l e r =>
    if k = e.key then delRoot c l e r
    else if k < e.key then
      match del k l with
      | none => none
      | some res => afterL c e r res
    else
      match del k r with
      | none => none
      | some res => afterR c l e res

/-- cstl_rbtree_erase: `none` = NULL dereference; otherwise the new tree and the
erased element.  When the loop reaches the root, the root is painted black. -/
def rbErase (k : Int) (t : Tree) : Option (Tree × Option Elem) :=
  match (find k t).1 with
  | none => some (t, none)
  | some e =>
    match del k t with
    | none => none
    | some (t', s) => some (if s then t'.blacken else t', some e)

/-! ### src/map.c -/

inductive MEv where
  | alloc (id : Nat)
  | allocFail
  | free (id : Nat)
  | cb (kp val : Nat)
deriving DecidableEq, Repr

structure MapSt where
  t : Tree := nil
  size : Nat := 0
  /-- next block id the allocator hands out -/
  next : Nat := 1
deriving Repr, Inhabited

/-- iterator: `none` = end; otherwise key pointer, value pointer, node -/
abbrev Iter := Option (Nat × Nat × Nat)

def iterOf (e : Elem) : Iter := some (e.kp, e.val, e.id)

/-- cstl_map_insert(key object `kp` whose value is `k`, value `v`); `allocOk` is
malloc's answer should it be called.  `none` = NULL dereference. -/
def mapInsert (m : MapSt) (k : Int) (kp v : Nat) (allocOk : Bool) :
    Option (MapSt × Int × Iter × List MEv) :=
  match find k m.t with
  | (some e, _) => some (m, 1, iterOf e, [])
  | (none, par) =>
    if !allocOk then some (m, -1, none, [.allocFail])
    else
      let x : Elem := { key := k, id := m.next, kp := kp, val := v }
      let t' : Option (Option Tree) :=
        match par with
        | none => some (rbInsert x m.t)
        | some p => rbInsertAt p.id x m.t
      match t' with
      | some (some t') =>
        some ({ t := t', size := m.size + 1, next := m.next + 1 }, 0, iterOf x, [.alloc m.next])
      | _ => none

def mapFind (m : MapSt) (k : Int) : Iter :=
  match (find k m.t).1 with
  | some e => iterOf e
  | none => none

/-- cstl_map_erase_iterator on an iterator obtained from find/insert for an
entry that is still in the map: the node is the unique one with that key. -/
def mapEraseNode (m : MapSt) (e : Elem) : Option (MapSt × List MEv) :=
  match rbErase e.key m.t with
  | none => none
  | some (t', _) => some ({ m with t := t', size := m.size - 1 }, [.free e.id])

/-- cstl_map_erase: 0 and the stored pointers (node field cleared), or -1 and end -/
def mapErase (m : MapSt) (k : Int) : Option (MapSt × Int × Iter × List MEv) :=
  match (find k m.t).1 with
  | none => some (m, -1, none, [])
  | some e =>
    match mapEraseNode m e with
    | none => none
    | some (m', log) => some (m', 0, some (e.kp, e.val, 0), log)

/-- cstl_map_clear: per node (tree clear order) the callback, if any, with the
stored pointers, then the node is freed -/
def mapClear (m : MapSt) (withCb : Bool) : MapSt × List MEv :=
  let log := (clearOrder m.t).flatMap fun e =>
    if withCb then [MEv.cb e.kp e.val, MEv.free e.id] else [MEv.free e.id]
  ({ m with t := nil, size := 0 }, log)

end Cstl.Tree
