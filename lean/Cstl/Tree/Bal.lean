import Cstl.Tree.Model
/-
Balance invariant of the red-black model (helper lemmas for C02).

`Bal t c n`: `t` has no red node with a red child, every path from its root to
a missing child crosses `n` black nodes, and its root has colour `c` (a missing
tree counts as black).
-/
namespace Cstl.Tree
open Color Tree

inductive Bal : Tree → Color → Nat → Prop where
  | nil : Bal nil black 0
  | red {l r : Tree} {e : Elem} {n : Nat} :
      Bal l black n → Bal r black n → Bal (node red l e r) red n
  | black {l r : Tree} {e : Elem} {n : Nat} {c₁ c₂ : Color} :
      Bal l c₁ n → Bal r c₂ n → Bal (node black l e r) black (n + 1)

theorem Bal.isBlack_of_black {t : Tree} {n : Nat} (h : Bal t Color.black n) : t.isBlack = true := by
  cases h <;> rfl

theorem Bal.isRed_of_black {t : Tree} {n : Nat} (h : Bal t Color.black n) : t.isRed = false := by
  cases h <;> rfl

theorem Bal.isRed_of_red {t : Tree} {n : Nat} (h : Bal t Color.red n) : t.isRed = true := by
  cases h; rfl

/-- painting the root black: a red root gains one black, a black root keeps its height -/
theorem Bal.blacken_red {t : Tree} {n : Nat} (h : Bal t Color.red n) : Bal t.blacken Color.black (n + 1) := by
  cases h with
  | red hl hr => exact Bal.black hl hr

theorem Bal.blacken_black {t : Tree} {n : Nat} (h : Bal t Color.black n) : Bal t.blacken Color.black n := by
  cases h with
  | nil => exact Bal.nil
  | black hl hr => exact Bal.black hl hr

/-! ### insert -/

/-- what `ins` hands to the parent of a subtree that satisfied `Bal _ c n` -/
inductive InsOK : InsRes → Color → Nat → Prop where
  | ok {t : Tree} {c : Color} {n : Nat} : Bal t c n → InsOK (.ok t) c n
  | newRed {l r : Tree} {x : Elem} {n : Nat} :
      Bal l black n → Bal r black n → InsOK (.newRed l x r) black n
  | rrL {a b pr : Tree} {x p : Elem} {n : Nat} :
      Bal a black n → Bal b black n → Bal pr black n → InsOK (.redRedL a x b p pr) red n
  | rrR {pl b c' : Tree} {x p : Elem} {n : Nat} :
      Bal pl black n → Bal b black n → Bal c' black n → InsOK (.redRedR pl p b x c') red n

theorem balInsL_black {res : InsRes} {cl cr : Color} {n : Nat} {e : Elem} {r : Tree}
    (h : InsOK res cl n) (hr : Bal r cr n) : InsOK (balInsL black res e r) black (n + 1) := by
  cases h with
  | ok ht => exact InsOK.ok (Bal.black ht hr)
  | newRed ha hb => exact InsOK.ok (Bal.black (Bal.red ha hb) hr)
  | rrL ha hb hpr =>
    cases hr with
    | nil => exact InsOK.ok (Bal.black (Bal.red ha hb) (Bal.red hpr Bal.nil))
    | red h1 h2 =>
      exact InsOK.newRed (Bal.black (Bal.red ha hb) hpr) (Bal.black h1 h2)
    | black h1 h2 =>
      exact InsOK.ok (Bal.black (Bal.red ha hb) (Bal.red hpr (Bal.black h1 h2)))
  | rrR hpl hb hc =>
    cases hr with
    | nil => exact InsOK.ok (Bal.black (Bal.red hpl hb) (Bal.red hc Bal.nil))
    | red h1 h2 =>
      exact InsOK.newRed (Bal.black hpl (Bal.red hb hc)) (Bal.black h1 h2)
    | black h1 h2 =>
      exact InsOK.ok (Bal.black (Bal.red hpl hb) (Bal.red hc (Bal.black h1 h2)))

theorem balInsL_red {res : InsRes} {n : Nat} {e : Elem} {r : Tree}
    (h : InsOK res black n) (hr : Bal r black n) : InsOK (balInsL red res e r) red n := by
  cases h with
  | ok ht => exact InsOK.ok (Bal.red ht hr)
  | newRed ha hb => exact InsOK.rrL ha hb hr

theorem balInsR_black {res : InsRes} {cl cr : Color} {n : Nat} {e : Elem} {l : Tree}
    (hl : Bal l cl n) (h : InsOK res cr n) : InsOK (balInsR black l e res) black (n + 1) := by
  cases h with
  | ok ht => exact InsOK.ok (Bal.black hl ht)
  | newRed ha hb => exact InsOK.ok (Bal.black hl (Bal.red ha hb))
  | rrL ha hb hpr =>
    cases hl with
    | nil => exact InsOK.ok (Bal.black (Bal.red Bal.nil ha) (Bal.red hb hpr))
    | red h1 h2 =>
      exact InsOK.newRed (Bal.black h1 h2) (Bal.black (Bal.red ha hb) hpr)
    | black h1 h2 =>
      exact InsOK.ok (Bal.black (Bal.red (Bal.black h1 h2) ha) (Bal.red hb hpr))
  | rrR hpl hb hc =>
    cases hl with
    | nil => exact InsOK.ok (Bal.black (Bal.red Bal.nil hpl) (Bal.red hb hc))
    | red h1 h2 =>
      exact InsOK.newRed (Bal.black h1 h2) (Bal.black hpl (Bal.red hb hc))
    | black h1 h2 =>
      exact InsOK.ok (Bal.black (Bal.red (Bal.black h1 h2) hpl) (Bal.red hb hc))

theorem balInsR_red {res : InsRes} {n : Nat} {e : Elem} {l : Tree}
    (hl : Bal l black n) (h : InsOK res black n) : InsOK (balInsR red l e res) red n := by
  cases h with
  | ok ht => exact InsOK.ok (Bal.red hl ht)
  | newRed ha hb => exact InsOK.rrR hl ha hb

theorem ins_ok (x : Elem) {t : Tree} {c : Color} {n : Nat} (h : Bal t c n) : InsOK (ins x t) c n := by
  induction h with
  | nil => exact InsOK.newRed Bal.nil Bal.nil
  | red hl hr ihl ihr =>
    simp only [ins]
    split
    · exact balInsL_red ihl hr
    · exact balInsR_red hl ihr
  | black hl hr ihl ihr =>
    simp only [ins]
    split
    · exact balInsL_black ihl hr
    · exact balInsR_black hl ihr

theorem insAt_ok (hint : Nat) (x : Elem) {t : Tree} {c : Color} {n : Nat} (h : Bal t c n) :
    ∀ res, insAt hint x t = some res → InsOK res c n := by
  induction h with
  | nil => intro res hres; simp [insAt] at hres
  | @red l r e n hl hr ihl ihr =>
    intro res hres
    simp only [insAt] at hres
    split at hres
    · cases hres; exact ins_ok x (Bal.red hl hr)
    · split at hres
      · rename_i res' hl'
        cases hres; exact balInsL_red (ihl _ hl') hr
      · split at hres
        · rename_i res' hr'
          cases hres; exact balInsR_red hl (ihr _ hr')
        · cases hres
  | @black l r e n c₁ c₂ hl hr ihl ihr =>
    intro res hres
    simp only [insAt] at hres
    split at hres
    · cases hres; exact ins_ok x (Bal.black hl hr)
    · split at hres
      · rename_i res' hl'
        cases hres; exact balInsL_black (ihl _ hl') hr
      · split at hres
        · rename_i res' hr'
          cases hres; exact balInsR_black hl (ihr _ hr')
        · cases hres

theorem finishIns_ok {res : InsRes} {n : Nat} (h : InsOK res black n) :
    ∃ t' m, finishIns res = some t' ∧ Bal t' black m := by
  cases h with
  | ok ht => exact ⟨_, _, rfl, ht.blacken_black⟩
  | newRed ha hb => exact ⟨_, _, rfl, Bal.black ha hb⟩

/-! ### erase -/

/-- black height of a node of colour `c` over children of black height `n` -/
def bump : Color → Nat → Nat
  | black, n => n + 1
  | red, n => n

/-- what `del` hands to the parent of a subtree that satisfied `Bal _ c n` -/
inductive DelOK : Tree × Bool → Color → Nat → Prop where
  | full {t : Tree} {c c' : Color} {n : Nat} :
      Bal t c' n → (c = black → c' = black) → DelOK (t, false) c n
  | short {t : Tree} {n : Nat} : Bal t black n → DelOK (t, true) black (n + 1)

theorem fixBL_ok {c : Color} {l r : Tree} {e : Elem} {m : Nat}
    (hl : Bal l black m) (hr : Bal r black (m + 1)) :
    ∃ res, fixBL c l e r = some res ∧ DelOK res c (bump c (m + 1)) := by
  cases hr with
  | @black wl wr we _ c₁ c₂ hwl hwr =>
    cases hwr with
    | red h1 h2 =>
      -- far nephew red
      refine ⟨_, rfl, ?_⟩
      cases c with
      | red => exact DelOK.full (Bal.red (Bal.black hl hwl) (Bal.black h1 h2)) (by simp)
      | black => exact DelOK.full (Bal.black (Bal.black hl hwl) (Bal.black h1 h2)) (by simp)
    | nil =>
      cases hwl with
      | red h1 h2 =>
        refine ⟨_, rfl, ?_⟩
        cases c with
        | red => exact DelOK.full (Bal.red (Bal.black hl h1) (Bal.black h2 Bal.nil)) (by simp)
        | black => exact DelOK.full (Bal.black (Bal.black hl h1) (Bal.black h2 Bal.nil)) (by simp)
      | nil =>
        refine ⟨_, rfl, ?_⟩
        cases c with
        | red => exact DelOK.full (Bal.black hl (Bal.red Bal.nil Bal.nil)) (by simp)
        | black => exact DelOK.short (Bal.black hl (Bal.red Bal.nil Bal.nil))
    | black h3 h4 =>
      cases hwl with
      | red h1 h2 =>
        refine ⟨_, rfl, ?_⟩
        cases c with
        | red => exact DelOK.full (Bal.red (Bal.black hl h1) (Bal.black h2 (Bal.black h3 h4))) (by simp)
        | black => exact DelOK.full (Bal.black (Bal.black hl h1) (Bal.black h2 (Bal.black h3 h4))) (by simp)
      | black h1 h2 =>
        refine ⟨_, rfl, ?_⟩
        cases c with
        | red => exact DelOK.full (Bal.black hl (Bal.red (Bal.black h1 h2) (Bal.black h3 h4))) (by simp)
        | black => exact DelOK.short (Bal.black hl (Bal.red (Bal.black h1 h2) (Bal.black h3 h4)))

theorem fixBR_ok {c : Color} {l r : Tree} {e : Elem} {m : Nat}
    (hl : Bal l black (m + 1)) (hr : Bal r black m) :
    ∃ res, fixBR c l e r = some res ∧ DelOK res c (bump c (m + 1)) := by
  cases hl with
  | @black wl wr we _ c₁ c₂ hwl hwr =>
    cases hwl with
    | red h1 h2 =>
      refine ⟨_, rfl, ?_⟩
      cases c with
      | red => exact DelOK.full (Bal.red (Bal.black h1 h2) (Bal.black hwr hr)) (by simp)
      | black => exact DelOK.full (Bal.black (Bal.black h1 h2) (Bal.black hwr hr)) (by simp)
    | nil =>
      cases hwr with
      | red h1 h2 =>
        refine ⟨_, rfl, ?_⟩
        cases c with
        | red => exact DelOK.full (Bal.red (Bal.black Bal.nil h1) (Bal.black h2 hr)) (by simp)
        | black => exact DelOK.full (Bal.black (Bal.black Bal.nil h1) (Bal.black h2 hr)) (by simp)
      | nil =>
        refine ⟨_, rfl, ?_⟩
        cases c with
        | red => exact DelOK.full (Bal.black (Bal.red Bal.nil Bal.nil) hr) (by simp)
        | black => exact DelOK.short (Bal.black (Bal.red Bal.nil Bal.nil) hr)
    | black h3 h4 =>
      cases hwr with
      | red h1 h2 =>
        refine ⟨_, rfl, ?_⟩
        cases c with
        | red => exact DelOK.full (Bal.red (Bal.black (Bal.black h3 h4) h1) (Bal.black h2 hr)) (by simp)
        | black => exact DelOK.full (Bal.black (Bal.black (Bal.black h3 h4) h1) (Bal.black h2 hr)) (by simp)
      | black h1 h2 =>
        refine ⟨_, rfl, ?_⟩
        cases c with
        | red => exact DelOK.full (Bal.black (Bal.red (Bal.black h3 h4) (Bal.black h1 h2)) hr) (by simp)
        | black => exact DelOK.short (Bal.black (Bal.red (Bal.black h3 h4) (Bal.black h1 h2)) hr)

/-- the sibling of a short side exists (first conjunct) and the fix-up restores balance -/
theorem fixL_ok {c cr : Color} {l r : Tree} {e : Elem} {m : Nat}
    (hl : Bal l black m) (hr : Bal r cr (m + 1)) (hc : c = red → cr = black) :
    ∃ res, fixL c l e r = some res ∧ DelOK res c (bump c (m + 1)) := by
  cases hr with
  | @red wl wr we _ h1 h2 =>
    -- red sibling: the parent is black
    have hcb : c = black := by
      cases c with
      | red => exact absurd (hc rfl) (by simp)
      | black => rfl
    subst hcb
    obtain ⟨res, hres, hok⟩ := fixBL_ok (c := red) (e := e) hl h1
    cases hok with
    | @full t _ c' _ hb _ =>
      refine ⟨(node black t we wr, false), by simp [fixL, hres], ?_⟩
      exact DelOK.full (Bal.black hb h2) (by simp)
  | @black wl wr we _ c₁ c₂ h1 h2 =>
    have := fixBL_ok (c := c) (e := e) hl (Bal.black (e := we) h1 h2)
    simpa [fixL] using this

theorem fixR_ok {c cl : Color} {l r : Tree} {e : Elem} {m : Nat}
    (hl : Bal l cl (m + 1)) (hr : Bal r black m) (hc : c = red → cl = black) :
    ∃ res, fixR c l e r = some res ∧ DelOK res c (bump c (m + 1)) := by
  cases hl with
  | @red wl wr we _ h1 h2 =>
    have hcb : c = black := by
      cases c with
      | red => exact absurd (hc rfl) (by simp)
      | black => rfl
    subst hcb
    obtain ⟨res, hres, hok⟩ := fixBR_ok (c := red) (e := e) h2 hr
    cases hok with
    | @full t _ c' _ hb _ =>
      refine ⟨(node black wl we t, false), by simp [fixR, hres], ?_⟩
      exact DelOK.full (Bal.black h1 hb) (by simp)
  | @black wl wr we _ c₁ c₂ h1 h2 =>
    have := fixBR_ok (c := c) (e := e) (Bal.black (e := we) h1 h2) hr
    simpa [fixR] using this

theorem removeOne_ok {c cx : Color} {x : Tree} (hx : Bal x cx 0) (hc : c = red → cx = black) :
    DelOK (removeOne c x) c (bump c 0) := by
  cases c with
  | red =>
    have := hc rfl
    subst this
    exact DelOK.full hx (by simp)
  | black =>
    cases hx with
    | nil => exact DelOK.short Bal.nil
    | red h1 h2 => exact DelOK.full (Bal.black h1 h2) (by simp)

theorem afterL_ok {c cl cr : Color} {res : Tree × Bool} {e : Elem} {r : Tree} {n : Nat}
    (h : DelOK res cl n) (hr : Bal r cr n) (hc : c = red → cl = black ∧ cr = black) :
    ∃ res', afterL c e r res = some res' ∧ DelOK res' c (bump c n) := by
  cases h with
  | @full t _ c' _ ht hcc =>
    refine ⟨_, rfl, ?_⟩
    cases c with
    | red =>
      obtain ⟨h1, h2⟩ := hc rfl
      subst h1; subst h2
      have := hcc rfl
      subst this
      exact DelOK.full (Bal.red ht hr) (by simp)
    | black => exact DelOK.full (Bal.black ht hr) (by simp)
  | short ht =>
    exact fixL_ok ht hr (fun h => (hc h).2)

theorem afterR_ok {c cl cr : Color} {res : Tree × Bool} {e : Elem} {l : Tree} {n : Nat}
    (hl : Bal l cl n) (h : DelOK res cr n) (hc : c = red → cl = black ∧ cr = black) :
    ∃ res', afterR c l e res = some res' ∧ DelOK res' c (bump c n) := by
  cases h with
  | @full t _ c' _ ht hcc =>
    refine ⟨_, rfl, ?_⟩
    cases c with
    | red =>
      obtain ⟨h1, h2⟩ := hc rfl
      subst h1; subst h2
      have := hcc rfl
      subst this
      exact DelOK.full (Bal.red hl ht) (by simp)
    | black => exact DelOK.full (Bal.black hl ht) (by simp)
  | short ht =>
    exact fixR_ok hl ht (fun h => (hc h).1)

/-- the children of a balanced node, with the colour side condition -/
theorem Bal.node_inv {c c' : Color} {l r : Tree} {e : Elem} {n : Nat} (h : Bal (node c l e r) c' n) :
    c' = c ∧ ∃ m cl cr, n = bump c m ∧ Bal l cl m ∧ Bal r cr m ∧
      (c = Color.red → cl = Color.black ∧ cr = Color.black) := by
  cases h with
  | red hl hr => exact ⟨rfl, _, _, _, rfl, hl, hr, fun _ => ⟨rfl, rfl⟩⟩
  | black hl hr => exact ⟨rfl, _, _, _, rfl, hl, hr, by simp⟩

theorem popMin_ok : ∀ (l : Tree) {c c' : Color} {e : Elem} {r : Tree} {n : Nat},
    Bal (node c l e r) c' n →
    ∃ m res, popMin c e r l = some (m, res) ∧ DelOK res c n := by
  intro l
  induction l with
  | nil =>
    intro c c' e r n h
    obtain ⟨_, m, cl, cr, hn, hl, hr, hc⟩ := h.node_inv
    cases hl
    subst hn
    exact ⟨_, _, rfl, removeOne_ok hr (fun h => (hc h).2)⟩
  | node lc ll le lr ihl _ =>
    intro c c' e r n h
    obtain ⟨_, m, cl, cr, hn, hl, hr, hc⟩ := h.node_inv
    subst hn
    obtain ⟨hcl, _⟩ := hl.node_inv
    subst hcl
    obtain ⟨mn, res, hres, hok⟩ := ihl hl
    obtain ⟨res', hres', hok'⟩ := afterL_ok (e := e) hok hr hc
    exact ⟨mn, res', by simp [popMin, hres, hres'], hok'⟩

theorem delRoot_ok {c c' : Color} {l r : Tree} {e : Elem} {n : Nat} (h : Bal (node c l e r) c' n) :
    ∃ res, delRoot c l e r = some res ∧ DelOK res c n := by
  obtain ⟨_, m, cl, cr, hn, hl, hr, hc⟩ := h.node_inv
  subst hn
  cases l with
  | nil =>
    cases hl
    exact ⟨_, rfl, removeOne_ok hr (fun h => (hc h).2)⟩
  | node lc ll le lr =>
    cases r with
    | nil =>
      cases hr
      exact ⟨_, rfl, removeOne_ok hl (fun h => (hc h).1)⟩
    | node rc rl re rr =>
      obtain ⟨hcr, _⟩ := hr.node_inv
      subst hcr
      obtain ⟨mn, res, hres, hok⟩ := popMin_ok rl hr
      obtain ⟨res', hres', hok'⟩ := afterR_ok (e := mn) hl hok hc
      exact ⟨res', by simp [delRoot, hres, hres'], hok'⟩

theorem del_ok (k : Int) {t : Tree} {c : Color} {n : Nat} (h : Bal t c n) :
    ∃ res, del k t = some res ∧ DelOK res c n := by
  induction t generalizing c n with
  | nil =>
    cases h
    exact ⟨_, rfl, DelOK.full Bal.nil (by simp)⟩
  | node tc l e r ihl ihr =>
    obtain ⟨hc', m, cl, cr, hn, hl, hr, hc⟩ := h.node_inv
    subst hc'
    simp only [del]
    split
    · exact delRoot_ok h
    · subst hn
      split
      · obtain ⟨res, hres, hok⟩ := ihl hl
        obtain ⟨res', hres', hok'⟩ := afterL_ok (e := e) hok hr hc
        exact ⟨res', by simp [hres, hres'], hok'⟩
      · obtain ⟨res, hres, hok⟩ := ihr hr
        obtain ⟨res', hres', hok'⟩ := afterR_ok (e := e) hl hok hc
        exact ⟨res', by simp [hres, hres'], hok'⟩

/-! ### size and height -/

theorem Bal.size_ge {t : Tree} {c : Color} {n : Nat} (h : Bal t c n) : 2 ^ n ≤ t.size + 1 := by
  induction h with
  | nil => simp [Tree.size]
  | red _ _ ihl ihr => simp only [Tree.size]; omega
  | black _ _ ihl ihr => simp only [Tree.size, Nat.pow_succ]; omega

theorem Bal.height_le {t : Tree} {c : Color} {n : Nat} (h : Bal t c n) :
    t.height ≤ 2 * n + (if c = Color.red then 1 else 0) := by
  induction h with
  | nil => simp [Tree.height]
  | red _ _ ihl ihr => simp only [Tree.height] at *; simp at *; omega
  | @black _ _ _ _ c₁ c₂ _ _ ihl ihr =>
    simp only [Tree.height] at *
    cases c₁ <;> cases c₂ <;> simp at * <;> omega

end Cstl.Tree
