import Cstl.Tree.PropsC01
/-
Helper lemmas for C08: strict order (= one entry per key), the abstraction of
a map's tree to a partial function on keys, the allocation ledger.
-/
namespace Cstl.Tree
open Color Tree

/-- in-order keys strictly increasing: at most one entry per key -/
def StrictSorted (t : Tree) : Prop := t.inorder.Pairwise (fun a b => a.key < b.key)

theorem StrictSorted.sorted {t : Tree} (h : StrictSorted t) : Sorted t :=
  List.Pairwise.imp (fun hab => Int.le_of_lt hab) h

theorem StrictSorted.keys_nodup {t : Tree} (h : StrictSorted t) : (t.inorder.map (·.key)).Nodup := by
  unfold List.Nodup
  rw [List.pairwise_map]
  exact List.Pairwise.imp (fun hab => Int.ne_of_lt hab) h

theorem strictSorted_of {t : Tree} (hs : Sorted t) (hn : (t.inorder.map (·.key)).Nodup) : StrictSorted t := by
  unfold List.Nodup at hn
  rw [List.pairwise_map] at hn
  exact List.Pairwise.imp (fun ⟨h1, h2⟩ => by omega) (List.Pairwise.and hs hn)

/-- the stored pointers and the node of an entry -/
def triple (e : Elem) : Nat × Nat × Nat := (e.kp, e.val, e.id)

/-- the map a tree represents: key ↦ (stored key pointer, stored value pointer, node) -/
def absMap (t : Tree) (k : Int) : Option (Nat × Nat × Nat) :=
  (t.inorder.find? (fun e => e.key == k)).map triple

theorem absMap_eq_none {t : Tree} {k : Int} : absMap t k = none ↔ ∀ e ∈ t.inorder, e.key ≠ k := by
  simp [absMap, List.find?_eq_none]

theorem find?_unique {l : List Elem} {k : Int} {e : Elem} (hp : l.Pairwise (fun a b => a.key < b.key))
    (he : e ∈ l) (hk : e.key = k) : l.find? (fun e => e.key == k) = some e := by
  induction l with
  | nil => simp at he
  | cons a l ih =>
    rw [List.pairwise_cons] at hp
    simp only [List.mem_cons] at he
    rcases he with rfl | he
    · simp [hk]
    · have := hp.1 e he
      have hne : ¬ a.key = k := by omega
      simp [hne, ih hp.2 he]

theorem absMap_eq_some {t : Tree} (hs : StrictSorted t) {k : Int} {it : Nat × Nat × Nat} :
    absMap t k = some it ↔ ∃ e ∈ t.inorder, e.key = k ∧ triple e = it := by
  constructor
  · intro h
    simp only [absMap, Option.map_eq_some_iff] at h
    obtain ⟨e, he, rfl⟩ := h
    have := List.find?_some he
    exact ⟨e, List.mem_of_find?_eq_some he, by simpa using this, rfl⟩
  · rintro ⟨e, he, hk, rfl⟩
    simp [absMap, find?_unique hs he hk]

/-- on a one-entry-per-key tree the descent of `find` yields the entry the abstraction names -/
theorem find_eq_absMap {t : Tree} (hs : StrictSorted t) (k : Int) :
    ((find k t).1).map triple = absMap t k := by
  cases hf : (find k t).1 with
  | none =>
    have := find_none hs.sorted hf
    simp [absMap_eq_none.2 this]
  | some e =>
    obtain ⟨hm, hk⟩ := find_some hf
    simp [(absMap_eq_some hs).2 ⟨e, hm, hk, rfl⟩]

/-! ### allocation ledger -/

/-- replay a log on the set of live blocks; `none` = an allocation of a block
that is live already or a free of a block that is not live -/
def ledger : List Nat → List MEv → Option (List Nat)
  | live, [] => some live
  | live, .alloc i :: rest => if i ∈ live then none else ledger (i :: live) rest
  | live, .free i :: rest => if i ∈ live then ledger (live.erase i) rest else none
  | live, .allocFail :: rest => ledger live rest
  | live, .cb _ _ :: rest => ledger live rest

/-- the log `clear` produces for the entries `es` -/
def clearLog (withCb : Bool) (es : List Elem) : List MEv :=
  es.flatMap fun e => if withCb then [MEv.cb e.kp e.val, MEv.free e.id] else [MEv.free e.id]

theorem ledger_clearLog (withCb : Bool) : ∀ (es : List Elem) (live : List Nat),
    live.Perm (es.map (·.id)) → (es.map (·.id)).Nodup → ledger live (clearLog withCb es) = some [] := by
  intro es
  induction es with
  | nil =>
    intro live hp _
    have : live = [] := by simpa using hp
    subst this
    rfl
  | cons e es ih =>
    intro live hp hnd
    simp only [List.map_cons, List.nodup_cons] at hnd
    have hmem : e.id ∈ live := hp.mem_iff.2 (by simp)
    have hp' : (live.erase e.id).Perm (es.map (·.id)) := by
      have := hp.erase e.id
      simpa using this
    have := ih (live.erase e.id) hp' hnd.2
    cases withCb <;> simpa [clearLog, ledger, hmem] using this

end Cstl.Tree
