import Cstl.Tree.MapLemmas
/-
C08 — the map keeps exactly one entry per key and never replaces or loses one
silently.

`absMap m.t : Key → Option (key pointer × value pointer × node)` is the partial
function the map's tree represents (MapLemmas.lean); `MapInv` is the invariant:
red-black rules (C02), in-order keys strictly increasing (= one entry per key),
`size` member right, node blocks distinct and all handed out by the allocator.
-/
namespace Cstl.Tree
open Color Tree

structure MapInv (m : MapSt) : Prop where
  rb : Inv m.t
  /-- one entry per key -/
  strict : StrictSorted m.t
  size : m.size = m.t.size
  /-- every node is a block the allocator has handed out -/
  fresh : ∀ i ∈ m.t.ids, i < m.next
  nodup : m.t.ids.Nodup

theorem mapInv_init : MapInv {} :=
  ⟨inv_nil, by simp [StrictSorted], rfl, by simp, by simp⟩

theorem find_fst_of_absMap_some {m : MapSt} (h : MapInv m) {k : Int} {it : Nat × Nat × Nat}
    (ha : absMap m.t k = some it) : ∃ e, (find k m.t).1 = some e ∧ triple e = it ∧ e ∈ m.t.inorder ∧ e.key = k := by
  have := find_eq_absMap h.strict k
  rw [ha] at this
  cases hf : (find k m.t).1 with
  | none => simp [hf] at this
  | some e =>
    simp [hf] at this
    exact ⟨e, rfl, this, (find_some hf).1, (find_some hf).2⟩

theorem find_fst_of_absMap_none {m : MapSt} (h : MapInv m) {k : Int}
    (ha : absMap m.t k = none) : (find k m.t).1 = none := by
  have := find_eq_absMap h.strict k
  rw [ha] at this
  cases hf : (find k m.t).1 with
  | none => rfl
  | some e => simp [hf] at this

/-- inserting an existing key returns 1 with an iterator to the existing entry;
nothing changes (stored key and value pointers untouched) and nothing is allocated -/
theorem mapInsert_existing {m : MapSt} (h : MapInv m) {k : Int} {it : Nat × Nat × Nat} (kp v : Nat) (a : Bool)
    (ha : absMap m.t k = some it) : mapInsert m k kp v a = some (m, 1, some it, []) := by
  obtain ⟨e, hf, ht, _, _⟩ := find_fst_of_absMap_some h ha
  unfold mapInsert
  cases hfind : find k m.t with
  | mk f par =>
    rw [hfind] at hf
    simp only at hf
    subst hf
    simp [iterOf, ← ht, triple]

/-- malloc failure: -1, the end iterator, state unchanged -/
theorem mapInsert_fail {m : MapSt} (h : MapInv m) {k : Int} (kp v : Nat)
    (ha : absMap m.t k = none) : mapInsert m k kp v false = some (m, -1, none, [MEv.allocFail]) := by
  have hf := find_fst_of_absMap_none h ha
  unfold mapInsert
  cases hfind : find k m.t with
  | mk f par =>
    rw [hfind] at hf
    simp only at hf
    subst hf
    simp

theorem keys_perm_cons {t t' : Tree} {x : Elem} (hp : t'.inorder.Perm (x :: t.inorder)) :
    (t'.inorder.map (·.key)).Perm (x.key :: t.inorder.map (·.key)) := by
  simpa using hp.map (·.key)

/-- inserting a new key returns 0 with an iterator to the new entry; exactly that
entry is added, the node is the block malloc returned -/
theorem mapInsert_new {m : MapSt} (h : MapInv m) {k : Int} (kp v : Nat)
    (ha : absMap m.t k = none) :
    ∃ m', mapInsert m k kp v true = some (m', 0, some (kp, v, m.next), [MEv.alloc m.next]) ∧ MapInv m' ∧
      (∀ k', absMap m'.t k' = if k' = k then some (kp, v, m.next) else absMap m.t k') ∧
      m'.size = m.size + 1 ∧ m'.next = m.next + 1 ∧ m'.t.ids.Perm (m.next :: m.t.ids) := by
  have hf := find_fst_of_absMap_none h ha
  let x : Elem := { key := k, id := m.next, kp := kp, val := v }
  obtain ⟨t', ht', hi'⟩ := rbInsert_inv x h.rb
  obtain ⟨hperm, hsorted, hsize⟩ := rbInsert_spec ht'
  have hnone : ∀ e ∈ m.t.inorder, e.key ≠ k := absMap_eq_none.1 ha
  have hnext : m.next ∉ m.t.ids := fun hm => Nat.lt_irrefl _ (h.fresh _ hm)
  have hidperm : t'.ids.Perm (m.next :: m.t.ids) := by
    simpa [Tree.ids] using hperm.map (·.id)
  have hstrict : StrictSorted t' := by
    apply strictSorted_of (hsorted h.strict.sorted)
    rw [(keys_perm_cons hperm).nodup_iff, List.nodup_cons]
    refine ⟨?_, h.strict.keys_nodup⟩
    simp only [List.mem_map, not_exists, not_and]
    intro e he hk
    exact hnone e he hk
  have hinv : MapInv { t := t', size := m.size + 1, next := m.next + 1 } := by
    refine ⟨hi', hstrict, by simp [hsize, h.size], ?_, ?_⟩
    · intro i hi
      rcases List.mem_cons.1 (hidperm.mem_iff.1 hi) with rfl | hi
      · simp
      · have := h.fresh i hi; simp; omega
    · exact hidperm.nodup_iff.2 (List.nodup_cons.2 ⟨hnext, h.nodup⟩)
  refine ⟨{ t := t', size := m.size + 1, next := m.next + 1 }, ?_, hinv, ?_, rfl, rfl, hidperm⟩
  · unfold mapInsert
    cases hfind : find k m.t with
    | mk f par =>
      rw [hfind] at hf
      simp only at hf
      subst hf
      cases par with
      | none => simp [ht', iterOf, x]
      | some p =>
        have hp : (find x.key m.t).2 = some p := by simp [x, hfind]
        have := rbInsertAt_find_eq x h.nodup hp
        simp only [x] at this ht'
        simp [this, ht', iterOf]
  · intro k'
    by_cases hk : k' = k
    · subst hk
      simp only [if_true]
      exact (absMap_eq_some hstrict).2 ⟨x, hperm.mem_iff.2 (by simp), rfl, rfl⟩
    · simp only [hk, if_false]
      cases hold : absMap m.t k' with
      | none =>
        apply absMap_eq_none.2
        intro e he
        rcases List.mem_cons.1 (hperm.mem_iff.1 he) with rfl | he
        · exact fun h' => hk h'.symm
        · exact absMap_eq_none.1 hold e he
      | some it =>
        obtain ⟨e, he, hek, het⟩ := (absMap_eq_some h.strict).1 hold
        exact (absMap_eq_some hstrict).2 ⟨e, hperm.mem_iff.2 (List.mem_cons_of_mem _ he), hek, het⟩

/-- find yields the stored pointers or the end iterator -/
theorem mapFind_spec {m : MapSt} (h : MapInv m) (k : Int) : mapFind m k = absMap m.t k := by
  rw [← find_eq_absMap h.strict k]
  unfold mapFind
  cases (find k m.t).1 <;> simp [iterOf, triple]

/-- what removing the entry of key `k` does to a map state -/
theorem mapEraseNode_spec {m : MapSt} (h : MapInv m) {k : Int} {e : Elem}
    (hf : (find k m.t).1 = some e) :
    ∃ m', mapEraseNode m e = some (m', [MEv.free e.id]) ∧ MapInv m' ∧
      (∀ k', absMap m'.t k' = if k' = k then none else absMap m.t k') ∧
      m'.size + 1 = m.size ∧ m'.next = m.next ∧ m.t.ids.Perm (e.id :: m'.t.ids) := by
  obtain ⟨hm, hk⟩ := find_some hf
  subst hk
  obtain ⟨t', r, hr, hi'⟩ := rbErase_inv e.key h.rb
  have hre : r = some e := by
    have := (rbErase_inorder hr).2
    simp [btErase, hf] at this
    exact this
  subst hre
  obtain ⟨_, _, hperm, hsorted, hsize⟩ := rbErase_some hr
  have hkeys : (m.t.inorder.map (·.key)).Perm (e.key :: t'.inorder.map (·.key)) := by
    simpa using hperm.map (·.key)
  have hknd := hkeys.nodup_iff.1 h.strict.keys_nodup
  have hstrict : StrictSorted t' := strictSorted_of (hsorted h.strict.sorted) (List.nodup_cons.1 hknd).2
  have hidperm : m.t.ids.Perm (e.id :: t'.ids) := by
    simpa [Tree.ids] using hperm.map (·.id)
  have hinv : MapInv { m with t := t', size := m.size - 1 } := by
    refine ⟨hi', hstrict, ?_, ?_, ?_⟩
    · simp only; rw [h.size]; omega
    · intro i hi
      exact h.fresh i (hidperm.mem_iff.2 (List.mem_cons_of_mem _ hi))
    · exact (List.nodup_cons.1 (hidperm.nodup_iff.1 h.nodup)).2
  refine ⟨{ m with t := t', size := m.size - 1 }, by simp [mapEraseNode, hr], hinv, ?_, ?_, rfl, hidperm⟩
  · intro k'
    by_cases hk : k' = e.key
    · subst hk
      simp only [if_true]
      apply absMap_eq_none.2
      intro e' he' hke
      have : e'.key ∈ t'.inorder.map (·.key) := List.mem_map.2 ⟨e', he', rfl⟩
      exact (List.nodup_cons.1 hknd).1 (hke ▸ this)
    · simp only [hk, if_false]
      cases hold : absMap m.t k' with
      | none =>
        apply absMap_eq_none.2
        intro e' he'
        exact absMap_eq_none.1 hold e' (hperm.mem_iff.2 (List.mem_cons_of_mem _ he'))
      | some it =>
        obtain ⟨e', he', hek, het⟩ := (absMap_eq_some h.strict).1 hold
        rcases List.mem_cons.1 (hperm.mem_iff.1 he') with rfl | he'
        · exact absurd hek.symm hk
        · exact (absMap_eq_some hstrict).2 ⟨e', he', hek, het⟩
  · simp only; rw [h.size]; omega

/-- erase by key: 0 and the stored pointers of the entry it removed (the node is
freed after unlinking), exactly that entry goes -/
theorem mapErase_some {m : MapSt} (h : MapInv m) {k : Int} {kp v n : Nat}
    (ha : absMap m.t k = some (kp, v, n)) :
    ∃ m', mapErase m k = some (m', 0, some (kp, v, 0), [MEv.free n]) ∧ MapInv m' ∧
      (∀ k', absMap m'.t k' = if k' = k then none else absMap m.t k') ∧
      m'.size + 1 = m.size ∧ m'.next = m.next ∧ m.t.ids.Perm (n :: m'.t.ids) := by
  obtain ⟨e, hf, ht, _, _⟩ := find_fst_of_absMap_some h ha
  obtain ⟨m', h1, h2, h3, h4, h5, h6⟩ := mapEraseNode_spec h hf
  simp only [triple, Prod.mk.injEq] at ht
  obtain ⟨rfl, rfl, rfl⟩ := ht
  exact ⟨m', by simp [mapErase, hf, h1], h2, h3, h4, h5, h6⟩

/-- erase of an absent key: -1, the end iterator, nothing changes -/
theorem mapErase_none {m : MapSt} (h : MapInv m) {k : Int} (ha : absMap m.t k = none) :
    mapErase m k = some (m, -1, none, []) := by
  simp [mapErase, find_fst_of_absMap_none h ha]

/-- clear passes every entry's key and value to the callback exactly once, frees
every node exactly once (after its callback), and leaves an empty map -/
theorem mapClear_spec {m : MapSt} (h : MapInv m) (withCb : Bool) :
    ∃ es : List Elem, es.Perm m.t.inorder ∧ (mapClear m withCb).2 = clearLog withCb es ∧
      (mapClear m withCb).1.t = nil ∧ (mapClear m withCb).1.size = 0 ∧
      ∀ live : List Nat, live.Perm m.t.ids → ledger live (mapClear m withCb).2 = some [] := by
  refine ⟨clearOrder m.t, clearOrder_perm m.t, rfl, rfl, rfl, ?_⟩
  intro live hl
  have hp : ((clearOrder m.t).map (·.id)).Perm m.t.ids := by
    simpa [Tree.ids] using (clearOrder_perm m.t).map (·.id)
  exact ledger_clearLog withCb (clearOrder m.t) live (hl.trans hp.symm) (hp.nodup_iff.2 h.nodup)

/-- size is the number of entries -/
theorem mapSize_spec {m : MapSt} (h : MapInv m) : m.size = m.t.inorder.length := by
  rw [h.size, size_eq_length]

/-! ### histories against `Key → Option (key pointer × value pointer × node)` -/

structure MSpec where
  f : Int → Option (Nat × Nat × Nat)
  /-- the block the allocator hands out next -/
  next : Nat
  /-- blocks the map has obtained from malloc and not freed -/
  live : List Nat

def MSpec.init : MSpec := ⟨fun _ => none, 1, []⟩

def MSpec.set (σ : MSpec) (k : Int) (it : Option (Nat × Nat × Nat)) : Int → Option (Nat × Nat × Nat) :=
  fun k' => if k' = k then it else σ.f k'

inductive MSpecStep : MSpec → MOp → MOut → MSpec → Prop where
  | insExisting {σ : MSpec} {k : Int} {kp v : Nat} {a : Bool} {it : Nat × Nat × Nat} :
      σ.f k = some it → MSpecStep σ (.ins k kp v a) (.ins 1 (some it) []) σ
  | insFail {σ : MSpec} {k : Int} {kp v : Nat} :
      σ.f k = none → MSpecStep σ (.ins k kp v false) (.ins (-1) none [.allocFail]) σ
  | insNew {σ : MSpec} {k : Int} {kp v : Nat} :
      σ.f k = none → σ.next ∉ σ.live →
      MSpecStep σ (.ins k kp v true) (.ins 0 (some (kp, v, σ.next)) [.alloc σ.next])
        ⟨σ.set k (some (kp, v, σ.next)), σ.next + 1, σ.next :: σ.live⟩
  | find {σ : MSpec} {k : Int} : MSpecStep σ (.find k) (.find (σ.f k)) σ
  | eraseSome {σ : MSpec} {k : Int} {kp v n : Nat} :
      σ.f k = some (kp, v, n) → n ∈ σ.live →
      MSpecStep σ (.erase k) (.erase 0 (some (kp, v, 0)) [.free n]) ⟨σ.set k none, σ.next, σ.live.erase n⟩
  | eraseNone {σ : MSpec} {k : Int} :
      σ.f k = none → MSpecStep σ (.erase k) (.erase (-1) none []) σ
  | eraseItSome {σ : MSpec} {k : Int} {kp v n : Nat} :
      σ.f k = some (kp, v, n) → n ∈ σ.live →
      MSpecStep σ (.eraseIt k) (.eraseIt (some (kp, v, n)) [.free n]) ⟨σ.set k none, σ.next, σ.live.erase n⟩
  | eraseItNone {σ : MSpec} {k : Int} :
      σ.f k = none → MSpecStep σ (.eraseIt k) (.eraseIt none []) σ
  /-- the callback order is the implementation's; each entry exactly once, its
  node freed right after, everything released at the end -/
  | clear {σ : MSpec} {cb : Bool} {es : List Elem} {log : List MEv} :
      (es.map triple).Nodup → (∀ it, it ∈ es.map triple ↔ ∃ k, σ.f k = some it) →
      log = clearLog cb es → ledger σ.live log = some [] →
      MSpecStep σ (.clear cb) (.clear log) ⟨fun _ => none, σ.next, []⟩

inductive MSpecRun : MSpec → List MOp → List MOut → MSpec → Prop where
  | nil {σ : MSpec} : MSpecRun σ [] [] σ
  | cons {σ σ' σ'' : MSpec} {op : MOp} {o : MOut} {ops : List MOp} {os : List MOut} :
      MSpecStep σ op o σ' → MSpecRun σ' ops os σ'' → MSpecRun σ (op :: ops) (o :: os) σ''

/-- how a map state represents a specification state -/
structure Rep (m : MapSt) (σ : MSpec) : Prop where
  inv : MapInv m
  abs : ∀ k, absMap m.t k = σ.f k
  next : m.next = σ.next
  live : σ.live.Perm m.t.ids

theorem rep_init : Rep {} MSpec.init :=
  ⟨mapInv_init, fun _ => rfl, rfl, by simp [MSpec.init]⟩

/-- size equals the number of live nodes, and the live nodes are exactly the nodes of the entries -/
theorem rep_size {m : MapSt} {σ : MSpec} (r : Rep m σ) : m.size = σ.live.length := by
  rw [r.live.length_eq, r.inv.size, size_eq_length]; simp [Tree.ids]

theorem rep_live_iff {m : MapSt} {σ : MSpec} (r : Rep m σ) (n : Nat) :
    n ∈ σ.live ↔ ∃ k kp v, σ.f k = some (kp, v, n) := by
  rw [r.live.mem_iff, mem_ids]
  constructor
  · rintro ⟨e, he, rfl⟩
    exact ⟨e.key, e.kp, e.val, by rw [← r.abs]; exact (absMap_eq_some r.inv.strict).2 ⟨e, he, rfl, rfl⟩⟩
  · rintro ⟨k, kp, v, hk⟩
    rw [← r.abs] at hk
    obtain ⟨e, he, _, ht⟩ := (absMap_eq_some r.inv.strict).1 hk
    exact ⟨e, he, by simp [triple] at ht; exact ht.2.2⟩

theorem triple_nodup {l : List Elem} (h : (l.map (·.id)).Nodup) : (l.map triple).Nodup := by
  have : l.map (·.id) = (l.map triple).map (fun it => it.2.2) := by simp [triple, Function.comp_def]
  rw [this] at h
  exact List.Pairwise.of_map (fun it => it.2.2) (fun a b hab heq => hab (by rw [heq])) h

/-- one map operation: never a NULL dereference; the step refines the specification -/
theorem mapStep_refines {m : MapSt} {σ : MSpec} (r : Rep m σ) (op : MOp) :
    ∃ m' o σ', mapStep m op = some (m', o) ∧ MSpecStep σ op o σ' ∧ Rep m' σ' := by
  cases op with
  | ins k kp v a =>
    cases ha : absMap m.t k with
    | some it =>
      refine ⟨m, .ins 1 (some it) [], σ, by simp [mapStep, mapInsert_existing r.inv kp v a ha], ?_, r⟩
      exact MSpecStep.insExisting (by rw [← r.abs, ha])
    | none =>
      cases a with
      | false =>
        refine ⟨m, .ins (-1) none [.allocFail], σ, by simp [mapStep, mapInsert_fail r.inv kp v ha], ?_, r⟩
        exact MSpecStep.insFail (by rw [← r.abs, ha])
      | true =>
        obtain ⟨m', h1, h2, h3, h4, h5, h6⟩ := mapInsert_new r.inv kp v ha
        have hnl : σ.next ∉ σ.live := by
          rw [← r.next, r.live.mem_iff]
          exact fun hm => Nat.lt_irrefl _ (r.inv.fresh _ hm)
        refine ⟨m', .ins 0 (some (kp, v, σ.next)) [.alloc σ.next],
          ⟨σ.set k (some (kp, v, σ.next)), σ.next + 1, σ.next :: σ.live⟩,
          by simp [mapStep, h1, r.next], MSpecStep.insNew (by rw [← r.abs, ha]) hnl, ?_⟩
        refine ⟨h2, ?_, by simp [h5, r.next], ?_⟩
        · intro k'
          rw [h3 k']
          simp only [MSpec.set, r.next, r.abs]
        · simp only
          rw [← r.next]
          exact (r.live.cons m.next).trans h6.symm
  | find k =>
    refine ⟨m, _, σ, rfl, ?_, r⟩
    rw [mapFind_spec r.inv, r.abs]
    exact MSpecStep.find
  | erase k =>
    cases ha : absMap m.t k with
    | none =>
      refine ⟨m, .erase (-1) none [], σ, by simp [mapStep, mapErase_none r.inv ha], ?_, r⟩
      exact MSpecStep.eraseNone (by rw [← r.abs, ha])
    | some it =>
      obtain ⟨kp, v, n⟩ := it
      obtain ⟨m', h1, h2, h3, h4, h5, h6⟩ := mapErase_some r.inv ha
      have hnl : n ∈ σ.live := by rw [r.live.mem_iff, h6.mem_iff]; simp
      refine ⟨m', .erase 0 (some (kp, v, 0)) [.free n], ⟨σ.set k none, σ.next, σ.live.erase n⟩, by simp [mapStep, h1],
        MSpecStep.eraseSome (by rw [← r.abs, ha]) hnl, ?_⟩
      refine ⟨h2, ?_, by simp [h5, r.next], ?_⟩
      · intro k'
        rw [h3 k']
        simp only [MSpec.set, r.abs]
      · have := (r.live.trans h6).erase n
        simpa using this
  | eraseIt k =>
    cases ha : absMap m.t k with
    | none =>
      refine ⟨m, .eraseIt none [], σ, by simp [mapStep, find_fst_of_absMap_none r.inv ha], ?_, r⟩
      exact MSpecStep.eraseItNone (by rw [← r.abs, ha])
    | some it =>
      obtain ⟨e, hf, ht, _, _⟩ := find_fst_of_absMap_some r.inv ha
      obtain ⟨m', h1, h2, h3, h4, h5, h6⟩ := mapEraseNode_spec r.inv hf
      have hnl : e.id ∈ σ.live := by rw [r.live.mem_iff, h6.mem_iff]; simp
      subst ht
      refine ⟨m', .eraseIt (iterOf e) [.free e.id], ⟨σ.set k none, σ.next, σ.live.erase e.id⟩, by simp [mapStep, hf, h1],
        ?_, ?_⟩
      · have := MSpecStep.eraseItSome (σ := σ) (k := k) (kp := e.kp) (v := e.val) (n := e.id)
          (by rw [← r.abs, ha]; rfl) hnl
        simpa [iterOf] using this
      · refine ⟨h2, ?_, by simp [h5, r.next], ?_⟩
        · intro k'
          rw [h3 k']
          simp only [MSpec.set, r.abs]
        · have := (r.live.trans h6).erase e.id
          simpa using this
  | clear cb =>
    obtain ⟨es, h1, h2, h3, h4, h5⟩ := mapClear_spec r.inv cb
    refine ⟨(mapClear m cb).1, _, ⟨fun _ => none, σ.next, []⟩, rfl, ?_, ?_⟩
    · refine MSpecStep.clear (es := es) ?_ ?_ h2 (h5 σ.live r.live)
      · apply triple_nodup
        have : (es.map (·.id)).Perm m.t.ids := by simpa [Tree.ids] using h1.map (·.id)
        exact this.nodup_iff.2 r.inv.nodup
      · intro it
        constructor
        · intro hm
          obtain ⟨e, he, rfl⟩ := List.mem_map.1 hm
          exact ⟨e.key, by rw [← r.abs]; exact (absMap_eq_some r.inv.strict).2 ⟨e, h1.mem_iff.1 he, rfl, rfl⟩⟩
        · rintro ⟨k, hk⟩
          rw [← r.abs] at hk
          obtain ⟨e, he, _, ht⟩ := (absMap_eq_some r.inv.strict).1 hk
          exact List.mem_map.2 ⟨e, h1.mem_iff.2 he, ht⟩
    · refine ⟨?_, ?_, r.next, ?_⟩
      · refine ⟨?_, ?_, ?_, ?_, ?_⟩
        · rw [h3]; exact inv_nil
        · rw [show (mapClear m cb).1.t = nil from h3]; simp [StrictSorted]
        · rw [h4, h3]; rfl
        · rw [h3]; simp
        · rw [h3]; simp
      · intro k; simp [absMap, show (mapClear m cb).1.t = nil from h3]
      · rw [h3]; simp

theorem map_runFrom_refines (ops : List MOp) : ∀ (m : MapSt) (σ : MSpec), Rep m σ →
    ∃ m' outs σ', mapRunFrom m ops = some (m', outs) ∧ MSpecRun σ ops outs σ' ∧ Rep m' σ' := by
  induction ops with
  | nil => intro m σ r; exact ⟨m, [], σ, rfl, MSpecRun.nil, r⟩
  | cons op ops ih =>
    intro m σ r
    obtain ⟨m1, o, σ1, h1, hs1, r1⟩ := mapStep_refines r op
    obtain ⟨m2, os, σ2, h2, hs2, r2⟩ := ih m1 σ1 r1
    exact ⟨m2, o :: os, σ2, by simp [mapRunFrom, h1, h2], MSpecRun.cons hs1 hs2, r2⟩

/-- every history of insert (malloc succeeding or failing), find, erase by key,
erase by iterator and clear (with or without callback) runs without a NULL
dereference, produces exactly the outputs of the `Key → Option …` specification
(return codes, iterator contents, allocation / free / callback log), and ends
in a state that represents the specification's state -/
theorem run_refines (ops : List MOp) :
    ∃ m outs σ, mapRun ops = some (m, outs) ∧ MSpecRun MSpec.init ops outs σ ∧ Rep m σ :=
  map_runFrom_refines ops {} MSpec.init rep_init

/-! ### non-vacuity -/

example : ∃ m outs, mapRun [.ins 1 2 0 true, .ins 1 3 1 true, .ins 2 4 1 false, .ins 2 4 1 true, .ins 0 0 5 true,
    .find 1, .erase 1, .eraseIt 0, .eraseIt 0, .clear true] = some (m, outs) ∧ m.size = 0 ∧ m.next = 4 :=
  ⟨_, _, rfl, rfl, rfl⟩

/-- the invariant holds of a three-entry map and excludes a duplicate key -/
example : StrictSorted (node black (node red nil ⟨0, 1, 0, 0⟩ nil) ⟨1, 2, 2, 1⟩ (node red nil ⟨2, 3, 4, 1⟩ nil)) := by
  simp [StrictSorted]
example : ¬ StrictSorted (node black nil ⟨1, 1, 2, 0⟩ (node red nil ⟨1, 2, 3, 1⟩ nil)) := by
  simp [StrictSorted]

end Cstl.Tree
