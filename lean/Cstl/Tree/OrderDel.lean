import Cstl.Tree.Order
/-
Red-black erase: the fix-up (rotations, recolouring) leaves the in-order
sequence alone, so `del` removes exactly what the plain `btDel` removes.
-/
namespace Cstl.Tree
open Color Tree

theorem fixBL_inorder {c : Color} {l r : Tree} {e : Elem} {res : Tree × Bool}
    (h : fixBL c l e r = some res) : res.1.inorder = l.inorder ++ e :: r.inorder := by
  unfold fixBL at h
  split at h
  · cases h
  · split at h
    · cases h; simp
    · split at h
      · cases h; simp
      · cases h; simp

theorem fixBR_inorder {c : Color} {l r : Tree} {e : Elem} {res : Tree × Bool}
    (h : fixBR c l e r = some res) : res.1.inorder = l.inorder ++ e :: r.inorder := by
  unfold fixBR at h
  split at h
  · cases h
  · split at h
    · cases h; simp
    · split at h
      · cases h; simp
      · cases h; simp

theorem fixL_inorder {c : Color} {l r : Tree} {e : Elem} {res : Tree × Bool}
    (h : fixL c l e r = some res) : res.1.inorder = l.inorder ++ e :: r.inorder := by
  unfold fixL at h
  split at h
  · split at h
    · rename_i p' s hp
      cases h
      simp [fixBL_inorder hp]
    · cases h
  · exact fixBL_inorder h

theorem fixR_inorder {c : Color} {l r : Tree} {e : Elem} {res : Tree × Bool}
    (h : fixR c l e r = some res) : res.1.inorder = l.inorder ++ e :: r.inorder := by
  unfold fixR at h
  split at h
  · split at h
    · rename_i p' s hp
      cases h
      simp [fixBR_inorder hp]
    · cases h
  · exact fixBR_inorder h

theorem removeOne_inorder (c : Color) (x : Tree) : (removeOne c x).1.inorder = x.inorder := by
  unfold removeOne
  cases c with
  | red => rfl
  | black => simp only []; split <;> simp

theorem afterL_inorder {c : Color} {e : Elem} {r : Tree} {res res' : Tree × Bool}
    (h : afterL c e r res = some res') : res'.1.inorder = res.1.inorder ++ e :: r.inorder := by
  obtain ⟨l', s⟩ := res
  cases s with
  | true => exact fixL_inorder h
  | false => simp [afterL] at h; subst h; simp

theorem afterR_inorder {c : Color} {e : Elem} {l : Tree} {res res' : Tree × Bool}
    (h : afterR c l e res = some res') : res'.1.inorder = l.inorder ++ e :: res.1.inorder := by
  obtain ⟨r', s⟩ := res
  cases s with
  | true => exact fixR_inorder h
  | false => simp [afterR] at h; subst h; simp

theorem popMin_inorder : ∀ (l : Tree) {c : Color} {e : Elem} {r : Tree} {m : Elem} {res : Tree × Bool},
    popMin c e r l = some (m, res) → m :: res.1.inorder = l.inorder ++ e :: r.inorder := by
  intro l
  induction l with
  | nil =>
    intro c e r m res h
    simp [popMin] at h
    obtain ⟨rfl, rfl⟩ := h
    simp [removeOne_inorder]
  | node lc ll le lr ihl _ =>
    intro c e r m res h
    simp only [popMin] at h
    split at h
    · cases h
    · rename_i m' res1 hp
      split at h
      · cases h
      · rename_i res2 ha
        cases h
        have h1 := ihl hp
        have h2 := afterL_inorder ha
        rw [h2]
        simp only [inorder_node, List.append_assoc, List.cons_append]
        rw [← List.cons_append, h1]
        simp

theorem delRoot_inorder {c : Color} {l r : Tree} {e : Elem} {res : Tree × Bool}
    (h : delRoot c l e r = some res) : res.1.inorder = l.inorder ++ r.inorder := by
  unfold delRoot at h
  split at h
  · cases h; simp [removeOne_inorder]
  · split at h
    · cases h; simp [removeOne_inorder]
    · split at h
      · cases h
      · rename_i m res1 hp
        have h1 := popMin_inorder _ hp
        have h2 := afterR_inorder h
        rw [h2, h1]
        simp

theorem del_inorder (k : Int) {t : Tree} : ∀ {res : Tree × Bool},
    del k t = some res → res.1.inorder = (btDel k t).inorder := by
  induction t with
  | nil => intro res h; simp [del] at h; subst h; rfl
  | node c l e r ihl ihr =>
    intro res h
    simp only [del] at h
    simp only [btDel]
    split at h
    · rename_i hk
      simp only [hk, if_true]
      rw [delRoot_inorder h, btEraseRoot_inorder]
    · rename_i hk
      simp only [hk, if_false]
      split at h
      · rename_i hlt
        split at h
        · cases h
        · rename_i res1 hd
          rw [afterL_inorder h, ihl hd]
          simp [hlt]
      · rename_i hge
        split at h
        · cases h
        · rename_i res1 hd
          rw [afterR_inorder h, ihr hd]
          simp [hge]

/-- red-black erase and plain erase agree on the in-order sequence and on the
element they return -/
theorem rbErase_inorder {k : Int} {t t' : Tree} {r : Option Elem} (h : rbErase k t = some (t', r)) :
    t'.inorder = (btErase k t).1.inorder ∧ r = (btErase k t).2 := by
  unfold rbErase at h
  unfold btErase
  split at h
  · rename_i hf
    cases h
    simp
  · rename_i e hf
    split at h
    · cases h
    · rename_i t1 s hd
      cases h
      have := del_inorder k hd
      simp only at this
      constructor
      · split <;> simp [this]
      · trivial

end Cstl.Tree
