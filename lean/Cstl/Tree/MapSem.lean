import Cstl.Tree.Model
/-
Vocabulary of the translation of src/map.c (tools/c2lean_map.py → Cstl/Gen/MapC.lean), over the
map layer of Cstl/Tree/Model.lean.

* the C state is `CSt`: the model's `MapSt` (red-black tree, size, next block id) plus the event
  log (allocations, frees, clear callbacks) in call order;
* a `struct cstl_map_node *` is `Option Elem` (`none` = NULL; an `Elem` carries the node's address
  `id`, the stored key pointer `kp` together with the key value `key` it points to, and `val`);
  a `const void * key` argument is a `KeyP` (address + the value the map's comparison sees);
* a `cstl_map_iterator_t` object is `CIt` (`_`, `key`, `val`); a pointer to one that the C code
  tests against NULL is `Option CIt`;
* the rbtree calls are the model's tree operations: `cstl_rbtree_find` = `find` (found node and the
  last node passed), `cstl_rbtree_insert` with a hint = `rbInsert` / `rbInsertAt`,
  `__cstl_rbtree_erase` of a node = `rbErase` at its key; `none` = the NULL dereference the model
  reports; `malloc` is answered by the oracle bit, `free` and the clear callback are log events.
-/
namespace Cstl.Tree.MapSem
open Cstl.Tree

structure KeyP where
  /-- the value the comparison function reads through the pointer -/
  k : Int
  /-- the address -/
  p : Nat
deriving Repr, DecidableEq, Inhabited

structure CSt where
  m : MapSt
  log : List MEv := []
deriving Repr, Inhabited

/-- `cstl_map_iterator_t` -/
structure CIt where
  node : Option Elem := none
  key : Nat := 0
  val : Nat := 0
deriving Repr, DecidableEq, Inhabited

/-- `*cstl_map_iterator_end(m)`: all three fields NULL (checked by the translator) -/
def CIt.end_ : CIt := {}

/-- an uninitialised `struct cstl_map_node` / `cstl_map_iterator_t` object -/
def nodeUninit : Elem := { key := 0, id := 0 }
def itUninit : CIt := {}

/-! ### node fields -/

def nodeKp (n : Option Elem) : Nat := match n with | some e => e.kp | none => 0
def nodeVal (n : Option Elem) : Nat := match n with | some e => e.val | none => 0
/-- `n->key = key` -/
def setKey (n : Option Elem) (key : KeyP) : Option Elem := n.map fun e => { e with key := key.k, kp := key.p }
/-- `n->val = val` -/
def setVal (n : Option Elem) (v : Nat) : Option Elem := n.map fun e => { e with val := v }
def setKeyS (e : Elem) (key : KeyP) : Elem := { e with key := key.k, kp := key.p }

/-! ### iterator pointers that may be NULL -/

def derefIt (i : Option CIt) : CIt := i.getD itUninit

/-! ### primitives: rbtree, malloc, free, clear callback -/

/-- `cstl_rbtree_find(&map->t, &node, p)`: (found node, the node stored through `p`) -/
def rbtFindP (c : CSt) (probe : Elem) : Option Elem × Option Elem := find probe.key c.m.t

/-- `malloc(sizeof(struct cstl_map_node))` -/
def mallocP (c : CSt) (ok : Bool) : CSt × Option Elem :=
  if ok then
    ({ m := { c.m with next := c.m.next + 1 }, log := c.log ++ [.alloc c.m.next] },
     some { key := 0, id := c.m.next })
  else ({ c with log := c.log ++ [.allocFail] }, none)

/-- `free(n)` -/
def freeP (c : CSt) (n : Option Elem) : CSt :=
  match n with
  | some e => { c with log := c.log ++ [.free e.id] }
  | none => c

/-- `cstl_rbtree_insert(&map->t, node, p)` (`p` = hint: the parent found by the preceding find) -/
def rbtInsertP (c : CSt) (node p : Option Elem) : Option CSt :=
  match node with
  | none => none
  | some x =>
    let t' : Option (Option Tree) :=
      match p with
      | none => some (rbInsert x c.m.t)
      | some p => rbInsertAt p.id x c.m.t
    match t' with
    | some (some t') => some { c with m := { c.m with t := t', size := c.m.size + 1 } }
    | _ => none

/-- `__cstl_rbtree_erase(&map->t, &n->n)` -/
def rbtEraseP (c : CSt) (n : Option Elem) : Option CSt :=
  match n with
  | none => none
  | some e =>
    match rbErase e.key c.m.t with
    | none => none
    | some (t', _) => some { c with m := { c.m with t := t', size := c.m.size - 1 } }

/-- `clr(&i, priv)` -/
def cbP (c : CSt) (i : CIt) : CSt := { c with log := c.log ++ [.cb i.key i.val] }

/-! ### reading results in the model's terms -/

/-- the three fields of a C iterator -/
def CIt.flat (i : CIt) : Nat × Nat × Nat := (i.key, i.val, match i.node with | some e => e.id | none => 0)

/-- the three fields the model's iterator stands for (`none` = end = all NULL) -/
def flatIter : Iter → Nat × Nat × Nat
  | none => (0, 0, 0)
  | some (kp, v, id) => (kp, v, id)

end Cstl.Tree.MapSem
