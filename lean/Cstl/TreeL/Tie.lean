import Cstl.Gen.TreeLC
import Cstl.TreeL.Model
/-
Translator tie for the loop-free link surgery of src/bintree.c:
`Cstl/Gen/TreeLC.lean` is regenerated from /repo's src/bintree.c by
tools/c2lean.py on every check run (symbolic execution of the C statement
list in the vocabulary of Model.lean); these fixed theorems state that the
hand-written model functions are exactly those translations.

* `__cstl_bintree_rotate`: the model stops (`none`) where the C code would
  read through NULL (`x == NULL`, or `y == NULL` with the assert compiled out);
  everywhere else it is the translation.
* `__cstl_bintree_erase`: the call `__cstl_bintree_next(bn)` (a loop) is not
  followed by the translator — its value is a parameter of the translation; the
  model computes it with `slide` and is the translation applied to that value.
  `unlink` / `substNode` (Erase.lean) are the two halves of the same function.
-/
namespace Cstl.TreeL.Tie
open Cstl.TreeL Cstl.Gen.TreeLC

theorem rotate_tie (m : TM) (h : Hd) (x : Nat) (d : Bool) :
    rotate m h x d =
      if x = 0 then none else if chR m d x = 0 then none else some (c_priv_cstl_bintree_rotate m h x d) := by
  by_cases hx : x = 0
  · simp [rotate, hx]
  · by_cases hy : chR m d x = 0
    · simp [rotate, hx, hy]
    · simp only [rotate, c_priv_cstl_bintree_rotate, hx, hy, if_false]

theorem erase_tie (m : TM) (h : Hd) (bn : Nat) :
    btEraseNode m h bn =
      match (if m.lf bn ≠ 0 ∧ m.rt bn ≠ 0 then slide m true h.size (m.rt bn) else some bn) with
      | none => none
      | some y => some (c_priv_cstl_bintree_erase m h bn y) := by
  unfold btEraseNode
  by_cases hc : m.lf bn ≠ 0 ∧ m.rt bn ≠ 0
  · rw [if_pos hc]
    cases slide m true h.size (m.rt bn) with
    | none => rfl
    | some y =>
      by_cases hy : y = bn
      · simp only [c_priv_cstl_bintree_erase, replaceChild, if_pos hc, hy, ne_eq, not_true_eq_false, if_false]
      · simp only [c_priv_cstl_bintree_erase, replaceChild, if_pos hc, hy, ne_eq, not_false_eq_true, if_true]
  · rw [if_neg hc]
    simp only [c_priv_cstl_bintree_erase, replaceChild, if_neg hc, ne_eq, not_true_eq_false, if_false]

end Cstl.TreeL.Tie
