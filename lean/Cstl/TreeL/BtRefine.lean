import Cstl.TreeL.Insert
import Cstl.TreeL.Erase
import Cstl.Tree.Props
/-
cstl_bintree_find / insert / erase at link level refine the functional
`find` / `btIns` / `btInsAt` / `btErase` of Cstl.Tree.
-/
set_option linter.unusedSimpArgs false
set_option linter.unnecessarySimpa false
namespace Cstl.TreeL
open Cstl.SList (Mem upd upd_same upd_other)
open Cstl.Tree (Color Elem Tree)
open Cstl.Tree.Color Cstl.Tree.Tree

/-- the address a find / erase result stands for (NULL for `none`) -/
def idOpt : Option Elem → Nat
  | none => 0
  | some e => e.id

@[simp] theorem idOpt_none : idOpt none = 0 := rfl
@[simp] theorem idOpt_some (e : Elem) : idOpt (some e) = e.id := rfl

/-- the loop of `cstl_bintree_find` computes the functional `findAux` (both results) -/
theorem findLoop_spec {m : TM} {key : Int} : ∀ (t : Tree) (a p fuel : Nat) (q : Option Elem),
    Shape m a p t → t.height ≤ fuel →
    findLoop m key fuel a (idOpt q) =
      some (idOpt (Cstl.Tree.findAux key q t).1, idOpt (Cstl.Tree.findAux key q t).2) := by
  intro t
  induction t with
  | nil =>
    intro a p fuel q hs _
    have : a = 0 := hs
    subst this
    cases fuel <;> simp [findLoop, Cstl.Tree.findAux]
  | node c l e r ihl ihr =>
    intro a p fuel q hs hfuel
    simp only [Shape_node] at hs
    obtain ⟨ha0, he, _, _, hsl, hsr⟩ := hs
    have hk : e.key = m.key a := by simp [he]
    have hid : e.id = a := by simp [he]
    simp only [Tree.height] at hfuel
    cases fuel with
    | zero => omega
    | succ f =>
      simp only [findLoop, ha0, if_false, Cstl.Tree.findAux, hk]
      by_cases h1 : key = m.key a
      · simp [h1, hid]
      · simp only [h1, if_false]
        by_cases h2 : key < m.key a
        · simp only [h2, if_true]
          have := ihl (m.lf a) a f (some e) hsl (by omega)
          simpa [hid] using this
        · simp only [h2, if_false]
          have := ihr (m.rt a) a f (some e) hsr (by omega)
          simpa [hid] using this

theorem btFind_spec {m : TM} {h : Hd} {t : Tree} (key : Int) (ht : IsTree m h.root 0 t) (hsz : h.size = t.size) :
    btFind m h key = some (idOpt (Cstl.Tree.find key t).1, idOpt (Cstl.Tree.find key t).2) := by
  have := findLoop_spec (key := key) t h.root 0 (h.size + 1) none ht.shape
    (by have := height_le_size t; omega)
  simpa [btFind, Cstl.Tree.find] using this

/-! ### functional: the path of find / erase -/

/-- every frame's key differs from `key` and the hole is on the side the comparison selects -/
def DelPath (key : Int) : Ctx → Prop
  | [] => True
  | .L _ e _ :: k => key ≠ e.key ∧ key < e.key ∧ DelPath key k
  | .R _ _ e :: k => key ≠ e.key ∧ ¬ key < e.key ∧ DelPath key k

theorem DelPath_append {key : Int} {k1 k2 : Ctx} (h1 : DelPath key k1) (h2 : DelPath key k2) :
    DelPath key (k1 ++ k2) := by
  induction k1 with
  | nil => exact h2
  | cons f k ih =>
    cases f with
    | L c e r => exact ⟨h1.1, h1.2.1, ih h1.2.2⟩
    | R c l e => exact ⟨h1.1, h1.2.1, ih h1.2.2⟩

theorem find_decomp {key : Int} {t : Tree} {e : Elem} : ∀ {q : Option Elem},
    (Cstl.Tree.findAux key q t).1 = some e →
    ∃ k c l r, t = plug k (.node c l e r) ∧ DelPath key k ∧ key = e.key := by
  induction t with
  | nil => intro q h; simp [Cstl.Tree.findAux] at h
  | node c l e' r ihl ihr =>
    intro q h
    simp only [Cstl.Tree.findAux] at h
    by_cases h1 : key = e'.key
    · simp only [h1, if_true, Option.some.injEq] at h
      subst h
      exact ⟨[], c, l, r, rfl, trivial, h1⟩
    · simp only [h1, if_false] at h
      by_cases h2 : key < e'.key
      · simp only [h2, if_true] at h
        obtain ⟨k, c', l', r', ht, hp, hk⟩ := ihl h
        exact ⟨k ++ [.L c e' r], c', l', r', by rw [plug_append, ← ht]; rfl,
          DelPath_append hp (by simp [DelPath, h1, h2]), hk⟩
      · simp only [h2, if_false] at h
        obtain ⟨k, c', l', r', ht, hp, hk⟩ := ihr h
        exact ⟨k ++ [.R c l e'], c', l', r', by rw [plug_append, ← ht]; rfl,
          DelPath_append hp (by simp [DelPath, h1, h2]), hk⟩

theorem btDel_plug {key : Int} (k : Ctx) : ∀ (t : Tree), DelPath key k →
    Cstl.Tree.btDel key (plug k t) = plug k (Cstl.Tree.btDel key t) := by
  induction k with
  | nil => intro t _; rfl
  | cons f k ih =>
    intro t hp
    cases f with
    | L c e r =>
      obtain ⟨h1, h2, h3⟩ := hp
      rw [plug_L, ih _ h3]
      simp [Cstl.Tree.btDel, h1, h2]
    | R c l e =>
      obtain ⟨h1, h2, h3⟩ := hp
      rw [plug_R, ih _ h3]
      simp [Cstl.Tree.btDel, h1, h2]

/-! ### insert -/

/-- `cstl_bintree_insert(bt, n, NULL)` refines `btIns` (the bintree never looks at colours: the
functional model paints its nodes black, so the statement asks the same of the memory) -/
theorem btInsert_refines {m : TM} {h : Hd} {t : Tree} {n : Nat} (ht : IsTree m h.root 0 t) (hsz : h.size = t.size)
    (hn0 : n ≠ 0) (hnt : n ∉ t.ids) (hc : m.cl n = black) :
    ∃ m' h', btInsert m h n 0 = some (m', h') ∧
      IsTree m' h'.root 0 (Cstl.Tree.btIns (elemAt m n) t) ∧ h'.size = (Cstl.Tree.btIns (elemAt m n) t).size ∧
      m'.cl = m.cl ∧ m'.key = m.key ∧ (∀ z, z ≠ 0 → z ≠ n → z ∉ t.ids → Agree m m' z) := by
  have hz := Zip.of_isTree ht
  obtain ⟨P, m', h', h1, h2, h3, h4, h5, h6⟩ := btInsert_zip (hint := 0) hz (fun _ => rfl) (fun e => absurd rfl e)
    (by have := height_le_size t; omega) hn0 hnt (by simp)
  refine ⟨m', h', h1, ?_, ?_, h4, h5, ?_⟩
  · have := h2.isTree
    rw [List.append_nil, hc] at this
    rw [btIns_plug]
    exact this
  · rw [(Cstl.Tree.btInsert_spec _ t).2.2, h3, hsz]
  · intro z hz0 hzn hzt
    refine h6 z hzn ?_
    intro e
    have := h2.ctx.parent_mem (by rw [← e]; exact hz0)
    rw [← e, List.append_nil] at this
    have hperm := plug_ids_perm (insPath (m.key n) t) .nil
    rw [plug_insPath_nil] at hperm
    exact hzt (hperm.mem_iff.mpr (by simp [this]))

/-- `cstl_bintree_insert(bt, n, hint)` with a hint that is a node of the tree refines `btInsAt` -/
theorem btInsertAt_refines {m : TM} {h : Hd} {t : Tree} {n hint : Nat} (ht : IsTree m h.root 0 t)
    (hsz : h.size = t.size) (hn0 : n ≠ 0) (hnt : n ∉ t.ids) (hc : m.cl n = black) (hh : hint ∈ t.ids) :
    ∃ m' h' t', Cstl.Tree.btInsAt hint (elemAt m n) t = some t' ∧ btInsert m h n hint = some (m', h') ∧
      IsTree m' h'.root 0 t' ∧ h'.size = h.size + 1 ∧
      m'.cl = m.cl ∧ m'.key = m.key ∧ (∀ z, z ≠ 0 → z ≠ n → z ∉ t.ids → Agree m m' z) := by
  obtain ⟨k, c, l, e, r, htk, heid⟩ := exists_ctx_of_mem hh
  subst htk
  obtain ⟨a, p, hz⟩ := Zip.of_plug ht
  have ha : a = hint := by rw [← heid]; exact hz.sub.id_eq.symm
  subst ha
  have hperm := plug_ids_perm k (.node c l e r)
  have hnn : n ∉ (Tree.node c l e r).ids ∧ n ∉ ctxIds k := by
    constructor
    · intro hc'; exact hnt (hperm.mem_iff.mpr (List.mem_append.mpr (Or.inl hc')))
    · intro hc'; exact hnt (hperm.mem_iff.mpr (List.mem_append.mpr (Or.inr hc')))
  have h0 : a ≠ 0 := by have := hz.sub; simp only [Shape_node] at this; exact this.1
  have hfuel : (Tree.node c l e r).height ≤ h.size + 1 := by
    have h1 := height_le_size (.node c l e r)
    have h2 := size_le_plug k (.node c l e r)
    omega
  obtain ⟨P, m', h', h1, h2, h3, h4, h5, h6⟩ := btInsert_zip (hint := a) hz (fun e' => absurd e' h0) (fun _ => rfl)
    hfuel hn0 hnn.1 hnn.2
  have hak : a ∉ ctxIds k := by
    intro hc'
    have := hz.nodup
    exact (List.nodup_append.mp this).2.2 a (by simp [heid]) a hc' rfl
  refine ⟨m', h', plug k (Cstl.Tree.btIns (elemAt m n) (.node c l e r)), ?_, h1, ?_, h3, h4, h5, ?_⟩
  · refine btInsAt_plug _ k hak ?_
    simp [Cstl.Tree.btInsAt, heid]
  · have := h2.isTree
    rw [plug_insPath, hc] at this
    rw [btIns_plug]
    exact this
  · intro z hz0 hzn hzt
    refine h6 z hzn ?_
    intro e'
    have hm := h2.ctx.parent_mem (by rw [← e']; exact hz0)
    rw [← e', ctxIds_append] at hm
    have hp2 := plug_ids_perm (insPath (m.key n) (.node c l e r)) .nil
    rw [plug_insPath_nil] at hp2
    apply hzt
    refine hperm.mem_iff.mpr ?_
    simp only [List.mem_append] at hm ⊢
    rcases hm with hm | hm
    · exact Or.inl (hp2.mem_iff.mpr (by simp [hm]))
    · exact Or.inr hm

/-! ### erase -/

theorem btEraseRoot_one (c : Color) (l r : Tree) (e : Elem) (hone : l = .nil ∨ r = .nil) :
    Cstl.Tree.btEraseRoot c l e r = onlyChild l r := by
  rcases hone with rfl | rfl
  · rfl
  · cases l <;> rfl

theorem btEraseRoot_two (c : Color) {l r ry : Tree} (e : Elem) {cy : Color} {ye : Elem} (hl : l ≠ .nil)
    (hm : minSub r = .node cy .nil ye ry) :
    Cstl.Tree.btEraseRoot c l e r = .node c l ye (plug (spine r) ry) := by
  cases l with
  | nil => exact absurd rfl hl
  | node lc ll le lr => simp [Cstl.Tree.btEraseRoot, btPopMin_eq hm]

/-- `cstl_bintree_erase` refines `btErase` (same remark on colours as for insert) -/
theorem btErase_refines {m : TM} {h : Hd} {t : Tree} (key : Int) (ht : IsTree m h.root 0 t) (hsz : h.size = t.size)
    (hblack : ∀ a, m.cl a = black) :
    ∃ m' h', btErase m h key = some (m', h', idOpt (Cstl.Tree.btErase key t).2) ∧
      IsTree m' h'.root 0 (Cstl.Tree.btErase key t).1 ∧ h'.size = (Cstl.Tree.btErase key t).1.size ∧
      m'.cl = m.cl ∧ m'.key = m.key ∧ (∀ z, z ≠ 0 → z ∉ t.ids → Agree m m' z) := by
  have hfind := btFind_spec key ht hsz
  cases hf : (Cstl.Tree.find key t).1 with
  | none =>
    refine ⟨m, h, ?_, ?_, ?_, rfl, rfl, fun z _ _ => Agree.rfl' m z⟩
    · simp [btErase, hfind, hf, Cstl.Tree.btErase]
    · simpa [Cstl.Tree.btErase, hf] using ht
    · simpa [Cstl.Tree.btErase, hf] using hsz
  | some e =>
    obtain ⟨k, c, l, r, htk, hpath, hkey⟩ := find_decomp (q := none) hf
    subst htk
    obtain ⟨a, p, hz⟩ := Zip.of_plug ht
    have ha : e.id = a := hz.sub.id_eq
    have ha0 : a ≠ 0 := by have := hz.sub; simp only [Shape_node] at this; exact this.1
    have hres : Cstl.Tree.btErase key (plug k (.node c l e r)) = (plug k (Cstl.Tree.btEraseRoot c l e r), some e) := by
      simp only [Cstl.Tree.btErase, hf, btDel_plug k _ hpath]
      simp [Cstl.Tree.btDel, hkey]
    have hsize : (plug k (Cstl.Tree.btEraseRoot c l e r)).size + 1 = (plug k (.node c l e r)).size :=
      (Cstl.Tree.btErase_some hres).2.2.2.2
    have hperm := plug_ids_perm k (.node c l e r)
    rw [hres]
    simp only [idOpt_some, ha]
    by_cases hone : l = .nil ∨ r = .nil
    · obtain ⟨m', h', x, h1, _, h3, h4, h5, h6, h7⟩ := btEraseNode_one hz hone
      refine ⟨m', h', by simp only [btErase, hfind, hf, idOpt_some, ha, ha0, if_false, h1], ?_, by omega, h5, h6, ?_⟩
      · rw [btEraseRoot_one c l r e hone]; exact h3.isTree
      · intro z hz0 hzt
        have hs := hz.sub
        simp only [Shape_node] at hs
        refine h7 z ?_ ?_
        · intro e'
          have hxm : x ∈ (onlyChild l r).ids := h3.sub.root_mem (by rw [← e']; exact hz0)
          apply hzt
          refine hperm.mem_iff.mpr (List.mem_append.mpr (Or.inl ?_))
          rw [← e'] at hxm
          rcases hone with rfl | rfl
          · simp only [onlyChild, Tree.isNil, if_true] at hxm; simp [hxm]
          · have e2 : onlyChild l .nil = l := by cases l <;> rfl
            rw [e2] at hxm; simp [hxm]
        · intro e'
          have := hz.ctx.parent_mem (by rw [← e']; exact hz0)
          exact hzt (hperm.mem_iff.mpr (List.mem_append.mpr (Or.inr (e' ▸ this))))
    · have hl : l ≠ .nil := fun e' => hone (Or.inl e')
      have hr : r ≠ .nil := fun e' => hone (Or.inr e')
      obtain ⟨cy, ye, ry, hm⟩ := minSub_form hr
      have hfuel : r.height ≤ h.size + 1 := by
        have h1 := height_le_size r
        have h2 := size_le_plug k (.node c l e r)
        simp only [Tree.size] at h2
        omega
      obtain ⟨m', h', h1, _, h3, h4, h5, h6, _, _, _, h10, _⟩ := btEraseNode_two hz hl hr hm hfuel
      refine ⟨m', h', by simp only [btErase, hfind, hf, idOpt_some, ha, ha0, if_false, h1], ?_, by omega, h5, h6, ?_⟩
      · rw [btEraseRoot_two c e hl hm]
        have hcy : cy = c := by
          have hs := h3.sub
          simp only [Shape_node] at hs
          have hs0 := hz.sub
          simp only [Shape_node] at hs0
          rw [← hs.2.2.1, ← hs0.2.2.1, h5, hblack, hblack]
        rw [← hcy]
        exact h3.isTree
      · intro z hz0 hzt
        refine h10 z hz0 ?_ ?_
        · intro hc'; exact hzt (hperm.mem_iff.mpr (List.mem_append.mpr (Or.inl hc')))
        · intro e'
          have := hz.ctx.parent_mem (by rw [← e']; exact hz0)
          exact hzt (hperm.mem_iff.mpr (List.mem_append.mpr (Or.inr (e' ▸ this))))

end Cstl.TreeL
