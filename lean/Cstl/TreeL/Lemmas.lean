import Cstl.TreeL.Model
import Cstl.Tree.Lemmas
/-
Abstraction predicates of the link-level tree model.

* `Shape m a p t`  — the structure reachable from address `a` through `lf`/`rt`
  is exactly the functional tree `t` (same ids = addresses, keys, colours,
  shape) and every node's `pr` is its parent (`p` for the node at `a`).
* `IsTree m root parent t` — `Shape` plus distinct node addresses.
* contexts (`Frame`, `plug`) and `CtxShape` — a tree with a hole; `Zip` — a
  focused tree: context + the subtree at the hole.  Every link-level primitive
  is specified as a transformation of a `Zip`.
-/
namespace Cstl.TreeL
open Cstl.SList (Mem upd upd_same upd_other)
open Cstl.Tree (Color Elem Tree)
open Cstl.Tree.Color Cstl.Tree.Tree

/-! ### field-wise agreement of two memories at an address -/

def Agree (m m' : TM) (z : Nat) : Prop :=
  m'.pr z = m.pr z ∧ m'.lf z = m.lf z ∧ m'.rt z = m.rt z ∧ m'.cl z = m.cl z ∧ m'.key z = m.key z

theorem Agree.rfl' (m : TM) (z : Nat) : Agree m m z := ⟨rfl, rfl, rfl, rfl, rfl⟩

theorem Agree.trans {m m' m'' : TM} {z : Nat} (h1 : Agree m m' z) (h2 : Agree m' m'' z) : Agree m m'' z := by
  obtain ⟨a1, a2, a3, a4, a5⟩ := h1
  obtain ⟨b1, b2, b3, b4, b5⟩ := h2
  exact ⟨by rw [b1, a1], by rw [b2, a2], by rw [b3, a3], by rw [b4, a4], by rw [b5, a5]⟩

theorem elemAt_congr {m m' : TM} {z : Nat} (h : Agree m m' z) : elemAt m' z = elemAt m z := by
  simp [elemAt, h.2.2.2.2]

@[simp] theorem elemAt_id (m : TM) (a : Nat) : (elemAt m a).id = a := rfl
@[simp] theorem elemAt_key (m : TM) (a : Nat) : (elemAt m a).key = m.key a := rfl

/-! ### simp lemmas for the field setters -/

@[simp] theorem setP_pr (m : TM) (a v : Nat) : (setP m a v).pr = upd m.pr a v := rfl
@[simp] theorem setP_lf (m : TM) (a v : Nat) : (setP m a v).lf = m.lf := rfl
@[simp] theorem setP_rt (m : TM) (a v : Nat) : (setP m a v).rt = m.rt := rfl
@[simp] theorem setP_cl (m : TM) (a v : Nat) : (setP m a v).cl = m.cl := rfl
@[simp] theorem setP_key (m : TM) (a v : Nat) : (setP m a v).key = m.key := rfl
@[simp] theorem setLf_pr (m : TM) (a v : Nat) : (setLf m a v).pr = m.pr := rfl
@[simp] theorem setLf_lf (m : TM) (a v : Nat) : (setLf m a v).lf = upd m.lf a v := rfl
@[simp] theorem setLf_rt (m : TM) (a v : Nat) : (setLf m a v).rt = m.rt := rfl
@[simp] theorem setLf_cl (m : TM) (a v : Nat) : (setLf m a v).cl = m.cl := rfl
@[simp] theorem setLf_key (m : TM) (a v : Nat) : (setLf m a v).key = m.key := rfl
@[simp] theorem setRt_pr (m : TM) (a v : Nat) : (setRt m a v).pr = m.pr := rfl
@[simp] theorem setRt_lf (m : TM) (a v : Nat) : (setRt m a v).lf = m.lf := rfl
@[simp] theorem setRt_rt (m : TM) (a v : Nat) : (setRt m a v).rt = upd m.rt a v := rfl
@[simp] theorem setRt_cl (m : TM) (a v : Nat) : (setRt m a v).cl = m.cl := rfl
@[simp] theorem setRt_key (m : TM) (a v : Nat) : (setRt m a v).key = m.key := rfl
@[simp] theorem setC_pr (m : TM) (a : Nat) (c : Color) : (setC m a c).pr = m.pr := rfl
@[simp] theorem setC_lf (m : TM) (a : Nat) (c : Color) : (setC m a c).lf = m.lf := rfl
@[simp] theorem setC_rt (m : TM) (a : Nat) (c : Color) : (setC m a c).rt = m.rt := rfl
@[simp] theorem setC_cl (m : TM) (a : Nat) (c : Color) : (setC m a c).cl = updC m.cl a c := rfl
@[simp] theorem setC_key (m : TM) (a : Nat) (c : Color) : (setC m a c).key = m.key := rfl

@[simp] theorem chL_setC (m : TM) (a : Nat) (c : Color) (d : Bool) (z : Nat) : chL (setC m a c) d z = chL m d z := rfl
@[simp] theorem chR_setC (m : TM) (a : Nat) (c : Color) (d : Bool) (z : Nat) : chR (setC m a c) d z = chR m d z := rfl

theorem upd_apply (f : Mem) (a v x : Nat) : upd f a v x = if x = a then v else f x := rfl
theorem updC_apply (f : Nat → Color) (a : Nat) (c : Color) (x : Nat) : updC f a c x = if x = a then c else f x := rfl

/-! ### Shape -/

def Shape (m : TM) : Nat → Nat → Tree → Prop
  | a, _, .nil => a = 0
  | a, p, .node c l e r =>
    a ≠ 0 ∧ e = elemAt m a ∧ m.cl a = c ∧ m.pr a = p ∧ Shape m (m.lf a) a l ∧ Shape m (m.rt a) a r

@[simp] theorem Shape_nil (m : TM) (a p : Nat) : Shape m a p .nil ↔ a = 0 := Iff.rfl
@[simp] theorem Shape_node (m : TM) (a p : Nat) (c : Color) (l r : Tree) (e : Elem) :
    Shape m a p (.node c l e r) ↔
      a ≠ 0 ∧ e = elemAt m a ∧ m.cl a = c ∧ m.pr a = p ∧ Shape m (m.lf a) a l ∧ Shape m (m.rt a) a r := Iff.rfl

/-- the abstraction predicate of the deliverable -/
structure IsTree (m : TM) (root parent : Nat) (t : Tree) : Prop where
  shape : Shape m root parent t
  nodup : t.ids.Nodup

theorem Shape.zero_iff {m : TM} {a p : Nat} {t : Tree} (h : Shape m a p t) : a = 0 ↔ t = .nil := by
  cases t with
  | nil => simpa using h
  | node c l e r => simp at h; simp [h.1]

theorem Shape.root_mem {m : TM} {a p : Nat} {t : Tree} (h : Shape m a p t) (ha : a ≠ 0) : a ∈ t.ids := by
  cases t with
  | nil => exact absurd h ha
  | node c l e r => simp at h; simp [h.2.1]

theorem Shape.ids_ne_zero {m : TM} {a p : Nat} {t : Tree} (h : Shape m a p t) : ∀ z ∈ t.ids, z ≠ 0 := by
  induction t generalizing a p with
  | nil => simp
  | node c l e r ihl ihr =>
    simp at h
    obtain ⟨h1, h2, _, _, h5, h6⟩ := h
    intro z hz
    simp only [Cstl.Tree.ids_node, List.mem_append, List.mem_cons] at hz
    rcases hz with hz | hz | hz
    · exact ihl h5 z hz
    · rw [hz, h2]; exact h1
    · exact ihr h6 z hz

theorem Shape.parent {m : TM} {a p : Nat} {t : Tree} (h : Shape m a p t) (ha : a ≠ 0) : m.pr a = p := by
  cases t with
  | nil => exact absurd h ha
  | node c l e r => simp at h; exact h.2.2.2.1

/-- frame lemma: a subtree only depends on the fields of its own nodes -/
theorem Shape.frame {m m' : TM} {a p : Nat} {t : Tree} (h : Shape m a p t)
    (hag : ∀ z ∈ t.ids, Agree m m' z) : Shape m' a p t := by
  induction t generalizing a p with
  | nil => exact h
  | node c l e r ihl ihr =>
    simp at h
    obtain ⟨h1, h2, h3, h4, h5, h6⟩ := h
    have ha : Agree m m' a := hag a (by simp [h2])
    obtain ⟨a1, a2, a3, a4, a5⟩ := ha
    refine ⟨h1, ?_, by rw [a4, h3], by rw [a1, h4], ?_, ?_⟩
    · rw [h2]; simp [elemAt, a5]
    · rw [a2]; exact ihl h5 (fun z hz => hag z (by simp [hz]))
    · rw [a3]; exact ihr h6 (fun z hz => hag z (by simp [hz]))

/-- the same subtree under a new parent: only the root's `pr` differs -/
theorem Shape.reparent {m m' : TM} {a p p' : Nat} {t : Tree} (h : Shape m a p t) (hnd : t.ids.Nodup)
    (hag : ∀ z ∈ t.ids, z ≠ a → Agree m m' z)
    (hroot : a ≠ 0 → m'.pr a = p' ∧ m'.lf a = m.lf a ∧ m'.rt a = m.rt a ∧ m'.cl a = m.cl a ∧ m'.key a = m.key a) :
    Shape m' a p' t := by
  cases t with
  | nil => exact h
  | node c l e r =>
    simp at h
    obtain ⟨h1, h2, h3, h4, h5, h6⟩ := h
    obtain ⟨a1, a2, a3, a4, a5⟩ := hroot h1
    have hnd' : (l.ids ++ a :: r.ids).Nodup := by simpa [h2] using hnd
    have hal : a ∉ l.ids := by
      intro hc
      have := List.nodup_append.mp hnd'
      exact this.2.2 a hc a (by simp) rfl
    have har : a ∉ r.ids := by
      have := (List.nodup_append.mp hnd').2.1
      exact (List.nodup_cons.mp this).1
    refine ⟨h1, ?_, by rw [a4, h3], a1, ?_, ?_⟩
    · rw [h2]; simp [elemAt, a5]
    · rw [a2]
      exact h5.frame (fun z hz => hag z (by simp [hz]) (fun e => hal (e ▸ hz)))
    · rw [a3]
      exact h6.frame (fun z hz => hag z (by simp [hz]) (fun e => har (e ▸ hz)))

/-! ### contexts -/

theorem perm_swap_mid (l t : List Nat) (x : Nat) : (l ++ x :: t).Perm (t ++ x :: l) :=
  (List.perm_middle).trans ((List.Perm.cons x List.perm_append_comm).trans (List.perm_middle).symm)

/-- one level of a path from the root: the hole is the left child (`L`: colour,
element and right subtree of the parent) or the right child (`R`) -/
inductive Frame where
  | L (c : Color) (e : Elem) (r : Tree)
  | R (c : Color) (l : Tree) (e : Elem)

/-- innermost frame first -/
abbrev Ctx := List Frame

def Frame.ids : Frame → List Nat
  | .L _ e r => e.id :: r.ids
  | .R _ l e => e.id :: l.ids

def ctxIds : Ctx → List Nat
  | [] => []
  | f :: k => f.ids ++ ctxIds k

@[simp] theorem ctxIds_nil : ctxIds [] = [] := rfl
@[simp] theorem ctxIds_cons (f : Frame) (k : Ctx) : ctxIds (f :: k) = f.ids ++ ctxIds k := rfl
@[simp] theorem Frame.ids_L (c : Color) (e : Elem) (r : Tree) : (Frame.L c e r).ids = e.id :: r.ids := rfl
@[simp] theorem Frame.ids_R (c : Color) (l : Tree) (e : Elem) : (Frame.R c l e).ids = e.id :: l.ids := rfl

theorem ctxIds_append (k1 k2 : Ctx) : ctxIds (k1 ++ k2) = ctxIds k1 ++ ctxIds k2 := by
  induction k1 with
  | nil => rfl
  | cons f k ih => simp [ih]

def plug : Ctx → Tree → Tree
  | [], t => t
  | .L c e r :: k, t => plug k (.node c t e r)
  | .R c l e :: k, t => plug k (.node c l e t)

@[simp] theorem plug_nil (t : Tree) : plug [] t = t := rfl
@[simp] theorem plug_L (c : Color) (e : Elem) (r : Tree) (k : Ctx) (t : Tree) :
    plug (.L c e r :: k) t = plug k (.node c t e r) := rfl
@[simp] theorem plug_R (c : Color) (l : Tree) (e : Elem) (k : Ctx) (t : Tree) :
    plug (.R c l e :: k) t = plug k (.node c l e t) := rfl

theorem plug_append (k1 k2 : Ctx) (t : Tree) : plug (k1 ++ k2) t = plug k2 (plug k1 t) := by
  induction k1 generalizing t with
  | nil => rfl
  | cons f k ih => cases f <;> simp [ih]

theorem plug_ids_perm (k : Ctx) (t : Tree) : (plug k t).ids.Perm (t.ids ++ ctxIds k) := by
  induction k generalizing t with
  | nil => simp
  | cons f k ih =>
    cases f with
    | L c e r =>
      refine (ih _).trans ?_
      simp only [Cstl.Tree.ids_node, ctxIds_cons, Frame.ids_L, List.append_assoc, List.cons_append]
      exact List.Perm.refl _
    | R c l e =>
      refine (ih _).trans ?_
      simp only [Cstl.Tree.ids_node, ctxIds_cons, Frame.ids_R, List.append_assoc, List.cons_append]
      have := (perm_swap_mid l.ids t.ids e.id).append_right (ctxIds k)
      simpa using this

/-- the part of the structure outside the hole: the hole's slot holds address
`a`, the hole's parent is `p` -/
def CtxShape (m : TM) (root : Nat) : Ctx → Nat → Nat → Prop
  | [], a, p => a = root ∧ p = 0
  | .L c e r :: k, a, p =>
    p ≠ 0 ∧ e = elemAt m p ∧ m.cl p = c ∧ m.lf p = a ∧ Shape m (m.rt p) p r ∧ CtxShape m root k p (m.pr p)
  | .R c l e :: k, a, p =>
    p ≠ 0 ∧ e = elemAt m p ∧ m.cl p = c ∧ m.rt p = a ∧ Shape m (m.lf p) p l ∧ CtxShape m root k p (m.pr p)

@[simp] theorem CtxShape_nil (m : TM) (root a p : Nat) : CtxShape m root [] a p ↔ a = root ∧ p = 0 := Iff.rfl
@[simp] theorem CtxShape_L (m : TM) (root a p : Nat) (c : Color) (e : Elem) (r : Tree) (k : Ctx) :
    CtxShape m root (.L c e r :: k) a p ↔
      p ≠ 0 ∧ e = elemAt m p ∧ m.cl p = c ∧ m.lf p = a ∧ Shape m (m.rt p) p r ∧ CtxShape m root k p (m.pr p) :=
  Iff.rfl
@[simp] theorem CtxShape_R (m : TM) (root a p : Nat) (c : Color) (l : Tree) (e : Elem) (k : Ctx) :
    CtxShape m root (.R c l e :: k) a p ↔
      p ≠ 0 ∧ e = elemAt m p ∧ m.cl p = c ∧ m.rt p = a ∧ Shape m (m.lf p) p l ∧ CtxShape m root k p (m.pr p) :=
  Iff.rfl

theorem CtxShape.ids_ne_zero {m : TM} {root a p : Nat} {k : Ctx} (h : CtxShape m root k a p) :
    ∀ z ∈ ctxIds k, z ≠ 0 := by
  induction k generalizing a p with
  | nil => simp
  | cons f k ih =>
    cases f with
    | L c e r =>
      simp at h
      obtain ⟨h1, h2, _, _, h5, h6⟩ := h
      intro z hz
      simp only [ctxIds_cons, Frame.ids_L, List.cons_append, List.mem_cons, List.mem_append] at hz
      rcases hz with hz | hz | hz
      · rw [hz, h2]; exact h1
      · exact h5.ids_ne_zero z hz
      · exact ih h6 z hz
    | R c l e =>
      simp at h
      obtain ⟨h1, h2, _, _, h5, h6⟩ := h
      intro z hz
      simp only [ctxIds_cons, Frame.ids_R, List.cons_append, List.mem_cons, List.mem_append] at hz
      rcases hz with hz | hz | hz
      · rw [hz, h2]; exact h1
      · exact h5.ids_ne_zero z hz
      · exact ih h6 z hz

/-- the hole's parent is the node of the innermost frame -/
theorem CtxShape.parent_mem {m : TM} {root a p : Nat} {k : Ctx} (h : CtxShape m root k a p) (hp : p ≠ 0) :
    p ∈ ctxIds k := by
  cases k with
  | nil => simp at h; exact absurd h.2 hp
  | cons f k =>
    cases f with
    | L c e r => simp at h; simp [h.2.1]
    | R c l e => simp at h; simp [h.2.1]

theorem CtxShape.parent_zero_iff {m : TM} {root a p : Nat} {k : Ctx} (h : CtxShape m root k a p) :
    p = 0 ↔ k = [] := by
  cases k with
  | nil => simp at h; simp [h.2]
  | cons f k => cases f <;> (simp at h; simp [h.1])

/-- frame lemma for contexts -/
theorem CtxShape.frame {m m' : TM} {root a p : Nat} {k : Ctx} (h : CtxShape m root k a p)
    (hag : ∀ z ∈ ctxIds k, Agree m m' z) : CtxShape m' root k a p := by
  induction k generalizing a p with
  | nil => exact h
  | cons f k ih =>
    cases f with
    | L c e r =>
      simp at h
      obtain ⟨h1, h2, h3, h4, h5, h6⟩ := h
      obtain ⟨a1, a2, a3, a4, a5⟩ := hag p (by simp [h2])
      refine ⟨h1, ?_, by rw [a4, h3], by rw [a2, h4], ?_, ?_⟩
      · rw [h2]; simp [elemAt, a5]
      · rw [a3]; exact h5.frame (fun z hz => hag z (by simp [hz]))
      · rw [a1]; exact ih h6 (fun z hz => hag z (by simp [hz]))
    | R c l e =>
      simp at h
      obtain ⟨h1, h2, h3, h4, h5, h6⟩ := h
      obtain ⟨a1, a2, a3, a4, a5⟩ := hag p (by simp [h2])
      refine ⟨h1, ?_, by rw [a4, h3], by rw [a3, h4], ?_, ?_⟩
      · rw [h2]; simp [elemAt, a5]
      · rw [a2]; exact h5.frame (fun z hz => hag z (by simp [hz]))
      · rw [a1]; exact ih h6 (fun z hz => hag z (by simp [hz]))

/-- "the slot of the hole now holds `a'`" -/
def SlotUpd (m m' : TM) (root root' : Nat) (k : Ctx) (p a' : Nat) : Prop :=
  match k with
  | [] => root' = a'
  | .L .. :: _ =>
    root' = root ∧ m'.lf p = a' ∧ m'.rt p = m.rt p ∧ m'.pr p = m.pr p ∧ m'.cl p = m.cl p ∧ m'.key p = m.key p
  | .R .. :: _ =>
    root' = root ∧ m'.rt p = a' ∧ m'.lf p = m.lf p ∧ m'.pr p = m.pr p ∧ m'.cl p = m.cl p ∧ m'.key p = m.key p

/-- replace what the hole's slot holds -/
theorem CtxShape.replace {m m' : TM} {root root' a a' p : Nat} {k : Ctx} (h : CtxShape m root k a p)
    (hnd : (ctxIds k).Nodup) (hag : ∀ z ∈ ctxIds k, z ≠ p → Agree m m' z)
    (hs : SlotUpd m m' root root' k p a') : CtxShape m' root' k a' p := by
  cases k with
  | nil => simp at h; simp [SlotUpd] at hs; simp [h.2, hs]
  | cons f k =>
    cases f with
    | L c e r =>
      simp at h
      obtain ⟨h1, h2, h3, h4, h5, h6⟩ := h
      simp only [SlotUpd] at hs
      obtain ⟨s0, s1, s2, s3, s4, s5⟩ := hs
      simp only [ctxIds_cons, Frame.ids_L, h2, elemAt_id, List.cons_append, List.nodup_cons, List.mem_append,
        not_or] at hnd
      obtain ⟨⟨n1, n2⟩, n3⟩ := hnd
      refine ⟨h1, ?_, by rw [s4, h3], s1, ?_, ?_⟩
      · rw [h2]; simp [elemAt, s5]
      · rw [s2]
        exact h5.frame (fun z hz => hag z (by simp [hz]) (fun e' => n1 (e' ▸ hz)))
      · rw [s3, s0]
        exact h6.frame (fun z hz => hag z (by simp [hz]) (fun e' => n2 (e' ▸ hz)))
    | R c l e =>
      simp at h
      obtain ⟨h1, h2, h3, h4, h5, h6⟩ := h
      simp only [SlotUpd] at hs
      obtain ⟨s0, s1, s2, s3, s4, s5⟩ := hs
      simp only [ctxIds_cons, Frame.ids_R, h2, elemAt_id, List.cons_append, List.nodup_cons, List.mem_append,
        not_or] at hnd
      obtain ⟨⟨n1, n2⟩, n3⟩ := hnd
      refine ⟨h1, ?_, by rw [s4, h3], s1, ?_, ?_⟩
      · rw [h2]; simp [elemAt, s5]
      · rw [s2]
        exact h5.frame (fun z hz => hag z (by simp [hz]) (fun e' => n1 (e' ▸ hz)))
      · rw [s3, s0]
        exact h6.frame (fun z hz => hag z (by simp [hz]) (fun e' => n2 (e' ▸ hz)))

/-! ### focused trees -/

/-- context `k` around the subtree `t` at address `a` with parent `p`; all node
addresses distinct -/
structure Zip (m : TM) (root : Nat) (k : Ctx) (a p : Nat) (t : Tree) : Prop where
  ctx : CtxShape m root k a p
  sub : Shape m a p t
  nodup : (t.ids ++ ctxIds k).Nodup

theorem Zip.of_isTree {m : TM} {root : Nat} {t : Tree} (h : IsTree m root 0 t) : Zip m root [] root 0 t :=
  ⟨by simp, h.shape, by simpa using h.nodup⟩

theorem Zip.isTree_nil {m : TM} {root a p : Nat} {t : Tree} (h : Zip m root [] a p t) : IsTree m root 0 t := by
  have := h.ctx
  simp at this
  obtain ⟨rfl, rfl⟩ := this
  exact ⟨h.sub, by simpa using h.nodup⟩

/-- move the focus up (the hole is a left child) -/
theorem Zip.upL {m : TM} {root a p : Nat} {c : Color} {e : Elem} {r t : Tree} {k : Ctx}
    (h : Zip m root (.L c e r :: k) a p t) : Zip m root k p (m.pr p) (.node c t e r) := by
  obtain ⟨hc, hs, hn⟩ := h
  simp at hc
  obtain ⟨h1, h2, h3, h4, h5, h6⟩ := hc
  refine ⟨h6, ?_, ?_⟩
  · simp; exact ⟨h1, h2, h3, by rw [h4]; exact hs, h5⟩
  · simpa using hn

theorem Zip.upR {m : TM} {root a p : Nat} {c : Color} {e : Elem} {l t : Tree} {k : Ctx}
    (h : Zip m root (.R c l e :: k) a p t) : Zip m root k p (m.pr p) (.node c l e t) := by
  obtain ⟨hc, hs, hn⟩ := h
  simp at hc
  obtain ⟨h1, h2, h3, h4, h5, h6⟩ := hc
  refine ⟨h6, ?_, ?_⟩
  · simp; exact ⟨h1, h2, h3, h5, by rw [h4]; exact hs⟩
  · have hp : (t.ids ++ (e.id :: l.ids ++ ctxIds k)).Perm ((l.ids ++ e.id :: t.ids) ++ ctxIds k) := by
      have := (perm_swap_mid t.ids l.ids e.id).append_right (ctxIds k)
      simpa using this
    have : (t.ids ++ (e.id :: l.ids ++ ctxIds k)).Nodup := by simpa using hn
    simpa using hp.nodup_iff.mp this

/-- move the focus down to the left child -/
theorem Zip.downL {m : TM} {root a p : Nat} {c : Color} {e : Elem} {l r : Tree} {k : Ctx}
    (h : Zip m root k a p (.node c l e r)) : Zip m root (.L c e r :: k) (m.lf a) a l := by
  obtain ⟨hc, hs, hn⟩ := h
  simp at hs
  obtain ⟨h1, h2, h3, h4, h5, h6⟩ := hs
  refine ⟨?_, h5, ?_⟩
  · simp; exact ⟨h1, h2, h3, h6, by rw [h4]; exact hc⟩
  · simpa using hn

theorem Zip.downR {m : TM} {root a p : Nat} {c : Color} {e : Elem} {l r : Tree} {k : Ctx}
    (h : Zip m root k a p (.node c l e r)) : Zip m root (.R c l e :: k) (m.rt a) a r := by
  obtain ⟨hc, hs, hn⟩ := h
  simp at hs
  obtain ⟨h1, h2, h3, h4, h5, h6⟩ := hs
  refine ⟨?_, h6, ?_⟩
  · simp; exact ⟨h1, h2, h3, h5, by rw [h4]; exact hc⟩
  · have hp : (r.ids ++ (e.id :: l.ids ++ ctxIds k)).Perm ((l.ids ++ e.id :: r.ids) ++ ctxIds k) := by
      have := (perm_swap_mid r.ids l.ids e.id).append_right (ctxIds k)
      simpa using this
    have : ((l.ids ++ e.id :: r.ids) ++ ctxIds k).Nodup := by simpa using hn
    simpa using hp.nodup_iff.mpr this

/-- a focused tree is the whole tree -/
theorem Zip.isTree {m : TM} {root a p : Nat} {k : Ctx} {t : Tree} (h : Zip m root k a p t) :
    IsTree m root 0 (plug k t) := by
  induction k generalizing a p t with
  | nil => exact h.isTree_nil
  | cons f k ih =>
    cases f with
    | L c e r => exact ih h.upL
    | R c l e => exact ih h.upR

/-- the address of the hole's parent is determined by the context -/
def ctxParent : Ctx → Nat
  | [] => 0
  | .L _ e _ :: _ => e.id
  | .R _ _ e :: _ => e.id

theorem CtxShape.parent_eq {m : TM} {root a p : Nat} {k : Ctx} (h : CtxShape m root k a p) : p = ctxParent k := by
  cases k with
  | nil => simp at h; simp [ctxParent, h.2]
  | cons f k => cases f <;> (simp at h; simp [ctxParent, h.2.1])

/-- focus on the subtree at the hole of an inner context -/
theorem Zip.unplug {m : TM} {root : Nat} {K : Ctx} (k : Ctx) : ∀ {a p : Nat} {t : Tree},
    Zip m root K a p (plug k t) → ∃ a' p', Zip m root (k ++ K) a' p' t := by
  induction k with
  | nil => intro a p t h; exact ⟨a, p, h⟩
  | cons f k ih =>
    intro a p t h
    cases f with
    | L c e r =>
      obtain ⟨a', p', h'⟩ := ih (t := .node c t e r) h
      exact ⟨_, _, h'.downL⟩
    | R c l e =>
      obtain ⟨a', p', h'⟩ := ih (t := .node c l e t) h
      exact ⟨_, _, h'.downR⟩

/-- widen the focus by an inner context -/
theorem Zip.plugUp {m : TM} {root : Nat} {K : Ctx} (k : Ctx) : ∀ {a p : Nat} {t : Tree},
    Zip m root (k ++ K) a p t → ∃ a' p', Zip m root K a' p' (plug k t) := by
  induction k with
  | nil => intro a p t h; exact ⟨a, p, h⟩
  | cons f k ih =>
    intro a p t h
    cases f with
    | L c e r => exact ih (t := .node c t e r) h.upL
    | R c l e => exact ih (t := .node c l e t) h.upR

theorem Zip.of_plug {m : TM} {root : Nat} {k : Ctx} {t : Tree} (h : IsTree m root 0 (plug k t)) :
    ∃ a p, Zip m root k a p t := by
  have := Zip.unplug (K := []) k (Zip.of_isTree h)
  simpa using this

end Cstl.TreeL
