import Cstl.TreeL.BtRefine
import Cstl.TreeL.Dir
/-
Functional side of the red-black erase: the recursion of `del` / `popMin` on
the way back up is `unwindD` over the context of the node that was unlinked.
-/
set_option linter.unusedSimpArgs false
namespace Cstl.TreeL
open Cstl.Tree (Color Elem Tree)
open Cstl.Tree.Color Cstl.Tree.Tree
open Cstl.Tree

/-- what the recursion of `del` does on the way back up through a context -/
def unwindD : Ctx → Tree × Bool → Option (Tree × Bool)
  | [], res => some res
  | .L c e r :: k, res => (afterL c e r res).bind (unwindD k)
  | .R c l e :: k, res => (afterR c l e res).bind (unwindD k)

theorem unwindD_false (k : Ctx) (t : Tree) : unwindD k (t, false) = some (plug k t, false) := by
  induction k generalizing t with
  | nil => rfl
  | cons f k ih => cases f <;> simp [unwindD, afterL, afterR, ih]

theorem unwindD_append (k1 k2 : Ctx) (res : Tree × Bool) :
    unwindD (k1 ++ k2) res = (unwindD k1 res).bind (unwindD k2) := by
  induction k1 generalizing res with
  | nil => simp [unwindD]
  | cons f k ih =>
    cases f with
    | L c e r =>
      simp only [List.cons_append, unwindD]
      cases afterL c e r res <;> simp [ih]
    | R c l e =>
      simp only [List.cons_append, unwindD]
      cases afterR c l e res <;> simp [ih]

theorem del_plug {key : Int} (k : Ctx) : ∀ (t : Tree), DelPath key k →
    del key (plug k t) = (del key t).bind (unwindD k) := by
  induction k with
  | nil => intro t _; simp [unwindD]
  | cons f k ih =>
    intro t hp
    cases f with
    | L c e r =>
      obtain ⟨h1, h2, h3⟩ := hp
      rw [plug_L, ih _ h3]
      simp only [del, h1, h2, if_false, if_true, unwindD]
      cases del key t <;> simp
    | R c l e =>
      obtain ⟨h1, h2, h3⟩ := hp
      rw [plug_R, ih _ h3]
      simp only [del, h1, h2, if_false, unwindD]
      cases del key t <;> simp

/-- `popMin` on a non-empty tree: unlink the leftmost node, then fix up along the left spine -/
theorem popMin_eq : ∀ (t : Tree) (c : Color) (l : Tree) (e : Elem) (r : Tree) (cy : Color) (ye : Elem) (ry : Tree),
    t = .node c l e r → minSub t = .node cy .nil ye ry →
    popMin c e r l = (unwindD (spine t) (removeOne cy ry)).map (fun res => (ye, res)) := by
  intro t
  induction t with
  | nil => intro c l e r cy ye ry h; cases h
  | node c0 l0 e0 r0 ihl _ =>
    intro c l e r cy ye ry h hm
    cases h
    cases l0 with
    | nil =>
      simp only [minSub, Tree.node.injEq] at hm
      obtain ⟨rfl, _, rfl, rfl⟩ := hm
      simp [popMin, spine, unwindD]
    | node lc ll le lr =>
      simp only [minSub] at hm
      have := ihl lc ll le lr cy ye ry rfl hm
      simp only [popMin, this, spine, unwindD_append]
      cases unwindD (spine (.node lc ll le lr)) (removeOne cy ry) with
      | none => simp
      | some res =>
        simp only [Option.map_some, Option.bind_some, unwindD]
        cases afterL c0 e0 r0 res <;> simp

theorem delRoot_one (c : Color) (l r : Tree) (e : Elem) (hone : l = .nil ∨ r = .nil) :
    delRoot c l e r = some (removeOne c (onlyChild l r)) := by
  rcases hone with rfl | rfl
  · rfl
  · cases l <;> rfl

theorem delRoot_two (c : Color) {l r ry : Tree} (e : Elem) {cy : Color} {ye : Elem} (hl : l ≠ .nil) (hr : r ≠ .nil)
    (hm : minSub r = .node cy .nil ye ry) :
    delRoot c l e r = unwindD (spine r ++ [.R c l ye]) (removeOne cy ry) := by
  cases l with
  | nil => exact absurd rfl hl
  | node lc ll le lr =>
    cases r with
    | nil => exact absurd rfl hr
    | node rc rl re rr =>
      simp only [delRoot, popMin_eq _ rc rl re rr cy ye ry rfl hm, unwindD_append]
      cases unwindD (spine (.node rc rl re rr)) (removeOne cy ry) with
      | none => simp
      | some res =>
        simp only [Option.map_some, Option.bind_some, unwindD]
        cases afterR c (.node lc ll le lr) ye res <;> simp

/-! ### direction-generic form of `fixL` / `fixR` -/

/-- `fixBL` / `fixBR`: `x` (short) on the `l`-side, sibling `w` (taken as black) on the `r`-side -/
def fixBD (d : Bool) (c : Color) (x : Tree) (e : Elem) (w : Tree) : Option (Tree × Bool) :=
  if d then fixBL c x e w else fixBR c w e x

def fixD (d : Bool) (c : Color) (x : Tree) (e : Elem) (w : Tree) : Option (Tree × Bool) :=
  if d then fixL c x e w else fixR c w e x

theorem unwindD_mkFrame (d : Bool) (c : Color) (e : Elem) (w : Tree) (K : Ctx) (x : Tree) :
    unwindD (mkFrame d c e w :: K) (x, true) = (fixD d c x e w).bind (unwindD K) := by
  cases d <;> rfl

theorem fixD_red (d : Bool) (c : Color) (x : Tree) (e we : Elem) (wn wf : Tree) :
    fixD d c x e (mkNode d red wn we wf) =
      (fixBD d red x e wn).map (fun r => (mkNode d black r.1 we wf, false)) := by
  cases d
  · simp only [fixD, fixBD, mkNode_false, fixR, Bool.false_eq_true, if_false]
    cases fixBR red wn e x <;> simp
  · simp only [fixD, fixBD, mkNode_true, fixL, if_true]
    cases fixBL red x e wn <;> simp

theorem fixD_notRed (d : Bool) (c : Color) (x : Tree) (e : Elem) (w : Tree) (hw : w.isRed = false) :
    fixD d c x e w = fixBD d c x e w := by
  cases d
  · simp only [fixD, fixBD, Bool.false_eq_true, if_false]
    cases w with
    | nil => rfl
    | node cw wl we wr => cases cw <;> simp [Tree.isRed] at hw <;> rfl
  · simp only [fixD, fixBD, if_true]
    cases w with
    | nil => rfl
    | node cw wl we wr => cases cw <;> simp [Tree.isRed] at hw <;> rfl

theorem fixBD_nil (d : Bool) (c : Color) (x : Tree) (e : Elem) : fixBD d c x e .nil = none := by
  cases d <;> rfl

/-- far nephew red -/
theorem fixBD_far (d : Bool) (c cw : Color) (x : Tree) (e we : Elem) (wn wf : Tree) (hf : wf.isRed = true) :
    fixBD d c x e (mkNode d cw wn we wf) = some (mkNode d c (mkNode d black x e wn) we wf.blacken, false) := by
  cases wf with
  | nil => simp [Tree.isRed] at hf
  | node cf fa fe fb =>
    cases cf <;> simp [Tree.isRed] at hf
    cases d <;> simp [fixBD, fixBL, fixBR, Tree.blacken]

/-- far nephew black, near nephew red -/
theorem fixBD_near (d : Bool) (c cw : Color) (x : Tree) (e we ne : Elem) (na nb wf : Tree) (hf : wf.isRed = false) :
    fixBD d c x e (mkNode d cw (mkNode d red na ne nb) we wf) =
      some (mkNode d c (mkNode d black x e na) ne (mkNode d black nb we wf), false) := by
  cases wf with
  | nil => cases d <;> simp [fixBD, fixBL, fixBR]
  | node cf fa fe fb =>
    cases cf <;> simp [Tree.isRed] at hf
    cases d <;> simp [fixBD, fixBL, fixBR]

/-- both nephews black -/
theorem fixBD_none (d : Bool) (c cw : Color) (x : Tree) (e we : Elem) (wn wf : Tree) (hn : wn.isRed = false)
    (hf : wf.isRed = false) :
    fixBD d c x e (mkNode d cw wn we wf) = some (mkNode d black x e (mkNode d red wn we wf), c == black) := by
  cases wf with
  | nil =>
    cases wn with
    | nil => cases d <;> simp [fixBD, fixBL, fixBR]
    | node cn na ne nb =>
      cases cn <;> simp [Tree.isRed] at hn
      cases d <;> simp [fixBD, fixBL, fixBR]
  | node cf fa fe fb =>
    cases cf <;> simp [Tree.isRed] at hf
    cases wn with
    | nil => cases d <;> simp [fixBD, fixBL, fixBR]
    | node cn na ne nb =>
      cases cn <;> simp [Tree.isRed] at hn
      cases d <;> simp [fixBD, fixBL, fixBR]

end Cstl.TreeL
