import Cstl.SList.Model
import Cstl.Tree.Model
/-
Link-level model of src/bintree.c and src/rbtree.c (core Lean only).

Memory is the three link fields `p`, `l`, `r` of every `struct
cstl_bintree_node` as functions from addresses to addresses (`0` = NULL), the
colour member of the enclosing `struct cstl_rbtree_node`, and the key the
comparison function reads from the element.  A tree header is the root pointer
and `size`.  One update per C assignment, in the C order.

The `__cstl_bintree_child_func_t * l, * r` parameters of rotate / fix_insertion
/ fix_deletion are a `Bool`: `d = true` means `l = __cstl_bintree_left`,
`r = __cstl_bintree_right`; `d = false` is the call with the two exchanged.

`none` = the C code would read or write through NULL at that point, or a loop
did not finish within its fuel (Props.lean: neither happens from a state that
represents a tree).  NULL checks are placed exactly where the C code
dereferences a pointer that no dominating test of the C code has compared
with NULL.
-/
namespace Cstl.TreeL
open Cstl.SList (Mem upd)
open Cstl.Tree (Color Elem Tree)
open Cstl.Tree.Color

/-- memory: link fields, colour, key (the key is never written by the library) -/
structure TM where
  pr : Mem
  lf : Mem
  rt : Mem
  cl : Nat → Color
  key : Nat → Int

/-- `struct cstl_bintree` (`off`, `cmp` are constants and not modelled) -/
structure Hd where
  root : Nat
  size : Nat
deriving Repr, DecidableEq, Inhabited

def updC (f : Nat → Color) (a : Nat) (c : Color) : Nat → Color := fun x => if x = a then c else f x
def updK (f : Nat → Int) (a : Nat) (k : Int) : Nat → Int := fun x => if x = a then k else f x

@[simp] theorem updC_same (f : Nat → Color) (a : Nat) (c : Color) : updC f a c a = c := by simp [updC]
theorem updC_other (f : Nat → Color) (a : Nat) (c : Color) (x : Nat) (h : x ≠ a) : updC f a c x = f x := by
  simp [updC, h]

/-- `a->p = v` -/
def setP (m : TM) (a v : Nat) : TM := { m with pr := upd m.pr a v }
/-- `a->l = v` -/
def setLf (m : TM) (a v : Nat) : TM := { m with lf := upd m.lf a v }
/-- `a->r = v` -/
def setRt (m : TM) (a v : Nat) : TM := { m with rt := upd m.rt a v }
/-- `*BN_COLOR(a) = c` -/
def setC (m : TM) (a : Nat) (c : Color) : TM := { m with cl := updC m.cl a c }

/-- `*l(a)` -/
def chL (m : TM) (d : Bool) (a : Nat) : Nat := if d then m.lf a else m.rt a
/-- `*r(a)` -/
def chR (m : TM) (d : Bool) (a : Nat) : Nat := if d then m.rt a else m.lf a
/-- `*l(a) = v` -/
def setChL (m : TM) (d : Bool) (a v : Nat) : TM := if d then setLf m a v else setRt m a v
/-- `*r(a) = v` -/
def setChR (m : TM) (d : Bool) (a v : Nat) : TM := if d then setRt m a v else setLf m a v

/-- the element a node address stands for -/
def elemAt (m : TM) (a : Nat) : Elem := { key := m.key a, id := a }

/-! ### cstl_bintree_insert -/

/-- what `bc` points at: `&bt->root`, the local `bp`, `&a->l`, `&a->r` -/
inductive Loc where
  | root
  | bp
  | lf (a : Nat)
  | rt (a : Nat)
deriving Repr, DecidableEq

/-- `*bc` -/
def rdLoc (m : TM) (h : Hd) (bp : Nat) : Loc → Nat
  | .root => h.root
  | .bp => bp
  | .lf a => m.lf a
  | .rt a => m.rt a

/-- `while (*bc != NULL) { bp = *bc; bc = cmp(bn, bp) < 0 ? &bp->l : &bp->r; }` -/
def insLoop (m : TM) (h : Hd) (bn : Nat) : Nat → Nat → Loc → Option (Nat × Loc)
  | 0, bp, bc => if rdLoc m h bp bc = 0 then some (bp, bc) else none
  | fuel + 1, bp, bc =>
    if rdLoc m h bp bc = 0 then some (bp, bc)
    else
      let bp' := rdLoc m h bp bc
      if m.key bn < m.key bp' then insLoop m h bn fuel bp' (.lf bp')
      else insLoop m h bn fuel bp' (.rt bp')

/-- `bn->p = bp; bn->l = NULL; bn->r = NULL; *bc = bn; bt->size++` -/
def attach (m : TM) (h : Hd) (bn bp : Nat) (bc : Loc) : TM × Hd :=
  let m1 := setP m bn bp
  let m2 := setLf m1 bn 0
  let m3 := setRt m2 bn 0
  match bc with
  | .root => (m3, { root := bn, size := h.size + 1 })
  | .bp => (m3, { h with size := h.size + 1 })          -- the store goes to the local variable
  | .lf a => (setLf m3 a bn, { h with size := h.size + 1 })
  | .rt a => (setRt m3 a bn, { h with size := h.size + 1 })

/-- `cstl_bintree_insert(bt, e, p)`; `p = 0` is the call without a hint.
The key of the new element is already in `m.key bn`. -/
def btInsert (m : TM) (h : Hd) (bn p : Nat) : Option (TM × Hd) :=
  let start : Nat × Loc := if p ≠ 0 then (p, .bp) else (h.root, .root)
  match insLoop m h bn (h.size + 1) start.1 start.2 with
  | none => none
  | some (bp, bc) => some (attach m h bn bp bc)

/-! ### cstl_bintree_find -/

/-- the loop of `cstl_bintree_find` for a probe with key `k`: (node found or 0, `p`) -/
def findLoop (m : TM) (k : Int) : Nat → Nat → Nat → Option (Nat × Nat)
  | 0, bn, p => if bn = 0 then some (0, p) else none
  | fuel + 1, bn, p =>
    if bn = 0 then some (0, p)
    else if k = m.key bn then some (bn, p)
    else if k < m.key bn then findLoop m k fuel (m.lf bn) bn
    else findLoop m k fuel (m.rt bn) bn

def btFind (m : TM) (h : Hd) (k : Int) : Option (Nat × Nat) := findLoop m k (h.size + 1) h.root 0

/-! ### __cstl_bintree_erase -/

/-- `cstl_bintree_slide(bn, ch)`: `while ((c = *ch(bn)) != NULL) bn = c;` -/
def slide (m : TM) (d : Bool) : Nat → Nat → Option Nat
  | 0, a => if chL m d a = 0 then some a else none
  | fuel + 1, a => if chL m d a = 0 then some a else slide m d fuel (chL m d a)

/-- replace `y` by `x` as a child of `y`'s parent:
`if (y->p == NULL) bt->root = x; else if (y == y->p->l) y->p->l = x; else y->p->r = x;` -/
def replaceChild (m : TM) (h : Hd) (y x : Nat) : TM × Hd :=
  (if m.pr y = 0 then m else if y = m.lf (m.pr y) then setLf m (m.pr y) x else setRt m (m.pr y) x,
   if m.pr y = 0 then { h with root := x } else h)

/-- `__cstl_bintree_erase(bt, bn)`: the new memory and header, and the returned `y`.
`__cstl_bintree_next(bn)` is called under `bn->r != NULL`, where it is the
slide to the leftmost node of the right subtree. -/
def btEraseNode (m : TM) (h : Hd) (bn : Nat) : Option (TM × Hd × Nat) :=
  match (if m.lf bn ≠ 0 ∧ m.rt bn ≠ 0 then slide m true h.size (m.rt bn) else some bn) with
  | none => none
  | some y =>
    let x := if m.lf y ≠ 0 then m.lf y else m.rt y
    let m1 := if x ≠ 0 then setP m x (m.pr y) else m             -- x->p = y->p
    let r2 := replaceChild m1 h y x
    let m2 := r2.1
    let h2 := r2.2
    if y ≠ bn then
      let tp := m2.pr y                                           -- t = *y
      let tl := m2.lf y
      let tr := m2.rt y
      let r3 := replaceChild m2 h2 bn y
      let m3 := r3.1
      let h3 := r3.2
      let m4 := if m3.lf bn ≠ 0 then setP m3 (m3.lf bn) y else m3  -- bn->l->p = y
      let m5 := if m4.rt bn ≠ 0 then setP m4 (m4.rt bn) y else m4  -- bn->r->p = y
      let m6 := setRt (setLf (setP m5 y (m5.pr bn)) y (m5.lf bn)) y (m5.rt bn)   -- *y = *bn
      let m7 := setRt (setLf (setP m6 bn tp) bn tl) bn tr                        -- *bn = t
      let m8 := if m7.pr bn = bn then setP m7 bn y else m7
      some (m8, { h3 with size := h3.size - 1 }, y)
    else some (m2, { h2 with size := h2.size - 1 }, y)

/-- `cstl_bintree_erase` for a probe with key `k`: the erased node (0 = NULL) -/
def btErase (m : TM) (h : Hd) (k : Int) : Option (TM × Hd × Nat) :=
  match btFind m h k with
  | none => none
  | some (n, _) =>
    if n = 0 then some (m, h, 0)
    else
      match btEraseNode m h n with
      | none => none
      | some (m', h', _) => some (m', h', n)

/-! ### __cstl_bintree_rotate -/

/-- `__cstl_bintree_rotate(bt, x, l, r)`.  `assert(y != NULL)` is compiled out
(NDEBUG); with `y == NULL` the next statement reads `*l(y)` through NULL. -/
def rotate (m : TM) (h : Hd) (x : Nat) (d : Bool) : Option (TM × Hd) :=
  if x = 0 then none else
  let y := chR m d x
  if y = 0 then none else
  let m1 := setChR m d x (chL m d y)                              -- *r(x) = *l(y)
  let m2 := if chL m1 d y ≠ 0 then setP m1 (chL m1 d y) x else m1  -- (*l(y))->p = x
  let m3 := setP m2 y (m2.pr x)                                   -- y->p = x->p
  let m4 :=                                                       -- x's parent (or the root) points at y
    if m3.pr x = 0 then m3
    else if x = chL m3 d (m3.pr x) then setChL m3 d (m3.pr x) y
    else setChR m3 d (m3.pr x) y
  let h4 := if m3.pr x = 0 then { h with root := y } else h
  let m5 := setChL m4 d y x                                       -- *l(y) = x
  let m6 := setP m5 x y                                           -- x->p = y
  some (m6, h4)

/-! ### cstl_rbtree_insert -/

/-- `cstl_rbtree_fix_insertion(t, x, l, r)`; the caller has tested `x->p != NULL` -/
def fixInsertion (m : TM) (h : Hd) (x : Nat) (d : Bool) : Option (TM × Hd × Nat) :=
  let p := m.pr x
  if p = 0 then none else
  let g := m.pr p
  if g = 0 then none else
  let y := chR m d g
  if y ≠ 0 ∧ m.cl y = red then
    let m1 := setC m p black
    let m2 := setC m1 y black
    let m3 := setC m2 g red
    some (m3, h, g)
  else
    match (if x = chR m d p then
             match rotate m h p d with                     -- x = x->p; rotate(t, x, l, r)
             | none => none
             | some (m', h') => some (m', h', p)
           else some (m, h, x)) with
    | none => none
    | some (m1, h1, x1) =>
      let p1 := m1.pr x1
      if p1 = 0 then none else
      let m2 := setC m1 p1 black
      let g1 := m2.pr p1
      if g1 = 0 then none else
      let m3 := setC m2 g1 red
      match rotate m3 h1 g1 (!d) with                       -- rotate(t, x->p->p, r, l)
      | none => none
      | some (m4, h4) => some (m4, h4, x1)

/-- `while (x->p != NULL && *BN_COLOR(x->p) == R) { … }` -/
def insFixLoop : Nat → TM → Hd → Nat → Option (TM × Hd)
  | 0, m, h, x => if m.pr x ≠ 0 ∧ m.cl (m.pr x) = red then none else some (m, h)
  | fuel + 1, m, h, x =>
    if m.pr x ≠ 0 ∧ m.cl (m.pr x) = red then
      let p := m.pr x
      let g := m.pr p
      if g = 0 then none                                    -- reads x->p->p->l
      else
        match fixInsertion m h x (decide (p = m.lf g)) with
        | none => none
        | some (m', h', x') => insFixLoop fuel m' h' x'
    else some (m, h)

/-- `cstl_rbtree_insert(t, e, p)` -/
def rbInsert (m : TM) (h : Hd) (n p : Nat) : Option (TM × Hd) :=
  match btInsert m h n p with
  | none => none
  | some (m1, h1) =>
    let m2 := setC m1 n red
    match insFixLoop (h1.size + 1) m2 h1 n with
    | none => none
    | some (m3, h3) =>
      if h3.root = 0 then none else some (setC m3 h3.root black, h3)

/-! ### __cstl_rbtree_erase -/

/-- `x == NULL || *BN_COLOR(x) == B` -/
def blackOrNull (m : TM) (a : Nat) : Bool := a = 0 || m.cl a = black

/-- first part of `cstl_rbtree_fix_deletion(t, x, l, r)`: `w = *r(x->p)`; a red sibling is rotated
above the parent (`w` then is the new sibling).  Returns the memory, header and `w`.
The caller has tested `x->p != NULL`. -/
def fixDelSibling (m : TM) (h : Hd) (x : Nat) (d : Bool) : Option (TM × Hd × Nat) :=
  let w := chR m d (m.pr x)
  if w = 0 then none else
  if m.cl w = red then
    let m1 := setC m w black
    let m2 := setC m1 (m1.pr x) red
    match rotate m2 h (m2.pr x) d with
    | none => none
    | some (m3, h3) => some (m3, h3, chR m3 d (m3.pr x))
  else some (m, h, w)

/-- last part: the far child of `w` is red: recolour, rotate the parent, `x = t->root` -/
def fixDelFar (m2 : TM) (h2 : Hd) (x : Nat) (d : Bool) (w2 : Nat) : Option (TM × Hd × Nat) :=
  if w2 = 0 then none else
  let m3 := setC m2 w2 (m2.cl (m2.pr x))
  let m4 := setC m3 (m3.pr x) black
  if chR m4 d w2 = 0 then none else
  let m5 := setC m4 (chR m4 d w2) black
  match rotate m5 h2 (m5.pr x) d with
  | none => none
  | some (m6, h6) => some (m6, h6, h6.root)

/-- second part: `w` has two black children / a red near child only / a red far child -/
def fixDelCases (m1 : TM) (h1 : Hd) (x : Nat) (d : Bool) (w1 : Nat) : Option (TM × Hd × Nat) :=
  if w1 = 0 then none else
  if blackOrNull m1 (chL m1 d w1) && blackOrNull m1 (chR m1 d w1) then
    let m2 := setC m1 w1 red
    some (m2, h1, m2.pr x)
  else
    match (if blackOrNull m1 (chR m1 d w1) then
             if chL m1 d w1 = 0 then none else
             let m2 := setC m1 (chL m1 d w1) black
             let m3 := setC m2 w1 red
             match rotate m3 h1 w1 (!d) with
             | none => none
             | some (m4, h4) => some (m4, h4, chR m4 d (m4.pr x))
           else some (m1, h1, w1)) with
    | none => none
    | some (m2, h2, w2) => fixDelFar m2 h2 x d w2

/-- `cstl_rbtree_fix_deletion(t, x, l, r)` -/
def fixDeletion (m : TM) (h : Hd) (x : Nat) (d : Bool) : Option (TM × Hd × Nat) :=
  match fixDelSibling m h x d with
  | none => none
  | some (m1, h1, w1) => fixDelCases m1 h1 x d w1

/-- `while (x->p != NULL && *BN_COLOR(x) == B) { … }`; `sx` is the address of
the stack-local stand-in `_x.n` -/
def delFixLoop (sx : Nat) : Nat → TM → Hd → Nat → Option (TM × Hd × Nat)
  | 0, m, h, x =>
    if x = 0 then none
    else if m.pr x ≠ 0 ∧ m.cl x = black then none else some (m, h, x)
  | fuel + 1, m, h, x =>
    if x = 0 then none
    else if m.pr x ≠ 0 ∧ m.cl x = black then
      let d := decide (x = m.lf (m.pr x)) || (decide (x = sx) && decide (m.lf (m.pr x) = 0))
      match fixDeletion m h x d with
      | none => none
      | some (m', h', x') => delFixLoop sx fuel m' h' x'
    else some (m, h, x)

/-- the `if (c == CSTL_RBTREE_COLOR_B) { … }` block of `__cstl_rbtree_erase`: pick `x` (a child
the erased node `n` is left with, or the stand-in `_x` with `x->p = n->n.p` and colour black), run
the loop, paint `x` black -/
def rbEraseFix (m2 : TM) (h1 : Hd) (n sx fuel : Nat) : Option (TM × Hd) :=
  let r3 : TM × Nat :=
    if m2.lf n ≠ 0 then (m2, m2.lf n)
    else if m2.rt n ≠ 0 then (m2, m2.rt n)
    else (setC (setP m2 sx (m2.pr n)) sx black, sx)
  match delFixLoop sx fuel r3.1 h1 r3.2 with
  | none => none
  | some (m4, h4, x4) => some (setC m4 x4 black, h4)

/-- `__cstl_rbtree_erase(t, n)`; `sx` = address of the local `_x.n` -/
def rbEraseNode (m : TM) (h : Hd) (n sx : Nat) : Option (TM × Hd) :=
  match btEraseNode m h n with
  | none => none
  | some (m1, h1, y) =>
    let c := m1.cl y
    let m2 := setC m1 y (m1.cl n)
    if c = black then rbEraseFix m2 h1 n sx (h.size + 1)
    else some (m2, h1)

/-- `cstl_rbtree_erase` for a probe with key `k` -/
def rbErase (m : TM) (h : Hd) (k : Int) (sx : Nat) : Option (TM × Hd × Nat) :=
  match btFind m h k with
  | none => none
  | some (n, _) =>
    if n = 0 then some (m, h, 0)
    else
      match rbEraseNode m h n sx with
      | none => none
      | some (m', h') => some (m', h', n)

/-! ### cstl_heap_promote_child (src/heap.c) -/

/-- `cstl_heap_promote_child(h, c)`: the node `c` and its parent `p` exchange positions; the six
neighbours (grandparent, sibling, `c`'s two children) are re-linked.  `assert(p != NULL)` is
compiled out; the callers test `n->p != NULL` first.  The two `cstl_swap` calls exchange one
pointer member through a temporary. -/
def promoteChild (m : TM) (h : Hd) (c : Nat) : TM × Hd :=
  let p := m.pr c
  let m1 :=                                                       -- p's parent (or the root) points at c
    if m.pr p = 0 then m
    else if m.lf (m.pr p) = p then setLf m (m.pr p) c
    else setRt m (m.pr p) c
  let h1 := if m.pr p = 0 then { h with root := c } else h
  let m2 := if m1.lf c ≠ 0 then setP m1 (m1.lf c) p else m1       -- c->l->p = p
  let m3 := if m2.rt c ≠ 0 then setP m2 (m2.rt c) p else m2       -- c->r->p = p
  let m4 := if m3.rt p ≠ 0 then setP m3 (m3.rt p) c else m3       -- p->r->p = c
  let m5 := if m4.lf p ≠ 0 then setP m4 (m4.lf p) c else m4       -- p->l->p = c
  let m6 := setP m5 c (m5.pr p)                                   -- c->p = p->p
  let m7 := setP m6 p c                                           -- p->p = c
  let m8 :=
    if m7.lf p = c then
      let a1 := setLf m7 p (m7.lf c)                              -- p->l = c->l
      let a2 := setLf a1 c p                                      -- c->l = p
      let sw := a2.rt c                                           -- cstl_swap(&c->r, &p->r, …)
      let a3 := setRt a2 c (a2.rt p)
      setRt a3 p sw
    else
      let a1 := setRt m7 p (m7.rt c)                              -- p->r = c->r
      let a2 := setRt a1 c p                                      -- c->r = p
      let sw := a2.lf c                                           -- cstl_swap(&c->l, &p->l, …)
      let a3 := setLf a2 c (a2.lf p)
      setLf a3 p sw
  (m8, h1)

/-! ### operation histories on one container (the step functions of the history theorems; the
driver executes every standard operation through them) -/

/-- one container: memory and header -/
structure LS where
  m : TM
  h : Hd

inductive LOp where
  /-- store `key` in element `n`, then insert(n, NULL) -/
  | ins (n : Nat) (key : Int)
  /-- store `key` in element `n`, find(key, &par), insert(n, par) -/
  | insHint (n : Nat) (key : Int)
  | find (key : Int)
  | erase (key : Int)
  /-- cstl_bintree_clear: the header part (`root = NULL; size = 0` when the tree is not empty);
  the traversal does not write (it is evaluated on the tree read off the links) -/
  | clear

/-- the harness stores the key in the element before handing it to the library -/
def setKey (m : TM) (n : Nat) (key : Int) : TM := { m with key := updK m.key n key }

def clearHd (h : Hd) : Hd := if h.root ≠ 0 then { root := 0, size := 0 } else h

/-- one operation on a `struct cstl_bintree`: new state, the node found / erased (0 = NULL, 0 for
inserts) and find's `par` / the hint used (0 otherwise); `none` = NULL dereference or loop overrun -/
def btStepL (s : LS) : LOp → Option (LS × Nat × Nat)
  | .ins n key =>
    match btInsert (setKey s.m n key) s.h n 0 with
    | none => none
    | some (m', h') => some (⟨m', h'⟩, 0, 0)
  | .insHint n key =>
    match btFind s.m s.h key with
    | none => none
    | some (_, par) =>
      match btInsert (setKey s.m n key) s.h n par with
      | none => none
      | some (m', h') => some (⟨m', h'⟩, 0, par)
  | .find key =>
    match btFind s.m s.h key with
    | none => none
    | some (n, par) => some (s, n, par)
  | .erase key =>
    match btErase s.m s.h key with
    | none => none
    | some (m', h', n) => some (⟨m', h'⟩, n, 0)
  | .clear => some (⟨s.m, clearHd s.h⟩, 0, 0)

/-- one operation on a `struct cstl_rbtree`; `sx` = address of the stand-in node of erase -/
def rbStepL (sx : Nat) (s : LS) : LOp → Option (LS × Nat × Nat)
  | .ins n key =>
    match rbInsert (setKey s.m n key) s.h n 0 with
    | none => none
    | some (m', h') => some (⟨m', h'⟩, 0, 0)
  | .insHint n key =>
    match btFind s.m s.h key with
    | none => none
    | some (_, par) =>
      match rbInsert (setKey s.m n key) s.h n par with
      | none => none
      | some (m', h') => some (⟨m', h'⟩, 0, par)
  | .find key =>
    match btFind s.m s.h key with
    | none => none
    | some (n, par) => some (s, n, par)
  | .erase key =>
    match rbErase s.m s.h key sx with
    | none => none
    | some (m', h', n) => some (⟨m', h'⟩, n, 0)
  | .clear => some (⟨s.m, clearHd s.h⟩, 0, 0)

/-- run a history, collecting the results -/
def runL (step : LS → LOp → Option (LS × Nat × Nat)) : LS → List LOp → Option (LS × List (Nat × Nat))
  | s, [] => some (s, [])
  | s, op :: ops =>
    match step s op with
    | none => none
    | some (s', o) =>
      match runL step s' ops with
      | none => none
      | some (s'', os) => some (s'', o :: os)

/-! ### reading a tree off the links (used by the driver's dump and by Props) -/

/-- walk the links below `a`, whose parent must be `p`; `.error id` = the parent
link of node `id` does not point back (`-2`: more nodes than the budget, i.e. a
cycle).  Pre-order, like `verify` in harness/tree.c.  Returns the tree and the
remaining node budget. -/
def readTree (m : TM) : Nat → Nat → Nat → Nat → Except Int (Tree × Nat)
  | 0, a, _, b => if a = 0 then .ok (.nil, b) else .error (-2)
  | fuel + 1, a, p, b =>
    if a = 0 then .ok (.nil, b)
    else if b = 0 then .error (-2)
    else if m.pr a ≠ p then .error (Int.ofNat a)
    else
      match readTree m fuel (m.lf a) a (b - 1) with
      | .error e => .error e
      | .ok (l, b1) =>
        match readTree m fuel (m.rt a) a b1 with
        | .error e => .error e
        | .ok (r, b2) => .ok (.node (m.cl a) l (elemAt m a) r, b2)

end Cstl.TreeL
